"""C16 — plots draw the periodic lattice completely, once, and in the right colours.

S (spec check on the implementation's artists, exact arithmetic by the extracted checker):
  per selected edge: drawn pieces are periodic images of the edge, their Liang–Barsky clip
  lengths in the closed cell sum to 1, clip intervals of different images do not overlap,
  colour = scheme[label]; per selected plaquette: drawn polygons are distinct integer
  translates of the unwrapped plaquette, clipped areas sum to the plaquette's area, no two
  drawn polygons overlap inside the cell, colour = scheme[label]; vertices at positions;
  labels per element == labels per subset element; line_intersection == exact predicate.
K: the Gallina model's drawn set (Model/Plot.v) vs the artists; the glue of Model/PlotGlue.v (colour resolution, defaults,
   color= keyword, plot_dual) vs _process_plot_args and the artists (harness/c16x.py); a sample of the driver's answers is
   re-derived inside Coq (vm_compute) on every run."""
from lib import *  # noqa
import gen
import time
import matplotlib
matplotlib.use("Agg")
from matplotlib.figure import Figure
from matplotlib.colors import to_rgba
from matplotlib.collections import LineCollection, PolyCollection, PathCollection
from matplotlib.patches import FancyArrow
from koala import plotting as kp
from koala.lattice import Lattice, LatticeException

DRIVERS = ("c16",)
MODEL_TARGETS = ["Model/Clip.vo", "Model/Plot.vo", "Model/PlotGlue.vo"]
TARGETS = ["Proofs/ClipFacts.vo", "Proofs/PlotFacts.vo", "Proofs/VisFacts.vo", "Proofs/CoverFacts.vo", "Proofs/PlaqFacts.vo",
           "Proofs/PolyAreaFacts.vo", "Proofs/PolyCellFacts.vo", "Proofs/PolyRegionFacts.vo", "Proofs/PlaqCoverFacts.vo",
           "Proofs/PolyStrictFacts.vo", "Proofs/PolyExactFacts.vo", "Proofs/PlaqPointFacts.vo",
           "Proofs/ClipAnyFacts.vo", "Proofs/ClipGenArea.vo", "Proofs/PlotGlueFacts.vo", "Proofs/EdgePiecesFacts.vo"]
LEVEL = "proof"
TRUST = [
    "hand-written Gallina model coq/Model/Plot.v of plotting.py (_process_plot_args, _broadcast_args, plot_vertices/edges/plaquettes replication rules, "
    "_lines_cross_unit_cell, _line_fully_in_unit_cell, _lines_cross_any_cell_boundary, _replicate_polygon, line_intersection): modelled, not verified; tied to the code by the correspondence run",
    "matplotlib: the artists added to the Axes (LineCollection segments/colours, PolyCollection paths/facecolours, scatter offsets, FancyArrow) are what is observed; rasterisation is out of scope",
    "float rounding of t / positions: drawn coordinates are compared with the exact model within 1e-9; edges/plaquettes whose visibility decision is within 1e-9 of a threshold "
    "(end point on a cell line, axis-aligned edge on a cell line) are counted and skipped (genericity clause)",
    "Sutherland–Hodgman clipping + shoelace area in coq/Model/Clip.v used by the spec checker for plaquette areas is executable but not proved correct (the edge clip interval IS proved: C16_clip_interval_correct)",
    "exact-grid stream (vertices on the 1/8 grid, also ON cell lines, edge vectors in {0,+-1/8,+-1/4,+-1/2}): float arithmetic of the rules is exact there, model and implementation must agree (K); the property itself is not claimed on cell lines (S skipped)",
    "the subset has exactly N elements: a length-N label array is the per-element form by definition (lead decision); only that reading is generated and checked there",
    "hand-written Gallina model coq/Model/PlotGlue.v of the remaining glue (colour-scheme resolution: str scheme, np.array of strings with numpy's fixed-width "
    "truncation on color_scheme[0] = kwargs['color'], the default arguments, what color= does to each artist, plot_dual = plot_edges o make_dual with Model/Dual.v): "
    "modelled, not verified; tied to the code by correspondence runs on _process_plot_args (function level) and on the artists; schemes that are not lists of strings are not modelled; "
    "matplotlib's is_color_like and scatter's c-versus-color rule are observed, not modelled",
    "extraction + OCaml driver: a sample of the driver's answers of every command is re-derived inside Coq by vm_compute on the same literals (harness/c16x.py, harness/xcheck.py) on every run; "
    "the rest of the answers rely on the extraction and the hand-written driver/hexio",
]
ASSUMPTIONS = ["edges spanning less than one cell per coordinate, generic position: no end point on a cell line, no segment through a cell corner (property quantifier)",
               "plaquettes are those reported by lattice.plaquettes (their legitimacy is C01's property)"]

TOL = 1e-9


def drv(ctx, lines):
    """run the c16 driver; the (line, answer) pairs are remembered for the in-Coq re-evaluation (c16x.crosscheck)"""
    import c16x
    outs = run_driver(ctx.exe["c16"], lines)
    c16x.record(ctx, lines, outs)
    return outs


COLOUR_POOL = ["#E7414E", "#5BB03E", "#4B64AC", "black", "r", "g", "b", "orange", "tab:purple", "#00aa88", "lightgrey", "y"]


# ------------------------------------------------------------------ serialisation
def qtok(x):
    f = Fraction(float(x))
    return hx(f.numerator) + " " + hx(f.denominator)


def rd_q(c):
    n = c.z()
    d = c.z()
    return Fraction(n, d)


def rd_pt(c):
    return (rd_q(c), rd_q(c))


def tok_subset(sd):
    k = sd["kind"]
    if k == "slice":
        return "S " + " ".join("N" if v is None else hx(v) for v in (sd["a"], sd["b"], sd["c"]))
    if k == "mask":
        return "M " + str(len(sd["m"])) + "".join(" %d" % int(b) for b in sd["m"])
    return "I " + str(len(sd["l"])) + "".join(" " + hx(v) for v in sd["l"])


def py_subset(sd):
    k = sd["kind"]
    if k == "slice":
        return slice(sd["a"], sd["b"], sd["c"])
    if k == "mask":
        return np.array(sd["m"], dtype=bool)
    return list(sd["l"]) if sd.get("aslist", True) else np.array(sd["l"], dtype=int)


def ref_indices(sd, N):
    """independent restatement with plain Python sequences; None when Python itself rejects the subset"""
    k = sd["kind"]
    try:
        if k == "slice":
            return list(range(N))[slice(sd["a"], sd["b"], sd["c"])]
        if k == "mask":
            if len(sd["m"]) != N and len(sd["m"]) != 0:     # numpy accepts an EMPTY boolean index for any N (selects nothing)
                return None
            return [i for i, b in enumerate(sd["m"]) if b]
        out = []
        for v in sd["l"]:
            if not (-N <= v < N):
                return None
            out.append(v % N)
        return out
    except ValueError:
        return None


def tok_labels(ld):
    if ld["kind"] == "scalar":
        return "s " + hx(ld["z"])
    return "l " + str(len(ld["l"])) + "".join(" " + hx(v) for v in ld["l"])


def py_labels(ld):
    if ld["kind"] == "scalar":
        return int(ld["z"])
    return np.array(ld["l"], dtype=int) if ld.get("asarray", True) else list(ld["l"])


# ------------------------------------------------------------------ generators of plot arguments
def gen_subset(rng, N):
    r = rng.integers(0, 10)
    if N == 0:
        return {"kind": "slice", "a": None, "b": None, "c": None}
    if r == 0:
        return {"kind": "slice", "a": None, "b": None, "c": None}
    if r <= 3:
        def ov():
            return None if rng.uniform() < 0.35 else int(rng.integers(-N - 2, N + 3))
        step = [None, 1, 2, 3, -1, -2, -3][int(rng.integers(0, 7))]
        return {"kind": "slice", "a": ov(), "b": ov(), "c": step}
    if r <= 6:
        p = [0.15, 0.5, 0.85, 1.0][int(rng.integers(0, 4))]
        return {"kind": "mask", "m": [int(x) for x in (rng.uniform(size=N) < p)]}
    n = int(rng.integers(1, N + 3))
    if rng.uniform() < 0.5 and n <= N:       # distinct
        l = [int(x) for x in rng.permutation(N)[:n]]
    else:
        l = [int(x) for x in rng.integers(0, N, size=n)]
    l = [v - N if rng.uniform() < 0.2 else v for v in l]
    return {"kind": "idx", "l": l, "aslist": bool(rng.integers(0, 2))}


def gen_scheme(rng):
    K = int(rng.integers(1, 6))
    return [COLOUR_POOL[int(i)] for i in rng.permutation(len(COLOUR_POOL))[:K]]


def gen_plot_args(rng, N):
    scheme = gen_scheme(rng)
    K = len(scheme)
    full = [int(x) for x in rng.integers(0, K, size=N)]
    if rng.uniform() < 0.1:
        full = [v - K if rng.uniform() < 0.3 else v for v in full]     # numpy wraps negative labels
    return {"N": N, "subset": gen_subset(rng, N), "full": full, "scalar": int(rng.integers(0, K)),
            "scheme": scheme, "form": ["full", "full", "scalar", "full"][int(rng.integers(0, 4))],
            "asarray": bool(rng.integers(0, 2))}


def label_forms(pa):
    """the label arguments to try for one plot call: list of (name, labels-dict, expected per-element labels or None)"""
    N = pa["N"]
    idx = ref_indices(pa["subset"], N)
    forms = []
    if pa["form"] == "scalar":
        forms.append(("scalar", {"kind": "scalar", "z": pa["scalar"]}, [pa["scalar"]] * N))
    else:
        forms.append(("full", {"kind": "list", "l": pa["full"], "asarray": pa["asarray"]}, pa["full"]))
        if idx is not None and len(idx) != N:
            forms.append(("subset", {"kind": "list", "l": [pa["full"][i] for i in idx], "asarray": pa["asarray"]}, pa["full"]))
    return idx, forms


# ------------------------------------------------------------------ robustness margins (float, the implementation's own formulas)
INF = 1e300


def _and(vals, mars):
    """robust conjunction: value, margin (true: weakest atom; false: strongest false atom)"""
    vals = np.stack(vals, -1)
    mars = np.stack(mars, -1)
    v = np.all(vals, -1)
    mt = np.min(mars, -1)
    mf = np.max(np.where(vals, -1.0, mars), -1)
    return v, np.where(v, mt, mf)


def _or(vals, mars):
    vals = np.stack(vals, -1)
    mars = np.stack(mars, -1)
    v = np.any(vals, -1)
    mt = np.max(np.where(vals, mars, -1.0), -1)
    mf = np.min(mars, -1)
    return v, np.where(v, mt, mf)


def _t_atoms(lines):
    start, end = lines[:, 0, None, :], lines[:, 1, None, :]
    l = np.array([[0, 0], [1, 1]])[None, :, :]
    with np.errstate(divide="ignore", invalid="ignore"):
        d = start - end
        t = (l - end) / d
    patched = ~np.isfinite(t)
    t[patched] = 0.5 * (l == end)[patched]
    small = np.broadcast_to((np.abs(d) < 1e-6) & (d != 0), t.shape)      # t is ill-conditioned
    m0 = np.where(patched, INF, np.where(small, 0.0, np.abs(t)))
    m1 = np.where(patched, INF, np.where(small, 0.0, np.abs(1 - t)))
    return start, end, t, (0 < t, m0), (t <= 1, m1)


def vis_margin(lines):
    """robustness margin of  _lines_cross_unit_cell | _line_fully_in_unit_cell  per line"""
    lines = np.asarray(lines, dtype=float).reshape(-1, 2, 2)
    start, end, t, a0, a1 = _t_atoms(lines)
    other = start[..., ::-1] * t + (1 - t) * end[..., ::-1]
    v, m = _and([a0[0], a1[0], 0 < other, other <= 1], [a0[1], a1[1], np.abs(other), np.abs(1 - other)])
    v = v.reshape(len(lines), 4)
    m = m.reshape(len(lines), 4)
    flat = lines.reshape(len(lines), 4)
    fv, fm = _and([0 < flat, flat < 1], [np.abs(flat), np.abs(1 - flat)])
    fv, fm = _and([fv[:, k] for k in range(4)], [fm[:, k] for k in range(4)])
    vv, mm = _or([v[:, k] for k in range(4)] + [fv], [m[:, k] for k in range(4)] + [fm])
    return vv, mm


def pad_margin(points):
    """robustness margin of the replication decision of one unwrapped polygon"""
    points = np.asarray(points, dtype=float)
    lines = np.stack([points, np.roll(points, -1, axis=0)], axis=1)
    start, end, t, a0, a1 = _t_atoms(lines)
    v, m = _and([a0[0], a1[0]], [a0[1], a1[1]])           # (n,2,2)
    mar = INF
    for b in range(2):
        for c in range(2):
            vv, mm = _or([v[k, b, c] for k in range(len(lines))], [m[k, b, c] for k in range(len(lines))])
            mar = min(mar, float(mm))
    return mar


# ------------------------------------------------------------------ running the implementation
def rgba(c):
    return tuple(round(float(x), 6) for x in to_rgba(c))


def scheme_rgba(scheme, lab):
    return rgba(scheme[lab])      # python negative indexing == numpy's


def call_impl(fn, lat, **kw):
    fig = Figure()
    ax = fig.add_subplot()
    try:
        ret = fn(lat, ax=ax, **kw)
    except (IndexError, ValueError) as e:
        return {"exc": type(e).__name__, "msg": str(e)[:200]}
    return {"ax": ax, "ret": ret}


def read_vertices(ax, n):
    pcs = [c for c in ax.collections if isinstance(c, PathCollection)]
    if len(pcs) != 1:
        return None
    off = np.asarray(pcs[0].get_offsets(), dtype=float).reshape(-1, 2)
    fc = np.asarray(pcs[0].get_facecolors(), dtype=float).reshape(-1, 4)
    if len(fc) == 1 and len(off) > 1:
        fc = np.repeat(fc, len(off), axis=0)
    return off, [tuple(round(float(x), 6) for x in row) for row in fc]


def read_edges(ax):
    lcs = [c for c in ax.collections if isinstance(c, LineCollection)]
    if len(lcs) != 1:
        return None
    segs = [np.asarray(s, dtype=float) for s in lcs[0].get_segments()]
    cols = np.asarray(lcs[0].get_colors(), dtype=float).reshape(-1, 4)
    if len(cols) == 1 and len(segs) > 1:
        cols = np.repeat(cols, len(segs), axis=0)
    cols = [tuple(round(float(x), 6) for x in row) for row in cols]
    arrows = []
    for p in ax.patches:
        if isinstance(p, FancyArrow):
            arrows.append((float(p._x), float(p._y), float(p._dx), float(p._dy), tuple(round(float(x), 6) for x in p.get_facecolor())))
    return segs, cols, arrows


def read_plaquettes(collections):
    out = []
    for c in collections:
        polys = []
        for path in c.get_paths():
            v = np.asarray(path.vertices, dtype=float)
            polys.append(v[:-1] if len(v) > 1 and path.codes is not None and path.codes[-1] == 79 else v)
        fc = np.asarray(c.get_facecolor(), dtype=float).reshape(-1, 4)
        out.append((polys, [tuple(round(float(x), 6) for x in row) for row in fc]))
    return out


# ------------------------------------------------------------------ order-insensitive comparison
def match_multisets(A, B, close):
    """A, B: lists of (numeric vector, payload).  True when they can be paired up with close(a, b) for every pair.
    The drawing order inside a collection is not constrained by the property."""
    if len(A) != len(B):
        return False
    key = lambda x: tuple(np.round(np.asarray(x[0], dtype=float).ravel(), 6)) + (str(x[1]),)
    A2, B2 = sorted(A, key=key), sorted(B, key=key)
    if all(close(a, b) for a, b in zip(A2, B2)):
        return True
    used = [False] * len(B)
    for a in A:
        for j, b in enumerate(B):
            if not used[j] and close(a, b):
                used[j] = True
                break
        else:
            return False
    return True


def poly_close(a, b, tol=TOL):
    """same polygon up to a cyclic rotation of the vertex list"""
    a, b = np.asarray(a, dtype=float), np.asarray(b, dtype=float)
    if a.shape != b.shape:
        return False
    return any(np.max(np.abs(np.roll(a, r, axis=0) - b)) <= tol for r in range(len(a)))


# ------------------------------------------------------------------ one lattice
def exact_unwrapped_edge(pos, edges, crossing, e):
    j, k = int(edges[e][0]), int(edges[e][1])
    a = (Fraction(float(pos[j][0])) - int(crossing[e][0]), Fraction(float(pos[j][1])) - int(crossing[e][1]))
    b = (Fraction(float(pos[k][0])), Fraction(float(pos[k][1])))
    return a, b


def match_translate(seg, a, b):
    """integer translate tau with seg ~ (a+tau, b+tau), or None"""
    d0 = seg[0] - a
    tau = np.round(d0)
    if np.max(np.abs(seg[0] - a - tau)) < TOL and np.max(np.abs(seg[1] - b - tau)) < TOL:
        return (int(tau[0]), int(tau[1]))
    return None


class LatCase:
    pass


def check_vertices(ctx, lc, pa, case):
    res = ctx.res
    lat, pos = lc.lat, lc.pos
    N = len(pos)
    idx, forms = label_forms(pa)
    lines, meta = [], []
    results = {}
    for name, ld, per_elem in forms:
        r = call_impl(kp.plot_vertices, lat, labels=py_labels(ld), color_scheme=list(pa["scheme"]), subset=py_subset(pa["subset"]))
        results[name] = r
        lines.append("verts " + lc.ser + " " + tok_subset(pa["subset"]) + " " + tok_labels(ld) + " " + str(len(pa["scheme"])))
        meta.append((name, ld, per_elem, r))
    outs = drv(ctx, lines)
    for (name, ld, per_elem, r), o in zip(meta, outs):
        what = f"plot_vertices[{name}]"
        if "error" in o:
            raise RuntimeError(f"driver error {o['error']}")
        m_ok = o["res"][0] == "ok"
        res.traces += 1
        if "exc" in r:
            if m_ok:
                ctx.k_mismatch(f"{what}: implementation raised {r['exc']} ({r['msg']}), model returns a drawing", case)
            elif o["res"][0] != r["exc"]:
                ctx.k_mismatch(f"{what}: implementation raised {r['exc']}, model {o['res'][0]}", case)
            if idx is not None:
                res.violation("vertices:exception-on-valid-arguments", f"{what} raised {r['exc']}: {r['msg']}", case)
            continue
        if not m_ok:
            ctx.k_mismatch(f"{what}: model raises {o['res'][0]}, implementation draws", case)
            continue
        got = read_vertices(r["ax"], N)
        if got is None:
            res.violation("vertices:no-scatter", f"{what}: no scatter collection on the Axes", case)
            continue
        off, fc = got
        # S: vertices at their positions, colour = scheme[label]
        if idx is None:
            res.violation("vertices:invalid-subset-accepted", f"{what}: subset rejected by Python sequences but accepted", case)
            continue
        vclose = lambda a, b: a[1] == b[1] and np.max(np.abs(np.asarray(a[0]) - np.asarray(b[0]))) <= TOL
        got_ms = [(off[k], fc[k] if k < len(fc) else None) for k in range(len(off))]
        if not match_multisets([(off[k], 0) for k in range(len(off))], [(pos[i], 0) for i in idx], vclose):
            res.violation("vertices:position", f"{what}: scatter offsets are not the positions of the selected vertices", case)
        elif not match_multisets(got_ms, [(pos[i], scheme_rgba(pa["scheme"], per_elem[i])) for i in idx], vclose):
            res.violation("vertices:colour", f"{what}: vertex colours differ from scheme[label]", case)
        # K
        c = Cursor(o["pts"])
        mp = c.list(lambda: (rd_pt(c), c.z()))
        if not match_multisets(got_ms, [((float(p[0]), float(p[1])), rgba(pa["scheme"][col])) for p, col in mp], vclose):
            ctx.k_mismatch(f"{what}: model draws {len(mp)} vertices {[(float(p[0]), float(p[1]), col) for p, col in mp][:3]}, implementation {len(off)} {got_ms[:3]}", case)
    return results


def check_edges(ctx, lc, pa, dirs, case, fn=None, fname="plot_edges"):
    """fn: the plotting call whose artists are checked against lc's arrays (default kp.plot_edges on lc.lat; c16x passes
    plot_dual of the primal lattice with lc = the dual lattice)"""
    res = ctx.res
    fn = fn or kp.plot_edges
    lat, pos, edges, crossing = lc.lat, lc.pos, lc.edges, lc.crossing
    N = len(edges)
    idx, forms = label_forms(pa)
    lines, meta = [], []
    for name, ld, per_elem in forms:
        kw = dict(labels=py_labels(ld), color_scheme=list(pa["scheme"]), subset=py_subset(pa["subset"]))
        dtok = "s 1"
        if dirs is not None and name == "full":
            kw["directions"] = np.array(dirs, dtype=int)
            dtok = "l " + str(N) + "".join(" " + hx(d) for d in dirs)
        r = call_impl(fn, lat, **kw)
        lines.append("edges " + lc.ser + " " + tok_subset(pa["subset"]) + " " + tok_labels(ld) + " " + str(len(pa["scheme"])) + " " + dtok)
        meta.append((name, ld, per_elem, r, "directions" in kw))
    outs = drv(ctx, lines)
    spec_lines, spec_meta = [], []
    drawn_by_form = {}
    for (name, ld, per_elem, r, with_dirs), o in zip(meta, outs):
        what = f"{fname}[{name}]"
        if "error" in o:
            raise RuntimeError(f"driver error {o['error']}")
        m_ok = o["res"][0] == "ok"
        res.traces += 1
        if "exc" in r:
            if m_ok:
                ctx.k_mismatch(f"{what}: implementation raised {r['exc']} ({r['msg']}), model returns a drawing", case)
            elif o["res"][0] != r["exc"]:
                ctx.k_mismatch(f"{what}: implementation raised {r['exc']}, model {o['res'][0]}", case)
            if idx is not None:
                res.violation("edges:exception-on-valid-arguments", f"{what} raised {r['exc']}: {r['msg']}", case)
            continue
        if not m_ok:
            ctx.k_mismatch(f"{what}: model raises {o['res'][0]}, implementation draws", case)
            continue
        got = read_edges(r["ax"])
        if got is None or idx is None:
            res.violation("edges:no-linecollection", f"{what}: no LineCollection / invalid subset accepted", case)
            continue
        segs, cols, arrows = got
        # near-degenerate edges (robustness of the visibility decision of any of the nine images)
        sel = sorted(set(idx))
        skip = set()
        if sel:
            ev = pos[edges[sel]].astype(float)
            ev[:, 0, :] -= crossing[sel]
            # genericity clause: an end point on a cell line (this includes an axis-aligned edge lying on a cell line)
            for e, mm in zip(sel, np.min(np.abs(ev - np.round(ev)).reshape(len(sel), -1), axis=1)):
                if mm < TOL:
                    skip.add(e)
            for d in gen_nine():
                _, mar = vis_margin(ev + np.array(d, dtype=float))
                for e, mm in zip(sel, mar):
                    if mm < TOL:
                        skip.add(e)
        lc.skipped_edges |= skip
        # group the drawn pieces by edge (geometric match: integer translate of the unwrapped edge)
        unwrapped = {e: exact_unwrapped_edge(pos, edges, crossing, e) for e in sel}
        fl = {e: (np.array([float(a[0]), float(a[1])]), np.array([float(b[0]), float(b[1])])) for e, (a, b) in unwrapped.items()}
        owner = [None] * len(segs)
        # identical edges (same unwrapped segment up to an integer translate, e.g. duplicated edges of a multigraph)
        # cannot be told apart in the drawing: they are checked together as one class
        rep = {}
        for e in sel:
            for r in sel:
                if r in rep and rep[r] == r and match_translate(np.array(fl[e]), *fl[r]) is not None:
                    rep[e] = r
                    break
            else:
                rep[e] = e
        classes = sorted(set(rep.values()))
        groups = {r: [] for r in classes}
        for k, s in enumerate(segs):
            for r in classes:
                tau = match_translate(s, *fl[r])
                if tau is not None:
                    owner[k] = r
                    groups[r].append((k, tau))
                    break
            else:
                res.violation("edges:stray-segment", f"{what}: drawn segment {s.tolist()} is not a periodic image of a selected edge", case)
        for r in classes:
            if any(e in skip for e in sel if rep[e] == r):
                skip.add(r)
        mult = {r: sum(1 for i in idx if rep[i] == r) for r in classes}
        occ_labels = {r: sorted(scheme_rgba(pa["scheme"], per_elem[i]) for i in idx if rep[i] == r) for r in classes}
        multi = len(classes) < len(sel)
        sel = classes
        g_lines = []
        g_edges = []
        for e in sel:
            if e in skip:
                continue
            taus = {}
            for k, tau in groups[e]:
                taus.setdefault(tau, []).append(k)
            bad_mult = [tau for tau, ks in taus.items() if len(ks) != mult[e]]
            if bad_mult:
                res.violation("edges:image-multiplicity", f"{what}: edge {e} selected {mult[e]}x but image {bad_mult[0]} drawn {len(taus[bad_mult[0]])}x", case)
            for tau, ks in taus.items():
                if sorted(cols[k] for k in ks) != occ_labels[e] and len(ks) == mult[e]:
                    res.violation("edges:colour", f"{what}: edge {e} image {tau} drawn in {sorted(cols[k] for k in ks)[:2]}, expected scheme[label] = {occ_labels[e][:2]}", case)
            g_edges.append((e, sorted(taus)))
            g_lines.append(str(len(taus)) + "".join(" " + " ".join(qtok(x) for x in segs[ks[0]].ravel()) for tau, ks in sorted(taus.items())))
        spec_lines.append("espec " + str(len(g_lines)) + (" " if g_lines else "") + " ".join(g_lines))
        spec_meta.append((what, g_edges))
        drawn_by_form[name] = (segs, cols)
        # arrows (S): one arrow per drawn piece, ending at its centre, pointing first->second vertex times direction
        if with_dirs:
            if len(arrows) != len(segs):
                res.violation("edges:arrow-count", f"{what}: {len(segs)} drawn pieces but {len(arrows)} arrows", case)
            elif not skip and not multi and all(e is not None for e in owner):
                exp_arrows = []
                for k, sg in enumerate(segs):
                    v = (sg[1] - sg[0]) * dirs[owner[k]]
                    ctr = (sg[0] + sg[1]) / 2
                    exp_arrows.append(([ctr[0], ctr[1], v[0] / (np.linalg.norm(v) + 1e-300), v[1] / (np.linalg.norm(v) + 1e-300)], cols[k]))
                got_arrows = [([a[0] + a[2], a[1] + a[3], a[2] / (np.hypot(a[2], a[3]) + 1e-300), a[3] / (np.hypot(a[2], a[3]) + 1e-300)], a[4]) for a in arrows]
                res.extra["arrow_sets_checked"] = res.extra.get("arrow_sets_checked", 0) + 1
                if not match_multisets(got_arrows, exp_arrows, lambda a, b: a[1] == b[1] and np.max(np.abs(np.asarray(a[0]) - np.asarray(b[0]))) <= 1e-8):
                    bad = [a for a in got_arrows if not any(a[1] == b[1] and np.max(np.abs(np.asarray(a[0]) - np.asarray(b[0]))) <= 1e-8 for b in exp_arrows)][:2]
                    res.violation("edges:arrow", f"{what}: arrows do not end at the centres of the drawn pieces pointing along (second - first vertex) * direction in the piece's colour, e.g. {bad}", case)
        # K: model's drawn list vs the artists (pieces of skipped edges removed on both sides), in order
        c = Cursor(o["drawn"])
        md = c.list(lambda: ([rd_pt(c), rd_pt(c)], c.z(), c.z(), rd_pt(c), rd_pt(c)))
        mseg = [np.array([[float(p[0]), float(p[1])] for p in d[0]]) for d in md]

        def not_skipped(s):
            return not any(match_translate(s, *fl[e]) is not None for e in skip)
        kskip = set() if lc.exact else skip

        def arrow_vec(k):
            if not (with_dirs and len(arrows) == len(segs)):
                return [0.0] * 4
            a = arrows[k]
            n = np.hypot(a[2], a[3]) + 1e-300
            return [a[0] + a[2], a[1] + a[3], a[2] / n, a[3] / n]       # tip, unit direction

        def model_arrow(d):
            if not (with_dirs and len(arrows) == len(segs)):
                return [0.0] * 4
            mv = np.array([float(d[4][0]), float(d[4][1])])
            n = np.hypot(*mv) + 1e-300
            return [float(d[3][0]) / 2, float(d[3][1]) / 2, mv[0] / n, mv[1] / n]
        I = [(list(s.ravel()) + arrow_vec(k), cols[k]) for k, s in enumerate(segs) if not kskip or not_skipped(s)]
        M = [(list(ms.ravel()) + model_arrow(d), rgba(pa["scheme"][d[1]])) for ms, d in zip(mseg, md) if not kskip or not_skipped(ms)]
        eclose = lambda a, b: a[1] == b[1] and np.max(np.abs(np.asarray(a[0]) - np.asarray(b[0]))) <= TOL
        if not match_multisets(I, M, eclose):
            onlyI = [a for a in I if not any(eclose(a, b) for b in M)][:2]
            onlyM = [b for b in M if not any(eclose(a, b) for a in I)][:2]
            ctx.k_mismatch(f"{what}: drawn pieces differ: implementation {len(I)} pieces, model {len(M)}; only in implementation {onlyI}; only in model {onlyM}", case)
    # S by the extracted checker: clip lengths sum to 1, images disjoint
    if spec_lines:
        for (what, g_edges), o in zip(spec_meta, drv(ctx, spec_lines)):
            if "error" in o:
                raise RuntimeError(f"driver error {o['error']}")
            for gi, (e, taus) in enumerate(g_edges):
                c = Cursor(o[f"g{gi}"])
                total = rd_q(c)
                overlap = float(rd_q(c)) > TOL
                res.extra["edges_checked"] = res.extra.get("edges_checked", 0) + 1
                key = "n_images=%d" % len(taus)
                lc.img_hist[key] = lc.img_hist.get(key, 0) + 1
                if abs(float(total) - 1) > TOL:
                    res.violation("edges:length", f"{what}: edge {e}: drawn images {taus} cover {float(total):.12f} of the edge inside the cell (must be 1)", case)
                if overlap:
                    res.violation("edges:drawn-twice", f"{what}: edge {e}: two drawn images {taus} overlap inside the cell", case)
    # S: labels per element == labels per subset element
    if "full" in drawn_by_form and "subset" in drawn_by_form:
        a, b = drawn_by_form["full"], drawn_by_form["subset"]
        same = len(a[0]) == len(b[0]) and all(np.array_equal(x, y) for x, y in zip(a[0], b[0])) and a[1] == b[1]
        res.extra["label_equivalence_checked"] = res.extra.get("label_equivalence_checked", 0) + 1
        if not same:
            res.violation("labels:per-element-vs-per-subset", "plot_edges: labels per element and per subset element give different drawings", case)


def gen_nine():
    return [(dx, dy) for dx in (-1, 0, 1) for dy in (-1, 0, 1)]


def exact_polygon(lc, p):
    pos, edges, crossing = lc.pos, lc.edges, lc.crossing
    cur = (Fraction(float(pos[p["v0"]][0])), Fraction(float(pos[p["v0"]][1])))
    pts = []
    for e, d in zip(p["edges"], p["dirs"]):
        j, k = int(edges[e][0]), int(edges[e][1])
        v = (Fraction(float(pos[k][0])) - Fraction(float(pos[j][0])) + int(crossing[e][0]),
             Fraction(float(pos[k][1])) - Fraction(float(pos[j][1])) + int(crossing[e][1]))
        cur = (cur[0] + d * v[0], cur[1] + d * v[1])
        pts.append(cur)
    return pts


def check_plaquettes(ctx, lc, pa, case):
    res = ctx.res
    lat, pls = lc.lat, lc.plaqs
    N = len(pls)
    idx, forms = label_forms(pa)
    ptok = str(N) + "".join(" %d %d" % (p["v0"], len(p["edges"])) + "".join(" %d %d" % (e, 1 if d == 1 else 0) for e, d in zip(p["edges"], p["dirs"])) for p in pls)
    lines, meta = [], []
    for name, ld, per_elem in forms:
        r = call_impl(kp.plot_plaquettes, lat, labels=py_labels(ld), color_scheme=list(pa["scheme"]), subset=py_subset(pa["subset"]))
        lines.append("plaqs " + lc.ser + " " + ptok + " " + tok_subset(pa["subset"]) + " " + tok_labels(ld) + " " + str(len(pa["scheme"])))
        meta.append((name, ld, per_elem, r))
    outs = drv(ctx, lines)
    spec_lines, spec_meta = [], []
    by_form = {}
    for (name, ld, per_elem, r), o in zip(meta, outs):
        what = f"plot_plaquettes[{name}]"
        if "error" in o:
            raise RuntimeError(f"driver error {o['error']}")
        m_ok = o["res"][0] == "ok"
        res.traces += 1
        if "exc" in r:
            if m_ok:
                ctx.k_mismatch(f"{what}: implementation raised {r['exc']} ({r['msg']}), model returns a drawing", case)
            elif o["res"][0] != r["exc"]:
                ctx.k_mismatch(f"{what}: implementation raised {r['exc']}, model {o['res'][0]}", case)
            if idx is not None:
                res.violation("plaquettes:exception-on-valid-arguments", f"{what} raised {r['exc']}: {r['msg']}", case)
            continue
        if not m_ok:
            ctx.k_mismatch(f"{what}: model raises {o['res'][0]}, implementation draws", case)
            continue
        if idx is None:
            res.violation("plaquettes:invalid-subset-accepted", f"{what}: invalid subset accepted", case)
            continue
        got = read_plaquettes(r["ret"])
        by_form[name] = got
        if len(got) != len(idx):
            res.violation("plaquettes:count", f"{what}: {len(idx)} plaquettes selected, {len(got)} collections returned", case)
            continue
        g_lines, g_meta = [], []
        for k, (i, (polys, fcs)) in enumerate(zip(idx, got)):
            p = pls[i]
            exp_col = scheme_rgba(pa["scheme"], per_elem[i])
            if any(fc != exp_col for fc in fcs) or not fcs:
                res.violation("plaquettes:colour", f"{what}: plaquette {i} drawn in {fcs[:1]}, expected scheme[label] = {exp_col}", case)
            ex = exact_polygon(lc, p)
            exf = np.array([[float(x), float(y)] for x, y in ex])
            mar = pad_margin(exf)
            near = np.min(np.abs(exf - np.round(exf))) < TOL
            if mar < TOL or near:
                lc.skipped_plaqs.add(i)
                continue
            taus = []
            ok = True
            for poly in polys:
                if poly.shape != exf.shape:
                    ok = False
                    break
                tau = np.round(np.mean(poly, axis=0) - np.mean(exf, axis=0))
                if not poly_close(poly - tau, exf):
                    ok = False
                    break
                taus.append((int(tau[0]), int(tau[1])))
            if not ok:
                res.violation("plaquettes:not-a-translate", f"{what}: plaquette {i}: a drawn polygon is not an integer translate of the unwrapped plaquette", case)
                continue
            if len(set(taus)) != len(taus):
                res.violation("plaquettes:drawn-twice", f"{what}: plaquette {i}: translate drawn twice {taus}", case)
            g_lines.append(str(len(polys)) + "".join(" " + str(len(poly)) + "".join(" " + qtok(x) for x in poly.ravel()) for poly in polys))
            g_meta.append((i, taus))
        spec_lines.append("pspec " + str(len(g_lines)) + (" " if g_lines else "") + " ".join(g_lines))
        spec_meta.append((what, g_meta))
        # K: polygons in order
        nm = int(o["np"][0])
        if nm != len(got):
            ctx.k_mismatch(f"{what}: model {nm} plaquettes, implementation {len(got)}", case)
            continue
        for k, (i, (polys, fcs)) in enumerate(zip(idx, got)):
            if i in lc.skipped_plaqs and not lc.exact:
                continue
            c = Cursor(o[f"p{k}"])
            col = c.z()
            mpolys = c.list(lambda: c.list(lambda: rd_pt(c)))
            mpf = [(np.array([[float(x), float(y)] for x, y in mp]), 0) for mp in mpolys]
            same = match_multisets([(ip, 0) for ip in polys], mpf, lambda a, b: poly_close(a[0], b[0]))
            if not same or any(fc != rgba(pa["scheme"][col]) for fc in fcs):
                ctx.k_mismatch(f"{what}: plaquette {i}: model draws {len(mpolys)} polygons (colour {col}), implementation {len(polys)} ({fcs[:1]}) or coordinates differ", case)
                break
    if spec_lines:
        for (what, g_meta), o in zip(spec_meta, drv(ctx, spec_lines)):
            if "error" in o:
                raise RuntimeError(f"driver error {o['error']}")
            for gi, (i, taus) in enumerate(g_meta):
                c = Cursor(o[f"g{gi}"])
                a0, total = rd_q(c), rd_q(c)
                cvx = c.next() == "1"
                ov = rd_q(c)
                res.extra["plaquettes_checked"] = res.extra.get("plaquettes_checked", 0) + 1
                key = "n_polygons=%d" % len(taus)
                lc.poly_hist[key] = lc.poly_hist.get(key, 0) + 1
                if cvx:
                    res.extra["plaquettes_overlap_checked_convex"] = res.extra.get("plaquettes_overlap_checked_convex", 0) + 1
                if abs(float(total) - float(a0)) > TOL:
                    res.violation("plaquettes:area", f"{what}: plaquette {i}: drawn translates {taus} cover area {float(total) / 2:.12f} inside the cell, plaquette area {float(a0) / 2:.12f}", case)
                if float(ov) > TOL:
                    res.violation("plaquettes:overlap", f"{what}: plaquette {i}: two drawn polygons overlap inside the cell (area {float(ov) / 2})", case)
    if "full" in by_form and "subset" in by_form:
        a, b = by_form["full"], by_form["subset"]
        same = len(a) == len(b) and all(len(x[0]) == len(y[0]) and all(np.array_equal(u, v) for u, v in zip(x[0], y[0])) and x[1] == y[1] for x, y in zip(a, b))
        res.extra["label_equivalence_checked"] = res.extra.get("label_equivalence_checked", 0) + 1
        if not same:
            res.violation("labels:per-element-vs-per-subset", "plot_plaquettes: labels per element and per subset element give different drawings", case)


def build_latcase(case):
    arr, why = gen.try_build(case["lattice"])
    if arr is None:
        return None, "generator-could-not-build-base"
    pos, edges, crossing = arr
    if len(pos) == 0:
        return None, "empty-lattice"
    lc = LatCase()
    lc.pos, lc.edges, lc.crossing = pos, edges, crossing
    try:
        lc.lat = Lattice(pos.copy(), edges.copy(), crossing.copy())
    except Exception as e:
        return None, "lattice-constructor-raised"
    if len(edges):
        vec = pos[edges[:, 1]] - pos[edges[:, 0]] + crossing
        if np.max(np.abs(vec)) >= 1 - 1e-9:
            return None, "edge-spans-a-whole-cell"
    if np.min(pos) < 0 or np.max(pos) >= 1:
        return None, "positions-outside-[0,1)"
    try:
        lc.plaqs = [{"v0": int(p.vertices[0]), "edges": [int(e) for e in p.edges], "dirs": [int(d) for d in p.directions]} for p in lc.lat.plaquettes]
    except Exception:
        lc.plaqs = None
    lc.ser, lc.S = ser_lattice_arrays(pos, edges, crossing)
    lc.skipped_edges, lc.skipped_plaqs = set(), set()
    lc.img_hist, lc.poly_hist = {}, {}
    # exact stream: coordinates on the 1/8 grid and edge vectors in {0, +-1/8, +-1/4, +-1/2}: every float operation of the
    # visibility / replication rules is exact, so model and implementation must agree even ON the cell lines (K only)
    lc.exact = bool(case.get("exact", False))
    return lc, None


def evaluate_lattice(ctx, case):
    res = ctx.res
    lc, why = build_latcase(case)
    if lc is None:
        res.skip(why)
        return
    rng = np.random.default_rng([case["seed"], 16])
    fam = case["lattice"]["family"] + ("/" + case["lattice"]["base"]["family"] if "base" in case["lattice"] else "")
    if lc.exact:
        fam = "exact-grid(K on cell lines)"
    periodic = bool(np.any(lc.crossing != 0))
    pav = case.get("args_v") or gen_plot_args(rng, len(lc.pos))
    pae = case.get("args_e") or gen_plot_args(rng, len(lc.edges))
    pap = case.get("args_p") or (gen_plot_args(rng, len(lc.plaqs)) if lc.plaqs is not None else None)
    dirs = case.get("dirs", "unset")
    if dirs == "unset":
        dirs = [int(x) for x in rng.choice([-1, 1], size=len(lc.edges))] if (len(lc.edges) <= 150 and rng.uniform() < 0.4) else None
    full_case = dict(case, args_v=pav, args_e=pae, args_p=pap, dirs=dirs)
    check_vertices(ctx, lc, pav, full_case)
    if len(lc.edges):
        check_edges(ctx, lc, pae, dirs, full_case)
    if lc.plaqs:
        check_plaquettes(ctx, lc, pap, full_case)
    import c16x
    c16x.glue_checks(ctx, lc, full_case)       # K for the glue of Model/PlotGlue.v: colour resolution, defaults, color=, plot_dual
    for k, v in lc.img_hist.items():
        h = res.extra.setdefault("images_per_edge", {})
        h[k] = h.get(k, 0) + v
    for k, v in lc.poly_hist.items():
        h = res.extra.setdefault("polygons_per_plaquette", {})
        h[k] = h.get(k, 0) + v
    if lc.skipped_edges:
        res.skipped["near-degenerate-edge(margin<1e-9)"] = res.skipped.get("near-degenerate-edge(margin<1e-9)", 0) + len(lc.skipped_edges)
    if lc.skipped_plaqs:
        res.skipped["near-degenerate-plaquette(margin<1e-9)"] = res.skipped.get("near-degenerate-plaquette(margin<1e-9)", 0) + len(lc.skipped_plaqs)
    for pa, n in ((pav, len(lc.pos)), (pae, len(lc.edges)), (pap, len(lc.plaqs or []))):
        if pa is None:
            continue
        i = ref_indices(pa["subset"], n)
        h = res.extra.setdefault("subset_forms", {})
        h[pa["subset"]["kind"]] = h.get(pa["subset"]["kind"], 0) + 1
        h2 = res.extra.setdefault("label_forms", {})
        h2[pa["form"]] = h2.get(pa["form"], 0) + 1
        if i is not None and len(i) == n and pa["subset"] != {"kind": "slice", "a": None, "b": None, "c": None} and pa["form"] != "scalar":
            res.extra["ambiguous-size-N-subset: full-size reading checked"] = res.extra.get("ambiguous-size-N-subset: full-size reading checked", 0) + 1
    nontriv = None
    if periodic and (lc.img_hist.get("n_images=2", 0) or lc.poly_hist.get("n_polygons=2", 0) or lc.poly_hist.get("n_polygons=4", 0)):
        nontriv = digest([case["lattice"], pae["subset"], pae["full"][:8]])
    elif not periodic and pae["subset"]["kind"] != "slice":
        nontriv = digest([case["lattice"], pae["subset"], pae["full"][:8]])
    res.count(fam + ("/periodic" if periodic else "/open"), nontriv)
    res.sample({"lattice": case["lattice"], "V": len(lc.pos), "E": len(lc.edges), "P": len(lc.plaqs or []),
                "edge_subset": pae["subset"] if len(str(pae["subset"])) < 200 else pae["subset"]["kind"], "label_form": pae["form"],
                "scheme": pae["scheme"], "arrows": dirs is not None, "images_per_edge": dict(lc.img_hist), "polygons_per_plaquette": dict(lc.poly_hist)})


# ------------------------------------------------------------------ argument handling alone (many shapes, cheap)
def evaluate_args(ctx, n_cases, seed):
    """_process_plot_args through plot_vertices on edgeless lattices: subset forms x label forms incl. malformed ones"""
    res = ctx.res
    rng = np.random.default_rng([seed, 1616])
    lines, meta = [], []
    for t in range(n_cases):
        N = int(rng.integers(1, 9))
        pa = gen_plot_args(rng, N)
        kind = int(rng.integers(0, 8))
        sd = pa["subset"]
        idx = ref_indices(sd, N)
        nidx = len(idx) if idx is not None else 0
        K = len(pa["scheme"])
        if kind == 0:      # wrong length labels
            L = int(rng.integers(0, N + 4))
            ld = {"kind": "list", "l": [int(x) for x in rng.integers(0, K, size=L)]}
        elif kind == 1:    # label out of the scheme's range
            l = list(pa["full"])
            l[int(rng.integers(0, N))] = int(rng.choice([K, -K - 1, K + 3]))
            ld = {"kind": "list", "l": l}
        elif kind == 2:    # malformed subset
            which = int(rng.integers(0, 3))
            if which == 0:
                sd = {"kind": "mask", "m": [1] * (N + int(rng.choice([-1, 1, 2])))}
            elif which == 1:
                sd = {"kind": "idx", "l": [0, int(rng.choice([N, -N - 1, N + 5]))]}
            else:
                sd = {"kind": "slice", "a": None, "b": None, "c": 0}
            ld = {"kind": "list", "l": pa["full"]}
        elif kind == 3:
            ld = {"kind": "scalar", "z": int(rng.integers(-K - 1, K + 2))}
        elif kind == 4 and idx is not None:
            ld = {"kind": "list", "l": [int(x) for x in rng.integers(0, K, size=nidx)]}     # subset-size labels of their own
        else:
            ld = {"kind": "list", "l": pa["full"]}
        case = {"kind": "args", "N": N, "subset": sd, "labels": ld, "scheme": pa["scheme"]}
        lines.append("args %d %s %s %d" % (N, tok_subset(sd), tok_labels(ld), K))
        meta.append(case)
    outs = drv(ctx, lines)
    for case, o in zip(meta, outs):
        check_args_case(ctx, case, o)


def check_args_case(ctx, case, o):
    res = ctx.res
    N, sd, ld, scheme = case["N"], case["subset"], case["labels"], case["scheme"]
    K = len(scheme)
    pos = (np.arange(2 * N).reshape(N, 2) + 0.5) / (2 * N + 1)
    lat = Lattice(pos, np.zeros((0, 2), dtype=int), np.zeros((0, 2), dtype=int))
    r = call_impl(kp.plot_vertices, lat, labels=py_labels(ld), color_scheme=list(scheme), subset=py_subset(sd))
    if "error" in o:
        raise RuntimeError(f"driver error {o['error']}")
    res.traces += 1
    idx = ref_indices(sd, N)
    # independent restatement of the expected outcome
    exp = None
    if idx is not None:
        if ld["kind"] == "scalar":
            lab = [ld["z"]] * len(idx)
        elif len(ld["l"]) == N:
            lab = [ld["l"][i] for i in idx]
        elif len(ld["l"]) == len(idx):
            lab = list(ld["l"])
        else:
            lab = None
        if lab is not None and all(-K <= v < K for v in lab):
            exp = [rgba(scheme[v]) for v in lab]
    fam = "args/" + sd["kind"] + "/" + (ld["kind"] if exp is not None else "malformed")
    res.count(fam, digest(case) if (exp is not None and idx and len(idx) != N) else None)
    m_ok = o["res"][0] == "ok"
    if "exc" in r:
        if exp is not None:
            res.violation("args:exception-on-valid-arguments", f"plot_vertices raised {r['exc']}: {r['msg']} on valid arguments", case)
        if m_ok or o["res"][0] != r["exc"]:
            ctx.k_mismatch(f"args: implementation raised {r['exc']}, model {o['res'][0]}", case)
        return
    if not m_ok:
        ctx.k_mismatch(f"args: model raises {o['res'][0]}, implementation draws", case)
        return
    got = read_vertices(r["ax"], N)
    off, fc = got
    if exp is None:
        res.violation("args:malformed-arguments-accepted", "malformed labels/subset accepted without ValueError/IndexError", case)
        return
    if len(off) != len(idx) or (len(idx) and (not np.array_equal(off, pos[idx]) or fc != exp)):
        res.violation("args:colour-or-position", f"vertices/colours drawn differ from positions[subset], scheme[labels]: got {fc[:4]} expected {exp[:4]}", case)
    c = Cursor(o["col"])
    mcol = c.list(c.z)
    c = Cursor(o["idx"][1:])
    midx = c.list(c.int)
    if midx != idx or [rgba(scheme[v]) for v in mcol] != fc[:len(mcol)] or len(mcol) != len(off):
        ctx.k_mismatch(f"args: model indices {midx} colours {mcol}, implementation colours {fc[:4]}", case)


# ------------------------------------------------------------------ line_intersection
def seg_tokens(s):
    return " ".join(qtok(x) for x in np.asarray(s, dtype=float).ravel())


def evaluate_intersections(ctx, n_blocks, seed):
    res = ctx.res
    rng = np.random.default_rng([seed, 161616])
    tol = 1e-14
    for blk in range(n_blocks):
        fam = ["grid8", "grid8", "uniform", "touching", "shallow", "axis"][blk % 6]
        n, m = int(rng.integers(2, 9)), int(rng.integers(2, 9))
        if fam == "grid8":
            A = rng.integers(-8, 17, size=(n, 2, 2)) / 8.0
            B = rng.integers(-8, 17, size=(m, 2, 2)) / 8.0
        elif fam == "uniform":
            A = rng.uniform(-1, 2, size=(n, 2, 2))
            B = rng.uniform(-1, 2, size=(m, 2, 2))
        elif fam == "axis":
            # exactly vertical / horizontal segments (lattice bonds of square and honeycomb cells) in the FIRST argument, crossed by
            # generic dyadic segments in the second; and the other way round in the next block of this family
            A = np.zeros((n, 2, 2)); B = np.zeros((m, 2, 2))
            for i in range(n):
                c0 = int(rng.integers(-4, 13)) / 8.0
                lo, hi = sorted(rng.choice(np.arange(-8, 17), size=2, replace=False) / 8.0)
                A[i] = [[c0, lo], [c0, hi]] if i % 2 == 0 else [[lo, c0], [hi, c0]]
                if rng.integers(0, 2):
                    A[i] = A[i][::-1]
            for j in range(m):
                i = int(rng.integers(0, n))
                mid = (A[i, 0] + A[i, 1]) / 2 if j % 3 else rng.integers(-8, 17, size=2) / 8.0
                d = np.array([int(rng.integers(1, 9)), int(rng.integers(1, 9)) * int(rng.choice([-1, 1]))]) / 16.0
                B[j] = [mid - d, mid + d * int(rng.integers(1, 3))]
            if (blk // 6) % 2:
                A, B = B, A
        elif fam == "shallow":
            # segments that really cross, in general position, at a shallow angle 2^-k (k = 16..26), none of them axis-aligned:
            # the cross product of the directions is ~1e-5..1e-8, far above the 1e-14 parallel tolerance
            A = np.zeros((n, 2, 2)); B = np.zeros((n, 2, 2)); m = n
            for i in range(n):
                p = rng.integers(-4, 9, size=2) / 8.0
                d = np.array([int(rng.integers(3, 9)), int(rng.integers(2, 8)) * int(rng.choice([-1, 1]))]) / 8.0
                eps = 2.0 ** -int(rng.integers(16, 27))
                d2 = d + eps * np.array([-d[1], d[0]])
                mid = p + d / 2
                A[i] = [p, p + d]
                B[i] = [mid - d2 / 4 * int(rng.integers(1, 3)), mid + d2 / 4]
        else:   # B starts/ends on points of A (dyadic, so exactly representable)
            A = rng.integers(-8, 17, size=(n, 2, 2)) / 8.0
            B = rng.integers(-8, 17, size=(m, 2, 2)) / 8.0
            for j in range(m):
                i = int(rng.integers(0, n))
                lam = int(rng.integers(0, 5)) / 4.0
                B[j, int(rng.integers(0, 2))] = A[i, 0] + lam * (A[i, 1] - A[i, 0])
        case = {"kind": "lint", "family": fam, "A": A.tolist(), "B": B.tolist()}
        check_lint_case(ctx, case)


def check_lint_case(ctx, case):
    res = ctx.res
    A, B = np.array(case["A"], dtype=float), np.array(case["B"], dtype=float)
    n, m = len(A), len(B)
    tol = 1e-14
    got = np.asarray(kp.line_intersection(A.copy(), B.copy()))
    pairs = [(i, j) for i in range(n) for j in range(m)]
    line = "lint " + qtok(tol) + " " + str(len(pairs)) + " " + " ".join(seg_tokens(A[i]) + " " + seg_tokens(B[j]) for i, j in pairs)
    o = drv(ctx, [line])[0]
    if "error" in o:
        raise RuntimeError(f"driver error {o['error']}")
    c = Cursor(o["li"])
    mo = c.list(lambda: (c.next() == "1", c.next() == "1"))
    exact_inputs = case["family"] != "uniform"
    for (i, j), (mli, mex) in zip(pairs, mo):
        s1, e1, s2, e2 = [tuple(Fraction(float(x)) for x in p) for p in (A[i, 0], A[i, 1], B[j, 0], B[j, 1])]
        d1 = (e1[0] - s1[0], e1[1] - s1[1])
        d2 = (e2[0] - s2[0], e2[1] - s2[1])
        cr = d1[0] * d2[1] - d1[1] * d2[0]
        general = abs(float(cr)) >= 1e-9
        fam = "lint/" + case["family"]
        if general:
            ns = (s2[0] - s1[0]) * d2[1] - (s2[1] - s1[1]) * d2[0]
            nt = (s2[0] - s1[0]) * d1[1] - (s2[1] - s1[1]) * d1[0]
            s, t = ns / cr, nt / cr
            mar = min(abs(float(v)) for v in (s, 1 - s, t, 1 - t))
            truth = 0 <= s <= 1 and 0 <= t <= 1
            if mar < 1e-9 and not exact_inputs:
                res.skip("lint:parameter-within-1e-9-of-0-or-1")
                continue
            res.count(fam + ("/touching" if mar == 0 else "/general"), digest([A[i].tolist(), B[j].tolist()]))
            res.traces += 1
            if truth != mex:
                raise RuntimeError("harness and extracted exact predicate disagree")
            if bool(got[i, j]) != truth:
                res.violation("line_intersection:general-position", f"line_intersection({A[i].tolist()}, {B[j].tolist()}) = {bool(got[i, j])}, exact arithmetic says {truth} (s={float(s)}, t={float(t)})",
                              {"kind": "lint", "family": case["family"], "A": [A[i].tolist()], "B": [B[j].tolist()]})
            if bool(got[i, j]) != mli:
                ctx.k_mismatch(f"line_intersection model {mli} vs implementation {bool(got[i, j])}", {"kind": "lint", "family": case["family"], "A": [A[i].tolist()], "B": [B[j].tolist()]})
        else:
            if not exact_inputs:
                res.skip("lint:nearly-parallel")
                continue
            # parallel / colinear on exactly representable inputs: correspondence only (tolerance branches)
            res.count(fam + "/parallel", None)
            res.traces += 1
            if bool(got[i, j]) != mli:
                ctx.k_mismatch(f"line_intersection (parallel branch) model {mli} vs implementation {bool(got[i, j])}", {"kind": "lint", "family": case["family"], "A": [A[i].tolist()], "B": [B[j].tolist()]})


# ------------------------------------------------------------------ case lists
def exact_grid_cases(rng, count):
    """lattices on the 1/8 grid (vertices ON cell lines included) with edge vectors in {0,+-1/8,+-1/4,+-1/2}^2"""
    out = []
    for nx, ny, sh in [(2, 2, 0), (4, 2, 0), (4, 4, 0), (2, 4, 0.125), (4, 4, 0.125), (2, 2, 0.25)]:
        pos, edges, cr = [], [], []
        for i in range(nx):
            for j in range(ny):
                pos.append([i / nx + sh, j / ny + (sh if nx != ny else 0)])
        for i in range(nx):
            for j in range(ny):
                a = i * ny + j
                edges.append([a, ((i + 1) % nx) * ny + j]); cr.append([1 if i + 1 == nx else 0, 0])
                edges.append([a, i * ny + (j + 1) % ny]); cr.append([0, 1 if j + 1 == ny else 0])
        out.append({"family": "raw", "positions": pos, "edges": edges, "crossing": cr})
    allowed = {0.0, 0.125, 0.25, 0.5}
    while len(out) < count:
        V = int(rng.integers(3, 9))
        pts = rng.permutation(64)[:V]
        pos = [[int(p) // 8 / 8.0, int(p) % 8 / 8.0] for p in pts]
        edges, cr = [], []
        for _ in range(int(rng.integers(2, 2 * V + 1)) * 4):
            j, k = int(rng.integers(0, V)), int(rng.integers(0, V))
            if j == k:
                continue
            c = [int(rng.integers(-1, 2)), int(rng.integers(-1, 2))]
            v = [pos[k][0] - pos[j][0] + c[0], pos[k][1] - pos[j][1] + c[1]]
            if abs(v[0]) in allowed and abs(v[1]) in allowed and (v[0] or v[1]):
                edges.append([j, k]); cr.append(c)
        if edges:
            out.append({"family": "raw", "positions": pos, "edges": edges, "crossing": cr})
    return out


def lattice_cases(tier, seed):
    rng = np.random.default_rng([seed, 16])
    ex = gen.example_cases(tier)
    ex = [c for c in ex if c["name"] != "multi_graph"]
    if tier == "quick":
        vor = gen.voronoi_cases(tier, rng, 36, 40)
    else:
        vor = gen.voronoi_cases(tier, rng, 160, 120)
    tiles = [c for c in ex if c["name"] in ("honeycomb_lattice", "hex_square_oct_lattice", "tri_non_lattice", "square_lattice")]
    der = gen.derived_cases(vor + tiles, rng)
    lats = ex + vor + der
    reps = 2
    out = []
    for k, c in enumerate(lats):
        for r in range(reps if c["family"] in ("example", "voronoi") else 1):
            out.append({"kind": "lattice", "lattice": c, "seed": int(rng.integers(0, 2**31))})
    for c in exact_grid_cases(rng, 40 if tier == "quick" else 200):
        out.append({"kind": "lattice", "lattice": c, "exact": True, "seed": int(rng.integers(0, 2**31))})
    return out


def run(ctx):
    ctx.res.rule = ("lattices: all built-in example graphs/tilings, periodic Voronoi lattices (2..N seeds, six point styles), their x/y/xy cuts (open), edge-deleted / vertex-isolated subgraphs, duals, tiled cells; "
                    "each with random subset (slice with negative/None bounds and steps, boolean mask, index list with repeats and negative indices), labels scalar / full-size / subset-size, "
                    "colour schemes of 1..5 colours, arrows on ~40%; plus argument-handling cases on edgeless lattices (incl. malformed) and segment pairs for line_intersection. "
                    "non-trivial = periodic lattice in which at least one selected edge/plaquette is drawn in >= 2 images, or open lattice with a mask/index subset; "
                    "args case with a proper subset; segment pair in general position (distinct)")
    import c16x
    ctx.xrec = {}
    cases = lattice_cases(ctx.tier, ctx.seed)
    for c in cases:
        evaluate_lattice(ctx, c)
    evaluate_args(ctx, 250 if ctx.tier == "quick" else 2000, ctx.seed)
    evaluate_intersections(ctx, 60 if ctx.tier == "quick" else 400, ctx.seed)
    default_scheme_sequence(ctx)
    t0 = time.time()
    c16x.evaluate_colour_args(ctx, 300 if ctx.tier == "quick" else 3000, ctx.seed)
    ctx.res.extra.setdefault("glue_wall_s", {})["_process_plot_args"] = round(time.time() - t0, 2)
    c16x.crosscheck(ctx)        # extraction cross-check: a sample of the driver's answers re-derived inside Coq
    ctx.xrec = None


def default_scheme_sequence(ctx):
    """Sequence check for the colour clause: a call that overrides the first colour with the `color=` keyword must
    not change what LATER calls with the default colour scheme draw (the default scheme is a shared module-level
    list), nor the caller's own scheme list."""
    import koala.plotting as pl
    from koala import example_graphs as eg
    res = ctx.res
    lat = eg.honeycomb_lattice(3)
    labels = np.arange(lat.n_edges) % 2
    plabels = np.arange(lat.n_plaquettes) % 2
    def snapshot():
        a = call_impl(pl.plot_edges, lat, labels=labels)
        b = call_impl(pl.plot_plaquettes, lat, labels=plabels)
        if "exc" in a or "exc" in b:
            return None
        return read_edges(a["ax"])[1], [fc for _, fc in read_plaquettes(b["ret"] if isinstance(b["ret"], (list, tuple)) else [c for c in b["ax"].collections])]
    before = snapshot()
    mine = ["#111111", "#222222", "#333333"]
    mine0 = list(mine)
    for fn, lab in ((pl.plot_edges, labels), (pl.plot_plaquettes, plabels), (pl.plot_vertices, np.arange(lat.n_vertices) % 2)):
        call_impl(fn, lat, labels=lab, color="#abcdef")
        call_impl(fn, lat, labels=lab, color_scheme=mine, color="#fedcba")
    after = snapshot()
    res.count("sequence/color-keyword-then-default-scheme", ("seq", "color-kw"))
    if before is None or after is None:
        res.skip("sequence: default-scheme plot raised")
        return
    if mine != mine0:
        res.violation("sequence:caller-scheme-modified", f"the caller's colour scheme list {mine0} was changed to {mine} by a call with color=", {"sequence": "color-kw"})
    if before != after:
        res.violation("sequence:default-scheme-changed-by-earlier-call", "after calls with the color= keyword, plot_edges / plot_plaquettes with the DEFAULT colour scheme draw "
                      "label-0 elements in a different colour than before (the shared default scheme was modified): each drawn piece must carry the colour selected by its label",
                      {"sequence": "color-kw"})


def search(ctx):
    cases = lattice_cases("thorough" if ctx.tier != "quick" else "quick", ctx.seed + 1)
    for c in cases[:400]:
        evaluate_lattice(ctx, c)
    evaluate_args(ctx, 1000, ctx.seed + 1)
    evaluate_intersections(ctx, 200, ctx.seed + 1)


def replay(ctx, payload):
    if "case" not in payload:          # an "unproved_*" replay: re-run the inputs on which model and implementation differed
        for mm in payload.get("correspondence_mismatches", []):
            replay(ctx, {"case": mm["case"]})
        return
    case = payload["case"]
    k = case.get("kind")
    if k == "lattice":
        evaluate_lattice(ctx, case)
    elif k == "args":
        o = drv(ctx, ["args %d %s %s %d" % (case["N"], tok_subset(case["subset"]), tok_labels(case["labels"]), len(case["scheme"]))])[0]
        check_args_case(ctx, case, o)
    elif k == "lint":
        check_lint_case(ctx, case)
    elif k == "cargs":
        import c16x
        outs = drv(ctx, ["argsc %d %s" % (case["N"], c16x.c_tokens(case)), "cres %s %s" % (c16x.sarg_tok(case["sarg"]), c16x.kw_tok(case["kw"]))])
        c16x.check_colour_args_case(ctx, case, outs[0], outs[1])
    else:
        raise ValueError(f"unknown replay kind {k}")
