"""C03 — the Voronoi generator returns the periodic Voronoi tessellation of its points.

Qhull is not modelled.  For every generated point set the harness
  1. builds (untrusted: scipy Delaunay on a replicated window) a certificate C = the periodic Delaunay
     triangles (three seeds with integer cell offsets, a bounding-box hint for the circumdisc),
  2. lets the extracted, proved-sound checkers decide EXACTLY (Model/Delaunay.v):
        check_delaunay S w pts C      (C is the periodic Delaunay triangulation of pts)
        check_dual S tol shift pts C L vt   (koala's lattice L is the dual of C)
        dense_ok                     (the property's density precondition)
  3. evaluates the tiling clauses (one plaquette per seed, containing it, areas sum to 1, two different
     plaquettes per edge) exactly on koala's plaquettes under the property's side conditions,
  4. runs lloyd_relaxation for 1..5 steps (cell count preserved),
  5. K: calls scipy.spatial.Voronoi on exactly the replicated points koala uses, serialises the record exactly and
     compares koala's output arrays with the extracted model of the post-processing code (Model/VoronoiPost.v):
     edge indices and crossings exactly and in order, positions to 1e-12 (see k_run)."""
from lib import *  # noqa
import gen
import functools
from scipy.spatial import Delaunay, cKDTree
from koala import voronization, graph_utils
from koala.lattice import Lattice

DRIVERS = ("c03",)
MODEL_TARGETS = ["Model/Lattice.vo", "Model/Delaunay.vo", "Model/VoronoiPost.vo", "Model/VoronoiPeriodic.vo", "Model/VoronoiDual.vo", "Model/VoronoiPeriodicTol.vo"]
TARGETS = ["Proofs/DelaunayFacts.vo", "Proofs/VoronoiPostFacts.vo", "Proofs/VoronoiPostCorrect.vo", "Proofs/VoronoiPostDual.vo", "Proofs/VoronoiPostTol.vo"]
LEVEL = "proof"
TRUST = [
    "PARTIAL, checker-level: Qhull (scipy.spatial.Voronoi) is not modelled; the C03_* theorems are about the certificate checkers "
    "check_delaunay / check_dual of coq/Model/Delaunay.v, which are run (extracted) on every generated input and on koala's output",
    "the code after `Voronoi(points)` (voronization.py:82-204) is modelled by hand in coq/Model/VoronoiPost.v (modelled, not verified) and tied to the code by K: "
    "same scipy Voronoi record (Qhull is deterministic; recomputed by the harness on the replicated points), output arrays compared exactly (positions to 1e-12); "
    "the C03_post_* theorems are about that model; post_correct is proved at the graph level (C03_post_correct_graph / _trivalent: for a record that is periodic near the unit "
    "cell -- Model/VoronoiPeriodic.pvor_ok, evaluated per case by the extracted checker, counts H_* in `extra` -- the output has exactly the Voronoi vertices in the cell as vertices, "
    "exactly the finite ridges touching the cell, one per translation class, as edges, crossing = cell difference, degree = number of ridges, 2E = 3V); the link from there to "
    "and C03_post_correct_dual: if moreover the record is dual to the triangle assignment read off ridge_points (Model/VoronoiDual.dual_ok, evaluated per case, H_dual_*) the "
    "model's output passes check_dual for the certificate read off the record; pvor_ok can hold only where the replication is exact in floating point "
    "(shift_vertices=True, dyadic inputs); C03_post_correct_dual_t / _counts_t give the same conclusions from the index-level periodicity pvor_t_ok (through the nearest-vertex "
    "map, Model/VoronoiPeriodicTol.v), which also holds for Qhull's float circumcentres (H_pvor_t_*); that Qhull's record satisfies the hypotheses, and the plaquette clauses, are NOT proved",
    "KDTree.query(k=1) is modelled as the first vertex of minimal exact squared distance (C03_post_nearest_spec); queries whose runner-up is within 1e-9 are counted and skipped; "
    "the enumeration order of the CPython set `list(set(pbc_ridges.flatten()))` (vertex numbering, not constrained by the property) is an input of the model's "
    "re-indexing step with a checked contract (no repetition, exactly the surviving vertices): the harness recovers it from koala's positions (each within 1e-12 of "
    "exactly one surviving model vertex)",
    "shift_vertices: the model keeps the exact centroid (sum of three seeds, scale*3), koala rounds to float64: cases with a centroid coordinate within 1e-9 of a cell "
    "boundary are skipped unless it is exactly on it and the inputs have <= 30 binary digits (then the float centroid is exact too)",
    "geometry fact G3 (a triangulation of the torus by positively oriented triangles glued side to side, of total area 1, all of whose circumdiscs "
    "are empty, is the periodic Delaunay triangulation, and its dual is the periodic Voronoi diagram) is not proved in Coq",
    "vertex positions are compared with the exact circumcentre/centroid with tolerance 2e-7 of the cell (Qhull accuracy)",
    "tiling clauses (one plaquette per seed, containment, area sum, two different plaquettes per edge) and the Lloyd clause are evaluated by the Python "
    "harness with exact rational arithmetic on koala's plaquettes; they are not theorems",
    "point sets within 1e-9 of a degenerate predicate (four co-circular seeds, a vertex on the cell boundary) are counted and skipped (genericity clause)",
]
ASSUMPTIONS = [
    "N >= 2 distinct points in [0,1)^2 in general position; largest empty circle <= 1/3 (N>10) resp. 2/3 (N<=10), evaluated exactly from the certificate (dense_ok); "
    "point sets failing it are counted and skipped",
    "tiling clauses only when no Voronoi cell touches its own periodic image and (shift_vertices=True) the shift keeps the cyclic order of the edges at every vertex",
]

TOL = 2e-7


# ------------------------------------------------------------------ exact helpers (python ints / Fractions)
def orient(a, b, c):
    return (b[0] - a[0]) * (c[1] - a[1]) - (b[1] - a[1]) * (c[0] - a[0])


def cc_off(a, b, c):
    Ax, Ay, Bx, By = b[0] - a[0], b[1] - a[1], c[0] - a[0], c[1] - a[1]
    A2, B2 = Ax * Ax + Ay * Ay, Bx * Bx + By * By
    return (A2 * By - B2 * Ay, B2 * Ax - A2 * Bx)


def site_pos(P, S, s):
    i, (ox, oy) = s
    return (P[i][0] + S * ox, P[i][1] + S * oy)


def ref_point(P, S, t, shift):
    a, b, c = (site_pos(P, S, s) for s in t)
    if shift:
        return (a[0] + b[0] + c[0], a[1] + b[1] + c[1]), 3
    o2 = 2 * orient(a, b, c)
    u = cc_off(a, b, c)
    return (o2 * a[0] + u[0], o2 * a[1] + u[1]), o2


def make_points(case):
    if case["style"] == "raw":
        return np.array(case["points"], dtype=float).reshape(-1, 2)
    if case["style"] == "grid":
        # distinct points of a coarse dyadic grid: centroids of Delaunay triangles land EXACTLY on the cell boundary
        den = case["den"]
        rng = np.random.default_rng([case["seed"], case["n"], den])
        idx = rng.choice(den * den, size=case["n"], replace=False)
        return np.array([[(i // den) / den, (i % den) / den] for i in idx], dtype=float)
    p = gen.points(case["style"], case["n"], case["seed"])
    b = case.get("bits")
    if b:
        p = (np.round(p * 2.0 ** b) / 2.0 ** b) % 1.0
    if case.get("f32"):
        p = p.astype(np.float32).astype(float)      # values exactly representable in single precision
    return p


def exact_points(p):
    S = common_scale(p)
    return [(int(Fraction(float(x)) * S), int(Fraction(float(y)) * S)) for x, y in p], S


def build_cert(P, S, shift, pad):
    """untrusted: periodic Delaunay triangles whose reference point lies in (0,S]^2, from scipy Delaunay
    on the (2pad+1)^2 window.  Returns list of triangles (three sites, ccw)."""
    N = len(P)
    offs = [(i, j) for i in range(-pad, pad + 1) for j in range(-pad, pad + 1)]
    rep = np.array([[(x + S * i) / S, (y + S * j) / S] for (i, j) in offs for (x, y) in P], dtype=float)
    D = Delaunay(rep)
    T = []
    for sx in D.simplices:
        t = [(int(k) % N, offs[int(k) // N]) for k in sx]
        a, b, c = (site_pos(P, S, s) for s in t)
        o = orient(a, b, c)
        if o == 0:
            continue
        if o < 0:
            t[1], t[2] = t[2], t[1]
        (nx, ny), m = ref_point(P, S, t, shift)
        if 0 < nx <= m * S and 0 < ny <= m * S:
            T.append(tuple(t))
    return T


def box_hint(P, S, t):
    a, b, c = (site_pos(P, S, s) for s in t)
    o2 = 2 * orient(a, b, c)
    u = cc_off(a, b, c)
    r2 = (u[0] * u[0] + u[1] * u[1]) // (o2 * o2)
    R = math.isqrt(r2) + 2
    cx, cy = a[0] + u[0] // o2, a[1] + u[1] // o2
    return (cx - R - 1, cx + R + 2, cy - R - 1, cy + R + 2)


def skey(p, q):
    return (p[0], q[0], (q[1][0] - p[1][0], q[1][1] - p[1][1]))


def tri_sides(t):
    return [(t[0], t[1]), (t[1], t[2]), (t[2], t[0])]


def neighbours(T):
    """side key -> (triangle index, side index)"""
    d = {}
    for ti, t in enumerate(T):
        for si, (p, q) in enumerate(tri_sides(t)):
            d[skey(p, q)] = (ti, si, p[1])
    return d


def float_margins(P, S, T, shift):
    """(gap of the nearest foreign seed image to a circumcircle, distance of a reference point from the cell
    boundary), in units of the cell, float estimates used ONLY for the genericity skip"""
    side = neighbours(T)
    gap = 1.0
    bnd = 1.0
    for ti, t in enumerate(T):
        a, b, c = (site_pos(P, S, s) for s in t)
        o2 = 2 * orient(a, b, c)
        u = cc_off(a, b, c)
        ccx, ccy = a[0] / S + (u[0] / o2) / S, a[1] / S + (u[1] / o2) / S
        R = math.hypot(u[0] / o2, u[1] / o2) / S
        for (p, q) in tri_sides(t):
            k = skey(q, p)
            if k not in side:
                continue
            tj, sj, off = side[k]
            # neighbour translated so that its side q'->p' coincides: third vertex
            t2 = T[tj]
            third = t2[(sj + 2) % 3]
            d0 = (q[1][0] - off[0], q[1][1] - off[1])
            dpos = site_pos(P, S, (third[0], (third[1][0] + d0[0], third[1][1] + d0[1])))
            gap = min(gap, math.hypot(dpos[0] / S - ccx, dpos[1] / S - ccy) - R)
        (nx, ny), m = ref_point(P, S, t, shift)
        for v in (nx / m / S, ny / m / S):
            bnd = min(bnd, abs(v), abs(1 - v))
        if nx == m * S or ny == m * S:
            bnd = 0.0      # exactly on the closed side of the cell (decided in exact arithmetic)
    return gap, bnd


# ------------------------------------------------------------------ serialisation
def ser_case(P, S, w, tolS, shift, T, boxes, Lpos, Ledges, Lcross, vt):
    toks = ["c03", hx(S), hx(w), hx(tolS), "1" if shift else "0", str(len(P))]
    for x, y in P:
        toks += [hx(x), hx(y)]
    toks.append(str(len(T)))
    for t, bx in zip(T, boxes):
        for (i, (ox, oy)) in t:
            toks += [str(i), hx(ox), hx(oy)]
        toks += [hx(v) for v in bx]
    toks += [hx(S), str(len(Lpos))]
    for x, y in Lpos:
        toks += [hx(x), hx(y)]
    toks.append(str(len(Ledges)))
    for j, k in Ledges:
        toks += [str(int(j)), str(int(k))]
    toks.append(str(len(Lcross)))
    for a, b in Lcross:
        toks += [hx(int(a)), hx(int(b))]
    toks.append(str(len(vt)))
    toks += [str(int(v)) for v in vt]
    return " ".join(toks)


# ------------------------------------------------------------------ exact tiling clauses on koala's plaquettes
def ang_cmp(v, w):
    """exact comparison of the angles of two non-zero rational vectors in [0, 2pi)"""
    def half(u):
        return 0 if (u[1] > 0 or (u[1] == 0 and u[0] > 0)) else 1
    hv, hw = half(v), half(w)
    if hv != hw:
        return -1 if hv < hw else 1
    c = v[0] * w[1] - v[1] * w[0]
    return -1 if c > 0 else (1 if c < 0 else 0)


def cyclic_order(vecs):
    idx = sorted(range(len(vecs)), key=functools.cmp_to_key(lambda i, j: ang_cmp(vecs[i], vecs[j])))
    k = idx.index(0)
    return tuple(idx[k:] + idx[:k])


def shift_keeps_order(P, S, T):
    """exact: at every vertex (triangle) the ccw cyclic order of the three edges is the same with centroid
    positions as with circumcentre positions"""
    side = neighbours(T)
    for t in T:
        orders = []
        for sh in (False, True):
            (nx, ny), m = ref_point(P, S, t, sh)
            me = (Fraction(nx, m), Fraction(ny, m))
            vecs = []
            for (p, q) in tri_sides(t):
                k = skey(q, p)
                if k not in side:
                    return None
                tj, sj, off = side[k]
                d0 = (q[1][0] - off[0], q[1][1] - off[1])     # translation of the neighbour
                (mx, my), mm = ref_point(P, S, T[tj], sh)
                vecs.append((Fraction(mx, mm) + S * d0[0] - me[0], Fraction(my, mm) + S * d0[1] - me[1]))
            if any(v == (0, 0) for v in vecs):
                return False
            orders.append(cyclic_order(vecs))
        if orders[0] != orders[1]:
            return False
    return True


def point_in_polygon(pt, poly):
    """exact; returns 1 inside, 0 on the boundary, -1 outside (crossing number)"""
    x, y = pt
    inside = False
    n = len(poly)
    for i in range(n):
        (x1, y1), (x2, y2) = poly[i], poly[(i + 1) % n]
        # on segment?
        cr = (x2 - x1) * (y - y1) - (y2 - y1) * (x - x1)
        if cr == 0 and min(x1, x2) <= x <= max(x1, x2) and min(y1, y2) <= y <= max(y1, y2):
            return 0
        if (y1 > y) != (y2 > y):
            # x coordinate of the crossing compared with x, without division
            t = (x2 - x1) * (y - y1) - (x - x1) * (y2 - y1)
            if (t > 0) == (y2 > y1):
                inside = not inside
    return 1 if inside else -1


def tiling_clauses(points, lat, P, S, T, vt, shifted):
    """the second sentence of the property, exact on koala's own plaquettes.  Returns list of (key, what)."""
    bad = []
    N = len(P)
    pos = lat.vertices.positions
    FP = [(Fraction(float(x)), Fraction(float(y))) for x, y in pos]
    edges, crossing = lat.edges.indices, lat.edges.crossing
    pl = lat.plaquettes
    if len(pl) != N:
        bad.append(("plaquette-count", f"{len(pl)} plaquettes for {N} input points"))
    total = Fraction(0)
    seeds_seen = {}
    for pi, p in enumerate(pl):
        cur = FP[int(p.vertices[0])]
        poly = []
        for e, d in zip(p.edges, p.directions):
            j, k = int(edges[e][0]), int(edges[e][1])
            v = (FP[k][0] - FP[j][0] + int(crossing[e][0]), FP[k][1] - FP[j][1] + int(crossing[e][1]))
            cur = (cur[0] + int(d) * v[0], cur[1] + int(d) * v[1])
            poly.append(cur)
        n = len(poly)
        a2 = sum(poly[k][0] * poly[(k + 1) % n][1] - poly[(k + 1) % n][0] * poly[k][1] for k in range(n))
        total += a2 / 2
        # the seed of this plaquette: the one site (seed, offset) common to the Delaunay triangles of its
        # vertices, unrolled along the walk (edge (j,k) with crossing c: the image of k seen from j is k + c)
        tr = (0, 0)
        common = None
        for v, e, d in zip(p.vertices, p.edges, p.directions):
            s = {(site[0], (site[1][0] + tr[0], site[1][1] + tr[1])) for site in T[vt[int(v)]]}
            common = s if common is None else (common & s)
            tr = (tr[0] + int(d) * int(crossing[e][0]), tr[1] + int(d) * int(crossing[e][1]))
        if not common or len(common) != 1:
            bad.append(("plaquette-seed", f"plaquette {pi}: the Delaunay triangles of its vertices share the sites {sorted(common or [])}, expected exactly one"))
            continue
        i, off = next(iter(common))
        if i in seeds_seen:
            bad.append(("plaquette-seed-twice", f"plaquettes {seeds_seen[i]} and {pi} both surround seed {i}"))
        seeds_seen[i] = pi
        # the walk starts at pos[v0] (in the cell); polygon point k is the head of step k
        q = (Fraction(P[i][0], S) + off[0], Fraction(P[i][1], S) + off[1])
        if point_in_polygon(q, poly) != 1:
            bad.append(("seed-not-inside" if not shifted else "shifted-cell-misses-seed",
                        f"plaquette {pi} (vertices {[int(v) for v in p.vertices]}, polygon {[(float(a), float(b)) for a, b in poly]}) does not contain its seed {i} at {(float(q[0]), float(q[1]))}"))
    if total != 1:
        bad.append(("area-sum", f"plaquette areas sum to {float(total)!r} (exactly {total}), not 1"))
    ep = lat.edges.adjacent_plaquettes
    for e in range(len(edges)):
        a, b = int(ep[e][0]), int(ep[e][1])
        if a == INVALID or b == INVALID or a == b:
            bad.append(("edge-two-plaquettes", f"edge {e} borders plaquettes {a if a != INVALID else 'INVALID'} and {b if b != INVALID else 'INVALID'}"))
            break
    return bad


def exact_cells_contain_seeds(P, S, T):
    """exact: for every corner of every triangle of the certificate, the polygon of the exact circumcentres of the
    triangles around that seed (walked through shared sides) contains the seed"""
    side = neighbours(T)
    for t in T:
        for k in range(3):
            p = t[k]                              # the seed site we walk around
            poly, cur, ck, tr = [], t, k, (0, 0)
            for _ in range(64):
                (nx, ny), m = ref_point(P, S, cur, False)
                poly.append((Fraction(nx, m) + S * tr[0], Fraction(ny, m) + S * tr[1]))
                # leave through the side (corner ck+2 -> corner ck); the neighbour has it reversed
                a, b = cur[(ck + 2) % 3], cur[ck]
                key = skey(b, a)
                if key not in side:
                    return False
                tj, sj, off = side[key]           # neighbour side sj goes b' -> a', b' has offset `off`
                d0 = (b[1][0] - off[0], b[1][1] - off[1])
                tr = (tr[0] + d0[0], tr[1] + d0[1])
                cur, ck = T[tj], sj               # in the neighbour our seed is the start corner of side sj
                if (tj, ck, tr) == (T.index(t), k, (0, 0)):
                    break
            else:
                return False
            q = (Fraction(P[p[0]][0]) + S * p[1][0], Fraction(P[p[0]][1]) + S * p[1][1])
            if point_in_polygon(q, poly) != 1:
                return False
    return True


def unshifted_containment_ok(points):
    """the same point set with shift_vertices=False: every plaquette contains its seed (exact).  When koala's
    unshifted run is itself not evaluable (a float circumcentre within 1e-9 of the cell boundary: non-generic for
    shift_vertices=False) the exact Voronoi cells of the certificate are used instead."""
    try:
        n = len(points)
        lat = voronization.generate_lattice(points.copy(), shift_vertices=False)
        Lpos = np.array(lat.vertices.positions, dtype=float)
        S = max(common_scale(points), common_scale(Lpos))
        P = [(int(Fraction(float(x)) * S), int(Fraction(float(y)) * S)) for x, y in points]
        T = build_cert(P, S, False, 3 if n <= 10 else 2)
        if len(T) == 2 * n and float_margins(P, S, T, False)[1] < 1e-9:
            return exact_cells_contain_seeds(P, S, T)
        if len(T) != 2 * n or len(Lpos) != 2 * n:
            return False
        refs = np.array([[float(Fraction(r[0][0], r[1] * S)), float(Fraction(r[0][1], r[1] * S))]
                         for r in (ref_point(P, S, t, False) for t in T)])
        _, vt = cKDTree(refs).query(Lpos, k=1)
        return not tiling_clauses(points, lat, P, S, T, [int(v) for v in vt], False)
    except Exception:
        return False


def window_has_cocircular(points):
    """Qhull's Voronoi diagram of the replicated window (exactly what koala computes) has a vertex with more than
    three ridges, i.e. four (nearly) co-circular points with an empty circle inside the finite window"""
    from scipy.spatial import Voronoi
    try:
        vor = Voronoi(voronization.generate_point_array(points, 1 if len(points) > 10 else 2))
        ri = np.array([r for r in vor.ridge_vertices])
        cnt = np.bincount(ri[ri >= 0].flatten(), minlength=len(vor.vertices))
        return bool(np.any(cnt != 3))
    except Exception:
        return True


# ------------------------------------------------------------------ K: the post-processing code vs Model/VoronoiPost.v
K_TIE = 1e-9


def replicate(points):
    """koala's generate_point_array / padding rule, re-implemented (voronization.py:26-38, :75-78): same float64 additions"""
    pad = 1 if points.shape[0] > 10 else 2
    offs = [(dx, dy) for dx in range(-pad, pad + 1) for dy in range(-pad, pad + 1)]
    return np.concatenate([points + np.array(d, dtype=float) for d in offs]), pad


def exact_ints(arr, S):
    out = []
    for row in np.asarray(arr, dtype=float).reshape(-1, 2):
        r = []
        for x in row:
            n, d = float(x).as_integer_ratio()
            r.append(n * (S // d))
        out.append(r)
    return out


def k_prepare(points, shift):
    """scipy's Voronoi of exactly the replicated points koala uses, serialised exactly for the `post` command"""
    from scipy.spatial import Voronoi
    rep, pad = replicate(points)
    vor = Voronoi(rep)
    S = max(common_scale(rep), common_scale(vor.vertices))
    P = exact_ints(rep, S)
    V = exact_ints(vor.vertices, S)
    toks = ["post", "1" if shift else "0", hx(S), str(len(P))]
    for x, y in P:
        toks += [hx(x), hx(y)]
    toks.append(str(len(V)))
    for x, y in V:
        toks += [hx(x), hx(y)]
    rv = [(int(a), int(b)) for a, b in vor.ridge_vertices]
    toks.append(str(len(rv)))
    for a, b in rv:
        toks += [hx(a), hx(b)]
    rp = np.asarray(vor.ridge_points, dtype=int).reshape(-1, 2)
    toks.append(str(len(rp)))
    for a, b in rp:
        toks += [str(int(a)), str(int(b))]
    return {"line": " ".join(toks), "S": S, "V": V, "P": P, "rep": rep, "pad": pad, "nV": len(V), "nR": len(rv), "rv": rv,
            "rp": [(int(a), int(b)) for a, b in rp]}


def parse_pairs(tok, f):
    c = Cursor(tok)
    return c.list(lambda: (f(c), f(c)))


def k_run(ctx, queue):
    """K: koala's generate_lattice output arrays == Model/VoronoiPost.post_process on the same Voronoi record.
    Edge indices and crossings exactly and in the same order, positions to 1e-12.  The one thing the property leaves open is
    the numbering of the vertices (koala: enumeration order of a CPython set, voronization.py:191); it is an input of the model's
    re-indexing step: the harness recovers the enumeration koala used from its positions, the model checks the contract of a set
    enumeration (no repetition, exactly the surviving vertices) and re-indexes; how often it equals CPython's set order built from
    the MODEL's ridge list is recorded (K_order_is_cpython_set_order)."""
    res, ex = ctx.res, ctx.res.extra
    for k in ("K_compared", "K_skipped_near_tie_nearest", "K_skipped_near_tie_classification", "K_both_error", "K_exact_boundary_evaluated",
              "K_order_sorted", "K_replication_exact_checked"):
        ex.setdefault(k, 0)
    items = []
    for q in queue:
        try:
            q.update(k_prepare(q["points"], q["shift"]))
            items.append(q)
        except Exception as e:
            # Qhull itself failed on the replicated points: koala must have failed the same way
            if "exception" not in q:
                ctx.k_mismatch(f"scipy Voronoi raised {type(e).__name__} in the harness but generate_lattice returned", q["case"])
            else:
                ex["K_both_error"] += 1
    outs = run_driver_parallel(ctx.exe["c03"], [q["line"] for q in items], jobs=8)
    hyps_run(ctx, items)
    stage2 = []
    for q, o in zip(items, outs):
        case, shift = q["case"], q["shift"]
        _xc_push(ctx, "post", q["line"], o, len(q["points"]))
        if "error" in o:
            raise RuntimeError(f"c03 driver error {o['error']} on {case}")
        # ---- replication (exact model vs koala's float additions): order of the copies, padding rule
        if q.get("check_rep"):
            pts = q["points"]
            Sp = common_scale(pts)
            line = " ".join(["replicate", hx(Sp), str(len(pts))] + [hx(v) for xy in exact_ints(pts, Sp) for v in xy])
            r = run_driver(ctx.exe["c03"], [line])[0]
            _xc_push(ctx, "rep", line, r, len(pts))
            mp = np.array(parse_pairs(r["points"], lambda c: c.z()), dtype=object).reshape(-1, 2)
            mpf = np.array([[float(Fraction(int(a), Sp)), float(Fraction(int(b), Sp))] for a, b in mp]).reshape(-1, 2)
            try:
                krep = voronization.generate_point_array(pts, 1 if len(pts) > 10 else 2)
            except Exception as e:
                krep = None
            if krep is None or krep.shape != mpf.shape or np.max(np.abs(krep - mpf)) > 1e-12 or unhx(r["padding"][0]) != q["pad"]:
                ctx.k_mismatch("generate_point_array / padding differs from Model/VoronoiPost.generate_point_array (order of the copies, offsets)", case)
            ex["K_replication_exact_checked"] += 1
        if "err" in o:
            if "exception" in q:
                ex["K_both_error"] += 1
            else:
                ctx.k_mismatch(f"model rejects the Voronoi record ({' '.join(o['err'])}) but generate_lattice returned a lattice", case)
            continue
        S2 = unhx(o["scale"][0])
        # ---- near ties: classification (only where koala's float differs from the exact value: shifted centroids)
        if shift:
            VS = parse_pairs(o["verts"], lambda c: c.z())
            near, exact_b = False, False
            for xy in VS:
                for n in xy:
                    r = n % S2
                    d = min(r, S2 - r)
                    if d == 0:
                        exact_b = True
                    elif d < K_TIE * S2:
                        near = True
            if near or (exact_b and not case.get("bits")):
                ex["K_skipped_near_tie_classification"] += 1
                continue
            if exact_b:
                ex["K_exact_boundary_evaluated"] += 1
        else:
            VS = q["V"]
        # ---- near ties: nearest-vertex queries
        c = Cursor(o["margins"])
        tie = False
        gap_min = ex.get("K_min_nearest_gap", 1.0)
        for _ in range(c.int()):
            for _ in range(2):
                bd = c.z()
                sd = c.next()
                if sd == "N":
                    continue
                gap = (math.isqrt(unhx(sd)) - math.isqrt(bd)) / S2
                if gap < K_TIE:
                    tie = True
                else:
                    gap_min = min(gap_min, gap)
        if tie:
            ex["K_skipped_near_tie_nearest"] += 1
            continue
        ex["K_min_nearest_gap"] = gap_min
        if "exception" in q:
            ctx.k_mismatch(f"generate_lattice raised {q['exception']} but the model returns a lattice", case)
            continue
        c = Cursor(o["pbc"])
        pbc = c.list(lambda: (c.int(), c.int(), c.z(), c.z()))
        # the enumeration of the surviving vertices.  koala uses the CPython set order `list(set(pbc_ridges.flatten()))`
        # (voronization.py:191), which the property does not constrain: the enumeration koala actually used is recovered
        # from its positions (each must sit, to 1e-12, on exactly one surviving vertex of the model) and handed to the
        # model, which checks the set contract (no repetition, exactly the survivors) and re-indexes.
        flat = np.array([[j, k] for j, k, _, _ in pbc], dtype=np.int64).reshape(-1, 2).flatten()
        cpy_order = [int(v) for v in list(set(flat))]
        surv = sorted(set(cpy_order))
        Lpos = q["arrays"][0]
        if len(Lpos) != len(surv):
            ex["K_compared"] += 1
            ctx.k_mismatch(f"koala returns {len(Lpos)} vertices, the model {len(surv)} (ends of the {len(pbc)} returned ridges)", case)
            continue
        sp = np.array([[float(Fraction(VS[v][0], S2)), float(Fraction(VS[v][1], S2))] for v in surv]).reshape(-1, 2)
        order, bad, ambiguous = [], None, False
        for i, p in enumerate(Lpos):
            hit = np.nonzero(np.all(np.abs(sp - p) <= 1e-12, axis=1))[0]
            if len(hit) == 0:
                bad = i
                break
            if len(hit) > 1:
                ambiguous = True
                break
            order.append(surv[int(hit[0])])
        if ambiguous:
            ex["K_skipped_coincident_vertices"] = ex.get("K_skipped_coincident_vertices", 0) + 1
            continue
        if bad is not None:
            ex["K_compared"] += 1
            ctx.k_mismatch(f"vertex {bad} at {Lpos[bad].tolist()} is not (to 1e-12) the position of any vertex the model keeps", case)
            continue
        ex["K_order_is_cpython_set_order"] = ex.get("K_order_is_cpython_set_order", 0) + int(order == cpy_order)
        ex["K_order_sorted"] += int(order == sorted(order))
        toks = ["reindex", str(len(VS))] + [hx(v) for xy in VS for v in xy] + [str(len(order))] + [str(v) for v in order]
        toks.append(str(len(pbc)))
        for j, k, cx, cy in pbc:
            toks += [str(j), str(k), hx(cx), hx(cy)]
        q["S2"] = S2
        q["sorted_out"] = o
        q["order"] = order
        stage2.append((q, " ".join(toks)))
    outs2 = run_driver_parallel(ctx.exe["c03"], [t for _, t in stage2], jobs=8)
    chain = []
    for (q, l2), o in zip(stage2, outs2):
        case = q["case"]
        if getattr(ctx, "xc", None) is not None:
            ctx.xc["reindex"].append((q["line"], l2, o))
        if "error" in o or "err" in o:
            ctx.k_mismatch(f"model re-indexing rejected the set enumeration: {o.get('err') or o.get('error')}", case)
            continue
        Lpos, Ledges, Lcross = q["arrays"]
        S2 = q["S2"]
        mpos = parse_pairs(o["positions"], lambda c: c.z())
        medges = parse_pairs(o["edges"], lambda c: c.int())
        mcross = parse_pairs(o["crossing"], lambda c: c.z())
        ex["K_compared"] += 1
        kedges = [(int(a), int(b)) for a, b in Ledges]
        kcross = [(int(a), int(b)) for a, b in Lcross]
        if medges != kedges or mcross != kcross:
            # not identical arrays: the property constrains the edges as a multiset of periodic edges, (j,k,c) ~ (k,j,-c)
            def canon(e, c):
                (j, k), (cx, cy) = e, c
                if j > k or (j == k and (cx, cy) < (0, 0)):
                    return (k, j, -cx, -cy)
                return (j, k, cx, cy)
            if sorted(canon(e, c) for e, c in zip(medges, mcross)) == sorted(canon(e, c) for e, c in zip(kedges, kcross)) and len(kedges) == len(kcross):
                ex["K_agree_modulo_edge_order"] = ex.get("K_agree_modulo_edge_order", 0) + 1
            else:
                i = next((i for i in range(max(len(medges), len(kedges)))
                          if i >= len(medges) or i >= len(kedges) or medges[i] != kedges[i] or mcross[i] != kcross[i]), None)
                ctx.k_mismatch(f"edge arrays differ from the model (also as multisets of periodic edges): koala {len(kedges)} edges, model {len(medges)}; first difference at edge {i}: "
                               f"koala {(kedges[i], kcross[i]) if i is not None and i < len(kedges) else None} "
                               f"model {(medges[i], mcross[i]) if i is not None and i < len(medges) else None}", case)
                continue
        else:
            ex["K_agree_exact_arrays"] = ex.get("K_agree_exact_arrays", 0) + 1
        mp = np.array([[float(Fraction(a, S2)), float(Fraction(b, S2))] for a, b in mpos]).reshape(-1, 2)
        if mp.shape != Lpos.shape or (len(mp) and np.max(np.abs(mp - Lpos)) > 1e-12):
            ctx.k_mismatch(f"vertex positions differ from the model ({len(Lpos)} vs {len(mp)} vertices" +
                           (f", max difference {np.max(np.abs(mp - Lpos)):.3g})" if mp.shape == Lpos.shape else ")"), case)
            continue
        ex["K_agree"] = ex.get("K_agree", 0) + 1
        if (q.get("hyps") == (True, True) or q.get("hyps_t") == (True, True)) and q.get("dual") and len(q["points"]) <= 60:
            # all hypotheses of C03_post_correct_dual / _counts hold: the certificate read off the record (triangles of the kept vertices in
            # koala's vertex order, with box hints) and the MODEL's lattice go through the extracted checkers (see chain_run)
            Tk = [q["T"][v] for v in q["order"]]
            boxes = [box_hint(q["pts_scaled"], S2, t) for t in Tk]
            w = 2
            for (lox, hix, loy, hiy) in boxes:
                w = max(w, -(lox // S2), hix // S2, -(loy // S2), hiy // S2)
            if w <= 6:
                chain.append((q, ser_case(q["pts_scaled"], S2, w, q["dual_tolS"], q["shift"], Tk, boxes, mpos, medges, mcross, list(range(len(Tk))))))
        if q.get("hyps") == (True, True) or (q.get("hyps_t") == (True, True) and q.get("dual")):
            # K agrees and the hypotheses of C03_post_correct_trivalent (or _dual_t) hold for the record: the conclusion, re-checked on koala's arrays
            deg = np.bincount(np.asarray(Ledges, dtype=int).flatten(), minlength=len(Lpos))
            ex["H_conclusion_checked_on_koala"] = ex.get("H_conclusion_checked_on_koala", 0) + 1
            if np.any(deg != 3) or 2 * len(Ledges) != 3 * len(Lpos):
                ctx.k_mismatch("pvor_ok and trivalent_ok hold for scipy's record and K agrees, but koala's lattice is not trivalent "
                               f"(contradicts C03_post_correct_trivalent): degrees {sorted(set(int(d) for d in deg))}, V={len(Lpos)}, E={len(Ledges)}", case)


    chain_run(ctx, chain)


def chain_run(ctx, chain):
    """Where every hypothesis of C03_post_correct_dual holds for scipy's record and K agrees: the extracted check_dual must accept the
    MODEL's lattice with the certificate read off the record (that is the theorem's conclusion; a rejection means the extraction, the
    driver or this harness is broken -> RuntimeError), and check_delaunay is evaluated on that same certificate: where it accepts,
    C03_post_correct_counts gives 2N vertices and 3N edges for the model's (= koala's, by K) lattice, re-checked here."""
    ex = ctx.res.extra
    for k in ("H_chain_evaluated", "H_chain_check_dual_true", "H_chain_check_delaunay_true"):
        ex.setdefault(k, 0)
    outs = run_driver_parallel(ctx.exe["c03"], [l for _, l in chain], jobs=8)
    for (q, line), o in zip(chain, outs):
        if "error" in o:
            raise RuntimeError(f"c03 driver error {o['error']} (chain) on {q['case']}")
        _xc_push(ctx, "cert", line, o, len(q["points"]))
        ex["H_chain_evaluated"] += 1
        if o["dual"][0] != "1":
            raise RuntimeError(f"pvor_ok, trivalent_ok and dual_ok hold but the extracted check_dual rejects the model's lattice with the record's certificate "
                               f"(contradicts C03_post_correct_dual) on {q['case']}: { {k: v for k, v in o.items() if k.startswith('u_')} }")
        ex["H_chain_check_dual_true"] += 1
        if o["delaunay"][0] == "1":
            ex["H_chain_check_delaunay_true"] += 1
            Lpos, Ledges, _ = q["arrays"]
            n = len(q["points"])
            if len(Lpos) != 2 * n or len(Ledges) != 3 * n:
                ctx.k_mismatch(f"all hypotheses of C03_post_correct_counts hold and K agrees, but koala returns {len(Lpos)} vertices / {len(Ledges)} edges for N={n}", q["case"])


H_MAX_N = 80


def hyps_run(ctx, items):
    """The hypotheses of the C03_post_correct_* theorems (Model/VoronoiPeriodic.post_hyps: pvor_ok = the record is periodic near
    the unit cell, trivalent_ok = three finite ridges at every vertex in the cell), evaluated by the extracted checker on scipy's
    record of every case with N <= 80.  Recorded: how often they hold (they can only hold where the replication is exact in
    floating point: shift_vertices=True with dyadic inputs, where the vertices are sums of three replicated seeds; Qhull's float
    circumcentres of translated triangles differ in the last bits).  Where both hold and K agrees (end of k_run), the theorems'
    conclusion (every vertex has three edge ends, 2E = 3V) is re-checked on koala's arrays: a failure there contradicts theorem + K."""
    ex = ctx.res.extra
    sel = [q for q in items if len(q["points"]) <= H_MAX_N]
    outs = run_driver_parallel(ctx.exe["c03"], ["hyps" + q["line"][4:] for q in sel], jobs=8)
    for k in ("H_evaluated", "H_stages_fail", "H_pvor_true", "H_pvor_true_trivalent_true", "H_conclusion_checked_on_koala",
              "H_dual_evaluated", "H_dual_true", "H_all_hypotheses_true_and_S_check_dual_ok"):
        ex.setdefault(k, 0)
    by = ex.setdefault("H_pvor_true_by_family", {})
    for q, o in zip(sel, outs):
        if "error" in o:
            raise RuntimeError(f"c03 driver error {o['error']} (hyps) on {q['case']}")
        _xc_push(ctx, "hyps", "hyps" + q["line"][4:], o, len(q["points"]))
        h = o["hyps"]
        ex["H_evaluated"] += 1
        fam = f"shift={int(q['shift'])}/" + ("dyadic" if q["case"].get("bits") else "float64")
        by.setdefault(fam, [0, 0])
        by[fam][1] += 1
        if h[0] == "N":
            ex["H_stages_fail"] += 1
            continue
        pv, tri = h[0] == "1", h[1] == "1"
        q["hyps"] = (pv, tri)
        if pv:
            ex["H_pvor_true"] += 1
            by[fam][0] += 1
        if pv and tri:
            ex["H_pvor_true_trivalent_true"] += 1
    # ---- the index-level periodicity (Model/VoronoiPeriodicTol.pvor_t_ok: through the nearest-vertex map koala itself uses; it does not need
    #      exact replication, so it can hold for Qhull's float circumcentres too): hypothesis of C03_post_correct_dual_t / _counts_t
    touts = run_driver_parallel(ctx.exe["c03"], ["hypst" + q["line"][4:] for q in sel], jobs=8)
    for k in ("H_pvor_t_true", "H_pvor_t_true_trivalent_true", "H_exact_true_but_index_level_false"):
        ex.setdefault(k, 0)
    byt = ex.setdefault("H_pvor_t_true_by_family", {})
    for q, o in zip(sel, touts):
        if "error" in o:
            raise RuntimeError(f"c03 driver error {o['error']} (hypst) on {q['case']}")
        _xc_push(ctx, "hypst", "hypst" + q["line"][4:], o, len(q["points"]))
        fam = f"shift={int(q['shift'])}/" + ("dyadic" if q["case"].get("bits") else "float64")
        byt.setdefault(fam, [0, 0])
        byt[fam][1] += 1
        h = o["hypst"]
        if h[0] == "N":
            continue
        q["hyps_t"] = (h[0] == "1", h[1] == "1")
        ex["H_pvor_t_true"] += int(q["hyps_t"][0])
        byt[fam][0] += int(q["hyps_t"][0])
        ex["H_pvor_t_true_trivalent_true"] += int(q["hyps_t"] == (True, True))
        if q.get("hyps", (False, False))[0] and not q["hyps_t"][0]:
            ex["H_exact_true_but_index_level_false"] += 1
    # ---- the record-level duality hypothesis of C03_post_correct_dual(_t) (Model/VoronoiDual.dual_ok), where the periodicity (exact or
    #      index-level) and trivalent_ok hold
    dsel = [q for q in sel if q.get("hyps") == (True, True) or q.get("hyps_t") == (True, True)]
    for q in dsel:
        q["dual_line"] = dual_line(q)
    douts = run_driver_parallel(ctx.exe["c03"], [q["dual_line"] for q in dsel], jobs=8)
    for q, o in zip(dsel, douts):
        if "error" in o:
            raise RuntimeError(f"c03 driver error {o['error']} (dual) on {q['case']}")
        _xc_push(ctx, "dual", q["dual_line"], o, len(q["points"]))
        ex["H_dual_evaluated"] += 1
        q["dual"] = (o["dual"][0] == "1")
        ex["H_dual_true"] += int(q["dual"])
        fam = f"shift={int(q['shift'])}/" + ("dyadic" if q["case"].get("bits") else "float64")
        bd = ex.setdefault("H_dual_true_by_family", {})
        bd.setdefault(fam, [0, 0])
        bd[fam][0] += int(q["dual"])
        bd[fam][1] += 1


def dual_line(q):
    """the `dual` command for one prepared K item: the seeds on the scale of the (shifted) vertices and the triangle assignment T,
    one triangle per Voronoi vertex of scipy's record, read off ridge_points: the three seeds separated by the ridges at the vertex,
    as sites (seed index, cell offset of the copy), counter-clockwise (exact orientation), smallest site first (a normal form that
    commutes with lattice translations); vertices that do not have exactly three seeds get the dummy triangle."""
    n, pad, P, S, shift = len(q["points"]), q["pad"], q["P"], q["S"], q["shift"]
    offs = [(dx, dy) for dx in range(-pad, pad + 1) for dy in range(-pad, pad + 1)]
    centre = offs.index((0, 0))
    k = 3 if shift else 1
    pts = [(k * P[centre * n + i][0], k * P[centre * n + i][1]) for i in range(n)]
    seeds = {}
    for (a, b), (g, h) in zip(q["rv"], q["rp"]):
        for v in (a, b):
            if v >= 0:
                seeds.setdefault(v, set()).update((g, h))
    T = []
    for v in range(q["nV"]):
        sd = sorted(seeds.get(v, ()))
        if len(sd) != 3:
            T.append(((0, (0, 0)), (0, (0, 0)), (0, (0, 0))))
            continue
        a, b, c = sd
        if orient(P[a], P[b], P[c]) < 0:
            b, c = c, b
        tri = [(g % n, offs[g // n]) for g in (a, b, c)]
        m = tri.index(min(tri))
        T.append(tuple(tri[m:] + tri[:m]))
    q["T"] = T
    q["pts_scaled"] = pts
    # tolerance of D4 (vertex within tolS of its reference point): 0 where the shifted vertex IS the exact sum of three exactly replicated
    # seeds; otherwise (float circumcentres; centroids of copies p+k that were rounded) the tolerance S uses, on the scale of the vertices
    tolS = 0 if (shift and q["case"].get("bits")) else int(TOL * S * k) + 1
    q["dual_tolS"] = tolS
    toks = ["dual" + q["line"][4:], hx(tolS), str(n)] + [hx(v) for xy in pts for v in xy] + [str(len(T))]
    for t in T:
        for (i, (ox, oy)) in t:
            toks += [str(i), hx(ox), hx(oy)]
    return " ".join(toks)


# ------------------------------------------------------------------ extraction cross-check (DESIGN 1.3)
def _xc_push(ctx, kind, line, out, n):
    xc = getattr(ctx, "xc", None)
    if xc is not None:
        xc[kind].append((line, out, n))


def coq_crosscheck(ctx):
    """Extraction cross-check: for a small random sample of the lines sent to the c03 driver (commands c03, post, hyps, reindex,
    replicate; small N) the driver's answers are re-derived INSIDE Coq by vm_compute on Gallina literals parsed back from the very
    text the driver received, and must coincide:
      c03       (check_delaunay, check_dual, dense_ok 1/3, dense_ok 2/3)                         N <= 8
      post      post_stages: scale, shifted vertices, ridges with crossings, sorted survivors, tie margins (or the error)   N <= 12
      hyps      post_hyps (pvor_ok, trivalent_ok)                                                same records
      hypst     post_hyps_t (pvor_t_ok, trivalent_ok)                                            same records
      dual      post_dual_hyp (dual_ok for the triangle assignment read off ridge_points)         same records, where evaluated
      reindex   reindex vs order es                                                              same cases
      replicate (padding_of, generate_point_array)"""
    import xcheck as X
    xc = ctx.xc
    quick = ctx.tier == "quick"
    rng = np.random.default_rng([ctx.seed, 3, 99])

    def pick(items, nmax, k):
        small = [it for it in items if it[2] <= nmax and "error" not in it[1]]
        if not small:
            return []
        idx = sorted(rng.choice(len(small), size=min(len(small), k), replace=False).tolist())
        return [small[i] for i in idx]

    Z, N, B = X.z, X.nat, X.boolean
    zp, npair = X.zpair, X.natpair
    site = X.pair(N, zp)
    body = [
        "Definition stages (r : result (Z * list pt * (list edge * list (margin * margin)))) :=",
        "  match r with Err e => inl e | Ok (S', vs, (es, ms)) => inr (S', vs, es, sorted_nodup (edge_ends es), ms) end.",
    ]
    g = lambda lhs, rhs: body.append(X.goal(lhs, rhs))
    counts = {"c03": 0, "post": 0, "hyps": 0, "hypst": 0, "dual": 0, "reindex": 0, "replicate": 0}
    # ---- certificate checkers
    for n, (line, o, _) in enumerate(pick(xc["cert"], 8, 6 if quick else 30)):
        c = Cursor(line.split()[1:])
        S, w, tol, shift = c.z(), c.z(), c.z(), c.next() == "1"
        P = c.list(lambda: (c.z(), c.z()))
        C = c.list(lambda: (((c.int(), (c.z(), c.z())), (c.int(), (c.z(), c.z())), (c.int(), (c.z(), c.z()))), (c.z(), c.z(), c.z(), c.z())))
        LS, LP, LE, LC = X.read_lattice(c)
        vt = c.list(c.int)
        tri = lambda t: f"({site(t[0])}, {site(t[1])}, {site(t[2])})"
        box = lambda b: "(" + ", ".join(Z(v) for v in b) + ")"
        body.append(f"Definition cP{n} : list pt := {X.lst(zp, P)}.")
        body.append(f"Definition cC{n} : list (tri * box) := {X.lst(lambda tb: f'({tri(tb[0])}, {box(tb[1])})', C)}.")
        body.append(f"Definition cL{n} : lattice := {X.lattice_ints(LS, LP, LE, LC)}.")
        g(f"(check_delaunay {Z(S)} {Z(w)} cP{n} cC{n}, check_dual {Z(S)} {Z(tol)} {B(shift)} cP{n} cC{n} cL{n} {X.natlist(vt)}, "
          f"dense_ok {Z(S)} 1 3 cP{n} cC{n}, dense_ok {Z(S)} 2 3 cP{n} cC{n})",
          f"({B(o['delaunay'][0] == '1')}, {B(o['dual'][0] == '1')}, {B(o['dense13'][0] == '1')}, {B(o['dense23'][0] == '1')})")
        counts["c03"] += 1
    # ---- post-processing stages, hypotheses, re-indexing
    err_lit = lambda t: (f"({t[0]} {N(int(t[1]))})" if len(t) > 1 else t[0])
    chosen = pick(xc["post"], 12, 5 if quick else 25)
    hyps = {line: o for line, o, _ in xc["hyps"]}
    hypst = {line: o for line, o, _ in xc["hypst"]}
    rei = {id_: (line, o) for id_, line, o in xc["reindex"]}
    for n, (line, o, _) in enumerate(chosen):
        c = Cursor(line.split()[1:])
        shift, S = c.next() == "1", c.z()
        P = c.list(lambda: (c.z(), c.z()))
        V = c.list(lambda: (c.z(), c.z()))
        RV = c.list(lambda: (c.z(), c.z()))
        RP = c.list(lambda: (c.int(), c.int()))
        body.append(f"Definition pP{n} : list pt := {X.lst(zp, P)}.")
        body.append(f"Definition pV{n} : vor := mkVor {X.lst(zp, V)} {X.lst(zp, RV)} {X.lst(npair, RP)}.")
        lhs = f"stages (post_stages {B(shift)} {Z(S)} pP{n} pV{n})"
        if "err" in o:
            g(lhs, f"inl {err_lit(o['err'])}")
        else:
            S2 = unhx(o["scale"][0])
            VS = parse_pairs(o["verts"], lambda c: c.z()) if shift else V
            cu = Cursor(o["pbc"])
            pbc = cu.list(lambda: ((cu.int(), cu.int()), (cu.z(), cu.z())))
            srt = [int(t) for t in o["sorted"][1:]]
            cm = Cursor(o["margins"])
            oz = lambda: (lambda t: None if t == "N" else unhx(t))(cm.next())
            ms = cm.list(lambda: ((cm.z(), oz()), (cm.z(), oz())))
            mar = X.pair(Z, X.option(Z))
            g(lhs, f"inr ({Z(S2)}, {X.lst(zp, VS)}, {X.lst(X.pair(npair, zp), pbc)}, {X.natlist(srt)}, {X.lst(X.pair(mar, mar), ms)})")
        counts["post"] += 1
        h = hyps.get("hyps" + line[4:])
        if h is not None and "error" not in h:
            t = h["hyps"]
            g(f"post_hyps {B(shift)} {Z(S)} pP{n} pV{n}", "None" if t[0] == "N" else f"Some ({B(t[0] == '1')}, {B(t[1] == '1')})")
            counts["hyps"] += 1
        h = hypst.get("hypst" + line[4:])
        if h is not None and "error" not in h:
            t = h["hypst"]
            g(f"post_hyps_t {B(shift)} {Z(S)} pP{n} pV{n}", "None" if t[0] == "N" else f"Some ({B(t[0] == '1')}, {B(t[1] == '1')})")
            counts["hypst"] += 1
        dl = next(((l, o3) for l, o3, _ in xc["dual"] if l.startswith("dual" + line[4:] + " ")), None)
        if dl is not None and "error" not in dl[1]:
            c = Cursor(dl[0][len(line):].split())
            tol = c.z()
            pts = c.list(lambda: (c.z(), c.z()))
            TT = c.list(lambda: ((c.int(), (c.z(), c.z())), (c.int(), (c.z(), c.z())), (c.int(), (c.z(), c.z()))))
            tri = lambda t: f"({site(t[0])}, {site(t[1])}, {site(t[2])})"
            t = dl[1]["dual"][0]
            g(f"post_dual_hyp {B(shift)} {Z(S)} {Z(tol)} pP{n} {X.lst(zp, pts)} pV{n} {X.lst(tri, TT)}", "None" if t == "N" else f"Some {B(t == '1')}")
            counts["dual"] += 1
        if line in rei:
            l2, o2 = rei[line]
            c = Cursor(l2.split()[1:])
            VS = c.list(lambda: (c.z(), c.z()))
            order = c.list(c.int)
            es = c.list(lambda: ((c.int(), c.int()), (c.z(), c.z())))
            lhs = f"reindex {X.lst(zp, VS)} {X.natlist(order)} {X.lst(X.pair(npair, zp), es)}"
            if "err" in o2:
                g(lhs, f"Err {err_lit(o2['err'])}")
            elif "error" not in o2:
                mpos = parse_pairs(o2["positions"], lambda c: c.z())
                med = parse_pairs(o2["edges"], lambda c: c.int())
                mcr = parse_pairs(o2["crossing"], lambda c: c.z())
                g(lhs, f"Ok ({X.lst(zp, mpos)}, {X.lst(npair, med)}, {X.lst(zp, mcr)})")
                counts["reindex"] += 1
    # ---- replication
    for line, o, _ in pick(xc["rep"], 12, 2 if quick else 6):
        c = Cursor(line.split()[1:])
        S = c.z()
        P = c.list(lambda: (c.z(), c.z()))
        pts = parse_pairs(o["points"], lambda c: c.z())
        g(f"(padding_of {N(len(P))}, generate_point_array {Z(S)} {X.lst(zp, P)} (padding_of {N(len(P))}))", f"({Z(unhx(o['padding'][0]))}, {X.lst(zp, pts)})")
        counts["replicate"] += 1
    res = ctx.res
    res.extra["extraction_crosscheck_goals_vm_compute"] = X.compile_goals("c03", "Model.Lattice Model.Delaunay Model.VoronoiPost Model.VoronoiPeriodic Model.VoronoiDual Model.VoronoiPeriodicTol", body, "c03")
    res.extra["extraction_crosscheck_cases"] = counts
    res.extra["extraction_crosscheck_wall_s"] = X.LAST_WALL


# ------------------------------------------------------------------ evaluation
def prepare_case(ctx, case):
    """run the implementation, build certificate and driver line.  Returns dict or None (skipped)."""
    res = ctx.res
    points = make_points(case)
    n, shift = len(points), bool(case["shift"])
    if len({(float(x), float(y)) for x, y in points}) != n:
        res.skip("coincident-points")
        return None
    fam = f"{case['style']}/shift={int(shift)}" + ("/dyadic" if case.get("bits") else "/float64")
    if case["style"] == "grid":
        fam = f"grid{case['den']}/shift={int(shift)}"
    try:
        # a float32 input array holds exactly the same numbers: the lattice must be the same as for float64 input
        lat = voronization.generate_lattice(points.astype(np.float32) if case.get("f32") else points.copy(), shift_vertices=shift)
        Lpos = np.array(lat.vertices.positions, dtype=float)
        Ledges = np.array(lat.edges.indices, dtype=int).reshape(-1, 2)
        Lcross = np.array(lat.edges.crossing, dtype=int).reshape(-1, 2)
    except Exception as e:
        if getattr(ctx, "kq", None) is not None:
            ctx.kq.append({"case": case, "points": points, "shift": shift, "exception": f"{type(e).__name__}: {e}"[:200]})
        return {"case": case, "fam": fam, "exception": f"{type(e).__name__}: {e}", "points": points}
    if getattr(ctx, "kq", None) is not None:
        ctx.kq.append({"case": case, "points": points, "shift": shift, "arrays": (Lpos, Ledges, Lcross), "check_rep": len(ctx.kq) % 8 == 0})
    S = max(common_scale(points), common_scale(Lpos))
    P = [(int(Fraction(float(x)) * S), int(Fraction(float(y)) * S)) for x, y in points]
    LP = [(int(Fraction(float(x)) * S), int(Fraction(float(y)) * S)) for x, y in Lpos]
    pad = 3 if n <= 10 else 2
    T = build_cert(P, S, shift, pad)
    if len(T) != 2 * n:
        T2 = build_cert(P, S, shift, pad + 2)
        if len(T2) == 2 * n:
            T = T2
    boxes = [box_hint(P, S, t) for t in T]
    w = 2
    for (lox, hix, loy, hiy) in boxes:
        w = max(w, -(lox // S), hix // S, -(loy // S), hiy // S)
    if w > 6 or len(T) == 0:
        res.skip("too-sparse-for-certificate(window>6)")
        return None
    # vertex -> triangle by nearest exact reference point
    refs = np.array([[float(Fraction(r[0][0], r[1] * S)), float(Fraction(r[0][1], r[1] * S))]
                     for r in (ref_point(P, S, t, shift) for t in T)])
    _, vt = cKDTree(refs).query(Lpos, k=1) if len(Lpos) else (None, np.zeros(0, dtype=int))
    tolS = int(TOL * S) + 1
    line = ser_case(P, S, w, tolS, shift, T, boxes, LP, Ledges, Lcross, vt)
    return {"case": case, "fam": fam, "points": points, "lat": lat, "P": P, "S": S, "T": T, "vt": [int(v) for v in vt],
            "line": line, "w": w, "arrays": (Lpos, Ledges, Lcross)}


def evaluate(ctx, cases, label, lloyd=True):
    res = ctx.res
    ctx.kq = []
    prepared = [c for c in (prepare_case(ctx, case) for case in cases) if c is not None]
    kq, ctx.kq = ctx.kq, None
    t0 = time.time()
    k_run(ctx, kq)
    hypmap = {id(q["case"]): q for q in kq}
    res.extra["K_seconds"] = round(res.extra.get("K_seconds", 0) + time.time() - t0, 1)
    runnable = [c for c in prepared if "line" in c]
    outs = run_driver_parallel(ctx.exe["c03"], [c["line"] for c in runnable], jobs=8)
    omap = {id(c): o for c, o in zip(runnable, outs)}
    for c, o in zip(runnable, outs):
        _xc_push(ctx, "cert", c["line"], o, len(c["points"]))
    ex = res.extra
    for k in ("nondense_skipped", "nondense_but_dual_ok", "nondense_dual_fails", "tiling_evaluated", "tiling_skipped_self_touching",
              "tiling_skipped_shift_changed_order", "lloyd_runs", "lloyd_skipped_precondition"):
        ex.setdefault(k, 0)
    for c in prepared:
        case, fam, points = c["case"], c["fam"], c["points"]
        n = len(points)
        if "exception" in c:
            # decide the precondition from a certificate before blaming the generator
            P, S = exact_points(points)
            T = build_cert(P, S, case["shift"], 3 if n <= 10 else 2)
            res.count(fam)
            if len(T) == 2 * n and float_margins(P, S, T, case["shift"])[0] < 1e-9:
                res.skip("nongeneric-cocircular<1e-9")
            elif window_has_cocircular(points):
                # four co-circular points among the replicated images (e.g. two seeds with equal x: rectangle p, q, p+(1,0), q+(1,0)),
                # visible only at the hull of the finite window: not "general position"; counted, observation outside the property
                res.skip("nongeneric-cocircular-images-in-window")
                ex.setdefault("cocircular_window_exceptions", []).append({"points": points.tolist(), "exception": c["exception"][:80]}) if len(ex.get("cocircular_window_exceptions", [])) < 5 else None
            elif len(T) == 2 * n:
                res.violation("generator-exception", f"generate_lattice raised {c['exception']} on {n} {case['style']} points", case)
            else:
                res.skip("generator-exception-on-sparse-input")
            continue
        o = omap[id(c)]
        if "error" in o:
            raise RuntimeError(f"c03 driver error {o['error']} on {case}")
        P, S, T, vt, lat = c["P"], c["S"], c["T"], c["vt"], c["lat"]
        if o["delaunay"][0] != "1":
            # the certificate (built independently of koala) did not validate: nothing is known; never blame koala
            res.skip("certificate-not-validated(" + ("sparse" if len(T) != 2 * n else "degenerate") + ")")
            ex.setdefault("certificate_failures", []).append({"case": case, "diag": {k: v for k, v in o.items() if k.startswith("d_")}}) if len(ex.get("certificate_failures", [])) < 5 else None
            continue
        dense = o["dense13" if n > 10 else "dense23"][0] == "1"
        dual_ok = o["dual"][0] == "1"
        hq = hypmap.get(id(case))
        if hq is not None and (hq.get("hyps") == (True, True) or hq.get("hyps_t") == (True, True)) and hq.get("dual") and dual_ok:
            # all hypotheses of C03_post_correct_dual hold for scipy's record AND koala's lattice passes check_dual for the independent certificate
            res.extra["H_all_hypotheses_true_and_S_check_dual_ok"] = res.extra.get("H_all_hypotheses_true_and_S_check_dual_ok", 0) + 1
            if o["delaunay"][0] == "1" and "sorted_out" in hq and "T" in hq:
                # the certificate of the theorem (triangles of the kept vertices, read off scipy's ridge_points) against the independent,
                # VALIDATED (check_delaunay) certificate of S: the same set of triangles (sites ccw, smallest site first)?
                def norm(t):
                    t = [(int(i), (int(ox), int(oy))) for (i, (ox, oy)) in t]
                    m = t.index(min(t))
                    return tuple(t[m:] + t[:m])
                kept = [int(t) for t in hq["sorted_out"]["sorted"][1:]]
                same = {norm(hq["T"][v]) for v in kept} == {norm(t) for t in c["T"]}
                key = "H_record_certificate_equals_validated_certificate" if same else "H_record_certificate_differs_from_validated_certificate"
                res.extra[key] = res.extra.get(key, 0) + 1
        if not dense:
            ex["nondense_skipped"] += 1
            ex["nondense_but_dual_ok" if dual_ok else "nondense_dual_fails"] += 1
            res.skip("density-precondition-fails")
            continue
        gap, bnd = float_margins(P, S, T, case["shift"])
        if gap < 1e-9:
            res.skip("nongeneric-cocircular<1e-9")
            continue
        exact_boundary = (bnd == 0.0)
        if bnd < 1e-9 and not (exact_boundary and case["shift"] and case.get("bits")):
            # a float circumcentre (Qhull) or a rounded centroid within 1e-9 of the cell boundary may legitimately fall on either side
            res.skip("nongeneric-vertex-on-cell-boundary<1e-9")
            continue
        # (exact_boundary, shift_vertices=True, coordinates with <= 30 binary digits: the float centroid (a+b+c)/3 is computed
        #  exactly, so "in (0,1]" is decided identically by koala and by the exact checker: in the property's domain)
        if exact_boundary:
            ex["exact_boundary_cases"] = ex.get("exact_boundary_cases", 0) + 1
        res.count(fam, digest([points.tolist(), case["shift"]]))
        res.traces += 1
        bucket = "N<=10" if n <= 10 else "N<=30" if n <= 30 else "N<=60" if n <= 60 else "N<=200" if n <= 200 else "N>200"
        ex.setdefault("size_histogram", {}).setdefault(bucket, 0)
        ex["size_histogram"][bucket] += 1
        ex["min_cocircular_gap"] = min(ex.get("min_cocircular_gap", 1.0), gap)
        ex["max_window"] = max(ex.get("max_window", 0), c["w"])
        res.sample({"case": case, "N": n, "V": lat.n_vertices, "E": lat.n_edges, "first_triangle": T[0], "window": c["w"]})
        # ---- first sentence: L is the dual of the periodic Delaunay triangulation (extracted checker)
        if not dual_ok:
            diag = {k: v for k, v in o.items() if k.startswith("u_")}
            nv, ne = lat.n_vertices, lat.n_edges
            if nv != 2 * n or ne != 3 * n:
                key, what = "counts", f"{nv} vertices / {ne} edges for N={n} points (expected {2 * n} / {3 * n})"
            elif diag.get("u_pos", ["-1"])[0] != "-1":
                v = int(diag["u_pos"][0])
                key, what = "vertex-position", f"vertex {v} at {c['arrays'][0][v].tolist()} is not the {'centroid' if case['shift'] else 'circumcentre'} of a periodic Delaunay triangle in (0,1]^2 (nearest: triangle {T[vt[v]]})"
            elif "u_edge" in diag:
                e = int(diag["u_edge"][0])
                key, what = "edge-not-a-shared-side", (f"edge {e} = {c['arrays'][1][e].tolist()} crossing {c['arrays'][2][e].tolist()}: the two Delaunay triangles "
                                                        f"{T[vt[c['arrays'][1][e][0]]]} and {T[vt[c['arrays'][1][e][1]]]} do not share a side with that cell offset")
            elif "u_sides" in diag:
                key, what = "side-used-twice", "two edges are dual to the same side of a Delaunay triangle (and another side has no edge)"
            else:
                key, what = "dual-check", f"check_dual rejected the lattice: {diag}"
            if exact_boundary:
                # (was the defect fixed by /repo 37048fb: floor / %1 used the [0,1) convention against the (0,1] classification)
                what = ("a centroid lies exactly on the closed side x=1 or y=1 of the cell (0,1]^2; " + what +
                        f"; points {points.tolist()}")
                ex["exact_boundary_failures"] = ex.get("exact_boundary_failures", 0) + 1
            res.violation(key, f"N={n} {case['style']} shift={case['shift']}: {what}", case)
            continue
        # ---- second sentence: tiling clauses under the side conditions
        self_touch = any(p[0] == q[0] for t in T for (p, q) in tri_sides(t))
        if self_touch:
            ex["tiling_skipped_self_touching"] += 1
        else:
            keep = shift_keeps_order(P, S, T) if case["shift"] else True
            if not keep:
                ex["tiling_skipped_shift_changed_order"] += 1
            else:
                ex["tiling_evaluated"] += 1
                if case["shift"]:
                    ex["tiling_evaluated_shift"] = ex.get("tiling_evaluated_shift", 0) + 1
                try:
                    bad = tiling_clauses(points, lat, P, S, T, vt, case['shift'])
                    if any(k == "shifted-cell-misses-seed" for k, _ in bad):
                        # narrow key: only when the SAME points with shift_vertices=False pass the containment clause
                        if unshifted_containment_ok(points):
                            ex["shifted_cell_misses_seed_cases"] = ex.get("shifted_cell_misses_seed_cases", 0) + 1
                        else:
                            bad = [("seed-not-inside" if k == "shifted-cell-misses-seed" else k, w) for k, w in bad]
                    for key, what in bad:
                        res.violation(key, f"N={n} {case['style']} shift={case['shift']}: {what}", case)
                except Exception as e:
                    res.violation("plaquettes-exception", f"N={n} {case['style']} shift={case['shift']}: accessing plaquettes raised {type(e).__name__}: {e}", case)
        # ---- third sentence: Lloyd relaxation keeps the number of cells
        if lloyd and case.get("lloyd"):
            lloyd_clause(ctx, case, points, lat)


def lloyd_clause(ctx, case, points, lat):
    res, ex = ctx.res, ctx.res.extra
    n = len(points)
    try:
        n0 = lat.n_plaquettes
    except Exception:
        return
    if n0 != n:
        ex["lloyd_skipped_precondition"] += 1
        return
    for steps in range(1, 6):
        ex["lloyd_runs"] += 1
        try:
            out = graph_utils.lloyd_relaxation(lat, steps)
            m = out.n_plaquettes
        except Exception as e:
            # replay step by step to see whether an intermediate point set left the property's domain
            if lloyd_domain_ok(ctx, lat, steps):
                res.violation("lloyd-exception", f"lloyd_relaxation(lattice of N={n} {case['style']} points, {steps}) raised {type(e).__name__}: {e}", case)
            else:
                ex["lloyd_skipped_precondition"] += 1
            break
        if m != n:
            if lloyd_domain_ok(ctx, lat, steps):
                res.violation("lloyd-cell-count", f"lloyd_relaxation(lattice of N={n} {case['style']} points, {steps}) has {m} plaquettes", case)
            else:
                ex["lloyd_skipped_precondition"] += 1
            break


def lloyd_domain_ok(ctx, lat, steps):
    """True when every intermediate point set of the Lloyd iteration satisfies the property's preconditions
    (validated certificate, dense, generic, no self-touching cell, shift keeps the cyclic order)"""
    cur = lat
    for _ in range(steps):
        try:
            pts = np.array([p.center for p in cur.plaquettes])
        except Exception:
            return False
        pts = pts % 1.0          # plaquette centres are not wrapped into the cell; the periodic point set is the same
        n = len(pts)
        if len({(float(x), float(y)) for x, y in pts}) != n or n < 2:
            return False
        P, S = exact_points(pts)
        T = build_cert(P, S, True, 3 if n <= 10 else 2)
        if len(T) != 2 * n:
            return False
        boxes = [box_hint(P, S, t) for t in T]
        w = 2
        for (lox, hix, loy, hiy) in boxes:
            w = max(w, -(lox // S), hix // S, -(loy // S), hiy // S)
        if w > 6:
            return False
        line = ser_case(P, S, w, 1, True, T, boxes, [], [], [], [])
        o = run_driver(ctx.exe["c03"], [line])[0]
        if o.get("delaunay", ["0"])[0] != "1" or o["dense13" if n > 10 else "dense23"][0] != "1":
            return False
        gap, bnd = float_margins(P, S, T, True)
        if gap < 1e-9 or bnd < 1e-9:
            return False
        if any(p[0] == q[0] for t in T for (p, q) in tri_sides(t)):
            return False
        if not shift_keeps_order(P, S, T):
            return False
        try:
            cur = voronization.generate_lattice(np.array([p.center for p in cur.plaquettes]), False)
        except Exception:
            return True     # the generator fails inside the domain: blame it
    return True


def gen_cases(tier, seed, count=None):
    rng = np.random.default_rng([seed, 3])
    if tier == "quick":
        count, nmax = count or 360, 60
    else:
        count, nmax = count or 900, 220
    cases = []
    for i in range(count):
        style = gen.POINT_STYLES[i % 6]
        r = rng.uniform()
        if r < 0.3:
            n = int(rng.integers(2, 6))          # multigraph sizes
        elif r < 0.6:
            n = int(rng.integers(6, 14))         # around the padding switch at N=10
        else:
            n = int(rng.integers(2, nmax + 1))
        cases.append({"style": style, "n": n, "seed": int(rng.integers(0, 2 ** 31)), "shift": bool((i // 6) % 2),
                      "bits": (None if (i // 12) % 3 == 2 else 30), "lloyd": (i % 5 == 0), "f32": (i % 5 == 2)})
    for i in range(count // 6):
        den = (8, 16, 32)[i % 3]
        cases.append({"style": "grid", "den": den, "n": int(rng.integers(2, 9 if den == 8 else 14)), "seed": int(rng.integers(0, 2 ** 31)),
                      "shift": bool(i % 4 != 3), "bits": 30, "lloyd": False})
    return cases


def corpus_cases():
    """minimised past failures (corpus/C03/*.json), run first"""
    import glob
    out = []
    for f in sorted(glob.glob(os.path.join(VERIF, "corpus", "C03", "*.json"))):
        out.append(json.load(open(f))["case"])
    return out


def run(ctx):
    ctx.res.rule = ("point styles uniform/clustered/two_cluster/jittered/boundary/collinear of harness/gen.py, N=2..60 (thorough ..220) skewed to N<=13, both shift_vertices, "
                    "coordinates either rounded to 30 binary digits (replication p+k exact) or raw float64; plus a 'grid' family (N=2..13 distinct points of a 1/8, 1/16, 1/32 grid, where "
                    "centroids fall EXACTLY on the cell boundary: evaluated for shift_vertices=True, where the float centroid is exact); a case counts (non-trivial, distinct by hash of points+shift) only when its "
                    "independent certificate validates, the density precondition holds and it is generic; everything else is in 'skipped'")
    ctx.xc = {"cert": [], "post": [], "hyps": [], "hypst": [], "dual": [], "reindex": [], "rep": []}
    evaluate(ctx, corpus_cases() + gen_cases(ctx.tier, ctx.seed), "S")
    coq_crosscheck(ctx)      # extraction cross-check: a sample of the driver's answers re-derived inside Coq
    ctx.xc = None


def search(ctx):
    evaluate(ctx, gen_cases("thorough" if ctx.tier != "quick" else "quick", ctx.seed + 1, 400), "search")


def replay(ctx, payload):
    evaluate(ctx, [payload["case"]], "replay")
