"""C09 — pickling round-trips a lattice to an observationally equivalent lattice; equality is
total, reflexive, symmetric and sensitive.

S (on the implementation): pickle.loads(dumps(L, protocol)) for protocols 2..5 at every point of an
access history of the four cached attributes; state identical at every point; restored values, dtypes,
== both ways, !=; tables and EVERY public operation applied to original and restored with identical
outcomes (exceptions are outcomes; float results to single precision; a differing outcome is only a
violation when it is stable under single-precision perturbations of the original's positions);
legacy dict state; equality against non-lattices / other sizes / perturbed copies; construction twice.
K (model vs implementation): __getstate__ dtypes and values (positions exactly = float32 rounding),
error outcomes, eq verdicts on perturbed copies, float32 rounding on raw floats, dtype thresholds."""
from lib import *  # noqa
import gen
import pickle, types, contextlib, io
import c09p
from koala.lattice import Lattice, LatticeException, Plaquette, cut_boundaries, permute_vertices
from koala import example_graphs as eg
from koala import graph_color, graph_utils, hamiltonian, phase_space, plotting, chern_number, voronization
from koala import flux_finder as ff

DRIVERS = ("c09", "c09p")
MODEL_TARGETS = ["Model/Pickle.vo", "Model/Lattice.vo", "Proofs/PredicateStableDefs.vo"]   # c09p is extracted from the definitions-only PredicateStableDefs
TARGETS = ["Proofs/PickleFacts.vo", "Proofs/PredicateStable.vo", "Proofs/PredicateStableExamples.vo"]
TRANSLATORS = ("pickle_dtype",)
LEVEL = "proof"
TRUST = [
    "hand-written Gallina model coq/Model/Pickle.v of Lattice.__getstate__/__setstate__/__eq__/__ne__ (dtype-tagged arrays, modular casts, float32 "
    "rounding as round-to-nearest-even to 24 bits / 2^-149 on Q, exact squared-distance test for __eq__): modelled, not verified; tied to the code by K below",
    "translate/pickle_dtype.py (dtype loop threshold test and candidate list, check_fits test, cast dtypes of __getstate__/__setstate__) -> Gen/PickleGen.v, proved equal to the model's definitions",
    "pickle itself (protocols 2..5) is assumed to transport the state tuple / dict faithfully; exercised on the implementation by S",
    "the implementation evaluates sqrt and the norm in float64; verdicts within 1e-9 relative of the tolerance are counted and skipped",
    "'same result under every other operation' is S only: outcomes of ~60 public calls compared on original and restored, ints exactly, floats to 2e-5; a difference counts only if "
    "five single-precision perturbations of the original leave the outcome unchanged (otherwise counted as float32-nongeneric)",
    "'identical plaquettes and adjacency tables': C09_roundtrip_tables is about two lattices of the shared model coq/Model/Lattice.v (tied to lattice.py by C01/C02's K); "
    "its hypothesis preds_agree is evaluated per generated lattice (V <= 200) by the extracted driver c09p on the exactly serialised original and restored arrays "
    "(harness/c09p.py); the passage from Model/Pickle.v's rational positions to scaled integers is done by the harness, not by a theorem",
]
ASSUMPTIONS = ["finite positions whose float32 cast does not overflow; indices address existing vertices; one crossing row per edge",
               "no subclass of Lattice (isinstance asymmetry is outside the model)"]

ATTRS = ["plaquettes", "n_plaquettes", "edges.adjacent_plaquettes", "vertices.adjacent_plaquettes"]
DTN = {"uint8": "u8", "uint16": "u16", "uint32": "u32", "uint64": "u64", "int8": "i8", "int64": "i64"}
TOL = 2e-5


# ------------------------------------------------------------------------------------------ helpers
def access(lat, attr):
    o = lat
    for a in attr.split("."):
        o = getattr(o, a)
    return o


def cache_bits(lat):
    return "".join("1" if c else "0" for c in (
        "plaquettes" in lat.__dict__, "n_plaquettes" in lat.__dict__,
        "adjacent_plaquettes" in lat.edges.__dict__, "adjacent_plaquettes" in lat.vertices.__dict__))


def state_sig(st):
    return tuple((a.dtype.str, a.shape, a.tobytes()) for a in st)


def ser_lat(pos, idx, cross, pdt="f64", idt="i64", cdt="i64", cache="0000"):
    pos = np.asarray(pos, dtype=float).reshape(-1, 2)
    S = common_scale(pos) if len(pos) else 1
    toks = [hx(S), str(len(pos))]
    for x, y in pos:
        toks += [hx(int(Fraction(float(x)) * S)), hx(int(Fraction(float(y)) * S))]
    toks.append(pdt)
    idx = np.asarray(idx).reshape(-1, 2)
    toks.append(str(len(idx)))
    for j, k in idx:
        toks += [hx(int(j)), hx(int(k))]
    toks.append(idt)
    cross = np.asarray(cross).reshape(-1, 2)
    toks.append(str(len(cross)))
    for a, b in cross:
        toks += [hx(int(a)), hx(int(b))]
    toks += [cdt, cache]
    return " ".join(toks)


def zpairs(toks):
    c = Cursor(toks)
    return c.list(lambda: (c.z(), c.z()))


def qpairs(toks):
    c = Cursor(toks)
    return c.list(lambda: ((c.z(), c.z()), (c.z(), c.z())))


def canon(x):
    if isinstance(x, Lattice):
        return {"__lattice__": 1, "pos": np.asarray(x.vertices.positions, dtype=float),
                "idx": np.asarray(x.edges.indices), "cross": np.asarray(x.edges.crossing)}
    if isinstance(x, Plaquette):
        return {k: canon(getattr(x, k)) for k in ("vertices", "edges", "directions", "center", "n_sides", "adjacent_plaquettes")}
    if isinstance(x, np.ndarray):
        if x.dtype == object:
            return [canon(v) for v in x]
        return x
    if isinstance(x, (list, tuple)):
        return [canon(v) for v in x]
    if isinstance(x, dict):
        return {str(k): canon(v) for k, v in x.items()}
    if isinstance(x, (bool, np.bool_)):
        return bool(x)
    if isinstance(x, (int, np.integer)):
        return int(x)
    if isinstance(x, (float, np.floating)):
        return float(x)
    if isinstance(x, (complex, np.complexfloating)):
        return np.asarray(x)
    if x is None or isinstance(x, str):
        return x
    if hasattr(x, "toarray"):
        return np.asarray(x.toarray())
    return ("opaque", type(x).__name__)


def same(a, b, tol=TOL):
    if isinstance(a, np.ndarray) or isinstance(b, np.ndarray):
        try:
            a, b = np.asarray(a), np.asarray(b)
        except Exception:
            return False
        if a.shape != b.shape:
            return False
        if a.dtype.kind in "fc" or b.dtype.kind in "fc":
            with np.errstate(all="ignore"):
                fin = np.isfinite(a) & np.isfinite(b)
                ok = np.where(fin, np.abs(np.where(fin, a, 0) - np.where(fin, b, 0)) <= tol * (1 + np.abs(np.where(fin, a, 0))),
                              (np.isnan(a) & np.isnan(b)) | (a == b))
            return bool(np.all(ok))
        return bool(np.array_equal(a, b))
    if isinstance(a, list) and isinstance(b, list):
        return len(a) == len(b) and all(same(x, y, tol) for x, y in zip(a, b))
    if isinstance(a, dict) and isinstance(b, dict):
        return a.keys() == b.keys() and all(same(a[k], b[k], tol) for k in a)
    if isinstance(a, float) and isinstance(b, float):
        if math.isnan(a) or math.isnan(b):
            return math.isnan(a) and math.isnan(b)
        return abs(a - b) <= tol * (1 + abs(a))
    return type(a) == type(b) and a == b


def outcome(f, lat):
    try:
        with contextlib.redirect_stdout(io.StringIO()):
            return ("ok", canon(f(lat)))
    except Exception as e:  # exceptions count as outcomes
        return ("exc", type(e).__name__)


def same_outcome(a, b):
    return a[0] == b[0] and (same(a[1], b[1]) if a[0] == "ok" else a[1] == b[1])


def short(o):
    s = repr(o[1]) if o[0] == "exc" else "ok:" + repr(o[1])[:160].replace("\n", " ")
    return s


def artists(ax):
    out = []
    for c in ax.collections:
        d = {"type": type(c).__name__}
        if hasattr(c, "get_segments"):
            d["segments"] = [np.asarray(s, dtype=float) for s in c.get_segments()]
        else:
            d["paths"] = [np.asarray(p.vertices, dtype=float) for p in c.get_paths()]
        d["offsets"] = np.asarray(c.get_offsets(), dtype=float)
        d["fc"] = np.asarray(c.get_facecolor(), dtype=float)
        d["ec"] = np.asarray(c.get_edgecolor(), dtype=float)
        out.append(d)
    for t in ax.texts:
        out.append({"text": t.get_text(), "at": np.asarray(t.get_position(), dtype=float)})
    for l in ax.lines:
        out.append({"line": np.asarray(l.get_xydata(), dtype=float)})
    for p in ax.patches:
        out.append({"patch": type(p).__name__, "path": np.asarray(p.get_path().vertices, dtype=float)})
    return out


def plot_op(fn):
    def run(lat):
        import matplotlib.pyplot as plt
        fig, ax = plt.subplots()
        try:
            fn(lat, ax)
            return artists(ax)
        finally:
            plt.close(fig)
    return run


def tables(lat):
    pl = lat.plaquettes
    return {
        "vectors": lat.edges.vectors,
        "adjacent_edges": [np.asarray(r) for r in lat.vertices.adjacent_edges],
        "coordination": lat.vertices.coordination_numbers,
        "edge_adjacent_edges": [np.asarray(r) for r in lat.edges.adjacent_edges],
        "plaquettes": [p for p in pl],
        "n_plaquettes": lat.n_plaquettes,
        "edges.adjacent_plaquettes": lat.edges.adjacent_plaquettes,
        "vertices.adjacent_plaquettes": lat.vertices.adjacent_plaquettes,
        "n": (lat.n_vertices, lat.n_edges),
        "repr": repr(lat),
    }


def shared_args(L, rng):
    E, V = L.n_edges, L.n_vertices
    a = {"J": np.array([1.0, 0.7, 1.3]), "ujk": rng.choice([-1, 1], size=E), "k": rng.uniform(-np.pi, np.pi, size=2),
         "perm": rng.permutation(V), "rm": np.sort(rng.choice(V, size=max(1, V // 5), replace=False)) if V else np.array([], dtype=int)}
    try:
        a["coloring"] = graph_color.color_lattice(L)
        a["colored"] = True
    except Exception:
        a["coloring"] = rng.integers(0, 3, size=E)
        a["colored"] = False
    try:
        npl = L.n_plaquettes
    except Exception:
        npl = 0
    a["npl"] = npl
    a["target"] = rng.choice([-1, 1], size=npl)
    a["v"] = [int(x) for x in rng.integers(0, V, size=2)] if V else []
    a["e"] = [int(x) for x in rng.integers(0, E, size=2)] if E else []
    a["p"] = [int(x) for x in rng.integers(0, npl, size=2)] if npl else []
    a["P"] = None
    if 2 <= V <= 400 and E:
        try:
            H = hamiltonian.majorana_hamiltonian(L, a["coloring"], a["ujk"], a["J"])
            w, v = np.linalg.eigh(H)
            a["P"] = v[:, w < 0] @ v[:, w < 0].conj().T
        except Exception:
            pass
    return a


def build_ops(a, V, E, heavy=True):
    """name -> function(lattice); the same extra arguments (computed once from the original) go to both"""
    gu, gc = graph_utils, graph_color
    ops = [
        ("tables", tables),
        ("edge_color(3)", lambda l: gc.edge_color(l, 3)),
        ("edge_color(3,n_solutions=2)", lambda l: gc.edge_color(l, 3, n_solutions=2)),
        ("vertex_color(indices,4)", lambda l: gc.vertex_color(l.edges.indices, 4)),
        ("color_lattice", lambda l: gc.color_lattice(l)),
        ("cut_boundaries", lambda l: cut_boundaries(l)),
        ("cut_boundaries(x)", lambda l: cut_boundaries(l, [True, False])),
        ("cut_boundaries(y)", lambda l: cut_boundaries(l, [False, True])),
        ("remove_vertices", lambda l: gu.remove_vertices(l, a["rm"], True)),
        ("remove_trailing_edges(cut)", lambda l: gu.remove_trailing_edges(cut_boundaries(l))),
        ("remove_trailing_edges", lambda l: gu.remove_trailing_edges(l)),
        ("make_dual", lambda l: gu.make_dual(l)),
        ("make_dual(avg)", lambda l: gu.make_dual(l, True)),
        ("permute_vertices", lambda l: permute_vertices(l, a["perm"])),
        ("reorder_vertices", lambda l: gu.reorder_vertices(l, a["perm"])),
        ("majorana_hamiltonian", lambda l: hamiltonian.majorana_hamiltonian(l, a["coloring"], a["ujk"], a["J"])),
        ("majorana_hamiltonian(None)", lambda l: hamiltonian.majorana_hamiltonian(l, None, a["ujk"], a["J"])),
        ("bisect_lattice", lambda l: hamiltonian.bisect_lattice(l, a["coloring"])),
        ("k_hamiltonian", lambda l: phase_space.k_hamiltonian_generator(l, a["coloring"], a["ujk"], a["J"])(a["k"])),
        ("fluxes_from_ujk", lambda l: ff.fluxes_from_ujk(l, a["ujk"])),
        ("fluxes_from_ujk(complex)", lambda l: ff.fluxes_from_ujk(l, a["ujk"], real=False)),
        ("fluxes_from_bonds", lambda l: ff.fluxes_from_bonds(l, a["ujk"])),
        ("ujk_from_fluxes", lambda l: ff.ujk_from_fluxes(l)),
        ("ujk_from_fluxes(target)", lambda l: ff.ujk_from_fluxes(l, a["target"], a["ujk"])),
        ("find_flux_sector", lambda l: ff.find_flux_sector(l)),
        ("plaquette_spanning_tree", lambda l: gu.plaquette_spanning_tree(l)),
        ("plaquette_spanning_tree(False)", lambda l: gu.plaquette_spanning_tree(l, False)),
        ("adjacency_matrix", lambda l: l.adjacency_matrix),
        ("as_csgraph", lambda l: l.as_csgraph),
        # one matplotlib arrow patch per edge costs a millisecond: arrows only on small lattices
        ("plot_edges", plot_op(lambda l, ax: plotting.plot_edges(l, labels=a["coloring"], directions=a["ujk"] if V <= 80 else None, ax=ax))),
        ("plot_plaquettes", plot_op(lambda l, ax: plotting.plot_plaquettes(l, labels=np.arange(a["npl"]) % 3, ax=ax))),
    ]
    if heavy:
        ops += [
            ("plot_vertices", plot_op(lambda l, ax: plotting.plot_vertices(l, ax=ax))),
            ("plot_vertex_indices", plot_op(lambda l, ax: plotting.plot_vertex_indices(l, ax=ax))),
            ("plot_edge_indices", plot_op(lambda l, ax: plotting.plot_edge_indices(l, ax=ax))),
            ("plot_plaquette_indices", plot_op(lambda l, ax: plotting.plot_plaquette_indices(l, ax=ax))),
        ]
    # a lattice with an odd number of vertices has no dimerisation / 1-factorisation, and that parity argument is
    # exponentially hard for the SAT solver koala calls: only small odd lattices get these calls
    if V % 2 == 0 or V <= 24:
        ops += [("dimerise", lambda l: gu.dimerise(l)), ("dimerise(2)", lambda l: gu.dimerise(l, 2))]
    if heavy and V <= 40:
        ops.append(("edge_color(4,fixed)", lambda l: gc.edge_color(l, 4, fixed=[(0, 0)])))
    if heavy:
        ops += [
            ("vertices_to_polygon", lambda l: gu.vertices_to_polygon(l)),
            ("vertices_to_polygon(subset)", lambda l: gu.vertices_to_polygon(l, a["rm"])),
            ("plot_dual", plot_op(lambda l, ax: plotting.plot_dual(l, ax=ax))),
            ("plot_lattice", plot_op(lambda l, ax: plotting.plot_lattice(l, ax=ax, edge_labels=a["coloring"], vertex_labels=np.arange(V) % 2,
                                                                        edge_arrows=(V <= 80), bond_signs=a["ujk"]))),
            ("plot_degeneracy_breaking", plot_op(lambda l, ax: plotting.plot_degeneracy_breaking(0, l, ax=ax))),
        ]
        if V <= 60:
            ops.append(("vertex_color(indices,3)", lambda l: gc.vertex_color(l.edges.indices, 3)))
        # lloyd_relaxation is left out: it re-runs Qhull on the plaquette centres and the vertex numbering Qhull returns
        # changes under perturbations far below single precision (not a stable function of the lattice)
    for v in a["v"]:
        ops += [(f"vertex_neighbours({v})", lambda l, v=v: gu.vertex_neighbours(l, v)),
                (f"clockwise_about({v})", lambda l, v=v: gu.clockwise_about(v, l))]
    for e in a["e"]:
        ops.append((f"edge_neighbours({e})", lambda l, e=e: gu.edge_neighbours(l, e)))
    for p in a["p"]:
        ops.append((f"adjacent_plaquettes({p})", lambda l, p=p: gu.adjacent_plaquettes(l, p)))
    if len(a["p"]) == 2:
        ops += [("path_between_plaquettes", lambda l: ff.path_between_plaquettes(l, a["p"][0], a["p"][1])),
                ("path_between_plaquettes(full)", lambda l: ff.path_between_plaquettes(l, a["p"][0], a["p"][1], early_stopping=False))]
    if len(a["v"]) == 2:
        ops.append(("path_between_vertices", lambda l: ff.path_between_vertices(l, a["v"][0], a["v"][1])))
    if a["P"] is not None:
        ops += [("chern_marker", lambda l: chern_number.chern_marker(l, a["P"])),
                ("crosshair_marker", lambda l: chern_number.crosshair_marker(l, a["P"], np.array([0.5, 0.5])))]
    return ops


def noise_variants(pos, idx, cross, rng):
    """the original's arrays with single-precision-sized perturbations of the positions (float64 arrays)"""
    out = [Lattice(pos.astype(np.float32).astype(float), idx.copy(), cross.copy())]
    for _ in range(4):
        d = rng.uniform(-1, 1, size=pos.shape) * 2.0 ** -23 * np.maximum(1.0, np.abs(pos))
        out.append(Lattice(pos + d, idx.copy(), cross.copy()))
    return out


def legacy_dumps(lat, protocol):
    """what koala wrote before __getstate__ existed: the object's whole __dict__"""
    orig = Lattice.__getstate__
    Lattice.__getstate__ = lambda self: self.__dict__
    try:
        return pickle.dumps(lat, protocol=protocol)
    finally:
        Lattice.__getstate__ = orig


def raw_object(case):
    """the generator's own return value (own dtypes), where the family has one"""
    f = case["family"]
    if f == "voronoi":
        return voronization.generate_lattice(gen.points(case["style"], case["n"], case["seed"]), shift_vertices=case.get("shift", True))
    if f == "example":
        r = getattr(eg, case["name"])(*case.get("args", []))
        return r[0] if isinstance(r, tuple) else r
    return None


def is_bool(x):
    return isinstance(x, (bool, np.bool_))


# ------------------------------------------------------------------------------------------ S + K per lattice
def check_lattice(ctx, case, idx_case, prev, level, prebuilt=None, model=None):
    """level: 'full' (every operation), 'light' (tables + cheap operations), 'values' (state, values, eq only);
    prebuilt: (arrays, lattice object) when the caller has built the (huge) lattice already"""
    res = ctx.res
    arr, why = (prebuilt[0], None) if prebuilt else gen.try_build(case)
    if arr is None:
        res.skip("generator-could-not-build-base")
        return None
    pos, idx, cross = arr
    V, E = len(pos), len(idx)
    fam = case["family"] + ("/" + case["base"]["family"] if "base" in case else "")
    rng = np.random.default_rng([ctx.seed, idx_case, 9])
    try:
        L = prebuilt[1] if prebuilt else Lattice(pos.copy(), idx.copy(), cross.copy())
    except Exception as e:
        res.skip(f"constructor-raised:{type(e).__name__}")
        return None
    key = digest([pos.tolist(), idx.tolist(), cross.tolist()]) if (V >= 2 and E >= 1) else None
    res.count(fam, key)
    hs = res.extra.setdefault("size_histogram", {})
    b = "V<=10" if V <= 10 else "V<=100" if V <= 100 else "V<=254" if V <= 254 else "V=255" if V == 255 else "V=256" if V == 256 else \
        "V<=1000" if V <= 1000 else "V<65535" if V < 65535 else "V=65535" if V == 65535 else "V=65536" if V == 65536 else "V>65536"
    hs[b] = hs.get(b, 0) + 1

    def bad(k, what):
        res.violation(k, f"V={V} E={E}: {what}", {"kind": "lattice", "case": case, "index": idx_case, "level": level})

    # ---- K: __getstate__ (model vs implementation), before anything is cached
    try:
        st0 = L.__getstate__()
        st_exc = None
    except Exception as e:
        st0, st_exc = None, type(e).__name__
    m = model if model is not None else run_driver(ctx.exe["c09"], ["gs " + ser_lat(pos, idx, cross)])[0]
    if "error" in m:
        raise RuntimeError(f"c09 driver: {m['error']} on {case}")
    k_getstate(ctx, m, st0, st_exc, {"kind": "lattice", "case": case, "index": idx_case, "level": level})
    if st0 is None:
        bad("getstate-raises", f"__getstate__ raised {st_exc} on a generator output")
        return None

    # ---- histories: pickle at every point of an access order of the cached attributes
    order = [ATTRS[i] for i in rng.permutation(4)]
    protos = [2, 3, 4, 5]
    points = [None] + order
    restored = []
    sig0 = state_sig(st0)
    nloads = 0
    for pi, attr in enumerate(points):
        if attr is not None:
            try:
                access(L, attr)
            except Exception:
                pass        # e.g. LatticeException on a multigraph: the history goes on
        try:
            st = L.__getstate__()
        except Exception as e:
            bad("getstate-depends-on-cache", f"__getstate__ raised {type(e).__name__} after accessing {points[1:pi + 1]}")
            continue
        if state_sig(st) != sig0:
            bad("getstate-depends-on-cache", f"pickled state changed after accessing {points[1:pi + 1]}")
        plist = protos if (V <= 100 and level != "values") else [protos[(idx_case + pi) % 4], protos[(idx_case + pi + 2) % 4]] if (V <= 400 and level != "values") \
            else [protos[(idx_case + pi) % 4]]
        if V > 5000 and pi != len(points) - 1:
            plist = []          # the constructor is O(V*E) (a minute at 65536 vertices): one load, taken with everything cached
        for pr in plist:
            try:
                R = pickle.loads(pickle.dumps(L, protocol=pr))
            except Exception as e:
                bad("roundtrip-raises", f"pickle round trip (protocol {pr}, after {points[1:pi + 1]}) raised {type(e).__name__}: {e}")
                continue
            nloads += 1
            restored.append((pi, pr, R))
            check_restored_values(L, R, st0, bad, f"protocol {pr}, cache {cache_bits(L)}")
    res.extra["pickle_roundtrips"] = res.extra.get("pickle_roundtrips", 0) + nloads
    # all 24 access orders on small lattices: the state (and a round trip at the end of each) never depends on the history
    if V <= (16 if ctx.tier == "quick" else 80) and level != "values":
        for perm in itertools.permutations(ATTRS):
            Lh = Lattice(pos.copy(), idx.copy(), cross.copy())
            for k, attr in enumerate(perm):
                try:
                    access(Lh, attr)
                except Exception:
                    pass
                try:
                    if state_sig(Lh.__getstate__()) != sig0:
                        bad("getstate-depends-on-cache", f"pickled state changed after accessing {list(perm[:k + 1])}")
                except Exception as e:
                    bad("getstate-depends-on-cache", f"__getstate__ raised {type(e).__name__} after accessing {list(perm[:k + 1])}")
            try:
                Rh = pickle.loads(pickle.dumps(Lh, protocol=protos[(idx_case + len(perm[0])) % 4]))
                if state_sig(Rh.__getstate__()) != sig0 or cache_bits(Rh) != "0000":
                    bad("getstate-depends-on-cache", f"round trip after the access order {list(perm)} gives another state")
            except Exception as e:
                bad("roundtrip-raises", f"pickle round trip after the access order {list(perm)} raised {type(e).__name__}: {e}")
        res.extra["lattices_with_all_24_histories"] = res.extra.get("lattices_with_all_24_histories", 0) + 1
    if not restored:
        return (pos, idx, cross, L)

    # ---- legacy dict state (before: fresh object; after: everything cached)
    for which in ("fresh", "cached"):
        if V > 5000 and which == "fresh":
            continue
        src = L if which == "cached" else Lattice(pos.copy(), idx.copy(), cross.copy())
        pr = protos[(idx_case + len(which)) % 4]
        try:
            D = pickle.loads(legacy_dumps(src, pr))
            D2 = Lattice.__new__(Lattice)
            D2.__setstate__(dict(src.__dict__))
        except Exception as e:
            bad("legacy-dict-state", f"restoring a legacy dict state ({which}, protocol {pr}) raised {type(e).__name__}: {e}")
            continue
        for nm, d in (("pickled", D), ("setstate", D2)):
            ok = True
            try:
                ok = (d == src) is True and (src == d) is True and (d != src) is False
                ok = ok and np.array_equal(d.vertices.positions, src.vertices.positions) and np.array_equal(d.edges.indices, src.edges.indices) \
                    and np.array_equal(d.edges.crossing, src.edges.crossing) and cache_bits(d) == cache_bits(src)
            except Exception as e:
                ok = False
            if not ok:
                bad("legacy-dict-state", f"lattice restored from a legacy dict state ({which}, {nm}) is not equal to its original")
        if level != "values":
            o1, o2 = outcome(tables, src), outcome(tables, D)
            if not same_outcome(o1, o2):
                bad("legacy-dict-state", f"tables of the lattice restored from a legacy dict state differ: {short(o1)} vs {short(o2)}")

    # ---- equality: total / reflexive / against non-lattices / other sizes
    R0 = restored[0][2]
    others = [None, 3, "lattice", (pos, idx, cross), [1, 2], np.zeros(3), {"a": 1}, object()]
    for o in others:
        for nm, f in (("==", lambda: L == o), ("!=", lambda: L != o), ("r==", lambda: o == L)):
            try:
                v = f()
            except Exception as e:
                bad("eq-raises", f"Lattice {nm} {type(o).__name__} raised {type(e).__name__}")
                continue
            if isinstance(o, np.ndarray) and nm == "r==":
                continue      # numpy's own elementwise ==
            if not is_bool(v) or bool(v) != (nm == "!="):
                bad("eq-nonlattice", f"Lattice {nm} {type(o).__name__} returned {v!r}")
    try:
        if (L == L) is not True or (L != L) is not False or (R0 == R0) is not True:
            bad("eq-not-reflexive", "L == L is not True")
    except Exception as e:
        bad("eq-raises", f"L == L raised {type(e).__name__}")
    if prev is not None:
        P = prev[3]
        try:
            v1, v2, v3 = (L == P), (P == L), (L != P)
            if not (is_bool(v1) and is_bool(v2) and is_bool(v3)):
                bad("eq-not-bool", f"comparison with a lattice of {P.n_vertices} vertices returned {v1!r}/{v2!r}")
            elif bool(v1) != bool(v2) or bool(v3) == bool(v1):
                bad("eq-asymmetric", f"L == P is {v1} but P == L is {v2} (P has {P.n_vertices} vertices)")
            elif (P.n_vertices != V or P.n_edges != E) and bool(v1):
                bad("eq-different-sizes-equal", f"lattices of different sizes compare equal")
        except Exception as e:
            bad("eq-raises", f"comparison with a lattice of {P.n_vertices} vertices / {P.n_edges} edges raised {type(e).__name__}: {e}")

    # ---- construction twice: same plaquette order
    if level != "values":
        L2 = Lattice(pos.copy(), idx.copy(), cross.copy())
        o1, o2 = outcome(tables, L), outcome(tables, L2)
        if not (o1[0] == o2[0] and same(o1[1], o2[1], 0.0)):
            bad("construction-not-deterministic", f"constructing the same lattice twice gives different tables / plaquette order: {short(o1)} vs {short(o2)}")
        ro = raw_object(case) if V <= 1000 else None
        if ro is not None:
            ro2 = raw_object(case)
            o1, o2 = outcome(tables, ro), outcome(tables, ro2)
            if not (o1[0] == o2[0] and same(o1[1], o2[1], 0.0)):
                bad("construction-not-deterministic", f"calling the generator twice gives different tables / plaquette order")
            # the generator's own object (own dtypes) through pickle
            try:
                rr = pickle.loads(pickle.dumps(ro, protocol=protos[idx_case % 4]))
                check_restored_values(ro, rr, ro.__getstate__(), bad, "generator's own object")
            except Exception as e:
                bad("roundtrip-raises", f"pickle round trip of the generator's own object raised {type(e).__name__}: {e}")

    # ---- every public operation on original and restored
    if level != "values":
        a = shared_args(L, rng)
        ops = build_ops(a, V, E, heavy=(level == "full"))
        variants = None
        targets = [restored[0]] + ([restored[-1]] if len(restored) > 1 and level == "full" else [])
        nops = 0
        for name, f in ops:
            oL = outcome(f, L)
            for (pi, pr, R) in (targets if name == "tables" else targets[:1]):
                oR = outcome(f, R)
                nops += 1
                if same_outcome(oL, oR):
                    continue
                if name == "tables" and V <= c09p.VMAX:
                    # no generic skip here: the extracted predicates decide (harness/c09p.py) — a float32 rounding that flips a geometric
                    # predicate is the listed finding roundtrip:tables-differ-where-float32-flips-a-predicate, anything else is a violation
                    if not c09p.judge_pair(ctx, L, R, {"kind": "lattice", "case": case, "index": idx_case, "level": level}):
                        bad("operation-differs:tables",
                            f"tables of the restored lattice (protocol {pr}, pickled after {points[1:pi + 1]}) differ from the original's beyond the integer tables: {short(oL)} vs {short(oR)}")
                    continue
                if variants is None:
                    try:
                        variants = noise_variants(pos, idx, cross, rng)
                    except Exception:
                        variants = []
                if not all(same_outcome(oL, outcome(f, Lv)) for Lv in variants):
                    res.skip("float32-nongeneric:" + (name.split("(")[0] if name != "tables" else "tables(V>200,predicates-not-evaluated)"))
                    continue
                bad("operation-differs:" + name.split("(")[0],
                    f"{name} on the restored lattice (protocol {pr}, pickled after {points[1:pi + 1]}) differs from the original: {short(oL)} vs {short(oR)}")
        res.extra["operations_compared"] = res.extra.get("operations_compared", 0) + nops
        res.hist["level/" + level] = res.hist.get("level/" + level, 0) + 1
    res.sample({"case": case, "V": V, "E": E, "state_dtypes": [str(x.dtype) for x in st0], "history": order,
                "restored_dtypes": [str(R0.vertices.positions.dtype), str(R0.edges.indices.dtype), str(R0.edges.crossing.dtype)]})
    return (pos, idx, cross, L)


def check_restored_values(L, R, st0, bad, ctxs):
    """identical edges, crossings (values, and wide dtypes again), positions to single precision, == both ways"""
    try:
        if not np.array_equal(np.asarray(R.edges.indices), np.asarray(L.edges.indices)):
            bad("restored-edges-differ", f"restored edges.indices differ ({ctxs})")
        if not np.array_equal(np.asarray(R.edges.crossing), np.asarray(L.edges.crossing)):
            bad("restored-crossing-differ", f"restored edges.crossing differ ({ctxs})")
        # narrowed integer dtypes leak into downstream arithmetic (fix 1d3446a): the restored arrays must be able to hold
        # whatever the original's integer dtype (at least the platform int) can
        for nm, ro, lo in (("indices", R.edges.indices, L.edges.indices), ("crossing", R.edges.crossing, L.edges.crossing)):
            want = np.asarray(lo).dtype if np.asarray(lo).dtype.kind in "iu" else np.dtype(int)
            if not np.can_cast(np.promote_types(want, np.dtype(int)), np.asarray(ro).dtype, "safe"):
                bad("restored-narrow-dtype", f"restored edges.{nm} has dtype {np.asarray(ro).dtype}, narrower than the original's {np.asarray(lo).dtype} ({ctxs})")
        p32 = np.asarray(L.vertices.positions).astype(np.float32)
        if not np.array_equal(np.asarray(R.vertices.positions, dtype=float), p32.astype(float)):
            bad("restored-positions-differ", f"restored positions are not the single-precision rounding of the original's ({ctxs})")
        if R.n_vertices != L.n_vertices or R.n_edges != L.n_edges:
            bad("restored-sizes-differ", f"n_vertices/n_edges differ ({ctxs})")
        if cache_bits(R) != "0000":
            bad("restored-cache", f"restored lattice has cached attributes {cache_bits(R)} ({ctxs})")
        v = [(L == R), (R == L), (L != R), (R != L)]
        if not all(is_bool(x) for x in v):
            bad("eq-not-bool", f"== / != with the restored lattice returned {v!r} ({ctxs})")
        elif [bool(x) for x in v] != [True, True, False, False]:
            bad("restored-not-equal", f"L == R, R == L, L != R, R != L gave {v} ({ctxs})")
    except Exception as e:
        bad("eq-raises", f"comparing with the restored lattice raised {type(e).__name__}: {e} ({ctxs})")


def k_getstate(ctx, m, st, st_exc, case):
    """model outcome of getstate vs the implementation's"""
    res = ctx.res
    res.traces += 1
    status = m["status"][0]
    expect_exc = {"toomany": "ValueError", "crossrange": "AssertionError"}.get(status)
    if status == "posoverflow":
        if st is None or np.all(np.isfinite(st[0])):
            ctx.k_mismatch(f"getstate: model says a position overflows float32, implementation: {st_exc or 'finite positions'}", case)
        return
    if expect_exc:
        if st_exc != expect_exc:
            ctx.k_mismatch(f"getstate: model outcome {status} ({expect_exc}), implementation: {st_exc or 'returned a state'}", case)
        return
    if st is None:
        ctx.k_mismatch(f"getstate: model returns a state, implementation raised {st_exc}", case)
        return
    vs, es, cs = st
    d = []
    if DTN.get(str(es.dtype)) != m["idt"][0]:
        d.append(f"index dtype model {m['idt'][0]} impl {es.dtype}")
    if DTN.get(str(cs.dtype)) != m["cdt"][0]:
        d.append(f"crossing dtype model {m['cdt'][0]} impl {cs.dtype}")
    if str(vs.dtype) != "float32":
        d.append(f"positions dtype impl {vs.dtype}")
    if zpairs(m["idx"]) != [tuple(int(x) for x in r) for r in es.reshape(-1, 2)]:
        d.append("index values")
    if zpairs(m["cross"]) != [tuple(int(x) for x in r) for r in cs.reshape(-1, 2)]:
        d.append("crossing values")
    mp = qpairs(m["pos"])
    ip = np.asarray(vs, dtype=float).reshape(-1, 2)
    if len(mp) != len(ip) or any(a[0] / a[1] != x or b[0] / b[1] != y for (a, b), (x, y) in zip(mp, ip.tolist())):
        d.append("position values (model: round-to-nearest-even float32)")
    if m["rt_dt"] != ["f32", "i64", "i64"]:
        d.append(f"model restored dtypes {m['rt_dt']}")
    if m["rt_eq"] != ["1", "1"]:
        # the model says L != roundtrip(L): positions too large for the tolerance — the implementation must agree (checked by S)
        res.extra["model_roundtrip_not_equal"] = res.extra.get("model_roundtrip_not_equal", 0) + 1
    if d:
        ctx.k_mismatch("getstate: " + "; ".join(d), case)


# ------------------------------------------------------------------------------------------ eq on perturbed copies
def eq_impl(A, B):
    try:
        v = A == B
        return ("1" if v else "0") if is_bool(v) else "?"
    except Exception:
        return "R"


def eq_margin(pa, pb):
    """relative distance of the closest vertex displacement from the tolerance (float, only for the skip rule)"""
    if pa.shape != pb.shape or len(pa) == 0:
        return 1.0
    tol = 1 / math.sqrt(len(pa)) / 100
    d = np.hypot(*(pa.astype(float) - pb.astype(float)).T)
    return float(np.min(np.abs(d - tol))) / tol


def check_eq_pairs(ctx, payloads):
    """payloads: kind eqpair, A/B raw arrays, expect: 'equal' | 'differ' | None (claim of the property), label.
    One driver call for the whole batch."""
    res = ctx.res
    todo, lines = [], []
    for payload in payloads:
        A, B = payload["A"], payload["B"]
        pa, ia, ca = (np.array(A[0], dtype=float).reshape(-1, 2), np.array(A[1], dtype=int).reshape(-1, 2), np.array(A[2], dtype=int).reshape(-1, 2))
        pb, ib, cb = (np.array(B[0], dtype=float).reshape(-1, 2), np.array(B[1], dtype=int).reshape(-1, 2), np.array(B[2], dtype=int).reshape(-1, 2))
        if payload.get("b32"):
            pb = pb.astype(np.float32)
        res.count("eq/" + payload["label"].split(":")[0], digest(payload))
        if eq_margin(pa, pb) < 1e-9:
            res.skip("eq-verdict-within-1e-9-of-tolerance")
            continue
        todo.append((payload, Lattice(pa, ia, ca), Lattice(pb, ib, cb)))
        lines.append("eq " + ser_lat(pa, ia, ca) + " " + ser_lat(pb, ib, cb, pdt="f32" if payload.get("b32") else "f64"))
    for (payload, LA, LB), m in zip(todo, run_driver_parallel(ctx.exe["c09"], lines)):
        if "error" in m:
            raise RuntimeError(f"c09 driver: {m['error']}")
        check_eq_pair_verdict(ctx, payload, LA, LB, m)


def check_eq_pair(ctx, payload):
    check_eq_pairs(ctx, [payload])


def check_eq_pair_verdict(ctx, payload, LA, LB, m):
    res = ctx.res
    ab, ba = eq_impl(LA, LB), eq_impl(LB, LA)
    try:
        ne = LA != LB
        ne = ("1" if ne else "0") if is_bool(ne) else "?"
    except Exception:
        ne = "R"
    res.traces += 1
    if [ab, ba, ne] != m["eq"][:3]:
        ctx.k_mismatch(f"eq verdicts ({payload['label']}): model A==B,B==A,A!=B = {m['eq'][:3]}, implementation {[ab, ba, ne]}", payload)
    # S: the property's own claims
    if "R" in (ab, ba, ne) or "?" in (ab, ba, ne):
        res.violation("eq-raises" if "R" in (ab, ba, ne) else "eq-not-bool", f"{payload['label']}: A==B, B==A, A!=B gave {[ab, ba, ne]}", payload)
        return
    if ab != ba:
        res.violation("eq-asymmetric", f"{payload['label']}: A == B is {ab} but B == A is {ba}", payload)
    if ne == ab:
        res.violation("ne-not-negation", f"{payload['label']}: A != B is {ne} while A == B is {ab}", payload)
    exp = payload.get("expect")
    if exp == "differ" and (ab == "1" or ba == "1"):
        res.violation("eq-misses-" + payload["label"].split(":")[0], f"{payload['label']}: the lattices compare equal ({payload.get('note', '')})", payload)
    if exp == "equal" and (ab == "0" or ba == "0"):
        res.violation("eq-false-alarm-" + payload["label"].split(":")[0], f"{payload['label']}: the lattices compare different ({payload.get('note', '')})", payload)


def eq_pairs_for(arr, rng):
    """perturbed copies of one lattice: edge, crossing, displacement just below/above the tolerance (exact dyadics)"""
    pos, idx, cross = arr
    V, E = len(pos), len(idx)
    A = [pos.tolist(), idx.tolist(), cross.tolist()]
    out = []
    if E and V > 1:
        e, c = int(rng.integers(E)), int(rng.integers(2))
        i2 = idx.copy()
        i2[e, c] = (i2[e, c] + 1 + int(rng.integers(V - 1))) % V
        out.append({"label": "edge", "B": [pos.tolist(), i2.tolist(), cross.tolist()], "expect": "differ"})
    if E:
        e, c = int(rng.integers(E)), int(rng.integers(2))
        c2 = cross.copy()
        c2[e, c] += int(rng.choice([-1, 1]))
        out.append({"label": "crossing", "B": [pos.tolist(), idx.tolist(), c2.tolist()], "expect": "differ"})
    if V:
        tol = 1 / math.sqrt(V) / 100
        for f, exp in ((0.5, "equal"), (1 - 2.0 ** -16, "equal"), (1 + 2.0 ** -16, "differ"), (1.0 + 1e-5, "differ"), (1.01, "differ"), (3.0, "differ")):
            v = int(rng.integers(V))
            th = rng.uniform(0, 2 * np.pi)
            if rng.uniform() < 0.3:
                th = float(rng.choice([0, np.pi / 2, np.pi / 4, np.pi]))
            p2 = pos.copy()
            p2[v] = p2[v] + f * tol * np.array([np.cos(th), np.sin(th)])
            out.append({"label": f"displacement:{f:.6f}", "B": [p2.tolist(), idx.tolist(), cross.tolist()], "expect": exp,
                        "note": f"vertex {v} displaced by {f} x (mean spacing / 100)"})
        # large displacements, in particular by (nearly) whole cell vectors: a vertex moved by (1,0) is NOT the same lattice
        # (its edge vectors change by a cell); equality must not be taken modulo the unit cell
        for d in ((1.0, 0.0), (0.0, -1.0), (2.0, -1.0), (1.0 + tol / 2, 0.0), (0.5, 0.5)):
            v = int(rng.integers(V))
            p2 = pos.copy()
            p2[v] = p2[v] + np.array(d)
            out.append({"label": f"displacement-by-cell-vector:{d}", "B": [p2.tolist(), idx.tolist(), cross.tolist()], "expect": "differ",
                        "note": f"vertex {v} displaced by {d}"})
        # the float32 rounding itself
        out.append({"label": "float32", "B": [pos.astype(np.float32).astype(float).tolist(), idx.tolist(), cross.tolist()], "b32": True,
                    "expect": "equal" if float(np.max(np.abs(pos))) <= 2 else None})
    return [dict(p, kind="eqpair", A=A) for p in out]


def corpus_payloads():
    """minimised past failures (corpus/C09/*.json: the witnesses of the defects fixed by 8051f8a, 1d3446a, 98a8b3d, d5da286), run first"""
    import glob
    return [json.load(open(f))["case"] for f in sorted(glob.glob(os.path.join(VERIF, "corpus", "C09", "*.json")))]


# ------------------------------------------------------------------------------------------ raw K checks
def check_r32(ctx, xs, label):
    """model round32 vs numpy's float64 -> float32 cast (IEEE round-to-nearest-even), exactly"""
    res = ctx.res
    toks = ["r32", str(len(xs))]
    for x in xs:
        n, d = float(x).as_integer_ratio()
        toks += [hx(n), hx(d)]
    m = run_driver(ctx.exe["c09"], [" ".join(toks)])[0]
    if "error" in m:
        raise RuntimeError(f"c09 driver: {m['error']}")
    c = Cursor(m["r32"])
    out = c.list(lambda: (c.next() == "1", c.z(), c.z()))
    with np.errstate(all="ignore"):
        y = np.asarray(xs, dtype=float).astype(np.float32).astype(float)
    for x, (ovf, n, d), yy in zip(xs, out, y.tolist()):
        res.count("float32-cast/" + label, x if x != 0 else None)
        res.traces += 1
        if ovf != math.isinf(yy) or (not ovf and n / d != yy):
            ctx.k_mismatch(f"float32 cast of {x!r}: model {'overflow' if ovf else Fraction(n, d)} implementation {yy!r}", {"kind": "r32", "xs": [x], "label": label})


def r32_inputs(rng, n):
    xs = [0.0, 1.0, -1.0, 0.1, 1 / 3, 2.0, 0.5, 1 + 2.0 ** -24, 1 + 2.0 ** -23, 1 + 3 * 2.0 ** -24, 1 - 2.0 ** -25, 1 + 2.0 ** -24 + 2.0 ** -50,
          2.0 ** -126, 2.0 ** -127, 2.0 ** -149, 2.0 ** -150, 2.0 ** -150 * (1 + 2.0 ** -50), 3 * 2.0 ** -150, 2.0 ** -151, 2.0 ** -126 - 2.0 ** -150,
          3.4028234663852886e38, 3.4028235677973366e38, 3.40282356779733e38, 3.5e38, 1e39, -1e39, 2.0 ** 127, 1e-320, 5e-324, 16777217.0, 16777219.0]
    for _ in range(n):
        k = rng.integers(0, 6)
        if k == 0:
            xs.append(float(rng.uniform(-1, 2)))
        elif k == 1:
            xs.append(float(rng.standard_normal() * 10.0 ** rng.integers(-3, 6)))
        elif k == 2:       # exact ties and their neighbours
            mm = int(rng.integers(2 ** 23, 2 ** 24))
            e = int(rng.integers(-30, 30))
            xs.append(math.ldexp(2 * mm + 1, e - 1) * (1 if rng.uniform() < 0.5 else -1))
            xs.append(math.ldexp(2 * mm + 1, e - 1) * (1 + 2.0 ** -52))
            xs.append(math.ldexp(2 * mm + 1, e - 1) * (1 - 2.0 ** -53))
        elif k == 3:       # subnormal float32 range
            xs.append(float(rng.uniform(0, 1) * 2.0 ** int(rng.integers(-155, -120))))
            xs.append(math.ldexp(2 * int(rng.integers(1, 2 ** 20)) + 1, -150))
        elif k == 4:       # near overflow
            xs.append(float(2.0 ** 127 * rng.uniform(1.9, 2.0)))
        else:
            xs.append(float(rng.uniform(-1, 1) * 2.0 ** int(rng.integers(-1000, 1000))))
    return [x for x in xs if math.isfinite(x)]


def check_dtype_thresholds(ctx):
    """index dtype chosen for n_vertices around every threshold: model vs Lattice.__getstate__ applied to a
    stand-in object that only carries the attributes __getstate__ reads (a lattice with 2^32 vertices cannot be built)"""
    res = ctx.res
    ns = []
    for t in (2 ** 8, 2 ** 16, 2 ** 32, 2 ** 64):
        ns += [t - 2, t - 1, t, t + 1]
    ns += [0, 1, 2, 100, 70000, 10 ** 12, 2 ** 70]
    outs = run_driver(ctx.exe["c09"], [f"dt {hx(n)}" for n in ns])
    for n, m in zip(ns, outs):
        fake = types.SimpleNamespace(
            n_vertices=n, edges=types.SimpleNamespace(indices=np.array([[0, 1]]), crossing=np.array([[0, 1]])),
            vertices=types.SimpleNamespace(positions=np.array([[0.5, 0.5], [0.25, 0.25]])))
        try:
            st = Lattice.__getstate__(fake)
            got = DTN.get(str(st[1].dtype), str(st[1].dtype))
        except ValueError:
            got = "none"
        except (AttributeError, TypeError) as e:
            res.skip("dtype-threshold-standin-not-accepted")
            continue
        res.count("dtype-threshold", n)
        res.traces += 1
        if got != m["dt"][0]:
            ctx.k_mismatch(f"index dtype for n_vertices={n}: model {m['dt'][0]} implementation {got}", {"kind": "dtype", "n": n})


def raw_cases():
    """hand-made lattices at the edges of the ranges (crossing int8 range, no edges, one vertex)"""
    sq = lambda c: {"family": "raw", "positions": [[0.25, 0.25], [0.75, 0.25], [0.75, 0.75], [0.25, 0.75]],
                    "edges": [[0, 1], [1, 2], [2, 3], [3, 0]], "crossing": c}
    return [
        {"family": "raw", "positions": [[0.5, 0.5]], "edges": [], "crossing": []},
        {"family": "raw", "positions": [[0.5, 0.5], [0.1, 0.9], [0.3, 0.2]], "edges": [], "crossing": []},
        {"family": "raw", "positions": [[0.5, 0.5]], "edges": [[0, 0], [0, 0]], "crossing": [[1, 0], [0, 1]]},
        sq([[0, 0], [0, 0], [0, 0], [0, 0]]),
        sq([[127, 0], [0, -128], [0, 0], [-127, 128 - 1]]),
    ]


def crossing_range_cases():
    sq = lambda c: {"family": "raw", "positions": [[0.25, 0.25], [0.75, 0.25], [0.75, 0.75], [0.25, 0.75]],
                    "edges": [[0, 1], [1, 2], [2, 3], [3, 0]], "crossing": c}
    return [sq([[128, 0], [0, 0], [0, 0], [0, 0]]), sq([[0, 0], [0, -129], [0, 0], [0, 0]]), sq([[0, 0], [0, 0], [0, 300], [0, 0]]),
            sq([[0, 0], [0, 0], [0, 0], [-2 ** 40, 0]])]


def check_crossing_range(ctx, case):
    """crossing outside int8: the code must refuse to pickle (AssertionError) rather than wrap — model vs implementation"""
    res = ctx.res
    pos, idx, cross = gen.build(case)
    L = Lattice(pos, idx, cross)
    res.count("crossing-range", digest(case))
    try:
        st, exc = L.__getstate__(), None
    except Exception as e:
        st, exc = None, type(e).__name__
    m = run_driver(ctx.exe["c09"], ["gs " + ser_lat(pos, idx, cross)])[0]
    pay = {"kind": "crossing-range", "case": case}
    k_getstate(ctx, m, st, exc, pay)
    if st is not None:
        try:
            R = pickle.loads(pickle.dumps(L))
            if not np.array_equal(R.edges.crossing, cross):
                res.violation("restored-crossing-differ", f"crossing {cross.tolist()} does not fit int8 and was pickled anyway: restored {R.edges.crossing.tolist()}", pay)
        except Exception:
            pass


# ------------------------------------------------------------------------------------------ extraction cross-check
def coq_q(x):
    n, d = Fraction(float(x)).as_integer_ratio()
    return f"(({n}) # {d})"


def coq_lat(pos, idx, cross):
    P = "; ".join(f"({coq_q(x)}, {coq_q(y)})" for x, y in np.asarray(pos, dtype=float).reshape(-1, 2))
    I = "; ".join(f"(({int(a)}), ({int(b)}))" for a, b in np.asarray(idx).reshape(-1, 2))
    C = "; ".join(f"(({int(a)}), ({int(b)}))" for a, b in np.asarray(cross).reshape(-1, 2))
    return f"(mkLat [{P}]%Q F64 [{I}] I64 [{C}] I64 fresh_cache)"


def check_extraction_sample(ctx, xs, pairs):
    """thorough tier: a sample of float32 casts and eq verdicts is re-evaluated INSIDE Coq (vm_compute on Model/Pickle.v)
    and must agree with the extracted OCaml driver, so that a wrong extraction directive or driver bug cannot vouch for the model"""
    import tempfile, subprocess, re, shutil
    res = ctx.res
    d = tempfile.mkdtemp(prefix="c09_vm_", dir="/var/tmp")
    try:
        src = ["From Coq Require Import List ZArith QArith.", "From Koala Require Import Model.Pickle.", "Import ListNotations.", "Open Scope Z_scope.",
               "Definition xs : list Q := [" + "; ".join(coq_q(x) for x in xs) + "]%Q.",
               "Eval vm_compute in (map (fun x => (f32_overflows x, Qnum (round32 x), Zpos (Qden (round32 x)))) xs)."]
        for A, B in pairs:
            src.append(f"Eval vm_compute in (lat_eq {coq_lat(*A)} {coq_lat(*B)}, lat_eq {coq_lat(*B)} {coq_lat(*A)}).")
        open(os.path.join(d, "cases.v"), "w").write("\n".join(src) + "\n")
        p = subprocess.run(["timeout", "900", "coqc", "-Q", os.path.join(VERIF, "coq"), "Koala", "cases.v"], cwd=d, capture_output=True, text=True)
        if p.returncode != 0:
            raise RuntimeError("in-Coq re-evaluation failed: " + (p.stdout + p.stderr)[-800:])
        out = p.stdout
        trip = re.findall(r"\(\s*(true|false),\s*\(?(-?\d+)\)?,\s*(\d+)\s*\)", out)
        verd = re.findall(r"=\s*\(\s*(Some\s+true|Some\s+false|None),\s*(Some\s+true|Some\s+false|None)\s*\)", out)
        verd = [(" ".join(a.split()), " ".join(b.split())) for a, b in verd]
        if len(trip) != len(xs) or len(verd) != len(pairs):
            raise RuntimeError(f"in-Coq re-evaluation: parsed {len(trip)}/{len(xs)} casts and {len(verd)}/{len(pairs)} verdicts")
        toks = ["r32", str(len(xs))]
        for x in xs:
            n, dd = float(x).as_integer_ratio()
            toks += [hx(n), hx(dd)]
        m = run_driver(ctx.exe["c09"], [" ".join(toks)])[0]
        c = Cursor(m["r32"])
        drv = c.list(lambda: (c.next() == "1", c.z(), c.z()))
        for x, (o, n, dd), (co, cn, cd) in zip(xs, drv, trip):
            res.count("extraction-crosscheck", None)
            if (o, n, dd) != (co == "true", int(cn), int(cd)):
                ctx.k_mismatch(f"extracted driver and vm_compute disagree on round32 {x!r}: {(o, n, dd)} vs {(co, cn, cd)}", {"kind": "r32", "xs": [x]})
        lines = ["eq " + ser_lat(*A) + " " + ser_lat(*B) for A, B in pairs]
        for (A, B), mo, v in zip(pairs, run_driver(ctx.exe["c09"], lines), verd):
            res.count("extraction-crosscheck", None)
            tr = {"Some true": "1", "Some false": "0", "None": "R"}
            if mo["eq"][:2] != [tr[v[0]], tr[v[1]]]:
                ctx.k_mismatch(f"extracted driver and vm_compute disagree on lat_eq: {mo['eq'][:2]} vs {v}", {"kind": "eqpair", "A": [a.tolist() for a in A], "B": [b.tolist() for b in B], "label": "crosscheck"})
        res.extra["extraction_crosscheck_cases"] = len(xs) + len(pairs)
    finally:
        shutil.rmtree(d, ignore_errors=True)


# ------------------------------------------------------------------------------------------ case lists
def lattice_cases(tier, seed):
    rng = np.random.default_rng([seed, 909])
    sq = lambda nx, ny: {"family": "example", "name": "square_lattice", "args": [nx, ny]}
    cases = []
    ex = gen.example_cases("quick")
    cases += ex
    vor = gen.voronoi_cases(tier, rng, 14 if tier == "quick" else 60, 40 if tier == "quick" else 90)
    big = [{"family": "voronoi", "style": gen.POINT_STYLES[i % 6], "n": int(n), "seed": int(rng.integers(0, 2 ** 31)), "shift": bool(i % 2)}
           for i, n in enumerate(([100, 127, 128, 150] if tier == "quick" else [100, 127, 128, 129, 150, 200, 300, 500]))]
    cases += vor + big
    bases = vor + [c for c in ex if c["name"] in ("honeycomb_lattice", "hex_square_oct_lattice", "tri_non_lattice", "square_lattice")]
    cases += gen.derived_cases(bases, rng)
    cases += raw_cases()
    cases.append({"family": "example", "name": "multi_graph"})
    # the 8/16-bit index threshold
    cases += [sq(2, 127), sq(15, 17), sq(16, 16), sq(1, 257), {"family": "example", "name": "honeycomb_lattice", "args": [8]},
              {"family": "cut", "base": sq(15, 17), "cut": [True, True]}, {"family": "cut", "base": sq(16, 16), "cut": [True, False]}]
    if tier != "quick":
        cases += [sq(5, 51), sq(255, 1), sq(256, 1), sq(30, 30), {"family": "example", "name": "honeycomb_lattice", "args": [11]},
                  {"family": "example", "name": "honeycomb_lattice", "args": [12]}]
    return cases


def huge_cases(tier):
    sq = lambda nx, ny: {"family": "example", "name": "square_lattice", "args": [nx, ny], "huge": True}
    return [sq(255, 257), sq(256, 256), sq(250, 280)] if tier != "quick" else []


def level_for(i, V, tier):
    if V > 5000:
        return "values"
    if tier == "quick":
        return "full" if (V <= 300 and i % 2 == 0) or V in (255, 256) else "light"
    if tier == "search":
        return "full" if V <= 300 else "light"
    return "full" if V <= 700 else "light"


def evaluate(ctx, cases, tier, with_pairs=True):
    prev = None
    rng = np.random.default_rng([ctx.seed, 77])
    # the model's getstate for every (not huge) case in one driver call
    built, lines = {}, []
    for i, c in enumerate(cases):
        if c.get("huge"):
            continue
        arr, _ = gen.try_build(c)
        if arr is not None:
            built[i] = arr
            lines.append((i, "gs " + ser_lat(*arr)))
    models = dict(zip([i for i, _ in lines], run_driver_parallel(ctx.exe["c09"], [l for _, l in lines])))
    pairs = []
    for i, c in enumerate(cases):
        pre, model = None, models.get(i)
        if c.get("huge"):           # built once (a minute each): the generator's own object is the lattice under test
            obj = raw_object(c)
            pre = (gen.arrays(obj), obj)
            arr = pre[0]
        else:
            arr = built.get(i)
            if arr is not None:
                pre = (arr, Lattice(arr[0].copy(), arr[1].copy(), arr[2].copy()))
        V = len(arr[0]) if arr is not None else 0
        cur = check_lattice(ctx, c, i, prev, level_for(i, V, tier), prebuilt=pre, model=model)
        if cur is not None:
            if with_pairs and V <= 1000 and (tier != "quick" or i % 3 == 0 or V in (255, 256, 1, 2)):
                pairs += eq_pairs_for(cur[:3], rng)
            if prev is None or cur[3].n_vertices != prev[3].n_vertices or i % 5 == 0:
                prev = cur
    check_eq_pairs(ctx, pairs)


def run(ctx):
    res = ctx.res
    res.rule = ("lattices: all example graphs / tilings, Voronoi lattices (6 point styles, both shift settings), their cuts, edge-deleted, vertex-isolated, dual and tiled derivatives, "
                "hand-made edge cases (no edges, one vertex, self-loops, crossing at +-127/128), square lattices with exactly 254/255/256/257 vertices (thorough: 65535/65536/70000); each pickled with "
                "protocols 2..5 at the 5 points of a random access order of the 4 cached attributes; non-trivial = distinct lattice (hash of arrays) with >= 2 vertices and >= 1 edge. "
                "eq pairs: perturbed copies (edge, crossing, displacement 0.5 / 1-2^-16 / 1+2^-16 / 1.00001 / 1.01 / 3 x tolerance in a random direction, float32 rounding). "
                "float32-cast: special values, ties, subnormals, near-overflow, random")
    tier = ctx.tier
    corpus = corpus_payloads()
    check_eq_pairs(ctx, [p for p in corpus if p.get("kind") == "eqpair"])
    for p in corpus:
        if p.get("kind") == "lattice":
            check_lattice(ctx, p["case"], p.get("index", 0), None, p.get("level", "full"))
    ctx.res.extra["corpus_cases"] = len(corpus)
    check_dtype_thresholds(ctx)
    rng = np.random.default_rng([ctx.seed, 32])
    check_r32(ctx, r32_inputs(rng, 400 if tier == "quick" else 5000), "mixed")
    for c in crossing_range_cases():
        check_crossing_range(ctx, c)
    check_backward_files(ctx)
    evaluate(ctx, lattice_cases(tier, ctx.seed), tier)
    c09p.check_preds(ctx, lattice_cases(tier, ctx.seed))    # hypothesis of C09_roundtrip_tables on original vs restored
    evaluate(ctx, huge_cases(tier), tier, with_pairs=False)
    if tier != "quick":
        xs = r32_inputs(np.random.default_rng([ctx.seed, 34]), 60)
        pairs = []
        for c in lattice_cases("quick", ctx.seed)[:40:4]:
            arr, _ = gen.try_build(c)
            if arr is None or len(arr[0]) > 60:
                continue
            for p in eq_pairs_for(arr, rng)[:4]:
                to = lambda T: (np.array(T[0], dtype=float).reshape(-1, 2), np.array(T[1], dtype=int).reshape(-1, 2), np.array(T[2], dtype=int).reshape(-1, 2))
                pairs.append((to(p["A"]), to(p["B"])))
        check_extraction_sample(ctx, xs, pairs)


def check_backward_files(ctx):
    """the two pickles shipped with the test-suite (V0: legacy dict state, V1: tuple state)"""
    res = ctx.res
    d = os.path.join(REPO, "tests", "data")
    try:
        l0 = pickle.load(open(os.path.join(d, "pickled_lattice_V0.pickle"), "rb"))
        l1 = pickle.load(open(os.path.join(d, "pickled_lattice_V1.pickle"), "rb"))
    except FileNotFoundError:
        res.skip("tests/data pickles not present")
        return
    except Exception as e:
        res.violation("legacy-dict-state", f"loading tests/data/pickled_lattice_V0/V1.pickle raised {type(e).__name__}: {e}", {"kind": "files"})
        return
    res.count("shipped-pickles", "V0V1")
    # V0 was written by an older koala (its Vertices has no coordination_numbers, its plaquette centres are vertex
    # averages), so only what the property claims for a legacy state is compared: equality both ways, and the
    # combinatorial content of the plaquettes it carries against the recomputed ones
    plq = lambda l: [[p.vertices, p.edges, p.directions, p.n_sides] for p in l.plaquettes]
    try:
        ok = (l0 == l1) is True and (l1 == l0) is True and (l0 != l1) is False and same_outcome(outcome(plq, l0), outcome(plq, l1))
    except Exception as e:
        ok = False
    if not ok:
        res.violation("legacy-dict-state", "the shipped legacy pickle (dict state) and new pickle (tuple state) of the same lattice are not equal / have different tables", {"kind": "files"})


def search(ctx):
    """a proof, the translator tie or K broke: same families with another seed and more Voronoi lattices; every lattice
    gets the full operation set and the perturbed-copy pairs (thorough tier: thorough sizes and the 65k cases as well)"""
    ctx.seed += 1
    rng = np.random.default_rng([ctx.seed, 33])
    check_r32(ctx, r32_inputs(rng, 3000), "search")
    if ctx.tier == "quick":
        cases = lattice_cases("quick", ctx.seed) + gen.voronoi_cases("quick", rng, 20, 60)
        evaluate(ctx, cases, "search")
    else:
        evaluate(ctx, lattice_cases("thorough", ctx.seed), "thorough")
        evaluate(ctx, huge_cases("thorough"), "thorough", with_pairs=False)


def replay(ctx, payload):
    c = payload.get("case", payload)
    k = c.get("kind")
    if k == "lattice":
        check_lattice(ctx, c["case"], c.get("index", 0), None, c.get("level", "full"))
    elif k == "eqpair":
        check_eq_pair(ctx, c)
    elif k == "r32":
        check_r32(ctx, c["xs"], c.get("label", "replay"))
    elif k == "dtype":
        check_dtype_thresholds(ctx)
    elif k == "crossing-range":
        check_crossing_range(ctx, c["case"])
    elif k == "files":
        check_backward_files(ctx)
    elif k == "preds":
        c09p.check_preds(ctx, [c["case"]])
    else:
        raise ValueError(f"unknown replay kind {k}")
