"""C07 — the Majorana Hamiltonian is the sum of bond terms and transforms covariantly.

K  coq/Model/Ham.v (extracted): the scatter-add model of majorana_hamiltonian (np.add.at semantics, parallel edges
   accumulate), permute_vertices (inverse_ordering), bisect_lattice (labels; np.argsort as a contract) and
   majorana_to_fermion_ham, compared entry for entry with the implementation on dyadic J (exact in floats).
S  the property restated on the implementation's output: entry-wise bond sum (independent python `fractions`
   restatement), exactly Hermitian / purely imaginary / antisymmetric; relabelling H' = P H P^T and gauge H' = D H D
   exactly; bisection keeps edge order and separates the ends of a perfect-matching colour class; fermionic form
   Hermitian with BdG blocks; spectra (symmetric about 0, gauge / permutation / bisection invariant, fermionic = 2 x
   Majorana) by eigvalsh with tolerance (numerical support)."""
from lib import *  # noqa
import gen
import argforms as AF
from koala.lattice import Lattice, permute_vertices
from koala import hamiltonian as hm

DRIVERS = ("c07",)
MODEL_TARGETS = ["Model/Ham.vo"]
TARGETS = ["Proofs/HamFacts.vo", "Proofs/HamBisect.vo", "Proofs/HamFermion.vo", "Proofs/HamMx.vo", "Proofs/HamFermionMx.vo"]
LEVEL = "proof"
TRUST = [
    "hand-written Gallina model coq/Model/Ham.v of hamiltonian.py / lattice.permute_vertices (np.add.at as sequential accumulation, fancy-index assignment "
    "as last-write-wins, np.argsort as 'any permutation sorting the labels'): modelled, not verified; tied to the code by the correspondence run K",
    "LAPACK eigvalsh: the spectral clauses are theorems about characteristic polynomials (equal char. polynomial => equal spectrum with multiplicities is the "
    "only step to the property's wording); eigvalsh comparisons (tolerance 1e-9*(1+|H|)) are numerical support",
    "the prefactor i/4 (and the dyadic scale of J) is symbolic in the model: model A4 = SJ*ham, implementation H = (i/(4 SJ)) A4; the theorems hold for every real prefactor t",
    "np.argsort (bisect_lattice) is an external routine: contract 'a permutation that sorts the labels' (is_argsort), evaluated by the extracted driver on the vertex order recovered from the "
    "implementation's output positions; bisections of lattices with duplicate vertex positions are counted and skipped",
]
ASSUMPTIONS = ["lattice without self-loops, all edge ends < n_vertices; u, J arbitrary (theorems), u in {-1,1}, J positive dyadic (runs)",
               "colour indices within range of J (numpy raises IndexError otherwise)"]

SJ = 64
VMAX = {"quick": 130, "thorough": 320}


# ------------------------------------------------------------------ argument forms (argforms.py)
# dtype / memory layout of u, J, the colouring, a vertex ordering and the Majorana matrix are not part of their value.  Only what
# is handed to koala is re-formed (form chosen from the values, so a failure replays); model and restatement get the plain values.
AF_FORMS = {
    "ujk": ["int64", "int8", "int16", "int32", "float64", "float32", "int64+readonly", "int8+readonly", "int64+strided", "int8+strided", "float64+strided"],
    "coloring": ["int64", "int8", "uint8", "int16", "int32", "intp", "int64+readonly", "int64+strided", "uint8+strided"],
    "J": ["float64", "float32", "float64+readonly", "float64+strided", "float32+strided", "int64", "int8", "int32+readonly"],   # int forms only when J is integer-valued
    "ordering": ["int64", "int8", "uint8", "int16", "int32", "intp", "int64+readonly", "int64+strided", "int16+strided", "int64+list"],
    "majorana_ham": ["complex128", "complex128+F", "complex128+strided", "complex128+readonly", "complex64", "complex64+F"],    # complex64 only when exact
}
AF_ALONG = ["int", "np.int64", "np.int32", "np.uint8", "np.intp"]
AF_EXCLUDED = {
    ("majorana_hamiltonian.ujk", "list/tuple"): "type hint npt.NDArray; with coloring=None `2*J[0]*ujk` raises TypeError for a sequence (works by broadcasting only when a colouring is given)",
    ("majorana_hamiltonian.coloring", "list/tuple/float array"): "type hint npt.NDArray[np.integer]; J[tuple] is multi-axis indexing (IndexError), float arrays are not indices",
    ("bisect_lattice.solution", "list/tuple"): "type hint npt.NDArray[np.integer]; `solution == along` on a list is the scalar False (no dimer edge selected: result silently differs) -- reported to the lead",
    ("majorana_hamiltonian.J", "list/tuple"): "type hint npt.NDArray[np.floating]; J[coloring] on a list raises TypeError",
    ("majorana_hamiltonian.J", "Python float"): "docstring says 'npt.NDArray[np.floating] or float' but a float raises TypeError ('float' object is not subscriptable) -- candidate defect reported to the lead, kept out of the generator",
    ("permute_vertices.ordering", "tuple/float array"): "type hint npt.NDArray[np.integer]; a tuple index means one index per axis (IndexError)",
    ("majorana_to_fermion_ham.majorana_ham", "list"): "type hint npt.NDArray; .shape is used",
}


def arg_forms(res, arg, values, *key):
    """`values` in the form handed to koala for argument `arg` (None stays None)"""
    for (a, f), why in AF_EXCLUDED.items():
        AF.exclude(res, a, f, why)
    if values is None:
        AF.note(res, arg, "None")
        return None
    if arg == "along":
        return AF.choose_scalar(res, "bisect_lattice.along", values, AF_ALONG, *key)
    base = {"ujk": np.int64, "coloring": np.int64, "ordering": np.int64, "J": np.float64, "majorana_ham": np.complex128}[arg]
    return AF.choose(res, arg, values, AF_FORMS[arg], *key, base=base)


def ser_ham(V, edges, col, u, Jz):
    t = ["ham", str(V), str(len(edges))]
    for j, k in edges:
        t += [str(int(j)), str(int(k))]
    if col is None:
        t.append("0")
    else:
        t += ["1", str(len(col))] + [str(int(c)) for c in col]
    t += [str(len(u))] + [hx(x) for x in u]
    t += [str(len(Jz))] + [hx(x) for x in Jz]
    return " ".join(t)


def ser_edges(edges):
    t = [str(len(edges))]
    for j, k in edges:
        t += [str(int(j)), str(int(k))]
    return t


def parse_zmat(toks):
    c = Cursor(toks)
    return c.list(lambda: c.list(c.z))


def bond_sum_py(V, edges, col, u, J):
    """the property's formula, independently: A4/SJ ... returns 4*H/i as exact Fractions"""
    A = [[Fraction(0)] * V for _ in range(V)]
    for e, (j, k) in enumerate(edges):
        Je = Fraction(float(J[col[e]])) if col is not None else Fraction(float(J[0]))
        h = 2 * Je * int(u[e])
        A[k][j] += h
        A[j][k] -= h
    return A


def spectrum(H):
    return np.linalg.eigvalsh((H + H.conj().T) / 2)


def build_case(c):
    arr, why = gen.try_build(c["lat"])
    if arr is None:
        return None
    pos, edges, crossing = arr
    rng = np.random.default_rng([c["seed"], len(pos), len(edges)])
    E = len(edges)
    u = rng.choice([-1, 1], size=E)
    J = rng.integers(1, 3 * SJ, size=3) / float(SJ)
    if c["seed"] % 4 == 0:
        J = np.ceil(J)          # integer-valued couplings (1..3): handed to koala also as integer arrays, see arg_forms
    mode = c["col"]
    col = None
    if mode == "random":
        col = rng.integers(0, 3, size=E)
    elif mode == "proper":
        try:
            from koala.graph_color import color_lattice
            col = np.asarray(color_lattice(Lattice(pos, edges, crossing)))
            if len(col) != E:
                col = rng.integers(0, 3, size=E)
        except Exception:
            col = rng.integers(0, 3, size=E)
    return pos, edges, crossing, u, J, col, rng


def cases(tier, seed):
    rng = np.random.default_rng([seed, 7])
    lats = gen.lattice_cases(tier, seed, exhaustive=False)
    # make sure the multigraph cells and small open lattices are there, several times
    extra = [{"family": "example", "name": "honeycomb_lattice", "args": [1]},
             {"family": "cut", "base": {"family": "example", "name": "honeycomb_lattice", "args": [2]}, "cut": [True, False]},
             {"family": "cut", "base": {"family": "example", "name": "honeycomb_lattice", "args": [3]}, "cut": [True, True]}]
    for n in (2, 3, 2, 3, 4):
        extra.append({"family": "voronoi", "style": "uniform", "n": n, "seed": int(rng.integers(0, 2**31)), "shift": True})
    small = [{"family": "edge_subset", "base": {"family": "small_base", "name": nm}, "keep": sorted(int(x) for x in rng.choice(ne, size=int(rng.integers(1, ne + 1)), replace=False))}
             for nm, ne in (("honeycomb1", 6), ("voronoi4", 12), ("two_triangles", 5)) for _ in range(3 if tier == "quick" else 12)]
    out = []
    for i, l in enumerate(extra + small + lats):
        out.append({"lat": l, "seed": int(rng.integers(0, 2**31)), "col": ["proper", "none", "random"][i % 3]})
        if i < len(extra):   # multigraph cells: every colouring mode
            for m in ("none", "random"):
                out.append({"lat": l, "seed": int(rng.integers(0, 2**31)), "col": m})
    return out


def evaluate(ctx, cs, label):
    res = ctx.res
    built, lines = [], []
    for c in cs:
        b = build_case(c)
        if b is None:
            res.skip("generator-could-not-build-base")
            continue
        pos, edges, crossing, u, J, col, rng = b
        V = len(pos)
        if V > VMAX[ctx.tier if ctx.tier in VMAX else "quick"]:
            res.skip("lattice-larger-than-size-cap")
            continue
        Jz = [int(Fraction(float(x)) * SJ) for x in J]
        built.append((c, b))
        lines.append(ser_ham(V, edges, col, u, Jz))
    outs = run_driver_parallel(ctx.exe["c07"], lines)
    ex = res.extra
    for k in ("multigraph_lattices", "open_lattices", "colouring_none", "colouring_given", "gauge_moves", "bisections", "bisections_perfect_matching", "fermion_forms"):
        ex.setdefault(k, 0)
    worst = ex.setdefault("worst_spectral_residual_over_tol", {})
    second = []   # (kind, case, payload, line)
    for (c, b), o in zip(built, outs):
        pos, edges, crossing, u, J, col, rng = b
        V, E = len(pos), len(edges)
        if "error" in o:
            raise RuntimeError(f"driver error {o['error']} on {c}")
        fam = c["lat"]["family"] + ("/" + c["lat"]["base"]["family"] if "base" in c["lat"] else "")
        if o["wf"] != ["1"]:
            res.skip("malformed-edge-index")
            continue
        if o["noloops"] != ["1"]:
            res.hist["malformed/self-loop"] = res.hist.get("malformed/self-loop", 0) + 1
            continue
        lat = Lattice(*layout_variant(pos, edges, crossing)[:3])
        pairs = [tuple(sorted(map(int, e))) for e in edges]
        multi = len(set(pairs)) < len(pairs)
        ex["multigraph_lattices"] += int(multi)
        ex["open_lattices"] += int(E > 0 and not np.any(crossing != 0))
        ex["colouring_none" if col is None else "colouring_given"] += 1
        res.count(fam + ("/multigraph" if multi else ""), digest([c]) if E > 0 else None)
        b_ = "V<=10" if V <= 10 else "V<=50" if V <= 50 else "V<=200" if V <= 200 else "V>200"
        hs = ex.setdefault("size_histogram", {})
        hs[b_] = hs.get(b_, 0) + 1

        def viol(key, what, extra=None):
            res.violation(key, f"V={V} E={E} colouring={'None' if col is None else 'given'}: {what}", dict(c, detail=extra))
        try:
            a_col, a_u, a_J = arg_forms(res, "coloring", col), arg_forms(res, "ujk", u), arg_forms(res, "J", J)
            H = hm.majorana_hamiltonian(lat, a_col, a_u, a_J)
            if not (np.array_equal(a_u, u) and np.array_equal(a_J, J) and (col is None or np.array_equal(a_col, col))):
                viol("argument-modified", "majorana_hamiltonian modified coloring / ujk / J")
        except Exception as e:
            viol("majorana-exception", f"{type(e).__name__}: {e}")
            continue
        H = np.asarray(H)
        if H.shape != (V, V):
            viol("shape", f"shape {H.shape}")
            continue
        # ---- S exact: entry-wise bond sum
        spec = bond_sum_py(V, edges, None if col is None else [int(x) for x in col], u, J)
        A_impl = H.imag * 4.0
        spec_f = np.array([[float(x) for x in row] for row in spec], dtype=float).reshape(V, V)
        bad = [(int(r), int(cc)) for r, cc in zip(*np.nonzero(np.abs(A_impl - spec_f) > 1e-12 * (1 + np.abs(spec_f))))]
        if bad:
            r, cc = bad[0]
            viol("bond-sum-entry", f"H[{r},{cc}] = {H[r, cc]!r} but the sum of bond terms gives (i/4)*{float(spec[r][cc])!r} "
                 f"({len(bad)} entries differ; parallel edges present: {multi})", {"entry": [r, cc]})
        if np.any(H.real != 0):
            viol("not-purely-imaginary", "H has a non-zero real part")
        if not np.array_equal(H, H.conj().T):
            viol("not-hermitian", "H != H^dagger")
        if not np.array_equal(H, -H.T):
            viol("not-antisymmetric", "H != -H^T")
        # ---- K: extracted model
        A_model = parse_zmat(o["A4"])
        res.traces += 1
        if o["bondsum_equal"] not in (["1"], ["skipped"]):
            ctx.k_mismatch(f"{label}: model ham_matrix differs from model bond_sum (theorem ham_is_bond_sum would be false)", c)
        okm = len(A_model) == V and all(len(r) == V for r in A_model) and all(
            A_model[r][cc] == spec[r][cc] * SJ for r in range(V) for cc in range(V))
        if not okm:
            ctx.k_mismatch(f"{label}: model A4 differs from the python restatement of the bond sum", c)
        # ---- spectra (numerical support)
        nrm = 1.0 + float(np.max(np.abs(H), initial=0)) * max(V, 1)
        tol = 1e-9 * nrm
        ev = spectrum(H)

        def spec_chk(key, a, bb, msg, extra=None):
            r = float(np.max(np.abs(np.sort(a) - np.sort(bb)), initial=0))
            worst[key] = max(worst.get(key, 0.0), r / tol)
            if r > tol:
                viol(key, f"{msg} (max eigenvalue difference {r:.3e}, tolerance {tol:.1e})", extra)
        spec_chk("spectrum-not-symmetric", ev, -ev, "spectrum is not symmetric about zero")
        # ---- gauge: all single-vertex moves (<= 40 vertices sampled beyond)
        verts = range(V) if V <= 40 else sorted(int(x) for x in rng.choice(V, size=40, replace=False))
        for v in verts:
            g = np.ones(V)
            g[v] = -1
            ug = (g[edges[:, 0]] * u * g[edges[:, 1]]).astype(int) if E else u
            Hg = np.asarray(hm.majorana_hamiltonian(lat, arg_forms(res, "coloring", col, v), arg_forms(res, "ujk", ug), arg_forms(res, "J", J, v)))
            ex["gauge_moves"] += 1
            if not np.array_equal(Hg, g[:, None] * H * g[None, :]):
                viol("gauge-not-DHD", f"H(u^g) != D H D for the gauge move at vertex {v}", {"vertex": v})
                break
            spec_chk("gauge-spectrum", spectrum(Hg), ev, f"spectrum changes under the gauge move at vertex {v}", {"vertex": v})
        # ---- relabelling
        order = rng.permutation(V)
        latp = permute_vertices(lat, arg_forms(res, "ordering", order))
        Hp = np.asarray(hm.majorana_hamiltonian(latp, arg_forms(res, "coloring", col, "p"), arg_forms(res, "ujk", u, "p"), arg_forms(res, "J", J, "p")))
        if not np.array_equal(np.asarray(latp.vertices.positions), pos[order]):
            viol("permute-positions", "permute_vertices: new positions[i] != positions[ordering[i]]")
        if not np.array_equal(Hp, H[np.ix_(order, order)]):
            viol("relabel-not-PHPt", "H(permute_vertices(L, s))[i,j] != H[s i, s j]", {"ordering": order.tolist()})
        spec_chk("relabel-spectrum", spectrum(Hp), ev, "spectrum changes under vertex relabelling")
        second.append(("permute", c, (np.asarray(latp.edges.indices).reshape(-1, 2), np.asarray(latp.edges.crossing).reshape(-1, 2), crossing),
                       " ".join(["permute", str(V)] + ser_edges(edges) + [str(V)] + [str(int(x)) for x in order])))
        # ---- bisection along each colour
        if col is not None and E > 0:
            uniq = len({(float(p[0]), float(p[1])) for p in pos}) == V
            for along in range(3):
                try:
                    latb = hm.bisect_lattice(lat, arg_forms(res, "coloring", col, "b", along), arg_forms(res, "along", along, col))
                except Exception as e:
                    viol("bisect-exception", f"bisect_lattice(along={along}): {type(e).__name__}: {e}")
                    continue
                ex["bisections"] += 1
                Hb = np.asarray(hm.majorana_hamiltonian(latb, arg_forms(res, "coloring", col, "hb", along), arg_forms(res, "ujk", u, "hb", along), arg_forms(res, "J", J, "hb", along)))
                spec_chk("bisect-spectrum", spectrum(Hb), ev, f"spectrum changes under bisection along colour {along}", {"along": along})
                if not uniq:
                    res.skip("bisect-ordering-not-recoverable(duplicate positions)")
                    continue
                index = {(float(p[0]), float(p[1])): i for i, p in enumerate(pos)}
                try:
                    ordb = [index[(float(p[0]), float(p[1]))] for p in np.asarray(latb.vertices.positions)]
                except KeyError:
                    viol("bisect-positions", f"bisect_lattice(along={along}) returns a position that is not a vertex of the lattice", {"along": along})
                    continue
                second.append(("bisect", dict(c, along=along), (np.asarray(latb.edges.indices).reshape(-1, 2), np.asarray(latb.edges.crossing).reshape(-1, 2), crossing, col, along),
                               " ".join(["bisect", str(V)] + ser_edges(edges) + [str(E)] + [str(int(x)) for x in col] + [str(along), str(V)] + [str(i) for i in ordb])))
                if V % 2 == 0 and V > 0:
                    fermion_checks(ctx, dict(c, along=along), Hb, V, second, spec_chk, viol, "bisected")
        if V % 2 == 0 and V > 0:
            fermion_checks(ctx, c, H, V, second, spec_chk, viol, "as-is")
        res.sample({"case": c, "V": V, "E": E, "multigraph": multi, "J": J.tolist(), "colouring": None if col is None else col.tolist()[:12],
                    "H[0]": [str(z) for z in H[0][:6]]})
    # ---- second driver pass: permute / bisect / fermion
    outs2 = run_driver_parallel(ctx.exe["c07"], [s[3] for s in second])
    for (kind, c, payload, _), o in zip(second, outs2):
        if "error" in o:
            raise RuntimeError(f"driver error {o['error']} on {kind} {c}")
        res.traces += 1
        if kind in ("permute", "bisect"):
            e_impl, cr_impl, cr0 = payload[0], payload[1], payload[2]
            cur = Cursor(o["edges"])
            e_model = cur.list(lambda: (cur.int(), cur.int()))
            same = [tuple(map(int, r)) for r in e_impl] == e_model
            if not np.array_equal(cr_impl, cr0):
                res.violation(kind + "-crossing-changed", f"{kind}: edge crossing array (edge order) changed", c)
        if kind == "permute":
            if o["isperm"] != ["1"]:
                raise RuntimeError("harness bug: ordering is not a permutation")
            if not same:
                res.violation("permute-edges", "permute_vertices: edge i is not (inverse_ordering[j], inverse_ordering[k]) of the old edge i (edge order / index map)", c)
        elif kind == "bisect":
            col, along = payload[3], payload[4]
            if o["argsort"] != ["1"]:
                ctx.k_mismatch(f"{label}: bisect_lattice: the vertex order is not an argsort of the model's sublattice labels", c)
            if not same:
                res.violation("bisect-edge-order", f"bisect_lattice(along={along}): edges are not the old edges, in the old order, under the vertex relabelling", c)
            if o["matching"] == ["1"]:
                res.extra["bisections_perfect_matching"] += 1
                nv = int(o["labels"][0])
                ends_ok = all((2 * int(a) < nv <= 2 * int(b)) for (a, b), cc in zip(e_impl, col) if int(cc) == along)
                if not ends_ok:
                    res.violation("bisect-halves", f"bisect_lattice(along={along}): colour class is a perfect matching but an edge of it has both ends in the same half", c)
                elif o["halves"] != ["1"] and same:
                    ctx.k_mismatch(f"{label}: model opposite_halves false although the implementation's edges are separated", c)
        elif kind == "fermion":
            Fm, V = payload
            n = V // 2
            cur = Cursor(o["F"])
            rows = cur.list(lambda: cur.list(lambda: (cur.z(), cur.z())))
            M = np.array([[complex(re, im) for re, im in r] for r in rows], dtype=complex).reshape(2 * n, 2 * n) / (4.0 * SJ)
            if Fm.shape != M.shape or np.max(np.abs(Fm - M), initial=0) > 1e-12 * (1 + np.max(np.abs(M), initial=0)):
                # decide S vs K by the independent restatement inside fermion_checks (already reported there if it failed)
                ctx.k_mismatch(f"{label}: majorana_to_fermion_ham differs from the model's block formula", c)
    if label.startswith("K("):
        # extraction cross-check: a sample of the driver's answers re-derived inside Coq
        coq_crosscheck(ctx, list(zip(lines, outs)) + [(s[3], o) for s, o in zip(second, outs2)])


# ------------------------------------------------------------------ extraction cross-check (DESIGN 1.3)
XCHECK_MAX_V = 40


def coq_crosscheck(ctx, sent):
    """sent: (line sent to the c07 driver, its answer) for every command of the K phase.  A small random sample per command
    (ham / permute / bisect / fermion, V <= 40) is re-derived INSIDE Coq: the line is read back into Gallina literals
    (nat decimal, Z hex, as the driver's grammar says) and every answer line must be what vm_compute gives for the model
    function the driver evaluates."""
    import xcheck as X
    quick = ctx.tier == "quick"
    rng = np.random.default_rng([ctx.seed, 7, 99])
    pools = {}
    for line, o in sent:
        t = line.split()
        if "error" not in o and int(t[1]) <= XCHECK_MAX_V:
            pools.setdefault(t[0], []).append((t, o))
    quota = {"ham": 8 if quick else 60, "permute": 3 if quick else 20, "bisect": 4 if quick else 30, "fermion": 3 if quick else 20}
    nl, bl = X.natlist, lambda o, k: X.boolean(o[k] == ["1"])
    edges_lit = lambda es: X.lst(X.natpair, es)
    body = []
    g = lambda lhs, rhs: body.append(X.goal(lhs, rhs))
    n_cases = {}
    for kind in ("ham", "permute", "bisect", "fermion"):
        pool = pools.get(kind, [])
        idx = sorted(rng.choice(len(pool), size=min(len(pool), quota[kind]), replace=False).tolist()) if pool else []
        n_cases[kind] = len(idx)
        for i in idx:
            t, o = pool[i]
            c = Cursor(t[1:])
            V = c.int()
            if kind == "fermion":
                A = c.list(lambda: c.list(c.z))
                cur = Cursor(o["F"])
                F = cur.list(lambda: cur.list(lambda: (cur.z(), cur.z())))
                g(f"fermion4 {X.nat(V)} {X.lst(X.zlist, A)}", X.lst(lambda r: X.lst(X.zpair, r), F))
                continue
            es = c.list(lambda: (c.int(), c.int()))
            ES = edges_lit(es)
            if kind == "ham":
                col = c.list(c.int) if c.int() == 1 else None
                u, J = c.list(c.z), c.list(c.z)
                COL = "None" if col is None else f"(Some {nl(col)})"
                g(f"(wf_edges {X.nat(V)} {ES}, no_loops {ES})", f"({bl(o, 'wf')}, {bl(o, 'noloops')})")
                A4 = X.lst(X.zlist, parse_zmat(o["A4"]))
                g(f"majorana4 {X.nat(V)} {ES} {COL} {X.zlist(u)} {X.zlist(J)}", A4)
                if o["bondsum_equal"] == ["1"]:      # the driver found bond_sum = A4 entry by entry (V <= 24)
                    g(f"map (fun r => map (bond_sum {ES} (hoppings {X.nat(len(es))} {COL} {X.zlist(u)} {X.zlist(J)}) r) (seq 0 {X.nat(V)})) (seq 0 {X.nat(V)})", A4)
            elif kind == "permute":
                ordering = c.list(c.int)
                cur = Cursor(o["edges"]); pe = cur.list(lambda: (cur.int(), cur.int()))
                cur = Cursor(o["inv"]); inv_ = cur.list(cur.int)
                g(f"(is_perm_of_range {X.nat(V)} {nl(ordering)}, inverse_ordering {X.nat(V)} {nl(ordering)})", f"({bl(o, 'isperm')}, {nl(inv_)})")
                g(f"permute_edges {X.nat(V)} {nl(ordering)} {ES}", edges_lit(pe))
            else:
                sol = c.list(c.int)
                along = c.int()
                ordering = c.list(c.int)
                cur = Cursor(o["labels"]); lab = cur.list(cur.int)
                cur = Cursor(o["edges"]); pe = cur.list(lambda: (cur.int(), cur.int()))
                SOL, AL, ORD = nl(sol), X.nat(along), nl(ordering)
                g(f"sublattice_labels {X.nat(V)} {ES} {SOL} {AL}", nl(lab))
                g(f"(is_argsort (sublattice_labels {X.nat(V)} {ES} {SOL} {AL}) {ORD}, perfect_matching {X.nat(V)} (dimer_edges {ES} {SOL} {AL}))",
                  f"({bl(o, 'argsort')}, {bl(o, 'matching')})")
                g(f"permute_edges {X.nat(V)} {ORD} {ES}", edges_lit(pe))
                g(f"opposite_halves {X.nat(V)} (dimer_edges (permute_edges {X.nat(V)} {ORD} {ES}) {SOL} {AL})", bl(o, "halves"))
            if not c.done():
                raise RuntimeError(f"extraction cross-check: could not read back the whole {kind} line")
    res = ctx.res
    res.extra["extraction_crosscheck_goals_vm_compute"] = X.compile_goals("c07", "Model.Ham", body, "c07")
    res.extra["extraction_crosscheck_cases"] = n_cases
    res.extra["extraction_crosscheck_wall_s"] = X.LAST_WALL


def fermion_checks(ctx, c, H, V, second, spec_chk, viol, tag):
    res = ctx.res
    n = V // 2
    try:
        # (a complex64 input gives a complex64 result with the same -- exactly representable -- entries; the harness' own
        #  eigvalsh below must not run in single precision, hence the cast of the RESULT)
        Fm = np.asarray(hm.majorana_to_fermion_ham(arg_forms(res, "majorana_ham", H, tag))).astype(complex)
    except Exception as e:
        viol("fermion-exception", f"majorana_to_fermion_ham ({tag}): {type(e).__name__}: {e}")
        return
    res.extra["fermion_forms"] += 1
    if Fm.shape != (V, V):
        viol("fermion-shape", f"fermionic form has shape {Fm.shape}")
        return
    eps = 1e-12 * (1 + float(np.max(np.abs(H), initial=0)))
    h, d, dl, hl = Fm[:n, :n], Fm[:n, n:], Fm[n:, :n], Fm[n:, n:]
    if np.max(np.abs(Fm - Fm.conj().T), initial=0) > eps:
        viol("fermion-not-hermitian", f"fermionic form ({tag}) is not Hermitian")
    if np.max(np.abs(hl + h.T), initial=0) > eps or np.max(np.abs(dl - d.conj().T), initial=0) > eps:
        viol("fermion-not-bdg", f"fermionic form ({tag}) is not of the form [[h, d], [d^dagger, -h^T]]")
    if np.max(np.abs(d + d.T), initial=0) > eps or np.max(np.abs(h - h.conj().T), initial=0) > eps:
        viol("fermion-not-bdg", f"fermionic form ({tag}): h is not Hermitian or d is not antisymmetric")
    # independent restatement: W (2H) W^-1 with W = [[1, i],[1, -i]] (x) I, W W^* = 2
    I = np.eye(n)
    W = np.block([[I, 1j * I], [I, -1j * I]])
    Fw = W @ (2 * H) @ W.conj().T / 2
    if np.max(np.abs(Fw - Fm), initial=0) > 1e-9 * (1 + float(np.max(np.abs(H), initial=0))):
        viol("fermion-not-W2HWinv", f"fermionic form ({tag}) differs from W (2H) W^-1, W = [[1,i],[1,-i]] (x) 1")
    spec_chk("fermion-spectrum-not-twice", np.linalg.eigvalsh((Fm + Fm.conj().T) / 2), 2 * np.linalg.eigvalsh((H + H.conj().T) / 2),
             f"spectrum of the fermionic form ({tag}) is not twice the Majorana spectrum")
    A4 = np.rint(H.imag * 4.0 * SJ).astype(object)
    t = ["fermion", str(V), str(V)]
    for r in range(V):
        t.append(str(V))
        t += [hx(int(x)) for x in A4[r]]
    second.append(("fermion", c, (Fm, V), " ".join(t)))


def run(ctx):
    ctx.res.rule = ("lattice families of DESIGN 1.5 without the exhaustive edge subsets (Voronoi 2..N seeds, cuts = open lattices, edge-deleted / vertex-isolated subgraphs, duals, tiled cells, "
                    "example graphs and tilings) plus the multigraph cells honeycomb_lattice(1), 2-4 seed Voronoi and random edge subsets of small bases; random u in {-1,1}^E, random positive dyadic J (k/64), "
                    "colouring proper (color_lattice) / random / None in rotation; all single-vertex gauge moves (40 sampled when V > 40), one random vertex permutation, bisection along each colour, "
                    "fermionic form of every even-V Hamiltonian; non-trivial = distinct case with at least one edge; lattices with self-loops are counted as malformed and skipped")
    evaluate(ctx, cases(ctx.tier, ctx.seed), "K(hamiltonian)")


def search(ctx):
    cs = cases("thorough", ctx.seed + 1)
    evaluate(ctx, cs[:400] if ctx.tier == "quick" else cs, "search")


def replay(ctx, payload):
    c = {k: v for k, v in payload["case"].items() if k in ("lat", "seed", "col")}
    evaluate(ctx, [c], "replay")
