"""Argument-form variation (shared primitives; every harness keeps its own small `arg_forms` helper that says WHICH
forms of WHICH argument are inside the documented input domain).

The FORM of an argument is not part of its value: the same numbers handed to koala as int8 / int64 / float64,
as a list / tuple / numpy array, C- / Fortran-ordered / strided / read-only, or an index given as a Python int /
numpy integer, must give the same result.  The form is chosen from a CRC of the case's content (never from a
random generator), so a failure replays; the model / the expected value always receives the plain values."""
import zlib
import numpy as np


def _kb(x):
    if isinstance(x, np.ndarray):
        return (str(x.shape) + "|").encode() + np.ascontiguousarray(x, dtype=(complex if np.iscomplexobj(x) else float)).tobytes()
    if isinstance(x, (list, tuple)):
        return b"[" + b",".join(_kb(v) for v in x) + b"]"
    if isinstance(x, (bool, np.bool_)):
        return b"b1" if x else b"b0"
    if isinstance(x, (int, np.integer)):
        return str(int(x)).encode()
    if isinstance(x, (float, np.floating)):
        return float(x).hex().encode()
    return repr(x).encode()


def pick(forms, *key):
    """deterministic choice among `forms` from the content of `key` (numbers, strings, nested lists, arrays)"""
    return forms[zlib.crc32(_kb(list(key))) % len(forms)]


RULE_NOTE = ("; every array / index argument is handed to the implementation in a form (dtype, list / tuple / array, C / Fortran / strided / read-only, "
             "Python int / numpy integer) chosen by a CRC of the case's content -- counts in coverage.argument_forms, forms outside the documented "
             "input domain in coverage.argument_forms_excluded; the model and the expected values always get the plain values")


def note(res, arg, form, n=1):
    d = res.extra.setdefault("argument_forms", {}).setdefault(arg, {})
    d[form] = d.get(form, 0) + n
    if res.rule and "coverage.argument_forms" not in res.rule:
        res.rule += RULE_NOTE


def exclude(res, arg, form, reason):
    res.extra.setdefault("argument_forms_excluded", {})[f"{arg}:{form}"] = reason


def strided(a):
    """non-contiguous view (stride 2 along the last axis) holding exactly a's values"""
    a = np.asarray(a)
    if a.ndim == 0:
        return a.copy()
    big = np.zeros(a.shape[:-1] + (2 * a.shape[-1],), dtype=a.dtype)
    big[..., ::2] = a
    return big[..., ::2]


def readonly(a):
    a = np.array(a)
    a.setflags(write=False)
    return a


DTYPES = {"int8": np.int8, "uint8": np.uint8, "int16": np.int16, "uint16": np.uint16, "int32": np.int32, "uint32": np.uint32,
          "int64": np.int64, "intp": np.intp, "float32": np.float32, "float64": np.float64, "complex64": np.complex64,
          "complex128": np.complex128, "bool": np.bool_}


def as_form(values, form, base=None):
    """`values` in the named form.  form = '+'-joined steps applied left to right:
    a dtype name of DTYPES (ValueError unless exact), 'C', 'F', 'strided', 'readonly', and last 'list' / 'tuple' (nested
    Python scalars of the current dtype) / 'listofarrays' / 'npscalars' (list of numpy scalars).  `base`: dtype applied first (default: numpy's own choice)."""
    a = np.array(values, dtype=base) if base is not None else np.array(values)
    for step in form.split("+"):
        if step in DTYPES:
            b = a.astype(DTYPES[step])
            if not np.array_equal(b, a):
                raise ValueError(f"form {form}: values do not fit {step} exactly")
            a = b
        elif step == "C":
            a = np.ascontiguousarray(a)
        elif step == "F":
            a = np.asfortranarray(a)
        elif step == "strided":
            a = strided(a)
        elif step == "readonly":
            a = readonly(a)
        elif step == "list":
            return a.tolist()
        elif step == "tuple":
            def tup(x):
                return tuple(tup(v) for v in x) if isinstance(x, list) else x
            return tup(a.tolist())
        elif step == "listofarrays":
            return [np.array(r) for r in a]
        elif step == "npscalars":         # Python list of numpy scalars (1-d) / of rows (n-d)
            return list(a)
        else:
            raise ValueError(f"unknown form step {step}")
    return a


SCALARS = {"int": int, "np.int8": np.int8, "np.uint8": np.uint8, "np.int16": np.int16, "np.int32": np.int32, "np.uint32": np.uint32,
           "np.int64": np.int64, "np.uint64": np.uint64, "np.intp": np.intp}


def scalar_form(i, form):
    """an integer index as a Python int / numpy integer scalar / 0-d array"""
    if form == "0d":
        return np.array(int(i))
    v = SCALARS[form](int(i))
    if int(v) != int(i):
        raise ValueError(f"{i} does not fit {form}")
    return v


def fits(values, form):
    try:
        as_form(values, form)
        return True
    except (ValueError, OverflowError):
        return False


def admissible(values, forms, base=None):
    """the forms whose dtype steps hold `values` exactly (e.g. int8 only when every value fits)"""
    a = np.array(values, dtype=base) if base is not None else np.array(values)
    ok = {}
    if a.dtype.kind in "iub":          # fast path for integer data: ranges instead of one cast per dtype
        lo, hi = (int(a.min()), int(a.max())) if a.size else (0, 0)
        for name, dt in DTYPES.items():
            if np.issubdtype(dt, np.integer):
                ok[name] = np.iinfo(dt).min <= lo and hi <= np.iinfo(dt).max
            elif name == "bool":
                ok[name] = 0 <= lo and hi <= 1
            else:
                ok[name] = max(-lo, hi) <= (2 ** 24 if name in ("float32", "complex64") else 2 ** 53)
    out = []
    for f in forms:
        good = True
        for step in f.split("+"):
            if step in DTYPES:
                if step not in ok:
                    with np.errstate(all="ignore"):
                        try:
                            ok[step] = bool(np.array_equal(a.astype(DTYPES[step]), a)) and not (
                                np.issubdtype(DTYPES[step], np.unsignedinteger) and a.size and np.min(a.real) < 0)
                        except (TypeError, ValueError, OverflowError):
                            ok[step] = False
                good = good and ok[step]
        if good:
            out.append(f)
    return out


def choose(res, name, values, forms, *key, base=None):
    """pick (deterministically from the values and `key`) one admissible form of `forms`, count it under `name`, return the re-formed values"""
    a = np.array(values, dtype=base) if base is not None else np.array(values)
    adm = admissible(a, forms) or ["C"]
    form = pick(adm, name, a, *key)
    note(res, name, form)
    return as_form(a, form)


def choose_scalar(res, name, i, forms, *key):
    adm = []
    for f in forms:
        try:
            scalar_form(i, f)
            adm.append(f)
        except (ValueError, OverflowError):
            pass
    form = pick(adm, name, int(i), *key)
    note(res, name, form)
    return scalar_form(i, form)
