"""C13 — dual and vertex-truncated lattices have the combinatorics that define them.

S: the property restated independently on the implementation's outputs (dual: vertices at centres mod 1,
   edges = two-sided edges in edge order, edge vector = true displacement under the half-cell condition
   evaluated by an independent unwrapping, plaquette census when the dual drawing is crossing-free,
   plot_dual == make_dual;  truncation: counts, original edges keep indices, vector identities
   (1-k/3)*vector and (w[u+1]-w[u])/3, corners in [0,1), degrees, plaquette census).
K: extracted Gallina models (coq/Model/Dual.v over Q, coq/Model/Truncate.v over Z with scale 3S) vs
   implementation: indices and crossings exactly, positions with tolerance."""
from lib import *  # noqa
import gen
import argforms as AF
from koala.lattice import Lattice, LatticeException, cut_boundaries
from koala.graph_utils import make_dual, vertices_to_polygon, remove_trailing_edges

DRIVERS = ("c13",)
MODEL_TARGETS = ["Model/Lattice.vo", "Model/Dual.vo", "Model/Truncate.vo"]
TARGETS = ["Proofs/DualFacts.vo", "Proofs/TruncateFacts.vo", "Proofs/TruncateDegrees.vo",
           "Proofs/TruncateFacesGeom.vo", "Proofs/TruncateFacesRot.vo", "Proofs/TruncateFaces.vo",
           "Proofs/TruncateFacesWinding.vo", "Proofs/TruncateOldFaces.vo", "Proofs/TruncateOldValid.vo"]
LEVEL = "proof"
TRUST = [
    "hand-written Gallina models coq/Model/Dual.v (make_dual over Q) and coq/Model/Truncate.v (vertices_to_polygon, statement by statement, in integer units of 1/(3*scale)): "
    "modelled, not verified; tied to the code by comparing indices and crossings exactly and positions to 1e-9 on every generated case",
    "numpy semantics transcribed by hand: np.where(...)[1] column extraction, fancy-index assignment, the VIEW semantics of added_crossing.append(crossing_around[u]), np.round = round-half-even, np.unique(axis=0)",
    "float effects: centres, '% 1', '// 1' and '/ 3' are computed in floats by the implementation and exactly by the models; inputs where an exact value is within 1e-9 of a rounding/flooring "
    "threshold (centre or corner on a cell line, centre difference at a half-integer) are counted and skipped for the exact comparison (the identities are still checked with tolerance)",
    "plaquette census clauses are checked on the implementation's own plaquette lists (tied to the model by C01); the crossing-free precondition is evaluated by a float segment-intersection test with margin 1e-12",
]
ASSUMPTIONS = ["lattices without self-loops; half-cell condition for the dual-vector clause and crossing-free drawings for the census clauses, evaluated per input (property preconditions)"]

TOL = 1e-9


def mk(pos, edges, crossing):
    return Lattice(*layout_variant(pos, edges, crossing)[:3])


def arr(lat):
    return (np.asarray(lat.vertices.positions, dtype=float).reshape(-1, 2), np.asarray(lat.edges.indices).astype(int).reshape(-1, 2),
            np.asarray(lat.edges.crossing).astype(int).reshape(-1, 2))


def plaq_list(lat):
    return [{"v": [int(x) for x in p.vertices], "e": [int(x) for x in p.edges], "d": [int(x) for x in p.directions],
             "c": np.array(p.center, dtype=float), "n": int(p.n_sides)} for p in lat.plaquettes]


# ------------------------------------------------------------------ geometry helpers (independent of koala)
def unwrapped_points(pos, edges, cr, p):
    """polygon of a plaquette walk: position of the tail of every dart, unwrapped from the first vertex"""
    pts = [pos[p["v"][0]].astype(float)]
    for e, d in zip(p["e"], p["d"]):
        j, k = edges[e]
        vec = pos[k] - pos[j] + cr[e]
        pts.append(pts[-1] + d * vec)
    return np.array(pts)          # n+1 points, last == first for a closed contractible walk


def centroid(pts):
    x, y = pts[:-1, 0], pts[:-1, 1]
    xn, yn = pts[1:, 0], pts[1:, 1]
    w = x * yn - xn * y
    a = w.sum() / 2
    return np.array([((x + xn) * w).sum(), ((y + yn) * w).sum()]) / (6 * a)


def crossing_free(P, Q, margin=1e-12):
    """segments P[i]->Q[i] on the torus (unit cell): True / False / None (= within margin of degenerate).
    Proper crossings only; segments sharing an end point (after translation) are allowed to touch there."""
    n = len(P)
    if n < 2:
        return True
    degenerate = False
    for sx in (-1, 0, 1):
        for sy in (-1, 0, 1):
            s = np.array([sx, sy], dtype=float)
            A, B = P[:, None, :], Q[:, None, :]
            C, D = (P + s)[None, :, :], (Q + s)[None, :, :]

            def orient(a, b, c):
                return (b[..., 0] - a[..., 0]) * (c[..., 1] - a[..., 1]) - (b[..., 1] - a[..., 1]) * (c[..., 0] - a[..., 0])
            o1, o2, o3, o4 = orient(A, B, C), orient(A, B, D), orient(C, D, A), orient(C, D, B)
            proper = (o1 * o2 < 0) & (o3 * o4 < 0)
            big = (np.abs(o1) > margin) & (np.abs(o2) > margin) & (np.abs(o3) > margin) & (np.abs(o4) > margin)
            if sx == 0 and sy == 0:
                proper &= ~np.eye(n, dtype=bool)
            if np.any(proper & big):
                return False
            # collinear overlaps / touching in the interior: treat tiny orientations with overlapping boxes as degenerate
            near = (~big) & (o1 * o2 <= margin) & (o3 * o4 <= margin)
            if sx == 0 and sy == 0:
                near &= ~np.eye(n, dtype=bool)
            # sharing an end point is fine
            def same(a, b):
                return np.all(np.abs(a - b) < 1e-12, axis=-1)
            share = same(A, C) | same(A, D) | same(B, C) | same(B, D)
            if np.any(near & ~share):
                degenerate = True
    return None if degenerate else True


# ------------------------------------------------------------------ S: dual
def spec_dual(inp, lat, D, res, check_plot):
    pos, edges, cr = inp
    bad = []
    P = plaq_list(lat)
    dp, de, dc = arr(D)
    dc_raw = np.asarray(D.edges.crossing)
    nP = len(P)
    if len(dp) != nP:
        return [("dual:vertex-count", f"dual has {len(dp)} vertices for {nP} plaquettes")], {}
    polys = [unwrapped_points(pos, edges, cr, p) for p in P]
    cents = [centroid(q) for q in polys]
    info = {"halfcell": None}
    for i, c in enumerate(cents):
        dlt = dp[i] - (c % 1)
        dlt -= np.round(dlt)
        if np.max(np.abs(dlt)) > TOL:
            bad.append(("dual:vertex-position", f"dual vertex {i} at {dp[i]} is not the plaquette centre {c} mod 1"))
            break
    cm = np.array(cents).reshape(-1, 2)
    generic_c = np.abs(cm - np.round(cm)) > 1e-9          # centre not on a cell line
    if np.any((dp < 0) | ((dp >= 1) & generic_c)):
        bad.append(("dual:vertex-range", "a dual vertex is outside [0,1)"))
    # two-sided edges in edge order
    fwd, bwd = {}, {}
    where = {}
    for n, p in enumerate(P):
        for i, (e, d) in enumerate(zip(p["e"], p["d"])):
            (fwd if d == 1 else bwd)[e] = n
            where[(e, d)] = (n, i)
    exp = [(fwd[e], bwd[e], e) for e in range(len(edges)) if e in fwd and e in bwd]
    if [(a, b) for a, b, _ in exp] != [tuple(int(x) for x in r) for r in de]:
        bad.append(("dual:edges", f"dual edges are not the two-sided edges (forward plaquette, backward plaquette) in edge order: expected {[(a, b) for a, b, _ in exp][:5]}, got {de[:5].tolist()}"))
        return bad, info
    if not np.array_equal(dc_raw, np.round(dc_raw)):
        bad.append(("dual:crossing-integrality", "dual crossings are not integers"))
    # true displacement by unwrapping through the shared edge
    ts = []
    for a, b, e in exp:
        j = int(edges[e][0])
        na, ia = where[(e, 1)]     # dart (e,+1): tail j at polys[a][ia]
        nb, ib = where[(e, -1)]    # dart (e,-1): tail k, head j at polys[b][ib+1]
        xa = polys[a][ia]
        xb = polys[b][ib + 1]
        delta = xa - xb
        ts.append((cents[b] + delta) - cents[a])
    ts = np.array(ts).reshape(-1, 2)
    if len(ts):
        m = np.max(np.abs(ts))
        info["halfcell_max"] = float(m)
        if m < 0.5 - 1e-7:
            info["halfcell"] = True
            vec = dp[de[:, 1]] - dp[de[:, 0]] + dc
            err = np.max(np.abs(vec - ts), axis=1)
            if np.any(err > TOL):
                i = int(np.argmax(err))
                bad.append(("dual:edge-vector", f"dual edge {i} {de[i].tolist()} has vector {vec[i]} but the true centre-to-centre displacement is {ts[i]}"))
        elif m > 0.5 + 1e-7:
            info["halfcell"] = False
    else:
        info["halfcell"] = True
    # census on closed lattices with a crossing-free dual drawing
    closed = len(exp) == len(edges) and len(edges) > 0
    info["closed"] = closed
    if closed and info["halfcell"] and not bad:
        A = dp[de[:, 0]]
        B = A + (dp[de[:, 1]] - dp[de[:, 0]] + dc)
        cf = crossing_free(A, B) if len(de) <= 700 else "lazy"
        info["crossing_free"] = cf
        if cf in (True, "lazy"):
            try:
                DP = plaq_list(D)
            except LatticeException:
                DP = None
            around = [[] for _ in range(len(pos))]
            for n, p in enumerate(P):
                for v in p["v"]:
                    around[v].append(n)
            want = sorted((len(a), tuple(sorted(a))) for a in around)
            coord_ok = all(len(around[v]) == int(lat.vertices.coordination_numbers[v]) for v in range(len(pos)))
            got = None if DP is None else sorted((q["n"], tuple(sorted(q["v"]))) for q in DP)
            if DP is None or got != want or not coord_ok:
                if cf == "lazy":
                    cf = crossing_free(A, B)
                if cf is True:
                    bad.append(("dual:census", f"closed lattice with crossing-free dual: dual has {None if DP is None else len(DP)} plaquettes for {len(pos)} vertices, or their sides differ from the coordination numbers"))
                else:
                    res.skip("dual census not evaluated: dual drawing has crossing edges or is degenerate")
            else:
                info["census_ok"] = True
        else:
            res.skip("dual census not evaluated: dual drawing has crossing edges or is degenerate")
    if check_plot:
        import matplotlib
        matplotlib.use("Agg")
        import matplotlib.pyplot as plt
        from koala import plotting
        fig, ax = plt.subplots()
        try:
            D2 = plotting.plot_dual(lat, ax=ax)
            same = all(np.array_equal(np.asarray(x), np.asarray(y)) for x, y in
                       zip((D2.vertices.positions, D2.edges.indices, D2.edges.crossing), (D.vertices.positions, D.edges.indices, D.edges.crossing)))
            if not same:
                bad.append(("dual:plot_dual", "plot_dual returns a lattice different from make_dual"))
        except Exception as e:
            bad.append(("dual:plot_dual", f"plot_dual raised {type(e).__name__}: {e}"))
        finally:
            plt.close(fig)
        info["plot_checked"] = True
    return bad, info


# ------------------------------------------------------------------ S: truncation
def outward(pos, edges, cr, v, e):
    j, k = int(edges[e][0]), int(edges[e][1])
    vec = pos[k] - pos[j] + cr[e]
    return vec if j == v else -vec


def spec_trunc(inp, lat, sel, out_lat, res):
    pos, edges, cr = inp
    V, E = len(pos), len(edges)
    p2, e2, c2 = arr(out_lat)
    bad = []
    info = {}
    inc = [[] for _ in range(V)]
    for e, (j, k) in enumerate(edges):
        inc[int(j)].append(e)
        if k != j:
            inc[int(k)].append(e)
    chosen = set(range(V)) if sel is None else set(int(x) for x in sel)
    T = [v for v in range(V) if v in chosen and len(inc[v]) > 2]
    Tset = set(T)
    info["n_truncated"] = len(T)
    dsum = sum(len(inc[v]) for v in T)
    if len(p2) != V + dsum - len(T) or len(e2) != E + dsum:
        return [("trunc:counts", f"{len(T)} truncated vertices with degree sum {dsum}: expected {V + dsum - len(T)} vertices / {E + dsum} edges, got {len(p2)} / {len(e2)}")], info
    # clockwise order of the incident edges (own computation: angle from 12 o'clock, clockwise)
    def cw(v):
        ws = [outward(pos, edges, cr, v, e) for e in inc[v]]
        ang = [np.arctan2(w[0], w[1]) % (2 * np.pi) for w in ws]       # clockwise angle from +y
        order = np.argsort(ang, kind="stable")
        return [inc[v][i] for i in order], [ws[i] for i in order]
    # index layout: vertices in order, a truncated vertex replaced by its d corners
    base = {}
    rt = 0
    for v in range(V):
        base[v] = rt
        rt += len(inc[v]) if v in Tset else 1
    vec_in = pos[edges[:, 1]] - pos[edges[:, 0]] + cr if E else np.zeros((0, 2))
    vec_out = p2[e2[:, 1]] - p2[e2[:, 0]] + c2 if len(e2) else np.zeros((0, 2))
    # untouched vertices keep their position; corners are inside [0,1)
    is_corner = np.zeros(len(p2), dtype=bool)
    for v in T:
        is_corner[base[v]:base[v] + len(inc[v])] = True
    for v in range(V):
        if v not in Tset and not np.array_equal(p2[base[v]], pos[v]):
            bad.append(("trunc:untouched-position", f"untouched vertex {v} moved"))
            break
    if np.any(p2[is_corner] < 0) or np.any(p2[is_corner] >= 1):
        bad.append(("trunc:corner-range", "a new corner lies outside [0,1)"))
    # original edges keep their indices: end points and vectors
    for e in range(E):
        j, k = int(edges[e][0]), int(edges[e][1])
        kk = (j in Tset) + (k in Tset)
        if np.max(np.abs(vec_out[e] - (1 - kk / 3) * vec_in[e])) > TOL:
            bad.append(("trunc:edge-vector", f"original edge {e} with {kk} truncated ends: vector {vec_out[e]} != (1-{kk}/3) * {vec_in[e]}"))
            break
        for col, v in ((0, j), (1, k)):
            got = int(e2[e][col])
            if v in Tset:
                okidx = base[v] <= got < base[v] + len(inc[v])
                target = pos[v] + outward(pos, edges, cr, v, e) / 3
                dl = p2[got] - target if okidx else np.array([1.0, 1.0])
                okpos = okidx and np.max(np.abs(dl - np.round(dl))) <= TOL
            else:
                okidx = got == base[v]
                okpos = okidx
            if not (okidx and okpos):
                bad.append(("trunc:edge-ends", f"original edge {e} column {col}: joins output vertex {got}, which is not {'the corner of' if v in Tset else ''} vertex {v} on this edge"))
                break
        if bad:
            break
    # polygon edges: block of d rows per truncated vertex, corner u -> corner u+1 clockwise
    off = E
    for v in T:
        es, ws = cw(v)
        d = len(es)
        # corner index of each incident edge = the column entry of the original edge at v
        corner = []
        for e in es:
            col = 0 if int(edges[e][0]) == v else 1
            corner.append(int(e2[e][col]))
        # the block holds, in some rotation of the clockwise order, the directed edges corner u -> corner u+1
        rows = {}
        for r in range(off, off + d):
            rows.setdefault((int(e2[r][0]), int(e2[r][1])), []).append(r)
        for u in range(d):
            exp_vec = (ws[(u + 1) % d] - ws[u]) / 3
            cand = rows.get((corner[u], corner[(u + 1) % d]), [])
            hit = [r for r in cand if np.max(np.abs(vec_out[r] - exp_vec)) <= TOL]
            if not hit:
                bad.append(("trunc:polygon-edge", f"vertex {v}: no polygon edge from corner {corner[u]} to the next corner clockwise {corner[(u + 1) % d]} with vector (w[u+1]-w[u])/3 = {exp_vec} "
                                                  f"(block rows {e2[off:off + d].tolist()}, vectors {vec_out[off:off + d].tolist()})"))
                break
            rows[(corner[u], corner[(u + 1) % d])].remove(hit[0])
        if sorted(corner) != list(range(base[v], base[v] + d)):
            bad.append(("trunc:corner-indices", f"vertex {v}: its corners are not the consecutive new indices {base[v]}..{base[v] + d - 1}"))
        off += d
        if bad:
            break
    # degrees
    deg2 = np.zeros(len(p2), dtype=int)
    for j, k in e2:
        deg2[j] += 1; deg2[k] += 1
    if np.any(deg2[is_corner] != 3):
        bad.append(("trunc:corner-degree", "a new corner does not have degree 3"))
    for v in range(V):
        if v not in Tset:
            dv = sum((int(edges[e][0]) == v) + (int(edges[e][1]) == v) for e in inc[v])
            if deg2[base[v]] != dv:
                bad.append(("trunc:untouched-degree", f"untouched vertex {v}: degree {dv} -> {deg2[base[v]]}"))
                break
    if bad:
        return bad, info
    # census: polygon as an extra plaquette, every old plaquette enlarged by one side per truncated corner
    try:
        P_in = plaq_list(lat)
        P_out = plaq_list(out_lat)
    except LatticeException:
        res.skip("truncation census not evaluated: plaquette finder raised")
        return bad, info
    cen = []
    by_dart = {}
    for n, q in enumerate(P_out):
        for e, d in zip(q["e"], q["d"]):
            by_dart[(e, d)] = n
    used = set()
    for p in P_in:
        n = by_dart.get((p["e"][0], p["d"][0]))
        extra = sum(1 for v in p["v"] if v in Tset)
        if n is None:
            cen.append(f"input plaquette on edges {p['e'][:6]} has no counterpart in the output")
            break
        q = P_out[n]
        old = [(e, d) for e, d in zip(q["e"], q["d"]) if e < E]
        i0 = old.index((p["e"][0], p["d"][0]))
        old = old[i0:] + old[:i0]
        if old != list(zip(p["e"], p["d"])) or q["n"] != p["n"] + extra:
            cen.append(f"input plaquette on edges {p['e'][:6]} ({p['n']} sides, {extra} truncated corners) became one with {q['n']} sides / different old edges")
            break
        used.add(n)
    off = E
    if not cen:
        for v in T:
            d = len(inc[v])
            blk = set(range(off, off + d))
            hit = [n for n, q in enumerate(P_out) if set(q["e"]) == blk and q["n"] == d]
            if len(hit) != 1:
                cen.append(f"truncated vertex {v} (degree {d}): {len(hit)} plaquettes consist of exactly its polygon edges")
                break
            used.add(hit[0])
            off += d
    if not cen and len(used) != len(P_out):
        cen.append(f"output has {len(P_out) - len(used)} plaquettes that are neither an enlarged old plaquette nor a new polygon")
    if cen:
        A = p2[e2[:, 0]]
        B = A + vec_out
        cf = crossing_free(A, B)
        A0 = pos[edges[:, 0]]
        cf0 = crossing_free(A0, A0 + vec_in)
        if cf is True and cf0 is True:
            bad.append(("trunc:census", cen[0]))
        else:
            res.skip("truncation census not evaluated: input or truncated drawing has crossing edges or is degenerate")
    else:
        info["census_ok"] = True
    return bad, info


# ------------------------------------------------------------------ model side
def ser_ops(ops):
    t = [str(len(ops))]
    for op in ops:
        if op["op"] == "dual":
            t.append("dual")
        else:
            sel = op["sel"]
            if sel is None:
                t += ["trunc", "N"]
            else:
                sel = [sel] if np.isscalar(sel) else list(sel)
                t += ["trunc", "L", str(len(sel))] + [str(int(i)) for i in sel]
    return " ".join(t)


def parse_dual(toks):
    if toks[0] in ("STUCK", "DUPLICATE"):
        return {"err": toks[0]}
    c = Cursor(toks)
    assert c.next() == "D"
    P = c.list(lambda: (Fraction(c.z(), c.z()), Fraction(c.z(), c.z())))
    Ed = c.list(lambda: (c.int(), c.int()))
    Cr = c.list(lambda: (c.z(), c.z()))
    return {"pos": P, "edges": Ed, "cr": Cr}


def parse_trunc(toks):
    if toks[0] == "ERR":
        return {"err": "ERR"}
    c = Cursor(toks)
    assert c.next() == "L"
    P = c.list(lambda: (c.z(), c.z()))
    Ed = c.list(lambda: (c.int(), c.int()))
    Cr = c.list(lambda: (c.z(), c.z()))
    return {"pos": P, "edges": Ed, "cr": Cr}


def k_dual(m, D, res):
    if "err" in m:
        return f"model returned {m['err']}, implementation returned a lattice"
    dp, de, dc = arr(D)
    if len(m["pos"]) != len(dp):
        return f"dual n_vertices model {len(m['pos'])} impl {len(dp)}"
    if [tuple(r) for r in m["edges"]] != [tuple(int(x) for x in r) for r in de]:
        return f"dual edge indices differ: model {m['edges'][:4]} impl {de[:4].tolist()}"
    mp = np.array([[float(x), float(y)] for x, y in m["pos"]]).reshape(-1, 2)
    dl = mp - dp
    wrapped = np.abs(dl - np.round(dl))
    if wrapped.size and np.max(wrapped) > TOL:
        i = int(np.argmax(np.max(wrapped, axis=1)))
        return f"dual vertex {i}: model {mp[i]} impl {dp[i]}"
    mc = np.array(m["cr"], dtype=float).reshape(-1, 2)
    if len(de):
        mv = mp[de[:, 1]] - mp[de[:, 0]] + mc
        iv = dp[de[:, 1]] - dp[de[:, 0]] + dc
        # exact comparison of crossings where no rounding threshold is near
        diff = mp[de[:, 0]] - mp[de[:, 1]]
        near_half = np.abs(diff - np.floor(diff) - 0.5) < 1e-9
        near_wrap = (np.abs(dl) > 0.5)[de[:, 0]] | (np.abs(dl) > 0.5)[de[:, 1]]
        generic = ~(near_half | near_wrap).any(axis=1)
        if np.any(~generic):
            res.skip("dual crossing not compared exactly: centre difference within 1e-9 of a half-integer or centre on a cell line")
        if np.any((mc != dc)[generic]):
            i = int(np.nonzero((mc != dc).any(axis=1) & generic)[0][0])
            return f"dual crossing of edge {i}: model {mc[i]} impl {dc[i]}"
        if np.max(np.abs(mv - iv)[generic]) > TOL if np.any(generic) else False:
            return "dual edge vectors differ"
    return None


def dual_generic(P, E):
    """no centre difference along a dual edge is within 1e-9 of a half-integer (np.round threshold)"""
    if len(E) == 0:
        return True
    E = np.array(E, dtype=int).reshape(-1, 2)
    diff = P[E[:, 0]] - P[E[:, 1]]
    return not bool(np.any(np.abs(diff - np.floor(diff) - 0.5) < 1e-9))


def k_trunc(m, out_lat, S, n_orig_edges=None):
    if "err" in m:
        return f"model returned {m['err']}, implementation returned a lattice"
    p2, e2, c2 = arr(out_lat)
    if len(m["pos"]) != len(p2):
        return f"n_vertices model {len(m['pos'])} impl {len(p2)}"
    if n_orig_edges is not None and len(m["edges"]) == len(e2) and len(m["cr"]) == len(c2):
        # the property fixes the indices of the ORIGINAL edges only; the sides of the new polygons come after them in an
        # order the statement leaves open: compare that tail as a multiset of (i, j, crossing) rows
        k = n_orig_edges
        mrows = sorted((tuple(r) + tuple(c)) for r, c in zip(m["edges"][k:], m["cr"][k:]))
        irows = sorted((tuple(int(x) for x in r) + tuple(int(x) for x in c)) for r, c in zip(e2[k:], c2[k:]))
        if mrows == irows:
            m = dict(m, edges=list(m["edges"][:k]) + [tuple(int(x) for x in r) for r in e2[k:]], cr=list(m["cr"][:k]) + [tuple(int(x) for x in r) for r in c2[k:]])
    if [tuple(r) for r in m["edges"]] != [tuple(int(x) for x in r) for r in e2]:
        bad = [i for i, (a, b) in enumerate(zip(m["edges"], e2)) if tuple(a) != tuple(int(x) for x in b)]
        return f"edge indices differ at rows {bad[:5]}: model {[m['edges'][i] for i in bad[:3]]} impl {[e2[i].tolist() for i in bad[:3]]}"
    if [tuple(r) for r in m["cr"]] != [tuple(int(x) for x in r) for r in c2]:
        bad = [i for i, (a, b) in enumerate(zip(m["cr"], c2)) if tuple(a) != tuple(int(x) for x in b)]
        return f"crossings differ at rows {bad[:5]}: model {[m['cr'][i] for i in bad[:3]]} impl {[c2[i].tolist() for i in bad[:3]]}"
    den = 3 * S
    mp = np.array([[float(Fraction(x, den)), float(Fraction(y, den))] for x, y in m["pos"]]).reshape(-1, 2)
    if mp.size and np.max(np.abs(mp - p2)) > TOL:
        i = int(np.argmax(np.max(np.abs(mp - p2), axis=1)))
        return f"position {i}: model {mp[i]} impl {p2[i]}"
    return None


def corner_margin(pos, edges, cr, sel):
    """smallest distance of an unwrapped new corner coordinate from an integer"""
    V = len(pos)
    m = 1.0
    chosen = set(range(V)) if sel is None else set(int(x) for x in sel)
    inc = [[] for _ in range(V)]
    for e, (j, k) in enumerate(edges):
        inc[int(j)].append(e)
        if k != j:
            inc[int(k)].append(e)
    for v in chosen:
        if 0 <= v < V and len(inc[v]) > 2:
            for e in inc[v]:
                c = pos[v] + outward(pos, edges, cr, v, e) / 3
                m = min(m, float(np.min(np.abs(c - np.round(c)))))
    return m


# ------------------------------------------------------------------ argument forms (argforms.py)
# vertices_to_polygon(lattice, vertices): "either an index ... or a list of indices" (type hint np.ndarray, default None).  The
# selected SET is what matters: a Python int / numpy integer scalar, a list / tuple / array of any integer dtype and memory
# layout, in another order or with repeats, denote the same selection.  The model and the restatement get op["sel"] as is.
AF_SEL_SCALAR = ["int", "np.int64", "np.int32", "np.int16", "np.int8", "np.uint8", "np.uint32", "np.uint64", "np.intp"]
AF_SEL_SEQ = ["int64+list", "int64+tuple", "int64", "int8", "uint8", "int16", "int32", "uint32", "intp", "int64+readonly", "int32+strided", "int64+npscalars"]
AF_EXCLUDED = {("vertices_to_polygon.vertices", "boolean mask"): "not documented (an index or a list of indices); `n in mask` tests values, not positions",
               ("vertices_to_polygon.vertices", "0-d array"): "not documented; kept out (works today through `n in array`)"}


def arg_forms(res, sel, form, *key):
    """the selection handed to vertices_to_polygon; `form` is the generator's own hint (scalar / array / list)"""
    for (a, f), why in AF_EXCLUDED.items():
        AF.exclude(res, a, f, why)
    if sel is None:
        AF.note(res, "vertices_to_polygon.vertices", "None")
        return None
    if form == "scalar":
        return AF.choose_scalar(res, "vertices_to_polygon.vertices(index)", sel, AF_SEL_SCALAR, *key)
    vals = list(sel)
    if len(vals) >= 2 and AF.pick([0, 1, 2], "dup", vals, *key) == 0:
        vals = vals[::-1] + vals[:2]                  # same set: other order, two repeats
        AF.note(res, "vertices_to_polygon.vertices(order)", "reversed+2 repeats")
    return AF.choose(res, "vertices_to_polygon.vertices", vals, AF_SEL_SEQ, *key, base=np.int64)


# ------------------------------------------------------------------ cases
def make_ops(pos, edges, rng, mode):
    V = len(pos)
    ops = []
    if mode in ("both", "dual"):
        ops.append({"op": "dual"})
    if mode in ("both", "trunc") and V:
        ops.append({"op": "trunc", "sel": None})
        ops.append({"op": "trunc", "sel": int(rng.integers(0, V)), "form": "scalar"})
        ops.append({"op": "trunc", "sel": [int(rng.integers(0, V))]})
        k = int(rng.integers(1, V + 1))
        ops.append({"op": "trunc", "sel": [int(x) for x in rng.choice(V, size=k, replace=False)]})
        ops.append({"op": "trunc", "sel": [int(x) for x in rng.choice(V, size=min(V, 3), replace=False)], "form": "array"})
        ops.append({"op": "trunc", "sel": []})
    return ops


def nudge_corner_to_cell_line(arrs, seed):
    """translate the whole periodic lattice (positions mod 1, crossings adjusted so that every edge vector is unchanged) so that ONE
    future truncation corner pos[v] + vec/3 lands 5e-11 below a cell line: still strictly inside its cell, the cell offset of that
    corner is floor(corner), nothing else.  Returns None when no vertex of degree > 2 exists or rounding spoils the placement."""
    pos, edges, cr = (np.array(a, copy=True) for a in arrs)
    rng = np.random.default_rng([seed, 1313])
    V = len(pos)
    inc = [[] for _ in range(V)]
    for e, (j, k) in enumerate(edges):
        inc[int(j)].append(e)
        if k != j:
            inc[int(k)].append(e)
    cand = [v for v in range(V) if len(inc[v]) > 2]
    if not cand:
        return None
    v = cand[int(rng.integers(0, len(cand)))]
    e = inc[v][int(rng.integers(0, len(inc[v])))]
    ax = int(rng.integers(0, 2))
    c = pos[v] + outward(pos, edges, cr, v, e) / 3
    t = np.zeros(2)
    t[ax] = (-5e-11 - c[ax]) % 1.0
    fl = np.floor(pos + t)
    newpos = (pos + t) - fl
    newcr = cr + (fl[edges[:, 1]] - fl[edges[:, 0]]).astype(int)
    if np.any(newpos < 0) or np.any(newpos >= 1):
        return None
    c2 = newpos[v] + outward(newpos, edges, newcr, v, e) / 3
    f = c2[ax] - np.floor(c2[ax])
    if not (1 - 1e-10 < f < 1 - 1e-11):
        return None
    return newpos, edges, newcr


def build_case(case):
    arrs, why = gen.try_build(case["lattice"])
    if arrs is None:
        return None
    for step in case.get("pre", []):
        if step[0] == "nudge":
            arrs = nudge_corner_to_cell_line(arrs, step[1])
            if arrs is None:
                return None
            continue
        lat = mk(*arrs)
        if step[0] == "cut":
            lat = cut_boundaries(lat, list(step[1]))
        elif step[0] == "trail":
            lat = remove_trailing_edges(lat)
        elif step[0] == "trunc":
            lat = vertices_to_polygon(lat, None if step[1] is None else np.array(step[1], dtype=int))
        elif step[0] == "dual":
            if lat.n_plaquettes == 0:
                return None        # make_dual needs at least one plaquette (outside the property's input space)
            lat = make_dual(lat)
        arrs = arr(lat)
    return arrs


def case_list(tier, seed):
    rng = np.random.default_rng([seed, 13])
    quick = tier == "quick"
    cases = []
    vor = []
    for i in range(40 if quick else 200):
        style = gen.POINT_STYLES[i % len(gen.POINT_STYLES)]
        n = int(rng.integers(4, 25)) if i % 3 == 0 else int(rng.integers(12, 70 if quick else 150))
        vor.append({"family": "voronoi", "style": style, "n": n, "seed": int(rng.integers(0, 2**31)), "shift": bool(i % 2)})
    til = []
    for n in range(1, (5 if quick else 9)):
        til.append({"family": "example", "name": "honeycomb_lattice", "args": [n]})
    for n in range(1, (3 if quick else 5)):
        til.append({"family": "example", "name": "hex_square_oct_lattice", "args": [n]})
        til.append({"family": "example", "name": "tri_non_lattice", "args": [n]})
    for nx, ny in [(2, 2), (3, 3), (3, 4), (5, 4)] + ([(7, 7), (8, 3)] if not quick else []):
        til.append({"family": "example", "name": "square_lattice", "args": [nx, ny]})
    ex = [{"family": "example", "name": n} for n in ("two_triangles", "tri_square_pent", "tutte_graph", "bridge_graph", "concave_plaquette", "star_lattice_sheared")]
    for n in (3, 5, 8, 12):
        ex.append({"family": "example", "name": "higher_coordination_number_example", "args": [n]})
    for b in vor + til:
        cases.append({"lattice": b, "mode": "both"})
    for i, b in enumerate(vor + til):
        cut = [[True, True], [True, False], [False, True]][i % 3]
        cases.append({"lattice": b, "pre": [["cut", cut]], "mode": "both"})
        if i % 4 == 0:
            cases.append({"lattice": b, "pre": [["cut", [True, True]], ["trail"]], "mode": "both"})
        if i % 4 == 1:
            cases.append({"lattice": b, "pre": [["trunc", None]], "mode": "trunc"})        # truncation followed by truncation
        if i % 4 == 2:
            cases.append({"lattice": b, "pre": [["dual"]], "mode": "both"})                  # triangulations: high degree
        if i % 4 == 3:
            k = int(rng.integers(0, 2**31))
            cases.append({"lattice": b, "pre": [["trunc", "random", k]], "mode": "trunc"})
    # one truncation corner a hair (5e-11) below a cell line: its cell offset is floor(corner), whatever the margin
    for i, b in enumerate((vor + til)[: (16 if quick else 80)]):
        cases.append({"lattice": b, "pre": [["nudge", int(rng.integers(0, 2**31))]], "mode": "trunc"})
    for b in ex:
        cases.append({"lattice": b, "mode": "both"})
    # small irregular lattices of C01's space (edge-deleted / tiled), truncation only
    for i, b in enumerate(vor[: (10 if quick else 60)]):
        cases.append({"lattice": {"family": "edge_deleted", "base": b, "frac": 0.85, "seed": int(rng.integers(0, 2**31))}, "mode": "trunc"})
        cases.append({"lattice": {"family": "tiled", "base": b, "nxy": [2, 1 + i % 2]}, "mode": "both"} if b["n"] <= 30 else
                     {"lattice": {"family": "edge_deleted", "base": b, "frac": 0.95, "seed": int(rng.integers(0, 2**31))}, "mode": "both"})
    return cases


def resolve_pre(case):
    """replace the symbolic 'random' truncation selection by an explicit list (needs the lattice size)"""
    pre = []
    for step in case.get("pre", []):
        if step[0] == "trunc" and len(step) == 3 and step[1] == "random":
            base = build_case(dict(case, pre=pre))
            if base is None:
                return None
            V = len(base[0])
            r = np.random.default_rng([step[2], V])
            pre.append(["trunc", [int(x) for x in r.choice(V, size=max(1, V // 2), replace=False)]])
        else:
            pre.append(step)
    return dict(case, pre=pre)


# ------------------------------------------------------------------ evaluation
def evaluate(ctx, cases, label):
    res = ctx.res
    built, lines = [], []
    for c in cases:
        try:
            c = resolve_pre(c)
            arrs = build_case(c) if c is not None else None
        except Exception as e:
            msg = str(e)
            if "Dual is not currently designed" in msg:
                res.skip("preparation: dual of a too-small lattice")
                continue
            res.count("prep-failed")
            res.violation("preparation-raised", f"{type(e).__name__}: {e}", c)
            continue
        if arrs is None:
            res.skip("generator-could-not-build-base")
            continue
        pos, edges, cr = arrs
        if np.any(edges[:, 0] == edges[:, 1]):
            res.skip("self-loops (outside the property's input space)")
            continue
        if "ops" not in c:
            rng = np.random.default_rng([ctx.seed, len(pos), len(edges), 131])
            c = dict(c, ops=make_ops(pos, edges, rng, c.get("mode", "both")))
        line, S = ser_lattice_arrays(pos, edges, cr)
        built.append((c, arrs, S))
        lines.append("c13 " + line + " " + ser_ops(c["ops"]))
    outs = run_driver_parallel(ctx.exe["c13"], lines)
    st = res.extra.setdefault("stats", {})

    def bump(k, n=1):
        st[k] = st.get(k, 0) + n
    for (c, (pos, edges, cr), S), o in zip(built, outs):
        if "error" in o:
            raise RuntimeError(f"driver error {o['error']} on {c}")
        fam = c["lattice"]["family"] + ("+" + "+".join(s[0] for s in c["pre"]) if c.get("pre") else "")
        lat = mk(pos, edges, cr)
        hs = res.extra.setdefault("size_histogram", {})
        b = "V<=10" if len(pos) <= 10 else "V<=50" if len(pos) <= 50 else "V<=200" if len(pos) <= 200 else "V>200"
        hs[b] = hs.get(b, 0) + 1
        try:
            nP = lat.n_plaquettes
            degenerate_area = any(abs(p.center[0]) == np.inf or np.isnan(p.center).any() for p in lat.plaquettes)
        except LatticeException:
            res.skip("plaquette finder raised on the input")
            continue
        if angular_margin(lat) < 1e-9:
            res.skip("nongeneric-angular-margin<1e-9")
            continue
        for i, op in enumerate(c["ops"]):
            one = {"lattice": c["lattice"], "pre": c.get("pre", []), "ops": [op], "mode": c.get("mode", "both")}
            toks = o[f"o{i}"]
            if op["op"] == "dual":
                if nP == 0 or degenerate_area:
                    res.skip("dual: lattice without plaquettes / zero-area plaquette (outside the property's input space)")
                    continue
                m = parse_dual(toks)
                try:
                    D = make_dual(lat)
                except Exception as e:
                    if "Dual is not currently designed" in str(e):
                        res.count(fam + "/dual-guard")
                        bump("dual_guard_raised")
                        if m.get("err") != "DUPLICATE":
                            # ties in np.round can make the guard fire on one side only: report only when no centre
                            # difference is within 1e-9 of a half-integer
                            if "pos" in m and dual_generic(np.array([[float(x), float(y)] for x, y in m["pos"]]).reshape(-1, 2), m["edges"]):
                                ctx.k_mismatch(f"{label}: implementation's duplicate-edge guard fired, the model returned a dual", one)
                            else:
                                res.skip("dual guard fired on the implementation only (half-integer tie)")
                        continue
                    res.count(fam + "/dual")
                    res.violation("dual:raised", f"make_dual raised {type(e).__name__}: {e}", one)
                    continue
                bad, info = spec_dual((pos, edges, cr), lat, D, res, check_plot=(st.get("plot_dual_checked", 0) < (25 if ctx.tier == "quick" else 150)))
                if info.get("plot_checked"):
                    bump("plot_dual_checked")
                nontriv = digest([pos.tolist(), edges.tolist(), cr.tolist(), "dual"]) if (info.get("halfcell") and D.n_edges > 0) else None
                res.count(fam + "/dual", nontriv)
                bump("dual_halfcell_true" if info.get("halfcell") else "dual_halfcell_false_or_marginal")
                if info.get("closed"):
                    bump("dual_closed")
                if info.get("census_ok"):
                    bump("dual_census_ok")
                res.traces += 1
                if "err" in m and m["err"] == "DUPLICATE":
                    dpos, dedges, _ = arr(D)
                    if dual_generic(dpos, [tuple(r) for r in dedges]):
                        ctx.k_mismatch(f"{label}: the model's duplicate-edge guard fired, the implementation returned a dual", one)
                    else:
                        res.skip("dual guard fired on the model only (half-integer tie)")
                else:
                    diff = k_dual(m, D, res)
                    if diff:
                        ctx.k_mismatch(f"{label}: {diff}", one)
                seen = set()
                for key, what in bad:
                    if key not in seen:
                        seen.add(key)
                        res.violation(key, what, one)
                if nontriv:
                    res.sample({"case": one, "V": len(pos), "E": len(edges), "plaquettes": nP, "dual_E": int(D.n_edges), "info": info})
            else:
                sel = op["sel"]
                form = op.get("form")
                arg = arg_forms(res, sel, form, len(pos), len(edges))
                try:
                    out_lat = vertices_to_polygon(lat, arg)
                except Exception as e:
                    res.count(fam + "/trunc")
                    chosen = range(len(pos)) if sel is None else ([sel] if form == "scalar" else sel)
                    n_tr = sum(1 for v in set(int(x) for x in chosen) if 0 <= v < len(pos) and len(lat.vertices.adjacent_edges[v]) > 2)
                    if n_tr == 0 and isinstance(e, ValueError) and "same number of dimensions" in str(e):
                        res.violation("trunc:nothing-to-truncate-raises", f"vertices_to_polygon({'None' if sel is None else sel}) with no selected vertex of degree > 2 "
                                      f"(the result should be the unchanged lattice) raised ValueError: {e}", one)
                    else:
                        res.violation("trunc:raised", f"vertices_to_polygon({'None' if sel is None else sel}) raised {type(e).__name__}: {e}", one)
                    continue
                sel_list = None if sel is None else ([sel] if form == "scalar" else list(sel))
                bad, info = spec_trunc((pos, edges, cr), lat, sel_list, out_lat, res)
                crosses = False
                if info.get("n_truncated"):
                    p2, e2, c2 = arr(out_lat)
                    crosses = bool(np.any(c2[len(edges):] != 0))
                nontriv = digest([pos.tolist(), edges.tolist(), cr.tolist(), op]) if info.get("n_truncated") else None
                res.count(fam + "/trunc", nontriv)
                bump("trunc_with_corner_across_boundary" if crosses else "trunc_without_corner_across_boundary")
                if info.get("census_ok"):
                    bump("trunc_census_ok")
                m = parse_trunc(toks)
                mg = corner_margin(pos, edges, cr, sel_list)
                if mg < 1e-9:
                    res.skip("truncation not compared exactly: a new corner within 1e-9 of a cell line")
                else:
                    res.traces += 1
                    diff = k_trunc(m, out_lat, S, n_orig_edges=len(edges))
                    if diff:
                        ctx.k_mismatch(f"{label}: trunc {('None' if sel is None else sel_list[:6])}: {diff}", one)
                seen = set()
                for key, what in bad:
                    if key not in seen:
                        seen.add(key)
                        if mg < 1e-9 and key in ("trunc:corner-range",):
                            continue
                        res.violation(key, what, one)
                if nontriv:
                    res.sample({"case": one, "V": len(pos), "E": len(edges), "out_V": int(out_lat.n_vertices), "out_E": int(out_lat.n_edges), "info": info})
    if label.startswith("K("):
        coq_crosscheck(ctx, built, outs)     # extraction cross-check: a sample of the driver's answers re-derived inside Coq


def coq_crosscheck(ctx, built, outs, max_v=40):
    """Extraction cross-check (DESIGN 1.3): for a small random sample of the lattices sent to the c13 driver (V <= 40) the driver's
    answers (make_dual: positions as the exact, un-normalised fractions the extracted code leaves, edges, crossings, or
    STUCK / DUPLICATE; vertices_to_polygon for up to three of the selections: arrays in units of 1/(3*scale), or ERR) are
    re-derived INSIDE Coq by vm_compute on the same lattice and selection literals and must coincide."""
    import xcheck as X
    quick = ctx.tier == "quick"
    rng = np.random.default_rng([ctx.seed, 13, 99])
    small = [i for i, ((c, (pos, edges, cr), S), o) in enumerate(zip(built, outs)) if "error" not in o and 3 <= len(pos) <= max_v]
    idx = sorted(rng.choice(small, size=min(len(small), 8 if quick else 70), replace=False).tolist()) if small else []
    nl = X.natlist
    lat3 = lambda P, Ed, Cr: f"({X.lst(X.zpair, P)}, {X.lst(X.natpair, Ed)}, {X.lst(X.zpair, Cr)})"
    body = [
        "Definition lat3 (L : lattice) := (pos L, edges L, crossing L).",
        "Definition qpair (q : Q) : Z * Z := (Qnum q, Zpos (Qden q)).",
        # STUCK / DUPLICATE / the dual, as the driver prints the three cases of make_dual
        "Definition dual3 (L : lattice) := match make_dual L with DualStuck => inl 0%nat | DualDuplicate => inl 1%nat",
        "  | DualOk D => inr (map (fun p => (qpair (fst p), qpair (snd p))) (qpos D), qedges D, qcrossing D) end.",
    ]
    g = lambda lhs, rhs: body.append(X.goal(lhs, rhs))
    n_ops = {"dual": 0, "trunc": 0}
    for n, i in enumerate(idx):
        (c, (pos, edges, cr), S), o = built[i], outs[i]
        L = f"L{n}"
        body.append(f"Definition {L} : lattice := {X.lattice(pos, edges, cr, S)}.")
        g(f"(wf_lattice {L}, no_self_loops {L})", f"({X.boolean(o['wf'][0] == '1')}, {X.boolean(o['noloops'][0] == '1')})")
        tr = [j for j, op in enumerate(c["ops"]) if op["op"] != "dual"]
        tr = sorted(rng.choice(tr, size=min(len(tr), 3), replace=False).tolist()) if tr else []
        for j, op in enumerate(c["ops"]):
            toks = o[f"o{j}"]
            if op["op"] == "dual":
                if toks[0] in ("STUCK", "DUPLICATE"):
                    g(f"dual3 {L}", "inl 0%nat" if toks[0] == "STUCK" else "inl 1%nat")
                else:
                    cu = Cursor(toks[1:])
                    P = cu.list(lambda: ((cu.z(), cu.z()), (cu.z(), cu.z())))      # (num, den) pairs exactly as printed
                    Ed = cu.list(lambda: (cu.int(), cu.int()))
                    Cr = cu.list(lambda: (cu.z(), cu.z()))
                    g(f"dual3 {L}", f"inr ({X.lst(X.pair(X.zpair, X.zpair), P)}, {X.lst(X.natpair, Ed)}, {X.lst(X.zpair, Cr)})")
                n_ops["dual"] += 1
            elif j in tr:
                sel = op["sel"]
                vs = "None" if sel is None else f"(Some {nl([sel] if np.isscalar(sel) else list(sel))})"
                m = parse_trunc(toks)
                g(f"option_map lat3 (vertices_to_polygon {L} {vs})", "None" if "err" in m else f"Some {lat3(m['pos'], m['edges'], m['cr'])}")
                n_ops["trunc"] += 1
    res = ctx.res
    res.extra["extraction_crosscheck_goals_vm_compute"] = X.compile_goals("c13", "Model.Lattice Model.Dual Model.Truncate", body, "c13", stdlib="List ZArith Bool QArith")
    res.extra["extraction_crosscheck_cases"] = dict(n_ops, lattices=len(idx))
    res.extra["extraction_crosscheck_wall_s"] = X.LAST_WALL


def run(ctx):
    ctx.res.rule = ("periodic Voronoi lattices (4..70 seeds quick, ..150 thorough; six point styles, both shift settings), honeycomb / hex-square-oct / tri-non / square tilings, "
                    "their x / y / xy cuts, cut+trailing-edge removal, duals (triangulations), already truncated lattices (truncation twice), example graphs, edge-deleted and tiled lattices; "
                    "per lattice: make_dual, and vertices_to_polygon with None / scalar / one-element list / random subset (list and ndarray) / empty list. "
                    "non-trivial = dual of a lattice meeting the half-cell condition with >= 1 dual edge; truncation that truncates >= 1 vertex")
    evaluate(ctx, case_list(ctx.tier, ctx.seed), "K(dual/truncate)")


def search(ctx):
    evaluate(ctx, case_list("thorough" if ctx.tier != "quick" else "quick", ctx.seed + 1), "search")


def replay(ctx, payload):
    evaluate(ctx, [payload["case"]], "replay")
