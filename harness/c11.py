"""C11 — path finding returns valid (and without early stopping shortest) paths; metrics are metrics.

S  (spec on the implementation's output, restated independently here): chain validity from the lattice's own
   tables, found within maxits = n_edges, optimality against an independent Dijkstra (float, tol 1e-9),
   two-ends flux law with fluxes_from_ujk, metric axioms on exact dyadic point pairs.
   The proved checker as_valid_path (Model/AStar.v, soundness C11_valid_path_sound) is run on the same outputs.
K  extracted model as_path (Model/AStar.v) fed with the implementation's adjacency lists and the exact floats its
   heuristic returns; whole (nodes, edges) compared when every comparison the model branched on is separated by more
   than 1e-9, else validity + cost only (ties are legitimately broken differently by float rounding)."""
from lib import *  # noqa
import gen
import argforms as AF
import heapq
from koala.lattice import Lattice, LatticeException
from koala.flux_finder import pathfinding as pf
from koala.flux_finder.flux_finder import fluxes_from_ujk
from koala.graph_utils import adjacent_plaquettes, vertex_neighbours

DRIVERS = ("c11",)
MODEL_TARGETS = ["Model/AStar.vo", "Model/Metric.vo", "Model/FluxSolver.vo"]
TARGETS = ["Proofs/AStarFacts.vo", "Proofs/AStarOptimal.vo", "Proofs/AStarBudget.vo", "Proofs/MetricFacts.vo", "Proofs/ChainFlipFacts.vo"]
LEVEL = "proof"
TRUST = [
    "hand-written Gallina model coq/Model/AStar.v of pathfinding.py a_star_search_forward_pass / a_star_search_backward_pass "
    "(PriorityQueue as a list with minimum extraction in tuple order, dicts as association lists): modelled, not verified; tied by the correspondence run",
    "the graph (adjacent_plaquettes / vertex_neighbours) and the heuristic values are NOT modelled: the model receives the implementation's own adjacency lists "
    "and the exact float64 values its heuristic returns (as dyadic integers over one common power of two); that adjacency lists agree with the edge tables is checked by S on every path",
    "float addition of costs in the implementation rounds, the model adds exactly: whole-path comparison only when the model's smallest comparison gap is > 1e-9, "
    "otherwise validity and cost (tolerance 1e-9); sqrt inside np.linalg.norm is outside the model (Model/Metric.v is about squared distances)",
    "optimality on the implementation is compared with an independent float Dijkstra of the harness (support, not proof); C11_astar_* theorems are about the exact-arithmetic model",
]
ASSUMPTIONS = ["connected lattice (vertex graph resp. plaquette-adjacency graph; tree-like lattices included); heuristic strictly positive between distinct adjacent nodes (distinct centres)",
               "metric points in [0,1)^2 for the periodic metric clauses"]

MARGIN = 1e-9
TOL = 1e-9
# Since fix 475bcae maxits bounds the number of expanded nodes (popping the goal is free), so maxits = n_edges is enough in BOTH
# stopping modes on every connected lattice (theorems C11_astar_budget / C11_astar_budget_full).  Tree-like lattices
# (V = E + 1: chains, stars, xy-cuts of small tilings, a quadrilateral with a tail), where the budget is tight, are part of the
# generators; a PathFindingError there is reported like any other (key "path-not-found-within-n_edges").
REPORT_FULL_SEARCH_BUDGET = True
METRICS = {"euclid": pf.straight_line_length, "periodic": pf.periodic_straight_line_length}


# ------------------------------------------------------------------ argument forms (argforms.py)
# start / goal / maxits / the node index of the adjacency providers are `int` by the type hints: a Python int and numpy integer
# scalars of any width (what indexing a numpy array yields, e.g. the pairs of the greedy pairing) are the same number.  Metric
# points: float64 arrays in any memory layout.  Form chosen from the query, so a failure replays.
AF_INDEX = ["int", "np.int64", "np.int32", "np.int16", "np.int8", "np.uint8", "np.uint32", "np.uint64", "np.intp"]
AF_BUDGET = ["int", "np.int64", "np.int32", "np.intp"]      # maxits: wide types only (maxits + 1 must not wrap around in numpy's fixed-width arithmetic)
AF_POINT = ["float64", "float64+readonly", "float64+strided"]
AF_EXCLUDED = {
    ("path_between_*.start/goal", "0-d array"): "type hint int; a 0-d array is not hashable (dict key) -> TypeError",
    ("straight_line_length/periodic_straight_line_length.a/b", "list/tuple"): "points are numpy arrays everywhere in koala (`a - b`); two lists raise TypeError",
    ("straight_line_length/periodic_straight_line_length.a/b", "float32"): "the result then is a float32 (rounded to 1e-7), not comparable at the harness' 1e-9 tolerance",
}


def arg_forms(res, arg, value, *key):
    for (a, f), why in AF_EXCLUDED.items():
        AF.exclude(res, a, f, why)
    if arg == "point":
        return AF.choose(res, "metric.point", value, AF_POINT, *key, base=np.float64)
    return AF.choose_scalar(res, arg, value, AF_BUDGET if arg == "path.maxits" else AF_INDEX, *key)


# ------------------------------------------------------------------ independent restatements
def own_metric(name, a, b):
    d = np.abs(np.asarray(a, float) - np.asarray(b, float))
    if name == "periodic":
        d = np.where(d > 0.5, 1 - d, d)
    return float(np.sqrt(d[0] * d[0] + d[1] * d[1]))


def own_graph(lat, kind):
    """independent graph: list of (a, b, e) from the lattice's edge tables (not from the adjacency providers)"""
    out = []
    if kind == "plaq":
        for e, (a, b) in enumerate(lat.edges.adjacent_plaquettes):
            if a != INVALID and b != INVALID:
                out.append((int(a), int(b), e))
    else:
        for e, (a, b) in enumerate(lat.edges.indices):
            out.append((int(a), int(b), e))
    return out


def node_positions(lat, kind):
    if kind == "plaq":
        return [np.array(p.center, dtype=float) for p in lat.plaquettes]
    return [np.array(p, dtype=float) for p in lat.vertices.positions]


def components(n, triples):
    parent = list(range(n))

    def find(x):
        while parent[x] != x:
            parent[x] = parent[parent[x]]
            x = parent[x]
        return x
    for a, b, _ in triples:
        parent[find(a)] = find(b)
    return len({find(x) for x in range(n)})


def dijkstra(n, triples, w, src):
    nb = [[] for _ in range(n)]
    for a, b, e in triples:
        nb[a].append(b)
        nb[b].append(a)
    dist = [math.inf] * n
    dist[src] = 0.0
    pq = [(0.0, src)]
    while pq:
        d, x = heapq.heappop(pq)
        if d > dist[x]:
            continue
        for y in nb[x]:
            nd = d + w(x, y)
            if nd < dist[y]:
                dist[y] = nd
                heapq.heappush(pq, (nd, y))
    return dist


def spec_path(lat, kind, triples, start, goal, nodes, edges):
    """chain validity, restated from the lattice tables.  Returns list of (key, what)."""
    bad = []
    nodes = [int(x) for x in nodes]
    edges = [int(x) for x in edges]
    if not nodes or nodes[0] != goal or nodes[-1] != start:
        bad.append(("chain-ends", f"{kind} path {start}->{goal}: nodes {nodes[:3]}..{nodes[-3:]} do not run from goal to start"))
        return bad
    if len(edges) != len(nodes) - 1:
        bad.append(("chain-length", f"{kind} path {start}->{goal}: {len(nodes)} nodes but {len(edges)} edges"))
        return bad
    if len(set(nodes)) != len(nodes):
        bad.append(("chain-repeats-node", f"{kind} path {start}->{goal}: a node is visited twice: {nodes}"))
    tab = lat.edges.adjacent_plaquettes if kind == "plaq" else lat.edges.indices
    for i, e in enumerate(edges):
        if not (0 <= e < lat.n_edges):
            bad.append(("chain-edge-range", f"edge index {e} out of range"))
            break
        x, y = int(tab[e][0]), int(tab[e][1])
        a, b = nodes[i], nodes[i + 1]
        if not ((x == a and y == b) or (x == b and y == a)):
            bad.append(("chain-edge-does-not-join", f"{kind} path {start}->{goal}: step {i}: edge {e} joins {(x, y)}, not {(a, b)}"))
            break
        if kind == "plaq" and not (e in lat.plaquettes[a].edges and e in lat.plaquettes[b].edges):
            bad.append(("chain-edge-not-shared", f"plaquette path {start}->{goal}: step {i}: edge {e} is not on both plaquettes {a},{b}"))
            break
    return bad


def spec_flux(lat, start, goal, edges, rng):
    """flipping the bonds on the path changes exactly the fluxes of the two ends"""
    u = (1 - 2 * rng.integers(0, 2, size=lat.n_edges)).astype(np.int8)
    f0 = fluxes_from_ujk(lat, u)
    v = u.copy()
    v[np.array(edges, dtype=int)] *= -1
    f1 = fluxes_from_ujk(lat, v)
    changed = set(np.nonzero(f0 != f1)[0].tolist())
    want = set() if start == goal else {start, goal}
    if changed != want:
        return [("flux-two-ends", f"flipping the bonds of the path {start}->{goal} (edges {list(map(int, edges))}) changed the fluxes of plaquettes {sorted(changed)}, expected {sorted(want)}")]
    return []


# ------------------------------------------------------------------ cases
def c11_cases(tier, seed):
    rng = np.random.default_rng([seed, 11])
    cases = []
    tilings = [("honeycomb_lattice", [2]), ("honeycomb_lattice", [3]), ("square_lattice", [2, 2]), ("square_lattice", [3, 4]),
               ("hex_square_oct_lattice", [2]), ("tri_non_lattice", [2]), ("honeycomb_lattice", [5]),
               # regular tilings with many nearly-equal routes: an estimate that is not a lower bound (inadmissible
               # heuristic) only shows where a second route lies within a fraction of a percent of the optimum
               ("hex_square_oct_lattice", [3]), ("tri_non_lattice", [3]), ("square_lattice", [5, 4])]
    if tier != "quick":
        tilings += [("honeycomb_lattice", [8]), ("square_lattice", [7, 7]), ("hex_square_oct_lattice", [4]), ("tri_non_lattice", [4]),
                    ("square_lattice", [2, 9]), ("honeycomb_lattice", [12])]
    # cells one site wide: a vertex is joined to its own periodic image (vertex paths only)
    tilings += [("square_lattice", [1, 4]), ("square_lattice", [1, 5]), ("square_lattice", [4, 1]), ("square_lattice", [1, 3])]
    for name, args in tilings:
        cases.append({"family": "example", "name": name, "args": args})
    nv = 20 if tier == "quick" else 40
    nmax = 120 if tier == "quick" else 400
    for i in range(nv):
        style = gen.POINT_STYLES[i % 4]      # uniform, clustered, two_cluster, jittered
        n = int(rng.integers(9, 25)) if i % 2 == 0 else int(rng.integers(25, nmax + 1))
        cases.append({"family": "voronoi", "style": style, "n": n, "seed": int(rng.integers(0, 2**31)), "shift": bool(i % 2)})
    bases = list(cases)
    for i, b in enumerate(bases):
        if i % 2 == 0 or tier != "quick":
            cut = [[True, True], [True, False], [False, True]][i % 3]
            cases.append({"family": "cut", "base": b, "cut": cut})
    for name in ["two_triangles", "tri_square_pent", "tutte_graph", "bridge_graph"]:
        cases.append({"family": "example", "name": name})
    # tree-like lattices (V = E + 1, the budget maxits = n_edges is tight there) and a cycle with a tail
    cases.append({"family": "cut", "base": {"family": "example", "name": "honeycomb_lattice", "args": [2]}, "cut": [True, True]})
    cases.append({"family": "cut", "base": {"family": "example", "name": "square_lattice", "args": [2, 2]}, "cut": [True, True]})
    cases.append({"family": "raw", "positions": [[0.1, 0.5], [0.5, 0.5], [0.9, 0.5]], "edges": [[0, 1], [1, 2]], "crossing": [[0, 0], [0, 0]]})
    k = 7
    cases.append({"family": "raw", "positions": [[0.08 + 0.12 * i, 0.3 + 0.05 * (i % 2)] for i in range(k)],
                  "edges": [[i, i + 1] for i in range(k - 1)], "crossing": [[0, 0]] * (k - 1)})                       # chain
    cases.append({"family": "raw", "positions": [[0.5, 0.5]] + [[0.5 + 0.35 * math.cos(2.1 * i + 0.3), 0.5 + 0.35 * math.sin(2.1 * i + 0.3)] for i in range(5)],
                  "edges": [[0, i + 1] for i in range(5)], "crossing": [[0, 0]] * 5})                                  # star
    cases.append({"family": "raw", "positions": [[0.5, 0.5], [0.3, 0.6], [0.7, 0.65], [0.2, 0.8], [0.35, 0.85], [0.75, 0.9], [0.9, 0.6], [0.5, 0.2]],
                  "edges": [[0, 1], [0, 2], [1, 3], [1, 4], [2, 5], [2, 6], [0, 7]], "crossing": [[0, 0]] * 7})        # binary tree
    cases.append({"family": "raw", "positions": [[0.05, 0.1], [0.1, 0.15], [0.1, 0.055], [0.15, 0.1], [0.55, 0.1], [0.55, 0.6]],
                  "edges": [[0, 1], [0, 2], [1, 3], [2, 3], [3, 4], [4, 5]], "crossing": [[0, 0]] * 6})                # quadrilateral with a tail
    return cases


def make_pairs(n, rng, all_pairs_max, n_random):
    if n <= all_pairs_max:
        return [(s, g) for s in range(n) for g in range(n)]
    pairs = [(int(a), int(b)) for a, b in rng.integers(0, n, size=(n_random, 2))]
    pairs += [(int(x), int(x)) for x in rng.integers(0, n, size=2)]
    return pairs


# ------------------------------------------------------------------ evaluation
def impl_adj(lat, kind, n, res):
    out = []
    for a in range(n):
        a_ = arg_forms(res, "adjacent_plaquettes.p_index" if kind == "plaq" else "vertex_neighbours.vertex_index", a, n)
        ns, es = adjacent_plaquettes(lat, a_) if kind == "plaq" else vertex_neighbours(lat, a_)
        out.append([(int(x), int(y)) for x, y in zip(np.atleast_1d(ns), np.atleast_1d(es))])
    return out


def run_impl(lat, kind, s, g, metric, early, maxits, res):
    f = pf.path_between_plaquettes if kind == "plaq" else pf.path_between_vertices
    s_, g_ = arg_forms(res, "path.start", s, g, kind, metric, early), arg_forms(res, "path.goal", g, s, kind, metric, early)
    maxits_ = arg_forms(res, "path.maxits", maxits, s, g, kind, metric, early)
    try:
        nodes, edges = f(lat, s_, g_, heuristic=METRICS[metric], early_stopping=early, maxits=maxits_)
        return ("P", [int(x) for x in nodes], [int(x) for x in edges])
    except pf.PathFindingError as e:
        return ("E", str(e))
    except Exception as e:  # anything else is a crash of the implementation
        return ("X", f"{type(e).__name__}: {e}")


def eval_combo(ctx, case, lat, kind, metric, pairs, rng, label, maxits=None):
    """one lattice, one graph kind, one metric: all given (start, goal) pairs, both stopping modes"""
    res = ctx.res
    n = lat.n_plaquettes if kind == "plaq" else lat.n_vertices
    triples = own_graph(lat, kind)
    maxits = lat.n_edges if maxits is None else maxits
    posn = node_positions(lat, kind)
    adj = impl_adj(lat, kind, n, res)
    hfun = METRICS[metric]
    # the floats the implementation's heuristic returns
    need = set()
    goals = {g for _, g in pairs}
    for a in range(n):
        for b, _ in adj[a]:
            need.add((a, b))
        for g in goals:
            need.add((a, g))
    hval = {(a, b): float(hfun(posn[a], posn[b])) for (a, b) in need}
    degenerate = any(hval[(a, b)] <= 0 for a in range(n) for b, _ in adj[a] if a != b)
    if degenerate:
        res.skip("adjacent-nodes-with-coincident-centres")
        return
    S = common_scale(list(hval.values()))
    toks = ["path", str(n)]
    for a in range(n):
        toks.append(str(len(adj[a])))
        for b, e in adj[a]:
            toks += [str(b), str(e)]
    toks.append(str(len(hval)))
    for (a, b), v in hval.items():
        toks += [str(a), str(b), hx(int(Fraction(v) * S))]
    queries = [(s, g, early) for (s, g) in pairs for early in (True, False)]
    toks.append(str(len(queries)))
    for s, g, early in queries:
        toks += [str(s), str(g), "1" if early else "0", str(maxits)]
    o = run_driver(ctx.exe["c11"], [" ".join(toks)])[0]
    if "error" in o:
        raise RuntimeError(f"c11 driver: {' '.join(o['error'])}")
    if getattr(ctx, "xc11", None) is not None and n <= XCHECK_MAX_N and maxits <= XCHECK_MAX_FUEL:
        ctx.xc11["path"].append((n, adj, hval, S, queries, maxits, o))
    # independent optimum
    w = lambda x, y: own_metric(metric, posn[x], posn[y])
    dist_from = {}
    chk_items = []
    fam = f"{case['family']}/{kind}/{metric}"
    stats = res.extra.setdefault("k_stats", {"whole_path_compared": 0, "near_tie_validity_cost_only": 0, "path_lengths": {}})
    for qi, (s, g, early) in enumerate(queries):
        rcase = {"lattice": case, "kind": kind, "metric": metric, "pairs": [[s, g]], "maxits": maxits}
        r = run_impl(lat, kind, s, g, metric, early, maxits, res)
        m = o[f"q{qi}"]
        nontriv = (digest(case), kind, metric, s, g, early) if s != g else None
        res.count(fam + ("/early" if early else "/full"), nontrivial_key=nontriv)
        if r[0] == "X":
            res.violation("path-crash", f"{kind} path {s}->{g} metric={metric} early={early}: {r[1]}", rcase)
            continue
        if r[0] == "E":
            res.violation("path-not-found-within-n_edges" if maxits == lat.n_edges else "path-not-found",
                          f"{kind} path {s}->{g} metric={metric} early_stopping={early} maxits={maxits} on a connected graph: PathFindingError", rcase)
            continue
        _, nodes, edges = r
        bad = spec_path(lat, kind, triples, s, g, nodes, edges)
        if s == g and (nodes != [s] or edges != []):
            bad.append(("start-equals-goal", f"start == goal == {s}: returned {nodes}, {edges}"))
        if not bad and kind == "plaq":
            bad += spec_flux(lat, s, g, edges, rng)
        cost = sum(w(nodes[i + 1], nodes[i]) for i in range(len(nodes) - 1)) if not bad else None
        if not bad and not early:
            if s not in dist_from:
                dist_from[s] = dijkstra(n, triples, w, s)
            if cost > dist_from[s][g] + TOL:
                bad.append(("not-shortest", f"{kind} path {s}->{g} metric={metric} without early stopping has length {cost}, Dijkstra finds {dist_from[s][g]}"))
        for key, what in bad:
            res.violation(key, what, rcase)
        chk_items.append((s, g, nodes, edges, bool(bad)))
        if bad:
            continue
        # ---- K
        res.traces += 1
        pl = stats["path_lengths"]
        b = "0" if len(edges) == 0 else "1-3" if len(edges) <= 3 else "4-10" if len(edges) <= 10 else ">10"
        pl[b] = pl.get(b, 0) + 1
        if m[0] == "E" and m[1] != "N" and unhx(m[1]) / S <= MARGIN:
            stats["near_tie_validity_cost_only"] += 1      # budget borderline decided by a near-tie
            continue
        if m[0] != "P":
            ctx.k_mismatch(f"{label}: model result {m[0]} (E=PathFindingError, C=crash) but the implementation returned a path; {kind} {s}->{g} {metric} early={early}", rcase)
            continue
        c = Cursor(m[1:])
        mg = c.next()
        mnodes = c.list(c.int)
        medges = c.list(c.int)
        mcost = c.z() / S
        margin = math.inf if mg == "N" else unhx(mg) / S
        if margin > MARGIN:
            stats["whole_path_compared"] += 1
            # the listed edge is fixed by the property only as "an edge joining the two consecutive nodes": where several
            # edges join the same pair (parallel edges, two plaquettes sharing two sides) any of them is right
            ktab = lat.edges.adjacent_plaquettes if kind == "plaq" else lat.edges.indices
            same_link = lambda e1, e2: e1 == e2 or sorted(int(x) for x in ktab[e1]) == sorted(int(x) for x in ktab[e2])
            if mnodes != nodes or len(medges) != len(edges) or not all(same_link(x, y) for x, y in zip(medges, edges)):
                ctx.k_mismatch(f"{label}: {kind} {s}->{g} {metric} early={early}: model path {mnodes},{medges} != implementation {nodes},{edges} (margin {margin:.3g})", rcase)
        else:
            stats["near_tie_validity_cost_only"] += 1
            if not early and abs(mcost - cost) > TOL * (1 + abs(cost)):
                ctx.k_mismatch(f"{label}: {kind} {s}->{g} {metric} full search: model cost {mcost} vs implementation {cost}", rcase)
        res.sample({"case": case, "kind": kind, "metric": metric, "start": s, "goal": g, "early": early, "nodes": nodes, "edges": edges,
                    "model_margin": None if margin == math.inf else margin})
    # proved checker on the implementation's outputs
    if chk_items:
        tab = lat.edges.adjacent_plaquettes if kind == "plaq" else lat.edges.indices
        t = ["chk", str(len(tab))]
        for x, y in tab:
            t += ["N" if x == INVALID else str(int(x)), "N" if y == INVALID else str(int(y))]
        t.append(str(len(chk_items)))
        for s, g, nodes, edges, _ in chk_items:
            t += [str(s), str(g), str(len(nodes))] + [str(x) for x in nodes] + [str(len(edges))] + [str(x) for x in edges]
        oc = run_driver(ctx.exe["c11"], [" ".join(t)])[0]
        if "error" in oc:
            raise RuntimeError(f"c11 driver chk: {' '.join(oc['error'])}")
        oks = oc["ok"][1:]
        if getattr(ctx, "xc11", None) is not None and n <= XCHECK_MAX_N and len(tab) <= XCHECK_MAX_FUEL:
            ctx.xc11["chk"].append((tab, chk_items, oks))
        for (s, g, nodes, edges, wasbad), ok in zip(chk_items, oks):
            if ok == "0" and not wasbad:
                # the proved checker rejects a chain the Python restatement accepted
                if True:
                    res.violation("chain-rejected-by-proved-checker", f"as_valid_path rejects the {kind} path {s}->{g}: {nodes}, {edges}",
                                  {"lattice": case, "kind": kind, "metric": metric, "pairs": [[s, g]], "maxits": maxits})


def build_lattice(case):
    arr, why = gen.try_build(case)
    if arr is None:
        return None
    try:
        lat = Lattice(*arr)
    except LatticeException:
        return None
    try:
        lat.plaquettes
    except LatticeException:
        # a cell one site wide: a vertex is joined to its own periodic image and the plaquette finder refuses the lattice;
        # the vertex graph and path_between_vertices are still well defined (a regular tiling of the quantifier)
        lat = Lattice(*arr)
        lat._c11_no_plaquettes = True
    return lat


def evaluate(ctx, cases, label, all_pairs_max, n_random, only=None):
    res = ctx.res
    for ci, case in enumerate(cases):
        lat = build_lattice(case)
        if lat is None:
            res.skip("generator-could-not-build-lattice")
            continue
        rng = np.random.default_rng([ctx.seed, 1100 + ci])
        # domain: "a path between two plaquettes (or two vertices) of a connected lattice": the vertex graph of every lattice whose
        # vertex graph is connected (tree-like lattices without plaquettes included, lead decision with fix 475bcae); the plaquette
        # graph of lattices with at least one plaquette whose plaquette-adjacency graph is connected
        for kind in ("plaq", "vert"):
            if kind == "plaq" and getattr(lat, "_c11_no_plaquettes", False):
                res.skip("plaquette-graph-not-defined(one-site-wide cell)")
                continue
            n = lat.n_plaquettes if kind == "plaq" else lat.n_vertices
            if n == 0:
                res.skip(f"no-{kind}-nodes")
                continue
            if components(n, own_graph(lat, kind)) != 1:
                res.skip(f"{kind}-graph-not-connected")
                continue
            # the vertex graph is about twice as large: fewer random pairs there
            pairs = make_pairs(n, rng, all_pairs_max, n_random if kind == "plaq" else max(4, n_random // 2))
            for metric in ("euclid", "periodic"):
                if only and (kind, metric) != only:
                    continue
                eval_combo(ctx, case, lat, kind, metric, pairs, rng, label)


# ------------------------------------------------------------------ metrics
def metric_points(tier, seed):
    rng = np.random.default_rng([seed, 1111])
    n = 600 if tier == "quick" else 6000
    a = rng.uniform(size=(n, 2))
    b = rng.uniform(size=(n, 2))
    # coarse dyadic grid points (exact halves, quarters: the 0.5 boundary of the wrap), coincident points, boundary huggers
    k = n // 6
    a[:k] = rng.integers(0, 8, size=(k, 2)) / 8
    b[:k] = rng.integers(0, 8, size=(k, 2)) / 8
    b[k:2 * k] = a[k:2 * k]
    a[2 * k:3 * k] = rng.uniform(0, 0.01, size=(k, 2))
    b[2 * k:3 * k] = 1 - rng.uniform(0, 0.01, size=(k, 2)) - 1e-12
    pts = [(np.array([.1, .2]), np.array([.3, .5])), (np.array([.3, .5]), np.array([.1, .2])),
           (np.array([.9, .1]), np.array([.1, .9])), (np.array([0., 0.]), np.array([.5, .5])),
           (np.array([.25, .75]), np.array([.75, .25]))]
    pts += [(a[i], b[i]) for i in range(n)]
    return pts


def eval_metrics(ctx, pts, label):
    res = ctx.res
    S = common_scale([p for ab in pts for p in ab])
    toks = ["metric", hx(S), str(len(pts))]
    for a, b in pts:
        for v in (a[0], a[1], b[0], b[1]):
            toks.append(hx(int(Fraction(float(v)) * S)))
    o = run_driver(ctx.exe["c11"], [" ".join(toks)])[0]
    if "error" in o:
        raise RuntimeError(f"c11 driver metric: {' '.join(o['error'])}")
    if getattr(ctx, "xc11", None) is not None:
        ctx.xc11["metric"] = (S, pts, o)
    ce, cp = Cursor(o["eu"]), Cursor(o["pe"])
    eu = ce.list(lambda: Fraction(ce.z(), ce.z()))
    pe = cp.list(lambda: Fraction(cp.z(), cp.z()))
    for i, (a, b) in enumerate(pts):
        rcase = {"metric_points": [a.tolist(), b.tolist()]}
        same = bool(np.all(a == b))
        res.count("metric/point-pair", nontrivial_key=None if same else ("m", a.tobytes(), b.tobytes()))
        try:
            a_, b_ = arg_forms(res, "point", a, 0, b), arg_forms(res, "point", b, 1, a)
            de, dp = float(pf.straight_line_length(a_, b_)), float(pf.periodic_straight_line_length(a_, b_))
            de2, dp2 = float(pf.straight_line_length(b_, a_)), float(pf.periodic_straight_line_length(b_, a_))
            if not (np.array_equal(a_, a) and np.array_equal(b_, b)):
                res.violation("metric-modifies-argument", "a metric modified a point passed to it", rcase)
        except Exception as e:
            res.violation("metric-crash", f"{type(e).__name__}: {e}", rcase)
            continue
        # S: axioms restated with exact rationals
        fa = [Fraction(float(x)) for x in a]
        fb = [Fraction(float(x)) for x in b]
        ex_e = sum((x - y) ** 2 for x, y in zip(fa, fb))
        ex_p = min(sum((x - y + sx) ** 2 for (x, y, sx) in zip(fa, fb, sh)) for sh in itertools.product((-1, 0, 1), repeat=2))
        for nm, d, d2, ex in (("euclid", de, de2, ex_e), ("periodic", dp, dp2, ex_p)):
            if abs(d - d2) > 1e-12:
                res.violation(f"{nm}-not-symmetric", f"{nm}({a.tolist()},{b.tolist()}) = {d} but reversed = {d2}", rcase)
            if d < 0:
                res.violation(f"{nm}-negative", f"{nm}({a.tolist()},{b.tolist()}) = {d}", rcase)
            if (d <= 1e-12) != (ex == 0):
                res.violation(f"{nm}-zero-iff-coincident", f"{nm}({a.tolist()},{b.tolist()}) = {d} but the exact {'minimum-image ' if nm == 'periodic' else ''}distance is {math.sqrt(ex)}", rcase)
            elif abs(d * d - float(ex)) > TOL * (1 + float(ex)):
                res.violation(f"{nm}-wrong-value", f"{nm}({a.tolist()},{b.tolist()}) = {d}, exact {'minimum-image ' if nm == 'periodic' else ''}distance {math.sqrt(ex)}", rcase)
        if dp > de + 1e-12:
            res.violation("periodic-longer-than-euclid", f"periodic {dp} > euclid {de} at {a.tolist()},{b.tolist()}", rcase)
        # K: model (as coded) vs implementation
        res.traces += 1
        if abs(de * de - float(eu[i])) > TOL * (1 + float(eu[i])) or abs(dp * dp - float(pe[i])) > TOL * (1 + float(pe[i])):
            ctx.k_mismatch(f"{label}: metric model {math.sqrt(eu[i])}, {math.sqrt(pe[i])} vs implementation {de}, {dp} at {a.tolist()},{b.tolist()}", rcase)
        if pe[i] > eu[i] or pe[i] != ex_p:
            ctx.k_mismatch(f"{label}: model periodic_sq is not the minimum-image distance at {a.tolist()},{b.tolist()}", rcase)


# ------------------------------------------------------------------ extraction cross-check (DESIGN 1.3)
XCHECK_MAX_N, XCHECK_MAX_FUEL = 40, 200      # nodes of the searched graph; maxits (the model's fuel, a nat literal) / table rows


def coq_crosscheck(ctx):
    """A small random sample of the c11 driver's answers collected in ctx.xc11 during the K phase (graphs with <= 40 nodes) is
    re-derived INSIDE Coq by vm_compute on the same literals: as_path + as_chain_cost on the implementation's adjacency lists and
    exact heuristic values (a few queries per sampled graph), as_valid_path (as_joined table) on the implementation's chains,
    mt_euclid_sq / mt_periodic_sq (numerator and denominator exactly as the extracted code leaves them) on point pairs."""
    import xcheck as X
    xc, ctx.xc11 = ctx.xc11, None
    quick = ctx.tier == "quick"
    rng = np.random.default_rng([ctx.seed, 11, 99])

    def pick(xs, k):
        return [xs[i] for i in sorted(rng.choice(len(xs), size=min(len(xs), k), replace=False).tolist())] if len(xs) else []
    nl = X.natlist
    oz = X.option(X.z)
    body = [
        # the driver's heuristic: a table lookup (it fails on a missing key; an answer exists only if no key was missing)
        "Definition xh (tbl : list ((nat * nat) * Z)) (a b : nat) : Z :=",
        "  match find (fun r => (fst (fst r) =? a)%nat && (snd (fst r) =? b)%nat) tbl with Some r => snd r | None => 0 end.",
        "Definition xadj (rows : list (list (nat * nat))) (a : nat) : list (nat * nat) := nth a rows [].",
        "Definition qpair (q : Q) : Z * Z := (Qnum q, Zpos (Qden q)).",
    ]
    g = lambda lhs, rhs: body.append(X.goal(lhs, rhs))
    nq = 0
    for gi, (n, adj, hval, S, queries, maxits, o) in enumerate(pick(xc["path"], 6 if quick else 50)):
        body.append(f"Definition A{gi} := xadj {X.lst(lambda row: X.lst(X.natpair, row), adj)}.")
        body.append(f"Definition H{gi} := xh " + X.lst(lambda kv: f"(({X.nat(kv[0][0])}, {X.nat(kv[0][1])}), {X.z(int(Fraction(kv[1]) * S))})", list(hval.items())) + ".")
        # queries: prefer start != goal, both stopping modes
        qs = [qi for qi, (s_, g_, _) in enumerate(queries) if s_ != g_]
        for qi in pick(qs, 5) + pick([qi for qi in range(len(queries)) if qi not in qs], 1):
            s_, g_, early = queries[qi]
            m = o[f"q{qi}"]
            call = f"as_path A{gi} H{gi} {X.nat(s_)} {X.nat(g_)} {X.boolean(early)} {X.nat(maxits)}"
            mg = lambda t: oz(None if t == "N" else unhx(t))
            if m[0] == "P":
                c = Cursor(m[2:])
                ns, es = c.list(c.int), c.list(c.int)
                cost = c.z()
                g(call, f"AS_Path {nl(ns)} {nl(es)} {mg(m[1])}")
                g(f"as_chain_cost H{gi} {nl(ns)}", X.z(cost))
            elif m[0] == "E":
                g(call, f"AS_PathFindingError {mg(m[1])}")
            else:
                g(call, "AS_Crash")
            nq += 1
    nchk = 0
    for tab, items, oks in pick(xc["chk"], 4 if quick else 30):
        T = X.lst(X.pair(X.onat, X.onat), [(None if x == INVALID else int(x), None if y == INVALID else int(y)) for x, y in tab])
        sel = pick(list(range(len(items))), 6)
        g("map (fun q => as_valid_path (as_joined " + T + ") (fst (fst q)) (snd (fst q)) (fst (snd q)) (snd (snd q))) "
          + X.lst(lambda i: f"(({X.nat(items[i][0])}, {X.nat(items[i][1])}), ({nl(items[i][2])}, {nl(items[i][3])}))", sel),
          X.lst(lambda i: X.boolean(oks[i] == "1"), sel))
        nchk += len(sel)
    npts = 0
    if xc["metric"] is not None:
        S, pts, o = xc["metric"]
        ce, cp = Cursor(o["eu"]), Cursor(o["pe"])
        eu = ce.list(lambda: (ce.z(), ce.z()))      # numerator, denominator as printed (not normalised)
        pe = cp.list(lambda: (cp.z(), cp.z()))
        sel = pick(list(range(len(pts))), 24 if quick else 240)
        q = lambda v: f"(Qmake {X.z(int(Fraction(float(v)) * S))} ({int(S)})%positive)"
        P = X.lst(lambda i: f"(({q(pts[i][0][0])}, {q(pts[i][0][1])}), ({q(pts[i][1][0])}, {q(pts[i][1][1])}))", sel)
        body.append(f"Definition PTS : list (mt_pt * mt_pt) := {P}.")
        g("map (fun ab => qpair (mt_euclid_sq (fst ab) (snd ab))) PTS", X.lst(lambda i: X.zpair(eu[i]), sel))
        g("map (fun ab => qpair (mt_periodic_sq (fst ab) (snd ab))) PTS", X.lst(lambda i: X.zpair(pe[i]), sel))
        npts = len(sel)
    res = ctx.res
    res.extra["extraction_crosscheck_goals_vm_compute"] = X.compile_goals("c11", "Model.AStar Model.Metric", body, "c11", stdlib="List ZArith Bool QArith")
    res.extra["extraction_crosscheck_cases"] = {"path_queries": nq, "checked_chains": nchk, "metric_point_pairs": npts,
                                                "pool_graphs": len(xc["path"]), "pool_chain_batches": len(xc["chk"])}
    res.extra["extraction_crosscheck_wall_s"] = X.LAST_WALL


# ------------------------------------------------------------------ entry points
def run(ctx):
    ctx.res.rule = ("lattices: tilings, periodic Voronoi (9..120 seeds quick / ..400 thorough, 4 point styles, both shift settings), their x/y/xy cuts, small example graphs; "
                    "tree-like lattices (chain, star, binary tree, xy-cuts of small tilings, quadrilateral with a tail); graphs not connected are skipped; per lattice x {plaquette graph, vertex graph} x {euclid, periodic} x {early, full}: all ordered (start, goal) pairs "
                    "when the graph has <= 16 (quick) / 40 (thorough) nodes, random pairs + start==goal otherwise, maxits = n_edges; metrics: 600/6000 exact dyadic point pairs in [0,1)^2 "
                    "incl. grid points, coincident and boundary-hugging pairs; non-trivial = start != goal (resp. distinct points)")
    quick = ctx.tier == "quick"
    ctx.xc11 = {"path": [], "chk": [], "metric": None}      # driver answers on small graphs, for the extraction cross-check
    eval_metrics(ctx, metric_points(ctx.tier, ctx.seed), "K(metric)")
    evaluate(ctx, c11_cases(ctx.tier, ctx.seed), "K(astar)", 16 if quick else 40, 24 if quick else 100)
    coq_crosscheck(ctx)      # extraction cross-check: a sample of the driver's answers re-derived inside Coq


def search(ctx):
    eval_metrics(ctx, metric_points("thorough", ctx.seed + 1), "search")
    evaluate(ctx, c11_cases(ctx.tier, ctx.seed + 1), "search", 16 if ctx.tier == "quick" else 40, 30 if ctx.tier == "quick" else 100)


def replay(ctx, payload):
    case = payload["case"]
    if "metric_points" in case:
        a, b = case["metric_points"]
        eval_metrics(ctx, [(np.array(a, float), np.array(b, float))], "replay")
        return
    lat = build_lattice(case["lattice"])
    rng = np.random.default_rng([ctx.seed, 1])
    eval_combo(ctx, case["lattice"], lat, case["kind"], case["metric"], [tuple(p) for p in case["pairs"]], rng, "replay", maxits=case.get("maxits"))
