"""C19 — point-set generators stay in the unit square, keep spacing, and are reproducible.

S (spec on the implementation, real numpy Generators): bounds, pairwise distances, counts, same seed => same
  points with the GLOBAL numpy generator seeded differently between the two runs, global state fingerprint
  untouched; the probabilistic clause "extends to within two grid spacings of all four sides given >= 20
  attempts" is evaluated per grid shape and raised only when every seed of a shape fails.
K (model vs implementation): a duck-typed rng records every draw the implementation makes; the harness
  rebuilds the candidate points with the same numpy expressions, hands those exact dyadics to the extracted
  model (coq/Model/Points.v) and compares the accept / remove / no-change sequence, the sample list and the
  normalised output.  Adversarial scripted streams contain exact ties (distance exactly r, points exactly on
  the border).
  Model/PointsGrid.v: the same recorded streams are run through the loop with a neighbour-window acceptance test (several cell
  sizes / half-widths satisfying r <= m * cell size; must equal the coded loop's answer; a too-small window is run as a control and
  counted), the model's cells dictionary is compared with the implementation's local dict `cells` (picked from the calling frame of
  the recording rng; informational, the dict is dead code), hyperuniform's jittered grid (origins, order, offset scaling, kicks,
  crop) is compared with the returned points.  A sample of all driver answers is re-derived inside Coq (vm_compute)."""
from lib import *  # noqa
import signal, multiprocessing
import koala.pointsets as ps

DRIVERS = ("c19",)
MODEL_TARGETS = ["Model/Points.vo", "Model/PointsGrid.vo", "Model/RngIR.vo", "Gen/RngUse.vo"]
TARGETS = ["Proofs/PointsFacts.vo", "Proofs/PointsGridFacts.vo", "Proofs/RngUseFacts.vo"]
TRANSLATORS = ("rng_use",)
LEVEL = "proof"
TRUST = [
    "hand-written Gallina model coq/Model/Points.v of pointsets.py (accept/reject loop of bluenoise over an arbitrary stream, crop of hyperuniform, uniform): modelled, not verified; tied to the code by the scripted-generator correspondence run",
    "hand-written Gallina model coq/Model/PointsGrid.v (cells dictionary of bluenoise as coded, neighbour-window variants of the loop, hyperuniform's linspace/meshgrid origins + offsets/(nx, ny) + kicks): modelled, not verified; tied by K: windowed loop = recorded implementation trace, jittered grid = returned points (1e-9), cells = the local dict observed through the recording rng's caller frame (informational: the dict is dead code)",
    "translate/rng_use.py (fail-closed ast analysis listing every np.random.* / rng.* call of pointsets.py into coq/Gen/RngUse.v): trusted to list the calls; it raises on aliasing, other imports, unknown names",
    "numpy.random.Generator (determinism given the seed, uniform in [0,1), choice returns an element), cos, sin, float norm: outside the model; candidates are an arbitrary stream in the theorems. Distances within 1e-12 of r (not exactly r) are counted and skipped in K",
    "np.random.default_rng() under `if rng is None` is assumed not to read or advance the global legacy state (numpy contract); additionally observed by S through the np.random.get_state() fingerprint",
]
ASSUMPTIONS = ["a generator is supplied (rng is not None); k >= 1, nx, ny >= 1 (property quantifier)",
               "the clause 'extends to within two grid spacings of all four sides' is probabilistic: checked per grid shape over several seeds, not proved",
               "termination of bluenoise is probabilistic and not claimed in full: proved is only that at most 2*max_samples(nx,ny)-1 iterations change the state (every other iteration is a NoChange one: last candidate outside the domain)",
               "today's bluenoise has no neighbour window (it scans all samples; `cells` is write-only): the window theorems are about every grid-accelerated variant of the loop, proved to go through the same states as the coded loop"]

TOL = 1e-12
TWO_PI = 2 * np.pi


class CaseTimeout(Exception):
    pass


class limit:
    """wall-clock limit for one implementation call.  The alarm keeps firing every 50 ms once the limit is
    reached (an exception raised inside a numpy try/except can be swallowed or re-raised as another type), and
    [fired] tells the caller that whatever exception came out was caused by the limit."""
    def __init__(self, seconds):
        self.s = seconds
        self.fired = False

    def _alarm(self, signum, frame):
        self.fired = True
        raise CaseTimeout()

    def __enter__(self):
        self.old = signal.signal(signal.SIGALRM, self._alarm)
        signal.setitimer(signal.ITIMER_REAL, self.s, 0.05)
        return self

    def __exit__(self, *a):
        signal.setitimer(signal.ITIMER_REAL, 0)
        signal.signal(signal.SIGALRM, self.old)


def global_fp():
    st = np.random.get_state()
    return digest([hashlib.sha1(st[1].tobytes()).hexdigest(), int(st[2]), int(st[3]), float(st[4])])


def call_impl(c, rng):
    if c["fn"] == "bluenoise":
        return ps.bluenoise(c["k"], c["nx"], c["ny"], rng=rng)
    if c["fn"] == "hyperuniform":
        return ps.hyperuniform(c["nx"], c["ny"], kickstrength=c["kick"], rng=rng)
    return ps.uniform(c["n"], rng=rng)


# ------------------------------------------------------------------ S on one output
def spec_output(c, out):
    """the property restated on one returned array; list of (key, what)"""
    bad = []
    fn = c["fn"]
    out = np.asarray(out)
    if out.ndim != 2 or out.shape[1] != 2:
        return [(f"{fn}:shape", f"returned array of shape {out.shape}, expected (m, 2)")]
    if not np.all(np.isfinite(out)):
        bad.append((f"{fn}:out-of-unit-square", "non-finite coordinate returned"))
    elif len(out) and (out.min() < 0 or out.max() > 1):
        i = int(np.argmax(np.max(np.maximum(out - 1, -out), axis=1)))
        bad.append((f"{fn}:out-of-unit-square", f"point {i} = {out[i].tolist()} is outside [0,1]^2 ({describe(c)})"))
    if fn == "uniform" and len(out) != c["n"]:
        bad.append(("uniform:count", f"uniform({c['n']}) returned {len(out)} points"))
    if fn == "hyperuniform" and len(out) > c["nx"] * c["ny"]:
        bad.append(("hyperuniform:count", f"{len(out)} points from {c['nx'] * c['ny']} cells"))
    if fn == "bluenoise":
        if len(out) < 1:
            bad.append(("bluenoise:shape", "no point returned"))
        if len(out) > max_samples(c["nx"], c["ny"]):
            bad.append(("bluenoise:count", f"{len(out)} points returned, more than the packing bound {max_samples(c['nx'], c['ny'])} of points pairwise farther apart than 1 in [0,{c['nx']}]x[0,{c['ny']}] ({describe(c)})"))
        if len(out) > 1:
            P = out * np.array([c["nx"], c["ny"]], dtype=float)
            D = np.linalg.norm(P[:, None, :] - P[None, :, :], axis=-1)
            D[np.diag_indices(len(P))] = np.inf
            m = float(D.min())
            if not m > 1 - TOL:
                i, j = np.unravel_index(int(np.argmin(D)), D.shape)
                bad.append(("bluenoise:spacing", f"points {i} and {j} are at distance {m!r} <= 1 before normalisation ({describe(c)})"))
    return bad


def max_samples(nx, ny):
    """Model/PointsGrid.max_samples (C19_bluenoise_count_bounded)"""
    return (3 * nx // 2 + 1) * (3 * ny // 2 + 1)


def extent_ok(c, out):
    P = np.asarray(out) * np.array([c["nx"], c["ny"]], dtype=float)
    lo, hi = P.min(axis=0), P.max(axis=0)
    return bool(lo[0] <= 2 and lo[1] <= 2 and hi[0] >= c["nx"] - 2 and hi[1] >= c["ny"] - 2), lo.tolist(), hi.tolist()


def describe(c):
    if c["fn"] == "bluenoise":
        return f"bluenoise(k={c['k']}, nx={c['nx']}, ny={c['ny']}, rng=default_rng({c['seed']}))"
    if c["fn"] == "hyperuniform":
        return f"hyperuniform(nx={c['nx']}, ny={c['ny']}, kickstrength={c['kick']}, rng=default_rng({c['seed']}))"
    return f"uniform(n={c['n']}, rng=default_rng({c['seed']}))"


# ------------------------------------------------------------------ real-generator runs (worker side)
def eval_real(c):
    """two runs with the same seeded Generator and differently seeded GLOBAL generator"""
    r = {"case": c, "bad": [], "n": None, "extent": None, "timeout": False}
    lim = limit(c.get("limit", 5))
    try:
        with lim:
            outs, fps = [], []
            for g in (c["gseed"], c["gseed"] + 7919):
                np.random.seed(g % (2 ** 32))
                np.random.random(g % 5)                      # also vary the position in the global stream
                f0 = global_fp()
                o = np.array(call_impl(c, np.random.default_rng(c["seed"])))
                f1 = global_fp()
                outs.append(o)
                fps.append((f0, f1))
    except CaseTimeout:
        r["timeout"] = True      # termination is not claimed by the property (and see the report: 1 x 1 grids)
        return r
    except Exception as e:
        if lim.fired:
            r["timeout"] = True
            return r
        r["bad"].append((f"{c['fn']}:exception", f"{describe(c)} raised {type(e).__name__}: {e}"))
        return r
    for f0, f1 in fps:
        if f0 != f1:
            r["bad"].append((f"{c['fn']}:global-state-disturbed", f"{describe(c)} advanced the global numpy generator (np.random.get_state() changed)"))
            break
    a, b = outs
    if a.shape != b.shape or not np.array_equal(a, b):
        r["bad"].append((f"{c['fn']}:not-reproducible", f"{describe(c)} called twice with equally seeded generators (global generator seeded differently) returned different points: shapes {a.shape} / {b.shape}"))
    r["bad"] += spec_output(c, a)
    r["n"] = int(len(a)) if a.ndim >= 1 else None
    if c["fn"] == "bluenoise" and a.ndim == 2 and a.shape[1] == 2 and len(a):
        r["extent"] = extent_ok(c, a)
    return r


# ------------------------------------------------------------------ recording / scripted generators
class Adversarial:
    """source of draws containing exact ties: x0 on quarter points, rho exactly r or 2r-, theta on the axes"""
    def __init__(self, seed):
        self.g = np.random.default_rng([seed, 77])
        self.force_zero = False

    def uniform(self, low=0.0, high=1.0, size=None):
        g = self.g
        if size is not None:
            shape = (size,) if isinstance(size, int) else tuple(size)
            v = g.uniform(low, high, shape)
            m = g.random(shape)
            q = low + (high - low) * g.integers(0, 4, shape) / 4.0
            v = np.where(m < 0.5, q, v)
            tiny = low + (high - low) * np.array([2.0 ** -40, 1e-12, 2.0 ** -52, 1e-9])[g.integers(0, 4, shape)]
            v = np.where(m < 0.25, tiny, v)       # a hair above the lower end: lands just outside / inside a border
            v = np.where(m < 0.12, low, v)
            return v
        u = g.random()
        if high == TWO_PI or abs(high - TWO_PI) < 1e-9:
            # only theta = 0 gives an exact displacement (rho, 0): cos/sin of the other float multiples of
            # pi/2 are off by ~1e-16, which is a NEAR tie (float and exact arithmetic may disagree: skipped)
            if self.force_zero or u < 0.2:
                self.force_zero = False
                return 0.0
            return float(g.uniform(low, high))
        if u < 0.3:
            self.force_zero = True       # rho = r exactly, theta = 0: candidate at distance exactly r from x0
            return float(low)
        if u < 0.45:
            return float((low + high) / 2)
        if u < 0.55:
            return float(np.nextafter(high, low))
        return float(g.uniform(low, high))

    def choice(self, a):
        return self.g.choice(a)

    def pareto(self, a, size=None):
        v = self.g.pareto(a, size)
        m = self.g.random(np.shape(v))
        v = np.where(m < 0.3, np.array([1e-12, 2.0 ** -40, 1e-9, 0.0])[self.g.integers(0, 4, np.shape(v))], v)
        return v


class StreamTooLong(Exception):
    pass


class RecRng:
    """duck-typed numpy Generator: forwards to `src`, records every draw"""
    def __init__(self, src, cap=400000):
        self.src, self.log, self.cap = src, [], cap
        self.cells_ref = None      # the caller's local dict `cells` (write-only bookkeeping of bluenoise), if there is one

    def _rec(self, ev):
        if len(self.log) >= self.cap:
            raise StreamTooLong()
        self.log.append(ev)

    def uniform(self, low=0.0, high=1.0, size=None):
        v = self.src.uniform(low, high, size)
        self._rec(("uniform", low, high, size, v))
        return v

    def choice(self, a):
        v = self.src.choice(a)
        self._rec(("choice", [int(x) for x in a], int(v)))
        if self.cells_ref is None:
            # informational observation of dead bookkeeping (Model/PointsGrid.cells_after): no hook in /repo, the dict
            # object is picked out of the calling frame; absent / renamed / not a dict => simply not observed
            try:
                d = sys._getframe(1).f_locals.get("cells")
                if isinstance(d, dict):
                    self.cells_ref = d
            except Exception:
                pass
        return v

    def pareto(self, a, size=None):
        v = self.src.pareto(a, size)
        self._rec(("pareto", a, size, v))
        return v


def make_source(c):
    if c["mode"] == "adversarial":
        return Adversarial(c["seed"])
    return np.random.default_rng(c["seed"])


def fr(x):
    return Fraction(float(x))


def prep_bluenoise(c):
    """run the implementation on a recording generator, rebuild the iteration structure and the candidate
    points, and prepare the model input.  Worker side."""
    k, nx, ny = c["k"], c["nx"], c["ny"]
    r = {"case": c, "bad": [], "kmis": [], "skip": None}
    rec = RecRng(make_source(c), cap=c.get("cap", min(150000, 5000 + 200 * nx * ny * k)))
    partial = False
    out = None
    lim = limit(c.get("limit", 20))
    try:
        with lim:
            out = np.array(ps.bluenoise(k, nx, ny, rng=rec))
    except (CaseTimeout, StreamTooLong):
        # termination is not claimed; the states the implementation went through are still examined:
        # the iterations completed so far are rebuilt from the recorded draws and checked (S on the samples
        # accepted so far, K on the accept/reject sequence)
        partial = True
    except Exception as e:
        if lim.fired:
            partial = True
        else:
            r["bad"].append(("bluenoise:exception", f"bluenoise(k={k}, nx={nx}, ny={ny}) on a {c['mode']} stream (seed {c['seed']}) raised {type(e).__name__}: {e}"))
            return r
    if not partial:
        r["bad"] += spec_output(c, out)
    r["partial"] = partial
    log = rec.log
    shape_ok = (len(log) >= 1 and log[0][0] == "uniform" and log[0][3] is not None and np.shape(log[0][4]) == (2,))
    if not shape_ok:
        r["kmis"].append("first draw is not rng.uniform(size=(2,))")
        return r
    x0 = np.asarray(log[0][4], dtype=float) * np.array([nx, ny])
    samples = [x0]
    active = [0]
    iters = []          # (idx, cands (m,2) array, impl outcome string)
    i, n = 1, len(log)
    margin = np.inf
    tie = False
    near_agree = 0
    mind = np.inf
    while i < n:
        ev = log[i]
        if ev[0] != "choice":
            r["kmis"].append(f"draw {i}: expected rng.choice, got {ev[0]}")
            return r
        if ev[1] != active:
            r["kmis"].append(f"iteration {len(iters)}: active list {ev[1][:8]} differs from the one inferred {active[:8]}")
            return r
        idx = ev[2]
        if idx not in active or idx >= len(samples):
            r["kmis"].append("choice returned an index outside active_cells")
            return r
        i += 1
        xs = samples[idx]
        cands = []
        while i + 1 < n and log[i][0] == "uniform" and log[i][3] is None and log[i + 1][0] == "uniform" and log[i + 1][3] is None:
            rho, theta = log[i][4], log[i + 1][4]
            cands.append(xs + np.array([rho * np.cos(theta), rho * np.sin(theta)]))
            i += 2
        if i < n and log[i][0] != "choice":
            if partial and i >= n - 1:
                break                      # run cut in the middle of a candidate
            r["kmis"].append(f"draw {i}: unexpected {log[i][0]} in the candidate loop")
            return r
        if i >= n and partial:
            break                          # last iteration incomplete: dropped
        # outcome as seen through the next choice call (or the end of the loop)
        if i < n:
            nxt = log[i][1]
            if nxt == active + [len(samples)]:
                oc = "A"
            elif nxt == active:
                oc = "N"
            else:
                a2 = list(active)
                a2.remove(idx)
                oc = "R" if nxt == a2 else "?"
        else:
            oc = "R" if active == [idx] and len(out) == len(samples) else ("A!" if len(out) == len(samples) + 1 else "?")
        if oc in ("?", "A!"):
            r["kmis"].append(f"iteration {len(iters)}: cannot explain the change of active_cells {active[:8]} -> {(log[i][1][:8] if i < n else 'loop end')}")
            return r
        C = np.array(cands, dtype=float).reshape(-1, 2)
        # float distances of the in-domain candidates to the current samples: margin to r
        S = np.array(samples)
        if len(C):
            ind = ~(np.any(C < 0, axis=1) | np.any(C > np.array([nx, ny]), axis=1))
            if ind.any():
                D = np.linalg.norm(C[ind][:, None, :] - S[None, :, :], axis=-1)
                mind = min(mind, float(np.min(np.abs(D - 1.0))))
                near = np.abs(D - 1.0) < 4 * TOL
                if near.any():
                    for a, b in zip(*np.nonzero(near)):
                        p, q = C[ind][a], S[b]
                        d2 = (fr(p[0]) - fr(q[0])) ** 2 + (fr(p[1]) - fr(q[1])) ** 2
                        if d2 == 1:
                            tie = True
                        elif (d2 > 1) != bool(D[a, b] > 1.0):
                            # near-degenerate: float norm and exact arithmetic fall on different sides of r
                            margin = min(margin, abs(float(D[a, b]) - 1.0))
                        else:
                            near_agree += 1
        if oc == "A":
            if not cands:
                r["kmis"].append("sample appended without a candidate draw")
                return r
            samples.append(cands[-1])
            active = active + [len(samples) - 1]
        elif oc == "R":
            active = list(active)
            active.remove(idx)
        iters.append((idx, C, oc))
    if active and not partial:
        r["kmis"].append(f"loop ended with active_cells {active[:8]} non-empty")
        return r
    recon = np.array(samples) / np.array([nx, ny])
    if partial:
        out = recon
    if recon.shape != out.shape:
        r["kmis"].append(f"{len(out)} points returned, {len(samples)} accepted according to the draws")
        return r
    rerr = float(np.max(np.abs(recon - out))) if len(out) else 0.0
    if rerr > 1e-9:
        r["kmis"].append(f"returned points differ from x0 + rho*(cos, sin) rebuilt from the recorded draws by {rerr:.3g}")
        return r
    if rerr > 0 and mind < 1e3 * rerr * max(nx, ny):
        r["skip"] = "rebuilt-candidates-not-bit-identical-and-distance-near-r"
        return r
    if margin < np.inf:
        r["skip"] = "distance-within-1e-12-of-r-and-float-norm-on-the-other-side"
        return r
    # exact S on the pre-normalisation samples (dyadics): pairwise squared distance > 1
    F = [(fr(p[0]), fr(p[1])) for p in samples]
    for a in range(len(F)):
        for b in range(a + 1, len(F)):
            d2 = (F[a][0] - F[b][0]) ** 2 + (F[a][1] - F[b][1]) ** 2
            if d2 <= 1 and (d2 == 1 or float(d2) < 1 - 2 * TOL):
                r["bad"].append(("bluenoise:spacing", f"samples {a} and {b} are at squared distance {float(d2)!r} <= 1 (exactly, before normalisation) on a {c['mode']} stream: bluenoise(k={k}, nx={nx}, ny={ny}), stream seed {c['seed']}"))
                break
        else:
            continue
        break
    for p in F:
        if not (0 <= p[0] <= nx and 0 <= p[1] <= ny):
            r["bad"].append(("bluenoise:out-of-unit-square", f"sample {(float(p[0]), float(p[1]))} outside [0,{nx}]x[0,{ny}] was accepted on a {c['mode']} stream (k={k}, seed {c['seed']}{', run cut after %d draws' % len(log) if partial else ''})"))
            break
    # model input
    allc = [x0] + [C for (_, C, _) in iters if len(C)]
    flat = np.concatenate([np.asarray(a, dtype=float).reshape(-1, 2) for a in allc])
    sc = common_scale(flat)
    toks = ["bn", hx(sc), hx(nx), hx(ny), str(k)] + [hx(int(fr(v) * sc)) for v in x0] + [str(len(iters))]
    for idx, C, _ in iters:
        toks += [str(idx), str(len(C))]
        for p in C:
            toks += [hx(int(fr(p[0]) * sc)), hx(int(fr(p[1]) * sc))]
    cells_obs = None
    if not partial and isinstance(rec.cells_ref, dict):
        try:
            cells_obs = [[int(kk[0]), int(kk[1]), None if v is None else int(v)] for kk, v in rec.cells_ref.items()]
        except Exception:
            cells_obs = None
    xin = None
    if sum(len(C) for (_, C, _) in iters) <= 400:
        xin = (int(sc), [int(fr(v) * sc) for v in x0],
               [(int(idx), [(int(fr(p[0]) * sc), int(fr(p[1]) * sc)) for p in C]) for idx, C, _ in iters])
    r.update(cells_obs=cells_obs, xin=xin)
    r.update(line=" ".join(toks), sc=sc, tie=tie, rerr=rerr, near_agree=near_agree,
             trace=[(oc, len(C)) for (_, C, oc) in iters],
             samples=[[int(f[0] * sc), int(f[1] * sc)] for f in F], out=out,
             ncand=int(sum(len(C) for (_, C, _) in iters)))
    return r


def compare_bluenoise(ctx, r, o):
    """K: model answer o vs implementation trace r"""
    c = r["case"]
    k = c["k"]
    if "error" in o:
        raise RuntimeError(f"c19 driver error {o['error']} on {c}")
    if o["ok"] != ["1"]:
        ctx.k_mismatch("bluenoise: the model rejects the recorded stream (chosen index not in active_cells)", c)
        return
    cur = Cursor(o["trace"])
    mt = cur.list(cur.next)
    it = []
    for oc, m in r["trace"]:
        if oc == "A":
            it.append(f"A{m - 1}")
        else:
            it.append(oc)
            if m != k:
                ctx.k_mismatch(f"bluenoise: candidate loop stopped after {m} of k={k} attempts without accepting", c)
                return
    if mt != it:
        j = next((x for x in range(min(len(mt), len(it))) if mt[x] != it[x]), min(len(mt), len(it)))
        ctx.k_mismatch(f"bluenoise accept/reject sequence differs at iteration {j}: model {mt[j:j + 3]} implementation {it[j:j + 3]}", c)
        return
    cur = Cursor(o["samples"])
    ms = cur.list(lambda: [cur.z(), cur.z()])
    if ms != r["samples"]:
        ctx.k_mismatch("bluenoise: sample list differs between model and implementation", c)
        return
    if r["partial"]:
        ctx.res.extra["unfinished_runs_examined"] = ctx.res.extra.get("unfinished_runs_examined", 0) + 1
        ctx.res.traces += 1
        return
    if o["finished"] != ["1"]:
        ctx.k_mismatch("bluenoise: implementation returned while the model's active list is not empty", c)
        return
    cur = Cursor(o["normalised"])
    mq = cur.list(lambda: [Fraction(cur.z(), cur.z()), Fraction(cur.z(), cur.z())])
    out = r["out"]
    for p, q in zip(out, mq):
        for a, b in zip(p, q):
            if abs(Fraction(float(a)) - b) > max(Fraction(float(np.spacing(a))), Fraction(r["rerr"]) * 2):
                ctx.k_mismatch(f"bluenoise: returned coordinate {a!r} differs from the model's {float(b)!r} by more than 1 ulp", c)
                return
    ctx.res.traces += 1


def hyper_kicks(kick, log):
    """pointsets.py:66-70 recomputed from the recorded draws (same numpy expressions)"""
    mags, dirs = log[1][3], log[2][4]
    return kick * np.array([mags[:, 0] * np.cos(dirs * 2 * np.pi), mags[:, 1] * np.sin(dirs * 2 * np.pi)]).T


def hyper_final_points(nx, ny, kick, log):
    """pointsets.py:58-72 recomputed from the recorded draws (same numpy expressions)"""
    offs, mags, dirs = log[0][4], log[1][3], log[2][4]
    x = np.linspace(0, 1, nx)
    y = np.linspace(0, 1, ny)
    X, Y = np.meshgrid(x, y)
    cell_origins = np.array([X.flatten(), Y.flatten()]).T
    cell_offsets = offs * np.array([1 / nx, 1 / ny])
    initial_points = cell_origins + cell_offsets
    kicks = kick * np.array([mags[:, 0] * np.cos(dirs * 2 * np.pi), mags[:, 1] * np.sin(dirs * 2 * np.pi)]).T
    return initial_points + kicks


def prep_hyper(c):
    nx, ny, kick = c["nx"], c["ny"], c["kick"]
    r = {"case": c, "bad": [], "kmis": [], "skip": None}
    rec = RecRng(make_source(c))
    try:
        with limit(60):
            out = np.array(ps.hyperuniform(nx, ny, kickstrength=kick, rng=rec))
    except Exception as e:
        r["bad"].append(("hyperuniform:exception", f"hyperuniform({nx}, {ny}, {kick}) on a {c['mode']} stream raised {type(e).__name__}: {e}"))
        return r
    r["bad"] += spec_output(c, out)
    log = rec.log
    ok = (len(log) == 3 and log[0][0] == "uniform" and np.shape(log[0][4]) == (nx * ny, 2)
          and log[1][0] == "pareto" and np.shape(log[1][3]) == (nx * ny, 2)
          and log[2][0] == "uniform" and np.shape(log[2][4]) == (nx * ny,))
    if not ok:
        r["kmis"].append("hyperuniform: draws are not uniform(n,2), pareto(n,2), uniform(n)")
        return r
    # the third draw is multiplied by 2*pi in the code; hyper_final_points does the same
    fin = hyper_final_points(nx, ny, kick, log)
    if not np.all(np.isfinite(fin)):
        r["skip"] = "non-finite-kick"
        return r
    sc = common_scale(fin)
    toks = ["hu", hx(sc), str(len(fin))]
    for p in fin:
        toks += [hx(int(fr(p[0]) * sc)), hx(int(fr(p[1]) * sc))]
    r.update(line=" ".join(toks), fin=fin, out=out, sc=sc)
    # the jittered grid as coded (Model/PointsGrid.hu_final): offsets and kicks are the inputs, origins / scaling / order the model's
    offs = np.asarray(log[0][4], dtype=float)
    kicks = hyper_kicks(kick, log)
    if np.all(np.isfinite(kicks)):
        sc2 = common_scale(np.concatenate([offs.ravel(), kicks.ravel()]))
        oi = [(int(fr(p[0]) * sc2), int(fr(p[1]) * sc2)) for p in offs]
        ki = [(int(fr(p[0]) * sc2), int(fr(p[1]) * sc2)) for p in kicks]
        t2 = ["hf", hx(sc2), str(nx), str(ny), str(len(oi))]
        for a, b in oi:
            t2 += [hx(a), hx(b)]
        t2.append(str(len(ki)))
        for a, b in ki:
            t2 += [hx(a), hx(b)]
        r.update(hf=" ".join(t2), hfin=(int(sc2), oi, ki))
    return r


def compare_hyper(ctx, r, o):
    c = r["case"]
    if "error" in o:
        raise RuntimeError(f"c19 driver error {o['error']} on {c}")
    keep = [t == "1" for t in o["keep"][1:]]
    fin, out = r["fin"], r["out"]
    # every returned point bitwise one of the kicked points rebuilt from the draws?  then the comparison is exact
    # and nothing is near-degenerate; otherwise (a rewrite that rounds differently) a rebuilt coordinate within
    # 1e-12 of 0 or 1, but not exactly on it, makes the case undecidable here: counted and skipped
    fins = set(tuple(p) for p in fin.tolist())
    outl = [tuple(p) for p in out.tolist()]
    exact = all(p in fins for p in outl)
    d = np.minimum(np.abs(fin), np.abs(fin - 1))
    if not exact and np.any((d < TOL) & (d > 0)):
        ctx.res.skip("hyperuniform-coordinate-within-1e-12-of-border")
        return
    if np.any((d < TOL) & (d > 0)):
        ctx.res.extra["hyperuniform_near_border_points_decided_exactly"] = ctx.res.extra.get("hyperuniform_near_border_points_decided_exactly", 0) + int(np.sum((d < TOL) & (d > 0)))
    on_border = np.any(d == 0, axis=1) & np.all((fin >= 0) & (fin <= 1), axis=1)
    j = 0
    nborder = 0
    for i, p in enumerate(fin):
        present = j < len(outl) and (outl[j] == tuple(p.tolist()) if exact else np.allclose(outl[j], p, rtol=0, atol=1e-12))
        if keep[i]:
            if not present:
                ctx.k_mismatch(f"hyperuniform: point {p.tolist()} strictly inside the unit square is missing from the output (or out of order)", c)
                return
            j += 1
        elif on_border[i]:
            if present:          # the property allows the closed square: either is fine
                nborder += 1
                j += 1
        else:
            if present:
                ctx.k_mismatch(f"hyperuniform: point {p.tolist()} outside the unit square was returned", c)
                return
    if j != len(outl):
        ctx.k_mismatch(f"hyperuniform: {len(outl) - j} returned point(s) are not among the kicked points rebuilt from the draws", c)
        return
    if nborder:
        ctx.res.extra["hyperuniform_border_points_returned"] = ctx.res.extra.get("hyperuniform_border_points_returned", 0) + nborder
    ctx.res.traces += 1


# ------------------------------------------------------------------ K for Model/PointsGrid.v
# (a, b, m): cell size (b/a) r, half-width m, all with r <= m * cell size (C19_bluenoise_windowed_run_is_coded_run)
WINDOWS = [(1, 1, 1), (3, 2, 2), (2, 1, 2), (1, 1, 3), (7, 5, 2), (5, 4, 2)]


def compare_grid(ctx, r, o, more):
    """the windowed loop must give the answer of the coded loop (which compare_bluenoise ties to the implementation);
    the cells dictionary of the model vs the local dict of the implementation (informational, dead code);
    termination measure and packing bound on the implementation's trace"""
    c = r["case"]
    ex = ctx.res.extra
    g = ex.setdefault("grid_model", {"windowed_runs_equal_coded_run": 0, "window_too_small_runs": 0, "window_too_small_runs_that_differ": 0,
                                     "cells_dicts_compared_with_local_dict": 0, "cells_dicts_differ": 0, "cells_not_observed": 0,
                                     "cells_with_two_samples_overwritten": 0})
    if o.get("ok") != ["1"]:
        return
    if "bw" in more:
        (a, b, m), ow = more["bw"]
        if any(ow.get(kk) != o.get(kk) for kk in ("ok", "samples", "active", "finished", "trace")):
            ctx.k_mismatch(f"bluenoise: the loop with the {2 * m + 1}x{2 * m + 1} neighbour window over cells of size {b}/{a} differs from the coded loop (and so from the implementation's recorded run)", c)
            return
        g["windowed_runs_equal_coded_run"] += 1
        ctx.res.traces += 1
    if "bwneg" in more:
        _, ow = more["bwneg"]
        g["window_too_small_runs"] += 1
        if any(ow.get(kk) != o.get(kk) for kk in ("ok", "samples", "active", "finished", "trace")):
            g["window_too_small_runs_that_differ"] += 1
    na = sum(1 for t in r["trace"] if t[0] == "A")
    nr = sum(1 for t in r["trace"] if t[0] == "R")
    bound = max_samples(c["nx"], c["ny"])
    if na + nr > 2 * bound - 1 or len(r["samples"]) != 1 + na or (not r["partial"] and nr != len(r["samples"])):
        ctx.k_mismatch(f"bluenoise: implementation trace contradicts the count theorems: {na} accepts, {nr} removes, {len(r['samples'])} samples, packing bound {bound}", c)
        return
    if "cl" in more:
        _, oc = more["cl"]
        cur = Cursor(oc["cells"])
        mc = cur.list(lambda: [cur.z(), cur.z(), cur.onat()])
        if unhx(oc["max"][0]) != bound:
            ctx.k_mismatch("max_samples: model and harness disagree", c)
            return
        filled = sum(1 for e in mc if e[2] is not None)
        g["cells_with_two_samples_overwritten"] += len(r["samples"]) - filled
        if r.get("cells_obs") is None:
            g["cells_not_observed"] += 1
        else:
            g["cells_dicts_compared_with_local_dict"] += 1
            if mc != r["cells_obs"]:
                g["cells_dicts_differ"] += 1
                if g["cells_dicts_differ"] == 1:
                    print(f"NOTE C19: the local dict `cells` of bluenoise differs from Model/PointsGrid.cells_after on {describe_scripted(c)} "
                          f"(informational: the dict is never read, no output depends on it)", flush=True)
                    ex["cells_first_difference"] = {"case": c, "model": mc[:12], "implementation": r["cells_obs"][:12]}


def describe_scripted(c):
    return f"bluenoise(k={c['k']}, nx={c['nx']}, ny={c['ny']}) on a {c['mode']} stream (seed {c['seed']})"


def compare_hyper_grid(ctx, r, o):
    """Model/PointsGrid.hu_final / hyperuniform_full (exact, from the recorded offsets and the kicks) vs the kicked points rebuilt
    with the code's numpy expressions and vs the implementation's output; 1e-9 relative; crop decisions must coincide unless an
    exact coordinate is within 1e-12 of 0 or 1"""
    c = r["case"]
    g = ctx.res.extra.setdefault("hyper_grid_model", {"runs": 0, "points": 0, "returned": 0, "max_abs_err": 0.0})
    dx, dy = unhx(o["den"][0]), unhx(o["den"][1])
    cur = Cursor(o["final"])
    fin_m = cur.list(lambda: (Fraction(cur.z(), dx), Fraction(cur.z(), dy)))
    cur = Cursor(o["kept"])
    kept_m = cur.list(lambda: (Fraction(cur.z(), dx), Fraction(cur.z(), dy)))
    fin, out = r["fin"], r["out"]
    if len(fin_m) != len(fin):
        ctx.k_mismatch(f"hyperuniform: the model's grid has {len(fin_m)} points, the implementation's {len(fin)}", c)
        return
    worst = 0.0
    for j, (pm, pf) in enumerate(zip(fin_m, fin)):
        for a, b in zip(pm, pf):
            e = abs(float(a - Fraction(float(b))))
            worst = max(worst, e / max(1.0, abs(float(b))))
            if e > 1e-9 * max(1.0, abs(float(b))):
                ctx.k_mismatch(f"hyperuniform: point {j} of the jittered grid: model {float(a)!r}, rebuilt from the draws with the code's expressions {float(b)!r}", c)
                return
    # crop decisions point by point: the model's (exact) against the implementation's, read off its output (a subsequence of
    # the grid points, in order); a disagreement counts only if the point is not within 1e-12 of the border
    inside_m = [0 < p[0] < 1 and 0 < p[1] < 1 for p in fin_m]
    if sum(inside_m) != len(kept_m):
        ctx.k_mismatch("hyperuniform: the model's hyperuniform_full is not the inside part of its hu_final", c)
        return
    jj, inside_i = 0, []
    for pf in fin:
        hit = jj < len(out) and abs(float(out[jj][0]) - float(pf[0])) <= 1e-9 * max(1.0, abs(float(pf[0]))) \
            and abs(float(out[jj][1]) - float(pf[1])) <= 1e-9 * max(1.0, abs(float(pf[1])))
        inside_i.append(bool(hit))
        jj += 1 if hit else 0
    if jj != len(out):
        ctx.k_mismatch(f"hyperuniform: {len(out) - jj} returned point(s) are not grid points of the model (in order)", c)
        return
    eps = Fraction(1, 10 ** 12)
    for j, (fm, fi) in enumerate(zip(inside_m, inside_i)):
        if fm != fi:
            if any(min(abs(a), abs(a - 1)) < eps for a in fin_m[j]):
                ctx.res.skip("hyperuniform-exact-coordinate-within-1e-12-of-border")
                return
            ctx.k_mismatch(f"hyperuniform: grid point {j} = {tuple(float(a) for a in fin_m[j])} is {'inside' if fm else 'outside'} the open unit square but the implementation {'returned' if fi else 'dropped'} it", c)
            return
    g["runs"] += 1
    g["points"] += len(fin)
    g["returned"] += len(out)
    g["max_abs_err"] = max(g["max_abs_err"], worst)
    ctx.res.traces += 1


# ------------------------------------------------------------------ extraction cross-check (DESIGN 1.3)
def coq_crosscheck(ctx):
    """A sample of the c19 driver's answers collected in ctx.xc19 during the K phase is re-derived INSIDE Coq by vm_compute on
    the same literals: run_trace (state + outcome list), normalise, run_trace_window, cells_after, hyperuniform_crop /
    inside_open_unit, hu_final_l / hyperuniform_full_l / hu_den, uniform's length."""
    import xcheck as X
    pool, ctx.xc19 = ctx.xc19, None
    quick = ctx.tier == "quick"
    rng = np.random.default_rng([ctx.seed, 19, 99])

    def pick(xs, k):
        return [xs[i] for i in sorted(rng.choice(len(xs), size=min(len(xs), k), replace=False).tolist())] if len(xs) else []
    zp, nl = X.zpair, X.natlist
    body = ["Definition qq (q : Q) : Z * Z := (Qnum q, Zpos (Qden q)).",
            "Definition qq2 (p : Q * Q) := (qq (fst p), qq (snd p))."]
    g = lambda lhs, rhs: body.append(X.goal(lhs, rhs))
    bn = [t for t in pool if t[0]["case"]["fn"] == "bluenoise" and t[0].get("xin") and t[1].get("ok") == ["1"] and len(t[0]["trace"]) >= 2]
    # prefer runs in which something happens
    bn.sort(key=lambda t: -min(len(t[0]["samples"]), 6))
    bn = pick(bn[:max(8, len(bn) // 2)], 6 if quick else 40)
    nb = 0
    for n_, (r, o, more) in enumerate(bn):
        c = r["case"]
        sc, x0, its = r["xin"]
        cur = Cursor(o["samples"])
        ms = cur.list(lambda: (cur.z(), cur.z()))
        cur = Cursor(o["active"])
        act = cur.list(cur.int)
        cur = Cursor(o["trace"])
        tr = cur.list(cur.next)
        outs = []
        for t, (idx, cands) in zip(tr, its):
            outs.append("Remove" if t == "R" else "NoChange" if t == "N" else f"(Accept {X.nat(int(t[1:]))} {zp(cands[int(t[1:])])})")
        ITS = X.lst(lambda it: f"({X.nat(it[0])}, {X.lst(zp, it[1])})", its)
        body.append(f"Definition I{n_} : list (nat * list pt) := {ITS}.")
        answer = f"Some (mkState {X.lst(zp, ms)} {nl(act)}, [{'; '.join(outs)}])"
        args = f"{X.z(sc)} {X.z(c['nx'])} {X.z(c['ny'])} {X.nat(c['k'])} (init {zp(x0)}) I{n_}"
        g(f"run_trace {args}", answer)
        g(f"finished (mkState {X.lst(zp, ms)} {nl(act)})", X.boolean(o["finished"] == ["1"]))
        if "normalised" in o:
            cur = Cursor(o["normalised"])
            mq = cur.list(lambda: ((cur.z(), cur.z()), (cur.z(), cur.z())))
            g(f"map (fun p => qq2 (normalise {X.z(sc)} {X.z(c['nx'])} {X.z(c['ny'])} p)) {X.lst(zp, ms)}", X.lst(X.pair(zp, zp), mq))
        if "bw" in more:
            (a, b, m), ow = more["bw"]
            if ow.get("trace") == o.get("trace") and ow.get("samples") == o.get("samples") and ow.get("active") == o.get("active"):
                g(f"run_trace_window {X.z(a)} {X.z(b)} {X.z(m)} {args}", answer)
        if "cl" in more:
            cur = Cursor(more["cl"][1]["cells"])
            mc = cur.list(lambda: ((cur.z(), cur.z()), cur.onat()))
            g(f"cells_after {X.z(sc)} {X.z(c['nx'])} {X.z(c['ny'])} {X.lst(zp, ms)}", X.lst(X.pair(zp, X.option(X.nat, "nat")), mc))
            g(f"max_samples {X.z(c['nx'])} {X.z(c['ny'])}", X.z(unhx(more["cl"][1]["max"][0])))
        nb += 1
    hu = [t for t in pool if t[0]["case"]["fn"] == "hyperuniform" and t[0]["case"]["nx"] * t[0]["case"]["ny"] <= 60 and "keep" in t[1]]
    nh = 0
    for n_, (r, o, more) in enumerate(pick(hu, 4 if quick else 25)):
        c = r["case"]
        sc = r["sc"]
        pts = [(int(fr(p[0]) * sc), int(fr(p[1]) * sc)) for p in r["fin"]]
        body.append(f"Definition P{n_} : list pt := {X.lst(zp, pts)}.")
        cur = Cursor(o["crop"])
        crop = cur.list(lambda: (cur.z(), cur.z()))
        g(f"hyperuniform_crop {X.z(sc)} P{n_}", X.lst(zp, crop))
        g(f"map (inside_open_unit {X.z(sc)}) P{n_}", X.lst(X.boolean, [t == "1" for t in o["keep"][1:]]))
        cur = Cursor(o["unit"])
        un = cur.list(lambda: ((cur.z(), cur.z()), (cur.z(), cur.z())))
        g(f"map qq2 (hyperuniform {X.z(sc)} P{n_})", X.lst(X.pair(zp, zp), un))
        if "hf" in more and "hfin" in r:
            sc2, oi, ki = r["hfin"]
            oh = more["hf"][1]
            cur = Cursor(oh["final"])
            fm = cur.list(lambda: (cur.z(), cur.z()))
            cur = Cursor(oh["kept"])
            km = cur.list(lambda: (cur.z(), cur.z()))
            body.append(f"Definition O{n_} : list pt := {X.lst(zp, oi)}.")
            body.append(f"Definition K{n_} : list pt := {X.lst(zp, ki)}.")
            hargs = f"{X.z(sc2)} {X.nat(c['nx'])} {X.nat(c['ny'])}"
            g(f"hu_final_l {hargs} O{n_} K{n_}", X.lst(zp, fm))
            g(f"hyperuniform_full_l {hargs} O{n_} K{n_}", X.lst(zp, km))
            g(f"(hu_den {X.z(sc2)} {X.nat(c['nx'])}, hu_den {X.z(sc2)} {X.nat(c['ny'])})", zp((unhx(oh["den"][0]), unhx(oh["den"][1]))))
        nh += 1
    for n in (0, 1, 7, 100):
        o = run_driver(ctx.exe["c19"], [f"un {n}"])[0]
        g(f"length (uniform {X.nat(n)} (fun _ => (0, 0)))", X.nat(int(o["len"][0])))
    res = ctx.res
    if os.environ.get("C19_KEEP_CASES"):
        open(os.environ["C19_KEEP_CASES"], "w").write("\n".join(body) + "\n")
    res.extra["extraction_crosscheck_goals_vm_compute"] = X.compile_goals("c19", "Model.Points Model.PointsGrid", body, "c19", stdlib="List ZArith Bool QArith")
    res.extra["extraction_crosscheck_cases"] = {"bluenoise_runs": nb, "hyperuniform_runs": nh, "uniform": 4, "pool": len(pool)}
    res.extra["extraction_crosscheck_wall_s"] = X.LAST_WALL


def prep(c):
    if c["fn"] == "bluenoise":
        return prep_bluenoise(c)
    return prep_hyper(c)


# ------------------------------------------------------------------ generators
KQ = [1, 2, 3, 5, 8, 13, 20, 21, 30, 40]


def real_cases(tier, seed):
    g = np.random.default_rng([seed, 19, 1])
    cases = []
    shapes = [(nx, ny) for nx in range(1, 13) for ny in range(1, 13)]
    # (a) k >= 20 on every grid shape, several seeds per shape (the extent clause is judged per shape)
    nseeds = 3 if tier == "quick" else 6
    for (nx, ny) in shapes:
        for s in range(nseeds):
            k = int(g.choice([20, 20, 25, 30, 40])) if tier == "quick" else int(g.integers(20, 41))
            cases.append({"fn": "bluenoise", "mode": "real", "k": k, "nx": nx, "ny": ny, "seed": int(g.integers(0, 2 ** 31)), "gseed": int(g.integers(0, 2 ** 31))})
    # (b) all k in 1..40
    if tier == "quick":
        for k in range(1, 41):
            for (nx, ny) in [shapes[i] for i in g.choice(len(shapes), 5, replace=False)]:
                cases.append({"fn": "bluenoise", "mode": "real", "k": k, "nx": nx, "ny": ny, "seed": int(g.integers(0, 2 ** 31)), "gseed": int(g.integers(0, 2 ** 31))})
    else:
        for k in range(1, 41):
            for (nx, ny) in shapes:
                cases.append({"fn": "bluenoise", "mode": "real", "k": k, "nx": nx, "ny": ny, "seed": int(g.integers(0, 2 ** 31)), "gseed": int(g.integers(0, 2 ** 31))})
    # hyperuniform 2..20 squared, kicks 0..0.1
    kicks = [0.0, 1e-3, 1e-2, 0.05, 0.1]
    for nx in range(2, 21):
        for ny in range(2, 21):
            ks = [kicks[(nx * 19 + ny) % 5], float(g.uniform(0, 0.1))] if tier == "quick" else kicks + [float(g.uniform(0, 0.1)) for _ in range(3)]
            for kick in ks:
                cases.append({"fn": "hyperuniform", "mode": "real", "nx": nx, "ny": ny, "kick": kick, "seed": int(g.integers(0, 2 ** 31)), "gseed": int(g.integers(0, 2 ** 31))})
    # uniform 0..1000
    ns = sorted(set([0, 1, 2, 3, 5, 10, 64, 100, 999, 1000] + [int(x) for x in g.integers(0, 1001, 40)])) if tier == "quick" else list(range(0, 1001))
    for n in ns:
        cases.append({"fn": "uniform", "mode": "real", "n": n, "seed": int(g.integers(0, 2 ** 31)), "gseed": int(g.integers(0, 2 ** 31))})
    return cases


def scripted_cases(tier, seed):
    g = np.random.default_rng([seed, 19, 2])
    cases = []
    nb = 160 if tier == "quick" else 1500
    budget = 2500 if tier == "quick" else 6000      # nx*ny*k bound keeps the exact model run short
    while len(cases) < nb:
        nx, ny = int(g.integers(1, 13)), int(g.integers(1, 13))
        if g.random() < 0.2:
            ny = nx
        k = int(g.integers(1, 41))
        if nx * ny * k > budget:
            continue
        cases.append({"fn": "bluenoise", "mode": "scripted", "k": k, "nx": nx, "ny": ny, "seed": int(g.integers(0, 2 ** 31)), "limit": 30})
    # a few full-size ones
    for (k, nx, ny) in ([(40, 12, 12), (20, 12, 7), (25, 5, 12)] if tier == "quick" else [(40, 12, 12), (40, 12, 11), (20, 12, 7), (25, 5, 12), (33, 9, 12), (40, 10, 10), (7, 12, 12)]):
        cases.append({"fn": "bluenoise", "mode": "scripted", "k": k, "nx": nx, "ny": ny, "seed": int(g.integers(0, 2 ** 31)), "limit": 30})
    na = 150 if tier == "quick" else 1500
    for _ in range(na):
        nx, ny = int(g.integers(1, 6)), int(g.integers(1, 6))
        cases.append({"fn": "bluenoise", "mode": "adversarial", "k": int(g.integers(1, 13)), "nx": nx, "ny": ny, "seed": int(g.integers(0, 2 ** 31)), "limit": 10})
    nh = 120 if tier == "quick" else 1200
    for i in range(nh):
        nx, ny = int(g.integers(2, 21)), int(g.integers(2, 21))
        mode = "adversarial" if i % 3 == 0 else "scripted"
        kick = 0.0 if (mode == "adversarial" and i % 2 == 0) else float(g.choice([0.0, 1e-3, 0.01, 0.05, 0.1, float(g.uniform(0, 0.1))]))
        cases.append({"fn": "hyperuniform", "mode": mode, "nx": nx, "ny": ny, "kick": kick, "seed": int(g.integers(0, 2 ** 31))})
    return cases


# ------------------------------------------------------------------ evaluation
def pmap(f, items, jobs=8):
    if len(items) <= 2:
        return [f(x) for x in items]
    ctxm = multiprocessing.get_context("fork")
    with ctxm.Pool(jobs) as pool:
        return pool.map(f, items, chunksize=max(1, len(items) // (jobs * 64)))


def nontrivial_key(c, n):
    if n is None:
        return None
    if c["fn"] == "bluenoise":
        return digest(c) if n >= 2 else None
    return digest(c) if n >= 1 else None


def evaluate_real(ctx, cases):
    res = ctx.res
    # batches in shuffled order: if the implementation systematically does not return, the remaining
    # real-generator bluenoise runs are dropped (the scripted runs examine unfinished runs state by state)
    order = list(np.random.default_rng([ctx.seed, 5]).permutation(len(cases)))
    cases = [cases[i] for i in order]
    results, pos, aborted = [], 0, 0
    while pos < len(cases):
        batch = cases[pos:pos + (320 if pos == 0 else 2400)]
        pos += len(batch)
        rs = pmap(eval_real, batch)
        results += rs
        bn = [r for r in rs if r["case"]["fn"] == "bluenoise"]
        if len(bn) >= 40 and sum(r["timeout"] for r in bn) > 0.3 * len(bn):
            rest = cases[pos:]
            aborted = sum(1 for c in rest if c["fn"] == "bluenoise")
            cases = cases[:pos] + [c for c in rest if c["fn"] != "bluenoise"]
    if aborted:
        res.skipped["real-bluenoise-runs-dropped-after-systematic-timeouts"] = res.skipped.get("real-bluenoise-runs-dropped-after-systematic-timeouts", 0) + aborted
    ext = {}
    hk = res.extra.setdefault("bluenoise_k_histogram", {})
    hn = res.extra.setdefault("bluenoise_points_histogram", {})
    for r in results:
        c = r["case"]
        fam = c["fn"] + "/" + c["mode"] + ("/nx!=ny" if c["fn"] != "uniform" and c["nx"] != c["ny"] else "")
        if r["timeout"]:
            res.skip("implementation-run-exceeded-time-limit")
            lst = res.extra.setdefault("calls_that_did_not_return_within_limit", [])
            if len(lst) < 6:
                lst.append(describe(c))
            continue
        res.count(fam, nontrivial_key(c, r["n"]))
        for key, what in r["bad"]:
            res.violation(key, what, c)
        if c["fn"] == "bluenoise":
            kb = "k<5" if c["k"] < 5 else "k<20" if c["k"] < 20 else "k>=20"
            hk[kb] = hk.get(kb, 0) + 1
            if r["n"] is not None:
                nb = "1" if r["n"] == 1 else "2-10" if r["n"] <= 10 else "11-50" if r["n"] <= 50 else ">50"
                hn[nb] = hn.get(nb, 0) + 1
            if c["k"] >= 20 and r["extent"] is not None:
                ext.setdefault((c["nx"], c["ny"]), []).append((r["extent"], c))
        if c["fn"] == "bluenoise" and r["n"] and r["n"] >= 2:
            res.sample({"call": describe(c), "points": r["n"], "extent_lo_hi": r["extent"][1:] if r["extent"] else None})
    # the probabilistic clause, per grid shape
    single = 0
    for shape, lst in sorted(ext.items()):
        fails = [(e, c) for (e, c) in lst if not e[0]]
        single += len(fails)
        if len(lst) >= 3 and len(fails) == len(lst):
            e, c = fails[0]
            res.violation("bluenoise:extent",
                          f"grid shape {shape}: on all {len(lst)} seeds the points do not extend to within two grid spacings of all four sides, e.g. {describe(c)}: min {e[1]}, max {e[2]} (before normalisation)",
                          {"cases": [cc for (_, cc) in fails[:6]], "fn": "bluenoise-extent"})
    res.extra["extent_runs_k>=20"] = sum(len(v) for v in ext.values())
    res.extra["extent_single_seed_failures"] = res.extra.get("extent_single_seed_failures", 0) + single
    res.extra["extent_shapes_judged"] = len(ext)


def evaluate_scripted(ctx, cases):
    res = ctx.res
    # batches in shuffled order: when the implementation systematically does not return, the remaining runs are
    # cut after a short prefix of draws (the prefix is still examined state by state)
    order = list(np.random.default_rng([ctx.seed, 6]).permutation(len(cases)))
    cases = [dict(cases[i]) for i in order]
    preps, pos, short = [], 0, False
    while pos < len(cases):
        batch = cases[pos:pos + (96 if pos == 0 else 640)]
        pos += len(batch)
        batch.sort(key=lambda c: -(c["nx"] * c["ny"] * c.get("k", 1)))      # long runs first
        if short:
            for c in batch:
                if c["fn"] == "bluenoise":
                    c["cap"], c["limit"] = 6000, 5
        rs = pmap(prep, batch)
        preps += rs
        bn = [r for r in rs if r["case"]["fn"] == "bluenoise"]
        if len(bn) >= 20 and sum(bool(r.get("partial")) for r in bn) > 0.3 * len(bn):
            short = True
    if short:
        res.extra["scripted_runs_cut_short_after_systematic_non_return"] = True
    lines, keep = [], []
    for r in preps:
        c = r["case"]
        fam = c["fn"] + "/" + c["mode"] + ("/nx!=ny" if c["nx"] != c["ny"] else "")
        for key, what in r["bad"]:
            res.violation(key, what, c)
        if r["skip"]:
            res.skip(r["skip"])
            continue
        res.count(fam, digest(c) if ("out" in r and r["out"] is not None and len(r["out"]) >= (2 if c["fn"] == "bluenoise" else 1)) else None)
        if r["kmis"]:
            ctx.k_mismatch(f"{c['fn']} ({c['mode']} stream): " + r["kmis"][0], c)
            continue
        if "line" in r:
            lines.append(r["line"])
            keep.append(r)
    # extra model runs on the same inputs (Model/PointsGrid.v): the loop with a neighbour-window test (must be the coded
    # loop), the cells dictionary, hyperuniform's jittered grid
    extra = []
    for n_, r in enumerate(keep):
        if r["case"]["fn"] == "bluenoise":
            a, b, m = WINDOWS[n_ % len(WINDOWS)]
            # the windowed model divides big integers per (candidate, sample): every run in the quick tier, every third in the thorough one
            if ctx.tier == "quick" or n_ % 3 == 0 or len(r["line"]) < 3000:
                extra.append(("bw", n_, f"bw {hx(a)} {hx(b)} {hx(m)} " + r["line"][3:], (a, b, m)))
                if len(r["line"]) < 6000:
                    extra.append(("bwneg", n_, f"bw 3 2 1 " + r["line"][3:], (3, 2, 1)))
            if not r["partial"]:
                toks = ["cl", hx(r["sc"]), hx(r["case"]["nx"]), hx(r["case"]["ny"]), str(len(r["samples"]))]
                for x, y in r["samples"]:
                    toks += [hx(x), hx(y)]
                extra.append(("cl", n_, " ".join(toks), None))
        elif "hf" in r:
            extra.append(("hf", n_, r["hf"], None))
    all_lines = lines + [e[2] for e in extra]
    # longest inputs first and strided over the driver processes: balanced load
    order = sorted(range(len(all_lines)), key=lambda i: -len(all_lines[i]))
    so = run_driver_parallel(ctx.exe["c19"], [all_lines[i] for i in order], jobs=min(16, os.cpu_count() or 8))
    outs = [None] * len(all_lines)
    for i, o in zip(order, so):
        outs[i] = o
    xouts = outs[len(lines):]
    outs = outs[:len(lines)]
    more = {}
    for (kind, n_, _, meta), o in zip(extra, xouts):
        if "error" in o:
            raise RuntimeError(f"c19 driver error {o['error']} on {kind} of {keep[n_]['case']}")
        more.setdefault(n_, {})[kind] = (meta, o)
    st = res.extra.setdefault("scripted_trace_totals", {"iterations": 0, "accepted": 0, "removed": 0, "nochange": 0, "candidates": 0, "exact_ties_r": 0})
    keep_index = {id(r): n_ for n_, r in enumerate(keep)}
    for r, o in zip(keep, outs):
        if r["case"]["fn"] == "bluenoise":
            compare_bluenoise(ctx, r, o)
            st["iterations"] += len(r["trace"])
            st["accepted"] += sum(1 for t in r["trace"] if t[0] == "A")
            st["removed"] += sum(1 for t in r["trace"] if t[0] == "R")
            st["nochange"] += sum(1 for t in r["trace"] if t[0] == "N")
            st["candidates"] += r["ncand"]
            st["exact_ties_r"] += 1 if r["tie"] else 0
            st["near_ties_same_side"] = st.get("near_ties_same_side", 0) + r["near_agree"]
            compare_grid(ctx, r, o, more.get(keep_index[id(r)], {}))
            if len(r["trace"]) > 3:
                res.sample({"call": f"bluenoise(k={r['case']['k']}, nx={r['case']['nx']}, ny={r['case']['ny']}) on a {r['case']['mode']} stream",
                            "iterations": len(r["trace"]), "trace_head": ["%s%d" % t for t in r["trace"][:8]], "points": len(r["out"])}, cap=8)
        else:
            compare_hyper(ctx, r, o)
            if "hf" in more.get(keep_index[id(r)], {}):
                compare_hyper_grid(ctx, r, more[keep_index[id(r)]]["hf"][1])
    pool = getattr(ctx, "xc19", None)
    if pool is not None:
        for r, o in zip(keep, outs):
            pool.append((r, o, more.get(keep_index[id(r)], {})))


def evaluate_uniform_model(ctx, tier):
    ns = [0, 1, 2, 7, 100, 1000] if tier == "quick" else list(range(0, 1001, 7)) + [1000]
    outs = run_driver(ctx.exe["c19"], [f"un {n}" for n in ns])
    for n, o in zip(ns, outs):
        m = len(ps.uniform(n, rng=np.random.default_rng(n)))
        if o["len"] != [str(m)]:
            ctx.k_mismatch(f"uniform({n}): model returns {o['len'][0]} points, implementation {m}", {"fn": "uniform", "mode": "real", "n": n, "seed": n, "gseed": 1})
        else:
            ctx.res.traces += 1


def run(ctx):
    ctx.res.rule = ("S: bluenoise(k, nx, ny) on every grid shape 1..12 x 1..12 (nx != ny included) with k >= 20 on several seeds per shape, all k in 1..40; "
                    "hyperuniform 2..20 x 2..20 with kicks 0..0.1; uniform n in 0..1000; every call made twice with equally seeded Generators and differently seeded global generator. "
                    "K: the same functions driven by a recording duck-typed rng (real stream, and adversarial streams with exact ties), accept/reject sequence compared with the extracted model. "
                    "non-trivial = distinct call with >= 2 returned points (bluenoise: at least one accepted candidate) or >= 1 point (hyperuniform, uniform)")
    evaluate_real(ctx, real_cases(ctx.tier, ctx.seed))
    ctx.xc19 = []
    evaluate_scripted(ctx, scripted_cases(ctx.tier, ctx.seed))
    evaluate_uniform_model(ctx, ctx.tier)
    coq_crosscheck(ctx)      # extraction cross-check: a sample of the driver's answers re-derived inside Coq


def search(ctx):
    """after a proof / the translator / K broke: other seed, larger budget"""
    t = "thorough" if ctx.tier != "quick" else "quick"
    evaluate_real(ctx, real_cases(t, ctx.seed + 1))
    evaluate_scripted(ctx, scripted_cases(t, ctx.seed + 1))


def replay(ctx, payload):
    c = payload["case"]
    if c.get("fn") == "bluenoise-extent":
        evaluate_real(ctx, c["cases"])
    elif c.get("mode") == "real":
        evaluate_real(ctx, [c])
    else:
        evaluate_scripted(ctx, [c])
