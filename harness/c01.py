"""C01 — plaquettes are exactly the legitimate faces of the embedded graph."""
from lib import *  # noqa
import gen, latmodel
from koala.lattice import Lattice, LatticeException

DRIVERS = ("lat", "c01s")
MODEL_TARGETS = ["Model/Lattice.vo", "Model/SpecC01.vo"]
TARGETS = ["Proofs/LatticeFacts.vo", "Proofs/SpecC01Facts.vo", "Proofs/WindingConvexTri.vo", "Proofs/WindingConvex.vo", "Proofs/WindingConvexDec.vo", "Proofs/WindingConvexG1.vo", "Proofs/WindingConvexRef.vo"]
LEVEL = "proof"
TRUST = [
    "hand-written Gallina model coq/Model/Lattice.v of lattice.py (_sorted_vertex_adjacent_edges, _find_plaquette, _find_all_plaquettes): modelled, not verified; tied to the code by the correspondence run below",
    "float arctan2 ordering and float winding sum of the implementation are compared with the exact predicates; inputs whose smallest angular margin is < 1e-9 are counted and skipped (genericity clause)",
    "geometry fact G1 (coded winding number = -1 <=> positive area) is PROVED for triangles and for convex walks of any length in both orientations (C01_G1_triangle, C01_G1_convex, C01_G1_convex_lattice); for non-convex simple walks it is Hopf's Umlaufsatz, not proved, compared on every generated input (the extracted checker reports g1_holds per lattice); G2 (orbits of next_dart are the faces of the embedding) is the definition of 'face' used here",
    "the property itself is decided on the implementation's output by the EXTRACTED checker spec_c01 (proved: spec_c01 L P = true <-> P enumerates, each once, the legit nd-orbits with positive area), next to a Python restatement that must agree with it; only the float clause 'center is the area centroid' is checked in Python alone (tolerance)",
    "S: the extracted Gallina checker spec_c01n (coq/Model/SpecC01.v; sound AND complete for legit_enumeration by C01_spec_checker_correct) decides every combinatorial clause on the implementation's plaquette list; "
    "the Python restatement spec_on_impl is kept beside it (the two verdicts are compared on every case) and alone covers the float clause 'center is the area centroid'",
]
ASSUMPTIONS = ["straight-line drawing without crossing edges, generic vertex positions (property quantifier)"]


def canon_cycle(darts):
    i = darts.index(min(darts))
    return tuple(darts[i:] + darts[:i])


def spec_on_impl(pos, edges, crossing, r, faces, S):
    """The property, restated directly on the implementation's output.  Returns list of
    (key, what).  faces: the model's face list (exact), used for 'exactly the legit faces'."""
    bad = []
    pl = r["plaquettes"]
    seen = {}
    for i, p in enumerate(pl):
        n = len(p["edges"])
        if not (len(p["vertices"]) == n == len(p["directions"]) == p["n_sides"]) or n == 0:
            bad.append(("walk-length", f"plaquette {i}: inconsistent lengths"))
            continue
        for k in range(n):
            e, d = p["edges"][k], p["directions"][k]
            j, kk = int(edges[e][0]), int(edges[e][1])
            tail, head = (j, kk) if d == 1 else (kk, j)
            if tail != p["vertices"][k] or head != p["vertices"][(k + 1) % n]:
                bad.append(("closed-walk", f"plaquette {i} step {k}: edge {e} dir {d} does not lead from vertex {p['vertices'][k]} to {p['vertices'][(k + 1) % n]}"))
                break
        if len(set(p["edges"])) != n:
            bad.append(("edge-twice", f"plaquette {i} uses an edge twice"))
        net = sum(np.array(crossing[e]) * d for e, d in zip(p["edges"], p["directions"]))
        if np.any(net != 0):
            bad.append(("net-crossing", f"plaquette {i} has net crossing {net.tolist()} (edge vectors do not sum to zero)"))
        for e, d in zip(p["edges"], p["directions"]):
            if (e, d) in seen:
                bad.append(("dart-twice", f"directed edge {(e, d)} belongs to plaquettes {seen[(e, d)]} and {i}"))
            seen[(e, d)] = i
        # exact area and centroid of the implementation's own walk
        P = [(Fraction(float(pos[p["vertices"][0]][0])), Fraction(float(pos[p["vertices"][0]][1])))]
        pts = []
        cur = P[0]
        for e, d in zip(p["edges"], p["directions"]):
            j, kk = int(edges[e][0]), int(edges[e][1])
            v = (Fraction(float(pos[kk][0])) - Fraction(float(pos[j][0])) + int(crossing[e][0]),
                 Fraction(float(pos[kk][1])) - Fraction(float(pos[j][1])) + int(crossing[e][1]))
            cur = (cur[0] + d * v[0], cur[1] + d * v[1])
            pts.append(cur)
        a2 = sum(pts[k][0] * pts[(k + 1) % n][1] - pts[(k + 1) % n][0] * pts[k][1] for k in range(n))
        if a2 <= 0:
            bad.append(("orientation", f"plaquette {i} has non-positive area {float(a2) / 2}"))
        else:
            cx = sum((pts[k][0] + pts[(k + 1) % n][0]) * (pts[k][0] * pts[(k + 1) % n][1] - pts[(k + 1) % n][0] * pts[k][1]) for k in range(n)) / (3 * a2)
            cy = sum((pts[k][1] + pts[(k + 1) % n][1]) * (pts[k][0] * pts[(k + 1) % n][1] - pts[(k + 1) % n][0] * pts[k][1]) for k in range(n)) / (3 * a2)
            c = np.array([float(cx), float(cy)])
            cond = 512 * n * 2.3e-16 / (float(a2) / 2)       # float conditioning of the centroid quotient on tiny plaquettes
            if not np.all(np.abs(c - p["center"]) <= 1e-7 * (1 + np.abs(c)) + cond):
                bad.append(("center", f"plaquette {i}: center {p['center']} is not the area centroid {c}"))
    # exactly the legit faces, each once
    if faces is not None:
        legit = [canon_cycle([(e, 1 if d else -1) for (e, v, d) in f["walk"]]) for f in faces
                 if f["nodup"] and f["netzero"] and f["area2"] > 0]
        rep = [canon_cycle(list(zip(p["edges"], p["directions"]))) for p in pl]
        if len(set(rep)) != len(rep):
            bad.append(("duplicate", "a plaquette is reported twice"))
        missing = set(legit) - set(rep)
        extra = set(rep) - set(legit)
        if missing:
            bad.append(("missing-face", f"{len(missing)} legitimate face(s) not reported, e.g. {sorted(missing)[0][:6]}"))
        if extra:
            bad.append(("extra-face", f"{len(extra)} reported plaquette(s) are not legitimate faces, e.g. {sorted(extra)[0][:6]}"))
    return bad


SPEC_KEYS = ["model-faces", "walk-length", "closed-walk", "not-a-face", "edge-twice", "net-crossing", "orientation",
             "not-legit", "duplicate", "missing-face"]


def ser_plaquettes(pl):
    """the implementation's plaquettes as driver tokens: nP { n_sides, vertices, edges, directions(1/0) }"""
    toks = [str(len(pl))]
    for p in pl:
        toks.append(str(int(p["n_sides"])))
        toks += [str(len(p["vertices"]))] + [str(int(x)) for x in p["vertices"]]
        toks += [str(len(p["edges"]))] + [str(int(x)) for x in p["edges"]]
        toks += [str(len(p["directions"]))] + ["1" if int(x) == 1 else "0" for x in p["directions"]]
    return " ".join(toks)


def spec_extracted(ctx, pending, label):
    """Run the PROVED checker (extracted spec_c01n) on the implementation's plaquette lists collected in
    `pending` = [(case, lattice line, plaquettes, python_keys)], report its rejections as violations
    spec_c01:<subcheck>, and compare its verdict with the Python restatement's."""
    res = ctx.res
    if not pending:
        return
    lines = ["spec " + line + " " + ser_plaquettes(pl) for (_, line, pl, _) in pending]
    outs = run_driver_parallel(ctx.exe["c01s"], lines)
    ex = res.extra
    for k in ("spec_c01_cases", "spec_c01_accepts", "spec_c01_rejects", "spec_c01_agree_with_python_S", "spec_c01_disagree_with_python_S",
              "spec_c01_G1_false", "spec_c01_plaquettes_checked"):
        ex.setdefault(k, 0)
    for (c, line, pl, pykeys), o in zip(pending, outs):
        if "error" in o:
            raise RuntimeError(f"c01s driver error {' '.join(o['error'])} on {c}")
        if o["good"][0] != "1":
            raise RuntimeError(f"c01s: lattice is not `good` (hypothesis of C01_spec_checker_correct) on {c}")
        ok = o["verdict"][0] == "1"
        ex["spec_c01_cases"] += 1
        ex["spec_c01_plaquettes_checked"] += len(pl)
        ex["spec_c01_accepts" if ok else "spec_c01_rejects"] += 1
        if o["g1"][0] != "1":
            ex["spec_c01_G1_false"] += 1
        if not ok:
            if o["first"][0] != "N":
                sub = SPEC_KEYS[int(o["first"][0])]
            else:
                sub = "n-sides"
            item = o["item"][0] if sub != "n-sides" else o["nsides"][0]
            what = (f"extracted checker spec_c01n rejects the implementation's plaquette list: first failing sub-check '{sub}' "
                    f"(sub-check verdicts {''.join(o['checks'])}; G1 on this lattice: {o['g1'][0]}); ")
            if sub == "missing-face":
                what += f"legitimate model face #{item} (of all_faces) is not reported"
            elif item != "N":
                i = int(item)
                what += f"offending plaquette #{i}: " + json.dumps({k: pl[i][k] for k in ("vertices", "edges", "directions", "n_sides")})
            res.violation("spec_c01:" + sub, what, c)
        # the two statements of the property must agree (the float clause 'center' is outside the extracted checker)
        py_ok = not [k for k in pykeys if k != "center"]
        if py_ok == ok:
            ex["spec_c01_agree_with_python_S"] += 1
        else:
            ex["spec_c01_disagree_with_python_S"] += 1
            ctx.k_mismatch(f"{label}: Python restatement S {'accepts' if py_ok else 'rejects ' + str(sorted(set(pykeys)))} but the extracted "
                           f"spec_c01n {'accepts' if ok else 'rejects (' + SPEC_KEYS[int(o['first'][0])] + ')' if o['first'][0] != 'N' else 'rejects (n-sides)'}", c)


def parse_faces(d):
    if d["faces"][0] == "ERR":
        return None
    out = []
    for i in range(int(d["faces"][0])):
        c = Cursor(d[f"f{i}"])
        walk = c.list(lambda: (c.int(), c.int(), c.next() == "1"))
        out.append({"walk": walk, "nodup": c.next() == "1", "netzero": c.next() == "1", "winding": c.z(), "area2": c.z()})
    return out


def evaluate(ctx, cases, label):
    res = ctx.res
    built, lines = [], []
    pending = []   # cases for the extracted spec checker
    for c in cases:
        arr, why = gen.try_build(c)
        if arr is None:
            res.skip("generator-could-not-build-base")
            continue
        line, S = ser_lattice_arrays(*arr)
        built.append((c, arr, S, line))
        lines.append("latfaces " + line)
    outs = run_driver_parallel(ctx.exe["lat"], lines)
    for (c, (pos, edges, crossing), S, line), o in zip(built, outs):
        m = latmodel.parse_model(o, S)
        if "error" in m:
            raise RuntimeError(f"driver error {m['error']} on {c}")
        faces = parse_faces(o)
        noloops = m["noloops"]
        fam = c["family"] + ("/" + c["base"]["family"] if "base" in c else "")
        try:
            r = latmodel.impl_report(pos, edges, crossing)
        except LatticeException:
            r = {"plaquettes": None, "constructor_raised": True}
        except Exception as e:
            if len(edges) == 0:
                # no edges at all: np.max of an empty coordination array (same root cause as C02's bincount)
                res.count(fam)
                res.violation("plaquettes:lattice-without-edges", f"Lattice with {len(pos)} vertices and no edges: accessing plaquettes raises {type(e).__name__}: {e}", c)
                continue
            res.count(fam)
            res.violation("constructor-exception", f"{type(e).__name__}: {e}", c)
            continue
        if "lat" in r:
            margin = angular_margin(r["lat"])
            if margin < 1e-9:
                res.skip("nongeneric-angular-margin<1e-9")
                continue
        if not noloops:
            # malformed stream: property quantifies over lattices without self-loops; only
            # require that model and implementation fail in the same way
            res.hist["malformed/self-loop"] = res.hist.get("malformed/self-loop", 0) + 1
            if (m["plaquettes"] is None) != (r.get("plaquettes") is None):
                ctx.k_mismatch("self-loop lattice: model and implementation disagree on LatticeException", c)
            continue
        nontriv = None
        if m["plaquettes"]:
            has_cross = bool(np.any(crossing != 0))
            nontriv = digest([pos.tolist(), edges.tolist(), crossing.tolist()]) if (has_cross or c["family"] != "example") else None
            if nontriv is None and len(m["plaquettes"]) > 1:
                nontriv = digest([pos.tolist(), edges.tolist(), crossing.tolist()])
        res.count(fam, nontriv)
        res.hist_size = getattr(res, "hist_size", {})
        b = "V<=10" if len(pos) <= 10 else "V<=50" if len(pos) <= 50 else "V<=200" if len(pos) <= 200 else "V>200"
        res.hist_size[b] = res.hist_size.get(b, 0) + 1
        if r.get("plaquettes") is None:
            res.violation("stuck-without-self-loops", "Lattice without self-loops: plaquette finder raised LatticeException", c)
            continue
        # K
        diffs = latmodel.compare(m, r, S)
        diffs = [d for d in diffs if not d[0].startswith("coordination")]   # coordination is C02's
        res.traces += 1
        if diffs:
            ctx.k_mismatch(f"{label}: {diffs[:3]}", c)
        # G1 per input
        if faces is not None:
            for f in faces:
                if f["nodup"] and f["netzero"] and ((f["winding"] == -1) != (f["area2"] > 0)):
                    res.extra["G1_disagreements"] = res.extra.get("G1_disagreements", 0) + 1
        # S
        pybad = spec_on_impl(pos, edges, crossing, r, faces, S)
        for key, what in pybad:
            res.violation(key, what, c)
        if faces is not None:
            pending.append((c, line, r["plaquettes"], [k for k, _ in pybad]))
        res.sample({"case": c, "V": len(pos), "E": len(edges), "plaquettes": len(r["plaquettes"]),
                    "first_plaquette": {k: r["plaquettes"][0][k] for k in ("vertices", "edges", "directions")} if r["plaquettes"] else None})
    res.extra["size_histogram"] = getattr(res, "hist_size", {})
    spec_extracted(ctx, pending, label)
    # extraction cross-check: a sample of the driver's answers re-derived inside Coq (vm_compute)
    if label.startswith("K("):
        small = [(b, o) for b, o in zip(built, outs) if len(b[1][0]) <= 60 and "error" not in o]
        rng = np.random.default_rng([ctx.seed, 99])
        k = min(len(small), 12 if ctx.tier == "quick" else 120)
        idx = rng.choice(len(small), size=k, replace=False) if k else []
        samples = [(small[i][0][1][0], small[i][0][1][1], small[i][0][1][2], small[i][0][2], latmodel.parse_model(small[i][1], small[i][0][2])) for i in idx]
        res.extra["extraction_crosscheck_goals_vm_compute"] = latmodel.coq_crosscheck(samples) if samples else 0


def run(ctx):
    ctx.res.rule = ("lattice families of DESIGN 1.5 (Voronoi 2..N seeds both shift settings, cuts, edge-deleted / vertex-isolated subgraphs, duals, "
                    "tiled cells, all example graphs and tilings, exhaustive edge subsets of small bases); non-trivial = distinct lattice (hash of arrays) with >=1 plaquette "
                    "that is not a bare example graph without boundary crossings, or has >1 plaquette")
    cases = gen.lattice_cases(ctx.tier, ctx.seed)
    # malformed stream
    cases.append({"family": "example", "name": "multi_graph"})
    evaluate(ctx, cases, "K(lattice core)")
    ctx.res.extra["exhaustive_edge_subsets_max_edges"] = 9 if ctx.tier == "quick" else 12


def search(ctx):
    """counterexample search after a proof / correspondence broke: thorough generators, other seed"""
    cases = gen.lattice_cases("thorough", ctx.seed + 1, exhaustive=(ctx.tier != "quick"))
    evaluate(ctx, cases[:600] if ctx.tier == "quick" else cases, "search")


def replay(ctx, payload):
    evaluate(ctx, [payload["case"]], "replay")
