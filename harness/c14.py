"""C14 — spanning-tree enumeration visits every reachable flux sector exactly once.

S (on the implementation): plaquette_spanning_tree (both values of shortest_edges_only) returns
  F-1 distinct edges, each with a plaquette on both sides, connecting all F plaquettes (Python
  union-find AND the extracted proved-sound checker SpanTree.is_spanning_tree); n_to_ujk_flipped
  leaves the bonds off the tree untouched, does not modify / alias its input, returns +-1 bonds, and
  every tree bond is a function of exactly one binary digit of n, distinct tree bonds reading distinct
  digits (the digit order is recorded, not constrained: the property only says "according to the
  binary digits of n"); the 2^(F-1) flux sectors are pairwise different and, on a closed lattice,
  are exactly the sectors compatible with the global parity constraint.  Exhaustive over n for
  F <= 10 (quick) / 14 (thorough), random n beyond; arbitrary +-1 base bonds.
K: the property does not say WHICH spanning tree is returned, and the theorems hold for every
  candidate-order oracle; so the correspondence is a replay: the extracted model, scanning at each
  iteration the implementation's chosen edge first, must reproduce the implementation's tree
  exactly (both settings; on the implementation's tables and end to end from the lattice).  Whether
  the implementation also scans in the coded order (identity / float distances passed exactly as
  stable sort keys) is recorded in the evidence, not alarmed.  n_to_ujk_flipped: exact for every n
  enumerated when the digit order is the coded one."""
from lib import *  # noqa
import gen
from koala.lattice import Lattice, LatticeException
import argforms as AF
from koala.graph_utils import plaquette_spanning_tree
from koala.flux_finder import fluxes_from_ujk, n_to_ujk_flipped

DRIVERS = ("c14",)
MODEL_TARGETS = ["Model/Lattice.vo", "Model/Flux.vo", "Model/SpanTree.vo"]
TARGETS = ["Proofs/FluxFacts.vo", "Proofs/SpanTreeFacts.vo", "Proofs/SpanTreeComplete.vo", "Proofs/SpanTreeLattice.vo",
           "Proofs/SpanTreeAcyclic.vo", "Proofs/SectorCount.vo"]
LEVEL = "proof"
TRUST = [
    "hand-written Gallina model coq/Model/SpanTree.v of graph_utils.plaquette_spanning_tree (numpy membership tests, np.unique(return_counts), np.append) and flux_finder.n_to_ujk_flipped (format(n,'0kb'), fancy assignment on a copy): modelled, not verified; tied to the code by the correspondence run",
    "the candidate order (identity, or float distances with shortest_edges_only=True) only chooses which linking edge is taken; the theorems quantify over EVERY order oracle, and the correspondence run replays the implementation's own choices through the model (order_front)",
    "the edge/plaquette incidence tables are those of coq/Model/Lattice.v (C01/C02 models); the hypothesis tables_agree (plaquette q is a side of edge e iff e is in q's edge list) of the tree and sector theorems is PROVED for the model's tables (C14_model_tables_agree, from C01's LatticeFacts and C02's PlaqTablesFacts) and evaluated (ep_agrees, proved sound) by the extracted model on the implementation's tables for every input",
    "value semantics: 'does not modify its input' is trivially true of the functional model and is checked on the implementation only (array equality before/after, np.shares_memory)",
    "acyclicity (C14_tree_acyclic) and 'precisely all parity-compatible sectors on a closed lattice' (C14_sectors_all_parity_compatible) are proved for the model; the harness still enumerates the sectors exhaustively on the implementation",
]
ASSUMPTIONS = ["lattices of C01's input space with >= 1 plaquette whose plaquette graph (plaquettes joined through two-sided edges) is connected; bond variables in {-1,+1}; 0 <= n < 2^(F-1)"]


def plaquette_graph_connected(lat):
    F = lat.n_plaquettes
    parent = list(range(F))

    def find(x):
        while parent[x] != x:
            parent[x] = parent[parent[x]]
            x = parent[x]
        return x
    for a, b in lat.edges.adjacent_plaquettes:
        if a != INVALID and b != INVALID:
            parent[find(int(a))] = find(int(b))
    return len({find(x) for x in range(F)}) == 1


def tree_spec(lat, tree):
    """the tree clause of the property on the implementation's output; list of (key, what)"""
    bad = []
    F = lat.n_plaquettes
    ep = lat.edges.adjacent_plaquettes
    t = [int(x) for x in np.asarray(tree).ravel()]
    if len(t) != F - 1:
        return [("tree-size", f"{len(t)} edges for {F} plaquettes")]
    if any(e < 0 or e >= lat.n_edges for e in t):
        return [("tree-missing-link", f"spanning tree of a connected plaquette graph has unset / out-of-range entries {[e for e in t if e < 0 or e >= lat.n_edges][:4]}")]
    if len(set(t)) != len(t):
        bad.append(("tree-repeats-edge", f"edges {sorted(e for e in set(t) if t.count(e) > 1)[:4]} occur more than once"))
    one = [e for e in t if INVALID in ep[e]]
    if one:
        bad.append(("tree-one-sided-edge", f"tree edges {one[:4]} do not have a plaquette on both sides"))
        return bad
    parent = list(range(F))

    def find(x):
        while parent[x] != x:
            parent[x] = parent[parent[x]]
            x = parent[x]
        return x
    for e in t:
        a, b = find(int(ep[e][0])), find(int(ep[e][1]))
        if a == b:
            bad.append(("tree-cycle", f"tree edge {e} joins two plaquettes that are already connected"))
        parent[a] = b
    if len({find(x) for x in range(F)}) != 1:
        bad.append(("tree-not-spanning", f"the tree edges leave {len({find(x) for x in range(F)})} components"))
    return bad


def dist_keys(lat):
    """find_plaq_distance of graph_utils.py:83-88 for every edge, same float operations"""
    ep = lat.edges.adjacent_plaquettes
    out = []
    for e in range(lat.n_edges):
        p1, p2 = ep[e]
        c1 = 10 if p1 == INVALID else lat.plaquettes[p1].center
        c2 = 10 if p2 == INVALID else lat.plaquettes[p2].center
        out.append(float(np.sum((c1 - c2) ** 2)))
    return out


def ser_onat(x):
    x = int(x)
    return "N" if (x == INVALID or x < 0) else str(x)


def ser_tables(lat):
    ep = lat.edges.adjacent_plaquettes
    toks = [str(len(ep))]
    for a, b in ep:
        toks += [ser_onat(a), ser_onat(b)]
    toks.append(str(lat.n_plaquettes))
    for p in lat.plaquettes:
        toks.append(str(len(p.edges)))
        toks += [str(int(x)) for x in p.edges]
    return " ".join(toks)


def ser_list(xs, f=str):
    return " ".join([str(len(xs))] + [f(x) for x in xs])


def onats(toks):
    c = Cursor(toks)
    return c.list(c.onat)


def digits(n, k):
    s = format(n, "0" + str(k) + "b")
    return [int(x) for x in s]


# ------------------------------------------------------------------ argument forms (argforms.py)
# n_to_ujk_flipped(n: int, ujk: np.ndarray(+-1), min_spanning_set: np.ndarray(int)): dtype / memory layout of the base bonds and of
# the tree's edge list, and Python int vs numpy integer for n, are not part of their value; the result (int8 bonds) must be the same.
AF_FORMS = {"n_to_ujk_flipped.ujk": ["int64", "int8", "int16", "int32", "float64", "float32", "int64+readonly", "int8+readonly", "float64+readonly",
                                     "int64+strided", "int8+strided", "float64+strided"],
            "n_to_ujk_flipped.min_spanning_set": ["int64", "int8", "uint8", "int16", "int32", "uint32", "intp", "int64+readonly", "int32+strided", "int64+list"]}
AF_N = ["int", "np.int64", "np.int32", "np.int16", "np.uint8", "np.uint32", "np.uint64", "np.intp"]
AF_EXCLUDED = {("n_to_ujk_flipped.ujk", "list/tuple"): "type hint np.ndarray; fancy assignment ujk_flipped[min_spanning_set] = ... needs an array (list: TypeError, tuple: no .copy())",
               ("n_to_ujk_flipped.min_spanning_set", "tuple / float array"): "type hint np.ndarray(int); a tuple is one index per axis (IndexError)",
               ("n_to_ujk_flipped.n", "float / bool"): "type hint int; format(n, '0kb') rejects floats"}


def arg_forms(res, arg, values, *key):
    for (a, f), why in AF_EXCLUDED.items():
        AF.exclude(res, a, f, why)
    if arg == "n_to_ujk_flipped.n":
        return AF.choose_scalar(res, arg, values, AF_N, *key)
    return AF.choose(res, arg, values, AF_FORMS[arg], *key, base=np.int64)


def flipped_spec(lat, u, tree, ns, res, viol):
    """n_to_ujk_flipped on the implementation for the given n values.  Returns dict n -> result
    (list of ints) and the observed (pi, s) digit map or None."""
    E = lat.n_edges
    k = len(tree)
    t = [int(x) for x in tree]
    out = {}
    u0 = u.copy()

    def call(n):
        uf, tf = arg_forms(res, "n_to_ujk_flipped.ujk", u0, n), arg_forms(res, "n_to_ujk_flipped.min_spanning_set", t, n, [int(x) for x in u0])
        r = n_to_ujk_flipped(arg_forms(res, "n_to_ujk_flipped.n", n, k), uf, tf)
        if not np.array_equal(uf, u0) or not np.array_equal(tf, t):
            viol("input-modified", f"n_to_ujk_flipped(n={n}) modified the bond array / the tree passed to it", {"n": int(n)})
        if r is uf or np.shares_memory(r, uf):
            viol("input-aliased", f"n_to_ujk_flipped(n={n}) returned (a view of) its input array", {"n": int(n)})
        rl = [int(x) for x in np.asarray(r).ravel()]
        if len(rl) != E or any(float(x) != int(x) for x in np.asarray(r).ravel()):
            viol("flipped-shape", f"n_to_ujk_flipped(n={n}) returned {len(rl)} values for {E} edges", {"n": int(n)})
            return None
        return rl
    # probes: n = 0 and n = 2^i determine which digit each tree bond reads
    r0 = call(0)
    if r0 is None:
        return out, None
    # "SETTING the tree bonds according to the binary digits of n": the tree bonds of the result are a function of n
    # alone; they must not depend on what the base configuration had on the tree edges (a *= instead of = would)
    if k:
        u1 = u0.copy()
        u1[t] = -u1[t]
        for nprobe in (0, (1 << k) - 1):
            ra = call(nprobe)
            rb = n_to_ujk_flipped(nprobe, u1, np.array(t))
            if ra is not None and [int(rb[e]) for e in t] != [ra[e] for e in t]:
                viol("flipped-depends-on-base", f"n_to_ujk_flipped(n={nprobe}) gives tree bonds {[ra[e] for e in t][:8]} on one base configuration and "
                     f"{[int(rb[e]) for e in t][:8]} on the same base with its tree bonds negated: the tree bonds are not SET from the digits of n", {"n": int(nprobe)})
                break
    pi, sg = {}, {}
    ok = True
    for i in range(k):
        ri = call(1 << i)
        if ri is None:
            return out, None
        ch = [e for e in range(E) if ri[e] != r0[e]]
        if len(ch) != 1 or ch[0] not in t or ch[0] in pi.values():
            viol("flipped-digits", f"changing binary digit 2^{i} of n changed the bonds {ch[:6]} (expected exactly one tree bond, a different one for each digit)", {"n": 1 << i})
            ok = False
            break
        pi[i] = ch[0]
        sg[i] = r0[ch[0]]
    for n in ns:
        r = call(n)
        if r is None:
            continue
        out[n] = r
        off = [e for e in range(E) if e not in set(t) and r[e] != int(u0[e])]
        if off:
            viol("off-tree-bond-touched", f"n_to_ujk_flipped(n={n}) changed the bonds {off[:6]} which are not in the tree", {"n": int(n)})
        if any(r[e] not in (1, -1) for e in t):
            viol("flipped-not-pm1", f"n_to_ujk_flipped(n={n}) tree bonds {[r[e] for e in t][:8]}", {"n": int(n)})
        if ok:
            exp = {pi[i]: (sg[i] if not (n >> i) & 1 else -sg[i]) for i in range(k)}
            if any(r[e] != exp[e] for e in t):
                viol("flipped-digits", f"n_to_ujk_flipped(n={n}): tree bonds {[r[e] for e in t][:10]} are not determined digit by digit by the binary digits of n", {"n": int(n)})
    as_coded = ok and all(pi[i] == t[k - 1 - i] and sg[i] == 1 for i in range(k))
    return out, ("as-coded" if as_coded else ("other-digit-order" if ok else None))


def evaluate(ctx, cases, label, kmax=9, n_random=6, big_F=200, forced=None, big_driver_cap=12, exh_cap=10 ** 9):
    res = ctx.res
    t_start = time.time()
    jobs, seen = [], set()
    for c in cases:
        arr, why = gen.try_build(c)
        if arr is None:
            res.skip("generator-could-not-build-base")
            continue
        pos, edges, crossing = arr
        if len(edges) == 0:
            res.skip("no-plaquette")
            continue
        if np.any(edges[:, 0] == edges[:, 1]):
            res.skip("malformed-self-loop")
            continue
        key = digest([pos.tolist(), edges.tolist(), crossing.tolist()])
        if key in seen:
            res.skip("duplicate-lattice")
            continue
        seen.add(key)
        try:
            lat = Lattice(*layout_variant(pos, edges, crossing)[:3])
            F = lat.n_plaquettes
        except LatticeException:
            res.skip("plaquette-finder-raised(C01)")
            continue
        if F == 0:
            res.skip("no-plaquette")
            continue
        if F > big_F:
            res.skip(f"F>{big_F}")
            continue
        if not plaquette_graph_connected(lat):
            res.skip("plaquette-graph-disconnected")
            continue
        jobs.append((c, arr, lat, key))

    # run the implementation's tree for both settings
    lines, meta = [], []
    n_big = 0
    for c, arr, lat, key in jobs:
        line, S = ser_lattice_arrays(*arr)
        keys = dist_keys(lat)
        ep = lat.edges.adjacent_plaquettes
        two = [e for e in range(lat.n_edges) if INVALID not in ep[e]]
        tie = len({keys[e] for e in two}) != len(two)
        if not all(math.isfinite(x) for x in keys):
            # a plaquette centre is nan/inf (zero-area plaquette): the coded distance order is not
            # representable exactly; only the informational "same order as coded" comparison is dropped
            res.skip("coded-order-comparison-skipped-non-finite-centre")
            keys = [0.0 for _ in keys]
            tie = True
        KS = common_scale(np.array(keys + [1.0]))
        trees = {}
        for sso in (False, True):
            try:
                trees[sso] = plaquette_spanning_tree(lat, shortest_edges_only=sso)
                # a returned tree belongs to the caller: overwriting it must not change what the next call returns
                if isinstance(trees[sso], np.ndarray) and trees[sso].size and trees[sso].flags.writeable:
                    keep = trees[sso].copy()
                    trees[sso][...] = -7
                    again = plaquette_spanning_tree(lat, shortest_edges_only=sso)
                    bad2 = tree_spec(lat, again) if plaquette_graph_connected(lat) and not tree_spec(lat, keep) else []
                    if bad2:
                        res.violation("second-call-" + bad2[0][0], f"plaquette_spanning_tree(shortest_edges_only={sso}): the first call returned a valid tree; after the caller "
                                      f"overwrote that array, a second call on the same lattice returned {np.asarray(again)[:6].tolist()}: {bad2[0][1]}",
                                      dict(case, shortest_edges_only=sso, probe="overwrite-first-result"))
                    trees[sso] = keep
            except Exception as e:
                trees[sso] = e
        tls = []
        for sso in (False, True):
            t = trees[sso]
            tt = [] if isinstance(t, Exception) else [int(x) for x in np.asarray(t).ravel()]
            tls.append(ser_list(tt, ser_onat))
        kl = ser_list([int(Fraction(x) * KS) for x in keys], hx)
        # the extracted model works on unary indices: lattices with more than 60 plaquettes go through
        # the driver only up to a budget; the others get the Python restatement of the tree clause only
        use_driver = lat.n_plaquettes <= 60 or n_big < big_driver_cap
        if use_driver and lat.n_plaquettes > 60:
            n_big += 1
        if use_driver:
            lines.append("span " + line + " " + kl + " " + ser_tables(lat) + " " + tls[0] + " " + tls[1])
        meta.append((trees, tie, use_driver))
    span_outs = run_driver_parallel(ctx.exe["c14"], lines)
    outs = iter(span_outs)

    flip_lines, flip_meta = [], []
    n_exh_big = 0
    hist = res.extra.setdefault("size_histogram_F", {})
    for idx, ((c, arr, lat, key), (trees, tie, use_driver)) in enumerate(zip(jobs, meta)):
        F, E = lat.n_plaquettes, lat.n_edges
        fam = c["family"] + ("/" + c["base"]["family"] if "base" in c else "")
        res.count(fam, key if F >= 2 else None)
        b = "F=1" if F == 1 else "F<=10" if F <= 10 else "F<=14" if F <= 14 else "F<=50" if F <= 50 else "F<=200" if F <= 200 else "F>200"
        hist[b] = hist.get(b, 0) + 1
        generic = angular_margin(lat) >= 1e-9
        rng = np.random.default_rng([ctx.seed, int(key, 16) % (2 ** 31)])

        def viol(k, what, extra, c=c):
            case = {"lattice": c}
            case.update(extra)
            res.violation(k, what, case)

        good_tree = {}
        o = next(outs) if use_driver else None
        if o is None:
            res.skip("extracted-checkers-and-K-not-run(F>60,budget)")
        elif "error" in o:
            raise RuntimeError(f"driver error {o['error']} on {c}")
        elif o["agree"][0] != "1":
            viol("tables-disagree", "edges.adjacent_plaquettes and the plaquettes' edge lists describe different incidences (C02)", {})
        for j, sso in enumerate((False, True)):
            t = trees[sso]
            if isinstance(t, Exception):
                viol("tree-raises", f"plaquette_spanning_tree(shortest_edges_only={sso}) raised {type(t).__name__}: {t}", {"shortest_edges_only": sso})
                continue
            bad = tree_spec(lat, t)
            for k_, what in bad:
                viol(k_, f"shortest_edges_only={sso}: {what}", {"shortest_edges_only": sso, "tree": [int(x) for x in t]})
            if not bad:
                good_tree[sso] = np.asarray(t)
            if o is None:
                continue
            ist = o[f"ist{j}"][0] == "1"
            if ist != (not bad):
                viol("tree-checker", f"shortest_edges_only={sso}: extracted is_spanning_tree = {ist}, Python restatement found {[b_[0] for b_ in bad]}", {"shortest_edges_only": sso})
            # K: the implementation's run must be a run of the model for SOME candidate order
            # (replay oracle: the implementation's chosen edge is scanned first)
            tl = [int(x) if int(x) >= 0 else None for x in np.asarray(t).ravel()]
            ft = None if o[f"ftree{j}"][0] == "ERR" else onats(o[f"ftree{j}"])
            res.traces += 1
            if ft != tl:
                ctx.k_mismatch(f"{label}: shortest_edges_only={sso}: the implementation's tree {tl} is not a run of the model (replay on the implementation's tables gives {ft})", {"lattice": c, "shortest_edges_only": sso})
            elif generic and o[f"mftree{j}"][0] != "SKIP":
                mt = None if o[f"mftree{j}"][0] == "ERR" else onats(o[f"mftree{j}"])
                if mt != tl:
                    ctx.k_mismatch(f"{label}: shortest_edges_only={sso}: the implementation's tree {tl} is not a run of the model end to end (replay gives {mt})", {"lattice": c, "shortest_edges_only": sso})
            # informational: does the implementation scan its candidates in the coded order?
            oc = res.extra.setdefault("candidate_order_as_coded", {})
            if o[f"ttree{j}"][0] == "SKIP":
                kk = f"shortest={sso}:not-compared(F>60)"
            else:
                tt = None if o[f"ttree{j}"][0] == "ERR" else onats(o[f"ttree{j}"])
                kk = f"shortest={sso}:" + ("tie-skipped" if (sso and tie) else "same-tree" if tt == tl else "different-tree(allowed)")
            oc[kk] = oc.get(kk, 0) + 1
        if not good_tree:
            continue
        # sectors
        for sso, tree in good_tree.items():
            k = len(tree)
            u = (1 - 2 * rng.integers(0, 2, size=E)).astype(np.int8 if sso else int)
            if forced and forced.get("u") and len(forced["u"]) == E:
                u = np.array(forced["u"], dtype=int)
            exhaustive = k <= kmax and (k < 10 or n_exh_big < exh_cap)
            if exhaustive and k >= 10:
                n_exh_big += 1
            if exhaustive:
                ns = list(range(1 << k))
            else:
                ns = sorted({0, (1 << k) - 1, 1, 1 << (k - 1)} | {int(rng.integers(0, 1 << min(k, 62))) | (int(rng.integers(0, 2)) << (k - 1)) for _ in range(n_random)})
            if forced and "n" in forced and forced["n"] < (1 << k) and forced["n"] not in ns:
                ns.append(int(forced["n"]))

            def violu(k_, what, extra, u=u, sso=sso, tree=tree):
                extra = dict(extra)
                extra.update({"u": [int(x) for x in u], "shortest_edges_only": sso, "tree": [int(x) for x in tree]})
                viol(k_, what, extra)
            try:
                rs, order = flipped_spec(lat, u, tree, ns, res, violu)
            except Exception as e:
                violu("flipped-raises", f"n_to_ujk_flipped raised {type(e).__name__}: {e}", {})
                continue
            res.extra.setdefault("digit_order", {})
            res.extra["digit_order"][str(order)] = res.extra["digit_order"].get(str(order), 0) + 1
            res.extra["flipped_calls"] = res.extra.get("flipped_calls", 0) + len(rs)
            # flux sectors
            sectors = {}
            for n, r in rs.items():
                f = tuple(int(x) for x in fluxes_from_ujk(lat, np.array(r, dtype=np.int8)))
                if f in sectors:
                    violu("sector-repeated", f"n={sectors[f]} and n={n} give the same flux sector", {"n": int(n), "m": int(sectors[f])})
                    break
                sectors[f] = n
            closed = not np.any(lat.edges.adjacent_plaquettes == INVALID)
            if exhaustive:
                res.extra["exhaustive_lattices"] = res.extra.get("exhaustive_lattices", 0) + 1
                res.extra["exhaustive_sectors"] = res.extra.get("exhaustive_sectors", 0) + len(sectors)
                res.extra["exhaustive_max_F"] = max(res.extra.get("exhaustive_max_F", 0), F)
                if len(sectors) != 1 << k and len(rs) == 1 << k:
                    violu("sector-count", f"{len(sectors)} different flux sectors for {1 << k} values of n", {})
                if closed:
                    res.extra["closed_exhaustive"] = res.extra.get("closed_exhaustive", 0) + 1
                    par = (-1) ** E
                    wrong = [n for f, n in sectors.items() if int(np.prod(f)) != par]
                    if wrong:
                        violu("sector-parity", f"closed lattice: sector of n={wrong[0]} violates the global parity constraint", {"n": int(wrong[0])})
                    elif len(sectors) == 1 << k and (1 << k) != 2 ** (F - 1):
                        violu("sector-count", "number of sectors is not 2^(F-1)", {})
            # K for n_to_ujk_flipped (exact, as coded) — only when the implementation uses the coded digit order
            if order == "as-coded":
                if exhaustive:
                    flip_lines.append("flipall " + ser_list([int(x) for x in u], hx) + " " + ser_list([int(x) for x in tree]))
                    flip_meta.append((c, u, tree, sso, rs, None))
                else:
                    for n in ns[:4]:
                        flip_lines.append("flip " + hx(n) + " " + ser_list([int(x) for x in u], hx) + " " + ser_list([int(x) for x in tree]))
                        flip_meta.append((c, u, tree, sso, rs, n))
            elif order == "other-digit-order":
                res.skip("K(n_to_ujk_flipped)-skipped-digit-order-differs-from-model(allowed-by-property-text)")
        res.sample({"case": c, "F": F, "E": E, "tree_plain": [int(x) for x in np.asarray(trees[False]).ravel()][:20] if not isinstance(trees[False], Exception) else None,
                    "tree_shortest": [int(x) for x in np.asarray(trees[True]).ravel()][:20] if not isinstance(trees[True], Exception) else None})
    fouts = run_driver_parallel(ctx.exe["c14"], flip_lines)
    for (c, u, tree, sso, rs, n), o in zip(flip_meta, fouts):
        if "error" in o:
            raise RuntimeError(f"driver error {o['error']}")
        if n is None:
            toks = o["flipall"]
            for m, tok in enumerate(toks):
                if m not in rs:
                    continue
                res.traces += 1
                exp = "".join("+" if x == 1 else "-" if x == -1 else "?" for x in rs[m]) or "."
                if tok != exp:
                    ctx.k_mismatch(f"{label}: n_to_ujk_flipped(n={m}): model {tok} implementation {exp}", {"lattice": c, "n": m, "u": [int(x) for x in u], "tree": [int(x) for x in tree]})
                    break
        else:
            res.traces += 1
            got = None if o["flip"][0] == "ERR" else [unhx(x) for x in o["flip"][1:]]
            if got != rs.get(n):
                ctx.k_mismatch(f"{label}: n_to_ujk_flipped(n={n}): model {got and got[:10]} implementation {rs.get(n) and rs[n][:10]}", {"lattice": c, "n": n, "u": [int(x) for x in u], "tree": [int(x) for x in tree]})
    res.extra["evaluate_seconds_" + label] = round(time.time() - t_start, 1)
    if label == "K":
        # extraction cross-check: a sample of the driver's answers re-derived inside Coq
        coq_crosscheck(ctx, list(zip(lines, span_outs)) + list(zip(flip_lines, fouts)))


# ------------------------------------------------------------------ extraction cross-check (DESIGN 1.3)
XCHECK_MAX_V = 40


def coq_crosscheck(ctx, sent):
    """sent: (line sent to the c14 driver, its answer) for every command of the K phase.  A small random sample per command
    (span on lattices with V <= 40; flip; flipall: 8 of the 2^k values of n) is re-derived INSIDE Coq: the line is read back
    into Gallina literals (the driver's grammar) and every answer line must be what vm_compute gives for the model function
    the driver evaluates (find_all_plaquettes, ep_agrees, plaquette_spanning_tree under the three candidate orders on the
    implementation's and on the model's own tables, is_spanning_tree, n_to_ujk_flipped)."""
    import xcheck as X
    quick = ctx.tier == "quick"
    rng = np.random.default_rng([ctx.seed, 14, 99])
    pools = {"span": [], "flip": [], "flipall": []}
    for line, o in sent:
        t = line.split()
        if "error" not in o and (int(t[2]) <= XCHECK_MAX_V if t[0] == "span" else len(t) <= 3000):      # flip lines: E + F tokens
            pools[t[0]].append((t, o))
    quota = {"span": 6 if quick else 50, "flip": 6 if quick else 40, "flipall": 4 if quick else 30}
    nl, onl = X.natlist, lambda xs: X.lst(X.onat, xs)
    otree = lambda toks: "None" if toks[0] == "ERR" else f"Some {onl(onats(toks))}"
    body = []
    g = lambda lhs, rhs: body.append(X.goal(lhs, rhs))
    n_cases = {}
    for kind in ("span", "flip", "flipall"):
        pool = pools[kind]
        idx = sorted(rng.choice(len(pool), size=min(len(pool), quota[kind]), replace=False).tolist()) if pool else []
        n_cases[kind] = len(idx)
        for n, i in enumerate(idx):
            t, o = pool[i]
            c = Cursor(t[1:])
            if kind == "span":
                S, P, Ed, Cr = X.read_lattice(c)
                keys = c.list(c.z)
                ep = c.list(lambda: (c.onat(), c.onat()))
                pes = c.list(lambda: c.list(c.int))
                itrees = [c.list(c.onat), c.list(c.onat)]
                L, EP, PES, KEYS = f"L{n}", f"EP{n}", f"PES{n}", f"KEYS{n}"
                body.append(f"Definition {L} : lattice := {X.lattice_ints(S, P, Ed, Cr)}.")
                body.append(f"Definition {EP} : list ep_row := {X.lst(X.pair(X.onat, X.onat), ep)}.")
                body.append(f"Definition {PES} : list (list nat) := {X.lst(nl, pes)}.")
                body.append(f"Definition {KEYS} : list Z := {X.zlist(keys)}.")
                if o["mp"][0] != "SKIP":
                    g(f"option_map (@length plaquette) (find_all_plaquettes {L})", "None" if o["mp"][0] == "ERR" else f"Some {X.nat(o['mp'][0])}")
                g(f"ep_agrees {EP} {PES}", X.boolean(o["agree"][0] == "1"))
                for j, itree in enumerate(itrees):
                    order = "order_id" if j == 0 else f"(order_by_key {KEYS})"
                    choice = f"(order_front {nl([0 if x is None else x for x in itree])})"      # the driver's replay oracle
                    if o[f"ttree{j}"][0] != "SKIP":
                        g(f"plaquette_spanning_tree {order} {EP} {PES}", otree(o[f"ttree{j}"]))
                    g(f"plaquette_spanning_tree {choice} {EP} {PES}", otree(o[f"ftree{j}"]))
                    if o[f"mftree{j}"][0] != "SKIP":
                        g(f"match find_all_plaquettes {L} with None => None | Some ps => plaquette_spanning_tree {choice} (edges_plaquettes {L} ps) (map p_edges ps) end",
                          otree(o[f"mftree{j}"]))
                    g(f"match all_some {onl(itree)} with None => false | Some t => is_spanning_tree {EP} {X.nat(len(pes))} t end", X.boolean(o[f"ist{j}"][0] == "1"))
            elif kind == "flip":
                nn, u, tree = c.z(), c.list(c.z), c.list(c.int)
                g(f"n_to_ujk_flipped {X.z(nn)} {X.zlist(u)} {nl(tree)}",
                  "None" if o["flip"][0] == "ERR" else "Some " + X.zlist([unhx(x) for x in o["flip"][1:]]))
            else:
                u, tree = c.list(c.z), c.list(c.int)
                toks = o["flipall"]
                for nn in sorted(rng.choice(len(toks), size=min(len(toks), 8), replace=False).tolist()):
                    tok = toks[nn]
                    if "?" in tok:
                        continue      # a bond that is neither +1 nor -1 is not written out by the driver
                    want = "None" if tok == "ERR" else "Some " + X.zlist([] if tok == "." else [1 if ch == "+" else -1 for ch in tok])
                    g(f"n_to_ujk_flipped {X.z(nn)} {X.zlist(u)} {nl(tree)}", want)
            if not c.done():
                raise RuntimeError(f"extraction cross-check: could not read back the whole {kind} line")
    res = ctx.res
    res.extra["extraction_crosscheck_goals_vm_compute"] = X.compile_goals("c14", "Model.Lattice Model.Flux Model.SpanTree", body, "c14")
    res.extra["extraction_crosscheck_cases"] = n_cases
    res.extra["extraction_crosscheck_wall_s"] = X.LAST_WALL


RULE = ("lattice families of DESIGN 1.5 (C01's input space) plus small periodic Voronoi lattices (2..4 seeds quick, ..14 thorough) and their cuts, restricted to lattices without self-loops, "
        "with >= 1 plaquette and a connected plaquette graph, deduplicated by array hash; both values of shortest_edges_only; random +-1 base bonds (int / int8); every n < 2^(F-1) for F <= 10 (quick) / 14 (thorough; at most 120 (lattice, setting) pairs with F >= 11), "
        "probes 0, 2^i and random n beyond; non-trivial = lattice with F >= 2 (non-empty tree)")


def small_cases(tier, seed):
    rng = np.random.default_rng([seed, 14])
    out = []
    sizes = [2, 3, 4, 5, 6, 8, 9, 10] if tier == "quick" else [2, 3, 4, 5, 6, 7, 8, 9, 10, 11, 12, 13, 14]
    for i in range(32 if tier == "quick" else 130):
        n = sizes[i % len(sizes)]
        b = {"family": "voronoi", "style": gen.POINT_STYLES[i % 4], "n": n, "seed": int(rng.integers(0, 2 ** 31)), "shift": bool(i % 2)}
        out.append(b)
        if i % 3 == 0:
            out.append({"family": "cut", "base": b, "cut": [bool(i % 2), True]})
        if i % 3 == 1:
            out.append({"family": "cut", "base": b, "cut": [True, False]})
    return out


def run(ctx):
    ctx.res.rule = RULE
    cases = gen.lattice_cases(ctx.tier, ctx.seed, exhaustive=(ctx.tier != "quick"))
    if ctx.tier == "quick":
        cases += gen.exhaustive_subset_cases(9, names=["two_triangles", "tri_square_pent", "wheel6", "ladder4"])
    cases += small_cases(ctx.tier, ctx.seed)
    if ctx.tier == "quick":
        evaluate(ctx, cases, "K", kmax=9, n_random=6, big_F=120)
    else:
        evaluate(ctx, cases, "K", kmax=13, n_random=10, big_F=200, big_driver_cap=30, exh_cap=120)


def search(ctx):
    cases = gen.lattice_cases("thorough", ctx.seed + 1, exhaustive=False)
    if ctx.tier == "quick":
        evaluate(ctx, cases[:150] + small_cases("thorough", ctx.seed + 1)[:60], "search", kmax=10, n_random=8, big_F=80)
    else:
        evaluate(ctx, cases + small_cases("thorough", ctx.seed + 1), "search", kmax=11, n_random=10, big_F=200)


def replay(ctx, payload):
    case = payload["case"]
    evaluate(ctx, [case["lattice"]], "replay", kmax=13, n_random=10, big_F=10 ** 9, forced=case)
