(* Proofs/PointsFacts.v — facts about Model/Points.v (C19). *)
From Coq Require Import List ZArith Bool Arith Lia ZifyBool QArith.
From Koala Require Import Model.Points.
Import ListNotations.
Open Scope Z_scope.

(* ------------------------------------------------------------------ basic facts *)
Lemma d2_sym : forall a b, d2 a b = d2 b a.
Proof. intros [a1 a2] [b1 b2]. unfold d2. simpl. ring. Qed.

Lemma far_from_all_spec : forall sc l p,
  far_from_all sc l p = true -> forall s, In s l -> sc * sc < d2 p s.
Proof.
  intros sc l p Hf s Hin. unfold far_from_all in Hf.
  rewrite forallb_forall in Hf. specialize (Hf s Hin). lia.
Qed.

Lemma out_of_domain_false : forall sc nx ny p,
  out_of_domain sc nx ny p = false ->
  0 <= fst p <= sc * nx /\ 0 <= snd p <= sc * ny.
Proof. intros sc nx ny p H. unfold out_of_domain in H. lia. Qed.

(* what an accepted candidate satisfies (pointsets.py:36-41) *)
Lemma inner_accept : forall sc nx ny ss left i cands j p,
  inner sc nx ny ss i left cands = Accept j p ->
  out_of_domain sc nx ny p = false /\ far_from_all sc ss p = true /\
  (i <= j)%nat /\ nth_error cands (j - i) = Some p.
Proof.
  intros sc nx ny ss left. induction left as [|left IH]; intros i cands j p H; simpl in H.
  - discriminate.
  - destruct cands as [|x1 rest]; [discriminate|].
    destruct (out_of_domain sc nx ny x1) eqn:Eo.
    + apply IH in H. destruct H as (H1 & H2 & H3 & H4). repeat split; auto; try lia.
      replace (j - i)%nat with (S (j - S i)) by lia. exact H4.
    + destruct (far_from_all sc ss x1) eqn:Ef.
      * inversion H; subst. repeat split; auto. now rewrite Nat.sub_diag.
      * destruct left as [|left']; [discriminate|].
        apply IH in H. destruct H as (H1 & H2 & H3 & H4). repeat split; auto; try lia.
        replace (j - i)%nat with (S (j - S i)) by lia. exact H4.
Qed.

(* ------------------------------------------------------------------ spacing invariant *)
Definition pairwise_far (sc : Z) (l : list pt) : Prop :=
  forall i j a b, i <> j -> nth_error l i = Some a -> nth_error l j = Some b -> sc * sc < d2 a b.

Lemma pairwise_far_single : forall sc x, pairwise_far sc [x].
Proof.
  intros sc x i j a b Hij Ha Hb.
  destruct i as [|i]; destruct j as [|j]; try lia; simpl in *;
    try (destruct i; discriminate); try (destruct j; discriminate).
Qed.

Lemma pairwise_far_snoc : forall sc l p,
  pairwise_far sc l -> far_from_all sc l p = true -> pairwise_far sc (l ++ [p]).
Proof.
  intros sc l p Hl Hp i j a b Hij Ha Hb.
  assert (Hfar := far_from_all_spec sc l p Hp).
  destruct (Nat.lt_ge_cases i (length l)) as [Hi|Hi];
  destruct (Nat.lt_ge_cases j (length l)) as [Hj|Hj].
  - rewrite nth_error_app1 in Ha, Hb by assumption. eapply Hl; eauto.
  - rewrite nth_error_app1 in Ha by assumption. rewrite nth_error_app2 in Hb by assumption.
    destruct (j - length l)%nat as [|m] eqn:E; simpl in Hb; [|destruct m; discriminate].
    inversion Hb; subst b. rewrite d2_sym. apply Hfar. eapply nth_error_In; eauto.
  - rewrite nth_error_app2 in Ha by assumption. rewrite nth_error_app1 in Hb by assumption.
    destruct (i - length l)%nat as [|m] eqn:E; simpl in Ha; [|destruct m; discriminate].
    inversion Ha; subst a. apply Hfar. eapply nth_error_In; eauto.
  - rewrite nth_error_app2 in Ha, Hb by assumption.
    destruct (i - length l)%nat as [|m] eqn:E; simpl in Ha; [|destruct m; discriminate].
    destruct (j - length l)%nat as [|m'] eqn:E'; simpl in Hb; [|destruct m'; discriminate].
    lia.
Qed.

Lemma step_samples : forall sc nx ny k st it st' o,
  step sc nx ny k st it = Some (st', o) ->
  samples st' = samples st \/
  exists i p, o = Accept i p /\ samples st' = samples st ++ [p] /\
              out_of_domain sc nx ny p = false /\ far_from_all sc (samples st) p = true.
Proof.
  intros sc nx ny k st [idx cands] st' o H. unfold step in H.
  destruct (mem_nat idx (active st)); [|discriminate].
  destruct (inner sc nx ny (samples st) 0 k cands) as [i p| |] eqn:Ei; inversion H; subst; simpl; auto.
  right. exists i, p. apply inner_accept in Ei. intuition.
Qed.

Lemma step_pairwise_far : forall sc nx ny k st it st' o,
  step sc nx ny k st it = Some (st', o) ->
  pairwise_far sc (samples st) -> pairwise_far sc (samples st').
Proof.
  intros sc nx ny k st it st' o H Hinv.
  destruct (step_samples _ _ _ _ _ _ _ _ H) as [E|(i & p & _ & E & _ & Hf)]; rewrite E; auto.
  now apply pairwise_far_snoc.
Qed.

Lemma run_trace_invariant : forall (P : list pt -> Prop) sc nx ny k,
  (forall st it st' o, step sc nx ny k st it = Some (st', o) -> P (samples st) -> P (samples st')) ->
  forall its st st' os, run_trace sc nx ny k st its = Some (st', os) -> P (samples st) -> P (samples st').
Proof.
  intros P sc nx ny k Hstep its. induction its as [|it rest IH]; intros st st' os H HP; simpl in H.
  - inversion H; subst; auto.
  - destruct (step sc nx ny k st it) as [[st1 o]|] eqn:Es; [|discriminate].
    destruct (run_trace sc nx ny k st1 rest) as [[st2 os2]|] eqn:Er; [|discriminate].
    inversion H; subst. eapply IH; eauto.
Qed.

Lemma run_invariant : forall (P : list pt -> Prop) sc nx ny k,
  (forall st it st' o, step sc nx ny k st it = Some (st', o) -> P (samples st) -> P (samples st')) ->
  forall its st st', run sc nx ny k st its = Some st' -> P (samples st) -> P (samples st').
Proof.
  intros P sc nx ny k Hstep its st st' H HP. unfold run in H.
  destruct (run_trace sc nx ny k st its) as [[st2 os]|] eqn:Er; [|discriminate].
  inversion H; subst. eapply run_trace_invariant; eauto.
Qed.

(* ★ bluenoise_spacing: in every state reachable from the initial sample over ANY stream of chosen
   indices and candidate points, any two distinct samples are at squared distance > r^2 = sc^2 *)
Theorem bluenoise_spacing : forall sc nx ny k x0 its st,
  run sc nx ny k (init x0) its = Some st ->
  forall i j a b, i <> j ->
    nth_error (samples st) i = Some a -> nth_error (samples st) j = Some b ->
    sc * sc < d2 a b.
Proof.
  intros sc nx ny k x0 its st H.
  change (pairwise_far sc (samples st)).
  eapply (run_invariant (pairwise_far sc)); eauto.
  - intros; eapply step_pairwise_far; eauto.
  - apply pairwise_far_single.
Qed.

(* ------------------------------------------------------------------ domain invariant *)
Definition in_domain (sc nx ny : Z) (p : pt) : Prop :=
  0 <= fst p <= sc * nx /\ 0 <= snd p <= sc * ny.

Lemma step_in_domain : forall sc nx ny k st it st' o,
  step sc nx ny k st it = Some (st', o) ->
  Forall (in_domain sc nx ny) (samples st) -> Forall (in_domain sc nx ny) (samples st').
Proof.
  intros sc nx ny k st it st' o H Hinv.
  destruct (step_samples _ _ _ _ _ _ _ _ H) as [E|(i & p & _ & E & Ho & _)]; rewrite E; auto.
  apply Forall_app. split; auto. constructor; [|constructor].
  now apply out_of_domain_false.
Qed.

Theorem bluenoise_samples_in_domain : forall sc nx ny k x0 its st,
  in_domain sc nx ny x0 ->
  run sc nx ny k (init x0) its = Some st ->
  Forall (in_domain sc nx ny) (samples st).
Proof.
  intros sc nx ny k x0 its st Hx0 H.
  eapply (run_invariant (Forall (in_domain sc nx ny))); eauto.
  - intros; eapply step_in_domain; eauto.
  - simpl. constructor; auto.
Qed.

Lemma Qmake_unit_interval : forall x d, 0 < d -> 0 <= x <= d ->
  (0 <= Qmake x (Z.to_pos d) <= 1)%Q.
Proof.
  intros x d Hd Hx. unfold Qle. simpl. rewrite Z2Pos.id by assumption. lia.
Qed.

Lemma Qmake_open_unit_interval : forall x d, 0 < d -> 0 < x < d ->
  (0 < Qmake x (Z.to_pos d) < 1)%Q.
Proof.
  intros x d Hd Hx. unfold Qlt. simpl. rewrite Z2Pos.id by assumption. lia.
Qed.

(* ★ bluenoise_in_domain: for EVERY grid shape nx, ny >= 1 (nx <> ny included) every returned point
   lies in the closed unit square *)
Theorem bluenoise_in_unit_square : forall sc nx ny k x0 its out,
  0 < sc -> 1 <= nx -> 1 <= ny ->
  (0 <= fst x0 <= sc * nx /\ 0 <= snd x0 <= sc * ny) ->
  bluenoise sc nx ny k x0 its = Some out ->
  forall q, In q out -> (0 <= fst q <= 1 /\ 0 <= snd q <= 1)%Q.
Proof.
  intros sc nx ny k x0 its out Hsc Hnx Hny Hx0 H q Hq.
  unfold bluenoise in H.
  destruct (run sc nx ny k (init x0) its) as [st|] eqn:Er; [|discriminate].
  inversion H; subst out. apply in_map_iff in Hq. destruct Hq as (p & Hp & Hin).
  assert (HF := bluenoise_samples_in_domain sc nx ny k x0 its st Hx0 Er).
  rewrite Forall_forall in HF. destruct (HF p Hin) as [Hx Hy].
  subst q. unfold normalise. simpl.
  split; apply Qmake_unit_interval; auto; nia.
Qed.

(* the number of returned points = 1 + number of accepted candidates; never empty *)
Lemma bluenoise_nonempty : forall sc nx ny k x0 its st,
  run sc nx ny k (init x0) its = Some st -> samples st <> [].
Proof.
  intros sc nx ny k x0 its st H.
  eapply (run_invariant (fun l => l <> [])); eauto.
  - intros st0 it st' o Hs Hne.
    destruct (step_samples _ _ _ _ _ _ _ _ Hs) as [E|(i & p & _ & E & _)]; rewrite E; auto.
    destruct (samples st0); simpl; discriminate.
  - simpl. discriminate.
Qed.

(* ------------------------------------------------------------------ the 1 x 1 grid *)
(* on a 1 x 1 grid, when the first sample is closer than r to all four corners of the domain, no candidate at
   distance >= r from it lies in the domain: every iteration ends in NoChange and the loop never exits *)
Definition near_all_corners (sc : Z) (x0 : pt) : Prop :=
  d2 x0 (0, 0) < sc * sc /\ d2 x0 (sc, 0) < sc * sc /\ d2 x0 (0, sc) < sc * sc /\ d2 x0 (sc, sc) < sc * sc.

Lemma sq_between : forall a lo hi p, lo <= p <= hi ->
  (p - a) * (p - a) <= (lo - a) * (lo - a) \/ (p - a) * (p - a) <= (hi - a) * (hi - a).
Proof. intros a lo hi p H. destruct (Z_le_gt_dec p a); [left|right]; nia. Qed.

Lemma unit_domain_close : forall sc x0 p, 0 < sc -> near_all_corners sc x0 ->
  out_of_domain sc 1 1 p = false -> d2 p x0 < sc * sc.
Proof.
  intros sc [a b] [px py] Hsc (H00 & H10 & H01 & H11) Ho.
  apply out_of_domain_false in Ho. simpl in Ho. unfold d2 in *. simpl in *.
  destruct Ho as [Hx Hy].
  destruct (sq_between a 0 sc px) as [Ex|Ex]; [lia| |];
  destruct (sq_between b 0 sc py) as [Ey|Ey]; try lia; nia.
Qed.

Lemma inner_all_outside : forall sc nx ny ss left i cands,
  (forall c, In c cands -> out_of_domain sc nx ny c = true) ->
  inner sc nx ny ss i left cands = NoChange.
Proof.
  intros sc nx ny ss left. induction left as [|left IH]; intros i cands H; simpl; [reflexivity|].
  destruct cands as [|x1 rest]; [reflexivity|].
  rewrite (H x1 (or_introl eq_refl)). apply IH. intros c Hc. apply H. now right.
Qed.

Lemma step_all_outside : forall sc nx ny k st it,
  (forall c, In c (snd it) -> out_of_domain sc nx ny c = true) ->
  step sc nx ny k st it = None \/ step sc nx ny k st it = Some (st, NoChange).
Proof.
  intros sc nx ny k st [idx cands] H. unfold step. simpl in H.
  destruct (mem_nat idx (active st)); [right|now left].
  now rewrite inner_all_outside.
Qed.

Theorem bluenoise_unit_grid_never_finishes : forall sc k x0 its st,
  0 < sc -> near_all_corners sc x0 ->
  (forall it c, In it its -> In c (snd it) -> sc * sc <= d2 c x0) ->
  run sc 1 1 k (init x0) its = Some st ->
  st = init x0 /\ finished st = false.
Proof.
  intros sc k x0 its st Hsc Hnear Hc H.
  assert (Hrt : forall its, (forall it c, In it its -> In c (snd it) -> sc * sc <= d2 c x0) ->
            forall r, run_trace sc 1 1 k (init x0) its = Some r -> fst r = init x0).
  { induction its0 as [|it rest IH]; intros Hcs r Hr; simpl in Hr.
    - inversion Hr. reflexivity.
    - destruct (step_all_outside sc 1 1 k (init x0) it) as [E|E].
      + intros c Hin. destruct (out_of_domain sc 1 1 c) eqn:Eo; [reflexivity|].
        exfalso. assert (Hd := unit_domain_close sc x0 c Hsc Hnear Eo).
        specialize (Hcs it c (or_introl eq_refl) Hin). lia.
      + rewrite E in Hr. discriminate.
      + rewrite E in Hr.
        destruct (run_trace sc 1 1 k (init x0) rest) as [[st2 os]|] eqn:Er; [|discriminate].
        inversion Hr; subst r. simpl. apply (IH (fun it c Hi Hc' => Hcs it c (or_intror Hi) Hc') (st2, os) eq_refl). }
  unfold run in H. destruct (run_trace sc 1 1 k (init x0) its) as [[st2 os]|] eqn:Er; [|discriminate].
  inversion H; subst st2. specialize (Hrt its Hc _ Er). simpl in Hrt. subst st. split; reflexivity.
Qed.

(* ------------------------------------------------------------------ hyperuniform *)
(* ★ hyperuniform crop: whatever the kicked points are, every returned point is strictly inside the
   unit square *)
Theorem hyperuniform_in_open_unit_square : forall sc final_points q,
  0 < sc -> In q (hyperuniform sc final_points) ->
  (0 < fst q < 1 /\ 0 < snd q < 1)%Q.
Proof.
  intros sc pts q Hsc Hq. unfold hyperuniform, hyperuniform_crop in Hq.
  apply in_map_iff in Hq. destruct Hq as (p & Hp & Hin).
  apply filter_In in Hin. destruct Hin as [_ Hb]. unfold inside_open_unit in Hb.
  subst q. unfold to_unit. simpl.
  split; apply Qmake_open_unit_interval; auto; lia.
Qed.

(* nothing is invented and nothing inside is lost: the output is exactly the inside points, in order *)
Lemma hyperuniform_crop_complete : forall sc pts p,
  In p pts -> inside_open_unit sc p = true -> In p (hyperuniform_crop sc pts).
Proof. intros. unfold hyperuniform_crop. apply filter_In. auto. Qed.

Lemma hyperuniform_count_le : forall sc pts, (length (hyperuniform sc pts) <= length pts)%nat.
Proof.
  intros. unfold hyperuniform, hyperuniform_crop. rewrite map_length.
  induction pts as [|a l IH]; simpl; [lia|]. destruct (inside_open_unit sc a); simpl; lia.
Qed.

(* ------------------------------------------------------------------ uniform *)
Lemma uniform_length : forall n draw, length (uniform n draw) = n.
Proof. intros n draw. unfold uniform. now rewrite map_length, seq_length. Qed.

(* bounds for uniform: nothing but the contract of rng.uniform (values in [0, 1)) *)
Lemma uniform_in_unit_square : forall sc n draw q,
  0 < sc -> (forall i, 0 <= fst (draw i) <= sc /\ 0 <= snd (draw i) <= sc) ->
  In q (map (to_unit sc) (uniform n draw)) -> (0 <= fst q <= 1 /\ 0 <= snd q <= 1)%Q.
Proof.
  intros sc n draw q Hsc Hd Hq. apply in_map_iff in Hq. destruct Hq as (p & Hq & Hp).
  unfold uniform in Hp. apply in_map_iff in Hp. destruct Hp as (i & Hp & _). subst p q.
  destruct (Hd i) as [Hx Hy]. unfold to_unit. simpl. split; apply Qmake_unit_interval; auto.
Qed.

(* ------------------------------------------------------------------ the active list *)
(* active_cells always holds distinct valid indices into samples: samples[idx] (pointsets.py:32) cannot raise
   IndexError and active_cells.remove(idx) (pointsets.py:47) removes the only occurrence *)
Definition active_ok (st : state) : Prop :=
  NoDup (active st) /\ Forall (fun i => (i < length (samples st))%nat) (active st).

Lemma remove_first_In : forall i l x, In x (remove_first i l) -> In x l.
Proof.
  intros i l. induction l as [|a r IH]; intros x H; simpl in *; [contradiction|].
  destruct (Nat.eqb a i); [now right|]. destruct H as [H|H]; [now left|right; auto].
Qed.

Lemma remove_first_NoDup : forall i l, NoDup l -> NoDup (remove_first i l).
Proof.
  intros i l H. induction H as [|a r Hnin Hnd IH]; simpl; [constructor|].
  destruct (Nat.eqb a i); [assumption|]. constructor; [|assumption].
  intro Hin. apply Hnin. eapply remove_first_In; eauto.
Qed.

Lemma remove_first_not_In : forall i l, NoDup l -> ~ In i (remove_first i l).
Proof.
  intros i l H. induction H as [|a r Hnin Hnd IH]; simpl; [auto|].
  destruct (Nat.eqb a i) eqn:E.
  - apply Nat.eqb_eq in E. now subst.
  - apply Nat.eqb_neq in E. intros [H|H]; [congruence|auto].
Qed.

Lemma NoDup_snoc : forall (l : list nat) x, NoDup l -> ~ In x l -> NoDup (l ++ [x]).
Proof.
  intros l x H. induction H as [|a r Hnin Hnd IH]; intros Hx; simpl.
  - constructor; [auto|constructor].
  - constructor.
    + intro Hin. apply in_app_or in Hin. destruct Hin as [Hin|[Hin|[]]]; [auto|]. subst. apply Hx. now left.
    + apply IH. intro. apply Hx. now right.
Qed.

Lemma step_active_ok : forall sc nx ny k st it st' o,
  step sc nx ny k st it = Some (st', o) -> active_ok st -> active_ok st'.
Proof.
  intros sc nx ny k st [idx cands] st' o H [Hnd Hall]. unfold step in H.
  destruct (mem_nat idx (active st)); [|discriminate].
  destruct (inner sc nx ny (samples st) 0 k cands) as [i p| |]; inversion H; subst; clear H; unfold active_ok; simpl.
  - rewrite app_length. simpl. split.
    + apply NoDup_snoc; [assumption|]. intro Hin. rewrite Forall_forall in Hall. specialize (Hall _ Hin). lia.
    + apply Forall_app. split.
      * rewrite Forall_forall in *. intros x Hx. specialize (Hall x Hx). lia.
      * constructor; [lia|constructor].
  - split; [now apply remove_first_NoDup|].
    rewrite Forall_forall in *. intros x Hx. apply Hall. eapply remove_first_In; eauto.
  - split; assumption.
Qed.

Theorem bluenoise_active_ok : forall sc nx ny k x0 its st,
  run sc nx ny k (init x0) its = Some st -> active_ok st.
Proof.
  intros sc nx ny k x0 its st H. unfold run in H.
  destruct (run_trace sc nx ny k (init x0) its) as [[st2 os]|] eqn:Er; [|discriminate].
  inversion H; subst st2. clear H.
  assert (G : forall its st0 st1 os, run_trace sc nx ny k st0 its = Some (st1, os) -> active_ok st0 -> active_ok st1).
  { induction its0 as [|it rest IH]; intros st0 st1 os0 Hr Hok; simpl in Hr.
    - inversion Hr; subst; auto.
    - destruct (step sc nx ny k st0 it) as [[sta o]|] eqn:Es; [|discriminate].
      destruct (run_trace sc nx ny k sta rest) as [[stb osb]|] eqn:Er2; [|discriminate].
      inversion Hr; subst. eapply IH; eauto. eapply step_active_ok; eauto. }
  eapply G; eauto. unfold active_ok, init. simpl. split.
  - constructor; [auto|constructor].
  - constructor; [lia|constructor].
Qed.

(* once removed an index never comes back: it is not in the active list right after its removal *)
Lemma step_remove_not_active : forall sc nx ny k st idx cands st',
  active_ok st -> step sc nx ny k st (idx, cands) = Some (st', Remove) -> ~ In idx (active st').
Proof.
  intros sc nx ny k st idx cands st' [Hnd _] H. unfold step in H.
  destruct (mem_nat idx (active st)); [|discriminate].
  destruct (inner sc nx ny (samples st) 0 k cands); inversion H; subst. simpl.
  now apply remove_first_not_In.
Qed.
