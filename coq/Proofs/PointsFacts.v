(* Proofs/PointsFacts.v — facts about Model/Points.v (C19). *)
From Coq Require Import List ZArith Bool Arith Lia ZifyBool QArith.
From Koala Require Import Model.Points.
Import ListNotations.
Open Scope Z_scope.

Lemma uniform_length : forall n draw, length (uniform n draw) = n.
Proof. intros n draw. unfold uniform. now rewrite map_length, seq_length. Qed.
