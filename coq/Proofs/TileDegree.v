(* Proofs/TileDegree.v — C10: degree regularity of tile_unit_cell for ALL sizes and every well-formed cell:
   copy m of site s has the degree of s in the cell (a self-loop edge (s,s) with a crossing counts twice, as in
   the cell). *)
From Coq Require Import List ZArith Bool Arith Lia.
From Koala Require Import Gen.TilingGen Model.Lattice Model.Tiling Proofs.TilingFacts Proofs.TilingCount Proofs.ExamplesFacts.
Import ListNotations.
Open Scope Z_scope.

Theorem tile_degree_all_sizes (c : unit_cell) (nx ny m s : Z) :
  1 <= nx -> 1 <= ny -> wf_cell c = true -> 0 <= m < nx * ny -> 0 <= s < n_sites c ->
  zdegree (tile_edges c nx ny) (n_sites c * m + s) = zdegree (uc_edges c) s.
Proof.
  intros Hx Hy Hwf Hm Hs. rewrite !zdegree_deg.
  destruct (wf_cell_spec c Hwf) as (_ & Hl & _).
  set (col := map (fun _ : Z * Z => 0) (uc_edges c)).
  assert (Hcl : zlen col = n_uedges c) by (unfold col, zlen, n_uedges, zlen; rewrite map_length; reflexivity).
  assert (Hc0 : forall y, In y col -> 0 <= y <= 2).
  { intros y Hy'. unfold col in Hy'. apply in_map_iff in Hy' as (_ & <- & _). lia. }
  assert (Hct : forall y, In y (tile_coloring col nx ny) -> 0 <= y <= 2).
  { intros y Hy'. unfold tile_coloring in Hy'. apply in_flat_map in Hy' as (_ & _ & Hy'). apply Hc0, Hy'. }
  assert (Hlt : length (tile_edges c nx ny) = length (tile_coloring col nx ny)).
  { pose proof (tile_edges_length c nx ny ltac:(nia) Hl) as A. pose proof (tile_coloring_length col nx ny ltac:(nia)) as B.
    unfold zlen in A, B, Hcl. unfold n_uedges, zlen in A, Hcl. lia. }
  rewrite (deg_cnt _ (tile_coloring col nx ny) _ Hlt Hct).
  rewrite (deg_cnt (uc_edges c) col s) by (unfold col; rewrite ?map_length; auto).
  rewrite !cnt_tile by assumption. reflexivity.
Qed.
