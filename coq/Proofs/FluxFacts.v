(* Proofs/FluxFacts.v — lemmas about Model/Flux.v used by Props/C05.v *)
From Coq Require Import List ZArith Bool Arith Lia ZifyBool Permutation.
From Koala Require Import Model.Lattice Model.Flux.
Import ListNotations.
Open Scope Z_scope.

(* ------------------------------------------------------------------ products *)
Lemma zprod_app : forall l1 l2, zprod (l1 ++ l2) = zprod l1 * zprod l2.
Proof.
  induction l1 as [|x l1 IH]; intros l2; simpl.
  - destruct (zprod l2); reflexivity.
  - rewrite IH. ring.
Qed.

Lemma zprod_perm : forall l1 l2, Permutation l1 l2 -> zprod l1 = zprod l2.
Proof.
  induction 1 as [| x l l' _ IH | x y l | l l' l'' _ IH1 _ IH2]; simpl.
  - reflexivity.
  - now rewrite IH.
  - ring.
  - now rewrite IH1.
Qed.

Definition is_pm1 (x : Z) : Prop := x = 1 \/ x = -1.

Lemma pm1_spec : forall x, pm1 x = true <-> is_pm1 x.
Proof. intros x. unfold pm1, is_pm1. lia. Qed.

Lemma is_pm1_mul : forall x y, is_pm1 x -> is_pm1 y -> is_pm1 (x * y).
Proof. unfold is_pm1. intros x y [->| ->] [->| ->]; simpl; auto. Qed.

Lemma zprod_pm1 : forall l, Forall is_pm1 l -> is_pm1 (zprod l).
Proof.
  induction 1 as [|x l Hx _ IH]; simpl.
  - now left.
  - now apply is_pm1_mul.
Qed.

Lemma is_pm1_sq : forall x, is_pm1 x -> x * x = 1.
Proof. intros x [->| ->]; reflexivity. Qed.

Lemma is_pm1_nonzero : forall x, is_pm1 x -> x <> 0.
Proof. intros x [->| ->]; discriminate. Qed.

(* ------------------------------------------------------------------ the formula *)
Lemma dart_factor_spec : forall u ed, dart_factor u ed = - bond_along u ed.
Proof.
  intros u [e d]. unfold dart_factor, bond_along. simpl. destruct d; simpl; ring.
Qed.

(* flux_def *)
Lemma flux_darts_spec : forall u ds, flux_darts u ds = flux_spec u ds.
Proof.
  intros u ds. unfold flux_darts, flux_spec. f_equal.
  apply map_ext. intros ed. apply dart_factor_spec.
Qed.

Lemma flux_real_spec : forall u p, flux_real u p = flux_spec u (plaq_darts p).
Proof. intros. apply flux_darts_spec. Qed.

Lemma flux_darts_cons : forall u d ds,
  flux_darts u (d :: ds) = dart_factor u d * flux_darts u ds.
Proof. reflexivity. Qed.

Lemma flux_darts_app : forall u d1 d2,
  flux_darts u (d1 ++ d2) = flux_darts u d1 * flux_darts u d2.
Proof. intros. unfold flux_darts. rewrite map_app. apply zprod_app. Qed.

Lemma flux_darts_perm : forall u d1 d2, Permutation d1 d2 -> flux_darts u d1 = flux_darts u d2.
Proof. intros u d1 d2 H. unfold flux_darts. apply zprod_perm. now apply Permutation_map. Qed.

Lemma sgn_pm1 : forall b, is_pm1 (sgn b).
Proof. intros []; [left|right]; reflexivity. Qed.

Lemma dart_factor_pm1 : forall u ed, is_pm1 (bond u (fst ed)) -> is_pm1 (dart_factor u ed).
Proof.
  intros u ed H. unfold dart_factor.
  apply is_pm1_mul; [|apply sgn_pm1]. destruct H as [-> | ->]; [right|left]; reflexivity.
Qed.

(* flux_pm1 on dart lists *)
Lemma flux_darts_pm1 : forall u ds,
  (forall e, In e (map fst ds) -> is_pm1 (bond u e)) -> is_pm1 (flux_darts u ds).
Proof.
  intros u ds H. unfold flux_darts. apply zprod_pm1.
  apply Forall_forall. intros x Hx. apply in_map_iff in Hx. destruct Hx as [ed [<- Hin]].
  apply dart_factor_pm1. apply H. apply in_map_iff. now exists ed.
Qed.

Lemma plaq_darts_edges : forall p e, In e (map fst (plaq_darts p)) -> In e (p_edges p).
Proof.
  intros p e H. apply in_map_iff in H. destruct H as [[e' d] [<- Hin]].
  simpl. unfold plaq_darts in Hin. eapply in_combine_l; eauto.
Qed.

Lemma flux_real_pm1 : forall u p,
  (forall e, In e (p_edges p) -> is_pm1 (bond u e)) -> is_pm1 (flux_real u p).
Proof.
  intros u p H. apply flux_darts_pm1. intros e He. apply H. now apply plaq_darts_edges.
Qed.

(* bonds given as a +-1 array covering all the plaquette's edges *)
Lemma all_pm1_bond : forall u e, all_pm1 u = true -> (e < length u)%nat -> is_pm1 (bond u e).
Proof.
  intros u e H He. unfold all_pm1 in H. rewrite forallb_forall in H.
  apply pm1_spec. apply H. unfold bond. now apply nth_In.
Qed.

(* ------------------------------------------------------------------ complex variant *)
Lemma gmul_factor : forall f k a,
  gmul (0, f) (gscale k a) = gscale (f * k) (gmul gi a).
Proof.
  intros f k [a b]. unfold gmul, gscale, gi. cbn [fst snd]. f_equal; ring.
Qed.

Lemma flux_cplx_darts_eq : forall u ds,
  flux_cplx_darts u ds = gscale (flux_darts u ds) (gpow gi (length ds)).
Proof.
  intros u. induction ds as [|d ds IH].
  - reflexivity.
  - unfold flux_cplx_darts in *. simpl map. simpl gprod. rewrite IH.
    unfold dart_factor_c at 1. rewrite gmul_factor. reflexivity.
Qed.

Lemma plaq_darts_length : forall p,
  length (p_dirs p) = length (p_edges p) -> length (plaq_darts p) = n_sides p.
Proof.
  intros p H. unfold plaq_darts, n_sides, dart. rewrite combine_length, H. apply Nat.min_id.
Qed.

Lemma flux_cplx_eq : forall u p,
  length (p_dirs p) = length (p_edges p) ->
  flux_cplx u p = gscale (flux_real u p) (gpow gi (n_sides p)).
Proof.
  intros u p H. unfold flux_cplx, flux_real. rewrite flux_cplx_darts_eq.
  now rewrite plaq_darts_length.
Qed.

(* i^n in closed form *)
Lemma gpow_gi_4 : forall n, gpow gi (4 + n) = gpow gi n.
Proof.
  intros n. change (gpow gi (4 + n)) with (gmul gi (gmul gi (gmul gi (gmul gi (gpow gi n))))).
  destruct (gpow gi n) as [a b]. unfold gmul, gi. cbn [fst snd]. f_equal; ring.
Qed.

Definition gi_pow_closed (n : nat) : gint :=
  match (n mod 4)%nat with
  | 0%nat => (1, 0) | 1%nat => (0, 1) | 2%nat => (-1, 0) | _ => (0, -1)
  end.

Lemma gpow_gi_closed : forall n, gpow gi n = gi_pow_closed n.
Proof.
  assert (H : forall k r, (r < 4)%nat -> gpow gi (4 * k + r) = gi_pow_closed r).
  { induction k as [|k IH]; intros r Hr.
    - simpl. destruct r as [|[|[|[|r]]]]; try lia; reflexivity.
    - replace (4 * S k + r)%nat with (4 + (4 * k + r))%nat by lia.
      rewrite gpow_gi_4. now apply IH. }
  intros n. rewrite (Nat.div_mod n 4) at 1 by lia.
  rewrite H by (apply Nat.mod_upper_bound; lia).
  unfold gi_pow_closed. rewrite Nat.mod_mod by lia. reflexivity.
Qed.

(* ------------------------------------------------------------------ labels *)
Lemma flux_label_plus : flux_label 1 = 0.
Proof. reflexivity. Qed.
Lemma flux_label_minus : flux_label (-1) = 1.
Proof. reflexivity. Qed.

Lemma fluxes_to_labels_map : forall fs,
  Forall is_pm1 fs ->
  fluxes_to_labels fs = map (fun f => if f =? 1 then 0 else 1) fs
  /\ length (fluxes_to_labels fs) = length fs.
Proof.
  intros fs H. split; [|apply map_length].
  unfold fluxes_to_labels. apply map_ext_in. intros f Hf.
  rewrite Forall_forall in H. destruct (H f Hf) as [-> | ->]; reflexivity.
Qed.

(* ------------------------------------------------------------------ single bond flip *)
Lemma bond_flip : forall u e f,
  bond (flip_at e u) f = if (f =? e)%nat then - bond u f else bond u f.
Proof.
  unfold bond. induction u as [|x u IH]; intros e f.
  - simpl. destruct e, f; simpl; try reflexivity; destruct (f =? e)%nat; reflexivity.
  - destruct e as [|e], f as [|f]; simpl; try reflexivity.
    apply IH.
Qed.

Lemma flip_at_length : forall u e, length (flip_at e u) = length u.
Proof. induction u as [|x u IH]; intros [|e]; simpl; auto. Qed.

Lemma dart_factor_flip : forall u e d,
  dart_factor (flip_at e u) d = if (fst d =? e)%nat then - dart_factor u d else dart_factor u d.
Proof.
  intros u e d. unfold dart_factor. rewrite bond_flip. destruct (fst d =? e)%nat; ring.
Qed.

Lemma flux_flip_notin : forall u e ds,
  ~ In e (map fst ds) -> flux_darts (flip_at e u) ds = flux_darts u ds.
Proof.
  intros u e. induction ds as [|d ds IH]; intros H.
  - reflexivity.
  - rewrite !flux_darts_cons. simpl in H. rewrite IH by tauto.
    rewrite dart_factor_flip. destruct (Nat.eqb_spec (fst d) e) as [E|E]; [tauto|reflexivity].
Qed.

Lemma flux_flip_in : forall u e ds,
  NoDup (map fst ds) -> In e (map fst ds) -> flux_darts (flip_at e u) ds = - flux_darts u ds.
Proof.
  intros u e. induction ds as [|d ds IH]; intros Hnd Hin.
  - destruct Hin.
  - simpl in Hnd. inversion Hnd as [|x l Hnotin Hnd' E]; subst.
    rewrite !flux_darts_cons. rewrite dart_factor_flip.
    destruct (Nat.eqb_spec (fst d) e) as [E|E].
    + subst e. rewrite flux_flip_notin by assumption. ring.
    + simpl in Hin. destruct Hin as [Hin|Hin]; [contradiction|].
      rewrite IH by assumption. ring.
Qed.

Lemma flux_flip_iff : forall u e ds,
  NoDup (map fst ds) -> flux_darts u ds <> 0 ->
  (flux_darts (flip_at e u) ds = - flux_darts u ds <-> In e (map fst ds)).
Proof.
  intros u e ds Hnd Hnz. split.
  - intros H. destruct (in_dec Nat.eq_dec e (map fst ds)) as [i|n]; [assumption|].
    rewrite flux_flip_notin in H by assumption. lia.
  - now apply flux_flip_in.
Qed.

Lemma map_fst_combine : forall (A B : Type) (l : list A) (l' : list B),
  length l' = length l -> map fst (combine l l') = l.
Proof.
  induction l as [|x l IH]; intros [|y l'] H; simpl in *; try discriminate; auto.
  f_equal. apply IH. lia.
Qed.

Lemma nodupb_sound : forall l, nodupb l = true -> NoDup l.
Proof.
  induction l as [|x l IH]; simpl; intros H.
  - constructor.
  - apply andb_true_iff in H. destruct H as [H1 H2]. constructor; [|now apply IH].
    intros Hin. apply negb_true_iff in H1.
    assert (existsb (Nat.eqb x) l = true) as E.
    { apply existsb_exists. exists x. split; [assumption|apply Nat.eqb_refl]. }
    congruence.
Qed.

(* single_flip_local for a plaquette record *)
Lemma flux_real_flip : forall u e p,
  length (p_dirs p) = length (p_edges p) -> NoDup (p_edges p) ->
  (forall f, In f (p_edges p) -> is_pm1 (bond u f)) ->
  (flux_real (flip_at e u) p = - flux_real u p <-> In e (p_edges p))
  /\ (~ In e (p_edges p) -> flux_real (flip_at e u) p = flux_real u p).
Proof.
  intros u e p Hlen Hnd Hpm.
  assert (Hm : map fst (plaq_darts p) = p_edges p) by (now apply map_fst_combine).
  split.
  - unfold flux_real. rewrite <- Hm. apply flux_flip_iff.
    + now rewrite Hm.
    + apply is_pm1_nonzero. now apply flux_real_pm1.
  - intros H. apply flux_flip_notin. now rewrite Hm.
Qed.

(* ------------------------------------------------------------------ gauge invariance *)
Lemma bond_gauge_from : forall L v u k e,
  nth e (gauge_from L v k u) 0 =
  if incident_b L v (k + e) then - nth e u 0 else nth e u 0.
Proof.
  intros L v. induction u as [|x u IH]; intros k e.
  - simpl. destruct e; destruct (incident_b L v _); reflexivity.
  - destruct e as [|e]; simpl.
    + now rewrite Nat.add_0_r.
    + rewrite IH. now replace (S k + e)%nat with (k + S e)%nat by lia.
Qed.

Lemma bond_gauge : forall L v u e,
  bond (gauge L v u) e = if incident_b L v e then - bond u e else bond u e.
Proof. intros. unfold bond, gauge. now rewrite bond_gauge_from. Qed.

Lemma gauge_length : forall L v u, length (gauge L v u) = length u.
Proof.
  intros L v u. unfold gauge. generalize 0%nat.
  induction u as [|x u IH]; intros k; simpl; auto.
Qed.

Definition sigma (v x : nat) : Z := if (x =? v)%nat then -1 else 1.

Lemma sigma_sq : forall v x, sigma v x * sigma v x = 1.
Proof. intros. unfold sigma. destruct (x =? v)%nat; reflexivity. Qed.

Lemma incident_sign : forall L v d,
  dtail L d <> dhead L d ->
  (if incident_b L v (fst d) then -1 else 1) = sigma v (dtail L d) * sigma v (dhead L d).
Proof.
  intros L v [e b]. unfold incident_b, dtail, dhead, sigma. simpl.
  destruct (edge_at L e) as [j k]. intros H.
  destruct b; destruct (Nat.eqb_spec j v), (Nat.eqb_spec k v); simpl; try reflexivity; lia.
Qed.

Lemma dart_factor_gauge : forall L v u d,
  dart_factor (gauge L v u) d = (if incident_b L v (fst d) then -1 else 1) * dart_factor u d.
Proof.
  intros. unfold dart_factor. rewrite bond_gauge. destruct (incident_b L v (fst d)); ring.
Qed.

Lemma chain_gauge : forall L v u w h,
  chain_ok L w h = true ->
  flux_darts (gauge L v u) (map step_dart w) =
  sigma v (next_vert w h) * sigma v h * flux_darts u (map step_dart w).
Proof.
  intros L v u. induction w as [|s r IH]; intros h H.
  - simpl. rewrite sigma_sq. reflexivity.
  - simpl in H. apply andb_true_iff in H. destruct H as [H H4].
    apply andb_true_iff in H. destruct H as [H H3].
    apply andb_true_iff in H. destruct H as [H1 H2].
    apply Nat.eqb_eq in H1. apply Nat.eqb_eq in H3.
    apply negb_true_iff in H2. apply Nat.eqb_neq in H2.
    simpl map. rewrite !flux_darts_cons. rewrite (IH h H4).
    rewrite dart_factor_gauge. rewrite (incident_sign L v _ H2).
    rewrite H1, H3. change (next_vert (s :: r) h) with (step_vert s).
    set (a := sigma v (step_vert s)). set (b := sigma v (next_vert r h)).
    assert (Hb : b * b = 1) by apply sigma_sq. clearbody a b.
    transitivity (a * (b * b) * sigma v h * (dart_factor u (step_dart s) * flux_darts u (map step_dart r))).
    + ring.
    + rewrite Hb. ring.
Qed.

(* gauge_invariant on closed walks *)
Lemma walk_gauge_invariant : forall L v u w,
  walk_consistent L w = true ->
  flux_darts (gauge L v u) (map step_dart w) = flux_darts u (map step_dart w).
Proof.
  intros L v u w H. destruct w as [|s r].
  - reflexivity.
  - unfold walk_consistent in H. rewrite (chain_gauge L v u _ _ H).
    simpl next_vert. rewrite sigma_sq. ring.
Qed.

Lemma walk_darts_step_dart : forall w, walk_darts w = map step_dart w.
Proof. reflexivity. Qed.

Lemma plaq_walk_darts : forall p,
  plaq_shape p = true -> map step_dart (plaq_walk p) = plaq_darts p.
Proof.
  intros p H. unfold plaq_shape in H. apply andb_true_iff in H. destruct H as [H1 H2].
  apply Nat.eqb_eq in H1. apply Nat.eqb_eq in H2.
  unfold plaq_walk, plaq_darts.
  revert H1 H2. generalize (p_verts p) (p_dirs p).
  induction (p_edges p) as [|e es IH]; intros [|v vs] [|d ds] H1 H2; simpl in *; try discriminate; auto.
  f_equal. apply IH; lia.
Qed.

Lemma plaq_gauge_invariant : forall L v u p,
  plaq_consistent L p = true -> flux_real (gauge L v u) p = flux_real u p.
Proof.
  intros L v u p H. unfold plaq_consistent in H. apply andb_true_iff in H. destruct H as [Hs Hw].
  unfold flux_real. rewrite <- (plaq_walk_darts p Hs). now apply walk_gauge_invariant.
Qed.

Lemma plaq_gauge_invariant_cplx : forall L v u p,
  plaq_consistent L p = true -> flux_cplx (gauge L v u) p = flux_cplx u p.
Proof.
  intros L v u p H. unfold flux_cplx. rewrite !flux_cplx_darts_eq.
  fold (flux_real (gauge L v u) p). fold (flux_real u p). now rewrite (plaq_gauge_invariant L v u p H).
Qed.

(* ------------------------------------------------------------------ global parity *)
Lemma fluxes_prod_flat : forall u ps,
  zprod (map (flux_real u) ps) = flux_darts u (flat_map plaq_darts ps).
Proof.
  intros u. induction ps as [|p ps IH]; simpl.
  - reflexivity.
  - rewrite flux_darts_app, IH. reflexivity.
Qed.

Definition both_darts (e : nat) : list dart := [(e, true); (e, false)].

Lemma flux_both_darts : forall u es,
  (forall e, In e es -> is_pm1 (bond u e)) ->
  flux_darts u (flat_map both_darts es) = (-1) ^ Z.of_nat (length es).
Proof.
  intros u. induction es as [|e es IH]; intros H.
  - reflexivity.
  - simpl flat_map. rewrite !flux_darts_cons. rewrite IH by (intros; apply H; now right).
    simpl length. rewrite Nat2Z.inj_succ, Z.pow_succ_r by lia.
    unfold dart_factor. cbn [fst snd sgn].
    assert (Hb : bond u e * bond u e = 1) by (apply is_pm1_sq, H; now left).
    transitivity (- (bond u e * bond u e) * (-1) ^ Z.of_nat (length es)); [ring|].
    rewrite Hb. ring.
Qed.

Lemma all_darts_both : forall L, all_darts L = flat_map both_darts (seq 0 (nE L)).
Proof. reflexivity. Qed.

Lemma flux_all_darts : forall L u,
  (forall e, (e < nE L)%nat -> is_pm1 (bond u e)) ->
  flux_darts u (all_darts L) = (-1) ^ Z.of_nat (nE L).
Proof.
  intros L u H. rewrite all_darts_both, flux_both_darts.
  - now rewrite seq_length.
  - intros e He. apply in_seq in He. apply H. lia.
Qed.

(* global_parity *)
Lemma global_parity_perm : forall L u ps,
  Permutation (flat_map plaq_darts ps) (all_darts L) ->
  (forall e, (e < nE L)%nat -> is_pm1 (bond u e)) ->
  zprod (map (flux_real u) ps) = (-1) ^ Z.of_nat (nE L).
Proof.
  intros L u ps Hp Hu. rewrite fluxes_prod_flat.
  rewrite (flux_darts_perm u _ _ Hp). now apply flux_all_darts.
Qed.

Lemma dart_eqb_eq : forall a b : dart, dart_eqb a b = true <-> a = b.
Proof.
  intros [e1 d1] [e2 d2]. unfold dart_eqb. simpl. split.
  - intros H. apply andb_true_iff in H. destruct H as [H1 H2].
    apply Nat.eqb_eq in H1. apply eqb_prop in H2. now subst.
  - intros H. inversion H; subst. now rewrite Nat.eqb_refl, eqb_reflx.
Qed.

Lemma count_dart_pos_in : forall d l, (0 < count_dart d l)%nat -> In d l.
Proof.
  intros d l H. unfold count_dart in H.
  destruct (filter (dart_eqb d) l) as [|x r] eqn:E; [simpl in H; lia|].
  assert (Hx : In x (filter (dart_eqb d) l)) by (rewrite E; now left).
  apply filter_In in Hx. destruct Hx as [Hin Heq]. apply dart_eqb_eq in Heq. now subst.
Qed.

Lemma NoDup_both_darts : forall es, NoDup es -> NoDup (flat_map both_darts es).
Proof.
  induction es as [|e es IH]; intros H; simpl.
  - constructor.
  - inversion H as [|x l Hn Hd]; subst.
    assert (Hout : forall b, ~ In (e, b) (flat_map both_darts es)).
    { intros b Hin. apply in_flat_map in Hin. destruct Hin as [x [Hx Hin]].
      simpl in Hin. destruct Hin as [E|[E|[]]]; inversion E; subst; contradiction. }
    constructor.
    + intros [E|Hin]; [discriminate|]. now apply (Hout true).
    + constructor; [apply Hout|]. now apply IH.
Qed.

Lemma NoDup_all_darts : forall L, NoDup (all_darts L).
Proof. intros. rewrite all_darts_both. apply NoDup_both_darts, seq_NoDup. Qed.

Lemma all_darts_length : forall L, length (all_darts L) = (2 * nE L)%nat.
Proof.
  intros L. rewrite all_darts_both. rewrite <- (seq_length (nE L) 0) at 2.
  induction (seq 0 (nE L)) as [|e es IH]; simpl in *; lia.
Qed.

Lemma in_all_darts : forall L e b, In (e, b) (all_darts L) <-> (e < nE L)%nat.
Proof.
  intros L e b. rewrite all_darts_both. rewrite in_flat_map. split.
  - intros [x [Hx Hin]]. apply in_seq in Hx. simpl in Hin.
    destruct Hin as [E|[E|[]]]; inversion E; subst; lia.
  - intros H. exists e. split; [apply in_seq; lia|]. destruct b; simpl; auto.
Qed.

(* the boolean "closed lattice" test is sound *)
Lemma darts_cover_sound : forall L ps,
  darts_cover L ps = true -> Permutation (flat_map plaq_darts ps) (all_darts L).
Proof.
  intros L ps H. unfold darts_cover in H. apply andb_true_iff in H. destruct H as [H1 H2].
  apply Nat.eqb_eq in H2. rewrite forallb_forall in H1.
  apply Permutation_sym. apply NoDup_Permutation_bis.
  - apply NoDup_all_darts.
  - rewrite all_darts_length. lia.
  - intros d Hd. apply count_dart_pos_in. specialize (H1 d Hd). apply Nat.eqb_eq in H1. lia.
Qed.

(* "every dart of the lattice occurs in exactly one plaquette, and plaquettes use only darts of
   the lattice" is the same thing *)
Lemma exactly_one_perm : forall L ps,
  (forall d, In d (all_darts L) -> count_dart d (flat_map plaq_darts ps) = 1%nat) ->
  (forall d, In d (flat_map plaq_darts ps) -> In d (all_darts L)) ->
  Permutation (flat_map plaq_darts ps) (all_darts L).
Proof.
  intros L ps H1 H2.
  assert (Hnd : NoDup (flat_map plaq_darts ps)).
  { set (l := flat_map plaq_darts ps) in *. clearbody l.
    assert (G : forall l', (forall d, In d l' -> (count_dart d l' <= 1)%nat) -> NoDup l').
    { induction l' as [|x l' IH]; intros Hc; constructor.
      - intros Hin. specialize (Hc x (or_introl eq_refl)). unfold count_dart in Hc. simpl in Hc.
        assert (E : dart_eqb x x = true) by now apply dart_eqb_eq. rewrite E in Hc. simpl in Hc.
        assert (0 < length (filter (dart_eqb x) l'))%nat; [|lia].
        assert (Hf : In x (filter (dart_eqb x) l')) by (apply filter_In; auto).
        destruct (filter (dart_eqb x) l'); [destruct Hf|simpl; lia].
      - apply IH. intros d Hd. specialize (Hc d (or_intror Hd)). unfold count_dart in *. simpl in Hc.
        destruct (dart_eqb d x); simpl in Hc; lia. }
    apply G. intros d Hd. rewrite (H1 d (H2 d Hd)). lia. }
  apply NoDup_Permutation; [assumption|apply NoDup_all_darts|].
  intros d. split; [apply H2|]. intros Hd. apply count_dart_pos_in. rewrite (H1 d Hd). lia.
Qed.

(* ------------------------------------------------------------------ plaquettes of the C01 model *)
(* every plaquette returned by find_all_plaquettes is mk_plaquette of a walk that passed
   the validity filter *)
Definition from_valid_walk (L : lattice) (p : plaquette) : Prop :=
  exists w, p = mk_plaquette L w /\ walk_valid L w = true.

Lemma sweep_none : forall L adj ds, fold_left (fun st d => sweep_one L adj d st) ds None = None.
Proof. intros L adj. induction ds as [|d ds IH]; simpl; auto. Qed.

Lemma sweep_inv : forall L adj ds vis acc vis' acc',
  Forall (from_valid_walk L) acc ->
  fold_left (fun st d => sweep_one L adj d st) ds (Some (vis, acc)) = Some (vis', acc') ->
  Forall (from_valid_walk L) acc'.
Proof.
  intros L adj. induction ds as [|d ds IH]; intros vis acc vis' acc' Hacc H; simpl in H.
  - inversion H; subst. assumption.
  - destruct (visited vis d).
    + eapply IH; eauto.
    + destruct (trace L adj (fst d) (snd d)) as [w| | |]; try (rewrite sweep_none in H; discriminate).
      destruct (walk_valid L w) eqn:Hv.
      * eapply IH; [|exact H]. constructor; [|assumption]. exists w. auto.
      * eapply IH; eauto.
Qed.

Lemma find_all_plaquettes_valid : forall L ps,
  find_all_plaquettes L = Some ps -> Forall (from_valid_walk L) ps.
Proof.
  intros L ps H. unfold find_all_plaquettes in H.
  destruct (fold_left _ (all_darts L) (Some ([], []))) as [[vis acc]|] eqn:E; [|discriminate].
  inversion H; subst. apply Forall_rev.
  eapply sweep_inv; [|exact E]. constructor.
Qed.

Lemma from_valid_walk_shape : forall L p,
  from_valid_walk L p ->
  length (p_verts p) = length (p_edges p) /\ length (p_dirs p) = length (p_edges p) /\ NoDup (p_edges p).
Proof.
  intros L p [w [-> Hv]]. simpl. unfold walk_verts, walk_edges, walk_dirs. rewrite !map_length.
  repeat split. apply nodupb_sound. unfold walk_valid in Hv.
  apply andb_true_iff in Hv. destruct Hv as [Hv _]. apply andb_true_iff in Hv. tauto.
Qed.

Lemma model_plaquette_shape : forall L ps p,
  find_all_plaquettes L = Some ps -> In p ps ->
  length (p_verts p) = length (p_edges p) /\ length (p_dirs p) = length (p_edges p) /\ NoDup (p_edges p).
Proof.
  intros L ps p H Hin. apply from_valid_walk_shape with (L := L).
  apply find_all_plaquettes_valid in H. rewrite Forall_forall in H. now apply H.
Qed.

(* the plaquette record stores exactly the walk *)
Lemma plaq_walk_mk : forall L w, plaq_walk (mk_plaquette L w) = w.
Proof.
  intros L w. unfold plaq_walk. simpl. unfold walk_edges, walk_verts, walk_dirs.
  induction w as [|[[e v] d] w IH]; simpl; [reflexivity|]. now rewrite IH.
Qed.

(* ------------------------------------------------------------------ a concrete closed lattice
   2 x 2 square grid on the torus (positions scaled by 4), 4 vertices, 8 edges (two parallel
   edges between each neighbouring pair, one of them crossing the cell boundary), 4 plaquettes;
   used by the non-vacuity Examples of Props/C05.v *)
Definition torus22 : lattice := mkLattice 4
  [(1,1);(3,1);(1,3);(3,3)]
  [(0,1);(1,0);(2,3);(3,2);(0,2);(2,0);(1,3);(3,1)]%nat
  [(0,0);(1,0);(0,0);(1,0);(0,0);(0,1);(0,0);(0,1)].
Definition torus22_u : list Z := [1;-1;1;1;-1;1;1;1].

(* ------------------------------------------------------------------ statements in the form used by Props/C05.v *)
Lemma C05_flux_def_lemma : forall (L : lattice) (u : list Z),
  fluxes_from_ujk L u =
  option_map (map (fun p => zprod (map (fun ed : dart =>
      - (if snd ed then bond u (fst ed) else - bond u (fst ed))) (plaq_darts p))))
    (find_all_plaquettes L).
Proof.
  intros L u. unfold fluxes_from_ujk. destruct (find_all_plaquettes L) as [ps|]; [|reflexivity].
  simpl. f_equal. unfold fluxes_real. apply map_ext. intros p. apply flux_real_spec.
Qed.

Lemma flux_real_pm1_array : forall (u : list Z) (p : plaquette),
  all_pm1 u = true -> (forall e, In e (p_edges p) -> (e < length u)%nat) ->
  flux_real u p = 1 \/ flux_real u p = -1.
Proof.
  intros u p Hu Hr. apply flux_real_pm1. intros e He. apply all_pm1_bond; auto.
Qed.

Lemma flux_cplx_eq_closed : forall (u : list Z) (p : plaquette),
  length (p_dirs p) = length (p_edges p) ->
  flux_cplx u p = gscale (flux_real u p) (gpow gi (n_sides p))
  /\ gpow gi (n_sides p) = gi_pow_closed (n_sides p).
Proof. intros u p H. split; [now apply flux_cplx_eq|apply gpow_gi_closed]. Qed.

Lemma labels_map_lemma :
  flux_label 1 = 0 /\ flux_label (-1) = 1 /\
  forall fs, Forall is_pm1 fs ->
    fluxes_to_labels fs = map (fun f => if f =? 1 then 0 else 1) fs
    /\ length (fluxes_to_labels fs) = length fs.
Proof. repeat split; try reflexivity; now apply fluxes_to_labels_map. Qed.

Lemma gauge_spec_lemma : forall (L : lattice) (v : nat) (u : list Z) (e : nat),
  bond (gauge L v u) e = (if incident_b L v e then - bond u e else bond u e)
  /\ length (gauge L v u) = length u.
Proof. intros. split; [apply bond_gauge|apply gauge_length]. Qed.

Lemma plaq_gauge_invariant_both : forall (L : lattice) (v : nat) (u : list Z) (p : plaquette),
  plaq_consistent L p = true ->
  flux_real (gauge L v u) p = flux_real u p /\ flux_cplx (gauge L v u) p = flux_cplx u p.
Proof. intros. split; [now apply plaq_gauge_invariant|now apply plaq_gauge_invariant_cplx]. Qed.

Lemma flux_real_flip_model :
  forall (L : lattice) (ps : list plaquette) (p : plaquette) (u : list Z) (e : nat),
  find_all_plaquettes L = Some ps -> In p ps ->
  (forall f, In f (p_edges p) -> is_pm1 (bond u f)) ->
  (flux_real (flip_at e u) p = - flux_real u p <-> In e (p_edges p))
  /\ (~ In e (p_edges p) -> flux_real (flip_at e u) p = flux_real u p).
Proof.
  intros L ps p u e H Hin Hu. destruct (model_plaquette_shape L ps p H Hin) as [_ [H2 H3]].
  now apply flux_real_flip.
Qed.

Lemma flip_spec_lemma : forall (u : list Z) (e f : nat),
  bond (flip_at e u) f = (if (f =? e)%nat then - bond u f else bond u f)
  /\ length (flip_at e u) = length u.
Proof. intros. split; [apply bond_flip|apply flip_at_length]. Qed.

Lemma global_parity_exactly_one : forall (L : lattice) (u : list Z) (ps : list plaquette),
  (forall d, In d (all_darts L) -> count_dart d (flat_map plaq_darts ps) = 1%nat) ->
  (forall d, In d (flat_map plaq_darts ps) -> In d (all_darts L)) ->
  (forall e, (e < nE L)%nat -> is_pm1 (bond u e)) ->
  zprod (fluxes_real u ps) = (-1) ^ Z.of_nat (nE L).
Proof. intros L u ps H1 H2 Hu. apply global_parity_perm; [now apply exactly_one_perm|assumption]. Qed.

Lemma global_parity_cover : forall (L : lattice) (u : list Z) (ps : list plaquette),
  darts_cover L ps = true ->
  (forall e, (e < nE L)%nat -> is_pm1 (bond u e)) ->
  zprod (fluxes_real u ps) = (-1) ^ Z.of_nat (nE L).
Proof. intros L u ps H Hu. apply global_parity_perm; [now apply darts_cover_sound|assumption]. Qed.
