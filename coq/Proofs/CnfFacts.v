(* Proofs/CnfFacts.v — facts about Model/Cnf.v: semantics of the pairwise exactly-one encoding,
   models as lists vs valuations, maxvar, argmax, and a few list lemmas missing from Coq 8.16. *)
From Coq Require Import List ZArith Bool Arith Lia ZifyBool.
From Koala Require Import Model.Cnf.
Import ListNotations.
Local Open Scope Z_scope.

(* ------------------------------------------------------------------ list helpers *)

Lemma NoDup_app_intro {A} (l1 l2 : list A) :
  NoDup l1 -> NoDup l2 -> (forall x, In x l1 -> In x l2 -> False) -> NoDup (l1 ++ l2).
Proof.
  induction l1 as [|a l1 IH]; simpl; intros H1 H2 Hd; auto.
  inversion H1 as [|? ? Hn H1']; subst. constructor.
  - rewrite in_app_iff. intros [Hi|Hi]; [contradiction|]. eapply Hd; eauto.
  - apply IH; auto. intros x Hx1 Hx2. eapply Hd; eauto.
Qed.

Lemma NoDup_flat_map_intro {A B} (f : A -> list B) (l : list A) :
  NoDup l -> (forall a, In a l -> NoDup (f a)) ->
  (forall a b x, In a l -> In b l -> In x (f a) -> In x (f b) -> a = b) ->
  NoDup (flat_map f l).
Proof.
  induction l as [|a l IH]; simpl; intros Hl Hf Hd; [constructor|].
  inversion Hl as [|? ? Hn Hl']; subst.
  apply NoDup_app_intro.
  - apply Hf; auto.
  - apply IH; auto. intros; eapply Hd; eauto.
  - intros x Hx1 Hx2. apply in_flat_map in Hx2 as [b [Hb Hxb]].
    assert (a = b) by (eapply Hd; eauto). subst. contradiction.
Qed.

Lemma NoDup_map_inj {A B} (f : A -> B) (l : list A) :
  NoDup l -> (forall x y, In x l -> In y l -> f x = f y -> x = y) -> NoDup (map f l).
Proof.
  induction l as [|a l IH]; simpl; intros Hl Hinj; [constructor|].
  inversion Hl as [|? ? Hn Hl']; subst. constructor.
  - rewrite in_map_iff. intros [y [Hy Hin]]. apply Hn.
    assert (y = a) by (apply Hinj; auto). subst; auto.
  - apply IH; auto.
Qed.

Lemma NoDup_same_length {A} (l1 l2 : list A) :
  NoDup l1 -> NoDup l2 -> (forall x, In x l1 <-> In x l2) -> length l1 = length l2.
Proof.
  intros H1 H2 H. apply Nat.le_antisymm; apply NoDup_incl_length; auto; intros x Hx; apply H; auto.
Qed.

Lemma filter_length_map {A B} (f : A -> B) (p : B -> bool) (l : list A) :
  length (filter p (map f l)) = length (filter (fun x => p (f x)) l).
Proof. induction l; simpl; auto. destruct (p (f a)); simpl; auto. Qed.

(* exactly one element of a duplicate-free list satisfies p *)
Lemma count1_unique {A} (p : A -> bool) (l : list A) :
  NoDup l -> length (filter p l) = 1%nat ->
  exists x, filter p l = [x] /\ In x l /\ p x = true /\ forall y, In y l -> p y = true -> y = x.
Proof.
  intros Hnd Hc. destruct (filter p l) as [|x [|? ?]] eqn:E; simpl in Hc; try discriminate.
  exists x. assert (Hx : In x (filter p l)) by (rewrite E; left; auto).
  apply filter_In in Hx as [Hx1 Hx2]. repeat split; auto.
  intros y Hy Hpy. assert (Hy' : In y (filter p l)) by (apply filter_In; auto).
  rewrite E in Hy'. destruct Hy' as [|[]]; auto.
Qed.

Lemma count1_intro {A} (p : A -> bool) (l : list A) (x : A) :
  NoDup l -> In x l -> p x = true -> (forall y, In y l -> p y = true -> y = x) ->
  filter p l = [x].
Proof.
  induction l as [|a l IH]; simpl; intros Hnd Hin Hp Hu; [contradiction|].
  inversion Hnd as [|? ? Hn Hnd']; subst.
  assert (Hnone : forall l', (forall y, In y l' -> p y = true -> False) -> filter p l' = []).
  { induction l' as [|b l' IH']; simpl; intros H; auto.
    destruct (p b) eqn:Eb; [exfalso; eapply H; eauto|]. apply IH'. intros; eapply H; eauto. }
  destruct Hin as [->|Hin].
  - rewrite Hp. f_equal. apply Hnone. intros y Hy Hpy.
    assert (y = x) by (apply Hu; auto). subst. contradiction.
  - destruct (p a) eqn:Ea.
    + assert (a = x) by (apply Hu; auto). subst. contradiction.
    + apply IH; auto.
Qed.

(* ------------------------------------------------------------------ literals, clauses *)

Definition count (nu : valuation) (l : list Z) : nat := length (filter nu l).

Lemma eval_lit_pos nu a : 0 < a -> eval_lit nu a = nu a.
Proof. intros H. unfold eval_lit. destruct (0 <? a) eqn:E; auto. lia. Qed.

Lemma eval_lit_neg nu a : 0 < a -> eval_lit nu (- a) = negb (nu a).
Proof.
  intros H. unfold eval_lit. destruct (0 <? - a) eqn:E; [lia|].
  replace (- - a) with a by lia. auto.
Qed.

Lemma eval_cnf_app nu f g : eval_cnf nu (f ++ g) = eval_cnf nu f && eval_cnf nu g.
Proof. apply forallb_app. Qed.

Lemma eval_cnf_forall nu f : eval_cnf nu f = true <-> forall c, In c f -> eval_clause nu c = true.
Proof. apply forallb_forall. Qed.

Lemma eval_clause_pos nu l :
  Forall (fun a => 0 < a) l -> eval_clause nu l = (1 <=? count nu l)%nat.
Proof.
  unfold count, eval_clause. induction l as [|a l IH]; simpl; intros H; auto.
  inversion H; subst. rewrite eval_lit_pos by auto. destruct (nu a); simpl; auto.
Qed.

Lemma amo_head nu a r :
  0 < a -> Forall (fun b => 0 < b) r ->
  forallb (eval_clause nu) (map (fun b => [- a; - b]) r) = negb (nu a) || (count nu r =? 0)%nat.
Proof.
  intros Ha. unfold count. induction r as [|b r IH]; simpl; intros H.
  - destruct (nu a); reflexivity.
  - inversion H; subst. rewrite IH by auto. unfold eval_clause. simpl.
    rewrite !eval_lit_neg by auto. destruct (nu a), (nu b); simpl; auto.
Qed.

Lemma eval_amo nu l :
  Forall (fun a => 0 < a) l -> eval_cnf nu (amo l) = (count nu l <=? 1)%nat.
Proof.
  induction l as [|a l IH]; simpl; intros H; auto.
  inversion H; subst. rewrite eval_cnf_app. unfold eval_cnf at 1. rewrite amo_head by auto.
  rewrite IH by auto. unfold count. simpl. destruct (nu a); simpl; auto.
  destruct (length (filter nu l)) as [|[|k]]; reflexivity.
Qed.

(* the semantics of CardEnc.equals(bound=1, pairwise): exactly one literal is true *)
Lemma eval_equals1 nu l :
  Forall (fun a => 0 < a) l -> eval_cnf nu (equals1 l) = (count nu l =? 1)%nat.
Proof.
  intros H. unfold equals1. change (eval_cnf nu (l :: amo l)) with (eval_clause nu l && eval_cnf nu (amo l)).
  rewrite eval_clause_pos, eval_amo by auto.
  destruct (count nu l) as [|[|k]]; reflexivity.
Qed.

(* ------------------------------------------------------------------ maxvar *)

Lemma maxvar_ge f c l : In c f -> In l c -> (Z.to_nat (Z.abs l) <= maxvar f)%nat.
Proof.
  intros Hc Hl. unfold maxvar.
  assert (H : Forall (fun k => (k <= list_max (map (fun l => Z.to_nat (Z.abs l)) (concat f)))%nat)
                     (map (fun l => Z.to_nat (Z.abs l)) (concat f))) by (apply list_max_le; lia).
  rewrite Forall_forall in H. apply H.
  apply (in_map (fun l => Z.to_nat (Z.abs l))). apply in_concat. eauto.
Qed.

Lemma maxvar_le f N :
  (forall c l, In c f -> In l c -> (Z.to_nat (Z.abs l) <= N)%nat) -> (maxvar f <= N)%nat.
Proof.
  intros H. unfold maxvar. apply list_max_le. apply Forall_forall. intros k Hk.
  apply in_map_iff in Hk as [l [<- Hl]]. apply in_concat in Hl as [c [Hc Hl]]. eauto.
Qed.

Lemma maxvar_eq f N :
  (forall c l, In c f -> In l c -> (Z.to_nat (Z.abs l) <= N)%nat) ->
  (N = 0%nat \/ exists c l, In c f /\ In l c /\ Z.to_nat (Z.abs l) = N) -> maxvar f = N.
Proof.
  intros Hle [->|[c [l [Hc [Hl <-]]]]].
  - apply Nat.le_antisymm; [apply maxvar_le; auto|lia].
  - apply Nat.le_antisymm; [apply maxvar_le; auto|eapply maxvar_ge; eauto].
Qed.

(* ------------------------------------------------------------------ model lists *)

Lemma model_of_val_length N nu : length (model_of_val N nu) = N.
Proof. unfold model_of_val. now rewrite map_length, seq_length. Qed.

Lemma model_of_val_nth N nu k :
  (k < N)%nat -> nth k (model_of_val N nu) 0 = if nu (Z.of_nat (S k)) then Z.of_nat (S k) else - Z.of_nat (S k).
Proof.
  intros H. unfold model_of_val.
  set (f := fun k : nat => let v := Z.of_nat k in if nu v then v else - v).
  rewrite nth_indep with (d' := f 0%nat) by (now rewrite map_length, seq_length).
  rewrite map_nth, seq_nth by auto. reflexivity.
Qed.

Lemma val_model_of_val N nu v : 1 <= v <= Z.of_nat N -> val (model_of_val N nu) v = nu v.
Proof.
  intros H. unfold val. rewrite model_of_val_nth by lia.
  replace (Z.of_nat (S (Z.to_nat (v - 1)))) with v by lia.
  destruct (nu v); lia.
Qed.

Lemma model_of_val_ext N nu nu' :
  (forall v, 1 <= v <= Z.of_nat N -> nu v = nu' v) -> model_of_val N nu = model_of_val N nu'.
Proof.
  intros H. unfold model_of_val. apply map_ext_in. intros k Hk. apply in_seq in Hk.
  cbv zeta. rewrite H by lia. reflexivity.
Qed.

Lemma wf_from_spec m : forall i,
  wf_from i m = true <-> forall k, (k < length m)%nat -> nth k m 0 = i + Z.of_nat k \/ nth k m 0 = - (i + Z.of_nat k).
Proof.
  induction m as [|x m IH]; simpl; intros i.
  - split; auto. intros _ k Hk. lia.
  - rewrite andb_true_iff, IH. split.
    + intros [Hx Hr] k Hk. destruct k as [|k].
      * rewrite Z.add_0_r. lia.
      * specialize (Hr k ltac:(lia)). replace (i + Z.of_nat (S k)) with (i + 1 + Z.of_nat k) by lia. auto.
    + intros H. split.
      * specialize (H 0%nat ltac:(lia)). simpl in H. lia.
      * intros k Hk. specialize (H (S k) ltac:(lia)). simpl in H.
        replace (i + 1 + Z.of_nat k) with (i + Z.of_nat (S k)) by lia. auto.
Qed.

Lemma wf_model_spec N m :
  wf_model N m = true <->
  length m = N /\ forall k, (k < N)%nat -> nth k m 0 = Z.of_nat (S k) \/ nth k m 0 = - Z.of_nat (S k).
Proof.
  unfold wf_model. rewrite andb_true_iff, Nat.eqb_eq, wf_from_spec. split.
  - intros [Hl H]. split; auto. intros k Hk. specialize (H k ltac:(lia)).
    replace (Z.of_nat (S k)) with (1 + Z.of_nat k) by lia. auto.
  - intros [Hl H]. split; auto. intros k Hk. specialize (H k ltac:(lia)).
    replace (1 + Z.of_nat k) with (Z.of_nat (S k)) by lia. auto.
Qed.

Lemma wf_model_of_val N nu : wf_model N (model_of_val N nu) = true.
Proof.
  apply wf_model_spec. split; [apply model_of_val_length|].
  intros k Hk. rewrite model_of_val_nth by auto. destruct (nu _); auto.
Qed.

(* a well-formed model list is determined by its valuation *)
Lemma wf_model_eq N m : wf_model N m = true -> m = model_of_val N (val m).
Proof.
  intros H. apply wf_model_spec in H as [Hl H].
  apply nth_ext with (d := 0) (d' := 0).
  - now rewrite model_of_val_length.
  - intros k Hk. rewrite model_of_val_nth by lia. unfold val.
    replace (Z.to_nat (Z.of_nat (S k) - 1)) with k by lia.
    destruct (H k ltac:(lia)) as [E|E]; rewrite E; destruct (0 <? _) eqn:E'; lia.
Qed.

Lemma wf_model_nth_sign N m k :
  wf_model N m = true -> (k < N)%nat ->
  nth k m 0 = if val m (Z.of_nat (S k)) then Z.of_nat (S k) else - Z.of_nat (S k).
Proof.
  intros H Hk. rewrite (wf_model_eq N m H) at 1. now rewrite model_of_val_nth.
Qed.

(* ------------------------------------------------------------------ argmax *)

Lemma argmax_from_below l : forall bi b i,
  (forall x, In x l -> x <= b) -> argmax_from bi b i l = bi.
Proof.
  induction l as [|x l IH]; simpl; intros bi b i H; auto.
  assert (x <= b) by (apply H; auto). destruct (b <? x) eqn:E; [lia|].
  apply IH. intros; apply H; auto.
Qed.

Lemma argmax_from_at l : forall bi b i p,
  (p < length l)%nat -> b < nth p l 0 ->
  (forall q, (q < length l)%nat -> q <> p -> nth q l 0 < nth p l 0) ->
  argmax_from bi b i l = (i + p)%nat.
Proof.
  induction l as [|x l IH]; simpl; intros bi b i p Hp Hb Hu; [lia|].
  destruct p as [|p].
  - simpl in Hb. destruct (b <? x) eqn:E; [|lia].
    rewrite argmax_from_below; [lia|].
    intros y Hy. apply In_nth with (d := 0) in Hy as [q [Hq <-]].
    specialize (Hu (S q) ltac:(lia) ltac:(lia)). simpl in Hu. lia.
  - assert (Hx : x < nth p l 0) by (specialize (Hu 0%nat ltac:(lia) ltac:(lia)); simpl in Hu; auto).
    simpl in Hb.
    assert (Hu' : forall q, (q < length l)%nat -> q <> p -> nth q l 0 < nth p l 0).
    { intros q Hq Hne. specialize (Hu (S q) ltac:(lia) ltac:(lia)). simpl in Hu. auto. }
    destruct (b <? x); rewrite (IH _ _ _ p) by (auto; lia); lia.
Qed.

(* a strict maximum is what numpy's argmax returns *)
Lemma argmax_unique_max l p :
  (p < length l)%nat -> (forall q, (q < length l)%nat -> q <> p -> nth q l 0 < nth p l 0) -> argmax l = p.
Proof.
  intros Hp Hu. destruct l as [|x l]; simpl in *; [lia|].
  destruct p as [|p].
  - apply argmax_from_below. intros y Hy. apply In_nth with (d := 0) in Hy as [q [Hq <-]].
    specialize (Hu (S q) ltac:(lia) ltac:(lia)). simpl in Hu. lia.
  - rewrite (argmax_from_at l 0%nat x 1%nat p); try lia.
    + specialize (Hu 0%nat ltac:(lia) ltac:(lia)). simpl in Hu. auto.
    + intros q Hq Hne. specialize (Hu (S q) ltac:(lia) ltac:(lia)). simpl in Hu. auto.
Qed.

(* ------------------------------------------------------------------ brute-force enumeration *)

Lemma all_models_from_spec N : forall i m,
  In m (all_models_from i N) <->
  length m = N /\ forall k, (k < N)%nat -> nth k m 0 = i + Z.of_nat k \/ nth k m 0 = - (i + Z.of_nat k).
Proof.
  induction N as [|N IH]; simpl; intros i m.
  - split.
    + intros [<-|[]]. split; auto. intros; lia.
    + intros [Hl _]. destruct m; simpl in *; auto; discriminate.
  - rewrite in_app_iff, !in_map_iff. split.
    + intros [[r [<- Hr]]|[r [<- Hr]]]; apply IH in Hr as [Hl Hr]; (split; [simpl; lia|]);
        intros k Hk; (destruct k as [|k]; simpl; [rewrite Z.add_0_r; auto|]);
        specialize (Hr k ltac:(lia)); replace (i + Z.pos (Pos.of_succ_nat k)) with (i + 1 + Z.of_nat k) by lia; auto.
    + intros [Hl H]. destruct m as [|x r]; simpl in Hl; [discriminate|].
      assert (Hr : In r (all_models_from (i + 1) N)).
      { apply IH. split; [lia|]. intros k Hk. specialize (H (S k) ltac:(lia)). simpl in H.
        replace (i + 1 + Z.of_nat k) with (i + Z.pos (Pos.of_succ_nat k)) by lia. auto. }
      specialize (H 0%nat ltac:(lia)). simpl in H. rewrite Z.add_0_r in H.
      destruct H as [->| ->]; [right|left]; exists r; auto.
Qed.

Lemma all_models_from_NoDup N : forall i, i <> 0 -> 0 <= i -> NoDup (all_models_from i N).
Proof.
  induction N as [|N IH]; simpl; intros i Hi Hi'; [repeat constructor; auto|].
  apply NoDup_app_intro.
  - apply NoDup_map_inj; [apply IH; lia|]. intros x y _ _ H. now inversion H.
  - apply NoDup_map_inj; [apply IH; lia|]. intros x y _ _ H. now inversion H.
  - intros m H1 H2. apply in_map_iff in H1 as [r1 [<- _]]. apply in_map_iff in H2 as [r2 [E _]].
    inversion E. lia.
Qed.

(* brute_models is a solver-free implementation of the enum_models contract *)
Lemma brute_models_spec N f m :
  In m (brute_models N f) <-> wf_model N m = true /\ eval_cnf (val m) f = true.
Proof.
  unfold brute_models. rewrite filter_In, all_models_from_spec, wf_model_spec.
  split; intros [[Hl H] He]; (split; [split; auto|auto]); intros k Hk; specialize (H k Hk);
    [replace (Z.of_nat (S k)) with (1 + Z.of_nat k) by lia | replace (1 + Z.of_nat k) with (Z.of_nat (S k)) by lia]; auto.
Qed.

Lemma brute_models_NoDup N f : NoDup (brute_models N f).
Proof. unfold brute_models. apply NoDup_filter. apply all_models_from_NoDup; lia. Qed.
