(* Proofs/FluxGaugeGroup.v — the gauge transformations of Model/Flux.v as a group acting on bond arrays:
   any finite composition of vertex gauge flips leaves the whole flux vector unchanged; each flip is an
   involution and flips commute (bond-wise).  Built only on gauge_spec_lemma and model_fluxes_gauge_invariant. *)
From Coq Require Import List ZArith Bool Arith Lia.
From Koala Require Import Model.Lattice Model.Flux Proofs.FluxFacts Proofs.FluxLattice.
Import ListNotations.
Open Scope Z_scope.

Definition gauge_many (L : lattice) (vs : list nat) (u : list Z) : list Z :=
  fold_left (fun u' v => gauge L v u') vs u.

Lemma gauge_many_length : forall L vs u, length (gauge_many L vs u) = length u.
Proof.
  intros L vs. unfold gauge_many. induction vs as [|v vs IH]; intros u; cbn [fold_left]; [reflexivity|].
  rewrite IH. apply (gauge_spec_lemma L v u 0%nat).
Qed.

Lemma model_fluxes_gauge_many_invariant : forall L vs u,
  wf_lattice L = true -> no_self_loops L = true ->
  fluxes_from_ujk L (gauge_many L vs u) = fluxes_from_ujk L u
  /\ fluxes_from_ujk_cplx L (gauge_many L vs u) = fluxes_from_ujk_cplx L u.
Proof.
  intros L vs u Hwf Hnl. revert u. unfold gauge_many.
  induction vs as [|v vs IH]; intros u; cbn [fold_left]; [split; reflexivity|].
  destruct (IH (gauge L v u)) as [H1 H2]. destruct (model_fluxes_gauge_invariant L v u Hwf Hnl) as [G1 G2].
  split; [rewrite H1; exact G1 | rewrite H2; exact G2].
Qed.

(* each vertex flip is an involution, and two flips commute: statements on every bond *)
Lemma gauge_involutive_bond : forall L v u e, bond (gauge L v (gauge L v u)) e = bond u e.
Proof.
  intros L v u e. rewrite (proj1 (gauge_spec_lemma L v (gauge L v u) e)), (proj1 (gauge_spec_lemma L v u e)).
  destruct (incident_b L v e); lia.
Qed.

Lemma gauge_commute_bond : forall L v w u e,
  bond (gauge L v (gauge L w u)) e = bond (gauge L w (gauge L v u)) e.
Proof.
  intros L v w u e.
  rewrite (proj1 (gauge_spec_lemma L v (gauge L w u) e)), (proj1 (gauge_spec_lemma L w u e)),
          (proj1 (gauge_spec_lemma L w (gauge L v u) e)), (proj1 (gauge_spec_lemma L v u e)).
  destruct (incident_b L v e), (incident_b L w e); lia.
Qed.

(* the composition acts on a bond by the parity of the number of listed vertices incident on its edge *)
Lemma gauge_many_bond : forall L vs u e,
  bond (gauge_many L vs u) e =
  (if Nat.even (length (filter (fun v => incident_b L v e) vs)) then bond u e else - bond u e).
Proof.
  intros L vs. unfold gauge_many. induction vs as [|v vs IH]; intros u e; cbn [fold_left filter]; [reflexivity|].
  rewrite IH, (proj1 (gauge_spec_lemma L v u e)).
  destruct (incident_b L v e); cbn [length]; [| reflexivity].
  rewrite Nat.even_succ, <- Nat.negb_even.
  destruct (Nat.even (length (filter (fun v0 => incident_b L v0 e) vs))); cbn [negb]; lia.
Qed.
