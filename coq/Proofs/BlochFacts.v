(* Proofs/BlochFacts.v — facts about Model/Bloch.v.

   Main results (all over an abstract commutative ring with Leibniz equality, Section BlochRing):
     bloch_intertwines : A_tiled . Phi = Phi . H(w)   for every well-formed unit cell, every nx, ny >= 1
                         and all roots of unity wx^nx = wy^ny = 1  (Bloch's theorem for tile_unit_cell)
     hk_gamma          : H(1,1) = real-space Hamiltonian of the cell
     hk_hermitian      : H(w)^dagger = H(w) for |w| = 1, tb = conj t
   and for the executable Gaussian-integer instance: hk_gauss_periodic_a/b, hk_gauss_gamma;
   finally the specifications of the Q functionals (qabs_min, gap_size, gaps, ground_state_per_site,
   lower_half, k_grid). *)
From Coq Require Import List ZArith Bool Arith Lia ZifyBool Ring QArith Qabs.
From Koala Require Import Gen.TilingGen Model.Lattice Model.Tiling Model.Bloch Proofs.TilingFacts.
Import ListNotations.
Open Scope Z_scope.

Lemma gi_pow_periodic a : gi_pow (a + 4) = gi_pow a.
Proof. unfold gi_pow. replace (a + 4) with (a + 1 * 4) by lia. now rewrite Z.mod_add by lia. Qed.

(* ------------------------------------------------------------------ index arithmetic *)
Lemma site_index_inj ns m s q k :
  0 <= s < ns -> 0 <= k < ns -> m * ns + s = q * ns + k -> s = k /\ m = q.
Proof.
  intros Hs Hk E.
  pose proof (f_equal (fun z => z / ns) E) as Ed. cbv beta in Ed. rewrite !cell_div in Ed by lia.
  pose proof (f_equal (fun z => z mod ns) E) as Em. cbv beta in Em. rewrite !cell_mod in Em by lia.
  auto.
Qed.

Lemma site_index_eqb ns m s q k :
  0 <= s < ns -> 0 <= k < ns -> (m * ns + s =? q * ns + k) = (s =? k) && (m =? q).
Proof.
  intros Hs Hk.
  destruct (Z.eqb_spec (m * ns + s) (q * ns + k)) as [E|E].
  - destruct (site_index_inj ns m s q k Hs Hk E) as (-> & ->). now rewrite !Z.eqb_refl.
  - destruct (Z.eqb_spec s k) as [->|]; [|reflexivity].
    destruct (Z.eqb_spec m q) as [->|]; [|reflexivity]. contradiction.
Qed.

Lemma row_decompose M ns row : 0 <= row < M * ns -> 0 < ns ->
  row = (row / ns) * ns + row mod ns /\ 0 <= row mod ns < ns /\ 0 <= row / ns < M.
Proof.
  intros Hr Hns. pose proof (Z.div_mod row ns ltac:(lia)). pose proof (Z.mod_pos_bound row ns ltac:(lia)).
  split; [lia|]. split; [lia|]. split; [apply Z.div_pos; lia|]. apply Z.div_lt_upper_bound; lia.
Qed.

Lemma combine_map_l {A B C} (f : A -> C) (l : list A) (l' : list B) :
  combine (map f l) l' = map (fun p => (f (fst p), snd p)) (combine l l').
Proof. revert l'; induction l as [|a l IH]; intros [|b l']; simpl; auto. f_equal; auto. Qed.

Lemma in_combine_map {A B} (f : A -> B) (l : list A) x y : In (x, y) (combine l (map f l)) -> y = f x.
Proof.
  induction l as [|a l IH]; simpl; [tauto|]. intros [E|H]; [inversion E; reflexivity|auto].
Qed.

(* ================================================================== the ring section *)
Section BlochRing.
  Variable R : Type.
  Variables (rO rI : R) (radd rmul rsub : R -> R -> R) (ropp : R -> R).
  Hypothesis Rth : ring_theory rO rI radd rmul rsub ropp (@eq R).
  Add Ring Rring : Rth.

  Local Notation "x [+] y" := (radd x y) (at level 50, left associativity).
  Local Notation "x [*] y" := (rmul x y) (at level 40, left associativity).
  Local Notation sum := (rsum R rO radd).
  Local Notation pow := (rpow R rI rmul).
  Local Notation zp := (zpow R rI rmul).
  Local Notation ph := (phase R rI rmul).
  Local Notation bt := (bond_term R rO radd).
  Local Notation ham := (ham_entry R rO radd).
  Local Notation hkw := (hk_weights R rI rmul).
  Local Notation hk := (hk_entry R rO rI radd rmul).
  Local Notation mm := (mat_mul R rO radd rmul).
  Local Notation Phi := (bloch_phi R rO rI rmul).
  Local Notation tw := (tile_weights R).

  (* ---------------------------------------------------------------- a. finite sums *)
  Lemma rsum_nil : sum [] = rO.
  Proof. reflexivity. Qed.
  Lemma rsum_cons x l : sum (x :: l) = x [+] sum l.
  Proof. reflexivity. Qed.

  Lemma rsum_app l l' : sum (l ++ l') = sum l [+] sum l'.
  Proof.
    induction l as [|a l IH]; [rewrite app_nil_l, rsum_nil; ring|].
    rewrite <- app_comm_cons, !rsum_cons, IH. ring.
  Qed.

  Lemma rsum_map_add {A} (f g : A -> R) l :
    sum (map (fun x => f x [+] g x) l) = sum (map f l) [+] sum (map g l).
  Proof.
    induction l as [|a l IH]; cbn [map]; rewrite ?rsum_nil, ?rsum_cons; [ring|]. rewrite IH. ring.
  Qed.

  Lemma rsum_mul_l {A} k (f : A -> R) l : k [*] sum (map f l) = sum (map (fun x => k [*] f x) l).
  Proof.
    induction l as [|a l IH]; cbn [map]; rewrite ?rsum_nil, ?rsum_cons; [ring|]. rewrite <- IH. ring.
  Qed.

  Lemma rsum_mul_r {A} k (f : A -> R) l : sum (map f l) [*] k = sum (map (fun x => f x [*] k) l).
  Proof.
    induction l as [|a l IH]; cbn [map]; rewrite ?rsum_nil, ?rsum_cons; [ring|]. rewrite <- IH. ring.
  Qed.

  Lemma rsum_ext {A} (f g : A -> R) l : (forall x, In x l -> f x = g x) -> sum (map f l) = sum (map g l).
  Proof. intros H. f_equal. apply map_ext_in. exact H. Qed.

  Lemma rsum_zero {A} (f : A -> R) l : (forall x, In x l -> f x = rO) -> sum (map f l) = rO.
  Proof.
    induction l as [|a l IH]; intros H; cbn [map]; rewrite ?rsum_nil, ?rsum_cons; [reflexivity|].
    rewrite IH by (intros; apply H; right; assumption). rewrite (H a) by (left; reflexivity). ring.
  Qed.

  Lemma rsum_swap {A B} (f : A -> B -> R) l l' :
    sum (map (fun x => sum (map (fun y => f x y) l')) l)
    = sum (map (fun y => sum (map (fun x => f x y) l)) l').
  Proof.
    induction l as [|a l IH]; cbn [map].
    - rewrite rsum_nil. symmetry. apply rsum_zero. reflexivity.
    - rewrite rsum_cons, IH, <- rsum_map_add. apply rsum_ext. intros y _. reflexivity.
  Qed.

  Lemma rsum_flat_map {A B} (g : B -> R) (f : A -> list B) l :
    sum (map g (flat_map f l)) = sum (map (fun x => sum (map g (f x))) l).
  Proof.
    induction l as [|a l IH]; cbn [flat_map map]; [reflexivity|].
    rewrite map_app, rsum_app, rsum_cons, IH. reflexivity.
  Qed.

  Lemma rsum_delta {A} (f : A -> R) l p :
    NoDup l -> In p l -> (forall x, In x l -> x <> p -> f x = rO) -> sum (map f l) = f p.
  Proof.
    induction l as [|a l IH]; intros ND Hin Hz; [destruct Hin|].
    inversion ND as [|? ? Hna ND']; subst. cbn [map]. rewrite rsum_cons. destruct Hin as [->|Hin].
    - rewrite rsum_zero; [ring|]. intros x Hx. apply Hz; [right; assumption|]. intros ->. contradiction.
    - rewrite IH; auto.
      + rewrite (Hz a); [ring|left; reflexivity|]. intros ->. contradiction.
      + intros x Hx. apply Hz. right; assumption.
  Qed.

  Lemma rsum_delta_zrange M p (f : Z -> R) : 0 <= p < M ->
    sum (map (fun b => if b =? p then f b else rO) (zrange M)) = f p.
  Proof.
    intros Hp. rewrite rsum_delta with (p := p).
    - now rewrite Z.eqb_refl.
    - apply NoDup_zrange.
    - now apply In_zrange.
    - intros x _ Hne. destruct (Z.eqb_spec x p); congruence.
  Qed.

  (* ---------------------------------------------------------------- powers *)
  Lemma pow_S w k : pow w (S k) = w [*] pow w k.
  Proof. reflexivity. Qed.
  Lemma pow_one n : pow rI n = rI.
  Proof. induction n as [|n IH]; [reflexivity|]. rewrite pow_S, IH. ring. Qed.
  Lemma pow_mul a b n : pow (a [*] b) n = pow a n [*] pow b n.
  Proof. induction n as [|n IH]; [cbn; ring|]. rewrite !pow_S, IH. ring. Qed.
  Lemma pow_inv_root w wi n : w [*] wi = rI -> pow w n = rI -> pow wi n = rI.
  Proof.
    intros Hi Hp. transitivity (pow wi n [*] pow w n); [rewrite Hp; ring|].
    rewrite <- pow_mul. replace (wi [*] w) with rI by (rewrite <- Hi; ring). apply pow_one.
  Qed.
  Lemma zpow_opp w wi c : zp w wi (- c) = zp wi w c.
  Proof. destruct c; reflexivity. Qed.
  Lemma zpow_one c : zp rI rI c = rI.
  Proof. destruct c; cbn [zpow]; [reflexivity|apply pow_one|apply pow_one]. Qed.
  Lemma phase_one c : ph rI rI rI rI c = rI.
  Proof. unfold phase. rewrite !zpow_one. ring. Qed.

  (* 1-D character property: stepping x by c in {-1,0,1} modulo n multiplies w^x by w^c when w^n = 1 *)
  Lemma pow_shift_mod w wi n x c :
    1 <= n -> 0 <= x < n -> -1 <= c <= 1 -> w [*] wi = rI -> pow w (Z.to_nat n) = rI ->
    pow w (Z.to_nat ((x + c) mod n)) = pow w (Z.to_nat x) [*] zp w wi c.
  Proof.
    intros Hn Hx Hc Hi Hp.
    assert (Hc' : c = -1 \/ c = 0 \/ c = 1) by lia. destruct Hc' as [Hc' | [Hc' | Hc']]; subst c.
    - change (zp w wi (-1)) with (wi [*] rI).
      destruct (Z.eq_dec x 0) as [->|Hx0].
      + replace ((0 + -1) mod n) with (n - 1) by (apply Z.mod_unique with (-1); lia).
        replace (Z.to_nat n) with (S (Z.to_nat (n - 1))) in Hp by lia. rewrite pow_S in Hp.
        change (pow w (Z.to_nat 0)) with rI.
        set (P := pow w (Z.to_nat (n - 1))) in *.
        transitivity ((w [*] P) [*] wi).
        * transitivity (P [*] (w [*] wi)); [rewrite Hi; ring|ring].
        * rewrite Hp. ring.
      + replace ((x + -1) mod n) with (x - 1) by (symmetry; apply Z.mod_small; lia).
        replace (Z.to_nat x) with (S (Z.to_nat (x - 1))) by lia. rewrite pow_S.
        transitivity (pow w (Z.to_nat (x - 1)) [*] (w [*] wi)); [rewrite Hi; ring|ring].
    - rewrite Z.add_0_r, Z.mod_small by lia. change (zp w wi 0) with rI. ring.
    - change (zp w wi 1) with (w [*] rI).
      destruct (Z.eq_dec (x + 1) n) as [E|E].
      + replace ((x + 1) mod n) with 0 by (rewrite E; symmetry; apply Z.mod_same; lia).
        replace (Z.to_nat n) with (S (Z.to_nat x)) in Hp by lia. rewrite pow_S in Hp.
        change (pow w (Z.to_nat 0)) with rI.
        transitivity (w [*] pow w (Z.to_nat x)); [symmetry; exact Hp|ring].
      + rewrite Z.mod_small by lia.
        replace (Z.to_nat (x + 1)) with (S (Z.to_nat x)) by lia. rewrite pow_S. ring.
  Qed.

  (* ---------------------------------------------------------------- b. bond sums as sums over the unit edges *)
  Lemma bond_collapse M row jE kE te tbe (F : Z -> R) : 0 <= jE < M -> 0 <= kE < M ->
    sum (map (fun b => bt row b ((jE, kE), (te, tbe)) [*] F b) (zrange M))
    = (if row =? kE then te [*] F jE else rO) [+] (if row =? jE then tbe [*] F kE else rO).
  Proof.
    intros Hj Hk. unfold bond_term. cbn [fst snd].
    rewrite rsum_ext with
      (g := fun b => (if b =? jE then (if row =? kE then te [*] F b else rO) else rO)
                     [+] (if b =? kE then (if row =? jE then tbe [*] F b else rO) else rO)).
    - rewrite rsum_map_add.
      rewrite (rsum_delta_zrange M jE (fun b => if row =? kE then te [*] F b else rO)) by assumption.
      rewrite (rsum_delta_zrange M kE (fun b => if row =? jE then tbe [*] F b else rO)) by assumption.
      reflexivity.
    - intros b _. destruct (row =? kE), (b =? jE), (row =? jE), (b =? kE); cbn; ring.
  Qed.

  Lemma ham_tiled_expand c nx ny t tb a b :
    length (uc_edges c) = length (uc_crossing c) ->
    length t = length (uc_edges c) -> length tb = length (uc_edges c) ->
    ham (tile_edges c nx ny) (tw t nx ny) (tw tb nx ny) a b
    = sum (map (fun n => sum (map (fun x => bt a b (tile_edge nx ny (n_sites c) n (fst x), snd x))
                                  (combine (combine (uc_edges c) (uc_crossing c)) (combine t tb))))
               (zrange (nx * ny))).
  Proof.
    intros Hl Ht Htb. unfold ham_entry, bond_sum, tile_edges, tile_weights.
    rewrite (combine_flat_map (fun _ : Z => t) (fun _ : Z => tb)) by (intros; congruence).
    rewrite combine_flat_map by (intros; rewrite map_length, !combine_length; lia).
    rewrite rsum_flat_map. apply rsum_ext. intros n _.
    rewrite combine_map_l, map_map. reflexivity.
  Qed.

  (* the Bloch bond of a unit edge: t * w^c at [k,j], tb * w^{-c} at [j,k] *)
  Definition hedge (wx wxi wy wyi : R) (x : ((Z * Z) * (Z * Z)) * (R * R)) : (Z * Z) * (R * R) :=
    (fst (fst x), (fst (snd x) [*] ph wx wxi wy wyi (snd (fst x)),
                   snd (snd x) [*] ph wx wxi wy wyi (negc (snd (fst x))))).

  Lemma hk_combine es cr t tb wx wxi wy wyi :
    combine es (combine (hkw wx wxi wy wyi t cr) (hkw wx wxi wy wyi tb (map negc cr)))
    = map (hedge wx wxi wy wyi) (combine (combine es cr) (combine t tb)).
  Proof.
    unfold hk_weights. revert cr t tb.
    induction es as [|e es IH]; intros [|c cr] [|x t] [|y tb]; simpl; try reflexivity.
    f_equal. apply IH.
  Qed.

  Lemma hk_expand es cr t tb wx wxi wy wyi a b :
    hk es cr t tb wx wxi wy wyi a b
    = sum (map (fun x => bt a b (hedge wx wxi wy wyi x)) (combine (combine es cr) (combine t tb))).
  Proof. unfold hk_entry, bond_sum. rewrite hk_combine, map_map. reflexivity. Qed.

  (* ---------------------------------------------------------------- (1) Bloch's theorem for the tiling *)
  (* the Bloch factor of cell n = my*nx + mx :  w1^mx * w2^my *)
  Definition bloch_factor (nx : Z) (w1 w2 : R) (n : Z) : R :=
    pow w1 (Z.to_nat (n mod nx)) [*] pow w2 (Z.to_nat (n / nx)).

  Lemma bloch_phi_site nx ns w1 w2 j n s' : 0 <= j < ns ->
    Phi nx ns w1 w2 (j + n * ns) s' = if j =? s' then bloch_factor nx w1 w2 n else rO.
  Proof.
    intros Hj. unfold bloch_phi, bloch_factor.
    replace (j + n * ns) with (n * ns + j) by lia. rewrite cell_mod, cell_div by lia. reflexivity.
  Qed.

  Lemma bloch_phi_row nx ns w1 w2 row s' :
    Phi nx ns w1 w2 row s' = if row mod ns =? s' then bloch_factor nx w1 w2 (row / ns) else rO.
  Proof. reflexivity. Qed.

  Section Intertwine.
    Variables (c : unit_cell) (nx ny : Z) (t tb : list R) (wx wxi wy wyi : R).
    Hypothesis Hwf : wf_cell c = true.
    Hypothesis Hnx : 1 <= nx.
    Hypothesis Hny : 1 <= ny.
    Hypothesis Ht : zlen t = n_uedges c.
    Hypothesis Htb : zlen tb = n_uedges c.
    Hypothesis Hwx : wx [*] wxi = rI.
    Hypothesis Hwy : wy [*] wyi = rI.
    Hypothesis Hpx : pow wx (Z.to_nat nx) = rI.
    Hypothesis Hpy : pow wy (Z.to_nat ny) = rI.

    Local Notation N := (nx * ny).
    Local Notation ns := (n_sites c).
    Local Notation phi := (bloch_factor nx wxi wyi).
    Local Notation next := (py_next_cell_number nx ny).
    Local Notation U := (combine (combine (uc_edges c) (uc_crossing c)) (combine t tb)).

    Lemma wf_U x : In x U ->
      0 <= fst (fst (fst x)) < ns /\ 0 <= snd (fst (fst x)) < ns /\
      -1 <= fst (snd (fst x)) <= 1 /\ -1 <= snd (snd (fst x)) <= 1.
    Proof.
      destruct x as [[e cr] w]. intros Hin. apply in_combine_l in Hin.
      pose proof (in_combine_l _ _ _ _ Hin) as He. pose proof (in_combine_r _ _ _ _ Hin) as Hc.
      pose proof Hwf as W. unfold wf_cell in W. rewrite !andb_true_iff in W.
      destruct W as (((H1 & H2) & H3) & H4). rewrite forallb_forall in H3, H4.
      specialize (H3 _ Hc). specialize (H4 _ He). unfold small_crossing in H3. cbn [fst snd]. lia.
    Qed.

    (* the character property of the Bloch factor under _next_cell_number *)
    Lemma phi_next m cx cy : 0 <= m < N -> -1 <= cx <= 1 -> -1 <= cy <= 1 ->
      phi (next m (cx, cy)) = phi m [*] (zp wxi wx cx [*] zp wyi wy cy).
    Proof.
      intros Hm Hcx Hcy. destruct (cell_decompose nx ny m Hnx Hm) as (Em & Hmx & Hmy).
      rewrite Em at 1. rewrite next_cell_number_spec by lia. unfold bloch_factor.
      rewrite cell_mod, cell_div by (apply Z.mod_pos_bound; lia).
      assert (Hxi : wxi [*] wx = rI) by (rewrite <- Hwx; ring).
      assert (Hyi : wyi [*] wy = rI) by (rewrite <- Hwy; ring).
      rewrite (pow_shift_mod wxi wx nx), (pow_shift_mod wyi wy ny);
        try lia; try assumption; try (eapply pow_inv_root; eassumption).
      ring.
    Qed.

    (* steps c-d of the derivation for one unit edge: sum over the cells *)
    Lemma edge_cells row s' j k cx cy te tbe :
      0 <= row < N * ns -> 0 <= s' < ns -> 0 <= j < ns -> 0 <= k < ns -> -1 <= cx <= 1 -> -1 <= cy <= 1 ->
      sum (map (fun n =>
                  (if row =? k + ns * next n (cx, cy)
                   then te [*] Phi nx ns wxi wyi (j + n * ns) s' else rO)
                  [+] (if row =? j + n * ns
                       then tbe [*] Phi nx ns wxi wyi (k + ns * next n (cx, cy)) s' else rO))
               (zrange N))
      = phi (row / ns) [*] bt (row mod ns) s' (hedge wx wxi wy wyi (((j, k), (cx, cy)), (te, tbe))).
    Proof.
      intros Hrow Hs' Hj Hk Hcx Hcy.
      destruct (row_decompose N ns row Hrow ltac:(lia)) as (Er & Hs & Hm).
      set (m := row / ns) in *. set (s := row mod ns) in *.
      rewrite rsum_map_add.
      (* first sum: delta at n = next m (-c) *)
      rewrite rsum_ext with
        (g := fun n => if n =? next m (- cx, - cy)
                       then (if s =? k then te [*] (if j =? s' then phi n else rO) else rO) else rO).
      2:{ intros n Hn. apply In_zrange in Hn. rewrite bloch_phi_site by lia.
          rewrite Er. replace (k + ns * next n (cx, cy)) with (next n (cx, cy) * ns + k) by lia.
          rewrite site_index_eqb by lia.
          pose proof (next_cell_number_iff nx ny n m (cx, cy) Hnx Hny Hn Hm) as Hiff. cbn [fst snd] in Hiff.
          destruct (Z.eqb_spec n (next m (- cx, - cy))) as [E|E].
          - apply Hiff in E. rewrite E, Z.eqb_refl, andb_true_r. reflexivity.
          - destruct (Z.eqb_spec m (next n (cx, cy))) as [E'|E'].
            + exfalso. apply E. apply Hiff. symmetry. exact E'.
            + rewrite andb_false_r. reflexivity. }
      rewrite (rsum_delta_zrange N (next m (- cx, - cy))
                 (fun n => if s =? k then te [*] (if j =? s' then phi n else rO) else rO))
        by (apply next_cell_number_range; lia).
      (* second sum: delta at n = m *)
      rewrite rsum_ext with
        (g := fun n => if n =? m
                       then (if s =? j then tbe [*] (if k =? s' then phi (next n (cx, cy)) else rO) else rO)
                       else rO).
      2:{ intros n Hn. apply In_zrange in Hn.
          replace (k + ns * next n (cx, cy)) with (k + next n (cx, cy) * ns) by lia.
          rewrite bloch_phi_site by lia.
          rewrite Er. replace (j + n * ns) with (n * ns + j) by lia.
          rewrite site_index_eqb by lia. rewrite (Z.eqb_sym m n).
          destruct (n =? m); [rewrite andb_true_r|rewrite andb_false_r]; reflexivity. }
      rewrite (rsum_delta_zrange N m
                 (fun n => if s =? j then tbe [*] (if k =? s' then phi (next n (cx, cy)) else rO) else rO))
        by lia.
      rewrite !phi_next by lia. rewrite !zpow_opp.
      unfold bond_term, hedge, phase, negc. cbn [fst snd]. rewrite !zpow_opp.
      rewrite (Z.eqb_sym s' j), (Z.eqb_sym s' k).
      destruct (s =? k), (j =? s'), (s =? j), (k =? s'); cbn [andb]; ring.
    Qed.

    (* Bloch's theorem:  A_tiled . Phi = Phi . H(w),  Phi[(m,s),s'] = delta_{s s'} wx^{-mx} wy^{-my} *)
    Theorem bloch_intertwines row s' : 0 <= row < N * ns -> 0 <= s' < ns ->
      mm (N * ns) (ham (tile_edges c nx ny) (tw t nx ny) (tw tb nx ny)) (Phi nx ns wxi wyi) row s'
      = mm ns (Phi nx ns wxi wyi) (hk (uc_edges c) (uc_crossing c) t tb wx wxi wy wyi) row s'.
    Proof.
      intros Hrow Hs'.
      destruct (row_decompose N ns row Hrow ltac:(lia)) as (Er & Hs & Hm).
      assert (Hl : length (uc_edges c) = length (uc_crossing c)).
      { destruct (wf_cell_spec c Hwf) as (_ & Hl & _). unfold zlen in Hl. lia. }
      assert (Ht' : length t = length (uc_edges c)) by (unfold n_uedges, zlen in Ht; lia).
      assert (Htb' : length tb = length (uc_edges c)) by (unfold n_uedges, zlen in Htb; lia).
      (* right-hand side *)
      transitivity (phi (row / ns) [*] hk (uc_edges c) (uc_crossing c) t tb wx wxi wy wyi (row mod ns) s').
      2:{ unfold mat_mul.
          rewrite rsum_ext with
            (g := fun b => if b =? row mod ns
                           then phi (row / ns) [*] hk (uc_edges c) (uc_crossing c) t tb wx wxi wy wyi b s'
                           else rO).
          - rewrite (rsum_delta_zrange ns (row mod ns)
                       (fun b => phi (row / ns) [*] hk (uc_edges c) (uc_crossing c) t tb wx wxi wy wyi b s'))
              by lia.
            reflexivity.
          - intros b _. rewrite bloch_phi_row, (Z.eqb_sym b). destruct (row mod ns =? b); ring. }
      (* left-hand side *)
      unfold mat_mul.
      transitivity
        (sum (map (fun b => sum (map (fun n => sum (map (fun x =>
                     bt row b (tile_edge nx ny ns n (fst x), snd x) [*] Phi nx ns wxi wyi b s') U))
                   (zrange N))) (zrange (N * ns)))).
      { apply rsum_ext. intros b _. rewrite ham_tiled_expand by assumption. rewrite rsum_mul_r.
        apply rsum_ext. intros n _. rewrite rsum_mul_r. reflexivity. }
      rewrite (rsum_swap (fun b n => sum (map (fun x =>
                 bt row b (tile_edge nx ny ns n (fst x), snd x) [*] Phi nx ns wxi wyi b s') U))).
      transitivity
        (sum (map (fun n => sum (map (fun x =>
           (if row =? snd (fst (fst x)) + ns * next n (snd (fst x))
            then fst (snd x) [*] Phi nx ns wxi wyi (fst (fst (fst x)) + n * ns) s' else rO)
           [+] (if row =? fst (fst (fst x)) + n * ns
                then snd (snd x) [*] Phi nx ns wxi wyi (snd (fst (fst x)) + ns * next n (snd (fst x))) s'
                else rO)) U)) (zrange N))).
      { apply rsum_ext. intros n Hn. apply In_zrange in Hn.
        rewrite (rsum_swap (fun b x =>
                   bt row b (tile_edge nx ny ns n (fst x), snd x) [*] Phi nx ns wxi wyi b s')).
        apply rsum_ext. intros x Hx. destruct (wf_U x Hx) as (Hj & Hk & Hcx & Hcy).
        destruct x as [[[j k] cr] [te tbe]]. unfold tile_edge. cbn [fst snd] in *.
        pose proof (next_cell_number_range nx ny n cr Hnx Hny) as Hnext.
        apply (bond_collapse (N * ns) row _ _ te tbe (fun b => Phi nx ns wxi wyi b s')); nia. }
      rewrite (rsum_swap (fun n x =>
           (if row =? snd (fst (fst x)) + ns * next n (snd (fst x))
            then fst (snd x) [*] Phi nx ns wxi wyi (fst (fst (fst x)) + n * ns) s' else rO)
           [+] (if row =? fst (fst (fst x)) + n * ns
                then snd (snd x) [*] Phi nx ns wxi wyi (snd (fst (fst x)) + ns * next n (snd (fst x))) s'
                else rO))).
      rewrite hk_expand, rsum_mul_l. apply rsum_ext. intros x Hx.
      destruct (wf_U x Hx) as (Hj & Hk & Hcx & Hcy).
      destruct x as [[[j k] [cx cy]] [te tbe]]. cbn [fst snd] in *.
      apply edge_cells; assumption.
    Qed.
  End Intertwine.

  (* ---------------------------------------------------------------- (2) Gamma point *)
  Lemma hk_gamma_combine es cr (t tb : list R) :
    (Nat.min (length es) (Nat.min (length t) (length tb)) <= length cr)%nat ->
    map (hedge rI rI rI rI) (combine (combine es cr) (combine t tb)) = combine es (combine t tb).
  Proof.
    revert cr t tb.
    induction es as [|e es IH]; intros [|c cr] [|x t] [|y tb] H; cbn [length] in H; simpl;
      try reflexivity; try lia.
    f_equal.
    - unfold hedge. cbn [fst snd]. rewrite !phase_one. f_equal. f_equal; ring.
    - apply IH. lia.
  Qed.

  (* at wx = wy = 1 the Bloch matrix is the real-space Hamiltonian of the cell (the crossing list must
     cover the bonds that are actually summed) *)
  Theorem hk_gamma es cr t tb a b :
    (Nat.min (length es) (Nat.min (length t) (length tb)) <= length cr)%nat ->
    hk es cr t tb rI rI rI rI a b = ham es t tb a b.
  Proof.
    intros H. rewrite hk_expand. unfold ham_entry, bond_sum.
    rewrite <- (hk_gamma_combine es cr t tb H), map_map. reflexivity.
  Qed.

  Corollary hk_gamma_eqlen es cr t tb a b :
    length t = length cr -> length tb = length cr ->
    hk es cr t tb rI rI rI rI a b = ham es t tb a b.
  Proof. intros. apply hk_gamma. lia. Qed.

  (* ---------------------------------------------------------------- (3) Hermiticity *)
  Section Hermitian.
    Variable conj : R -> R.
    Hypothesis conj_add : forall x y, conj (x [+] y) = conj x [+] conj y.
    Hypothesis conj_mul : forall x y, conj (x [*] y) = conj x [*] conj y.
    Hypothesis conj_O : conj rO = rO.
    Hypothesis conj_I : conj rI = rI.
    Hypothesis conj_inv : forall x, conj (conj x) = x.
    Variables wx wxi wy wyi : R.
    Hypothesis Hcx : conj wx = wxi.
    Hypothesis Hcy : conj wy = wyi.

    Lemma conj_sum l : conj (sum l) = sum (map conj l).
    Proof.
      induction l as [|a l IH]; cbn [map]; rewrite ?rsum_nil, ?rsum_cons; [exact conj_O|].
      now rewrite conj_add, IH.
    Qed.
    Lemma conj_pow w n : conj (pow w n) = pow (conj w) n.
    Proof. induction n as [|n IH]; [exact conj_I|]. now rewrite !pow_S, conj_mul, IH. Qed.
    Lemma conj_zpow w wi k : conj w = wi -> conj (zp w wi k) = zp wi w k.
    Proof.
      intros Hw. assert (Hwi : conj wi = w) by (rewrite <- Hw; apply conj_inv).
      destruct k; cbn [zpow]; [exact conj_I| |]; rewrite conj_pow; congruence.
    Qed.
    Lemma conj_phase k : conj (ph wx wxi wy wyi k) = ph wx wxi wy wyi (negc k).
    Proof.
      unfold phase, negc. cbn [fst snd]. rewrite conj_mul, !conj_zpow, !zpow_opp by assumption. reflexivity.
    Qed.
    Lemma negc_involutive k : negc (negc k) = k.
    Proof. destruct k. unfold negc. cbn [fst snd]. now rewrite !Z.opp_involutive. Qed.

    (* H(w)^dagger = H(w)  when |wx| = |wy| = 1 and tb = conj t *)
    Theorem hk_hermitian es cr t a b :
      conj (hk es cr t (map conj t) wx wxi wy wyi b a) = hk es cr t (map conj t) wx wxi wy wyi a b.
    Proof.
      rewrite !hk_expand, conj_sum, map_map. apply rsum_ext. intros x Hx.
      destruct x as [[[j k] cc] [te tbe]].
      apply in_combine_r in Hx. apply in_combine_map in Hx. subst tbe.
      unfold bond_term, hedge. cbn [fst snd]. rewrite conj_add.
      rewrite (andb_comm (a =? k)), (andb_comm (a =? j)).
      destruct ((b =? k) && (a =? j)), ((b =? j) && (a =? k));
        rewrite ?conj_mul, ?conj_O, ?conj_phase, ?conj_inv, ?negc_involutive; ring.
    Qed.
  End Hermitian.
End BlochRing.

(* ================================================================== (4) the Gaussian-integer instance *)
Definition gopp (x : gz) : gz := (- fst x, - snd x).
Definition gsub (x y : gz) : gz := gadd x (gopp y).

Lemma gz_ring : ring_theory g0 g1 gadd gmul gsub gopp (@eq gz).
Proof.
  constructor; intros;
    repeat match goal with x : gz |- _ => destruct x end;
    unfold gsub; unfold gadd, gmul, gopp, g0, g1; cbn [fst snd]; f_equal; ring.
Qed.

Lemma gconj_gi_pow q : gconj (gi_pow q) = gi_pow (- q).
Proof.
  unfold gi_pow. pose proof (Z.mod_pos_bound q 4 ltac:(lia)) as Hb.
  pose proof (Z.div_mod q 4 ltac:(lia)) as Hd.
  replace (- q) with (- (q mod 4) + (- (q / 4)) * 4) by lia. rewrite Z.mod_add by lia.
  assert (Hr : q mod 4 = 0 \/ q mod 4 = 1 \/ q mod 4 = 2 \/ q mod 4 = 3) by lia.
  destruct Hr as [E|[E|[E|E]]]; rewrite E; reflexivity.
Qed.

Lemma gi_pow_neg_periodic a : gi_pow (- (a + 4)) = gi_pow (- a).
Proof. unfold gi_pow. replace (- (a + 4)) with (- a + (-1) * 4) by lia. now rewrite Z.mod_add by lia. Qed.

(* 2 pi periodicity: H depends on k = (pi/2)(qa, qb) only through (i^qa, i^qb) *)
Theorem hk_gauss_periodic_a es cr J col u qa qb a b :
  hk_gauss es cr J col u (qa + 4) qb a b = hk_gauss es cr J col u qa qb a b.
Proof. unfold hk_gauss. now rewrite gi_pow_periodic, gi_pow_neg_periodic. Qed.

Theorem hk_gauss_periodic_b es cr J col u qa qb a b :
  hk_gauss es cr J col u qa (qb + 4) a b = hk_gauss es cr J col u qa qb a b.
Proof. unfold hk_gauss. now rewrite gi_pow_periodic, gi_pow_neg_periodic. Qed.

Theorem hk_gauss_gamma es cr J col u a b : (length es <= length cr)%nat ->
  hk_gauss es cr J col u 0 0 a b = ham_gauss es J col u a b.
Proof.
  intros H. unfold hk_gauss, ham_gauss. change (gi_pow (- 0)) with g1. change (gi_pow 0) with g1.
  apply (hk_gamma gz g0 g1 gadd gmul gsub gopp gz_ring). lia.
Qed.

(* conjugation on Z[i] satisfies the hypotheses of hk_hermitian, and |i^q| = 1 *)
Theorem hk_gauss_hermitian es cr J col u qa qb a b :
  gconj (hk_gauss es cr J col u qa qb b a) = hk_gauss es cr J col u qa qb a b.
Proof.
  unfold hk_gauss.
  apply (hk_hermitian gz g0 g1 gadd gmul gsub gopp gz_ring gconj).
  - intros [x1 x2] [y1 y2]. unfold gconj, gadd. cbn [fst snd]. f_equal; ring.
  - intros [x1 x2] [y1 y2]. unfold gconj, gmul. cbn [fst snd]. f_equal; ring.
  - reflexivity.
  - reflexivity.
  - intros [x1 x2]. unfold gconj. cbn [fst snd]. f_equal; ring.
  - apply gconj_gi_pow.
  - apply gconj_gi_pow.
Qed.

(* ================================================================== (5) the Q functionals *)
Local Open Scope Q_scope.

Definition qabs_fold (init : Q) (r : list Q) : Q :=
  fold_right (fun y m => if Qle_bool (Qabs y) m then Qabs y else m) init r.

Lemma qabs_fold_spec init r :
  qabs_fold init r <= init /\
  (forall y, In y r -> qabs_fold init r <= Qabs y) /\
  (qabs_fold init r = init \/ exists y, In y r /\ qabs_fold init r = Qabs y).
Proof.
  induction r as [|a r IH].
  - split; [apply Qle_refl|]. split; [intros y []|left; reflexivity].
  - destruct IH as (H1 & H2 & H3). unfold qabs_fold in *. cbn [fold_right].
    set (F := fold_right _ init r) in *.
    destruct (Qle_bool (Qabs a) F) eqn:E.
    + apply Qle_bool_iff in E. split; [eapply Qle_trans; eassumption|]. split.
      * intros y [<-|Hy]; [apply Qle_refl|]. eapply Qle_trans; [exact E|auto].
      * right. exists a. split; [left|]; reflexivity.
    + assert (Ha : F <= Qabs a).
      { apply Qlt_le_weak, Qnot_le_lt. intros H. apply Qle_bool_iff in H. congruence. }
      split; [assumption|]. split.
      * intros y [<-|Hy]; auto.
      * destruct H3 as [H3|(y & Hy & H3)]; [left; assumption|].
        right. exists y. split; [right|]; assumption.
Qed.

Lemma qabs_min_cons x r : qabs_min (x :: r) = Some (qabs_fold (Qabs x) r).
Proof. reflexivity. Qed.

(* qabs_min returns a lower bound of all |x| that is attained (even up to Leibniz equality) *)
Lemma qabs_min_attained l m : qabs_min l = Some m ->
  (forall x, In x l -> m <= Qabs x) /\ (exists x, In x l /\ m = Qabs x).
Proof.
  destruct l as [|x r]; [discriminate|]. rewrite qabs_min_cons. intros E. injection E as <-.
  destruct (qabs_fold_spec (Qabs x) r) as (H1 & H2 & H3). split.
  - intros y [<-|Hy]; auto.
  - destruct H3 as [H3|(y & Hy & H3)].
    + exists x. split; [left; reflexivity|assumption].
    + exists y. split; [right|]; assumption.
Qed.

Theorem qabs_min_spec l m : qabs_min l = Some m ->
  (forall x, In x l -> m <= Qabs x) /\ (exists x, In x l /\ m == Qabs x).
Proof.
  intros H. destruct (qabs_min_attained l m H) as (H1 & x & Hx & ->).
  split; [assumption|]. exists x. split; [assumption|apply Qeq_refl].
Qed.

Lemma qabs_min_none l : qabs_min l = None <-> l = [].
Proof. destruct l; split; intros H; (reflexivity || discriminate). Qed.

Lemma qabs_min_some l : l <> [] -> exists m, qabs_min l = Some m.
Proof. destruct l as [|x r]; [congruence|]. intros _. eexists. reflexivity. Qed.

(* gap_size = min |E| over the lower halves of all sampled spectra *)
Theorem gap_size_spec spectra m : gap_size spectra = Some m ->
  (forall x, In x (flat_map lower_half spectra) -> m <= Qabs x) /\
  (exists x, In x (flat_map lower_half spectra) /\ m == Qabs x).
Proof. apply qabs_min_spec. Qed.

Lemma gap_size_none spectra : gap_size spectra = None <-> flat_map lower_half spectra = [].
Proof. apply qabs_min_none. Qed.

(* gaps: per momentum, qabs_min of the full spectrum *)
Theorem gaps_spec spectra :
  length (gaps spectra) = length spectra /\
  forall i, nth i (gaps spectra) None = qabs_min (nth i spectra []).
Proof.
  unfold gaps. split; [apply map_length|]. intros i.
  change (@None Q) with (qabs_min []). apply map_nth.
Qed.

Theorem ground_state_per_site_spec spectra n : spectra <> [] -> (0 < n)%Z ->
  ground_state_per_site spectra n * (inject_Z (Z.of_nat (length spectra)) * inject_Z n)
  == 2 * qsum (flat_map lower_half spectra).
Proof.
  intros Hs Hn. unfold ground_state_per_site. rewrite Qmult_comm. apply Qmult_div_r.
  rewrite <- inject_Z_mult. intros H. unfold Qeq in H. cbn [Qnum Qden inject_Z] in H.
  destruct spectra as [|a l]; [congruence|]. cbn [length] in H. nia.
Qed.

Lemma lower_half_length es : length (lower_half es) = Nat.div (length es) 2.
Proof.
  unfold lower_half. rewrite firstn_length. apply Nat.min_l.
  pose proof (Nat.div_mod (length es) 2 ltac:(lia)). lia.
Qed.

Lemma lower_half_prefix es : es = lower_half es ++ skipn (Nat.div (length es) 2) es.
Proof. unfold lower_half. symmetry. apply firstn_skipn. Qed.

(* the momentum grid: nkx*nky points, point my*nkx+mx is (mx/nkx, my/nky), endpoint 1 excluded *)
Lemma k_grid_length nkx nky : length (k_grid nkx nky) = Z.to_nat (nkx * nky).
Proof. unfold k_grid. now rewrite map_length, zrange_length. Qed.

Lemma k_grid_nth nkx nky mx my : (0 <= mx < nkx)%Z -> (0 <= my < nky)%Z ->
  znth (my * nkx + mx) (k_grid nkx nky) (0, 0) = (mx # Z.to_pos nkx, my # Z.to_pos nky).
Proof.
  intros Hx Hy. unfold k_grid.
  rewrite znth_map with (d' := 0%Z) by (rewrite zlen_zrange; nia).
  rewrite znth_zrange by nia. rewrite cell_mod, cell_div by lia. reflexivity.
Qed.

Lemma k_grid_range nkx nky p : (1 <= nkx)%Z -> (1 <= nky)%Z -> In p (k_grid nkx nky) ->
  0 <= fst p < 1 /\ 0 <= snd p < 1.
Proof.
  intros Hx Hy Hin. unfold k_grid in Hin. apply in_map_iff in Hin. destruct Hin as (n & <- & Hn).
  apply In_zrange in Hn. cbn [fst snd].
  destruct (cell_decompose nkx nky n Hx Hn) as (_ & H1 & H2).
  unfold Qle, Qlt. cbn [Qnum Qden]. rewrite !Z2Pos.id by lia. lia.
Qed.

Theorem k_grid_spec nkx nky : (1 <= nkx)%Z -> (1 <= nky)%Z ->
  length (k_grid nkx nky) = Z.to_nat (nkx * nky) /\
  (forall mx my, (0 <= mx < nkx)%Z -> (0 <= my < nky)%Z ->
     znth (my * nkx + mx) (k_grid nkx nky) (0, 0) = (mx # Z.to_pos nkx, my # Z.to_pos nky)) /\
  (forall p, In p (k_grid nkx nky) -> 0 <= fst p < 1 /\ 0 <= snd p < 1).
Proof.
  intros Hx Hy. split; [apply k_grid_length|]. split; [intros; now apply k_grid_nth|].
  intros p. now apply k_grid_range.
Qed.

(* ---------- statements assembled for Props/C08.v ---------- *)
Local Open Scope Z_scope.
Lemma hk_periodic_claim :
  forall (es cr : list (Z * Z)) (J : list Z) (col : option (list Z)) (u : list Z) (qa qb a b : Z),
  hk_gauss es cr J col u (qa + 4) qb a b = hk_gauss es cr J col u qa qb a b /\
  hk_gauss es cr J col u qa (qb + 4) a b = hk_gauss es cr J col u qa qb a b.
Proof. intros. split; [apply hk_gauss_periodic_a | apply hk_gauss_periodic_b]. Qed.

Lemma hk_gauss_hermitian_gamma_claim :
  forall (es cr : list (Z * Z)) (J : list Z) (col : option (list Z)) (u : list Z) (qa qb a b : Z),
  gconj (hk_gauss es cr J col u qa qb b a) = hk_gauss es cr J col u qa qb a b /\
  ((length es <= length cr)%nat -> hk_gauss es cr J col u 0 0 a b = ham_gauss es J col u a b).
Proof. intros. split; [apply hk_gauss_hermitian | apply hk_gauss_gamma]. Qed.

Lemma lower_half_claim :
  forall es : list Q, length (lower_half es) = Nat.div (length es) 2 /\
                      es = lower_half es ++ skipn (Nat.div (length es) 2) es.
Proof. intros. split; [apply lower_half_length | apply lower_half_prefix]. Qed.

Lemma gap_grid_claim :
  forall spectra : list (list Q),
  length (gaps spectra) = length spectra /\
  (forall i, nth i (gaps spectra) None = qabs_min (nth i spectra [])) /\
  (forall l m, qabs_min l = Some m ->
     (forall x, In x l -> (m <= Qabs x)%Q) /\ (exists x, In x l /\ (m == Qabs x)%Q)).
Proof.
  intros. destruct (gaps_spec spectra) as (H1 & H2). split; [exact H1|]. split; [exact H2|]. exact qabs_min_spec.
Qed.
