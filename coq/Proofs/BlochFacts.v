(* Proofs/BlochFacts.v — facts about Model/Bloch.v. *)
From Coq Require Import List ZArith Bool Arith Lia.
From Koala Require Import Gen.TilingGen Model.Lattice Model.Tiling Model.Bloch Proofs.TilingFacts.
Import ListNotations.
Open Scope Z_scope.

Lemma gi_pow_periodic a : gi_pow (a + 4) = gi_pow a.
Proof. unfold gi_pow. replace (a + 4) with (a + 1 * 4) by lia. now rewrite Z.mod_add by lia. Qed.
