(* Proofs/AnsatzFacts.v — ansatz_table over the GENERATED ground_state_ansatz (coq/Gen/AnsatzGen.v,
   regenerated from src/koala/example_graphs.py by translate/ansatz.py on every run). *)
From Coq Require Import List ZArith Bool Arith Lia.
From Koala Require Import Model.FluxSolver Gen.AnsatzGen.
Open Scope Z_scope.

Lemma pow_m1_even : forall k, 0 <= k -> (-1) ^ (2 * k) = 1.
Proof. intros k Hk. rewrite Z.pow_mul_r by lia. change ((-1) ^ 2) with 1. apply Z.pow_1_l. assumption. Qed.
Lemma pow_m1_odd : forall k, 0 <= k -> (-1) ^ (2 * k + 1) = -1.
Proof. intros k Hk. rewrite Z.pow_add_r by lia. rewrite pow_m1_even by assumption. reflexivity. Qed.

(* sign_real[n mod 4] * ground_state_ansatz(n) = -1 for every polygon size n >= 3:
   in the deprecated convention flux = sign_real * prod(u d), the ansatz asks for prod(u d) = -1 on every plaquette *)
Lemma ansatz_table : forall n : nat, (3 <= n)%nat ->
  fs_sign_real n * ground_state_ansatz (Z.of_nat n) = -1.
Proof.
  intros n Hn. unfold ground_state_ansatz, fs_sign_real.
  pose proof (Nat.div_mod n 4 ltac:(lia)) as Hdm.
  pose proof (Nat.mod_upper_bound n 4 ltac:(lia)) as Hub.
  set (q := (n / 4)%nat) in *. set (r := (n mod 4)%nat) in *.
  assert (Hz : Z.of_nat n = 4 * Z.of_nat q + Z.of_nat r) by lia.
  destruct r as [| [| [| [| r]]]]; try lia.
  - replace ((Z.of_nat n - 3) / 2) with (2 * (Z.of_nat q - 1)) by (rewrite Hz; Z.to_euclidean_division_equations; lia).
    rewrite pow_m1_even by lia. reflexivity.
  - replace ((Z.of_nat n - 3) / 2) with (2 * (Z.of_nat q - 1) + 1) by (rewrite Hz; Z.to_euclidean_division_equations; lia).
    rewrite pow_m1_odd by lia. reflexivity.
  - replace ((Z.of_nat n - 3) / 2) with (2 * (Z.of_nat q - 1) + 1) by (rewrite Hz; Z.to_euclidean_division_equations; lia).
    rewrite pow_m1_odd by lia. reflexivity.
  - replace ((Z.of_nat n - 3) / 2) with (2 * Z.of_nat q) by (rewrite Hz; Z.to_euclidean_division_equations; lia).
    rewrite pow_m1_even by lia. reflexivity.
Qed.

(* the ansatz is a flux value *)
Lemma ansatz_pm1 : forall n : nat, (3 <= n)%nat ->
  ground_state_ansatz (Z.of_nat n) = 1 \/ ground_state_ansatz (Z.of_nat n) = -1.
Proof.
  intros n Hn. pose proof (ansatz_table n Hn) as H. unfold fs_sign_real in H.
  destruct (n mod 4)%nat as [| [| [| k]]]; lia.
Qed.
