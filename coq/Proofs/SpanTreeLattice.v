(* Proofs/SpanTreeLattice.v — C14 end to end on the lattice model: for a well-formed lattice without
   self-loops the tables computed by Model/Lattice.v (find_all_plaquettes, edges_plaquettes) satisfy
   the hypotheses of the C14 theorems.  Uses C01's lemmas (Proofs/LatticeFacts.v) and C02's
   edge_sides lemma (Proofs/PlaqTablesFacts.v). *)
From Coq Require Import List ZArith Bool Arith Lia.
From Koala Require Import Model.Lattice Model.TableSpec Model.Flux Model.SpanTree.
From Koala Require Import Proofs.LatticeFacts Proofs.PlaqTablesFacts Proofs.FluxFacts
  Proofs.SpanTreeFacts Proofs.SpanTreeComplete.
Import ListNotations.
Local Open Scope nat_scope.

Lemma model_plaquette_darts_valid : forall L ps p d,
  good L -> find_all_plaquettes L = Some ps -> In p ps -> In d (Flux.plaq_darts p) -> fst d < nE L.
Proof.
  intros L ps p d HG Hf Hp Hd.
  destruct (plaquettes_spec L HG) as (fs & Ea & Ef & _ & _).
  rewrite Ef in Hf. injection Hf as <-.
  destruct (plaquette_closed_walk L fs p HG Ea Hp) as (w & -> & HO & _).
  change (Flux.plaq_darts (mk_plaquette L w)) with (LatticeFacts.plaq_darts (mk_plaquette L w)) in Hd.
  rewrite plaq_darts_mk, walk_darts_sdart in Hd.
  apply in_map_iff in Hd. destruct Hd as (s & <- & Hs). apply (ow_ok _ _ HO s Hs).
Qed.

Lemma model_darts_disjoint : forall L ps,
  good L -> find_all_plaquettes L = Some ps -> darts_disjoint ps = true.
Proof.
  intros L ps HG Hf. destruct (plaquettes_spec L HG) as (fs & _ & Ef & Hnd & _).
  rewrite Ef in Hf. injection Hf as <-.
  unfold darts_disjoint. apply dart_nodupb_spec. exact Hnd.
Qed.

Lemma in_combine_exists : forall (A B : Type) (l : list A) (l' : list B) x,
  In x l -> length l' = length l -> exists y, In (x, y) (combine l l').
Proof.
  induction l as [|a l IH]; intros [|b l'] x Hin Hl; simpl in *; try lia; try tauto.
  destruct Hin as [->|Hin]; [exists b; now left|].
  destruct (IH l' x Hin) as [y Hy]; [lia|]. exists y. now right.
Qed.

Lemma model_tables_agree : forall L ps,
  good L -> find_all_plaquettes L = Some ps ->
  tables_agree (edges_plaquettes L ps) (map p_edges ps).
Proof.
  intros L ps HG Hf.
  destruct (edge_sides_lemma L ps (model_darts_disjoint L ps HG Hf)) as [Hlen Hcol].
  set (ep := edges_plaquettes L ps) in *.
  assert (Hrow : forall e, nE L <= e -> ep_at ep e = (None, None)).
  { intros e He. unfold ep_at. apply nth_overflow. lia. }
  assert (Hown_lt : forall d n, owner ps d n -> n < length ps).
  { intros d n (p & Hn & _). apply nth_error_Some. congruence. }
  split.
  - (* every table entry is a plaquette index *)
    intros e a b H2. unfold two_sided in H2. rewrite map_length.
    destruct (Nat.lt_ge_cases e (nE L)) as [He|He]; [|rewrite (Hrow e He) in H2; discriminate].
    destruct (Hcol e true He) as [Ht _]. destruct (Hcol e false He) as [Hfa _].
    unfold ep_at in H2. unfold ep_col in Ht, Hfa. fold ep in Ht, Hfa.
    destruct (nth e ep (None, None)) as [[x|] [y|]]; try discriminate. inversion H2; subst. simpl in *.
    split; [apply (Hown_lt (e, true)); now apply Ht|apply (Hown_lt (e, false)); now apply Hfa].
  - intros q e Hq. rewrite map_length in Hq. rewrite nth_pes.
    set (P := nth q ps empty_plaq).
    assert (HP : nth_error ps q = Some P) by (now apply nth_error_nth').
    assert (HPin : In P ps) by (apply nth_In; exact Hq).
    destruct (model_plaquette_shape L ps P Hf HPin) as (_ & Hl & _).
    split.
    + intros Hin. destruct (in_combine_exists _ _ (p_edges P) (p_dirs P) e Hin Hl) as [d Hd].
      assert (He : e < nE L) by (apply (model_plaquette_darts_valid L ps P (e, d) HG Hf HPin Hd)).
      destruct (Hcol e d He) as [Hc _]. unfold ep_col in Hc. fold ep in Hc.
      assert (Ho : owner ps (e, d) q) by (exists P; split; assumption).
      apply Hc in Ho. unfold is_side, ep_at. destruct (nth e ep (None, None)) as [a b]. simpl in Ho.
      destruct d; subst; rewrite Nat.eqb_refl; [reflexivity|apply orb_true_r].
    + intros Hs. unfold is_side in Hs.
      destruct (Nat.lt_ge_cases e (nE L)) as [He|He]; [|rewrite (Hrow e He) in Hs; discriminate].
      assert (Hd : exists d, ep_col (nth e ep (None, None)) d = Some q).
      { unfold ep_at in Hs. destruct (nth e ep (None, None)) as [a b]. apply orb_true_iff in Hs.
        destruct Hs as [Hs|Hs]; [exists true|exists false]; simpl;
          [destruct a as [x|]|destruct b as [x|]]; try discriminate; apply Nat.eqb_eq in Hs; now subst. }
      destruct Hd as [d Hd]. destruct (Hcol e d He) as [Hc _]. fold ep in Hc.
      apply Hc in Hd. destruct Hd as (p & Hn & Hin). rewrite HP in Hn. inversion Hn; subst p.
      unfold TableSpec.plaq_darts in Hin. eapply in_combine_l; eauto.
Qed.

(* C14 end to end: plaquettes, tables, tree, bonds and fluxes all computed by the model *)
Lemma model_spanning_sectors : forall L (order : order_fn) ps t,
  wf_lattice L = true -> no_self_loops L = true ->
  find_all_plaquettes L = Some ps ->
  (forall n b, incl b (order n b)) ->
  plaquette_graph_connected (edges_plaquettes L ps) (length ps) ->
  spanning_tree_of_lattice order L = Some t ->
  exists tree, all_some t = Some tree
    /\ spanning (edges_plaquettes L ps) (length ps) tree
    /\ (forall u n m rn rm,
          (forall e, e < nE L -> is_pm1 (bond u e)) ->
          in_range n (length tree) -> in_range m (length tree) -> n <> m ->
          n_to_ujk_flipped n u tree = Some rn -> n_to_ujk_flipped m u tree = Some rm ->
          fluxes_real rn ps <> fluxes_real rm ps).
Proof.
  intros L order ps t Hwf Hnl Hf Hord Hconn Ht.
  assert (HG : good L) by (split; assumption).
  pose proof (model_tables_agree L ps HG Hf) as Hag.
  unfold spanning_tree_of_lattice in Ht. rewrite Hf in Ht.
  assert (Hnd : forall q, q < length (map p_edges ps) -> NoDup (nth q (map p_edges ps) [])).
  { intros q Hq. rewrite map_length in Hq. rewrite nth_pes.
    apply (model_plaquette_shape L ps _ Hf). now apply nth_In. }
  assert (Hconn' : plaquette_graph_connected (edges_plaquettes L ps) (length (map p_edges ps)))
    by (now rewrite map_length).
  destruct (tree_spec_complete order _ _ t Hag Hnd Hord Hconn' Ht) as (tree & Hall & Hsp).
  exists tree. split; [exact Hall|]. split; [now rewrite map_length in Hsp|].
  intros u n m rn rm Hu Hn Hm Hne Hrn Hrm.
  apply (sectors_distinct order (edges_plaquettes L ps) ps t tree u n m rn rm); try assumption.
  - intros p Hp. destruct (model_plaquette_shape L ps p Hf Hp) as (_ & H1 & H2). split; assumption.
  - intros p f Hp Hin. destruct (model_plaquette_shape L ps p Hf Hp) as (_ & Hl & _).
    destruct (in_combine_exists _ _ (p_edges p) (p_dirs p) f Hin Hl) as [d Hd].
    apply Hu. apply (model_plaquette_darts_valid L ps p (f, d) HG Hf Hp Hd).
Qed.
