(* Proofs/GreedyPairingFacts.v — koala's own greedy pairing (_greedy_plaquette_pairing, modelled as coded in
   Model/FluxSolver.v with set.pop and float min as oracles constrained ONLY to return a member of their non-empty
   argument) meets the pairing contract of the solver theorem, for every such oracle pair; hence the solver contract
   holds with no hypothesis left about the pairing. *)
From Coq Require Import List ZArith Bool Arith Lia ZifyBool.
From Koala Require Import Model.AStar Model.FluxSolver Proofs.ChainFlipFacts Proofs.FluxSolverFacts.
Import ListNotations.

(* ------------------------------------------------------------------ sets as lists *)
Lemma fs_mem_In : forall x l, fs_mem x l = true <-> In x l.
Proof.
  intros x l. unfold fs_mem. rewrite existsb_exists. split.
  - intros (y & Hy & He). apply Nat.eqb_eq in He. now subst.
  - intros H. exists x. split; [assumption | apply Nat.eqb_refl].
Qed.

Lemma fs_set_of_NoDup_id : forall l, NoDup l -> fs_set_of l = l.
Proof.
  induction l as [| x l IH]; intros H; [reflexivity |].
  inversion H as [| ? ? Hx Hnd]; subst. simpl.
  destruct (fs_mem x l) eqn:Hm; [apply fs_mem_In in Hm; contradiction |].
  now rewrite IH.
Qed.

Lemma fs_set_remove_In : forall x y s, In y (fs_set_remove x s) <-> In y s /\ y <> x.
Proof.
  intros x y s. unfold fs_set_remove. rewrite filter_In, negb_true_iff, Nat.eqb_neq. tauto.
Qed.

Lemma fs_set_remove_NoDup : forall x s, NoDup s -> NoDup (fs_set_remove x s).
Proof. intros x s H. unfold fs_set_remove. now apply NoDup_filter. Qed.

Lemma fs_set_remove_notin : forall x s, ~ In x s -> fs_set_remove x s = s.
Proof.
  induction s as [| y s IH]; intros H; [reflexivity |]. simpl.
  destruct (Nat.eqb_spec y x) as [-> | Hne]; [exfalso; apply H; now left |].
  simpl. rewrite IH; [reflexivity |]. intros Hin. apply H. now right.
Qed.

Lemma fs_set_remove_length : forall x s, NoDup s -> In x s -> S (length (fs_set_remove x s)) = length s.
Proof.
  induction s as [| y s IH]; intros Hnd Hin; [destruct Hin |].
  inversion Hnd as [| ? ? Hy Hnd']; subst. simpl.
  destruct (Nat.eqb_spec y x) as [-> | Hne]; simpl.
  - now rewrite (fs_set_remove_notin x s Hy).
  - destruct Hin as [-> | Hin]; [congruence |]. now rewrite (IH Hnd' Hin).
Qed.

Lemma match_nonempty : forall (A B : Type) (l : list A) (x y : B), l <> [] ->
  match l with [] => x | _ :: _ => y end = y.
Proof. intros A B [| a l] x y H; [congruence | reflexivity]. Qed.

(* ------------------------------------------------------------------ the while loop *)
Section GreedyProof.
  Variable pick : list nat -> nat.
  Variable nearest : nat -> list nat -> nat.
  (* set.pop() yields an element of the (non-empty) set; min(...) over to_pair yields an element of to_pair *)
  Hypothesis pick_mem : forall l, l <> [] -> In (pick l) l.
  Hypothesis nearest_mem : forall c l, l <> [] -> In (nearest c l) l.

  (* fuel = |to_pair| suffices; on a set with an even number of elements the loop ends normally
     (min() is never called on an empty sequence) with a list of pairs whose members are distinct and
     are exactly the elements of the set *)
  Lemma fs_greedy_loop_ok : forall fuel s,
    NoDup s -> (length s <= fuel)%nat -> Nat.even (length s) = true ->
    exists ps, fs_greedy_loop pick nearest fuel s = FG_Pairs ps
      /\ NoDup (fs_flatten ps) /\ (forall x, In x (fs_flatten ps) <-> In x s).
  Proof.
    induction fuel as [| f IH]; intros s Hnd Hlen Hev.
    - destruct s as [| a s']; [| simpl in Hlen; lia].
      exists []. simpl. repeat split; auto; constructor.
    - destruct s as [| a s'] eqn:Es.
      { exists []. simpl. repeat split; auto; constructor. }
      rewrite <- Es in *. assert (Hne : s <> []) by (rewrite Es; discriminate).
      assert (Hloop : fs_greedy_loop pick nearest (S f) s =
                      match fs_set_remove (pick s) s with
                      | [] => FG_MinEmptyError
                      | _ :: _ =>
                        match fs_greedy_loop pick nearest f
                                (fs_set_remove (nearest (pick s) (fs_set_remove (pick s) s)) (fs_set_remove (pick s) s)) with
                        | FG_Pairs ps => FG_Pairs ((pick s, nearest (pick s) (fs_set_remove (pick s) s)) :: ps)
                        | err => err
                        end
                      end) by (rewrite Es; reflexivity).
      rewrite Hloop. clear Hloop.
      remember (pick s) as cur eqn:Ecur. pose proof (pick_mem s Hne) as Hcur. rewrite <- Ecur in Hcur.
      remember (fs_set_remove cur s) as rest eqn:Erest.
      pose proof (fs_set_remove_length cur s Hnd Hcur) as Hl1. rewrite <- Erest in Hl1.
      pose proof (fs_set_remove_NoDup cur s Hnd) as Hnd1. rewrite <- Erest in Hnd1.
      assert (Hrne : rest <> []).
      { intros E. rewrite E in Hl1. simpl in Hl1. rewrite <- Hl1 in Hev. discriminate. }
      rewrite (match_nonempty _ _ rest _ _ Hrne).
      remember (nearest cur rest) as closest eqn:Ecl. pose proof (nearest_mem cur rest Hrne) as Hcl. rewrite <- Ecl in Hcl.
      remember (fs_set_remove closest rest) as rest2 eqn:Erest2.
      pose proof (fs_set_remove_length closest rest Hnd1 Hcl) as Hl2. rewrite <- Erest2 in Hl2.
      pose proof (fs_set_remove_NoDup closest rest Hnd1) as Hnd2. rewrite <- Erest2 in Hnd2.
      assert (Hev2 : Nat.even (length rest2) = true).
      { rewrite <- Hl1, <- Hl2 in Hev. exact Hev. }
      destruct (IH rest2 Hnd2 ltac:(lia) Hev2) as (ps & Hrun & Hndp & Hin).
      rewrite Hrun. exists ((cur, closest) :: ps). split; [reflexivity |].
      assert (Hrest : forall x, In x rest <-> In x s /\ x <> cur) by (intros x; rewrite Erest; apply fs_set_remove_In).
      assert (Hrest2 : forall x, In x rest2 <-> In x rest /\ x <> closest) by (intros x; rewrite Erest2; apply fs_set_remove_In).
      assert (Hcr : ~ In cur rest) by (rewrite Hrest; tauto).
      assert (Hcc : cur <> closest) by (intros E; apply Hcr; now rewrite E).
      split.
      + simpl. constructor; [| constructor; [| assumption]].
        * intros [E | Hx]; [now apply Hcc |]. apply Hin, Hrest2 in Hx. tauto.
        * intros Hx. apply Hin, Hrest2 in Hx. tauto.
      + intros x. simpl. rewrite Hin, Hrest2, Hrest. apply Hrest in Hcl.
        destruct (Nat.eq_dec x cur) as [-> | N1]; [tauto |].
        destruct (Nat.eq_dec x closest) as [-> | N2]; [tauto |].
        split; [intros [E | [E | H]]; [congruence | congruence | tauto] | intros H; right; right; tauto].
  Qed.

  Lemma fs_drop_last_if_odd_even : forall l : list nat, Nat.even (length (fs_drop_last_if_odd l)) = true.
  Proof.
    intros l. unfold fs_drop_last_if_odd. destruct (Nat.odd (length l)) eqn:Ho.
    - destruct l as [| a l'] using rev_ind; [discriminate |].
      rewrite removelast_last. rewrite app_length in Ho. simpl in Ho.
      rewrite Nat.add_1_r, Nat.odd_succ in Ho. exact Ho.
    - unfold Nat.odd in Ho. now apply negb_false_iff in Ho.
  Qed.

  Lemma fs_drop_last_if_odd_NoDup : forall l, NoDup l -> NoDup (fs_drop_last_if_odd l).
  Proof.
    intros l H. unfold fs_drop_last_if_odd. destruct (Nat.odd (length l)); [now apply NoDup_removelast | assumption].
  Qed.

  Lemma fs_greedy_run_ok : forall defects, NoDup defects ->
    exists ps, fs_greedy_run pick nearest defects = FG_Pairs ps
      /\ NoDup (fs_flatten ps) /\ (forall x, In x (fs_flatten ps) <-> In x (fs_drop_last_if_odd defects)).
  Proof.
    intros defects Hnd. unfold fs_greedy_run.
    pose proof (fs_drop_last_if_odd_NoDup defects Hnd) as Hw.
    rewrite (fs_set_of_NoDup_id _ Hw).
    apply fs_greedy_loop_ok; [assumption | lia | apply fs_drop_last_if_odd_even].
  Qed.

  (* the run ends normally: neither min() of an empty sequence nor the fuel bound is reached *)
  Lemma greedy_pairing_no_error : forall defects, NoDup defects ->
    fs_greedy_run pick nearest defects = FG_Pairs (greedy_pairing pick nearest defects).
  Proof.
    intros defects Hnd. destruct (fs_greedy_run_ok defects Hnd) as (ps & Hrun & _).
    unfold greedy_pairing. now rewrite Hrun.
  Qed.

  Lemma fs_subset_In : forall a b, (forall x, In x a -> In x b) -> fs_subset a b = true.
  Proof.
    intros a b H. unfold fs_subset. apply forallb_forall. intros x Hx. apply (fs_mem_In x b). now apply H.
  Qed.

  (* koala's greedy pairing meets the pairing contract of the solver theorem *)
  Lemma greedy_pairing_ok : forall defects, NoDup defects ->
    fs_pairing_ok defects (greedy_pairing pick nearest defects) = true.
  Proof.
    intros defects Hnd. destruct (fs_greedy_run_ok defects Hnd) as (ps & Hrun & Hndp & Hin).
    unfold greedy_pairing. rewrite Hrun. unfold fs_pairing_ok.
    rewrite (NoDup_as_nodup _ Hndp).
    rewrite !fs_subset_In; [reflexivity | |]; intros x Hx; now apply Hin.
  Qed.
End GreedyProof.

(* ------------------------------------------------------------------ the solver contract with koala's own pairing *)
Definition fs_contract_statement_greedy (flux : list fs_plaq -> list Z -> list Z) : Prop :=
  forall (P : list fs_plaq) (ep : list (option nat * option nat))
         (pick : list nat -> nat) (nearest : nat -> list nat -> nat)
         (path : nat -> nat -> option (list nat * list nat))
         (target guess : list Z),
    fs_wf P ep = true ->
    (forall l, l <> [] -> In (pick l) l) ->
    (forall c l, l <> [] -> In (nearest c l) l) ->
    (forall a b, (a < length P)%nat -> (b < length P)%nat -> a <> b -> fs_path_ok ep a b (path a b) = true) ->
    length target = length P -> fs_pm1 target = true ->
    length guess = length ep -> fs_pm1 guess = true ->
    exists u, fs_solve (flux P) ep (greedy_pairing pick nearest) path target guess = FS_Ok u
      /\ length u = length ep /\ fs_pm1 u = true
      /\ (Nat.even (ndiff (flux P guess) target) = true -> flux P u = target)
      /\ (Nat.even (ndiff (flux P guess) target) = false -> ndiff (flux P u) target = 1%nat).

Lemma fs_contract_greedy : forall flux, fs_contract_statement flux -> fs_contract_statement_greedy flux.
Proof.
  intros flux H P ep pick nearest path target guess Hwf Hpick Hnear Hpath Htl Htpm Hgl Hgpm.
  apply H; auto. intros defects Hnd. now apply greedy_pairing_ok.
Qed.

Lemma fs_solver_contract_greedy_ujk : fs_contract_statement_greedy fs_fluxes_ujk.
Proof. exact (fs_contract_greedy _ fs_solver_contract_ujk). Qed.
Lemma fs_solver_contract_greedy_bonds : fs_contract_statement_greedy fs_fluxes_bonds.
Proof. exact (fs_contract_greedy _ fs_solver_contract_bonds). Qed.

(* ------------------------------------------------------------------ the replay oracles of the correspondence run *)
Lemma hd_In : forall (l : list nat), l <> [] -> In (hd 0%nat l) l.
Proof. intros [| a l] H; [congruence | now left]. Qed.

Lemma fs_replay_pick_mem : forall caps l, l <> [] -> In (fs_replay_pick caps l) l.
Proof.
  intros caps l Hne. unfold fs_replay_pick.
  destruct (find (fun ab => fs_mem (fst ab) l) caps) as [ab |] eqn:Hf; [| now apply hd_In].
  apply find_some in Hf. now apply fs_mem_In.
Qed.
Lemma fs_replay_nearest_mem : forall caps c l, l <> [] -> In (fs_replay_nearest caps c l) l.
Proof.
  intros caps c l Hne. unfold fs_replay_nearest.
  destruct (find (fun ab => (fst ab =? c)%nat) caps) as [ab |]; [| now apply hd_In].
  destruct (fs_mem (snd ab) l) eqn:Hm; [now apply fs_mem_In | now apply hd_In].
Qed.

Lemma fs_replay_oracles_mem : forall caps,
  (forall l, l <> [] -> In (fs_replay_pick caps l) l) /\ (forall c l, l <> [] -> In (fs_replay_nearest caps c l) l).
Proof. intros caps. split; [apply fs_replay_pick_mem | apply fs_replay_nearest_mem]. Qed.

(* whatever was captured, the replayed run is a run of the model under admissible oracles *)
Lemma fs_replay_pairing_ok : forall caps defects, NoDup defects ->
  fs_pairing_ok defects (greedy_pairing (fs_replay_pick caps) (fs_replay_nearest caps) defects) = true.
Proof.
  intros caps defects Hnd. apply greedy_pairing_ok; auto using fs_replay_pick_mem, fs_replay_nearest_mem.
Qed.

(* a concrete run: five defects (odd: the last one, 4, is dropped), replaying the choices 9->7 then 3->1 *)
Lemma greedy_example :
  let caps := [(9, 7); (3, 1)]%nat in
  let pick := fs_replay_pick caps in
  let nearest := fs_replay_nearest caps in
  (forall l, l <> [] -> In (pick l) l) /\ (forall c l, l <> [] -> In (nearest c l) l) /\
  NoDup [3; 7; 1; 9; 4]%nat /\
  fs_greedy_run pick nearest [3; 7; 1; 9; 4]%nat = FG_Pairs caps /\
  greedy_pairing pick nearest [3; 7; 1; 9; 4]%nat = caps /\
  greedy_pairing (fun l => last l 0%nat) (fun _ l => hd 0%nat l) [3; 7; 1; 9; 4]%nat = [(9, 3); (1, 7)]%nat.
Proof.
  split; [apply fs_replay_pick_mem |]. split; [apply fs_replay_nearest_mem |].
  split; [| repeat split; vm_compute; reflexivity].
  repeat constructor; simpl; intuition lia.
Qed.
