(* Proofs/QueriesFacts.v — the query helpers of graph_utils.py agree with the tables (C02). *)
From Coq Require Import List ZArith Bool Arith Lia ZifyBool Permutation Sorted.
From Koala Require Import Model.Lattice Model.TableSpec Model.Queries Proofs.SortFacts Proofs.PlaqTablesFacts.
Import ListNotations.
Open Scope Z_scope.

(* ---------- vertex_neighbours ---------- *)
Lemma q_edge_ids_incident : forall L v, q_edge_ids L v = incident L v.
Proof.
  intros L v. unfold q_edge_ids, incident. apply filter_ext. intros e.
  unfold q_touch, incident_b. destruct (edge_at L e); reflexivity.
Qed.

Lemma q_far_end_other_end : forall L v e, q_far_end L v e = other_end L e v.
Proof.
  intros L v e. unfold q_far_end, q_start_or_end, other_end. destruct (edge_at L e) as [j k]. simpl.
  destruct (k =? v)%nat; reflexivity.
Qed.

Lemma q_far_end_spec : forall L v e,
  (fst (edge_at L e) = v \/ snd (edge_at L e) = v) ->
  (fst (edge_at L e) = v /\ q_far_end L v e = snd (edge_at L e)) \/
  (snd (edge_at L e) = v /\ q_far_end L v e = fst (edge_at L e)).
Proof.
  intros L v e H. unfold q_far_end, q_start_or_end.
  destruct (Nat.eqb_spec (snd (edge_at L e)) v) as [E|E]; simpl.
  - right. auto.
  - left. destruct H; [auto|contradiction].
Qed.

Lemma vertex_neighbours_lemma : forall L v,
  (v < nV L)%nat ->
  snd (vertex_neighbours L v) = incident L v /\
  Permutation (snd (vertex_neighbours L v)) (nth v (adj_table L) []) /\
  fst (vertex_neighbours L v) = map (q_far_end L v) (snd (vertex_neighbours L v)) /\
  (forall e, In e (snd (vertex_neighbours L v)) ->
     (fst (edge_at L e) = v /\ q_far_end L v e = snd (edge_at L e)) \/
     (snd (edge_at L e) = v /\ q_far_end L v e = fst (edge_at L e))).
Proof.
  intros L v Hv. unfold vertex_neighbours. simpl. rewrite q_edge_ids_incident.
  split. reflexivity. split.
  - rewrite adj_table_nth by assumption. symmetry. apply sorted_adj_perm.
  - split. reflexivity. intros e He. apply incident_in in He. apply q_far_end_spec. tauto.
Qed.

(* ---------- edge_neighbours ---------- *)
Lemma q_edge_neighbours_lemma : forall L e, q_edge_neighbours L e = edge_neighbours L e.
Proof.
  intros L e. unfold q_edge_neighbours, edge_neighbours. apply filter_ext. intros f.
  unfold share_vertex.
  destruct (edge_at L e) as [a b], (edge_at L f) as [c d]. simpl.
  rewrite (Nat.eqb_sym c a), (Nat.eqb_sym d a), (Nat.eqb_sym c b), (Nat.eqb_sym d b).
  destruct (a =? c)%nat, (a =? d)%nat, (b =? c)%nat, (b =? d)%nat, (f =? e)%nat; reflexivity.
Qed.

(* ---------- get_edge_vectors ---------- *)
Lemma q_edge_vector_outvec : forall L v e,
  (fst (edge_at L e) = v \/ snd (edge_at L e) = v) ->
  fst (edge_at L e) <> snd (edge_at L e) ->
  q_edge_vector L v e = outvec L v e.
Proof.
  intros L v e Hinc Hloop. unfold q_edge_vector, outvec, q_far_end, q_start_or_end, evec.
  destruct (edge_at L e) as [j k]. simpl in *.
  destruct (Nat.eqb_spec k v) as [Ek|Ek], (Nat.eqb_spec j v) as [Ej|Ej]; simpl; subst.
  - contradiction.
  - unfold vadd, vsub, vscale, vneg. cbn [fst snd]. f_equal; ring.
  - unfold vadd, vsub, vscale. cbn [fst snd]. f_equal; ring.
  - destruct Hinc; contradiction.
Qed.

Lemma get_edge_vectors_lemma : forall L v,
  (forall e, In e (incident L v) -> fst (edge_at L e) <> snd (edge_at L e)) ->
  get_edge_vectors L v (snd (vertex_neighbours L v)) = map (outvec L v) (incident L v).
Proof.
  intros L v H. unfold get_edge_vectors, vertex_neighbours. simpl. rewrite q_edge_ids_incident.
  apply map_ext_in. intros e He. apply q_edge_vector_outvec. apply incident_in in He. tauto. apply H. assumption.
Qed.

(* ---------- clockwise_about ---------- *)
Lemma half2_01 : forall v, half2 v = 0 \/ half2 v = 1.
Proof. intros v. unfold half2. destruct (_ || _); auto. Qed.

Lemma ang2_lt_asym : forall v w, ang2_lt v w = true -> ang2_lt w v = false.
Proof.
  intros v w. unfold ang2_lt, vcross.
  destruct (half2_01 v) as [Hv|Hv], (half2_01 w) as [Hw|Hw]; rewrite Hv, Hw; simpl; lia.
Qed.

(* the positive x axis itself sorts last in clockwise_about: nothing has a strictly larger key beta *)
Lemma ang2_lt_xaxis_last : forall x w, 0 < x -> ang2_lt (x, 0) w = false.
Proof.
  intros x [xw yw] Hx. unfold ang2_lt, half2, vcross. simpl.
  destruct (Z.ltb_spec 0 yw), (Z.eqb_spec yw 0), (Z.ltb_spec xw 0), (Z.ltb_spec x 0); simpl; try lia; try nia.
Qed.

(* no descent: beta a <= beta b *)
Definition asc_ok (key : nat -> vec) (a b : nat) : Prop := ang2_lt (key b) (key a) = false.

Lemma insert_asc_perm : forall key x l, Permutation (insert_asc key x l) (x :: l).
Proof.
  intros key x l. induction l as [|y r IH]; simpl. reflexivity.
  destruct (ang2_lt (key x) (key y)). reflexivity.
  rewrite IH. apply perm_swap.
Qed.

Lemma sort_asc_perm : forall key l, Permutation (sort_asc key l) l.
Proof.
  intros key l. unfold sort_asc.
  assert (G : forall acc, Permutation (fold_left (fun acc x => insert_asc key x acc) l acc) (l ++ acc)).
  { induction l as [|x r IH]; intros acc; simpl. reflexivity.
    rewrite IH, insert_asc_perm. symmetry. apply Permutation_middle. }
  rewrite G, app_nil_r. reflexivity.
Qed.

Lemma insert_asc_sorted : forall key x l,
  Sorted (asc_ok key) l -> Sorted (asc_ok key) (insert_asc key x l).
Proof.
  intros key x l. induction l as [|y r IH]; intros Hs; simpl.
  - repeat constructor.
  - inversion Hs as [|? ? Hr Hd]; subst.
    destruct (ang2_lt (key x) (key y)) eqn:E.
    + constructor. assumption. constructor. unfold asc_ok. apply ang2_lt_asym. assumption.
    + constructor. apply IH; assumption.
      destruct r as [|z r']; simpl. constructor; exact E.
      destruct (ang2_lt (key x) (key z)); constructor. exact E. inversion Hd; assumption.
Qed.

Lemma sort_asc_sorted : forall key l, Sorted (asc_ok key) (sort_asc key l).
Proof.
  intros key l. unfold sort_asc.
  assert (G : forall acc, Sorted (asc_ok key) acc ->
                          Sorted (asc_ok key) (fold_left (fun acc x => insert_asc key x acc) l acc)).
  { induction l as [|x r IH]; intros acc Ha; simpl. assumption. apply IH, insert_asc_sorted, Ha. }
  apply G. constructor.
Qed.

(* clockwise_about v: the incident edges (the same set as the table row), sorted by ascending polar
   angle measured anticlockwise from the positive x axis (the axis itself last), each paired with its far end *)
Lemma clockwise_about_lemma : forall L v,
  (v < nV L)%nat ->
  let es := snd (clockwise_about L v) in
  Permutation es (nth v (adj_table L) []) /\
  NoDup es /\
  Sorted (fun a b => ang2_lt (q_edge_vector L v b) (q_edge_vector L v a) = false) es /\
  fst (clockwise_about L v) = map (q_far_end L v) es /\
  clockwise_edges_about L v = es.
Proof.
  intros L v Hv es. subst es. unfold clockwise_edges_about, clockwise_about. simpl.
  rewrite q_edge_ids_incident.
  assert (P : Permutation (sort_asc (q_edge_vector L v) (incident L v)) (incident L v)) by apply sort_asc_perm.
  split; [|split; [|split; [|split]]].
  - rewrite adj_table_nth by assumption. rewrite P. symmetry. apply sorted_adj_perm.
  - eapply Permutation_NoDup; [symmetry; exact P|apply incident_nodup].
  - apply (sort_asc_sorted (q_edge_vector L v)).
  - reflexivity.
  - reflexivity.
Qed.

(* ---------- adjacent_plaquettes(lattice, p_index) ---------- *)
Definition other_side (ep : list ep_row) (ed : dart) : option nat :=
  ep_col (nth (fst ed) ep (None, None)) (negb (snd ed)).

Lemma flat_map_map : forall A B C (f : B -> C) (g : A -> list B) l,
  map f (flat_map g l) = flat_map (fun x => map f (g x)) l.
Proof. intros. induction l as [|a l IH]; simpl. reflexivity. rewrite map_app, IH. reflexivity. Qed.

Lemma flat_map_of_map : forall A B C (f : A -> B) (g : B -> list C) l,
  flat_map g (map f l) = flat_map (fun x => g (f x)) l.
Proof. intros. induction l as [|a l IH]; simpl. reflexivity. rewrite IH. reflexivity. Qed.

Lemma flat_map_ext_in : forall A B (f g : A -> list B) l,
  (forall x, In x l -> f x = g x) -> flat_map f l = flat_map g l.
Proof.
  intros A B f g l H. induction l as [|a l IH]; simpl. reflexivity.
  rewrite H by (left; reflexivity). rewrite IH. reflexivity. intros; apply H; right; assumption.
Qed.

Lemma map_fst_combine : forall A B (l : list A) (m : list B),
  length m = length l -> map fst (combine l m) = l.
Proof.
  intros A B l. induction l as [|a l IH]; intros [|b m] H; simpl in *; try discriminate; auto.
  rewrite IH by lia. reflexivity.
Qed.

(* adjacent_plaquettes(lattice, n) = the pairs (neighbour i, edge i) of plaquette n's own
   adjacent_plaquettes list, in edge order, with the INVALID entries dropped *)
Lemma q_adjacent_plaquettes_lemma : forall L ps n p,
  darts_disjoint ps = true ->
  nth_error ps n = Some p ->
  nodupb (p_edges p) = true ->
  length (p_dirs p) = length (p_edges p) ->
  forallb (fun e => e <? nE L)%nat (p_edges p) = true ->
  let ep := edges_plaquettes L ps in
  let nbs := plaquette_neighbours ep n p in
  q_adjacent_plaquettes ps ep n =
  Some (flat_map (fun xe : option nat * nat => match fst xe with Some m => [m] | None => [] end) (combine nbs (p_edges p)),
        flat_map (fun xe : option nat * nat => match fst xe with Some m => [snd xe] | None => [] end) (combine nbs (p_edges p))).
Proof.
  intros L ps n p Hd Hn Hnd Hlen Hwf ep nbs.
  destruct (plaquette_neighbours_lemma L ps n p Hd Hn Hnd Hlen Hwf) as [Hnb _].
  fold ep in Hnb. fold nbs in Hnb.
  unfold q_adjacent_plaquettes. rewrite Hn.
  (* per dart of p: own column holds n, the other column does not *)
  assert (Hrow : forall e d, In (e, d) (plaq_darts p) ->
            ep_col (nth e ep (None, None)) d = Some n /\ ep_col (nth e ep (None, None)) (negb d) <> Some n).
  { intros e d Hed. destruct (edge_sides_lemma L ps Hd) as [_ Hes]. apply nodupb_spec in Hnd.
    assert (He : (e < nE L)%nat).
    { rewrite forallb_forall in Hwf. apply in_combine_l in Hed. apply Hwf in Hed. lia. }
    split.
    - apply (Hes e d He). exists p. auto.
    - intros Hc. apply (Hes e (negb d) He) in Hc. destruct Hc as [q [Hq Hin2]].
      rewrite Hn in Hq. inversion Hq; subst q.
      pose proof (combine_nodup_fst _ _ _ _ _ Hnd Hed Hin2) as E. destruct d; discriminate. }
  assert (Hedges : p_edges p = map fst (plaq_darts p)).
  { unfold plaq_darts. symmetry. apply map_fst_combine. assumption. }
  assert (Hcomb : combine nbs (p_edges p) = map (fun ed : dart => (other_side ep ed, fst ed)) (plaq_darts p)).
  { rewrite Hnb. rewrite Hedges at 1. generalize (plaq_darts p). clear. intros l.
    induction l as [|a l IH]; simpl. reflexivity. rewrite IH. reflexivity. }
  rewrite Hcomb, !flat_map_of_map. simpl.
  rewrite Hedges at 1 2. rewrite !flat_map_of_map, !flat_map_map.
  f_equal. f_equal.
  - apply flat_map_ext_in. intros [e d] Hed. destruct (Hrow e d Hed) as [Hown Hoth].
    unfold other_side. simpl in *. destruct (nth e ep (None, None)) as [[a|] [b|]]; destruct d; simpl in *;
      try reflexivity; try discriminate.
    + inversion Hown; subst a. destruct (Nat.eqb_spec b n) as [->|Hne]. exfalso; apply Hoth; reflexivity. reflexivity.
    + inversion Hown; subst b. rewrite Nat.eqb_refl. reflexivity.
  - apply flat_map_ext_in. intros [e d] Hed. destruct (Hrow e d Hed) as [Hown Hoth].
    unfold other_side. simpl in *. destruct (nth e ep (None, None)) as [[a|] [b|]]; destruct d; simpl in *;
      try reflexivity; try discriminate.
Qed.
