(* Proofs/SurgeryPersistLists.v — list-level facts behind "plaquettes persist under edge removal" (C12):
   1. the stable insertion sort of the rotation system commutes with filtering, PROVIDED the keys are
      non-zero vectors (the exact property of ang_lt used is SortFacts.ang_ge_trans: ">=" is transitive
      through a non-zero middle vector, i.e. ang_lt is co-transitive; ties are allowed);
   2. the cyclic successor succ_in survives filtering when both entries are kept, and commutes with
      injective renaming;
   3. rotations (rotk = iterated Lattice.rotl): orbit walks are closed under rotation, two orbit walks
      through a common dart are rotations of each other, walk_valid is rotation invariant. *)
From Coq Require Import List ZArith Bool Arith Lia ZifyBool Permutation Sorted.
From Koala Require Import Model.Lattice.
From Koala Require Proofs.SortFacts.
From Koala Require Import Proofs.LatticeFacts.
Import ListNotations.
Open Scope nat_scope.

Notation desc_ok := SortFacts.desc_ok.

(* ------------------------------------------------------------------ 1. insertion sort and filter *)
Lemma ins_In key x l y : In y (insert_desc key x l) -> y = x \/ In y l.
Proof.
  induction l as [|z l IH]; cbn [insert_desc]; intro H.
  - destruct H as [<-|[]]. left; reflexivity.
  - destruct (ang_lt (key z) (key x)).
    + destruct H as [<-|H]; [left; reflexivity | right; exact H].
    + destruct H as [<-|H]; [right; left; reflexivity|].
      destruct (IH H) as [->|H']; [left; reflexivity | right; right; exact H'].
Qed.

Lemma insert_desc_front key x l :
  (forall w, In w l -> ang_lt (key w) (key x) = true) -> insert_desc key x l = x :: l.
Proof.
  destruct l as [|y r]; [reflexivity|]. intros H. cbn [insert_desc].
  rewrite (H y (or_introl eq_refl)). reflexivity.
Qed.

(* the exact property of the comparator that is needed: co-transitivity through a non-zero vector *)
Lemma ang_lt_cotrans (y w x : vec) :
  w <> vzero -> ang_lt y x = true -> ang_lt y w = false -> ang_lt w x = true.
Proof.
  intros Hw Hyx Hyw. destruct (ang_lt w x) eqn:E; [reflexivity|].
  rewrite (SortFacts.ang_ge_trans y w x Hw Hyw E) in Hyx. discriminate.
Qed.

Lemma filter_insert_desc key (P : nat -> bool) x l :
  (forall y, In y l -> key y <> vzero) -> StronglySorted (desc_ok key) l ->
  filter P (insert_desc key x l) = if P x then insert_desc key x (filter P l) else filter P l.
Proof.
  intros Hnz Hs. induction l as [|y r IH].
  - cbn. destruct (P x); reflexivity.
  - apply StronglySorted_inv in Hs as [Hsr Hall].
    assert (IH' := IH (fun z Hz => Hnz z (or_intror Hz)) Hsr). clear IH.
    cbn [insert_desc]. destruct (ang_lt (key y) (key x)) eqn:Eyx.
    + replace (filter P (x :: y :: r)) with (if P x then x :: filter P (y :: r) else filter P (y :: r)) by reflexivity.
      destruct (P x) eqn:Px; [|reflexivity].
      symmetry. apply insert_desc_front. intros w Hw. apply filter_In in Hw as [Hw _].
      destruct Hw as [<-|Hw]; [exact Eyx|].
      rewrite Forall_forall in Hall. specialize (Hall w Hw). unfold SortFacts.desc_ok in Hall.
      apply (ang_lt_cotrans (key y)); [apply Hnz; right; exact Hw|exact Eyx|exact Hall].
    + cbn [filter]. rewrite IH'. destruct (P y), (P x); cbn [insert_desc]; rewrite ?Eyx; reflexivity.
Qed.

Lemma insert_desc_SS key x l :
  key x <> vzero -> (forall y, In y l -> key y <> vzero) ->
  StronglySorted (desc_ok key) l -> StronglySorted (desc_ok key) (insert_desc key x l).
Proof.
  intros Hx Hl Hs. apply SortFacts.sorted_strongly.
  - intros y Hy. apply ins_In in Hy as [->|Hy]; auto.
  - apply SortFacts.insert_desc_sorted, StronglySorted_Sorted, Hs.
Qed.

Lemma filter_fold_insert key P l : forall acc,
  (forall y, In y (acc ++ l) -> key y <> vzero) -> StronglySorted (desc_ok key) acc ->
  filter P (fold_left (fun a x => insert_desc key x a) l acc)
  = fold_left (fun a x => insert_desc key x a) (filter P l) (filter P acc).
Proof.
  induction l as [|x l IH]; intros acc Hnz Hs; [reflexivity|].
  cbn [fold_left]. rewrite IH.
  - rewrite filter_insert_desc; [|intros y Hy; apply Hnz, in_or_app; left; exact Hy|exact Hs].
    cbn [filter]. destruct (P x); reflexivity.
  - intros y Hy. apply in_app_or in Hy as [Hy|Hy].
    + apply ins_In in Hy as [->|Hy]; apply Hnz, in_or_app; [right; left; reflexivity|left; exact Hy].
    + apply Hnz, in_or_app. right. right. exact Hy.
  - apply insert_desc_SS; [apply Hnz, in_or_app; right; left; reflexivity| |exact Hs].
    intros y Hy. apply Hnz, in_or_app. left. exact Hy.
Qed.

(* the rotation-system sort commutes with filtering when no key is the zero vector *)
Lemma sort_desc_filter key P l :
  (forall y, In y l -> key y <> vzero) -> filter P (sort_desc key l) = sort_desc key (filter P l).
Proof.
  intros Hnz. unfold sort_desc. rewrite filter_fold_insert; [reflexivity|exact Hnz|constructor].
Qed.

Lemma map_insert_desc key (g : nat -> nat) x l :
  map g (insert_desc (fun i => key (g i)) x l) = insert_desc key (g x) (map g l).
Proof.
  induction l as [|y r IH]; [reflexivity|]. cbn [insert_desc map].
  destruct (ang_lt (key (g y)) (key (g x))); [reflexivity|]. cbn [map]. rewrite IH. reflexivity.
Qed.

Lemma map_sort_desc key (g : nat -> nat) l :
  map g (sort_desc (fun i => key (g i)) l) = sort_desc key (map g l).
Proof.
  unfold sort_desc. change (@nil nat) with (map g []) at 2. generalize (@nil nat) as acc.
  induction l as [|x l IH]; intros acc; [reflexivity|].
  cbn [fold_left map]. rewrite IH, map_insert_desc. reflexivity.
Qed.

(* ------------------------------------------------------------------ 2. cyclic successor *)
Lemma index_of_app_hit x l1 l2 : ~ In x l1 -> index_of x (l1 ++ x :: l2) = Some (length l1).
Proof.
  induction l1 as [|a l1 IH]; cbn [app index_of length]; intros H.
  - rewrite Nat.eqb_refl. reflexivity.
  - destruct (Nat.eqb_spec a x) as [E|NE]; [exfalso; apply H; left; exact E|].
    rewrite IH; [reflexivity|]. intros Hin. apply H. right. exact Hin.
Qed.

Lemma succ_in_mid l1 l2 e f : ~ In e l1 -> succ_in (l1 ++ e :: f :: l2) e = Some f.
Proof.
  intros H. unfold succ_in. rewrite index_of_app_hit by exact H. f_equal.
  rewrite app_length. cbn [length]. rewrite Nat.mod_small by lia.
  replace (S (length l1)) with (length l1 + 1) by lia. rewrite app_nth2_plus. reflexivity.
Qed.

Lemma succ_in_wrap l e : ~ In e l -> succ_in (l ++ [e]) e = Some (hd e (l ++ [e])).
Proof.
  intros H. unfold succ_in. rewrite index_of_app_hit by exact H. f_equal.
  rewrite app_length. cbn [length]. replace (S (length l)) with (length l + 1) by lia.
  rewrite Nat.mod_same by lia. destruct l; reflexivity.
Qed.

Lemma succ_in_split row e f : NoDup row -> succ_in row e = Some f ->
  (exists l1 l2, row = l1 ++ e :: f :: l2 /\ ~ In e l1) \/
  (exists l, row = l ++ [e] /\ ~ In e l /\ f = hd e row).
Proof.
  intros Hnd H. destruct (LatticeFacts.succ_in_In _ _ _ H) as [Hin _].
  apply in_split in Hin as (l1 & l2 & ->).
  assert (Hn1 : ~ In e l1).
  { apply NoDup_remove_2 in Hnd. intros Hi. apply Hnd, in_or_app. left. exact Hi. }
  destruct l2 as [|f' l2].
  - right. exists l1. split; [reflexivity|]. split; [exact Hn1|].
    rewrite succ_in_wrap in H by exact Hn1. congruence.
  - left. exists l1, l2. rewrite succ_in_mid in H by exact Hn1. injection H as ->. auto.
Qed.

(* consecutive entries (cyclically) of a duplicate-free row stay consecutive in every filtered row that
   keeps both *)
Lemma succ_in_filter (P : nat -> bool) row e f :
  NoDup row -> succ_in row e = Some f -> P e = true -> P f = true ->
  succ_in (filter P row) e = Some f.
Proof.
  intros Hnd H Pe Pf. destruct (succ_in_split _ _ _ Hnd H) as [(l1 & l2 & -> & Hn)|(l & -> & Hn & Hf)].
  - rewrite filter_app. cbn [filter]. rewrite Pe, Pf. apply succ_in_mid.
    intros Hi. apply filter_In in Hi. tauto.
  - subst f. rewrite filter_app. cbn [filter]. rewrite Pe.
    rewrite succ_in_wrap by (intros Hi; apply filter_In in Hi; tauto). f_equal.
    destruct l as [|a l]; [reflexivity|]. cbn [app hd] in Pf. cbn [app hd filter]. rewrite Pf. reflexivity.
Qed.

Lemma index_of_map (g : nat -> nat) x l :
  (forall y, In y l -> g y = g x -> y = x) -> index_of (g x) (map g l) = index_of x l.
Proof.
  induction l as [|y l IH]; intros Hinj; [reflexivity|]. cbn [map index_of].
  destruct (Nat.eqb_spec (g y) (g x)) as [E|NE].
  - rewrite (Hinj y (or_introl eq_refl) E), Nat.eqb_refl. reflexivity.
  - destruct (Nat.eqb_spec y x) as [E2|NE2]; [subst; contradiction|].
    rewrite IH; [reflexivity|]. intros z Hz. apply Hinj. right. exact Hz.
Qed.

Lemma succ_in_map (g : nat -> nat) row e :
  (forall y, In y row -> g y = g e -> y = e) ->
  succ_in (map g row) (g e) = option_map g (succ_in row e).
Proof.
  intros Hinj. unfold succ_in. rewrite index_of_map by exact Hinj.
  destruct (index_of e row) as [i|] eqn:Ei; [|reflexivity]. cbn [option_map]. f_equal.
  destruct (index_of_Some _ _ _ Ei) as [Hlt _]. rewrite map_length.
  rewrite (nth_indep _ 0 (g 0)) by (rewrite map_length; apply Nat.mod_upper_bound; lia).
  apply map_nth.
Qed.

(* ------------------------------------------------------------------ 3. rotations *)
Fixpoint rotk {A} (k : nat) (l : list A) : list A :=
  match k with O => l | S k' => rotk k' (rotl l) end.

Lemma rotl_length {A} (l : list A) : length (rotl l) = length l.
Proof. destruct l as [|a l]; [reflexivity|]. cbn [rotl]. rewrite app_length. cbn. lia. Qed.

Lemma rotk_length {A} k : forall (l : list A), length (rotk k l) = length l.
Proof. induction k as [|k IH]; intros l; [reflexivity|]. cbn [rotk]. rewrite IH. apply rotl_length. Qed.

Lemma map_rotl {A B} (f : A -> B) l : map f (rotl l) = rotl (map f l).
Proof. destruct l as [|a l]; [reflexivity|]. cbn [rotl map]. rewrite map_app. reflexivity. Qed.

Lemma map_rotk {A B} (f : A -> B) k : forall l, map f (rotk k l) = rotk k (map f l).
Proof. induction k as [|k IH]; intros l; [reflexivity|]. cbn [rotk]. rewrite IH, map_rotl. reflexivity. Qed.

Lemma rotl_perm {A} (l : list A) : Permutation (rotl l) l.
Proof.
  destruct l as [|a l]; [reflexivity|]. cbn [rotl]. symmetry. apply Permutation_cons_append.
Qed.

Lemma rotk_perm {A} k : forall (l : list A), Permutation (rotk k l) l.
Proof.
  induction k as [|k IH]; intros l; [reflexivity|]. cbn [rotk]. rewrite IH. apply rotl_perm.
Qed.

Lemma rotk_app {A} (l1 : list A) : forall l2, rotk (length l1) (l1 ++ l2) = l2 ++ l1.
Proof.
  induction l1 as [|a l1 IH]; intros l2; [cbn; rewrite app_nil_r; reflexivity|].
  cbn [length rotk app rotl]. rewrite <- app_assoc, IH, <- app_assoc. reflexivity.
Qed.

(* ---------- walk_valid is rotation invariant ---------- *)
Lemma vadd_comm a b : vadd a b = vadd b a.
Proof. unfold vadd. apply f_equal2; ring. Qed.

Lemma vsum_app l1 l2 : vsum (l1 ++ l2) = vadd (vsum l1) (vsum l2).
Proof.
  induction l1 as [|a l1 IH]; cbn [app].
  - unfold vsum at 2. cbn [fold_right]. unfold vadd, vzero. cbn [fst snd]. destruct (vsum l2). reflexivity.
  - rewrite !vsum_cons, IH, vadd_assoc. reflexivity.
Qed.

Lemma vsum_rotl l : vsum (rotl l) = vsum l.
Proof.
  destruct l as [|a l]; [reflexivity|]. cbn [rotl]. rewrite vsum_app, (vsum_cons a l), vadd_comm.
  f_equal. destruct a as [x y]. unfold vsum, vadd, vzero. cbn [fold_right fst snd]. apply f_equal2; ring.
Qed.

Lemma combine_shift {A} (d : A) (r : list A) : forall x z,
  combine (x :: r) (r ++ [z]) = combine (removelast (x :: r)) r ++ [(last (x :: r) d, z)].
Proof.
  induction r as [|y r IH]; intros x z; [reflexivity|].
  change (combine (x :: y :: r) ((y :: r) ++ [z])) with ((x, y) :: combine (y :: r) (r ++ [z])).
  rewrite IH. reflexivity.
Qed.

Lemma winding_unfold vs :
  winding vs = fold_right Z.add 0%Z
    (map (fun ab => wrap_count (fst ab) (snd ab))
         (combine (last (map wP vs) vzero :: removelast (map wP vs)) (map wP vs))).
Proof. destruct vs; reflexivity. Qed.

Lemma zsum_snoc {A} (h : A -> Z) l a :
  fold_right Z.add 0%Z (map h (l ++ [a])) = (h a + fold_right Z.add 0%Z (map h l))%Z.
Proof.
  induction l as [|b l IH]; cbn [app map fold_right]; [lia|]. rewrite IH. lia.
Qed.

Lemma winding_rotl vs : winding (rotl vs) = winding vs.
Proof.
  destruct vs as [|v r]; [reflexivity|]. rewrite !winding_unfold. cbn [rotl].
  rewrite map_app. cbn [map]. rewrite last_last, removelast_last.
  rewrite (combine_shift vzero). rewrite zsum_snoc.
  set (ps := wP v :: map wP r).
  change (combine (last ps vzero :: removelast ps) ps)
    with ((last ps vzero, wP v) :: combine (removelast ps) (map wP r)).
  cbn [map fold_right fst snd]. reflexivity.
Qed.

Lemma nodupb_rotl l : nodupb (rotl l) = nodupb l.
Proof.
  apply eq_true_iff_eq. rewrite !nodupb_NoDup. split; intros H.
  - eapply Permutation_NoDup; [apply rotl_perm|exact H].
  - eapply Permutation_NoDup; [symmetry; apply rotl_perm|exact H].
Qed.

Lemma walk_valid_rotl L w : walk_valid L (rotl w) = walk_valid L w.
Proof.
  unfold walk_valid, net_crossing, walk_edges. rewrite !map_rotl, nodupb_rotl, vsum_rotl, winding_rotl.
  reflexivity.
Qed.

Lemma walk_valid_rotk L k : forall w, walk_valid L (rotk k w) = walk_valid L w.
Proof.
  induction k as [|k IH]; intros w; [reflexivity|]. cbn [rotk]. rewrite IH. apply walk_valid_rotl.
Qed.

(* ---------- orbit walks are closed under rotation ---------- *)
Lemma hd_app_ne (l1 l2 : list (nat * nat * bool)) : l1 <> [] -> hd dflt (l1 ++ l2) = hd dflt l1.
Proof. destruct l1; [contradiction|reflexivity]. Qed.

Lemma orbit_walk_rotl L w : orbit_walk L w -> orbit_walk L (rotl w).
Proof.
  intros HO. destruct w as [|a r]; [exact HO|]. destruct r as [|b r]; [exact HO|].
  cbn [rotl]. pose proof (ow_chain _ _ HO) as Hc. destruct Hc as [Hab Hc].
  constructor.
  - destruct r; discriminate.
  - intros s Hs. apply (ow_ok _ _ HO). apply in_app_or in Hs as [Hs|[<-|[]]]; [right; exact Hs|left; reflexivity].
  - apply chain_snoc; [exact Hc|]. intros _. exact (ow_close _ _ HO).
  - rewrite last_last. cbn [app hd]. exact Hab.
  - rewrite map_app. cbn [map]. eapply Permutation_NoDup; [|apply (ow_nodup _ _ HO)].
    cbn [map]. apply Permutation_cons_append.
Qed.

Lemma orbit_walk_rotk L k : forall w, orbit_walk L w -> orbit_walk L (rotk k w).
Proof.
  induction k as [|k IH]; intros w HO; [exact HO|]. cbn [rotk]. apply IH, orbit_walk_rotl, HO.
Qed.

(* ---------- an orbit through a dart is unique up to rotation ---------- *)
Lemma step_ok_eq L a b : step_ok L a -> step_ok L b -> sdart a = sdart b -> a = b.
Proof.
  intros [_ Ha] [_ Hb] E. destruct a as [[e v] d], b as [[e' v'] d'].
  unfold sdart in *. cbn [fst snd] in *. injection E as -> ->. subst. reflexivity.
Qed.

Lemma chain_unique L h : forall r1 r2 c,
  chain L (c :: r1) -> chain L (c :: r2) ->
  (forall s, In s r1 -> step_ok L s /\ sdart s <> h) ->
  (forall s, In s r2 -> step_ok L s /\ sdart s <> h) ->
  nd L (sdart (last (c :: r1) dflt)) = Some h ->
  nd L (sdart (last (c :: r2) dflt)) = Some h -> r1 = r2.
Proof.
  induction r1 as [|b1 r1 IH]; intros r2 c C1 C2 H1 H2 L1 L2; destruct r2 as [|b2 r2].
  - reflexivity.
  - exfalso. destruct C2 as [C2 _]. cbn [last] in L1. rewrite L1 in C2. injection C2 as C2.
    apply (proj2 (H2 b2 (or_introl eq_refl))). symmetry. exact C2.
  - exfalso. destruct C1 as [C1 _]. cbn [last] in L2. rewrite L2 in C1. injection C1 as C1.
    apply (proj2 (H1 b1 (or_introl eq_refl))). symmetry. exact C1.
  - destruct C1 as [C1 C1']. destruct C2 as [C2 C2']. rewrite C1 in C2. injection C2 as C2.
    assert (b1 = b2).
    { apply (step_ok_eq L); [apply H1; left; reflexivity|apply H2; left; reflexivity|].
      destruct b1 as [[? ?] ?], b2 as [[? ?] ?]. unfold sdart in *. cbn [fst snd] in *. congruence. }
    subst b2. f_equal.
    apply (IH r2 b1 C1' C2'); [intros s Hs; apply H1; right; exact Hs|intros s Hs; apply H2; right; exact Hs| |].
    + exact L1.
    + exact L2.
Qed.

Lemma orbit_same_head L w1 w2 :
  orbit_walk L w1 -> orbit_walk L w2 -> hd dflt w1 = hd dflt w2 -> w1 = w2.
Proof.
  intros O1 O2 Hh.
  destruct w1 as [|a r1]; [exfalso; apply (ow_ne _ _ O1); reflexivity|].
  destruct w2 as [|a' r2]; [exfalso; apply (ow_ne _ _ O2); reflexivity|].
  cbn [hd] in Hh. subst a'. f_equal.
  assert (Hr : forall r, orbit_walk L (a :: r) -> forall s, In s r -> step_ok L s /\ sdart s <> sdart a).
  { intros r HO s Hs. split; [apply (ow_ok _ _ HO); right; exact Hs|].
    pose proof (ow_nodup _ _ HO) as Hnd. cbn [map] in Hnd. apply NoDup_cons_iff in Hnd as [Hn _].
    intros E. apply Hn. rewrite <- E. apply in_map, Hs. }
  apply (chain_unique L (sdart a) r1 r2 a);
    [apply (ow_chain _ _ O1)|apply (ow_chain _ _ O2)|apply Hr, O1|apply Hr, O2|apply (ow_close _ _ O1)|apply (ow_close _ _ O2)].
Qed.

(* two closed orbits of next_dart that share a dart are rotations of each other *)
Lemma orbit_rotation L w wf :
  orbit_walk L w -> orbit_walk L wf -> In (sdart (hd dflt w)) (map sdart wf) ->
  exists k, k < length wf /\ rotk k wf = w.
Proof.
  intros O1 O2 Hin. apply in_map_iff in Hin as (s & Es & Hs).
  assert (Hhd : In (hd dflt w) w).
  { destruct w as [|a r]; [exfalso; apply (ow_ne _ _ O1); reflexivity|left; reflexivity]. }
  assert (s = hd dflt w) by (apply (step_ok_eq L); [apply (ow_ok _ _ O2), Hs|apply (ow_ok _ _ O1), Hhd|exact Es]).
  subst s. apply in_split in Hs as (l1 & l2 & E). exists (length l1). split.
  - rewrite E, app_length. cbn [length]. lia.
  - apply (orbit_same_head L); [|exact O1|].
    + apply orbit_walk_rotk, O2.
    + rewrite E, rotk_app. reflexivity.
Qed.
