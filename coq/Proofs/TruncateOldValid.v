(* Proofs/TruncateOldValid.v — the enlarged old face walks of the truncated lattice pass the validity filters
   (C13, clause "every old plaquette enlarged by one side per truncated corner").
     1. W (the summand of the coded winding number) is invariant under positive rescaling; a left turn may be split
        at the diagonal:  W a (a+b) + W (a+b) b = W a b;
     2. winding l = W (last l) (hd l) + Psum l; invariance under cyclic rotation; refinement of a closed direction
        sequence block by block (winding_refine);
     3. edge vectors of L' along expand w: (3 - k) * old vector on an old step with k truncated ends, and
        old vector in + old vector out on an inserted polygon step;
     4. expand_valid: walk_valid L w -> walk_valid L' (any rotation of expand w);
        old_plaquette_enlarged: every plaquette of L reappears in find_all_plaquettes L' with
        n_sides + (number of truncated corners it passes) sides. *)
From Coq Require Import List ZArith Bool Arith Lia ZifyBool Permutation Sorted.
From Koala Require Import Model.Lattice Model.Truncate Proofs.LatticeFacts Proofs.TruncateFacts
     Proofs.TruncateDegrees Proofs.TruncateFacesGeom Proofs.TruncateFacesRot Proofs.TruncateFaces
     Proofs.TruncateFacesWinding Proofs.TruncateOldFaces.
Import ListNotations.
Open Scope Z_scope.

(* ================================================================== 1. W: rescaling and splitting *)
Lemma upx_scale lam a : 0 < lam -> upx (vscale lam a) = upx a.
Proof.
  destruct a as [x y]. unfold upx, vscale. cbn [fst snd]. intros H.
  destruct (Z.ltb_spec 0 (lam * x)), (Z.ltb_spec 0 x), (Z.eqb_spec (lam * x) 0), (Z.eqb_spec x 0),
           (Z.ltb_spec (lam * y) 0), (Z.ltb_spec y 0); cbn; try reflexivity; exfalso; nia.
Qed.

Lemma lox_scale lam a : 0 < lam -> lox (vscale lam a) = lox a.
Proof.
  destruct a as [x y]. unfold lox, vscale. cbn [fst snd]. intros H.
  destruct (Z.ltb_spec (lam * x) 0), (Z.ltb_spec x 0), (Z.eqb_spec (lam * x) 0), (Z.eqb_spec x 0),
           (Z.ltb_spec 0 (lam * y)), (Z.ltb_spec 0 y); cbn; try reflexivity; exfalso; nia.
Qed.

(* W in terms of upx / lox, all cases *)
Lemma W_alt a b :
  W a b = if (vcross a b <? 0) && upx a && (fst b <? 0) then 1
          else if ((0 <? vcross a b) || ((vcross a b =? 0) && (vdot a b <? 0))) && lox a && upx b then -1 else 0.
Proof.
  destruct a as [ax ay], b as [bx by_]. unfold W, wrap_count, wP, w_up, w_lo, upx, lox, vcross, vdot. cbn [fst snd].
  set (c' := ay * bx - ax * by_). set (c := ax * by_ - ay * bx). assert (Ec : c' = - c) by (unfold c', c; ring).
  set (dt' := ay * by_ + ax * bx). set (dt := ax * bx + ay * by_). assert (Ed : dt' = dt) by (unfold dt', dt; ring).
  rewrite Ed. clearbody c' c.
  destruct (Z.ltb_spec 0 c'), (Z.ltb_spec c 0), (Z.ltb_spec c' 0), (Z.ltb_spec 0 c), (Z.eqb_spec c' 0), (Z.eqb_spec c 0);
    try lia; reflexivity.
Qed.

Lemma W_scale lam mu a b : 0 < lam -> 0 < mu -> W (vscale lam a) (vscale mu b) = W a b.
Proof.
  intros Hl Hm. rewrite !W_alt. rewrite upx_scale, lox_scale, upx_scale by assumption.
  assert (Ec : vcross (vscale lam a) (vscale mu b) = lam * mu * vcross a b)
    by (destruct a, b; unfold vcross, vscale; cbn [fst snd]; ring).
  assert (Ed : vdot (vscale lam a) (vscale mu b) = lam * mu * vdot a b)
    by (destruct a, b; unfold vdot, vscale; cbn [fst snd]; ring).
  rewrite Ec, Ed. set (c := vcross a b). set (dt := vdot a b). assert (0 < lam * mu) by nia.
  assert (E1 : (lam * mu * c <? 0) = (c <? 0)) by (destruct (Z.ltb_spec (lam * mu * c) 0), (Z.ltb_spec c 0); try reflexivity; exfalso; nia).
  assert (E2 : (0 <? lam * mu * c) = (0 <? c)) by (destruct (Z.ltb_spec 0 (lam * mu * c)), (Z.ltb_spec 0 c); try reflexivity; exfalso; nia).
  assert (E3 : (lam * mu * c =? 0) = (c =? 0)) by (destruct (Z.eqb_spec (lam * mu * c) 0), (Z.eqb_spec c 0); try reflexivity; exfalso; nia).
  assert (E4 : (lam * mu * dt <? 0) = (dt <? 0)) by (destruct (Z.ltb_spec (lam * mu * dt) 0), (Z.ltb_spec dt 0); try reflexivity; exfalso; nia).
  assert (E5 : (fst (vscale mu b) <? 0) = (fst b <? 0)).
  { destruct b as [bx by_]. unfold vscale. cbn [fst snd]. destruct (Z.ltb_spec (mu * bx) 0), (Z.ltb_spec bx 0); try reflexivity; exfalso; nia. }
  rewrite E1, E2, E3, E4, E5. reflexivity.
Qed.

(* a left turn split at the diagonal a + b *)
Lemma W_split a b : 0 < vcross a b -> W a (vadd a b) + W (vadd a b) b = W a b.
Proof.
  intros H.
  assert (H1 : 0 < vcross a (vadd a b)) by (destruct a, b; unfold vcross, vadd in *; cbn [fst snd] in *; lia).
  assert (H2 : 0 < vcross (vadd a b) b) by (destruct a, b; unfold vcross, vadd in *; cbn [fst snd] in *; lia).
  rewrite (W_ccw _ _ H), (W_ccw _ _ H1), (W_ccw _ _ H2).
  destruct a as [ax ay], b as [bx by_]. unfold upx, lox, vadd, vcross in *. cbn [fst snd] in *.
  split_atoms; cbn; try reflexivity; try lia; exfalso; nia.
Qed.

Lemma vscale_1 a : vscale 1 a = a.
Proof. destruct a as [x y]. unfold vscale. cbn [fst snd]. f_equal; lia. Qed.

Lemma W_scale_l lam a b : 0 < lam -> W (vscale lam a) b = W a b.
Proof. intros H. rewrite <- (vscale_1 b) at 1. apply W_scale; lia. Qed.

Lemma W_scale_r mu a b : 0 < mu -> W a (vscale mu b) = W a b.
Proof. intros H. rewrite <- (vscale_1 a) at 1. apply W_scale; lia. Qed.

(* ================================================================== 2. winding as a cyclic sum *)
Definition Psum (l : list vec) : Z := zsum (map (fun ab => W (fst ab) (snd ab)) (combine l (tl l))).

Lemma combine_removelast {A} (p : A) q : combine (removelast (p :: q)) q = combine (p :: q) q.
Proof.
  revert p; induction q as [|y q IH]; intros p; [reflexivity|].
  change (removelast (p :: y :: q)) with (p :: removelast (y :: q)). cbn [combine]. rewrite IH. reflexivity.
Qed.

Lemma winding_Psum l : l <> [] -> winding l = W (last l vzero) (hd vzero l) + Psum l.
Proof.
  intros N. rewrite (winding_ne l N). destruct l as [|x r]; [contradiction|].
  rewrite (last_map_ne wP (x :: r) vzero vzero N).
  cbn [map hd]. change (wP x :: map wP r) with (map wP (x :: r)) at 1.
  cbn [combine map zsum fold_right fst snd].
  change (map wP (x :: r)) with (wP x :: map wP r). rewrite combine_removelast.
  change (wP x :: map wP r) with (map wP (x :: r)). rewrite combine_map2, map_map.
  unfold Psum, W. cbn [tl fst snd]. reflexivity.
Qed.

Lemma Psum_single a : Psum [a] = 0.
Proof. reflexivity. Qed.

Lemma Psum_cons a b r : Psum (a :: b :: r) = W a b + Psum (b :: r).
Proof. reflexivity. Qed.

Lemma Psum_app l1 l2 : l1 <> [] -> l2 <> [] ->
  Psum (l1 ++ l2) = Psum l1 + W (last l1 vzero) (hd vzero l2) + Psum l2.
Proof.
  intros N1 N2. induction l1 as [|a l1 IH]; [contradiction|]. destruct l1 as [|b l1].
  - destruct l2 as [|c l2]; [contradiction|]. cbn [app last hd]. rewrite Psum_cons, Psum_single. lia.
  - change ((a :: b :: l1) ++ l2) with (a :: b :: (l1 ++ l2)). rewrite !Psum_cons.
    change (b :: l1 ++ l2) with ((b :: l1) ++ l2). rewrite IH by discriminate.
    change (last (a :: b :: l1) vzero) with (last (b :: l1) vzero). lia.
Qed.

Lemma hd_app_ne {A} (l1 l2 : list A) d : l1 <> [] -> hd d (l1 ++ l2) = hd d l1.
Proof. destruct l1; [contradiction|reflexivity]. Qed.

Theorem winding_rot l1 l2 : winding (l2 ++ l1) = winding (l1 ++ l2).
Proof.
  destruct l1 as [|x l1]; [rewrite app_nil_r; reflexivity|]. destruct l2 as [|y l2]; [rewrite app_nil_r; reflexivity|].
  rewrite !winding_Psum by (intros E; apply app_eq_nil in E as [E _]; discriminate).
  rewrite !Psum_app by discriminate. rewrite !last_app_ne by discriminate. rewrite !hd_app_ne by discriminate. lia.
Qed.

(* refinement: every item a of a closed sequence x :: r (successor of the last = e, finally e = x) is replaced by a
   non-empty block blk a starting with hdf a, such that the block of a followed by the head of the block of the
   successor b wraps as often as the pair (g a, g b) *)
Section Refine.
Variables (X : Type) (g hdf : X -> vec) (blk : X -> list vec).

Definition blk_ok (a b : X) : Prop :=
  blk a <> [] /\ hd vzero (blk a) = hdf a /\
  Psum (blk a) + W (last (blk a) vzero) (hdf b) = W (g a) (g b).

Lemma flat_blk_ne x r : blk x <> [] -> flat_map blk (x :: r) <> [].
Proof. intros N E. cbn [flat_map] in E. apply app_eq_nil in E as [E _]. contradiction. Qed.

Lemma refine_open r : forall x e,
  (forall a b, In (a, b) (combine (x :: r) (r ++ [e])) -> blk_ok a b) ->
  Psum (flat_map blk (x :: r)) + W (last (flat_map blk (x :: r)) vzero) (hdf e) =
  zsum (map (fun ab => W (g (fst ab)) (g (snd ab))) (combine (x :: r) (r ++ [e]))).
Proof.
  induction r as [|y r IH]; intros x e H.
  - cbn [flat_map app combine map zsum fold_right fst snd]. rewrite app_nil_r.
    destruct (H x e (or_introl eq_refl)) as (_ & _ & E). lia.
  - change (combine (x :: y :: r) ((y :: r) ++ [e])) with ((x, y) :: combine (y :: r) (r ++ [e])) in *.
    cbn [map zsum fold_right fst snd]. fold (zsum (map (fun ab : X * X => W (g (fst ab)) (g (snd ab))) (combine (y :: r) (r ++ [e])))).
    rewrite <- (IH y e) by (intros a b Hab; apply H; right; exact Hab).
    destruct (H x y (or_introl eq_refl)) as (N1 & _ & E1).
    destruct (H y (hd e (r ++ [e]))) as (N2 & Hh2 & _).
    { right. destruct r as [|z r]; left; reflexivity. }
    change (flat_map blk (x :: y :: r)) with (blk x ++ flat_map blk (y :: r)).
    rewrite Psum_app by (try exact N1; apply flat_blk_ne, N2).
    rewrite last_app_ne by (apply flat_blk_ne, N2).
    assert (Eh : hd vzero (flat_map blk (y :: r)) = hdf y).
    { cbn [flat_map]. rewrite hd_app_ne by exact N2. exact Hh2. }
    rewrite Eh. lia.
Qed.

Lemma combine_rotl_sum (F : vec -> vec -> Z) (l : list vec) : l <> [] ->
  zsum (map (fun ab => F (fst ab) (snd ab)) (combine l (rotl l))) =
  F (last l vzero) (hd vzero l) + zsum (map (fun ab => F (fst ab) (snd ab)) (combine l (tl l))).
Proof.
  intros N. destruct l as [|x r]; [contradiction|]. cbn [rotl hd tl].
  assert (G : forall r x e, zsum (map (fun ab => F (fst ab) (snd ab)) (combine (x :: r) (r ++ [e]))) =
              F (last (x :: r) vzero) e + zsum (map (fun ab => F (fst ab) (snd ab)) (combine (x :: r) r))).
  { clear. induction r as [|y r IH]; intros x e; [cbn; lia|].
    change (combine (x :: y :: r) ((y :: r) ++ [e])) with ((x, y) :: combine (y :: r) (r ++ [e])).
    change (combine (x :: y :: r) (y :: r)) with ((x, y) :: combine (y :: r) r).
    cbn [map zsum fold_right fst snd].
    fold (zsum (map (fun ab => F (fst ab) (snd ab)) (combine (y :: r) (r ++ [e])))).
    fold (zsum (map (fun ab => F (fst ab) (snd ab)) (combine (y :: r) r))).
    rewrite IH. change (last (x :: y :: r) vzero) with (last (y :: r) vzero). lia. }
  apply G.
Qed.

Theorem winding_refine x r :
  (forall a b, In (a, b) (combine (x :: r) (r ++ [x])) -> blk_ok a b) ->
  winding (flat_map blk (x :: r)) = winding (map g (x :: r)).
Proof.
  intros H.
  assert (N : blk x <> []) by (destruct r as [|y r]; apply (H x _ (or_introl eq_refl))).
  assert (Hh : hd vzero (blk x) = hdf x) by (destruct r as [|y r]; apply (H x _ (or_introl eq_refl))).
  rewrite winding_Psum by (apply flat_blk_ne, N).
  assert (E : hd vzero (flat_map blk (x :: r)) = hdf x) by (cbn [flat_map]; rewrite hd_app_ne by exact N; exact Hh).
  rewrite E. rewrite Z.add_comm. rewrite (refine_open r x x H).
  rewrite winding_Psum by discriminate. unfold Psum.
  rewrite <- (combine_rotl_sum W (map g (x :: r))) by discriminate.
  rewrite rotl_map. rewrite combine_map2, map_map. reflexivity.
Qed.
End Refine.

(* ================================================================== 3. edge vectors along expand w *)
Lemma map_flat_map {A B C} (f : B -> C) (g : A -> list B) l : map f (flat_map g l) = flat_map (fun a => map f (g a)) l.
Proof. induction l as [|a l IH]; [reflexivity|]. cbn [flat_map]. rewrite map_app, IH. reflexivity. Qed.

Lemma map_fst_combine {A B} (l : list A) (l' : list B) : (length l <= length l')%nat -> map fst (combine l l') = l.
Proof.
  revert l'; induction l as [|a l IH]; intros [|b l'] H; cbn in *; try reflexivity; try lia. f_equal. apply IH. lia.
Qed.

Lemma map_snd_combine {A B} (l : list A) (l' : list B) : (length l' <= length l)%nat -> map snd (combine l l') = l'.
Proof.
  revert l'; induction l as [|a l IH]; intros [|b l'] H; cbn in *; try reflexivity; try lia. f_equal. apply IH. lia.
Qed.

Lemma tf_vsum_app l1 l2 : vsum (l1 ++ l2) = vadd (vsum l1) (vsum l2).
Proof.
  induction l1 as [|a l1 IH]; [cbn [app]; destruct (vsum l2) as [p q]; unfold vsum, vadd, vzero; cbn [fold_right fst snd]; reflexivity|]. cbn [app]. rewrite !tf_vsum_cons, IH.
  destruct a, (vsum l1), (vsum l2). unfold vadd. cbn [fst snd]. f_equal; ring.
Qed.

Lemma vsum_rot l1 l2 : vsum (l2 ++ l1) = vsum (l1 ++ l2).
Proof. rewrite !tf_vsum_app. destruct (vsum l1), (vsum l2). unfold vadd. cbn [fst snd]. f_equal; ring. Qed.

Lemma vsum_flat_map {A} (g : A -> list vec) l : vsum (flat_map g l) = vsum (map (fun a => vsum (g a)) l).
Proof. induction l as [|a l IH]; [reflexivity|]. cbn [flat_map map]. rewrite tf_vsum_app, tf_vsum_cons, IH. reflexivity. Qed.

Lemma vsum_scale k l : vsum (map (vscale k) l) = vscale k (vsum l).
Proof.
  induction l as [|a l IH]; [unfold vsum, vscale, vzero; cbn; f_equal; ring|]. cbn [map]. rewrite !tf_vsum_cons, IH.
  destruct a, (vsum l). unfold vadd, vscale. cbn [fst snd]. f_equal; ring.
Qed.

Lemma dvec_mkstep M a : dvec M (mkstep M a) = vscale (sgn (snd a)) (evec M (fst a)).
Proof. reflexivity. Qed.

Lemma dvec_sdart M s : dvec M (mkstep M (sdart s)) = dvec M s.
Proof. reflexivity. Qed.

Lemma dvec_out_dart M h f : dvec M (mkstep M (out_dart M h f)) = outvec M h f.
Proof.
  rewrite dvec_mkstep. unfold out_dart, outvec. cbn [fst snd].
  destruct (fst (edge_at M f) =? h)%nat; destruct (evec M f) as [x y]; unfold vscale, vneg, sgn; cbn [fst snd]; f_equal; ring.
Qed.

Lemma dvec_in M e b : LatticeFacts.good M -> valid_dart M (e, b) ->
  dvec M (mkstep M (e, b)) = vneg (outvec M (dhead M (e, b)) e).
Proof.
  intros HG Hv. rewrite dvec_mkstep. unfold outvec, dhead. cbn [fst snd].
  destruct (edge_at M e) as [j k] eqn:E. destruct (LatticeFacts.good_edge M e j k HG Hv E) as (_ & _ & Hjk).
  cbn [fst]. destruct b.
  - replace (j =? k)%nat with false by (symmetry; apply Nat.eqb_neq; exact Hjk).
    destruct (evec M e) as [x y]. unfold vscale, vneg, sgn. cbn [fst snd]. f_equal; ring.
  - rewrite Nat.eqb_refl. destruct (evec M e) as [x y]. unfold vscale, vneg, sgn. cbn [fst snd]. f_equal; ring.
Qed.

(* every consecutive pair of a closed chain of darts *)
Lemma orbit_pairs M r : forall x e,
  dchain M (x :: r) -> nd M (last (x :: r) dd) = Some e ->
  forall a b, In (a, b) (combine (x :: r) (r ++ [e])) -> nd M a = Some b /\ In a (x :: r).
Proof.
  induction r as [|y r IH]; intros x e Hc Hl a b Hin.
  - cbn in Hin. destruct Hin as [Hin|[]]. injection Hin as <- <-. split; [exact Hl|left; reflexivity].
  - change (combine (x :: y :: r) ((y :: r) ++ [e])) with ((x, y) :: combine (y :: r) (r ++ [e])) in Hin.
    destruct Hc as [Hxy Hc]. destruct Hin as [Hin|Hin].
    + injection Hin as <- <-. split; [exact Hxy|left; reflexivity].
    + destruct (IH y e Hc Hl a b Hin) as [H1 H2]. split; [exact H1|right; exact H2].
Qed.

Section OldValid.
Variables (L : lattice) (vs : option (list nat)).
Hypothesis Hg : good L.
Hypothesis Hcw : all_turns_cw L vs = true.
Local Set Default Proof Using "Hg Hcw".
Local Notation L' := (trunc_spec L vs).
Local Notation dl a := (dvec L (mkstep L a)).
Local Notation dlf := (fun a : dart => dvec L (mkstep L a)).
Local Notation dl' a := (dvec L' (mkstep L' a)).
Local Notation dlf' := (fun a : dart => dvec L' (mkstep L' a)).
Local Notation tt a := (is_truncated L vs (dtail L a)).
Local Notation th a := (is_truncated L vs (dhead L a)).
Local Notation b2z b := (if b then 1 else 0).

(* an old step: (1 - k/3) of the old vector, k = number of truncated ends *)
Lemma delta_old a : valid_dart L a ->
  dl' a = vscale (3 - b2z (tt a) - b2z (th a)) (dl a).
Proof.
  intros Hv. rewrite !dvec_mkstep.
  rewrite (of_spec L vs _ Hg (truncate_vectors_original L vs (fst a) Hg Hv)).
  destruct a as [e b]. unfold dtail, dhead. cbn [fst snd]. destruct (edge_at L e) as [j k]. cbn [fst snd].
  destruct (evec L e) as [x y].
  destruct b, (is_truncated L vs j), (is_truncated L vs k); unfold vscale, sgn; cbn [fst snd Nat.add Z.of_nat Pos.of_succ_nat Pos.succ];
    f_equal; ring.
Qed.

Lemma delta_old_pos a : valid_dart L a -> exists lam, 0 < lam /\ dl' a = vscale lam (dl a).
Proof.
  intros Hv. eexists. split; [|apply delta_old, Hv].
  destruct (is_truncated L vs (dtail L a)), (is_truncated L vs (dhead L a)); lia.
Qed.

(* an inserted polygon step: old vector in + old vector out; the corner is a left turn of less than pi *)
Lemma delta_pdart a a1 : valid_dart L a -> th a = true -> nd L a = Some a1 ->
  dl' (pdart L vs a) = vadd (dl a) (dl a1) /\ 0 < vcross (dl a) (dl a1).
Proof.
  intros Hv Htr Hn. destruct a as [e b]. set (h := dhead L (e, b)) in *.
  assert (Hh : (h < nV L)%nat) by (apply dhead_lt; assumption).
  pose proof (all_turns_cw_at L vs h Hcw Hh Htr) as Hc.
  pose proof (old_in_row L vs Hg Hcw (e, b) Hv) as Hin. cbn [fst] in Hin. fold h in Hin.
  set (u := pos_in e (sorted_adj L h)). assert (Hu : (u < length (sorted_adj L h))%nat) by (apply pos_in_lt, Hin).
  assert (Enth : nth u (sorted_adj L h) 0%nat = e) by (apply nth_pos_in, Hin).
  pose proof (corner_detour_partial L vs h Hg Hh Htr Hc u b Hu) as CD.
  rewrite Enth in CD. specialize (CD eq_refl). cbv zeta in CD. destruct CD as (C1 & _).
  rewrite Hn in C1. injection C1 as ->.
  rewrite dvec_out_dart, (dvec_in L e b Hg Hv). fold h.
  destruct (of_spec L vs _ Hg (truncate_vectors_polygon L vs h u Hg Hh Htr Hu)) as [_ Hev]. cbv zeta in Hev.
  rewrite Enth in Hev.
  pose proof (turns_cw_at L h u Hc Hu) as Hx. unfold wv in Hx. rewrite Enth in Hx.
  unfold pdart, corner_of. cbn [fst]. fold h u.
  rewrite dvec_mkstep. cbn [fst snd sgn]. unfold pe. rewrite Hev.
  revert Hx. generalize (outvec L h e) (outvec L h (nth (Nat.modulo (u + 1) (length (sorted_adj L h))) (sorted_adj L h) 0%nat)).
  intros [x y] [x' y'] Hx. unfold vcross, vscale, vsub, vadd, vneg in *. cbn [fst snd] in *. split; [f_equal; ring|lia].
Qed.

Lemma tail_of_next a a1 : valid_dart L a -> nd L a = Some a1 -> dtail L a1 = dhead L a /\ valid_dart L a1.
Proof. intros Hv Hn. destruct (nd_valid L a a1 Hg Hv Hn) as [H1 H2]. split; assumption. Qed.

(* sum of the vectors of one block *)
Lemma block_sum a a1 : valid_dart L a -> nd L a = Some a1 ->
  vsum (map dlf' (ex_dart L vs a)) = vadd (vscale (3 - b2z (tt a)) (dl a)) (vscale (b2z (tt a1)) (dl a1)).
Proof.
  intros Hv Hn. destruct (tail_of_next a a1 Hv Hn) as [Ht _]. cbv beta. rewrite Ht.
  unfold ex_dart. destruct (is_truncated L vs (dhead L a)) eqn:Htr.
  - destruct (delta_pdart a a1 Hv Htr Hn) as [Ep _]. cbn [map]. rewrite !tf_vsum_cons, Ep, (delta_old a Hv).
    cbv beta. rewrite Htr. destruct (dvec L (mkstep L a)) as [x y], (dvec L (mkstep L a1)) as [x' y'].
    destruct (is_truncated L vs (dtail L a)); unfold vsum, vadd, vscale, vzero; cbn [fst snd fold_right]; f_equal; ring.
  - cbn [map]. rewrite !tf_vsum_cons, (delta_old a Hv). cbv beta. rewrite Htr.
    destruct (dvec L (mkstep L a)) as [x y], (dvec L (mkstep L a1)) as [x' y'].
    destruct (is_truncated L vs (dtail L a)); unfold vsum, vadd, vscale, vzero; cbn [fst snd fold_right]; f_equal; ring.
Qed.

(* the block of a, followed by the head of the block of its successor, wraps like the old pair *)
Lemma block_ok a a1 : valid_dart L a -> nd L a = Some a1 ->
  blk_ok dart dlf dlf' (fun a => map dlf' (ex_dart L vs a)) a a1.
Proof.
  intros Hv Hn. destruct (tail_of_next a a1 Hv Hn) as [_ Hv1].
  destruct (delta_old_pos a Hv) as (la & Hla & Ea). destruct (delta_old_pos a1 Hv1) as (l1 & Hl1 & E1).
  unfold blk_ok. split; [|split].
  - unfold ex_dart. destruct (is_truncated L vs (dhead L a)); discriminate.
  - unfold ex_dart. destruct (is_truncated L vs (dhead L a)); reflexivity.
  - unfold ex_dart. destruct (is_truncated L vs (dhead L a)) eqn:Htr.
    + destruct (delta_pdart a a1 Hv Htr Hn) as [Ep Hx]. cbn [map last]. rewrite Psum_cons, Psum_single.
      rewrite Ep, Ea, E1. rewrite W_scale_l, W_scale_r by assumption. pose proof (W_split _ _ Hx) as Hs. lia.
    + cbn [map last]. rewrite Psum_single, Ea, E1. rewrite W_scale by assumption. lia.
Qed.

Section OneWalk.
Variable w : list (nat * nat * bool).
Hypothesis HO : orbit_walk L w.
Local Set Default Proof Using "Hg Hcw HO".
Local Notation ds := (map sdart w).

Lemma ds_facts : exists x r, ds = x :: r /\ dchain L (x :: r) /\ nd L (last (x :: r) dd) = Some x /\
                             (forall a, In a (x :: r) -> valid_dart L a).
Proof.
  destruct w as [|s w'] eqn:Ew; [exfalso; exact (ow_ne _ _ HO eq_refl)|].
  exists (sdart s), (map sdart w'). split; [reflexivity|]. rewrite <- Ew in *.
  change (sdart s :: map sdart w') with (map sdart (s :: w')). rewrite <- Ew.
  split; [apply chain_dchain, (ow_chain _ _ HO)|]. split.
  - rewrite (last_map_ne sdart w dd tdflt (ow_ne _ _ HO)). rewrite (ow_close _ _ HO). rewrite Ew. reflexivity.
  - intros a Ha. apply in_map_iff in Ha as (s0 & <- & Hs). apply (ow_ok _ _ HO s0 Hs).
Qed.

Lemma expand_dvecs : map (dvec L') (expand L vs w) = flat_map (fun a => map dlf' (ex_dart L vs a)) ds.
Proof. unfold expand. rewrite map_map. apply map_flat_map. Qed.

(* the coded winding number is unchanged *)
Theorem expand_winding : winding (map (dvec L') (expand L vs w)) = winding (map (dvec L) w).
Proof.
  rewrite expand_dvecs. destruct ds_facts as (x & r & E & Hc & Hl & Hv). rewrite E.
  rewrite (winding_refine dart dlf dlf' (fun a => map dlf' (ex_dart L vs a)) x r).
  - rewrite <- E. rewrite map_map. reflexivity.
  - intros a b Hab. destruct (orbit_pairs L r x x Hc Hl a b Hab) as [Hn Ha]. apply block_ok; [apply Hv, Ha|exact Hn].
Qed.

(* the edge vectors add up to three times the old sum *)
Theorem expand_vsum : vsum (map (dvec L') (expand L vs w)) = vscale 3 (vsum (map (dvec L) w)).
Proof.
  rewrite expand_dvecs. destruct ds_facts as (x & r & E & Hc & Hl & Hv). rewrite E.
  rewrite vsum_flat_map.
  set (PS := combine (x :: r) (r ++ [x])).
  assert (Lf : map fst PS = x :: r) by (apply map_fst_combine; rewrite app_length; cbn; lia).
  assert (Ls : map snd PS = r ++ [x]) by (apply map_snd_combine; rewrite app_length; cbn; lia).
  rewrite <- Lf at 1. rewrite map_map.
  rewrite (map_ext_in _ (fun p : dart * dart => vadd (vscale (3 - b2z (tt (fst p))) (dl (fst p)))
                                                     (vscale (b2z (tt (snd p))) (dl (snd p))))).
  2:{ intros [a b] Hab. cbn [fst snd]. destruct (orbit_pairs L r x x Hc Hl a b Hab) as [Hn Ha].
      apply block_sum; [apply Hv, Ha|exact Hn]. }
  rewrite (vsum_map_add (fun p : dart * dart => vscale (3 - b2z (tt (fst p))) (dl (fst p)))
                        (fun p : dart * dart => vscale (b2z (tt (snd p))) (dl (snd p)))).
  rewrite <- (map_map fst (fun a => vscale (3 - b2z (tt a)) (dl a))), Lf.
  rewrite <- (map_map snd (fun a => vscale (b2z (tt a)) (dl a))), Ls.
  rewrite map_app, (vsum_rot (map _ [x]) (map _ r)). rewrite <- map_app. change ([x] ++ r) with (x :: r).
  rewrite <- vsum_map_add.
  rewrite (map_ext _ (fun a => vscale 3 (dl a))).
  2:{ intros a. cbv beta. destruct (dvec L (mkstep L a)) as [p q]. destruct (is_truncated L vs (dtail L a));
      unfold vadd, vscale; cbn [fst snd]; f_equal; ring. }
  rewrite <- (map_map dlf (vscale 3)), vsum_scale. rewrite <- E, map_map. reflexivity.
Qed.
End OneWalk.
End OldValid.

(* ================================================================== 4. the validity filters and the plaquette list *)
Section Final.
Variables (L : lattice) (vs : option (list nat)).
Hypothesis Hg : good L.
Hypothesis Hcw : all_turns_cw L vs = true.
Local Set Default Proof Using "Hg Hcw".
Local Notation L' := (trunc_spec L vs).
Local Open Scope nat_scope.

Lemma nodup_edges_expand ds :
  (forall a, In a ds -> valid_dart L a) -> NoDup (map fst ds) -> NoDup (map fst (flat_map (ex_dart L vs) ds)).
Proof.
  induction ds as [|a r IH]; intros Hv Hnd; [constructor|]. cbn [flat_map map] in *. rewrite map_app.
  apply NoDup_cons_iff in Hnd as [Hna Hnd].
  assert (Hva : valid_dart L a) by (apply Hv; left; reflexivity).
  assert (Hvr : forall x, In x r -> valid_dart L x) by (intros x Hx; apply Hv; right; exact Hx).
  apply NoDup_app_intro.
  - unfold ex_dart. destruct (is_truncated L vs (dhead L a)); [|repeat constructor; intros []].
    cbn [map]. repeat constructor; cbn [In]; [|tauto]. intros [E|[]].
    unfold valid_dart in Hva. unfold pdart, pe in E. cbn [fst] in E. lia.
  - apply IH; assumption.
  - intros x Hx1 Hx2. apply in_map_iff in Hx1 as (y1 & <- & Hy1). apply in_map_iff in Hx2 as (y2 & E & Hy2).
    apply in_flat_map in Hy2 as (c & Hc & Hy2).
    apply (in_ex L vs Hg Hcw) in Hy1. apply (in_ex L vs Hg Hcw) in Hy2.
    pose proof (Hvr c Hc) as Hvc. unfold valid_dart in Hva, Hvc.
    destruct Hy1 as [->|[Ta ->]], Hy2 as [->|[Tc ->]].
    + apply Hna. rewrite <- E. apply in_map, Hc.
    + unfold pdart, pe in E. cbn [fst] in E. lia.
    + unfold pdart, pe in E. cbn [fst] in E. lia.
    + unfold pdart in E. cbn [fst] in E.
      destruct (pe_inj L vs _ _ _ _ Tc Ta (corner_lt L vs Hg Hcw c (Hvr c Hc)) (corner_lt L vs Hg Hcw a (Hv a (or_introl eq_refl))) E) as [Eh Eu].
      pose proof (nth_pos_in _ _ (old_in_row L vs Hg Hcw a (Hv a (or_introl eq_refl)))) as Na.
      pose proof (nth_pos_in _ _ (old_in_row L vs Hg Hcw c (Hvr c Hc))) as Nc.
      unfold corner_of in Eu. rewrite Eu, Eh in Nc. rewrite Nc in Na.
      apply Hna. rewrite <- Na. apply in_map, Hc.
Qed.

Lemma walk_edges_mkstep M E : walk_edges (map (mkstep M) E) = map fst E.
Proof using. unfold walk_edges. rewrite map_map. reflexivity. Qed.

Lemma walk_edges_sdart w : walk_edges w = map fst (map sdart w).
Proof using. unfold walk_edges. rewrite map_map. reflexivity. Qed.

(* every cyclic rotation of the enlarged walk passes the three coded filters *)
Theorem expand_valid w l1 l2 :
  orbit_walk L w -> walk_valid L w = true -> expand L vs w = l1 ++ l2 -> walk_valid L' (l2 ++ l1) = true.
Proof.
  intros HO Hval E. unfold walk_valid in Hval.
  apply andb_prop in Hval as [Hval H3]. apply andb_prop in Hval as [H1 H2].
  apply nodupb_NoDup in H1. apply veqb_eq in H2. apply Z.eqb_eq in H3.
  pose proof (expand_orbit L vs Hg Hcw w HO) as HO'.
  unfold walk_valid. rewrite !andb_true_iff. split; [split|].
  - apply nodupb_NoDup. unfold walk_edges. rewrite map_app.
    eapply Permutation_NoDup; [apply Permutation_app_comm|]. rewrite <- map_app, <- E.
    fold (walk_edges (expand L vs w)). unfold expand. rewrite walk_edges_mkstep.
    apply nodup_edges_expand.
    + intros a Ha. apply in_map_iff in Ha as (s & <- & Hs). apply (ow_ok _ _ HO s Hs).
    + rewrite <- walk_edges_sdart. exact H1.
  - apply veqb_eq. unfold net_crossing. rewrite map_app, vsum_rot, <- map_app, <- E.
    fold (net_crossing L' (expand L vs w)).
    pose proof (orbit_vectors_sum L' _ (trunc_spec_good L vs Hg) HO') as Hsum.
    rewrite (expand_vsum L vs Hg Hcw w HO) in Hsum.
    rewrite (orbit_vectors_sum L w Hg HO), H2 in Hsum.
    assert (Hs : (0 < scale L')%Z) by (pose proof (good_scale L Hg); change (scale L') with (3 * scale L)%Z; lia).
    replace (vscale 3 (vscale (scale L) vzero)) with vzero in Hsum
      by (unfold vscale, vzero; cbn [fst snd]; f_equal; ring).
    revert Hsum Hs. generalize (scale L'). intros s' Hsum Hs.
    destruct (net_crossing L' (expand L vs w)) as [p q]. unfold vscale, vzero in *. cbn [fst snd] in Hsum.
    injection Hsum as Hp Hq. symmetry in Hp, Hq. apply Z.mul_eq_0 in Hp, Hq. f_equal; lia.
  - apply Z.eqb_eq. rewrite map_app, winding_rot, <- map_app, <- E.
    rewrite (expand_winding L vs Hg Hcw w HO). exact H3.
Qed.

(* clause "every old plaquette enlarged by one side per truncated corner" *)
Theorem old_plaquette_enlarged ps p :
  find_all_plaquettes L = Some ps -> In p ps ->
  exists ps', find_all_plaquettes L' = Some ps' /\
    exists w l1 l2, orbit_walk L w /\ p = mk_plaquette L w /\ expand L vs w = l1 ++ l2 /\
      In (mk_plaquette L' (l2 ++ l1)) ps' /\
      n_sides (mk_plaquette L' (l2 ++ l1)) = n_sides p + ncorners L vs w.
Proof.
  intros E Hp.
  destruct (plaquettes_spec L Hg) as (fs & Ef & Ep & _ & Hin). rewrite E in Ep. injection Ep as ->.
  apply Hin in Hp as (f & Hfin & Hval & ->).
  destruct (old_face_listed L vs Hg Hcw fs f Ef Hfin) as (HO & fs' & Ef' & f' & l1 & l2 & Hf'in & Hmk & E1 & E2).
  destruct (plaquettes_spec L' (trunc_spec_good L vs Hg)) as (fs'' & Ef'' & Ep' & _ & Hin'). rewrite Ef' in Ef''. injection Ef'' as <-.
  exists (plaq_of_faces L' fs'). split; [exact Ep'|].
  exists (f_walk f), l1, l2. split; [exact HO|]. split; [reflexivity|]. split; [exact E1|]. split.
  - apply Hin'. exists f'. rewrite E2. split; [exact Hf'in|]. split; [|reflexivity].
    apply (expand_valid (f_walk f) l1 l2 HO Hval E1).
  - unfold n_sides, mk_plaquette. cbn [p_edges]. unfold walk_edges. rewrite !map_length.
    rewrite app_length, Nat.add_comm, <- app_length, <- E1. apply (expand_length L vs Hg Hcw).
Qed.
End Final.

(* ================================================================== assembled statements (explicit hypotheses) *)
Theorem truncate_nd_complete (L : lattice) (vs : option (list nat)) :
  wf_lattice L = true -> no_self_loops L = true -> all_turns_cw L vs = true ->
  exists L', vertices_to_polygon L vs = Some L' /\
    (forall x, (x < nV L)%nat -> is_truncated L vs x = false ->
       sorted_adj L' (base_index L vs x) = sorted_adj L x) /\
    (forall a, valid_dart L a ->
       if is_truncated L vs (dhead L a)
       then nd L' a = Some (pdart L vs a) /\ nd L' (pdart L vs a) = nd L a
       else nd L' a = nd L a).
Proof.
  intros Hwf Hnl Hcw. assert (Hg : good L) by (split; assumption).
  exists (trunc_spec L vs). split; [apply vertices_to_polygon_spec; exact Hg|]. split.
  - intros x Hx Hnt. apply sorted_adj_untouched; assumption.
  - intros a Ha. apply truncate_nd_spec; assumption.
Qed.

Theorem truncate_old_faces (L : lattice) (vs : option (list nat)) (fs : list face) (f : face) :
  wf_lattice L = true -> no_self_loops L = true -> all_turns_cw L vs = true ->
  all_faces L = Some fs -> In f fs ->
  exists L' fs', vertices_to_polygon L vs = Some L' /\ all_faces L' = Some fs' /\
    orbit_walk L' (expand L vs (f_walk f)) /\
    length (expand L vs (f_walk f)) = (length (f_walk f) + ncorners L vs (f_walk f))%nat /\
    exists f' l1 l2, In f' fs' /\ expand L vs (f_walk f) = l1 ++ l2 /\ f_walk f' = l2 ++ l1.
Proof.
  intros Hwf Hnl Hcw E Hfin. assert (Hg : good L) by (split; assumption).
  destruct (old_face_listed L vs Hg Hcw fs f E Hfin) as (HO & fs' & Ef' & f' & l1 & l2 & Hf'in & _ & E1 & E2).
  exists (trunc_spec L vs), fs'. split; [apply vertices_to_polygon_spec; exact Hg|]. split; [exact Ef'|].
  split; [apply expand_orbit; assumption|]. split; [apply expand_length; assumption|].
  exists f', l1, l2. auto.
Qed.

Theorem truncate_old_plaquette_enlarged (L : lattice) (vs : option (list nat)) (ps : list plaquette) (p : plaquette) :
  wf_lattice L = true -> no_self_loops L = true -> all_turns_cw L vs = true ->
  find_all_plaquettes L = Some ps -> In p ps ->
  exists L' ps', vertices_to_polygon L vs = Some L' /\ find_all_plaquettes L' = Some ps' /\
    exists w l1 l2, orbit_walk L w /\ p = mk_plaquette L w /\ expand L vs w = l1 ++ l2 /\
      let p' := mk_plaquette L' (l2 ++ l1) in
      In p' ps' /\ n_sides p' = (n_sides p + ncorners L vs w)%nat.
Proof.
  intros Hwf Hnl Hcw E Hp. assert (Hg : good L) by (split; assumption).
  destruct (old_plaquette_enlarged L vs Hg Hcw ps p E Hp) as (ps' & E' & w & l1 & l2 & HO & Ew & E1 & Hin & Hn).
  exists (trunc_spec L vs), ps'. split; [apply vertices_to_polygon_spec; exact Hg|]. split; [exact E'|].
  exists w, l1, l2. cbv zeta. auto.
Qed.
