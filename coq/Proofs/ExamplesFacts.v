(* Proofs/ExamplesFacts.v — degrees and colourings of the generator models (Model/Examples.v), for ALL
   sizes: honeycomb / hex-square-oct are 3-regular, the square lattice is 4-regular, the hard-coded
   honeycomb colouring and the tiled tri-non colouring are proper 3-edge-colourings. *)
From Coq Require Import List ZArith Bool Arith Lia ZifyBool.
From Koala Require Import Gen.TilingGen Model.Lattice Model.Tiling Model.Examples Proofs.TilingFacts Proofs.TilingCount.
Import ListNotations.
Open Scope Z_scope.

(* the nested closures are the same function as _next_cell_number (the generated bodies coincide, or are
   equal after normalising mod-of-sums; this breaks, as it should, when one of the Python definitions is
   edited to compute something else) *)
Ltac closure_eq :=
  first [ reflexivity
        | unfold honeycomb_next_direction, hso_next_direction, py_next_cell_number; cbn [fst snd]; cbv zeta;
          mod_norm; first [ reflexivity | lia | ring ] ].
Lemma honeycomb_next_direction_eq n nv c s : honeycomb_next_direction n nv c s = py_next_cell_number n nv c s.
Proof. closure_eq. Qed.
Lemma hso_next_direction_eq n c s : hso_next_direction n c s = py_next_cell_number n n c s.
Proof. closure_eq. Qed.

Lemma cell_bij_ext N (f g i : Z -> Z) : (forall c, f c = g c) -> cell_bij N g i -> cell_bij N f i.
Proof.
  intros E (H1 & H2 & H3). split; [|split].
  - intros c Hc. rewrite E. now apply H1.
  - exact H2.
  - intros c m Hc Hm. rewrite E. now apply H3.
Qed.

Lemma honeycomb_nv_pos n : 1 <= n -> 1 <= honeycomb_nv n.
Proof.
  intros Hn. unfold honeycomb_nv.
  assert (3 <= Z.sqrt (12 * n * n)) by (apply Z.sqrt_le_square; nia).
  apply Z.div_le_lower_bound; lia.
Qed.


(* n_vertical = round(n / sqrt 3): honeycomb_nv n is the integer v with |v - n/sqrt3| <= 1/2, i.e.
   3 (2v-1)^2 <= 4 n^2 < 3 (2v+1)^2  (equality on the left is impossible, sqrt 3 being irrational: not proved) *)
Lemma honeycomb_nv_nearest n : 1 <= n ->
  let v := honeycomb_nv n in 3 * (2 * v - 1) * (2 * v - 1) <= 4 * n * n < 3 * (2 * v + 1) * (2 * v + 1).
Proof.
  intros Hn. cbv zeta. unfold honeycomb_nv.
  pose proof (Z.sqrt_spec (12 * n * n) ltac:(nia)) as Hs.
  set (s := Z.sqrt (12 * n * n)) in *.
  assert (0 <= s) by (apply Z.sqrt_nonneg).
  pose proof (Z.div_mod (s + 3) 6 ltac:(lia)) as Hd. pose proof (Z.mod_pos_bound (s + 3) 6 ltac:(lia)) as Hm.
  set (v := (s + 3) / 6) in *.
  assert (6 * v - 3 <= s <= 6 * v + 2) by lia.
  assert (3 <= s) by (apply Z.sqrt_le_square; nia).
  assert ((6 * v - 3) * (6 * v - 3) <= s * s) by nia.
  assert ((s + 1) * (s + 1) <= (6 * v + 3) * (6 * v + 3)) by nia.
  cbv zeta in Hs. clearbody v. clearbody s. split; lia.
Qed.

(* ------------------------------------------------------------------ blocks of edges laid out per cell *)
(* edges c |-> (a + K*h1 c, b + K*h2 c), all of one colour y: ends of colour x at vertex K*m + r *)
Lemma ends_block N K a b h1 h1i h2 h2i (f g : Z -> Z) m r :
  cell_bij N h1 h1i -> cell_bij N h2 h2i -> 0 <= a < K -> 0 <= b < K -> 0 <= r < K -> 0 <= m < N ->
  (forall c, f c = a + K * h1 c) -> (forall c, g c = b + K * h2 c) ->
  zsum (map (fun c => ends_at (K * m + r) (f c, g c)) (zrange N)) = b2z (a =? r) + b2z (b =? r).
Proof.
  intros B1 B2 Ha Hb Hr Hm Hf Hg. unfold ends_at. cbn [fst snd].
  rewrite zsum_map_add. f_equal.
  - rewrite (zsum_ext _ (fun c => b2z (a + K * h1 c =? K * m + r))) by (intros; now rewrite Hf).
    eapply zsum_affine_delta; eauto.
  - rewrite (zsum_ext _ (fun c => b2z (b + K * h2 c =? K * m + r))) by (intros; now rewrite Hg).
    eapply zsum_affine_delta; eauto.
Qed.

Lemma cnt_map_const {A} (E : A -> Z * Z) (y : Z) (l : list A) v x :
  cnt (map E l) (map (fun _ => y) l) v x = b2z (y =? x) * zsum (map (fun c => ends_at v (E c)) l).
Proof.
  unfold cnt. rewrite <- zsum_map_mul. induction l as [|a l IH]; [reflexivity|].
  cbn [map combine zsum fold_right fst snd]. unfold zsum in IH. rewrite IH. reflexivity.
Qed.

Lemma flat_map_const_repeat {A} (l : list A) (w : list Z) (y : Z) (k : nat) :
  w = repeat y k -> flat_map (fun _ => w) l = repeat y (length l * k).
Proof. intros ->. induction l; simpl; [reflexivity|]. rewrite IHl. now rewrite repeat_app. Qed.
Lemma map_const_repeat {A} (l : list A) (y : Z) : map (fun _ => y) l = repeat y (length l).
Proof. induction l; simpl; congruence. Qed.

  (* degree = sum over the three colours *)
  Lemma deg_cnt es col v : length es = length col -> (forall y, In y col -> 0 <= y <= 2) ->
    deg es v = cnt es col v 0 + cnt es col v 1 + cnt es col v 2.
  Proof.
    revert col. induction es as [|e es IH]; intros [|y col] Hl Hc; cbn [length] in Hl; try discriminate; [reflexivity|].
    assert (Hd : deg (e :: es) v = ends_at v e + deg es v) by reflexivity.
    assert (Hk : forall x, cnt (e :: es) (y :: col) v x = b2z (y =? x) * ends_at v e + cnt es col v x) by reflexivity.
    rewrite Hd, !Hk, (IH col) by (try lia; intros; apply Hc; simpl; auto).
    assert (0 <= y <= 2) by (apply Hc; simpl; auto).
    assert (Hy : y = 0 \/ y = 1 \/ y = 2) by lia.
    destruct Hy as [-> | [-> | ->]];
      change (0 =? 0) with true; change (1 =? 1) with true; change (2 =? 2) with true;
      change (0 =? 1) with false; change (0 =? 2) with false; change (1 =? 0) with false;
      change (1 =? 2) with false; change (2 =? 0) with false; change (2 =? 1) with false; cbn [b2z]; lia.
  Qed.

(* ------------------------------------------------------------------ honeycomb *)
Section Honeycomb.
  Variable n : Z.
  Hypothesis Hn : 1 <= n.
  Let nv := honeycomb_nv n.
  Let N := nv * n.
  Let cells := zrange N.

  Let Hnv : 1 <= nv. Proof. now apply honeycomb_nv_pos. Qed.
  Let HN : 0 <= N. Proof. unfold N. nia. Qed.

  Let bij_id : cell_bij N (fun c => c) (fun c => c). Proof. apply cell_bij_id. Qed.
  Let bij_next s : cell_bij N (fun c => honeycomb_next_direction n nv c s)
                            (fun c => py_next_cell_number n nv c (- fst s, - snd s)).
  Proof.
    apply cell_bij_ext with (g := fun c => py_next_cell_number n nv c s); [intros; apply honeycomb_next_direction_eq|].
    unfold N. rewrite Z.mul_comm. apply next_cell_bij; lia.
  Qed.

  (* the six kinds of edges, per cell *)
  Let e1 c := (0 + 4 * c, 1 + 4 * c).
  Let e2 c := (2 + 4 * c, 1 + 4 * c).
  Let e3 c := (2 + 4 * c, 3 + 4 * c).
  Let eh c := (2 + 4 * c, 1 + 4 * honeycomb_next_direction n nv c (1, 0)).
  Let ev c := (4 * honeycomb_next_direction n nv c (0, 1), 3 + 4 * c).
  Let ed c := (4 * honeycomb_next_direction n nv c (1, 1), 3 + 4 * c).

  Lemma honeycomb_edges_blocks :
    honeycomb_edges n = flat_map (fun c => [e1 c; e2 c; e3 c]) cells ++ map eh cells ++ map ev cells ++ map ed cells.
  Proof. reflexivity. Qed.

  Lemma honeycomb_coloring_blocks :
    honeycomb_coloring n = flat_map (fun _ => [0; 2; 0]) cells ++ map (fun _ => 1) cells ++ map (fun _ => 1) cells ++ map (fun _ => 2) cells.
  Proof.
    unfold honeycomb_coloring. fold nv N cells. f_equal.
    rewrite (flat_map_const_repeat cells [1; 1] 1 2 eq_refl).
    rewrite (flat_map_const_repeat cells [2] 2 1 eq_refl).
    rewrite !map_const_repeat, app_assoc, <- repeat_app. f_equal; [f_equal; lia|f_equal; lia].
  Qed.

  (* ends at vertex 4*m + r, per kind *)
  Lemma ends_e1 m r : 0 <= m < N -> 0 <= r < 4 ->
    zsum (map (fun c => ends_at (4 * m + r) (e1 c)) cells) = b2z (0 =? r) + b2z (1 =? r).
  Proof. intros. eapply ends_block with (h1 := fun c => c) (h2 := fun c => c); eauto; lia. Qed.
  Lemma ends_e2 m r : 0 <= m < N -> 0 <= r < 4 ->
    zsum (map (fun c => ends_at (4 * m + r) (e2 c)) cells) = b2z (2 =? r) + b2z (1 =? r).
  Proof. intros. eapply ends_block with (h1 := fun c => c) (h2 := fun c => c); eauto; lia. Qed.
  Lemma ends_e3 m r : 0 <= m < N -> 0 <= r < 4 ->
    zsum (map (fun c => ends_at (4 * m + r) (e3 c)) cells) = b2z (2 =? r) + b2z (3 =? r).
  Proof. intros. eapply ends_block with (h1 := fun c => c) (h2 := fun c => c); eauto; lia. Qed.
  Lemma ends_eh m r : 0 <= m < N -> 0 <= r < 4 ->
    zsum (map (fun c => ends_at (4 * m + r) (eh c)) cells) = b2z (2 =? r) + b2z (1 =? r).
  Proof.
    intros. eapply ends_block with (h1 := fun c => c) (h2 := fun c => honeycomb_next_direction n nv c (1, 0));
      eauto; try lia.
  Qed.
  Lemma ends_ev m r : 0 <= m < N -> 0 <= r < 4 ->
    zsum (map (fun c => ends_at (4 * m + r) (ev c)) cells) = b2z (0 =? r) + b2z (3 =? r).
  Proof.
    intros. eapply ends_block with (h1 := fun c => honeycomb_next_direction n nv c (0, 1)) (h2 := fun c => c);
      eauto; try lia.
  Qed.
  Lemma ends_ed m r : 0 <= m < N -> 0 <= r < 4 ->
    zsum (map (fun c => ends_at (4 * m + r) (ed c)) cells) = b2z (0 =? r) + b2z (3 =? r).
  Proof.
    intros. eapply ends_block with (h1 := fun c => honeycomb_next_direction n nv c (1, 1)) (h2 := fun c => c);
      eauto; try lia.
  Qed.

  Lemma cnt_internal v x :
    cnt (flat_map (fun c => [e1 c; e2 c; e3 c]) cells) (flat_map (fun _ => [0; 2; 0]) cells) v x
    = b2z (0 =? x) * zsum (map (fun c => ends_at v (e1 c)) cells)
      + b2z (2 =? x) * zsum (map (fun c => ends_at v (e2 c)) cells)
      + b2z (0 =? x) * zsum (map (fun c => ends_at v (e3 c)) cells).
  Proof.
    rewrite cnt_flat_map by reflexivity. rewrite <- !zsum_map_mul, <- !zsum_map_add.
    apply zsum_ext. intros c _. unfold cnt, zsum. cbn [combine map fold_right fst snd]. lia.
  Qed.

  (* every vertex sees each of the three colours exactly once *)
  Lemma honeycomb_cnt v x : 0 <= v < 4 * N -> 0 <= x <= 2 ->
    cnt (honeycomb_edges n) (honeycomb_coloring n) v x = 1.
  Proof.
    intros Hv Hx.
    pose proof (Z.div_mod v 4 ltac:(lia)) as Ev. pose proof (Z.mod_pos_bound v 4 ltac:(lia)) as Hr.
    assert (Hm : 0 <= v / 4 < N) by (split; [apply Z.div_pos; lia|apply Z.div_lt_upper_bound; lia]).
    rewrite honeycomb_edges_blocks, honeycomb_coloring_blocks.
    rewrite !cnt_app by (rewrite ?map_length; try reflexivity;
                         rewrite !flat_map_const_length with (k := 3%nat) by reflexivity; reflexivity).
    rewrite cnt_internal, !cnt_map_const. rewrite Ev.
    rewrite ends_e1, ends_e2, ends_e3, ends_eh, ends_ev, ends_ed by assumption.
    assert (Hr4 : v mod 4 = 0 \/ v mod 4 = 1 \/ v mod 4 = 2 \/ v mod 4 = 3) by lia.
    assert (Hx3 : x = 0 \/ x = 1 \/ x = 2) by lia.
    destruct Hr4 as [-> | [-> | [-> | ->]]]; destruct Hx3 as [-> | [-> | ->]]; reflexivity.
  Qed.

  Lemma honeycomb_edges_length : length (honeycomb_edges n) = length (honeycomb_coloring n).
  Proof.
    rewrite honeycomb_edges_blocks, honeycomb_coloring_blocks. rewrite !app_length, !map_length.
    rewrite !flat_map_const_length with (k := 3%nat) by reflexivity. reflexivity.
  Qed.

  Lemma honeycomb_cnt_other v x : ~ (0 <= x <= 2) -> cnt (honeycomb_edges n) (honeycomb_coloring n) v x = 0.
  Proof.
    intros Hx. unfold cnt. apply zsum_zero. intros [e y] Hin. cbn [fst snd].
    apply in_combine_r in Hin. rewrite honeycomb_coloring_blocks in Hin.
    assert (0 <= y <= 2).
    { rewrite !in_app_iff in Hin. destruct Hin as [H|[H|[H|H]]].
      - apply in_flat_map in H as (_ & _ & H). simpl in H. lia.
      - apply in_map_iff in H as (_ & <- & _). lia.
      - apply in_map_iff in H as (_ & <- & _). lia.
      - apply in_map_iff in H as (_ & <- & _). lia. }
    destruct (Z.eqb_spec y x); [lia|reflexivity].
  Qed.

  Theorem honeycomb_coloring_proper :
    proper_coloring (4 * N) (honeycomb_edges n) (honeycomb_coloring n) = true.
  Proof.
    apply proper_coloring_intro.
    - symmetry. apply honeycomb_edges_length.
    - intros y Hin. rewrite honeycomb_coloring_blocks in Hin.
      rewrite !in_app_iff in Hin. destruct Hin as [H|[H|[H|H]]].
      + apply in_flat_map in H as (_ & _ & H). simpl in H. lia.
      + apply in_map_iff in H as (_ & <- & _). lia.
      + apply in_map_iff in H as (_ & <- & _). lia.
      + apply in_map_iff in H as (_ & <- & _). lia.
    - intros v x Hv. destruct (Z_le_dec 0 x), (Z_le_dec x 2);
        try (rewrite honeycomb_cnt_other by lia; lia). rewrite honeycomb_cnt by lia. lia.
  Qed.

  Theorem honeycomb_degree v : 0 <= v < 4 * N -> zdegree (honeycomb_edges n) v = 3.
  Proof.
    intros Hv. rewrite zdegree_deg.
    destruct (proper_coloring_elim _ _ _ honeycomb_coloring_proper) as (_ & Hc & _).
    rewrite (deg_cnt _ (honeycomb_coloring n)) by (auto using honeycomb_edges_length).
    rewrite !honeycomb_cnt by lia. reflexivity.
  Qed.
End Honeycomb.

(* ------------------------------------------------------------------ hex-square-oct: 3-regular *)
Section HSO.
  Variable n : Z.
  Hypothesis Hn : 1 <= n.
  Let N := n * n.
  Let cells := zrange N.
  Let HN : 0 <= N. Proof. unfold N. nia. Qed.
  Let bij_id : cell_bij N (fun c => c) (fun c => c). Proof. apply cell_bij_id. Qed.
  Let bij_next s : cell_bij N (fun c => hso_next_direction n c s)
                            (fun c => py_next_cell_number n n c (- fst s, - snd s)).
  Proof.
    apply cell_bij_ext with (g := fun c => py_next_cell_number n n c s); [intros; apply hso_next_direction_eq|].
    unfold N. apply next_cell_bij; lia.
  Qed.

  Lemma hso_internal_deg m r : 0 <= m < N -> 0 <= r < 6 ->
    deg (flat_map (fun c => [(0 + 6 * c, 1 + 6 * c); (1 + 6 * c, 2 + 6 * c); (2 + 6 * c, 3 + 6 * c);
                             (3 + 6 * c, 4 + 6 * c); (4 + 6 * c, 5 + 6 * c); (5 + 6 * c, 0 + 6 * c)]) cells) (6 * m + r) = 2.
  Proof.
    intros Hm Hr. rewrite deg_flat_map.
    rewrite (zsum_ext _ (fun c => ends_at (6 * m + r) (0 + 6 * c, 1 + 6 * c) + (ends_at (6 * m + r) (1 + 6 * c, 2 + 6 * c)
              + (ends_at (6 * m + r) (2 + 6 * c, 3 + 6 * c) + (ends_at (6 * m + r) (3 + 6 * c, 4 + 6 * c)
              + (ends_at (6 * m + r) (4 + 6 * c, 5 + 6 * c) + ends_at (6 * m + r) (5 + 6 * c, 0 + 6 * c)))))))
      by (intros; unfold deg, zsum; cbn [map fold_right]; lia).
    rewrite !zsum_map_add.
    rewrite !(fun a b => ends_block N 6 a b (fun c => c) (fun c => c) (fun c => c) (fun c => c) (fun c => a + 6 * c) (fun c => b + 6 * c) m r)
      by (auto; lia).
    assert (Hr6 : r = 0 \/ r = 1 \/ r = 2 \/ r = 3 \/ r = 4 \/ r = 5) by lia.
    destruct Hr6 as [-> | [-> | [-> | [-> | [-> | ->]]]]]; reflexivity.
  Qed.

  Theorem hso_degree v : 0 <= v < 6 * N -> zdegree (hso_edges n) v = 3.
  Proof.
    intros Hv. rewrite zdegree_deg.
    pose proof (Z.div_mod v 6 ltac:(lia)) as Ev. pose proof (Z.mod_pos_bound v 6 ltac:(lia)) as Hr.
    assert (Hm : 0 <= v / 6 < N) by (split; [apply Z.div_pos; lia|apply Z.div_lt_upper_bound; lia]).
    unfold hso_edges. fold N cells. rewrite !deg_app, !deg_map. rewrite Ev.
    rewrite hso_internal_deg by assumption.
    rewrite (ends_block N 6 4 2 (fun c => c) (fun c => c) (fun c => hso_next_direction n c (1, 0)) _ _ _ (v / 6) (v mod 6))
      by (auto; try lia; apply (bij_next (1, 0))).
    rewrite (ends_block N 6 1 5 (fun c => hso_next_direction n c (1, 0)) _ (fun c => c) (fun c => c) _ _ (v / 6) (v mod 6))
      by (auto; try lia; apply (bij_next (1, 0))).
    rewrite (ends_block N 6 0 3 (fun c => hso_next_direction n c (0, 1)) _ (fun c => c) (fun c => c) _ _ (v / 6) (v mod 6))
      by (auto; try lia; try apply (bij_next (0, 1)); intros; lia).
    assert (Hr6 : v mod 6 = 0 \/ v mod 6 = 1 \/ v mod 6 = 2 \/ v mod 6 = 3 \/ v mod 6 = 4 \/ v mod 6 = 5) by lia.
    destruct Hr6 as [-> | [-> | [-> | [-> | [-> | ->]]]]]; reflexivity.
  Qed.
End HSO.

(* ------------------------------------------------------------------ square lattice: 4-regular *)
Section Square.
  Variables nx ny : Z.
  Hypothesis Hx : 1 <= nx.
  Hypothesis Hy : 1 <= ny.
  Let N := nx * ny.

  (* the two "previous vertex" maps are _next_cell_number with the roles of the axes exchanged
     (vertex c = i*ny + j, i = c / ny, j = c mod ny) *)
  Lemma square_prev_x c : 0 <= c < N ->
    ((c / ny - 1) mod nx) * ny + c mod ny = py_next_cell_number ny nx c (0, -1).
  Proof.
    intros Hc. pose proof (Z.mod_pos_bound c ny ltac:(lia)).
    rewrite (Z.div_mod c ny) at 3 by lia. rewrite (Z.mul_comm ny (c / ny)).
    rewrite next_cell_number_spec by lia. rewrite Z.add_0_r, (Z.mod_small (c mod ny) ny) by lia. reflexivity.
  Qed.
  Lemma square_prev_y c : 0 <= c < N ->
    (c / ny) * ny + (c mod ny - 1) mod ny = py_next_cell_number ny nx c (-1, 0).
  Proof.
    intros Hc. pose proof (Z.mod_pos_bound c ny ltac:(lia)).
    assert (0 <= c / ny < nx) by (split; [apply Z.div_pos; lia|apply Z.div_lt_upper_bound; unfold N in Hc; lia]).
    rewrite (Z.div_mod c ny) at 3 by lia. rewrite (Z.mul_comm ny (c / ny)).
    rewrite next_cell_number_spec by lia. rewrite Z.add_0_r, (Z.mod_small (c / ny) nx) by lia. reflexivity.
  Qed.

  Theorem square_degree v : 0 <= v < N -> zdegree (square_edges nx ny) v = 4.
  Proof.
    intros Hv. rewrite zdegree_deg. unfold square_edges. fold N. rewrite deg_app, !deg_map.
    assert (B1 : cell_bij N (fun c => py_next_cell_number ny nx c (0, -1)) (fun c => py_next_cell_number ny nx c (- fst (0, -1), - snd (0, -1))))
      by (unfold N; rewrite Z.mul_comm; apply next_cell_bij; lia).
    assert (B2 : cell_bij N (fun c => py_next_cell_number ny nx c (-1, 0)) (fun c => py_next_cell_number ny nx c (- fst (-1, 0), - snd (-1, 0))))
      by (unfold N; rewrite Z.mul_comm; apply next_cell_bij; lia).
    replace v with (1 * v + 0) by lia.
    rewrite (zsum_ext _ (fun c => ends_at (1 * v + 0) (0 + 1 * py_next_cell_number ny nx c (0, -1), 0 + 1 * c))).
    2:{ intros c Hc. apply In_zrange in Hc. rewrite square_prev_x by assumption. f_equal. f_equal; lia. }
    rewrite (zsum_ext (fun c => ends_at _ (c / ny * ny + _, c)) (fun c => ends_at (1 * v + 0) (0 + 1 * py_next_cell_number ny nx c (-1, 0), 0 + 1 * c))).
    2:{ intros c Hc. apply In_zrange in Hc. rewrite square_prev_y by assumption. f_equal. f_equal; lia. }
    rewrite (ends_block N 1 0 0 _ _ (fun c => c) (fun c => c) _ _ v 0 B1 (cell_bij_id N)) by (auto; lia).
    rewrite (ends_block N 1 0 0 _ _ (fun c => c) (fun c => c) _ _ v 0 B2 (cell_bij_id N)) by (auto; lia).
    reflexivity.
  Qed.
End Square.

(* ------------------------------------------------------------------ tri-non: colouring and degree for all (nx, ny) *)
Lemma tri_non_cell_wf : wf_cell tri_non_cell = true.
Proof. reflexivity. Qed.
Lemma tri_non_cell_proper : proper_coloring (n_sites tri_non_cell) (uc_edges tri_non_cell) [1; 2; 0; 1; 2; 0] = true.
Proof. reflexivity. Qed.

Theorem tri_non_coloring_proper nx ny : 1 <= nx -> 1 <= ny ->
  proper_coloring (nx * ny * 4) (z_edges (tri_non nx ny)) (tri_non_coloring nx ny) = true.
Proof.
  intros Hx Hy. apply (tile_coloring_proper tri_non_cell [1; 2; 0; 1; 2; 0] nx ny Hx Hy tri_non_cell_wf tri_non_cell_proper).
Qed.

(* each colour occurs exactly once at every site of the tri-non cell, hence of every tiling: degree 3 *)
Theorem tri_non_degree nx ny v : 1 <= nx -> 1 <= ny -> 0 <= v < nx * ny * 4 ->
  zdegree (z_edges (tri_non nx ny)) v = 3.
Proof.
  intros Hx Hy Hv. rewrite zdegree_deg.
  pose proof (tri_non_coloring_proper nx ny Hx Hy) as Hp.
  destruct (proper_coloring_elim _ _ _ Hp) as (Hl & Hc & _).
  unfold tri_non, tri_non_coloring in *. cbn [z_edges tile_unit_cell] in *.
  rewrite (deg_cnt _ (tile_coloring [1; 2; 0; 1; 2; 0] nx ny)) by (auto; lia).
  pose proof (Z.div_mod v 4 ltac:(lia)) as Ev. pose proof (Z.mod_pos_bound v 4 ltac:(lia)) as Hr.
  assert (Hm : 0 <= v / 4 < nx * ny) by (split; [apply Z.div_pos; lia|apply Z.div_lt_upper_bound; lia]).
  set (m := v / 4) in *. set (r := v mod 4) in *.
  replace v with (n_sites tri_non_cell * m + r) by (change (n_sites tri_non_cell) with 4; lia).
  rewrite !cnt_tile by (auto; change (n_sites tri_non_cell) with 4; lia).
  assert (Hr4 : r = 0 \/ r = 1 \/ r = 2 \/ r = 3) by lia.
  destruct Hr4 as [-> | [-> | [-> | ->]]]; reflexivity.
Qed.
