(* Proofs/DelaunayFacts.v — lemmas about Model/Delaunay.v (C03).
   incircle_correct / circumcentre_equidistant: the exact predicates mean what they should (over Q);
   check_delaunay_sound / check_dual_sound: what the certificate checkers establish. *)
From Coq Require Import List ZArith Bool Arith Lia ZifyBool QArith Psatz Permutation.
From Koala Require Import Model.Lattice Model.Delaunay.
Import ListNotations.
Open Scope Z_scope.


(* the in-circle determinant in terms of the circumcentre offset u = cc_off a b c and o = orient2d a b c:
   4 o incircle(a,b,c,d) = |u|^2 - |2 o (d - a) - u|^2 *)
Lemma incircle_identity : forall a b c d : pt,
  4 * orient2d a b c * incircle a b c d =
  cc_r2num a b c
  - (2 * orient2d a b c * (fst d - fst a) - fst (cc_off a b c)) * (2 * orient2d a b c * (fst d - fst a) - fst (cc_off a b c))
  - (2 * orient2d a b c * (snd d - snd a) - snd (cc_off a b c)) * (2 * orient2d a b c * (snd d - snd a) - snd (cc_off a b c)).
Proof.
  intros [ax ay] [bx by_] [cx cy] [dx dy].
  cbv [incircle cc_r2num cc_off orient2d fst snd]. ring.
Qed.


Lemma qdist2_cc : forall (a b c p : pt), 0 < orient2d a b c ->
  let o2 := 2 * orient2d a b c in
  let u := cc_off a b c in
  (qdist2 (qpt p) (circumcentre a b c) ==
   inject_Z ((o2 * (fst p - fst a) - fst u) * (o2 * (fst p - fst a) - fst u)
           + (o2 * (snd p - snd a) - snd u) * (o2 * (snd p - snd a) - snd u)) / inject_Z (o2 * o2))%Q.
Proof.
  intros a b c p Ho o2 u.
  assert (Hpos : 0 < o2) by (unfold o2; lia).
  unfold qdist2, circumcentre, qpt; fold o2; fold u. cbn [fst snd].
  set (D := Z.to_pos o2).
  assert (HD : Zpos D = o2) by (unfold D; rewrite Z2Pos.id; lia).
  unfold Qeq, Qdiv, Qinv, inject_Z; cbn [Qnum Qden].
  destruct (o2 * o2) eqn:E; try lia.
  repeat (unfold Qmult, Qplus, Qminus, Qopp; cbn [Qnum Qden]). rewrite ?Pos2Z.inj_mul, ?HD.
  assert (Zpos p0 = o2 * o2) by lia. rewrite H. ring.
Qed.

Lemma qdiv_lt : forall x y k : Z, 0 < k ->
  ((inject_Z x / inject_Z k < inject_Z y / inject_Z k)%Q <-> x < y).
Proof.
  intros x y k Hk. unfold Qlt, Qdiv, Qmult, Qinv, inject_Z; cbn [Qnum Qden].
  destruct k; try lia. cbn [Qnum Qden]. nia.
Qed.

Lemma qdiv_eq : forall x y k : Z, 0 < k ->
  ((inject_Z x / inject_Z k == inject_Z y / inject_Z k)%Q <-> x = y).
Proof.
  intros x y k Hk. unfold Qeq, Qdiv, Qmult, Qinv, inject_Z; cbn [Qnum Qden].
  destruct k; try lia. cbn [Qnum Qden]. nia.
Qed.

Lemma incircle_correct : forall a b c d : pt, 0 < orient2d a b c ->
  (0 < incircle a b c d <->
   (qdist2 (qpt d) (circumcentre a b c) < qdist2 (qpt a) (circumcentre a b c))%Q).
Proof.
  intros a b c d Ho.
  rewrite (qdist2_cc a b c d Ho), (qdist2_cc a b c a Ho).
  rewrite qdiv_lt by nia.
  pose proof (incircle_identity a b c d) as Hid. unfold cc_r2num in Hid.
  set (o := orient2d a b c) in *. set (u := cc_off a b c) in *.
  set (I := incircle a b c d) in *.
  replace (fst a - fst a) with 0 by ring. replace (snd a - snd a) with 0 by ring.
  nia.
Qed.

Lemma circumcentre_equidistant : forall a b c : pt, 0 < orient2d a b c ->
  (qdist2 (qpt b) (circumcentre a b c) == qdist2 (qpt a) (circumcentre a b c))%Q /\
  (qdist2 (qpt c) (circumcentre a b c) == qdist2 (qpt a) (circumcentre a b c))%Q.
Proof.
  intros a b c Ho.
  rewrite (qdist2_cc a b c b Ho), (qdist2_cc a b c c Ho), (qdist2_cc a b c a Ho).
  rewrite !qdiv_eq by nia.
  destruct a as [ax ay], b as [bx by_], c as [cx cy].
  cbv [cc_off orient2d fst snd]. split; ring.
Qed.


(* ---------- ranges ---------- *)
Lemma zrange_In : forall n lo x, In x (zrange lo n) <-> lo <= x < lo + Z.of_nat n.
Proof.
  induction n as [|n IH]; intros lo x; cbn [zrange In].
  - lia.
  - rewrite IH. lia.
Qed.

Lemma window_In : forall w x, 0 <= w -> (In x (window w) <-> - w <= x <= w).
Proof. intros w x Hw. unfold window. rewrite zrange_In. lia. Qed.

(* ---------- far lemma: outside the verified box => not strictly inside the circumdisc ---------- *)
Lemma far_x : forall a b c bx x y, 0 < orient2d a b c -> box_ok a b c bx = true ->
  x_out bx x = true -> incircle a b c (x, y) <= 0.
Proof.
  intros a b c [[[lox hix] loy] hiy] x y Ho Hb Hx.
  pose proof (incircle_identity a b c (x, y)) as Hid. cbn [fst snd] in Hid.
  unfold box_ok in Hb. unfold x_out in Hx.
  set (o := orient2d a b c) in *. set (u := cc_off a b c) in *. set (r2 := cc_r2num a b c) in *.
  set (I := incircle a b c (x, y)) in *.
  set (X := 2 * o * (x - fst a) - fst u) in *.
  set (Y := 2 * o * (y - snd a) - snd u) in *.
  assert (HX : r2 < X * X).
  { destruct (x <? lox) eqn:E1.
    - set (lx := fst u - 2 * o * (lox - fst a)) in *.
      assert (0 <= lx /\ r2 <= lx * lx) by lia.
      assert (lx < - X) by (unfold lx, X; nia). nia.
    - set (hx := 2 * o * (hix - fst a) - fst u) in *.
      assert (0 <= hx /\ r2 <= hx * hx) by lia.
      assert (hx < X) by (unfold hx, X; nia). nia. }
  assert (0 <= Y * Y) by nia. nia.
Qed.

Lemma far_y : forall a b c bx x y, 0 < orient2d a b c -> box_ok a b c bx = true ->
  y_out bx y = true -> incircle a b c (x, y) <= 0.
Proof.
  intros a b c [[[lox hix] loy] hiy] x y Ho Hb Hy.
  pose proof (incircle_identity a b c (x, y)) as Hid. cbn [fst snd] in Hid.
  unfold box_ok in Hb. unfold y_out in Hy.
  set (o := orient2d a b c) in *. set (u := cc_off a b c) in *. set (r2 := cc_r2num a b c) in *.
  set (I := incircle a b c (x, y)) in *.
  set (X := 2 * o * (x - fst a) - fst u) in *.
  set (Y := 2 * o * (y - snd a) - snd u) in *.
  assert (HY : r2 < Y * Y).
  { destruct (y <? loy) eqn:E1.
    - set (ly := snd u - 2 * o * (loy - snd a)) in *.
      assert (0 <= ly /\ r2 <= ly * ly) by lia.
      assert (ly < - Y) by (unfold ly, Y; nia). nia.
    - set (hy := 2 * o * (hiy - snd a) - snd u) in *.
      assert (0 <= hy /\ r2 <= hy * hy) by lia.
      assert (hy < Y) by (unfold hy, Y; nia). nia. }
  assert (0 <= X * X) by nia. nia.
Qed.

(* every periodic image of a seed of [0,S)^2, at ANY integer offset *)
Lemma seed_ok_all : forall S w a b c bx p,
  0 < S -> 0 <= w -> 0 < orient2d a b c -> box_ok a b c bx = true -> box_in_window S w bx = true ->
  0 <= fst p < S -> 0 <= snd p < S ->
  seed_ok S w a b c bx p = true ->
  forall ox oy : Z, incircle a b c (fst p + S * ox, snd p + S * oy) <= 0.
Proof.
  intros S w a b c bx p HS Hw Ho Hb Hwin Hpx Hpy Hs ox oy.
  destruct (x_out bx (fst p + S * ox)) eqn:Ex; [ now apply far_x with (bx := bx) |].
  destruct (y_out bx (snd p + S * oy)) eqn:Ey; [ now apply far_y with (bx := bx) |].
  destruct bx as [[[lox hix] loy] hiy].
  unfold box_in_window in Hwin. unfold x_out in Ex. unfold y_out in Ey.
  assert (Hox : - w <= ox <= w) by nia.
  assert (Hoy : - w <= oy <= w) by nia.
  unfold seed_ok in Hs. rewrite forallb_forall in Hs.
  specialize (Hs ox (proj2 (window_In w ox Hw) Hox)). cbn beta zeta in Hs.
  unfold x_out in Hs. 
  apply orb_true_iff in Hs. destruct Hs as [Hs | Hs]; [ lia |].
  rewrite forallb_forall in Hs.
  specialize (Hs oy (proj2 (window_In w oy Hw) Hoy)). cbn beta zeta in Hs.
  unfold y_out in Hs.
  apply orb_true_iff in Hs. destruct Hs as [Hs | Hs]; lia.
Qed.


(* ---------- decidable equalities ---------- *)
Lemma pt_eqb_eq : forall p q : pt, pt_eqb p q = true <-> p = q.
Proof. intros [a b] [c d]. unfold pt_eqb; cbn [fst snd]. split; intro H; [ f_equal; lia | inversion H; lia ]. Qed.

Lemma skey_eqb_eq : forall k l : skey, skey_eqb k l = true <-> k = l.
Proof.
  intros [[i j] d] [[i' j'] d']. unfold skey_eqb; cbn [fst snd].
  rewrite !andb_true_iff, !Nat.eqb_eq, pt_eqb_eq.
  split; [ intros [[-> ->] ->]; reflexivity | intro H; inversion H; auto ].
Qed.

Lemma natpair_eqb_eq : forall a b : nat * nat, natpair_eqb a b = true <-> a = b.
Proof.
  intros [a1 a2] [b1 b2]. unfold natpair_eqb; cbn [fst snd].
  rewrite andb_true_iff, !Nat.eqb_eq. split; [ intros [-> ->]; reflexivity | intro H; inversion H; auto ].
Qed.

Lemma nodup_by_NoDup : forall (A : Type) (eqb : A -> A -> bool),
  (forall x, eqb x x = true) -> forall l, nodup_by eqb l = true -> NoDup l.
Proof.
  intros A eqb Hrefl. induction l as [|x r IH]; intro H; [ constructor |].
  cbn [nodup_by] in H. apply andb_true_iff in H. destruct H as [H1 H2].
  constructor; [| now apply IH ].
  intro Hin. apply negb_true_iff in H1.
  assert (existsb (eqb x) r = true) by (apply existsb_exists; exists x; auto). congruence.
Qed.

Lemma nodupb_NoDup : forall l : list nat, nodupb l = true -> NoDup l.
Proof.
  induction l as [|x r IH]; intro H; [ constructor |].
  cbn [nodupb] in H. apply andb_true_iff in H. destruct H as [H1 H2].
  constructor; [| now apply IH ].
  intro Hin. apply negb_true_iff in H1.
  assert (existsb (Nat.eqb x) r = true) by (apply existsb_exists; exists x; split; [ auto | apply Nat.eqb_refl ]). congruence.
Qed.

(* ---------- check_delaunay ---------- *)
(* what a validated certificate entry means *)
Definition tri_delaunay (S : Z) (pts : list pt) (t : tri) : Prop :=
  let a := site_pos S pts (t_a t) in let b := site_pos S pts (t_b t) in let c := site_pos S pts (t_c t) in
  (s_idx (t_a t) < length pts)%nat /\ (s_idx (t_b t) < length pts)%nat /\ (s_idx (t_c t) < length pts)%nat /\
  0 < orient2d a b c /\
  forall (p : pt) (ox oy : Z), In p pts -> incircle a b c (fst p + S * ox, snd p + S * oy) <= 0.

Lemma pts_in_cell_spec : forall S pts, pts_in_cell S pts = true ->
  forall p, In p pts -> 0 <= fst p < S /\ 0 <= snd p < S.
Proof. intros S pts H p Hp. unfold pts_in_cell in H. rewrite forallb_forall in H. specialize (H p Hp). lia. Qed.

Lemma tri_ok_sound : forall S w pts t bx,
  0 < S -> 0 <= w -> pts_in_cell S pts = true ->
  tri_ok S w pts (t, bx) = true -> tri_delaunay S pts t.
Proof.
  intros S w pts t bx HS Hw Hcell H.
  unfold tri_ok, tri_pts in H.
  repeat (apply andb_true_iff in H; destruct H as [H ?]).
  unfold tri_delaunay, site_wf in *. repeat split; try lia.
  intros p ox oy Hp.
  destruct (pts_in_cell_spec S pts Hcell p Hp) as [Hpx Hpy].
  match goal with Hs : forallb _ pts = true |- _ => rewrite forallb_forall in Hs; specialize (Hs p Hp) end.
  eapply seed_ok_all with (w := w) (bx := bx); eauto; lia.
Qed.

Theorem check_delaunay_sound : forall S w pts C,
  check_delaunay S w pts C = true ->
  0 < S /\
  (forall p, In p pts -> 0 <= fst p < S /\ 0 <= snd p < S) /\
  (forall t bx, In (t, bx) C -> tri_delaunay S pts t) /\
  NoDup (all_sides C) /\
  (forall k, In k (all_sides C) -> In (skey_rev k) (all_sides C)) /\
  length C = (2 * length pts)%nat /\
  area2_sum S pts C = 2 * S * S.
Proof.
  intros S w pts C H. unfold check_delaunay in H.
  repeat (apply andb_true_iff in H; destruct H as [H ?]).
  assert (HS : 0 < S) by lia. assert (Hw : 0 <= w) by lia.
  split; [ exact HS |].
  split; [ now apply pts_in_cell_spec |].
  split.
  { intros t bx Hin.
    match goal with Hf : forallb (tri_ok S w pts) C = true |- _ => rewrite forallb_forall in Hf; specialize (Hf _ Hin) end.
    eapply tri_ok_sound; eauto. }
  match goal with Hp : sides_paired C = true |- _ => unfold sides_paired in Hp; apply andb_true_iff in Hp; destruct Hp as [Hp1 Hp2] end.
  split.
  { apply nodup_by_NoDup with (eqb := skey_eqb); [ intro x; now apply skey_eqb_eq | exact Hp1 ]. }
  split.
  { intros k Hk. rewrite forallb_forall in Hp2. specialize (Hp2 k Hk).
    apply existsb_exists in Hp2. destruct Hp2 as [y [Hy1 Hy2]]. apply skey_eqb_eq in Hy2. now subst. }
  split; lia.
Qed.


(* ---------- check_dual ---------- *)
Definition in_cell_P (S : Z) (r : pt * Z) : Prop :=
  0 < snd r /\ 0 < fst (fst r) <= snd r * S /\ 0 < snd (fst r) <= snd r * S.
Definition pos_close_P (tolS : Z) (p : pt) (r : pt * Z) : Prop :=
  Z.abs (snd r * fst p - fst (fst r)) <= snd r * tolS /\ Z.abs (snd r * snd p - snd (fst r)) <= snd r * tolS.

(* site p is site p' translated by the cell offset cr *)
Definition site_shift (p p' : site) (cr : pt) : Prop :=
  s_idx p = s_idx p' /\ fst (s_off p') + fst cr = fst (s_off p) /\ snd (s_off p') + snd cr = snd (s_off p).
(* side s of t, traversed p -> q, is side s' of (t' translated by cr) traversed q -> p *)
Definition side_shared (t t' : tri) (cr : pt) (s s' : nat) : Prop :=
  site_shift (fst (tri_side t s)) (snd (tri_side t' s')) cr /\
  site_shift (snd (tri_side t s)) (fst (tri_side t' s')) cr.

Lemma site_shift_pos : forall S pts p p' cr, site_shift p p' cr ->
  site_pos S pts p = (fst (site_pos S pts p') + S * fst cr, snd (site_pos S pts p') + S * snd cr).
Proof.
  intros S pts [i o] [i' o'] cr [Hi [Hx Hy]]. unfold site_pos, s_idx, s_off in *. cbn [fst snd] in *.
  subst i'. f_equal; nia.
Qed.

Lemma site_shift_eqb_spec : forall p p' cr, site_shift_eqb p p' cr = true -> site_shift p p' cr.
Proof. intros p p' cr H. unfold site_shift_eqb in H. unfold site_shift. lia. Qed.

Lemma sides_match_spec : forall t t' cr s s', sides_match t t' cr s s' = true -> side_shared t t' cr s s'.
Proof.
  intros t t' cr s s' H. unfold sides_match in H. unfold side_shared.
  destruct (tri_side t s) as [p q]. destruct (tri_side t' s') as [q' p']. cbn [fst snd].
  apply andb_true_iff in H. destruct H as [H1 H2].
  split; now apply site_shift_eqb_spec.
Qed.

Lemma find_match_spec : forall t t' cr s s', find_match t t' cr = Some (s, s') ->
  (s < 3)%nat /\ (s' < 3)%nat /\ side_shared t t' cr s s'.
Proof.
  intros t t' cr s s' H. unfold find_match in H. apply find_some in H. destruct H as [Hin Hm].
  cbn [fst snd] in Hm. apply sides_match_spec in Hm.
  unfold side_pairs in Hin. cbn [In] in Hin.
  repeat (destruct Hin as [Hin | Hin]; [ inversion Hin; subst; split; [ lia | split; [ lia | exact Hm ] ] |]).
  destruct Hin.
Qed.

Lemma used_sides_spec : forall C vt es crs us,
  used_sides C vt es crs = Some us ->
  length us = (2 * length es)%nat /\
  forall e, (e < length es)%nat ->
    let u := fst (nth e es (0, 0)%nat) in let v := snd (nth e es (0, 0)%nat) in
    exists s s', (s < 3)%nat /\ (s' < 3)%nat /\
      nth (2 * e) us (0, 0)%nat = (nth u vt 0%nat, s) /\
      nth (2 * e + 1) us (0, 0)%nat = (nth v vt 0%nat, s') /\
      side_shared (nth_tri C (nth u vt 0%nat)) (nth_tri C (nth v vt 0%nat)) (nth e crs (0, 0)) s s'.
Proof.
  intros C vt. induction es as [|[u v] es IH]; intros crs us H.
  - cbn in H. inversion H; subst. split; [ reflexivity | intros e He; cbn in He; lia ].
  - cbn [used_sides] in H. destruct crs as [|cr crs]; [ discriminate |].
    destruct (find_match (nth_tri C (nth u vt 0%nat)) (nth_tri C (nth v vt 0%nat)) cr) as [[s s']|] eqn:Ef; [| discriminate ].
    destruct (used_sides C vt es crs) as [r|] eqn:Er; [| discriminate ].
    inversion H; subst us. destruct (IH crs r Er) as [Hlen Hall].
    split; [ cbn [length]; lia |].
    intros e He. destruct e as [|e].
    + cbn [nth fst snd]. destruct (find_match_spec _ _ _ _ _ Ef) as [Hs [Hs' Hsh]].
      exists s, s'. split; [ exact Hs |]. split; [ exact Hs' |]. split; [ reflexivity |]. split; [ reflexivity | exact Hsh ].
    + cbn [length] in He. assert (He' : (e < length es)%nat) by lia.
      specialize (Hall e He'). cbn zeta in Hall. destruct Hall as [s1 [s1' [H1 [H2 [H3 [H4 H5]]]]]].
      cbn [nth]. exists s1, s1'. split; [ exact H1 |]. split; [ exact H2 |]. split; [| split; [| exact H5 ] ].
      * replace (2 * S e)%nat with (S (S (2 * e))) by lia. cbn [nth]. exact H3.
      * replace (2 * S e + 1)%nat with (S (S (2 * e + 1))) by lia. cbn [nth]. exact H4.
Qed.

Lemma used_sides_range : forall C vt n es crs us,
  used_sides C vt es crs = Some us ->
  (forall e, In e es -> (fst e < length vt)%nat /\ (snd e < length vt)%nat) ->
  (forall i, In i vt -> (i < n)%nat) ->
  forall x, In x us -> (fst x < n)%nat /\ (snd x < 3)%nat.
Proof.
  intros C vt n. induction es as [|[u v] es IH]; intros crs us H Hwf Hvt x Hx.
  - cbn in H. inversion H; subst. destruct Hx.
  - cbn [used_sides] in H. destruct crs as [|cr crs]; [ discriminate |].
    destruct (find_match (nth_tri C (nth u vt 0%nat)) (nth_tri C (nth v vt 0%nat)) cr) as [[s s']|] eqn:Ef; [| discriminate ].
    destruct (used_sides C vt es crs) as [r|] eqn:Er; [| discriminate ].
    inversion H; subst us. destruct (find_match_spec _ _ _ _ _ Ef) as [Hs [Hs' _]].
    destruct (Hwf (u, v) (or_introl eq_refl)) as [Hu Hv]. cbn [fst snd] in Hu, Hv.
    destruct Hx as [Hx | [Hx | Hx]].
    + subst x. cbn [fst snd]. split; [ apply Hvt, nth_In; exact Hu | exact Hs ].
    + subst x. cbn [fst snd]. split; [ apply Hvt, nth_In; exact Hv | exact Hs' ].
    + eapply IH; eauto. intros e He. apply Hwf. now right.
Qed.

Lemma combine_nth_In : forall (A B : Type) (l : list A) (l' : list B) n a b,
  (n < length l)%nat -> (n < length l')%nat -> In (nth n l a, nth n l' b) (combine l l').
Proof.
  intros A B. induction l as [|x l IH]; intros l' n a b H1 H2; [ cbn in H1; lia |].
  destruct l' as [|y l']; [ cbn in H2; lia |].
  destruct n as [|n]; cbn; [ now left | right; apply IH; cbn in *; lia ].
Qed.

Lemma wf_lattice_edges : forall L, wf_lattice L = true ->
  forall e, In e (edges L) -> (fst e < nV L)%nat /\ (snd e < nV L)%nat.
Proof.
  intros L H e He. unfold wf_lattice in H. apply andb_true_iff in H. destruct H as [_ H].
  rewrite forallb_forall in H. specialize (H e He). unfold wf_edge in H. lia.
Qed.

Definition tri_of (C : list (tri * box)) (vt : list nat) (v : nat) : tri := nth_tri C (nth v vt 0%nat).
Definition tri_ref (S : Z) (shift : bool) (pts : list pt) (t : tri) : pt * Z :=
  ref_point shift (site_pos S pts (t_a t)) (site_pos S pts (t_b t)) (site_pos S pts (t_c t)).

Theorem check_dual_sound : forall S tolS shift pts C L vt,
  check_dual S tolS shift pts C L vt = true ->
  wf_lattice L = true /\ scale L = S /\
  (* vertices <-> triangles: vt is a bijection {0..nV-1} -> {0..|C|-1} *)
  length vt = nV L /\ nV L = length C /\ NoDup vt /\ (forall i, In i vt -> (i < length C)%nat) /\
  (* every triangle is positively oriented and its reference point lies in the unit cell (0,1]^2 *)
  (forall t bx, In (t, bx) C ->
     0 < orient2d (site_pos S pts (t_a t)) (site_pos S pts (t_b t)) (site_pos S pts (t_c t)) /\
     in_cell_P S (tri_ref S shift pts t)) /\
  (* every vertex sits (within tolS) at the reference point of its triangle *)
  (forall v, (v < nV L)%nat -> pos_close_P tolS (pos_at L v) (tri_ref S shift pts (tri_of C vt v))) /\
  (2 * nE L = 3 * length C)%nat /\
  (* every edge is dual to a side shared by the triangles of its two ends, offset = crossing;
     the (triangle, side) slots used by the 2E edge ends are pairwise distinct and exhaust all 3|C| slots *)
  exists us, used_sides C vt (edges L) (crossing L) = Some us /\ NoDup us /\
    (forall e, (e < nE L)%nat ->
       exists s s', (s < 3)%nat /\ (s' < 3)%nat /\
         nth (2 * e) us (0, 0)%nat = (nth (fst (edge_at L e)) vt 0%nat, s) /\
         nth (2 * e + 1) us (0, 0)%nat = (nth (snd (edge_at L e)) vt 0%nat, s') /\
         side_shared (tri_of C vt (fst (edge_at L e))) (tri_of C vt (snd (edge_at L e))) (cross_at L e) s s') /\
    (forall t s, (t < length C)%nat -> (s < 3)%nat -> In (t, s) us).
Proof.
  intros S tolS shift pts C L vt H. unfold check_dual in H.
  destruct (used_sides C vt (edges L) (crossing L)) as [us|] eqn:Eus; [| rewrite andb_false_r in H; discriminate ].
  apply andb_true_iff in H; destruct H as [H Hnd].
  apply andb_true_iff in H; destruct H as [H Hne].
  apply andb_true_iff in H; destruct H as [H Hpos].
  apply andb_true_iff in H; destruct H as [H Hcell].
  apply andb_true_iff in H; destruct H as [H Hndv].
  apply andb_true_iff in H; destruct H as [H Hrg].
  apply andb_true_iff in H; destruct H as [H Hl2].
  apply andb_true_iff in H; destruct H as [H Hl1].
  apply andb_true_iff in H; destruct H as [Hwf Hsc].
  assert (Hlen1 : length vt = nV L) by lia.
  assert (Hlen2 : nV L = length C) by lia.
  assert (Hrange : forall i, In i vt -> (i < length C)%nat).
  { intros i Hi. rewrite forallb_forall in Hrg. specialize (Hrg i Hi). lia. }
  split; [ exact Hwf |]. split; [ lia |]. split; [ exact Hlen1 |]. split; [ exact Hlen2 |].
  split; [ now apply nodupb_NoDup |]. split; [ exact Hrange |].
  split.
  { intros t bx Hin.
    rewrite forallb_forall in Hcell. specialize (Hcell _ Hin).
    cbn [fst] in Hcell. unfold tri_pts in Hcell.
    apply andb_true_iff in Hcell; destruct Hcell as [Ho Hc].
    split; [ lia |]. unfold tri_ref, in_cell_P. unfold in_cell in Hc.
    destruct (ref_point shift _ _ _) as [[nx ny] m]. cbn [fst snd]. lia. }
  split.
  { intros v Hv.
    rewrite forallb_forall in Hpos.
    specialize (Hpos (nth v (pos L) vzero, nth v vt 0%nat) (combine_nth_In _ _ (pos L) vt v vzero 0%nat Hv ltac:(lia))).
    cbn [fst snd] in Hpos. unfold tri_pts in Hpos.
    unfold tri_of, tri_ref, pos_close_P, pos_at.
    unfold pos_close in Hpos.
    destruct (ref_point shift _ _ _) as [[nx ny] m]. cbn [fst snd]. lia. }
  split; [ lia |].
  exists us. split; [ reflexivity |].
  assert (HND : NoDup us).
  { apply nodup_by_NoDup with (eqb := natpair_eqb); [ intro x; now apply natpair_eqb_eq | exact Hnd ]. }
  split; [ exact HND |].
  destruct (used_sides_spec C vt (edges L) (crossing L) us Eus) as [Hlen Hall].
  split.
  { intros e He. specialize (Hall e He). cbn zeta in Hall. exact Hall. }
  intros t s Ht Hs.
  assert (Hincl : incl us (list_prod (seq 0 (length C)) (seq 0 3))).
  { intros [x1 x2] Hx. apply in_prod; apply in_seq.
    - destruct (used_sides_range C vt (length C) (edges L) (crossing L) us Eus) with (x := (x1, x2)) as [Ha Hb]; auto.
      + intros e He. rewrite Hlen1. now apply wf_lattice_edges.
      + cbn [fst] in Ha. lia.
    - destruct (used_sides_range C vt (length C) (edges L) (crossing L) us Eus) with (x := (x1, x2)) as [Ha Hb]; auto.
      + intros e He. rewrite Hlen1. now apply wf_lattice_edges.
      + cbn [snd] in Hb. lia. }
  assert (Hle : (length (list_prod (seq 0 (length C)) (seq 0 3)) <= length us)%nat).
  { rewrite prod_length, !seq_length. unfold nE in *. lia. }
  apply (NoDup_length_incl HND Hle Hincl).
  apply in_prod; apply in_seq; lia.
Qed.

(* counts: 2N vertices, 3N edges; with N plaquettes V - E + F = 0 (torus) *)
Lemma dual_counts : forall S w tolS shift pts C L vt,
  check_delaunay S w pts C = true -> check_dual S tolS shift pts C L vt = true ->
  nV L = (2 * length pts)%nat /\ nE L = (3 * length pts)%nat /\
  Z.of_nat (nV L) - Z.of_nat (nE L) + Z.of_nat (length pts) = 0.
Proof.
  intros S w tolS shift pts C L vt H1 H2.
  apply check_delaunay_sound in H1. apply check_dual_sound in H2.
  destruct H1 as (_ & _ & _ & _ & _ & Hc & _).
  destruct H2 as (_ & _ & _ & Hv & _ & _ & _ & _ & He & _).
  lia.
Qed.


(* the (0,1] cell convention of voronization.py:110 : cell k  <->  k < n/m <= k+1 *)
Lemma cell_of_spec : forall n m k : Z, 0 < m -> (cell_of n m = k <-> k * m < n <= (k + 1) * m).
Proof.
  intros n m k Hm. unfold cell_of. split.
  - intros <-. pose proof (Z.div_mod (n - 1) m ltac:(lia)). pose proof (Z.mod_pos_bound (n - 1) m Hm). nia.
  - intros H. symmetry. apply Z.div_unique with (r := n - 1 - k * m); lia.
Qed.

(* "crossing flag = cell offset": a reference point of the unit cell, translated by the integer vector
   (cx, cy) (the crossing of an edge, by check_dual_sound/side_shared), lies in the cell (cx, cy) *)
Lemma crossing_is_cell_offset : forall S (r : pt * Z) (cx cy : Z),
  0 < S -> in_cell_P S r ->
  cell_of (fst (fst r) + cx * (snd r * S)) (snd r * S) = cx /\
  cell_of (snd (fst r) + cy * (snd r * S)) (snd r * S) = cy.
Proof.
  intros S [[nx ny] m] cx cy HS [Hm [Hx Hy]]. cbn [fst snd] in *.
  assert (0 < m * S) by nia.
  split; apply cell_of_spec; nia.
Qed.


(* ---------- trivalence ---------- *)
Definition ends (es : list (nat * nat)) : list nat := flat_map (fun e => [fst e; snd e]) es.

Lemma count_ends_occ : forall L v, count_ends L v = count_occ Nat.eq_dec (ends (edges L)) v.
Proof.
  intros L v. unfold count_ends, ends. induction (edges L) as [|[j k] es IH]; [ reflexivity |].
  cbn [fold_right flat_map app count_occ fst snd]. rewrite IH.
  destruct (Nat.eq_dec j v) as [->|Hj], (Nat.eq_dec k v) as [->|Hk];
    rewrite ?Nat.eqb_refl; try (apply Nat.eqb_neq in Hj; rewrite Hj); try (apply Nat.eqb_neq in Hk; rewrite Hk); lia.
Qed.

Lemma used_sides_fst : forall C vt es crs us, used_sides C vt es crs = Some us ->
  map fst us = map (fun u => nth u vt 0%nat) (ends es).
Proof.
  intros C vt. induction es as [|[u v] es IH]; intros crs us H.
  - cbn in H. inversion H. reflexivity.
  - cbn [used_sides] in H. destruct crs as [|cr crs]; [ discriminate |].
    destruct (find_match _ _ cr) as [[s s']|]; [| discriminate ].
    destruct (used_sides C vt es crs) as [r|] eqn:Er; [| discriminate ].
    inversion H; subst us. cbn [map ends flat_map app fst snd]. f_equal. f_equal. now apply IH with (crs := crs).
Qed.

Lemma count_occ_map_inj : forall (g : nat -> nat) (l : list nat) (v : nat) (D : nat -> Prop),
  (forall x y, D x -> D y -> g x = g y -> x = y) -> D v -> (forall x, In x l -> D x) ->
  count_occ Nat.eq_dec (map g l) (g v) = count_occ Nat.eq_dec l v.
Proof.
  intros g l v D Hinj Hv. induction l as [|x l IH]; intro Hl; [ reflexivity |].
  cbn [map count_occ].
  assert (Hx : D x) by (apply Hl; now left).
  assert (IH' : count_occ Nat.eq_dec (map g l) (g v) = count_occ Nat.eq_dec l v) by (apply IH; intros y Hy; apply Hl; now right).
  destruct (Nat.eq_dec (g x) (g v)) as [E|E], (Nat.eq_dec x v) as [E'|E']; try lia.
  - exfalso. apply E'. now apply Hinj.
  - exfalso. apply E. now subst.
Qed.

Lemma count_fst_prod : forall (l : list nat) (l' : list nat) (t : nat), NoDup l -> In t l ->
  count_occ Nat.eq_dec (map fst (list_prod l l')) t = length l'.
Proof.
  induction l as [|x l IH]; intros l' t Hnd Hin; [ destruct Hin |].
  cbn [list_prod]. rewrite map_app, count_occ_app, map_map. cbn [fst].
  inversion Hnd as [|? ? Hx Hnd']; subst.
  assert (Hrep : forall y, count_occ Nat.eq_dec (map (fun _ : nat => x) l') y = if Nat.eq_dec x y then length l' else 0%nat).
  { intro y. induction l' as [|z l' IH']; cbn [map count_occ length]; destruct (Nat.eq_dec x y); try rewrite IH'; auto;
      destruct (Nat.eq_dec x y); try contradiction; lia. }
  rewrite Hrep. destruct Hin as [->|Hin].
  - destruct (Nat.eq_dec t t); [| contradiction ].
    assert (Hz : count_occ Nat.eq_dec (map fst (list_prod l l')) t = 0%nat).
    { apply count_occ_not_In. intro H. apply in_map_iff in H. destruct H as [[a b] [Ha Hb]]. cbn in Ha. subst a.
      apply in_prod_iff in Hb. now destruct Hb. }
    lia.
  - destruct (Nat.eq_dec x t) as [->|]; [ contradiction |]. rewrite IH; auto.
Qed.

Lemma NoDup_app_intro : forall (A : Type) (a b : list A),
  NoDup a -> NoDup b -> (forall x, In x a -> ~ In x b) -> NoDup (a ++ b).
Proof.
  intros A. induction a as [|x a IH]; intros b Ha Hb Hd; [ exact Hb |].
  inversion Ha as [|? ? Hx Ha']; subst. cbn [app]. constructor.
  - intro Hin. apply in_app_or in Hin. destruct Hin as [Hin | Hin]; [ contradiction | apply (Hd x); [ now left | exact Hin ] ].
  - apply IH; auto. intros y Hy. apply Hd. now right.
Qed.

Lemma NoDup_list_prod : forall (l l' : list nat), NoDup l -> NoDup l' -> NoDup (list_prod l l').
Proof.
  induction l as [|x l IH]; intros l' Hl Hl'; [ constructor |].
  inversion Hl as [|? ? Hx Hl2]; subst. cbn [list_prod]. apply NoDup_app_intro.
  - apply FinFun.Injective_map_NoDup; [ intros a b E; now inversion E | exact Hl' ].
  - now apply IH.
  - intros [a b] Hin Hin2. apply in_map_iff in Hin. destruct Hin as [y [E _]]. inversion E; subst.
    apply in_prod_iff in Hin2. now destruct Hin2.
Qed.

Theorem dual_trivalent : forall S tolS shift pts C L vt,
  check_dual S tolS shift pts C L vt = true ->
  forall v, (v < nV L)%nat -> count_ends L v = 3%nat.
Proof.
  intros S tolS shift pts C L vt H v Hv.
  destruct (check_dual_sound _ _ _ _ _ _ _ H) as (Hwf & _ & Hl1 & Hl2 & Hnd & Hrg & _ & _ & Hne & us & Hus & Hndus & _ & Hall).
  rewrite count_ends_occ.
  rewrite <- (count_occ_map_inj (fun u => nth u vt 0%nat) (ends (edges L)) v (fun x => (x < length vt)%nat)).
  - rewrite <- (used_sides_fst _ _ _ _ _ Hus).
    assert (Hperm : Permutation us (list_prod (seq 0 (length C)) (seq 0 3))).
    { apply NoDup_Permutation; [ exact Hndus | apply NoDup_list_prod; apply seq_NoDup |].
      intros [t s]. split.
      - intro Hin. apply in_prod_iff. 
        destruct (used_sides_range C vt (length C) (edges L) (crossing L) us Hus) with (x := (t, s)) as [Ha Hb]; auto.
        + intros e He. rewrite Hl1. now apply wf_lattice_edges.
        + cbn [fst snd] in *. split; apply in_seq; lia.
      - intro Hin. apply in_prod_iff in Hin. destruct Hin as [Ht Hs]. apply in_seq in Ht. apply in_seq in Hs.
        apply Hall; lia. }
    pose proof (Permutation_map fst Hperm) as Hp2.
    pose proof (proj1 (Permutation_count_occ Nat.eq_dec _ _) Hp2) as Hc. rewrite Hc.
    rewrite count_fst_prod; [ reflexivity | apply seq_NoDup |].
    apply in_seq. split; [ lia |]. cbn. apply Hrg. apply nth_In. lia.
  - intros x y Hx Hy E. now apply (proj1 (NoDup_nth vt 0%nat) Hnd).
  - lia.
  - intros x Hx. unfold ends in Hx. apply in_flat_map in Hx. destruct Hx as [e [He Hx]].
    destruct (wf_lattice_edges L Hwf e He) as [H1 H2]. rewrite Hl1.
    destruct Hx as [<- | [<- | []]]; assumption.
Qed.
