(* Proofs/DelaunayFacts.v — lemmas about Model/Delaunay.v (C03). *)
From Coq Require Import List ZArith Bool Arith Lia ZifyBool QArith.
From Koala Require Import Model.Lattice Model.Delaunay.
Import ListNotations.
Open Scope Z_scope.

(* the in-circle determinant in terms of the circumcentre offset u = cc_off a b c and o = orient2d a b c:
   4 o incircle(a,b,c,d) = |u|^2 - |2 o (d - a) - u|^2 *)
Lemma incircle_identity : forall a b c d : pt,
  4 * orient2d a b c * incircle a b c d =
  cc_r2num a b c
  - (2 * orient2d a b c * (fst d - fst a) - fst (cc_off a b c)) * (2 * orient2d a b c * (fst d - fst a) - fst (cc_off a b c))
  - (2 * orient2d a b c * (snd d - snd a) - snd (cc_off a b c)) * (2 * orient2d a b c * (snd d - snd a) - snd (cc_off a b c)).
Proof.
  intros [ax ay] [bx by_] [cx cy] [dx dy].
  cbv [incircle cc_r2num cc_off orient2d fst snd]. ring.
Qed.
