(* Proofs/RhombusTol.v — tolerance version of rhombus_exact (C17).
   A closed 4-gon P0 P1 P2 P3 whose four squared side lengths are within  E/td  of a common value l0 has a
   parallelogram defect  w = P0 + P2 - P1 - P3  (= difference of opposite side vectors) bounded by

        |w|^2 * X^2 * td^2  <=  8 * E^2 * (|D1|^2 + |D2|^2)

   where D1 = P2 - P0, D2 = P3 - P1 are the diagonals and X = D1 x D2 (twice the signed area).  For a near-rhombus of side
   l and interior angle theta (X = 2 l^2 sin theta, |D1|^2 + |D2|^2 = 4 l^2) and E/td = eps * l^2 this is
   |w| / l <= 2 sqrt 2 * eps / sin theta: opposite sides agree up to a relative error linear in the length tolerance,
   degrading only as the rhombus degenerates.  The exact theorem rhombus_exact is the case E = 0, X <> 0. *)
From Coq Require Import List ZArith Bool Arith Lia.
From Koala Require Import Model.Lattice Model.Tiling2.
Import ListNotations.
Open Scope Z_scope.

Lemma abs_sq_le : forall a m : Z, Z.abs a <= m -> a * a <= m * m.
Proof. intros a m H. assert (0 <= m) by lia. rewrite <- Z.abs_square. apply Z.mul_le_mono_nonneg; lia. Qed.

Lemma abs_mul_le : forall a b m : Z, Z.abs a <= m -> Z.abs b <= m -> Z.abs (a * b) <= m * m.
Proof. intros a b m Ha Hb. rewrite Z.abs_mul. apply Z.mul_le_mono_nonneg; lia. Qed.

Lemma two_dot_le : forall x1 y1 x2 y2 : Z, 2 * Z.abs (x1 * x2 + y1 * y2) <= (x1 * x1 + y1 * y1) + (x2 * x2 + y2 * y2).
Proof.
  intros. pose proof (Z.square_nonneg (x1 - x2)). pose proof (Z.square_nonneg (y1 - y2)).
  pose proof (Z.square_nonneg (x1 + x2)). pose proof (Z.square_nonneg (y1 + y2)). lia.
Qed.

Theorem rhombus_tol : forall (P0 P1 P2 P3 : vec) (l0 td E : Z),
  0 < td ->
  Z.abs (norm2 (vsub P1 P0) - l0) * td <= E ->
  Z.abs (norm2 (vsub P2 P1) - l0) * td <= E ->
  Z.abs (norm2 (vsub P3 P2) - l0) * td <= E ->
  Z.abs (norm2 (vsub P0 P3) - l0) * td <= E ->
  let w := vsub (vadd P0 P2) (vadd P1 P3) in
  let D1 := vsub P2 P0 in let D2 := vsub P3 P1 in
  norm2 w * (vcross D1 D2 * vcross D1 D2) * (td * td) <= 8 * (E * E) * (norm2 D1 + norm2 D2).
Proof.
  intros [x0 y0] [x1 y1] [x2 y2] [x3 y3] l0 td E Htd Ha Hb Hc Hd. cbv zeta.
  unfold norm2, vdot, vcross, vsub, vadd in *. cbn [fst snd] in *.
  set (sa := (x1 - x0) * (x1 - x0) + (y1 - y0) * (y1 - y0)) in *.
  set (sb := (x2 - x1) * (x2 - x1) + (y2 - y1) * (y2 - y1)) in *.
  set (sc := (x3 - x2) * (x3 - x2) + (y3 - y2) * (y3 - y2)) in *.
  set (sd := (x0 - x3) * (x0 - x3) + (y0 - y3) * (y0 - y3)) in *.
  set (wx := x0 + x2 - (x1 + x3)). set (wy := y0 + y2 - (y1 + y3)).
  set (d1x := x2 - x0). set (d1y := y2 - y0). set (d2x := x3 - x1). set (d2y := y3 - y1).
  (* twice the projections of w on the diagonals are differences of squared side lengths *)
  set (A2 := 2 * (wx * d1x + wy * d1y)). set (B2 := 2 * (wx * d2x + wy * d2y)).
  assert (HA : A2 = (sb - sa) + (sc - sd)) by (unfold A2, wx, wy, d1x, d1y, sa, sb, sc, sd; ring).
  assert (HB : B2 = (sa - sc) + (sb - sd)) by (unfold B2, wx, wy, d2x, d2y, sa, sb, sc, sd; ring).
  assert (E0 : 0 <= E).
  { apply Z.le_trans with (2 := Ha). apply Z.mul_nonneg_nonneg; [apply Z.abs_nonneg | lia]. }
  assert (Ka : Z.abs ((sa - l0) * td) <= E) by (rewrite Z.abs_mul, (Z.abs_eq td) by lia; exact Ha).
  assert (Kb : Z.abs ((sb - l0) * td) <= E) by (rewrite Z.abs_mul, (Z.abs_eq td) by lia; exact Hb).
  assert (Kc : Z.abs ((sc - l0) * td) <= E) by (rewrite Z.abs_mul, (Z.abs_eq td) by lia; exact Hc).
  assert (Kd : Z.abs ((sd - l0) * td) <= E) by (rewrite Z.abs_mul, (Z.abs_eq td) by lia; exact Hd).
  assert (TA : Z.abs (A2 * td) <= 4 * E).
  { rewrite HA. replace ((sb - sa + (sc - sd)) * td) with ((sb - l0) * td - (sa - l0) * td + ((sc - l0) * td - (sd - l0) * td)) by ring.
    clear - Ka Kb Kc Kd. lia. }
  assert (TB : Z.abs (B2 * td) <= 4 * E).
  { rewrite HB. replace ((sa - sc + (sb - sd)) * td) with ((sa - l0) * td - (sc - l0) * td + ((sb - l0) * td - (sd - l0) * td)) by ring.
    clear - Ka Kb Kc Kd. lia. }
  set (n1 := d1x * d1x + d1y * d1y). set (n2 := d2x * d2x + d2y * d2y). set (dd := d1x * d2x + d1y * d2y).
  set (X := d1x * d2y - d1y * d2x).
  (* Cramer: 4 |w|^2 X^2 = |A2 D2 - B2 D1|^2 *)
  assert (ID : 4 * ((wx * wx + wy * wy) * (X * X)) = A2 * A2 * n2 - 2 * (A2 * B2) * dd + B2 * B2 * n1)
    by (unfold A2, B2, X, n1, n2, dd; ring).
  set (a := A2 * td) in *. set (b := B2 * td) in *.
  assert (ID' : 4 * ((wx * wx + wy * wy) * (X * X) * (td * td)) = a * a * n2 - 2 * (a * b) * dd + b * b * n1).
  { unfold a, b. replace (4 * ((wx * wx + wy * wy) * (X * X) * (td * td))) with (4 * ((wx * wx + wy * wy) * (X * X)) * (td * td)) by ring.
    rewrite ID. ring. }
  assert (Qa : a * a <= 4 * E * (4 * E)) by (apply abs_sq_le; exact TA).
  assert (Qb : b * b <= 4 * E * (4 * E)) by (apply abs_sq_le; exact TB).
  assert (Qab : Z.abs (a * b) <= 4 * E * (4 * E)) by (apply abs_mul_le; assumption).
  assert (N1 : 0 <= n1) by (unfold n1; apply Z.add_nonneg_nonneg; apply Z.square_nonneg).
  assert (N2 : 0 <= n2) by (unfold n2; apply Z.add_nonneg_nonneg; apply Z.square_nonneg).
  assert (DD : 2 * Z.abs dd <= n1 + n2) by (unfold dd, n1, n2; apply two_dot_le).
  assert (T1 : a * a * n2 <= 16 * (E * E) * n2).
  { replace (16 * (E * E)) with (4 * E * (4 * E)) by ring. apply Z.mul_le_mono_nonneg_r; assumption. }
  assert (T3 : b * b * n1 <= 16 * (E * E) * n1).
  { replace (16 * (E * E)) with (4 * E * (4 * E)) by ring. apply Z.mul_le_mono_nonneg_r; assumption. }
  assert (T2 : - (2 * (a * b) * dd) <= 16 * (E * E) * (n1 + n2)).
  { assert (S1 : - (2 * (a * b) * dd) <= Z.abs (a * b) * (2 * Z.abs dd)).
    { replace (Z.abs (a * b) * (2 * Z.abs dd)) with (2 * Z.abs (a * b * dd)) by (rewrite (Z.abs_mul (a * b) dd); ring).
      replace (2 * (a * b) * dd) with (2 * (a * b * dd)) by ring.
      generalize (a * b * dd). clear. intro z. lia. }
    assert (S2 : Z.abs (a * b) * (2 * Z.abs dd) <= 4 * E * (4 * E) * (n1 + n2)).
    { apply Z.mul_le_mono_nonneg; [apply Z.abs_nonneg | exact Qab | | exact DD].
      clear. pose proof (Z.abs_nonneg dd). lia. }
    replace (16 * (E * E)) with (4 * E * (4 * E)) by ring.
    apply Z.le_trans with (1 := S1). exact S2. }
  clear - ID' T1 T2 T3.
  generalize dependent (a * a * n2). generalize dependent (b * b * n1). generalize dependent (2 * (a * b) * dd).
  generalize ((wx * wx + wy * wy) * (X * X) * (td * td)). intros. lia.
Qed.

(* instance used with the checker: every side within the relative tolerance tn/td of l0 (lengths_ok) *)
Corollary rhombus_tol_rel : forall (P0 P1 P2 P3 : vec) (l0 tn td : Z),
  0 < td ->
  Z.abs (norm2 (vsub P1 P0) - l0) * td <= tn * l0 ->
  Z.abs (norm2 (vsub P2 P1) - l0) * td <= tn * l0 ->
  Z.abs (norm2 (vsub P3 P2) - l0) * td <= tn * l0 ->
  Z.abs (norm2 (vsub P0 P3) - l0) * td <= tn * l0 ->
  let w := vsub (vadd P0 P2) (vadd P1 P3) in
  let D1 := vsub P2 P0 in let D2 := vsub P3 P1 in
  norm2 w * (vcross D1 D2 * vcross D1 D2) * (td * td) <= 8 * (tn * l0 * (tn * l0)) * (norm2 D1 + norm2 D2).
Proof. intros. apply rhombus_tol with (l0 := l0); assumption. Qed.

(* non-vacuity / sharpness of the shape of the bound: a slightly sheared unit square (scale 100) *)
Example rhombus_tol_example :
  let P0 := (0, 0) in let P1 := (100, 0) in let P2 := (101, 100) in let P3 := (0, 100) in
  Z.abs (norm2 (vsub P1 P0) - 10000) * 1 <= 201 /\ Z.abs (norm2 (vsub P2 P1) - 10000) * 1 <= 201 /\
  Z.abs (norm2 (vsub P3 P2) - 10000) * 1 <= 201 /\ Z.abs (norm2 (vsub P0 P3) - 10000) * 1 <= 201 /\
  norm2 (vsub (vadd P0 P2) (vadd P1 P3)) = 1.
Proof. vm_compute. repeat split; discriminate. Qed.
