(* Proofs/SurgeryPerm.v — permute_vertices and reorder_vertices return the relabelled lattice.  (C12) *)
From Coq Require Import List ZArith Bool Arith Lia ZifyBool Permutation Sorted.
From Koala Require Import Model.Lattice Model.Surgery Proofs.SurgeryFacts.
Import ListNotations.
Open Scope nat_scope.

(* ------------------------------------------------------------------ permutations of range(n) *)
Definition is_perm (l : list nat) (n : nat) : Prop :=
  length l = n /\ NoDup l /\ (forall x, In x l -> x < n).

Lemma is_perm_surj l n : is_perm l n -> forall v, v < n -> exists i, i < n /\ nth i l 0 = v.
Proof.
  intros (Hlen & Hnd & Hb) v Hv.
  assert (Hincl : incl (seq 0 n) l).
  { apply NoDup_length_incl; [exact Hnd | rewrite seq_length; lia |].
    intros x Hx. apply in_seq. specialize (Hb x Hx). lia. }
  assert (Hin : In v l) by (apply Hincl; apply in_seq; lia).
  destruct (In_nth l v 0 Hin) as (i & Hi & E). exists i. split; [lia | exact E].
Qed.

Lemma is_perm_inj l n i j : is_perm l n -> i < n -> j < n -> nth i l 0 = nth j l 0 -> i = j.
Proof.
  intros (Hlen & Hnd & _) Hi Hj E. apply (proj1 (NoDup_nth l 0) Hnd); lia || exact E.
Qed.

Lemma is_perm_nth_lt l n i : is_perm l n -> i < n -> nth i l 0 < n.
Proof. intros (Hlen & _ & Hb) Hi. apply Hb. apply nth_In. lia. Qed.

(* ------------------------------------------------------------------ set_nth *)
Lemma set_nth_length {A} (x : A) l : forall n, length (set_nth n x l) = length l.
Proof. induction l as [|y l IH]; intros [|n]; simpl; auto. Qed.

Lemma nth_set_nth_eq {A} (x d : A) l : forall n, n < length l -> nth n (set_nth n x l) d = x.
Proof.
  induction l as [|y l IH]; intros [|n] H; simpl in *; try lia; auto. apply IH. lia.
Qed.

Lemma nth_set_nth_neq {A} (x d : A) l : forall n m, n <> m -> nth m (set_nth n x l) d = nth m l d.
Proof.
  induction l as [|y l IH]; intros [|n] [|m] H; simpl; auto; try lia.
Qed.

(* ------------------------------------------------------------------ inverse_ordering *)
Definition inv_step (acc : list nat) (io : nat * nat) : list nat := set_nth (snd io) (fst io) acc.

Lemma inv_fold_length l : forall a acc,
  length (fold_left inv_step (combine (seq a (length l)) l) acc) = length acc.
Proof.
  induction l as [|x l IH]; intros a acc; [reflexivity|].
  cbn [length seq combine fold_left]. rewrite IH. unfold inv_step. apply set_nth_length.
Qed.

Lemma inv_fold_untouched l : forall a acc p, ~ In p l ->
  nth p (fold_left inv_step (combine (seq a (length l)) l) acc) 0 = nth p acc 0.
Proof.
  induction l as [|x l IH]; intros a acc p Hp; [reflexivity|].
  cbn [length seq combine fold_left]. rewrite IH by (intro H; apply Hp; right; exact H).
  unfold inv_step. cbn [fst snd]. apply nth_set_nth_neq. intro E. apply Hp. left. exact E.
Qed.

Lemma inv_fold_hit l : forall a acc, NoDup l -> (forall x, In x l -> x < length acc) ->
  forall k, k < length l ->
  nth (nth k l 0) (fold_left inv_step (combine (seq a (length l)) l) acc) 0 = a + k.
Proof.
  induction l as [|x l IH]; intros a acc Hnd Hb k Hk; [simpl in Hk; lia|].
  cbn [length seq combine fold_left]. inversion Hnd as [|? ? Hx Hnd']; subst.
  destruct k as [|k]; cbn [nth].
  - rewrite inv_fold_untouched by exact Hx. unfold inv_step. cbn [fst snd].
    rewrite nth_set_nth_eq by (apply Hb; left; reflexivity). lia.
  - cbn [length] in Hk. rewrite IH; [lia | exact Hnd' | | lia].
    intros y Hy. unfold inv_step. rewrite set_nth_length. apply Hb. right. exact Hy.
Qed.

Lemma inverse_ordering_spec n ord : is_perm ord n ->
  forall i, i < n -> nth (nth i ord 0) (inverse_ordering n ord) 0 = i.
Proof.
  intros (Hlen & Hnd & Hb) i Hi. unfold inverse_ordering.
  change (fun (acc : list nat) (io : nat * nat) => set_nth (snd io) (fst io) acc) with inv_step.
  rewrite inv_fold_hit; [reflexivity | exact Hnd | | lia].
  intros x Hx. rewrite repeat_length. auto.
Qed.

Definition inv_of (n : nat) (ord : list nat) (v : nat) : nat := nth v (inverse_ordering n ord) 0.

Lemma inv_of_spec n ord : is_perm ord n ->
  forall v, v < n -> inv_of n ord v < n /\ nth (inv_of n ord v) ord 0 = v.
Proof.
  intros Hp v Hv. destruct (is_perm_surj ord n Hp v Hv) as (i & Hi & E).
  unfold inv_of. subst v. rewrite (inverse_ordering_spec n ord Hp i Hi). split; [exact Hi | reflexivity].
Qed.

Lemma inv_of_inj n ord : is_perm ord n -> forall v w, v < n -> w < n -> inv_of n ord v = inv_of n ord w -> v = w.
Proof.
  intros Hp v w Hv Hw E.
  destruct (inv_of_spec n ord Hp v Hv) as [_ E1]. destruct (inv_of_spec n ord Hp w Hw) as [_ E2].
  rewrite <- E1, <- E2, E. reflexivity.
Qed.

(* ------------------------------------------------------------------ relabelled lattices *)
(* L' is L with vertex v renamed ren v: same scale, same edge list order and crossings, edges renamed,
   position of ren v in L' = position of v in L *)
Definition relabelled (L L' : lattice) (ren : nat -> nat) : Prop :=
  scale L' = scale L /\ crossing L' = crossing L /\
  edges L' = map (fun e : nat * nat => (ren (fst e), ren (snd e))) (edges L) /\
  nV L' = nV L /\
  (forall v, v < nV L -> ren v < nV L /\ pos_at L' (ren v) = pos_at L v) /\
  (forall v w, v < nV L -> w < nV L -> ren v = ren w -> v = w).

Lemma relabelled_nE L L' ren : relabelled L L' ren -> nE L' = nE L.
Proof. intros (_ & _ & He & _). unfold nE. rewrite He. apply map_length. Qed.

Lemma relabelled_edge_at L L' ren e : relabelled L L' ren -> e < nE L ->
  edge_at L' e = (ren (fst (edge_at L e)), ren (snd (edge_at L e))).
Proof.
  intros (_ & _ & He & _) Hlt. unfold edge_at. rewrite He.
  set (f := fun e0 : nat * nat => (ren (fst e0), ren (snd e0))).
  rewrite (nth_indep _ _ (f (0, 0))) by (rewrite map_length; exact Hlt).
  rewrite map_nth. reflexivity.
Qed.

Lemma relabelled_cross_at L L' ren e : relabelled L L' ren -> cross_at L' e = cross_at L e.
Proof. intros (_ & Hc & _). unfold cross_at. rewrite Hc. reflexivity. Qed.

(* identical edge vectors, for every edge index *)
Lemma relabelled_evec L L' ren : wf_lattice L = true -> relabelled L L' ren -> forall e, evec L' e = evec L e.
Proof.
  intros Hwf HR e. pose proof HR as (Hs & Hc & He & Hn & Hp & Hi).
  unfold evec. rewrite (relabelled_cross_at L L' ren e HR), Hs.
  destruct (Nat.lt_ge_cases e (nE L)) as [Hlt|Hge].
  - rewrite (relabelled_edge_at L L' ren e HR Hlt).
    destruct (wf_edge_at L e Hwf Hlt) as [Hj Hk].
    destruct (edge_at L e) as [j k]. cbn [fst snd] in *.
    rewrite (proj2 (Hp j Hj)), (proj2 (Hp k Hk)). reflexivity.
  - assert (Hge' : length (edges L') <= e).
    { pose proof (relabelled_nE L L' ren HR) as E. unfold nE in E, Hge. lia. }
    unfold nE in Hge. unfold edge_at.
    rewrite (nth_overflow (edges L') _ Hge'), (nth_overflow (edges L) _ Hge).
    unfold vadd, vsub. cbn [fst snd]. rewrite !Z.sub_diag. reflexivity.
Qed.

Lemma relabelled_wf L L' ren : wf_lattice L = true -> relabelled L L' ren -> wf_lattice L' = true.
Proof.
  intros Hwf HR. pose proof HR as (Hs & Hc & He & Hn & Hp & Hi).
  destruct (wf_parts L Hwf) as (Hs0 & Hc0 & Hf).
  unfold wf_lattice. rewrite !andb_true_iff. repeat split.
  - lia.
  - rewrite Hc, (relabelled_nE L L' ren HR). apply Nat.eqb_eq. exact Hc0.
  - apply forallb_forall. intros e Hin. rewrite He in Hin. apply in_map_iff in Hin.
    destruct Hin as (e0 & <- & Hin0). rewrite Forall_forall in Hf. destruct (Hf e0 Hin0) as [Hj Hk].
    unfold wf_edge. cbn [fst snd]. rewrite Hn.
    pose proof (proj1 (Hp _ Hj)). pose proof (proj1 (Hp _ Hk)). lia.
Qed.

Lemma relabelled_no_self_loops L L' ren : wf_lattice L = true -> relabelled L L' ren ->
  no_self_loops L = true -> no_self_loops L' = true.
Proof.
  intros Hwf HR Hns. pose proof HR as (Hs & Hc & He & Hn & Hp & Hi).
  destruct (wf_parts L Hwf) as (_ & _ & Hf). rewrite Forall_forall in Hf.
  unfold no_self_loops in *. rewrite forallb_forall in *. intros e Hin.
  rewrite He in Hin. apply in_map_iff in Hin. destruct Hin as (e0 & <- & Hin0).
  specialize (Hns e0 Hin0). destruct (Hf e0 Hin0) as [Hj Hk]. cbn [fst snd].
  apply negb_true_iff. apply negb_true_iff in Hns. apply Nat.eqb_neq. apply Nat.eqb_neq in Hns.
  intro E. apply Hns. apply Hi; assumption.
Qed.

(* ------------------------------------------------------------------ permute_vertices *)
Lemma forallb_ltb l n : (forall x, In x l -> x < n) -> forallb (fun i => i <? n) l = true.
Proof. intro H. apply forallb_forall. intros x Hx. apply Nat.ltb_lt. auto. Qed.

(* permute_spec: new position i = old position ordering[i]; edges renamed by the inverse of ordering
   (ordering[inv v] = v); same edge order and crossings *)
Lemma permute_spec L ord : wf_lattice L = true -> is_perm ord (nV L) ->
  exists L', permute_vertices L ord = Some L' /\
    relabelled L L' (inv_of (nV L) ord) /\
    (forall i, i < nV L -> pos_at L' i = pos_at L (nth i ord 0)) /\
    (forall v, v < nV L -> inv_of (nV L) ord v < nV L /\ nth (inv_of (nV L) ord v) ord 0 = v).
Proof.
  intros Hwf Hp. pose proof Hp as (Hlen & Hnd & Hb).
  unfold permute_vertices. rewrite Hlen, Nat.eqb_refl, (forallb_ltb _ _ Hb). cbn [andb].
  eexists. split; [reflexivity|].
  assert (Hpos : forall i, i < nV L ->
            pos_at (mkLattice (scale L) (map (pos_at L) ord)
                      (map (fun e : nat * nat => (nth (fst e) (inverse_ordering (nV L) ord) 0, nth (snd e) (inverse_ordering (nV L) ord) 0)) (edges L))
                      (crossing L)) i = pos_at L (nth i ord 0)).
  { intros i Hi. unfold pos_at at 1. cbn [pos].
    rewrite (nth_indep _ _ (pos_at L 0)) by (rewrite map_length; lia). apply map_nth. }
  split; [|split; [exact Hpos | apply inv_of_spec; exact Hp]].
  unfold relabelled. cbn [scale crossing edges]. repeat split.
  - unfold nV. cbn [pos]. rewrite map_length. exact Hlen.
  - apply (inv_of_spec _ _ Hp). exact H.
  - destruct (inv_of_spec _ _ Hp v H) as [Hlt E]. rewrite Hpos by exact Hlt. rewrite E. reflexivity.
  - apply inv_of_inj. exact Hp.
Qed.

(* ------------------------------------------------------------------ argsort *)
Section Argsort.
  Variable key : nat -> nat.

  Lemma insert_by_perm x l : Permutation (insert_by key x l) (x :: l).
  Proof.
    induction l as [|y l IH]; [reflexivity|]. cbn [insert_by].
    destruct (key x <? key y); [reflexivity|].
    rewrite IH. apply perm_swap.
  Qed.

  Definition key_le (a b : nat) : Prop := key a <= key b.

  Lemma insert_by_sorted x l : StronglySorted key_le l -> StronglySorted key_le (insert_by key x l).
  Proof.
    induction 1 as [|y l Hs IH Hall]; [constructor; constructor|].
    cbn [insert_by]. destruct (Nat.ltb_spec (key x) (key y)) as [Hlt|Hge].
    - constructor; [constructor; assumption|].
      constructor; [unfold key_le; lia|].
      eapply Forall_impl; [|exact Hall]. intros a Ha. unfold key_le in *. lia.
    - constructor; [exact IH|].
      apply Forall_forall. intros a Ha.
      apply (Permutation_in _ (insert_by_perm x l)) in Ha. destruct Ha as [<-|Ha].
      + unfold key_le. lia.
      + rewrite Forall_forall in Hall. apply Hall. exact Ha.
  Qed.

  Lemma fold_insert_by l : forall acc, StronglySorted key_le acc ->
    Permutation (fold_left (fun a i => insert_by key i a) l acc) (l ++ acc) /\
    StronglySorted key_le (fold_left (fun a i => insert_by key i a) l acc).
  Proof.
    induction l as [|x l IH]; intros acc Hs; [split; [reflexivity | exact Hs]|].
    cbn [fold_left]. destruct (IH (insert_by key x acc) (insert_by_sorted x acc Hs)) as [P S].
    split; [|exact S]. rewrite P. rewrite insert_by_perm. cbn [app].
    symmetry. apply Permutation_middle.
  Qed.
End Argsort.

Lemma sorted_lt_perm_eq (l1 : list nat) : forall l2,
  StronglySorted lt l1 -> StronglySorted lt l2 -> Permutation l1 l2 -> l1 = l2.
Proof.
  induction l1 as [|a l1 IH]; intros l2 H1 H2 P.
  - apply Permutation_nil in P. subst. reflexivity.
  - destruct l2 as [|b l2]; [apply Permutation_sym, Permutation_nil in P; discriminate|].
    inversion H1 as [|? ? S1 A1]; subst. inversion H2 as [|? ? S2 A2]; subst.
    rewrite Forall_forall in A1, A2.
    assert (a = b).
    { assert (Ha : In a (b :: l2)) by (apply (Permutation_in _ P); left; reflexivity).
      assert (Hb : In b (a :: l1)) by (apply (Permutation_in _ (Permutation_sym P)); left; reflexivity).
      destruct Ha as [Ha|Ha]; [auto|]. destruct Hb as [Hb|Hb]; [auto|].
      specialize (A1 b Hb). specialize (A2 a Ha). lia. }
    subst b. f_equal. apply IH; auto. apply Permutation_cons_inv in P. exact P.
Qed.

Lemma sorted_le_nodup_lt (l : list nat) : StronglySorted le l -> NoDup l -> StronglySorted lt l.
Proof.
  induction 1 as [|a l S IH A]; intro Hnd; [constructor|].
  inversion Hnd as [|? ? Hna Hnd']; subst. constructor; [apply IH; exact Hnd'|].
  rewrite Forall_forall in *. intros x Hx. specialize (A x Hx).
  assert (a <> x) by (intro; subst; contradiction). lia.
Qed.

Lemma map_sorted_key (key : nat -> nat) l : StronglySorted (key_le key) l -> StronglySorted le (map key l).
Proof.
  induction 1 as [|a l S IH A]; [constructor|]. cbn [map]. constructor; [exact IH|].
  rewrite Forall_forall in *. intros x Hx. apply in_map_iff in Hx. destruct Hx as (y & <- & Hy). apply A. exact Hy.
Qed.

Lemma seq_sorted_lt n : forall a, StronglySorted lt (seq a n).
Proof.
  induction n as [|n IH]; intro a; [constructor|].
  cbn [seq]. constructor; [apply IH|]. apply Forall_forall. intros x Hx. apply in_seq in Hx. lia.
Qed.

(* argsort of a permutation is its inverse: perm[argsort[i]] = i *)
Lemma argsort_spec perm n : is_perm perm n ->
  length (argsort perm) = n /\
  (forall x, In x (argsort perm) -> x < n) /\
  (forall i, i < n -> nth (nth i (argsort perm) 0) perm 0 = i).
Proof.
  intros (Hlen & Hnd & Hb). unfold argsort. rewrite Hlen.
  set (key := fun j => nth j perm 0).
  destruct (fold_insert_by key (seq 0 n) [] (SSorted_nil _)) as [P S]. rewrite app_nil_r in P.
  set (a := fold_left (fun acc i => insert_by key i acc) (seq 0 n) []) in *.
  assert (Hla : length a = n) by (rewrite (Permutation_length P); apply seq_length).
  assert (Hin : forall x, In x a -> x < n).
  { intros x Hx. apply (Permutation_in _ P) in Hx. apply in_seq in Hx. lia. }
  split; [exact Hla|]. split; [exact Hin|].
  assert (Hmap : map key a = seq 0 n).
  { apply sorted_lt_perm_eq.
    - apply sorted_le_nodup_lt; [apply map_sorted_key; exact S|].
      apply (Permutation_NoDup (l := perm)); [|exact Hnd].
      symmetry. rewrite (Permutation_map key P). unfold key. rewrite <- Hlen. rewrite map_nth_seq. reflexivity.
    - apply seq_sorted_lt.
    - rewrite (Permutation_map key P). unfold key. rewrite <- Hlen at 1. rewrite map_nth_seq.
      apply NoDup_Permutation_bis; [exact Hnd | rewrite seq_length; lia |].
      intros x Hx. apply in_seq. specialize (Hb x Hx). lia. }
  intros i Hi.
  assert (E : nth i (map key a) 0 = i) by (rewrite Hmap, seq_nth by lia; reflexivity).
  rewrite (nth_indep _ _ (key 0)) in E by (rewrite map_length; lia).
  rewrite map_nth in E. exact E.
Qed.

(* reorder_spec: position of vertex permutation[v] = old position of v; edges renamed by permutation;
   same edge order and crossings *)
Lemma reorder_spec L perm : wf_lattice L = true -> is_perm perm (nV L) ->
  exists L', reorder_vertices L perm = Some L' /\ relabelled L L' (fun v => nth v perm 0).
Proof.
  intros Hwf Hp. pose proof Hp as (Hlen & Hnd & Hb).
  destruct (argsort_spec perm (nV L) Hp) as (Hla & Hina & Hinv).
  destruct (wf_parts L Hwf) as (_ & _ & Hf).
  unfold reorder_vertices. rewrite Hlen, Nat.leb_refl.
  assert (Hall : forallb (fun e : nat * nat => (fst e <? nV L) && (snd e <? nV L)) (edges L) = true).
  { apply forallb_forall. intros e He. rewrite Forall_forall in Hf. destruct (Hf e He). lia. }
  rewrite Hall. cbn [andb]. eexists. split; [reflexivity|].
  unfold relabelled. cbn [scale crossing edges]. repeat split.
  - unfold nV. cbn [pos]. rewrite map_length. exact Hla.
  - apply is_perm_nth_lt; assumption.
  - (* pos'[perm v] = pos[argsort[perm v]] = pos[v] *)
    unfold pos_at at 1. cbn [pos].
    assert (Hpv : nth v perm 0 < nV L) by (apply is_perm_nth_lt; assumption).
    rewrite (nth_indep _ _ (pos_at L 0)) by (rewrite map_length; lia).
    rewrite map_nth. f_equal.
    apply (is_perm_inj perm (nV L)); [exact Hp | apply Hina; apply nth_In; lia | exact H |].
    apply Hinv. exact Hpv.
  - intros v w Hv Hw E. apply (is_perm_inj perm (nV L)); assumption.
Qed.

(* the identity relabelling returns the lattice itself *)
Lemma is_perm_seq n : is_perm (seq 0 n) n.
Proof.
  repeat split; [apply seq_length | apply seq_NoDup | intros x Hx; apply in_seq in Hx; lia].
Qed.
