(* Proofs/HamFermion.v — majorana_to_fermion_ham (hamiltonian.py:77-101) on the model's integer array:
   Hermitian, Bogoliubov-de Gennes block structure, and the entry-wise intertwining relation
   W (2 H) = F W for W = [[1, i], [1, -i]] (x) 1_n (both sides times 4 SJ, Gaussian integers). *)
From Coq Require Import List ZArith Bool Arith Lia ZifyBool.
From Koala Require Import Model.Ham Proofs.HamFacts.
Import ListNotations.
Open Scope Z_scope.

(* ---------- majorana_to_fermion_ham (hamiltonian.py:77-101) on an antisymmetric integer array ---------- *)
Definition antisym (A : list (list Z)) : Prop := forall i j, entry A i j = - entry A j i.

(* h is Hermitian, d is antisymmetric *)
Lemma fh_hermitian : forall n A i j, antisym A -> fh n A j i = giconj (fh n A i j).
Proof.
  intros n A i j HA. unfold fh, giconj, blkM, blkF, blkD; simpl.
  rewrite (HA j i), (HA (n + j)%nat (n + i)%nat). f_equal; lia.
Qed.

Lemma fd_antisymmetric : forall n A i j, antisym A -> fd n A j i = gineg (fd n A i j).
Proof.
  intros n A i j HA. unfold fd, gineg, blkM, blkF, blkD; simpl.
  rewrite (HA j i), (HA (n + j)%nat (n + i)%nat). f_equal; lia.
Qed.

(* Bogoliubov-de Gennes block structure [[h, d], [d^dagger, -h^T]] *)
Lemma fermion_blocks : forall n A i j, (i < n)%nat -> (j < n)%nat ->
  fermion_entry n A i j = fh n A i j /\
  fermion_entry n A i (n + j) = fd n A i j /\
  fermion_entry n A (n + i) j = giconj (fd n A j i) /\
  fermion_entry n A (n + i) (n + j) = gineg (fh n A j i).
Proof.
  intros n A i j Hi Hj. unfold fermion_entry.
  replace (i <? n)%nat with true by (symmetry; apply Nat.ltb_lt; lia).
  replace (j <? n)%nat with true by (symmetry; apply Nat.ltb_lt; lia).
  replace (n + i <? n)%nat with false by (symmetry; apply Nat.ltb_ge; lia).
  replace (n + j <? n)%nat with false by (symmetry; apply Nat.ltb_ge; lia).
  replace (n + i - n)%nat with i by lia. replace (n + j - n)%nat with j by lia. auto.
Qed.

(* the fermionic form is Hermitian *)
Theorem fermion_hermitian : forall n A r c, antisym A -> (r < 2 * n)%nat -> (c < 2 * n)%nat ->
  fermion_entry n A c r = giconj (fermion_entry n A r c).
Proof.
  intros n A r c HA Hr Hc. unfold fermion_entry.
  destruct (r <? n)%nat eqn:Er, (c <? n)%nat eqn:Ec.
  - apply fh_hermitian; exact HA.
  - reflexivity.
  - destruct (fd n A c (r - n)) as [x y]. unfold giconj; simpl. f_equal. lia.
  - rewrite (fh_hermitian n A (c - n) (r - n) HA). unfold gineg, giconj; simpl. f_equal.
Qed.

(* W (2H) = F W, entry by entry *)
Theorem fermion_intertwines : forall n A r c, antisym A -> (r < 2 * n)%nat -> (c < 2 * n)%nat ->
  W_twoH n A r c = F_W n A r c.
Proof.
  intros n A r c HA Hr Hc. unfold W_twoH, F_W, fermion_entry.
  destruct (r <? n)%nat eqn:Er, (c <? n)%nat eqn:Ec;
    try apply Nat.ltb_lt in Er; try apply Nat.ltb_ge in Er; try apply Nat.ltb_lt in Ec; try apply Nat.ltb_ge in Ec.
  - replace (n + c <? n)%nat with false by (symmetry; apply Nat.ltb_ge; lia).
    replace (n + c - n)%nat with c by lia.
    unfold giadd, gisub, gi_i, twoH, fh, fd, blkM, blkF, blkD; cbn [fst snd].
    pose proof (HA (n + r)%nat c). f_equal; lia.
  - replace (c - n <? n)%nat with true by (symmetry; apply Nat.ltb_lt; lia).
    unfold giadd, gisub, gi_i, twoH, fh, fd, blkM, blkF, blkD; cbn [fst snd].
    replace (n + (c - n))%nat with c by lia.
    f_equal; lia.
  - replace (n + c <? n)%nat with false by (symmetry; apply Nat.ltb_ge; lia).
    replace (n + c - n)%nat with c by lia.
    unfold giadd, gisub, gi_i, giconj, gineg, twoH, fh, fd, blkM, blkF, blkD; cbn [fst snd].
    replace (n + (r - n))%nat with r by lia.
    pose proof (HA r c). pose proof (HA (r - n)%nat c). f_equal; lia.
  - replace (c - n <? n)%nat with true by (symmetry; apply Nat.ltb_lt; lia).
    unfold giadd, gisub, gi_i, giconj, gineg, twoH, fh, fd, blkM, blkF, blkD; cbn [fst snd].
    replace (n + (c - n))%nat with c by lia. replace (n + (r - n))%nat with r by lia.
    pose proof (HA r c). pose proof (HA (r - n)%nat c). f_equal; lia.
Qed.

(* the array the Hamiltonian model builds is antisymmetric (so the hypotheses above hold for it) *)
Lemma entry_out_of_range : forall V M r c, shape V M -> (V <= r)%nat \/ (V <= c)%nat -> entry M r c = 0.
Proof.
  intros V M r c [HL HR] [H|H]; unfold entry.
  - rewrite (nth_overflow M) by lia. destruct c; reflexivity.
  - destruct (Nat.lt_ge_cases r V) as [Hr|Hr].
    + apply nth_overflow. rewrite HR by exact Hr. exact H.
    + rewrite (nth_overflow M) by lia. destruct c; reflexivity.
Qed.

Theorem ham_matrix_antisym : forall V edges hop, no_loops edges = true -> antisym (ham_matrix V edges hop).
Proof.
  intros V edges hop Hnl i j.
  destruct (Nat.lt_ge_cases i V) as [Hi|Hi]; [destruct (Nat.lt_ge_cases j V) as [Hj|Hj]|].
  - fold (ham_entry V edges hop i j). fold (ham_entry V edges hop j i).
    rewrite !ham_is_bond_sum by assumption. apply bond_sum_antisym. exact Hnl.
  - rewrite !(entry_out_of_range V) by (auto using shape_ham_matrix). reflexivity.
  - rewrite !(entry_out_of_range V) by (auto using shape_ham_matrix). reflexivity.
Qed.
