(* Proofs/PolyStrictFacts.v — the clipped polygon of a strictly convex polygon in general
   position is strictly convex again, hence (Proofs/PolyRegionFacts.v) its region is EXACTLY
   region(P) /\ half-plane:

     collinear_vertex        in a convex_ccw, strictly_convex polygon a vertex on the line of an edge
                             is an end point of that edge
     clip_strictly_convex    convex_ccw P, strictly_convex P, no vertex on the clip line
                             ==> strictly_convex (sh_clip1 x v ge P)
     clip_halfplane_exact    ... and one vertex inside ==> for every point p:
                             in_poly (sh_clip1 x v ge P) p <-> in_poly P p /\ p in the half-plane *)
From Coq Require Import List ZArith QArith Bool Qminmax Lqa Lia.
From Koala Require Import Model.Clip Proofs.ClipFacts Proofs.PolyAreaFacts Proofs.PolyCellFacts Proofs.PolyRegionFacts.
Import ListNotations.
Open Scope Q_scope.

(* ---------- algebra ---------- *)
Lemma alg_beyond (dx dy ux uy ex ey lam dd : Q) :
  ux * dd == lam * dx -> uy * dd == lam * dy -> 0 < dd -> dd < lam ->
  0 <= ex * (uy - dy) - ey * (ux - dx) -> 0 < dx * ey - dy * ex -> False.
Proof.
  intros H1 H2 Hd Hl S2 D.
  assert (E : (ex * (uy - dy) - ey * (ux - dx)) * dd == (lam - dd) * (ex * dy - ey * dx)).
  { transitivity (ex * (uy * dd) - ex * dy * dd - ey * (ux * dd) + ey * dx * dd); [ring|]. rewrite H1, H2. ring. }
  assert (0 <= (ex * (uy - dy) - ey * (ux - dx)) * dd) by (apply Qmult_le_0_compat; lra).
  assert (0 < (lam - dd) * (dx * ey - dy * ex)) by (apply Qmult_lt_0_compat; lra).
  nra.
Qed.

Lemma alg_before (gx gy dx dy ux uy lam dd : Q) :
  ux * dd == lam * dx -> uy * dd == lam * dy -> 0 < dd -> lam < 0 ->
  0 <= gx * uy - gy * ux -> 0 < gx * dy - gy * dx -> False.
Proof.
  intros H1 H2 Hd Hl S2 D.
  assert (E : (gx * uy - gy * ux) * dd == lam * (gx * dy - gy * dx)).
  { transitivity (gx * (uy * dd) - gy * (ux * dd)); [ring|]. rewrite H1, H2. ring. }
  assert (0 <= (gx * uy - gy * ux) * dd) by (apply Qmult_le_0_compat; lra).
  assert (0 < (- lam) * (gx * dy - gy * dx)) by (apply Qmult_lt_0_compat; lra).
  nra.
Qed.

Lemma cross_zero_of (kx ky dx dy ux uy lam dd : Q) :
  ux * dd == lam * dx -> uy * dd == lam * dy -> 0 < dd -> 0 < lam -> lam < dd ->
  0 <= - (kx * uy - ky * ux) -> 0 <= kx * (dy - uy) - ky * (dx - ux) -> kx * dy - ky * dx == 0.
Proof.
  intros H1 H2 Hd L0 L1 Sa Sb.
  assert (Ea : (- (kx * uy - ky * ux)) * dd == - lam * (kx * dy - ky * dx)).
  { transitivity (- (kx * (uy * dd) - ky * (ux * dd))); [ring|]. rewrite H1, H2. ring. }
  assert (Eb : (kx * (dy - uy) - ky * (dx - ux)) * dd == (dd - lam) * (kx * dy - ky * dx)).
  { transitivity (kx * dy * dd - kx * (uy * dd) - ky * dx * dd + ky * (ux * dd)); [ring|]. rewrite H1, H2. ring. }
  assert (0 <= (- (kx * uy - ky * ux)) * dd) by (apply Qmult_le_0_compat; lra).
  assert (0 <= (kx * (dy - uy) - ky * (dx - ux)) * dd) by (apply Qmult_le_0_compat; lra).
  set (X := kx * dy - ky * dx) in *.
  assert (X <= 0) by nra. assert (0 <= X) by nra. lra.
Qed.

Lemma alg_between (gx gy ex ey dx dy : Q) :
  0 < dx * dx + dy * dy -> gx * dy - gy * dx == 0 -> ex * dy - ey * dx == 0 -> 0 < gx * ey - gy * ex -> False.
Proof.
  intros Hd G E D.
  assert (I : (gx * ey - gy * ex) * (dx * dx + dy * dy)
              == (gx * dy - gy * dx) * (ex * dx + ey * dy) - (ex * dy - ey * dx) * (gx * dx + gy * dy)) by ring.
  rewrite G, E in I.
  assert (0 < (gx * ey - gy * ex) * (dx * dx + dy * dy)) by (apply Qmult_lt_0_compat; lra). lra.
Qed.

Lemma sq_pos (a : Q) : ~ a == 0 -> 0 < a * a.
Proof. intro H. destruct (Q_dec a 0) as [[L|G]|E]; [nra|nra|contradiction]. Qed.

Lemma sumsq_pos (a b : Q) : ~ (a == 0 /\ b == 0) -> 0 < a * a + b * b.
Proof.
  intro H. assert (0 <= a * a) by nra. assert (0 <= b * b) by nra.
  destruct (Qeq_dec a 0) as [Za|Na]; [destruct (Qeq_dec b 0) as [Zb|Nb]|].
  - exfalso. apply H. split; assumption.
  - pose proof (sq_pos b Nb). lra.
  - pose proof (sq_pos a Na). lra.
Qed.

(* ---------- a vertex on the line of an edge ---------- *)
Lemma edge_not_degenerate (P : polygon) (a b : point) :
  strictly_convex P -> In (a, b) (edges P) -> ~ peq a b.
Proof.
  intros HS He [E1 E2]. destruct (edges_in P a b He) as [_ Vb].
  destruct (vertex_edges P b Vb) as [_ [c Hc]].
  pose proof (HS a b b c He Hc (peq_refl b)) as D. unfold cross3 in D. rewrite E1, E2 in D. lra.
Qed.

Lemma collinear_vertex (P : polygon) (a b w : point) :
  convex_ccw P -> strictly_convex P -> In (a, b) (edges P) -> In w P -> side a b w == 0 ->
  peq w a \/ peq w b.
Proof.
  intros HC HS He Hw H0.
  pose proof (edge_not_degenerate P a b HS He) as Nab.
  destruct (edges_in P a b He) as [Va Vb].
  set (dx := px b - px a). set (dy := py b - py a). set (ux := px w - px a). set (uy := py w - py a).
  set (dd := dx * dx + dy * dy). set (lam := ux * dx + uy * dy).
  assert (Hs : dx * uy - dy * ux == 0) by (unfold side in H0; unfold dx, dy, ux, uy; lra).
  assert (Hd : 0 < dd).
  { unfold dd. apply sumsq_pos. intros [Zx Zy]. apply Nab. unfold dx, dy in *. split; lra. }
  assert (K1 : ux * dd == lam * dx).
  { assert (E : ux * dd - lam * dx == - dy * (dx * uy - dy * ux)) by (unfold dd, lam; ring). rewrite Hs in E. lra. }
  assert (K2 : uy * dd == lam * dy).
  { assert (E : uy * dd - lam * dy == dx * (dx * uy - dy * ux)) by (unfold dd, lam; ring). rewrite Hs in E. lra. }
  destruct (Q_dec lam 0) as [[Lneg|Lpos]|Lz].
  - (* before a *)
    exfalso. destruct (vertex_edges P a Va) as [[z Hz] _].
    pose proof (HS z a a b Hz He (peq_refl a)) as D.
    pose proof (HC w Hw (z, a) Hz) as S2. unfold left_of in S2. cbn [fst snd] in S2.
    apply (alg_before (px a - px z) (py a - py z) dx dy ux uy lam dd K1 K2 Hd Lneg).
    + unfold side in S2. unfold ux, uy. nra.
    + unfold cross3 in D. unfold dx, dy. lra.
  - destruct (Q_dec lam dd) as [[Llt|Lgt]|Le].
    + (* strictly between *)
      exfalso. destruct (vertex_edges P w Hw) as [[z Hz] [c Hc]].
      pose proof (HS z w w c Hz Hc (peq_refl w)) as D.
      pose proof (HC a Va (z, w) Hz) as Sza. pose proof (HC b Vb (z, w) Hz) as Szb.
      pose proof (HC a Va (w, c) Hc) as Sca. pose proof (HC b Vb (w, c) Hc) as Scb.
      unfold left_of in *. cbn [fst snd] in *.
      assert (G : (px w - px z) * dy - (py w - py z) * dx == 0).
      { apply (cross_zero_of _ _ dx dy ux uy lam dd K1 K2 Hd Lpos Llt).
        - unfold side in Sza. unfold ux, uy. nra.
        - unfold side in Szb. unfold ux, uy, dx, dy. nra. }
      assert (E : (px c - px w) * dy - (py c - py w) * dx == 0).
      { apply (cross_zero_of _ _ dx dy ux uy lam dd K1 K2 Hd Lpos Llt).
        - unfold side in Sca. unfold ux, uy. nra.
        - unfold side in Scb. unfold ux, uy, dx, dy. nra. }
      apply (alg_between (px w - px z) (py w - py z) (px c - px w) (py c - py w) dx dy Hd G E).
      unfold cross3 in D. lra.
    + (* beyond b *)
      exfalso. destruct (vertex_edges P b Vb) as [_ [c Hc]].
      pose proof (HS a b b c He Hc (peq_refl b)) as D.
      pose proof (HC w Hw (b, c) Hc) as S2. unfold left_of in S2. cbn [fst snd] in S2.
      apply (alg_beyond dx dy ux uy (px c - px b) (py c - py b) lam dd K1 K2 Hd Lgt).
      * unfold side in S2. unfold ux, uy, dx, dy. nra.
      * unfold cross3 in D. unfold dx, dy. lra.
    + right. rewrite Le in K1, K2. unfold ux, uy, dx, dy in *. split; nra.
  - left. rewrite Lz in K1, K2. unfold ux, uy in *. split; nra.
Qed.

(* ---------- strict position of the intersection point ---------- *)
Definition generic_line (x : bool) (v : Q) (P : polygon) : Prop := forall w, In w P -> ~ on_line x v w.

Lemma frac_bounds_strict (n d : Q) :
  (0 < d /\ 0 < n /\ n < d) \/ (d < 0 /\ d < n /\ n < 0) -> 0 < n / d /\ n / d < 1.
Proof.
  intros H. assert (Hd : ~ d == 0) by lra.
  pose proof (div_mul_cancel n d Hd) as E. set (t := n / d) in *.
  destruct H as [(H1 & H2 & H3)|(H1 & H2 & H3)]; split; nra.
Qed.

Lemma hp_mixed_strict (x : bool) (v : Q) (ge : bool) (p q : point) :
  hp_inside x v ge p <> hp_inside x v ge q -> ~ on_line x v p -> ~ on_line x v q ->
  exists t, 0 < t /\ t < 1 /\
    px (hp_intersect x v p q) == px p + t * (px q - px p) /\
    py (hp_intersect x v p q) == py p + t * (py q - py p) /\
    on_line x v (hp_intersect x v p q).
Proof.
  intros Hne Np Nq. unfold on_line in Np, Nq.
  assert (Hc : (0 < coord x q - coord x p /\ 0 < v - coord x p /\ v - coord x p < coord x q - coord x p) \/
               (coord x q - coord x p < 0 /\ coord x q - coord x p < v - coord x p /\ v - coord x p < 0)).
  { destruct ge; destruct (hp_inside x v _ p) eqn:Ep; destruct (hp_inside x v _ q) eqn:Eq; try congruence.
    - apply hp_in_ge in Ep. apply hp_out_ge in Eq. right. lra.
    - apply hp_out_ge in Ep. apply hp_in_ge in Eq. left. lra.
    - apply hp_in_le in Ep. apply hp_out_le in Eq. left. lra.
    - apply hp_out_le in Ep. apply hp_in_le in Eq. right. lra. }
  assert (Hd : ~ coord x q == coord x p) by lra.
  destruct (hp_intersect_spec x v p q Hd) as (H1 & H2 & H3 & _).
  destruct (frac_bounds_strict _ _ Hc) as [T0 T1].
  exists ((v - coord x p) / (coord x q - coord x p)). repeat split; assumption.
Qed.

Lemma side_self (a b : point) : side a b a == 0 /\ side a b b == 0.
Proof. unfold side. split; ring. Qed.
Lemma side_cross3 (a b c : point) : side a b c == cross3 a b c.
Proof. unfold side, cross3. ring. Qed.

(* cross3 in the (clipped coordinate, other coordinate) frame *)
Lemma cross3_frame (x : bool) (a b c : point) :
  cross3 a b c == (if x then 1 else -(1)) *
    ((coord x b - coord x a) * (other x c - other x b) - (other x b - other x a) * (coord x c - coord x b)).
Proof. unfold cross3, coord, other. destruct x; ring. Qed.

Lemma sh_step_keeps (x : bool) (v : Q) (ge : bool) (w : point) (l : list point) (prev : point) :
  In w l -> hp_inside x v ge w = true -> In w (sh_step x v ge prev l).
Proof.
  revert prev. induction l as [|c r IH]; intros prev Hin Hw; [destruct Hin|].
  cbn [sh_step]. apply in_or_app. destruct Hin as [->|Hin]; [left|right; apply IH; assumption].
  rewrite Hw. destruct (hp_inside x v ge prev); cbn [In]; tauto.
Qed.

Lemma cross3_line_bc (x : bool) (v : Q) (a b c : point) :
  coord x b == v -> coord x c == v -> cross3 a b c == 0 -> (v - coord x a) * (other x c - other x b) == 0.
Proof. unfold cross3, coord, other. destruct x; intros Hb Hc Z; rewrite Hb, Hc in Z; nra. Qed.
Lemma cross3_line_ab (x : bool) (v : Q) (a b c : point) :
  coord x a == v -> coord x b == v -> cross3 a b c == 0 -> (other x b - other x a) * (coord x c - v) == 0.
Proof. unfold cross3, coord, other. destruct x; intros Ha Hb Z; rewrite Ha, Hb in Z; nra. Qed.

Section Strict.
Variables (x : bool) (v : Q) (ge : bool) (P : polygon).
Hypothesis HC : convex_ccw P.
Hypothesis HS : strictly_convex P.
Hypothesis HG : generic_line x v P.
Let inb (p : point) : bool := hp_inside x v ge p.

Definition isExit (u : point) : Prop :=
  exists p1 q1, In (p1, q1) (edges P) /\ inb p1 = true /\ inb q1 = false /\ u = hp_intersect x v p1 q1.
Definition isEntry (w : point) : Prop :=
  exists p2 q2, In (p2, q2) (edges P) /\ inb p2 = false /\ inb q2 = true /\ w = hp_intersect x v p2 q2.

Lemma edge_mixed_strict (p q : point) : In (p, q) (edges P) -> inb p <> inb q ->
  exists t, 0 < t /\ t < 1 /\
    px (hp_intersect x v p q) == px p + t * (px q - px p) /\
    py (hp_intersect x v p q) == py p + t * (py q - py p) /\
    on_line x v (hp_intersect x v p q).
Proof.
  intros He Hne. destruct (edges_in P p q He) as [Vp Vq].
  apply (hp_mixed_strict x v ge); [exact Hne|apply HG; exact Vp|apply HG; exact Vq].
Qed.

Lemma exit_on_line (u : point) : isExit u -> on_line x v u.
Proof.
  intros (p1 & q1 & He & I1 & O1 & ->).
  destruct (edge_mixed_strict p1 q1 He) as (t & _ & _ & _ & _ & L); [unfold inb in *; congruence|exact L].
Qed.
Lemma entry_on_line (w : point) : isEntry w -> on_line x v w.
Proof.
  intros (p1 & q1 & He & I1 & O1 & ->).
  destruct (edge_mixed_strict p1 q1 He) as (t & _ & _ & _ & _ & L); [unfold inb in *; congruence|exact L].
Qed.

(* an exit point and an entry point never coincide *)
Lemma exit_ne_entry (u w : point) : isExit u -> isEntry w -> ~ peq u w.
Proof.
  intros (p3 & q3 & He3 & Ip3 & Oq3 & ->) (p4 & q4 & He4 & Op4 & Iq4 & ->) Hpeq.
  destruct (edge_mixed_strict p3 q3 He3) as (t & T0 & T1 & Hx3 & Hy3 & _); [congruence|].
  destruct (edge_mixed_strict p4 q4 He4) as (s & S0 & S1 & Hx4 & Hy4 & _); [congruence|].
  destruct (edges_in P p3 q3 He3) as [Vp3 Vq3]. destruct (edges_in P p4 q4 He4) as [Vp4 Vq4].
  pose proof (side_affine p3 q3 p3 q3 _ t Hx3 Hy3) as E3. destruct (side_self p3 q3) as [Z1 Z2]. rewrite Z1, Z2 in E3.
  pose proof (side_peq p3 p3 q3 q3 _ _ (peq_refl _) (peq_refl _) Hpeq) as E34. rewrite E3 in E34.
  rewrite (side_affine p3 q3 p4 q4 _ s Hx4 Hy4) in E34.
  pose proof (HC p4 Vp4 (p3, q3) He3) as A4. pose proof (HC q4 Vq4 (p3, q3) He3) as B4.
  unfold left_of in A4, B4. cbn [fst snd] in A4, B4.
  assert (0 <= (1 - s) * side p3 q3 p4) by (apply Qmult_le_0_compat; lra).
  assert (0 <= s * side p3 q3 q4) by (apply Qmult_le_0_compat; lra).
  assert (ZA : side p3 q3 p4 == 0) by nra. assert (ZB : side p3 q3 q4 == 0) by nra.
  destruct (collinear_vertex P p3 q3 p4 HC HS He3 Vp4 ZA) as [K|K].
  { pose proof (hp_inside_peq x v ge _ _ K). unfold inb in *. congruence. }
  destruct (collinear_vertex P p3 q3 q4 HC HS He3 Vq4 ZB) as [K'|K'];
    [|pose proof (hp_inside_peq x v ge _ _ K'); unfold inb in *; congruence].
  pose proof (HS p4 q4 p3 q3 He4 He3 K') as D. destruct K as [E1 E2].
  assert (Z : cross3 p4 q4 q3 == 0) by (unfold cross3; rewrite E1, E2; ring). lra.
Qed.

(* ---------- the edges of the clipped polygon, by kind ---------- *)
Inductive etype : point * point -> Prop :=
| ET1 a b : In (a, b) (edges P) -> inb a = true -> inb b = true -> etype (a, b)
| ET2 p b : In (p, b) (edges P) -> inb p = false -> inb b = true -> etype (hp_intersect x v p b, b)
| ET3 a q : In (a, q) (edges P) -> inb a = true -> inb q = false -> etype (a, hp_intersect x v a q)
| ET4 u w : isExit u -> isEntry w -> etype (u, w).

Lemma etype_chain (l : list point) : forall (prev A : point),
  (forall e, In e (edges_from prev l) -> In e (edges P)) ->
  (inb prev = true -> A = prev) -> (inb prev = false -> isExit A) ->
  forall e, In e (edges_from A (sh_step x v ge prev l)) -> etype e.
Proof.
  induction l as [|cur r IH]; intros prev A Hsub W1 W2 e He; [destruct He|].
  assert (Hpc : In (prev, cur) (edges P)) by (apply Hsub; left; reflexivity).
  assert (Hsub' : forall e0, In e0 (edges_from cur r) -> In e0 (edges P)) by (intros e0 H0; apply Hsub; right; exact H0).
  cbn [sh_step] in He. fold (inb cur) in He. fold (inb prev) in He.
  destruct (inb cur) eqn:Ec; destruct (inb prev) eqn:Ep; cbn [app edges_from In] in He.
  - destruct He as [<-|He].
    + rewrite (W1 eq_refl). apply ET1; assumption.
    + apply (IH cur cur Hsub'); [reflexivity|congruence|exact He].
  - destruct He as [<-|[<-|He]].
    + apply ET4; [exact (W2 eq_refl)|]. exists prev, cur. repeat split; assumption.
    + apply ET2; assumption.
    + apply (IH cur cur Hsub'); [reflexivity|congruence|exact He].
  - destruct He as [<-|He].
    + rewrite (W1 eq_refl). apply ET3; assumption.
    + apply (IH cur (hp_intersect x v prev cur) Hsub'); [congruence| |exact He].
      intros _. exists prev, cur. repeat split; assumption.
  - apply (IH cur A Hsub'); [congruence| |exact He]. intros _. exact (W2 eq_refl).
Qed.

Lemma last_out_eq (l : list point) : forall (prev A : point),
  (inb prev = true -> A = prev) -> inb (last l prev) = true -> last (sh_step x v ge prev l) A = last l prev.
Proof.
  induction l as [|cur r IH]; intros prev A W Hl; [exact (W Hl)|].
  rewrite last_cons_default in *. cbn [sh_step]. rewrite last_app_default. apply IH; [|exact Hl].
  intro Ec. fold (inb cur). rewrite Ec. destruct (hp_inside x v ge prev); reflexivity.
Qed.

Lemma last_out_exit (l : list point) : forall (prev A : point),
  (forall e, In e (edges_from prev l) -> In e (edges P)) -> inb (last l prev) = false ->
  isExit (last (sh_step x v ge prev l) A) \/ (sh_step x v ge prev l = [] /\ inb prev = false).
Proof.
  induction l as [|cur r IH]; intros prev A Hsub Hl; [right; split; [reflexivity|exact Hl]|].
  assert (Hpc : In (prev, cur) (edges P)) by (apply Hsub; left; reflexivity).
  assert (Hsub' : forall e0, In e0 (edges_from cur r) -> In e0 (edges P)) by (intros e0 H0; apply Hsub; right; exact H0).
  rewrite last_cons_default in Hl. cbn [sh_step]. rewrite last_app_default.
  set (X := if hp_inside x v ge cur
            then if hp_inside x v ge prev then [cur] else [hp_intersect x v prev cur; cur]
            else if hp_inside x v ge prev then [hp_intersect x v prev cur] else []).
  destruct (IH cur (last X A) Hsub' Hl) as [S|[E Ec]]; [left; exact S|].
  rewrite E, app_nil_r. cbn [last]. unfold X. unfold inb in Ec. rewrite Ec.
  destruct (hp_inside x v ge prev) eqn:Ep.
  - left. cbn [last]. exists prev, cur. repeat split; assumption.
  - right. split; [reflexivity|exact Ep].
Qed.

Lemma etype_all (e : point * point) : In e (edges (sh_clip1 x v ge P)) -> etype e.
Proof.
  destruct P as [|p0 r] eqn:EP; [intros []|]. rewrite <- EP in *.
  assert (NE : P <> []) by (rewrite EP; discriminate).
  intro He. unfold edges in He.
  assert (Ecl : sh_clip1 x v ge P = sh_step x v ge (last P (0, 0)) P) by (rewrite EP; reflexivity).
  rewrite Ecl in He. set (prev := last P (0, 0)) in *.
  destruct (sh_step x v ge prev P) as [|o os] eqn:Eo; [destruct He|]. rewrite <- Eo in He.
  assert (E1 : last P prev = prev) by (apply last_nonempty_default; exact NE).
  apply (etype_chain P prev (last (sh_step x v ge prev P) (0, 0))); [intros e0 H0; exact H0| | |exact He].
  - intro Hin. rewrite (last_nonempty_default _ (0, 0) prev) by (rewrite Eo; discriminate).
    transitivity (last P prev); [|exact E1]. apply last_out_eq; [reflexivity|rewrite E1; exact Hin].
  - intro Hout. destruct (last_out_exit P prev (0, 0) (fun e0 H0 => H0)) as [S|[E _]]; [rewrite E1; exact Hout|exact S|].
    rewrite Eo in E. discriminate.
Qed.

(* ---------- corners ---------- *)
Lemma inside_vertex_off (b : point) : In b P -> ~ on_line x v b.
Proof. apply HG. Qed.

Lemma corner_nonzero (a b b' c : point) : etype (a, b) -> etype (b', c) -> peq b b' -> ~ cross3 a b c == 0.
Proof.
  intros T1 T2 Hb.
  (* the in-edge: b is a vertex of P (with a on the edge of P into b) or b is on the clip line *)
  assert (Cin : (In b P /\ exists a0 t, In (a0, b) (edges P) /\ 0 <= t /\ t < 1 /\
                   px a == px a0 + t * (px b - px a0) /\ py a == py a0 + t * (py b - py a0))
                \/ (isExit b /\ In a P) \/ (isEntry b /\ isExit a)).
  { inversion T1 as [a1 b1 He Ia Ib|p1 b1 He Op Ib|a1 q1 He Ia Oq|u1 w1 Hu Hw]; subst.
    - left. split; [apply (edges_in P a b He)|]. exists a, 0. repeat split; try assumption; try lra; ring.
    - left. split; [apply (edges_in P p1 b He)|].
      destruct (edge_mixed_strict p1 b He) as (t & T0 & T1' & Hx & Hy & _); [congruence|].
      exists p1, t. repeat split; try assumption; lra.
    - right; left. split; [exists a, q1; repeat split; assumption|apply (edges_in P a q1 He)].
    - right; right. split; assumption. }
  assert (Cout : (In b' P /\ exists c0 s, In (b', c0) (edges P) /\ 0 < s /\ s <= 1 /\
                   px c == px b' + s * (px c0 - px b') /\ py c == py b' + s * (py c0 - py b'))
                \/ (isEntry b' /\ In c P) \/ (isExit b' /\ isEntry c)).
  { inversion T2 as [a1 b1 He Ia Ib|p1 b1 He Op Ib|a1 q1 He Ia Oq|u1 w1 Hu Hw]; subst.
    - left. split; [apply (edges_in P b' c He)|]. exists c, 1. repeat split; try assumption; try lra; ring.
    - right; left. split; [exists p1, c; repeat split; assumption|apply (edges_in P p1 c He)].
    - left. split; [apply (edges_in P b' q1 He)|].
      destruct (edge_mixed_strict b' q1 He) as (s & S0 & S1 & Hx & Hy & _); [congruence|].
      exists q1, s. repeat split; try assumption; lra.
    - right; right. split; assumption. }
  pose proof (coord_peq x b b' Hb) as Cb. pose proof (other_peq x b b' Hb) as Ob.
  destruct Cin as [[Vb (a0 & t & Hea & T0 & T1' & Hax & Hay)]|[[Xb Va]|[Nb Xa]]];
  destruct Cout as [[Vb' (c0 & s & Hec & S0 & S1 & Hcx & Hcy)]|[[Nb' Vc]|[Xb' Nc]]].
  - (* both at a vertex of P *)
    destruct Hb as [E1 E2]. pose proof (HS a0 b b' c0 Hea Hec (conj E1 E2)) as D.
    assert (E : cross3 a b c == (1 - t) * s * cross3 a0 b c0).
    { unfold cross3. rewrite Hax, Hay, Hcx, Hcy, <- E1, <- E2. ring. }
    rewrite E. assert (0 < (1 - t) * s) by (apply Qmult_lt_0_compat; lra).
    assert (0 < (1 - t) * s * cross3 a0 b c0) by (apply Qmult_lt_0_compat; lra). lra.
  - exfalso. apply (inside_vertex_off b Vb). unfold on_line. rewrite Cb. apply entry_on_line. exact Nb'.
  - exfalso. apply (inside_vertex_off b Vb). unfold on_line. rewrite Cb. apply exit_on_line. exact Xb'.
  - exfalso. apply (inside_vertex_off b' Vb'). unfold on_line. rewrite <- Cb. apply exit_on_line. exact Xb.
  - exfalso. apply (exit_ne_entry b b' Xb Nb' Hb).
  - (* a inside vertex, b exit, c entry *)
    pose proof (exit_on_line b Xb) as Lb. pose proof (entry_on_line c Nc) as Lc.
    pose proof (inside_vertex_off a Va) as Na. unfold on_line in *.
    intro Z. destruct (Qmult_integral _ _ (cross3_line_bc x v a b c Lb Lc Z)) as [K|K]; [apply Na; lra|].
    apply (exit_ne_entry b c Xb Nc). apply (peq_coords x); lra.
  - exfalso. apply (inside_vertex_off b' Vb'). unfold on_line. rewrite <- Cb. apply entry_on_line. exact Nb.
  - (* a exit, b entry, c inside vertex *)
    pose proof (exit_on_line a Xa) as La. pose proof (entry_on_line b Nb) as Lb.
    pose proof (inside_vertex_off c Vc) as Ncv. unfold on_line in *.
    intro Z. destruct (Qmult_integral _ _ (cross3_line_ab x v a b c La Lb Z)) as [K|K]; [|apply Ncv; lra].
    apply (exit_ne_entry a b Xa Nb). apply (peq_coords x); lra.
  - exfalso. apply (exit_ne_entry b' b Xb' Nb). apply peq_sym. exact Hb.
Qed.

Theorem clip_strictly_convex_sec : strictly_convex (sh_clip1 x v ge P).
Proof.
  intros a b b' c H1 H2 Hb.
  pose proof (corner_nonzero a b b' c (etype_all _ H1) (etype_all _ H2) Hb) as NZ.
  pose proof (clip_convex x v ge P HC) as HQ.
  destruct (edges_in _ b' c H2) as [_ Vc].
  pose proof (HQ c Vc (a, b) H1) as S. unfold left_of in S. cbn [fst snd] in S.
  rewrite side_cross3 in S. destruct (Qlt_le_dec 0 (cross3 a b c)) as [G|L]; [exact G|].
  exfalso. apply NZ. lra.
Qed.
End Strict.

Theorem clip_strictly_convex (x : bool) (v : Q) (ge : bool) (P : polygon) :
  convex_ccw P -> strictly_convex P -> generic_line x v P -> strictly_convex (sh_clip1 x v ge P).
Proof. intros. apply clip_strictly_convex_sec; assumption. Qed.

Lemma clip_nonempty (x : bool) (v : Q) (ge : bool) (P : polygon) :
  (exists w, In w P /\ hp_inside x v ge w = true) -> sh_clip1 x v ge P <> [].
Proof.
  intros (w & Hw & Hi). destruct P as [|p0 r]; [destruct Hw|].
  unfold sh_clip1. intro E. pose proof (sh_step_keeps x v ge w (p0 :: r) (last (p0 :: r) (0, 0)) Hw Hi) as K.
  rewrite E in K. destruct K.
Qed.

(* THE REGION OF THE CLIPPED POLYGON IS EXACTLY THE INTERSECTION *)
Theorem clip_halfplane_exact (x : bool) (v : Q) (ge : bool) (P : polygon) (p : point) :
  convex_ccw P -> strictly_convex P -> generic_line x v P ->
  (exists w, In w P /\ hp_inside x v ge w = true) ->
  (in_poly (sh_clip1 x v ge P) p <-> in_poly P p /\ hp_inside x v ge p = true).
Proof.
  intros HC HS HG HN. split.
  - apply clip_halfplane_sound; [exact HC|apply clip_strictly_convex; assumption|apply clip_nonempty; exact HN].
  - intros [H1 H2]. apply clip_halfplane_complete; assumption.
Qed.
