(* Proofs/PolyRegionFacts.v — what the Sutherland–Hodgman half-plane clipper (sh_clip1,
   Model/Clip.v) does to the REGION of a convex polygon, pointwise.

   A polygon is an anticlockwise vertex list; its region is  in_poly P p : p is on the left of
   (or on) every directed edge, the closing edge included.  convex_ccw P : every vertex is in the
   region (global convexity; collinear and repeated vertices allowed — the pentagram, which
   passes the local test convexb, does not).

     clip_vertices_sound     every output vertex lies in region(P) and in the half-plane
     clip_halfplane_complete region(P) /\ H  is contained in  region(clip P)     (any convex P)
     clip_convex             the output is convex_ccw again
     clip_halfplane_sound    region(clip P) is contained in region(P) /\ H, PROVIDED the output
                             is strictly convex at every corner (strictly_convex, decidable:
                             strictly_convexb).  Without a non-degeneracy condition the inclusion
                             is false (output reduced to a point or a segment).
     cell_complete / cell_sound  the same for the four clips of clip_polygon.

   That the output of a strictly convex polygon in general position IS strictly convex is proved
   in Proofs/PolyStrictFacts.v (clip_strictly_convex, clip_halfplane_exact) and for the four clips
   of the cell in Proofs/PolyExactFacts.v (cell_exact).  Nothing for non-convex polygons. *)
From Coq Require Import List ZArith QArith Bool Qminmax Lqa Lia.
From Koala Require Import Model.Clip Proofs.ClipFacts Proofs.PolyAreaFacts Proofs.PolyCellFacts.
Import ListNotations.
Open Scope Q_scope.

Fixpoint edges_from (prev : point) (l : list point) : list (point * point) :=
  match l with
  | [] => []
  | c :: r => (prev, c) :: edges_from c r
  end.
(* the directed edges, the closing edge (last, first) first *)
Definition edges (P : polygon) : list (point * point) := edges_from (last P (0, 0)) P.
Definition left_of (e : point * point) (p : point) : Prop := 0 <= side (fst e) (snd e) p.
Definition in_poly (P : polygon) (p : point) : Prop := forall e, In e (edges P) -> left_of e p.
Definition convex_ccw (P : polygon) : Prop := forall w, In w P -> in_poly P w.

(* ---------- side ---------- *)
Lemma side_peq (a a' b b' p p' : point) : peq a a' -> peq b b' -> peq p p' -> side a b p == side a' b' p'.
Proof. intros [A1 A2] [B1 B2] [P1 P2]. unfold side. rewrite A1, A2, B1, B2, P1, P2. reflexivity. Qed.

Lemma side_affine (a b p q I : point) (t : Q) :
  px I == px p + t * (px q - px p) -> py I == py p + t * (py q - py p) ->
  side a b I == (1 - t) * side a b p + t * side a b q.
Proof. intros Hx Hy. unfold side. rewrite Hx, Hy. ring. Qed.

Lemma side_sub (p q I z : point) (t : Q) :
  px I == px p + t * (px q - px p) -> py I == py p + t * (py q - py p) ->
  side p I z == t * side p q z /\ side I q z == (1 - t) * side p q z.
Proof. intros Hx Hy. unfold side. rewrite Hx, Hy. split; ring. Qed.

Lemma in_poly_seg_closed (P : polygon) : seg_closed (in_poly P).
Proof.
  intros p q I t Hp Hq T0 T1 Hx Hy e He. unfold left_of.
  rewrite (side_affine _ _ p q I t Hx Hy).
  pose proof (Hp e He) as H1. pose proof (Hq e He) as H2. unfold left_of in H1, H2.
  assert (0 <= (1 - t) * side (fst e) (snd e) p) by (apply Qmult_le_0_compat; lra).
  assert (0 <= t * side (fst e) (snd e) q) by (apply Qmult_le_0_compat; lra). lra.
Qed.

(* ---------- edges ---------- *)
Lemma edges_from_in (prev : point) (l : list point) (a b : point) :
  In (a, b) (edges_from prev l) -> (a = prev \/ In a l) /\ In b l.
Proof.
  revert prev. induction l as [|c r IH]; intros prev H; [destruct H|].
  cbn [edges_from In] in H. destruct H as [H|H].
  - injection H as <- <-. split; [left; reflexivity|left; reflexivity].
  - destruct (IH c H) as [[->|Ha] Hb]; split; try (right; assumption); right; [left; reflexivity|right; assumption].
Qed.
Lemma last_in {A : Type} (l : list A) (d : A) : l <> [] -> In (last l d) l.
Proof.
  induction l as [|a l IH]; intro H; [congruence|]. destruct l as [|b l]; [left; reflexivity|].
  right. apply IH. discriminate.
Qed.
Lemma edges_in (P : polygon) (a b : point) : In (a, b) (edges P) -> In a P /\ In b P.
Proof.
  intro H. unfold edges in H. destruct (edges_from_in _ _ _ _ H) as [[->|Ha] Hb]; split; try assumption.
  apply last_in. intro E. rewrite E in Hb. destruct Hb.
Qed.

Lemma vertex_has_in_edge (prev : point) (l : list point) (m : point) :
  In m l -> exists a, In (a, m) (edges_from prev l).
Proof.
  revert prev. induction l as [|c r IH]; intros prev H; [destruct H|].
  destruct H as [->|H]; [exists prev; left; reflexivity|].
  destruct (IH c H) as [a Ha]. exists a. right. exact Ha.
Qed.
Lemma vertex_has_out_edge (prev : point) (l : list point) (m : point) :
  In m l -> m = last l prev \/ exists c, In (m, c) (edges_from prev l).
Proof.
  revert prev. induction l as [|c0 r IH]; intros prev H; [destruct H|].
  rewrite last_cons_default. destruct H as [->|H].
  - destruct r as [|c1 r']; [left; reflexivity|]. right. exists c1. right. left. reflexivity.
  - destruct (IH c0 H) as [E|[c Hc]]; [left; exact E|]. right. exists c. right. exact Hc.
Qed.
Lemma vertex_edges (P : polygon) (m : point) :
  In m P -> (exists a, In (a, m) (edges P)) /\ (exists c, In (m, c) (edges P)).
Proof.
  intro H. unfold edges. split; [apply vertex_has_in_edge; exact H|].
  destruct (vertex_has_out_edge (last P (0, 0)) P m H) as [E|E]; [|exact E].
  destruct P as [|p0 r]; [destruct H|].
  rewrite (last_nonempty_default (p0 :: r) (last (p0 :: r) (0, 0)) (0, 0)) in E by discriminate.
  exists p0. rewrite E. left. reflexivity.
Qed.

(* ---------- soundness on vertices ---------- *)
Theorem clip_vertices_sound (x : bool) (v : Q) (ge : bool) (P : polygon) : convex_ccw P ->
  Forall (fun w => in_poly P w /\ hp_inside x v ge w = true) (sh_clip1 x v ge P).
Proof.
  intro HC. apply Forall_and; [|apply sh_clip1_inside].
  apply sh_clip1_Forall; [apply in_poly_seg_closed|]. apply Forall_forall. exact HC.
Qed.

(* ---------- completeness ---------- *)
Section Complete.
Variables (x : bool) (v : Q) (ge : bool) (P : polygon) (p : point).
Hypothesis HC : convex_ccw P.
Hypothesis HP : in_poly P p.
Hypothesis HH : hp_inside x v ge p = true.

(* every point of the region on the clip line lies, along the line, after A *)
Definition Sstrong (A : point) : Prop := forall z, on_line x v z -> in_poly P z -> 0 <= side A z p.
Definition Wb (prev A : point) : Prop :=
  (hp_inside x v ge prev = true -> peq A prev) /\
  (hp_inside x v ge prev = false -> on_line x v A /\ Sstrong A).

Lemma exit_strong (a b : point) : In (a, b) (edges P) ->
  hp_inside x v ge a = true -> hp_inside x v ge b = false -> Sstrong (hp_intersect x v a b).
Proof.
  intros He Ha Hb z Hz Hzp. pose proof (Hzp (a, b) He) as Hs. unfold left_of in Hs. cbn [fst snd] in Hs.
  assert (Hd : ~ coord x b == coord x a).
  { destruct ge; [apply hp_in_ge in Ha; apply hp_out_ge in Hb|apply hp_in_le in Ha; apply hp_out_le in Hb]; lra. }
  destruct (hp_intersect_spec x v a b Hd) as (_ & _ & C & O).
  set (I := hp_intersect x v a b) in *. set (t := (v - coord x a) / (coord x b - coord x a)) in *.
  assert (E1 : t * (coord x b - coord x a) == v - coord x a) by (unfold t; field; lra).
  unfold on_line in Hz. pose proof HH as Hp.
  destruct x, ge; unfold coord, other in *;
    [apply hp_in_ge in Ha; apply hp_out_ge in Hb; apply hp_in_ge in Hp
    |apply hp_in_le in Ha; apply hp_out_le in Hb; apply hp_in_le in Hp
    |apply hp_in_ge in Ha; apply hp_out_ge in Hb; apply hp_in_ge in Hp
    |apply hp_in_le in Ha; apply hp_out_le in Hb; apply hp_in_le in Hp];
    unfold coord in *.
  - assert (K : (px b - px a) * (py z - py I) == side a b z) by (unfold side; rewrite O, Hz, <- E1; ring).
    assert (L : py z <= py I) by nra.
    unfold side. rewrite Hz, C.
    assert (0 <= (py I - py z) * (px p - v)) by (apply Qmult_le_0_compat; lra). lra.
  - assert (K : (px b - px a) * (py z - py I) == side a b z) by (unfold side; rewrite O, Hz, <- E1; ring).
    assert (L : py I <= py z) by nra.
    unfold side. rewrite Hz, C.
    assert (0 <= (py z - py I) * (v - px p)) by (apply Qmult_le_0_compat; lra). lra.
  - assert (K : (py b - py a) * (px I - px z) == side a b z) by (unfold side; rewrite O, Hz, <- E1; ring).
    assert (L : px I <= px z) by nra.
    unfold side. rewrite Hz, C.
    assert (0 <= (px z - px I) * (py p - v)) by (apply Qmult_le_0_compat; lra). lra.
  - assert (K : (py b - py a) * (px I - px z) == side a b z) by (unfold side; rewrite O, Hz, <- E1; ring).
    assert (L : px z <= px I) by nra.
    unfold side. rewrite Hz, C.
    assert (0 <= (px I - px z) * (v - py p)) by (apply Qmult_le_0_compat; lra). lra.
Qed.

Lemma complete_chain (l : list point) : forall (prev A : point),
  (forall e, In e (edges_from prev l) -> In e (edges P)) -> Wb prev A ->
  forall e, In e (edges_from A (sh_step x v ge prev l)) -> left_of e p.
Proof.
  induction l as [|cur r IH]; intros prev A Hsub [W1 W2] e He; [destruct He|].
  assert (Hpc : In (prev, cur) (edges P)) by (apply Hsub; left; reflexivity).
  assert (Hsub' : forall e0, In e0 (edges_from cur r) -> In e0 (edges P)) by (intros e0 H0; apply Hsub; right; exact H0).
  pose proof (HP (prev, cur) Hpc) as Spc. unfold left_of in Spc. cbn [fst snd] in Spc.
  destruct (edges_in P prev cur Hpc) as [Vp Vc].
  cbn [sh_step] in He.
  destruct (hp_inside x v ge cur) eqn:Ec; destruct (hp_inside x v ge prev) eqn:Ep; cbn [app edges_from In] in He.
  - destruct He as [<-|He].
    + unfold left_of. cbn [fst snd]. rewrite (side_peq A prev cur cur p p (W1 eq_refl) (peq_refl _) (peq_refl _)). exact Spc.
    + apply (IH cur cur Hsub'); [|exact He]. split; [intros _; apply peq_refl|congruence].
  - assert (M : hp_inside x v ge prev <> hp_inside x v ge cur) by congruence.
    destruct (hp_mixed x v ge prev cur M) as (t & T0 & T1 & Hx & Hy & L).
    destruct (W2 eq_refl) as [LA SA].
    destruct He as [<-|[<-|He]].
    + unfold left_of. cbn [fst snd]. apply SA; [exact L|].
      exact (in_poly_seg_closed P prev cur _ t (HC prev Vp) (HC cur Vc) T0 T1 Hx Hy).
    + unfold left_of. cbn [fst snd]. destruct (side_sub prev cur _ p t Hx Hy) as [_ E2]. rewrite E2.
      apply Qmult_le_0_compat; lra.
    + apply (IH cur cur Hsub'); [|exact He]. split; [intros _; apply peq_refl|congruence].
  - assert (M : hp_inside x v ge prev <> hp_inside x v ge cur) by congruence.
    destruct (hp_mixed x v ge prev cur M) as (t & T0 & T1 & Hx & Hy & L).
    destruct He as [<-|He].
    + unfold left_of. cbn [fst snd].
      rewrite (side_peq A prev _ _ p p (W1 eq_refl) (peq_refl _) (peq_refl _)).
      destruct (side_sub prev cur _ p t Hx Hy) as [E1 _]. rewrite E1. apply Qmult_le_0_compat; lra.
    + apply (IH cur (hp_intersect x v prev cur) Hsub'); [|exact He]. split; [congruence|].
      intros _. split; [exact L|]. apply exit_strong; assumption.
  - apply (IH cur A Hsub'); [|exact He]. split; [congruence|]. intros _. exact (W2 eq_refl).
Qed.

Lemma final_strong (l : list point) : forall (prev A : point),
  (forall e, In e (edges_from prev l) -> In e (edges P)) ->
  hp_inside x v ge (last l prev) = false ->
  Sstrong (last (sh_step x v ge prev l) A) \/ (sh_step x v ge prev l = [] /\ hp_inside x v ge prev = false).
Proof.
  induction l as [|cur r IH]; intros prev A Hsub Hl; [right; split; [reflexivity|exact Hl]|].
  assert (Hpc : In (prev, cur) (edges P)) by (apply Hsub; left; reflexivity).
  assert (Hsub' : forall e0, In e0 (edges_from cur r) -> In e0 (edges P)) by (intros e0 H0; apply Hsub; right; exact H0).
  rewrite last_cons_default in Hl. cbn [sh_step]. rewrite last_app_default.
  set (X := if hp_inside x v ge cur
            then if hp_inside x v ge prev then [cur] else [hp_intersect x v prev cur; cur]
            else if hp_inside x v ge prev then [hp_intersect x v prev cur] else []).
  destruct (IH cur (last X A) Hsub' Hl) as [S|[E Ec]]; [left; exact S|].
  rewrite E, app_nil_r. cbn [last]. unfold X. rewrite Ec.
  destruct (hp_inside x v ge prev) eqn:Ep.
  - left. cbn [last]. apply exit_strong; assumption.
  - right. split; reflexivity.
Qed.

Theorem clip_complete_sec : in_poly (sh_clip1 x v ge P) p.
Proof.
  destruct P as [|p0 r] eqn:EP; [intros e He; destruct He|]. rewrite <- EP in *.
  assert (NE : P <> []) by (rewrite EP; discriminate).
  intros e He. unfold edges in He.
  assert (Ecl : sh_clip1 x v ge P = sh_step x v ge (last P (0, 0)) P) by (rewrite EP; reflexivity).
  rewrite Ecl in He. set (prev := last P (0, 0)) in *.
  destruct (sh_step x v ge prev P) as [|o os] eqn:Eo; [destruct He|]. rewrite <- Eo in He.
  assert (E1 : last P prev = prev) by (apply last_nonempty_default; exact NE).
  apply (complete_chain P prev (last (sh_step x v ge prev P) (0, 0))); [intros e0 H0; exact H0| |exact He].
  split.
  - intro Hin.
    assert (W0 : Wv x v ge prev prev) by (split; [intros _; apply peq_refl|congruence]).
    pose proof (Wv_step x v ge P prev prev W0) as [W1 _]. rewrite E1 in W1.
    rewrite (last_nonempty_default _ (0, 0) prev) by (rewrite Eo; discriminate). exact (W1 Hin).
  - intro Hout. split.
    + assert (W0 : Wv x v ge prev (line_pt x v)) by (split; [congruence|intros _; apply line_pt_on]).
      pose proof (Wv_step x v ge P prev _ W0) as [_ W1]. rewrite E1 in W1.
      rewrite (last_nonempty_default _ (0, 0) (line_pt x v)) by (rewrite Eo; discriminate). exact (W1 Hout).
    + destruct (final_strong P prev (0, 0) (fun e0 H0 => H0)) as [S|[E _]]; [rewrite E1; exact Hout|exact S|].
      rewrite Eo in E. discriminate.
Qed.
End Complete.

Theorem clip_halfplane_complete (x : bool) (v : Q) (ge : bool) (P : polygon) (p : point) :
  convex_ccw P -> in_poly P p -> hp_inside x v ge p = true -> in_poly (sh_clip1 x v ge P) p.
Proof. intros. apply clip_complete_sec; assumption. Qed.

Theorem clip_convex (x : bool) (v : Q) (ge : bool) (P : polygon) :
  convex_ccw P -> convex_ccw (sh_clip1 x v ge P).
Proof.
  intros HC w Hw. pose proof (clip_vertices_sound x v ge P HC) as F. rewrite Forall_forall in F.
  destruct (F w Hw) as [H1 H2]. apply clip_halfplane_complete; assumption.
Qed.

(* ---------- soundness for a strictly convex output ---------- *)
Definition strictly_convex (Q0 : polygon) : Prop :=
  forall a b b' c, In (a, b) (edges Q0) -> In (b', c) (edges Q0) -> peq b b' -> 0 < cross3 a b c.

Definition aff (al be ga : Q) (p : point) : Q := al * px p + be * py p + ga.

Lemma argmin (f : point -> Q) (l : list point) : l <> [] -> exists m, In m l /\ forall w, In w l -> f m <= f w.
Proof.
  induction l as [|a l IH]; intro H; [congruence|]. destruct l as [|b l].
  - exists a. split; [left; reflexivity|]. intros w [<-|[]]. lra.
  - destruct (IH ltac:(discriminate)) as (m & Hm & Hmin).
    destruct (Qlt_le_dec (f a) (f m)).
    + exists a. split; [left; reflexivity|]. intros w [<-|Hw]; [lra|]. pose proof (Hmin w Hw). lra.
    + exists m. split; [right; exact Hm|]. intros w [<-|Hw]; [lra|]. exact (Hmin w Hw).
Qed.

(* a point on the left of every edge of a strictly convex polygon satisfies every affine
   inequality that the vertices satisfy *)
Theorem strictly_convex_region (Q0 : polygon) (al be ga : Q) (p : point) :
  strictly_convex Q0 -> Q0 <> [] -> (forall w, In w Q0 -> 0 <= aff al be ga w) ->
  in_poly Q0 p -> 0 <= aff al be ga p.
Proof.
  intros HS NE Hv Hp. destruct (argmin (aff al be ga) Q0 NE) as (m & Hm & Hmin).
  destruct (vertex_edges Q0 m Hm) as [[a Ha] [c Hc]].
  pose proof (HS a m m c Ha Hc (peq_refl m)) as D.
  pose proof (Hp (a, m) Ha) as S1. pose proof (Hp (m, c) Hc) as S2. unfold left_of in S1, S2. cbn [fst snd] in S1, S2.
  destruct (edges_in Q0 a m Ha) as [Va _]. destruct (edges_in Q0 m c Hc) as [_ Vc].
  pose proof (Hmin a Va) as Ma. pose proof (Hmin c Vc) as Mc. pose proof (Hv m Hm) as M0.
  assert (I : (aff al be ga p - aff al be ga m) * cross3 a m c
              == side m c p * (aff al be ga a - aff al be ga m) + side a m p * (aff al be ga c - aff al be ga m)).
  { unfold aff, cross3, side. ring. }
  assert (0 <= side m c p * (aff al be ga a - aff al be ga m)) by (apply Qmult_le_0_compat; lra).
  assert (0 <= side a m p * (aff al be ga c - aff al be ga m)) by (apply Qmult_le_0_compat; lra).
  set (d := aff al be ga p - aff al be ga m) in *. set (D0 := cross3 a m c) in *.
  assert (0 <= d) by nra. unfold d in *. lra.
Qed.

Lemma region_coord_ge (x : bool) (a : Q) (Q0 : polygon) (p : point) :
  strictly_convex Q0 -> Q0 <> [] -> (forall w, In w Q0 -> a <= coord x w) -> in_poly Q0 p -> a <= coord x p.
Proof.
  intros HS NE Hv Hp. destruct x; unfold coord in *.
  - assert (0 <= aff 1 0 (- a) p); [|unfold aff in *; lra].
    apply (strictly_convex_region _ _ _ _ p HS NE); [|exact Hp]. intros w Hw. pose proof (Hv w Hw). unfold aff. lra.
  - assert (0 <= aff 0 1 (- a) p); [|unfold aff in *; lra].
    apply (strictly_convex_region _ _ _ _ p HS NE); [|exact Hp]. intros w Hw. pose proof (Hv w Hw). unfold aff. lra.
Qed.
Lemma region_coord_le (x : bool) (a : Q) (Q0 : polygon) (p : point) :
  strictly_convex Q0 -> Q0 <> [] -> (forall w, In w Q0 -> coord x w <= a) -> in_poly Q0 p -> coord x p <= a.
Proof.
  intros HS NE Hv Hp. destruct x; unfold coord in *.
  - assert (0 <= aff (-(1)) 0 a p); [|unfold aff in *; lra].
    apply (strictly_convex_region _ _ _ _ p HS NE); [|exact Hp]. intros w Hw. pose proof (Hv w Hw). unfold aff. lra.
  - assert (0 <= aff 0 (-(1)) a p); [|unfold aff in *; lra].
    apply (strictly_convex_region _ _ _ _ p HS NE); [|exact Hp]. intros w Hw. pose proof (Hv w Hw). unfold aff. lra.
Qed.

Theorem clip_halfplane_sound (x : bool) (v : Q) (ge : bool) (P : polygon) (p : point) :
  convex_ccw P -> strictly_convex (sh_clip1 x v ge P) -> sh_clip1 x v ge P <> [] ->
  in_poly (sh_clip1 x v ge P) p -> in_poly P p /\ hp_inside x v ge p = true.
Proof.
  intros HC HS NE Hp. pose proof (clip_vertices_sound x v ge P HC) as F. rewrite Forall_forall in F. split.
  - intros [a b] He. unfold left_of. cbn [fst snd].
    assert (E : forall w, side a b w == aff (- (py b - py a)) (px b - px a) ((py b - py a) * px a - (px b - px a) * py a) w)
      by (intro w; unfold side, aff; ring).
    rewrite E. apply (strictly_convex_region _ _ _ _ p HS NE); [|exact Hp].
    intros w Hw. rewrite <- E. destruct (F w Hw) as [H1 _]. exact (H1 (a, b) He).
  - destruct x, ge.
    + apply hp_in_ge. unfold coord.
      assert (0 <= aff 1 0 (- v) p); [|unfold aff in *; lra].
      apply (strictly_convex_region _ _ _ _ p HS NE); [|exact Hp].
      intros w Hw. destruct (F w Hw) as [_ H2]. apply hp_in_ge in H2. unfold aff, coord in *. lra.
    + apply hp_in_le. unfold coord.
      assert (0 <= aff (-(1)) 0 v p); [|unfold aff in *; lra].
      apply (strictly_convex_region _ _ _ _ p HS NE); [|exact Hp].
      intros w Hw. destruct (F w Hw) as [_ H2]. apply hp_in_le in H2. unfold aff, coord in *. lra.
    + apply hp_in_ge. unfold coord.
      assert (0 <= aff 0 1 (- v) p); [|unfold aff in *; lra].
      apply (strictly_convex_region _ _ _ _ p HS NE); [|exact Hp].
      intros w Hw. destruct (F w Hw) as [_ H2]. apply hp_in_ge in H2. unfold aff, coord in *. lra.
    + apply hp_in_le. unfold coord.
      assert (0 <= aff 0 (-(1)) v p); [|unfold aff in *; lra].
      apply (strictly_convex_region _ _ _ _ p HS NE); [|exact Hp].
      intros w Hw. destruct (F w Hw) as [_ H2]. apply hp_in_le in H2. unfold aff, coord in *. lra.
Qed.

(* ---------- the unit cell: the four clips of clip_polygon ---------- *)
Definition stage1 (P : polygon) : polygon := sh_clip1 true 0 true P.
Definition stage2 (P : polygon) : polygon := sh_clip1 true 1 false (stage1 P).
Definition stage3 (P : polygon) : polygon := sh_clip1 false 0 true (stage2 P).
Lemma clip_polygon_stages (P : polygon) : clip_polygon P = sh_clip1 false 1 false (stage3 P).
Proof. reflexivity. Qed.

Lemma in_unit_square_hp (p : point) :
  in_unit_square p <-> hp_inside true 0 true p = true /\ hp_inside true 1 false p = true /\
                       hp_inside false 0 true p = true /\ hp_inside false 1 false p = true.
Proof. unfold in_unit_square. rewrite !hp_in_ge, !hp_in_le. unfold coord. tauto. Qed.

Theorem cell_convex (P : polygon) : convex_ccw P -> convex_ccw (clip_polygon P).
Proof. intro H. unfold clip_polygon. repeat apply clip_convex. exact H. Qed.

Theorem cell_complete (P : polygon) (p : point) :
  convex_ccw P -> in_poly P p -> in_unit_square p -> in_poly (clip_polygon P) p.
Proof.
  intros HC HP HS. apply in_unit_square_hp in HS. destruct HS as (H1 & H2 & H3 & H4).
  unfold clip_polygon.
  apply clip_halfplane_complete; [repeat apply clip_convex; exact HC| |exact H4].
  apply clip_halfplane_complete; [repeat apply clip_convex; exact HC| |exact H3].
  apply clip_halfplane_complete; [repeat apply clip_convex; exact HC| |exact H2].
  apply clip_halfplane_complete; assumption.
Qed.

Definition proper (Q0 : polygon) : Prop := strictly_convex Q0 /\ Q0 <> [].

Theorem cell_sound (P : polygon) (p : point) :
  convex_ccw P -> proper (stage1 P) -> proper (stage2 P) -> proper (stage3 P) -> proper (clip_polygon P) ->
  in_poly (clip_polygon P) p -> in_poly P p /\ in_unit_square p.
Proof.
  intros HC [S1 N1] [S2 N2] [S3 N3] [S4 N4] Hp.
  rewrite clip_polygon_stages in *.
  destruct (clip_halfplane_sound false 1 false (stage3 P) p) as [P3 H4]; try assumption.
  { unfold stage3, stage2, stage1. repeat apply clip_convex. exact HC. }
  destruct (clip_halfplane_sound false 0 true (stage2 P) p) as [P2 H3]; try assumption.
  { unfold stage2, stage1. repeat apply clip_convex. exact HC. }
  destruct (clip_halfplane_sound true 1 false (stage1 P) p) as [P1 H2]; try assumption.
  { unfold stage1. repeat apply clip_convex. exact HC. }
  destruct (clip_halfplane_sound true 0 true P p) as [P0 H1]; try assumption.
  split; [exact P0|]. apply in_unit_square_hp. tauto.
Qed.

(* ---------- boolean deciders (for instances) ---------- *)
Definition convex_ccwb (P : polygon) : bool :=
  forallb (fun w => forallb (fun e : point * point => Qleb 0 (side (fst e) (snd e) w)) (edges P)) P.
Lemma convex_ccwb_sound (P : polygon) : convex_ccwb P = true -> convex_ccw P.
Proof.
  unfold convex_ccwb. rewrite forallb_forall. intros H w Hw e He.
  pose proof (H w Hw) as H1. rewrite forallb_forall in H1. apply Qleb_iff. exact (H1 e He).
Qed.

Definition strictly_convexb (Q0 : polygon) : bool :=
  forallb (fun e1 : point * point => forallb (fun e2 : point * point =>
    if Qeqb (px (snd e1)) (px (fst e2)) && Qeqb (py (snd e1)) (py (fst e2))
    then Qltb 0 (cross3 (fst e1) (snd e1) (snd e2)) else true) (edges Q0)) (edges Q0).
Lemma strictly_convexb_sound (Q0 : polygon) : strictly_convexb Q0 = true -> strictly_convex Q0.
Proof.
  unfold strictly_convexb. rewrite forallb_forall. intros H a b b' c H1 H2 [E1 E2].
  pose proof (H (a, b) H1) as K. rewrite forallb_forall in K. pose proof (K (b', c) H2) as K2.
  cbn [fst snd] in K2. apply Qeqb_iff in E1. apply Qeqb_iff in E2. rewrite E1, E2 in K2.
  cbn [andb] in K2. apply Qltb_iff. exact K2.
Qed.

(* the open unit cells of different integer offsets are disjoint: a point of the plaquette is in
   the interior of the cell for at most one translate *)
Lemma offset_unique (c : Q) (a b : Z) :
  0 < c + inject_Z a -> c + inject_Z a < 1 -> 0 < c + inject_Z b -> c + inject_Z b < 1 -> a = b.
Proof.
  intros H1 H2 H3 H4.
  assert (K1 : inject_Z a - inject_Z b < 1) by lra. assert (K2 : inject_Z b - inject_Z a < 1) by lra.
  assert (L1 : inject_Z (a - b) < inject_Z 1).
  { unfold Z.sub. rewrite inject_Z_plus, inject_Z_opp. change (inject_Z 1) with 1. lra. }
  assert (L2 : inject_Z (b - a) < inject_Z 1).
  { unfold Z.sub. rewrite inject_Z_plus, inject_Z_opp. change (inject_Z 1) with 1. lra. }
  rewrite <- Zlt_Qlt in L1, L2. lia.
Qed.
