(* Proofs/ClipGenArea.v — area additivity of the GENERAL half-plane clipper gsh_clip1 (clip line
   through two points a <> b), for every subject polygon: the two sides of any line share the signed
   area.  By reduction to the axis-parallel case (PolyAreaFacts.clip_area_add) through the similarity
   phi p = ((b-a).(p-a), (b-a)x(p-a)), which maps the line ab to {second coordinate = 0}, commutes with
   the clipper up to == and multiplies area2 by |b-a|^2. *)
From Coq Require Import List ZArith QArith Bool Qminmax Lqa Lia.
From Koala Require Import Model.Clip Model.Plot Proofs.ClipFacts Proofs.PolyAreaFacts Proofs.PolyCellFacts
     Proofs.PolyRegionFacts Proofs.ClipAnyFacts.
Import ListNotations.
Open Scope Q_scope.

Section Sim.
Variables a b : point.
Let dx : Q := px b - px a.
Let dy : Q := py b - py a.
Definition simphi (p : point) : point :=
  (dx * (px p - px a) + dy * (py p - py a), side a b p).

Lemma simphi_inside (ccw : bool) (p : point) : hp_inside false 0 ccw (simphi p) = insb ccw a b p.
Proof. reflexivity. Qed.

Lemma simphi_peq (p p' : point) : peq p p' -> peq (simphi p) (simphi p').
Proof.
  intros [H1 H2]. unfold simphi, peq, side, px, py in *. cbn [fst snd] in *. rewrite H1, H2. split; reflexivity.
Qed.

(* the intersection points correspond *)
Lemma simphi_intersect (p q : point) : ~ side a b p == side a b q ->
  peq (hp_intersect false 0 (simphi p) (simphi q)) (simphi (gen_intersect a b p q)).
Proof.
  intro Hne.
  assert (Hd : ~ coord false (simphi q) == coord false (simphi p)).
  { unfold simphi, coord, py. cbn [snd]. intro E. apply Hne. symmetry. exact E. }
  destruct (hp_intersect_spec false 0 (simphi p) (simphi q) Hd) as (H1 & H2 & _).
  assert (Ex : px (gen_intersect a b p q) == px p + side a b p / (side a b p - side a b q) * (px q - px p))
    by (unfold gen_intersect, px at 1; cbn [fst]; apply Qred_correct).
  assert (Ey : py (gen_intersect a b p q) == py p + side a b p / (side a b p - side a b q) * (py q - py p))
    by (unfold gen_intersect, py at 1; cbn [snd]; apply Qred_correct).
  pose proof (side_affine a b p q _ _ Ex Ey) as Es.
  assert (P1 : px (simphi (gen_intersect a b p q))
               == dx * (px (gen_intersect a b p q) - px a) + dy * (py (gen_intersect a b p q) - py a)) by reflexivity.
  assert (P2 : py (simphi (gen_intersect a b p q)) == side a b (gen_intersect a b p q)) by reflexivity.
  split.
  - rewrite H1, P1, Ex, Ey. unfold simphi, coord, px, py. cbn [fst snd].
    set (sp := side a b p) in *. set (sq := side a b q) in *.
    destruct (Q_dec sp sq) as [[Hlt|Hgt]|Heq]; [| |contradiction]; field; lra.
  - rewrite H2, P2, Es. unfold simphi, coord, px, py. cbn [fst snd].
    set (sp := side a b p) in *. set (sq := side a b q) in *.
    destruct (Q_dec sp sq) as [[Hlt|Hgt]|Heq]; [| |contradiction]; field; lra.
Qed.

Lemma simphi_step (ccw : bool) (l : list point) : forall prev,
  poly_eq (sh_step false 0 ccw (simphi prev) (map simphi l)) (map simphi (gsh_step ccw a b prev l)).
Proof.
  induction l as [|c r IH]; intro prev; [constructor|].
  cbn [map]. rewrite gsh_step_unfold. cbn [sh_step]. rewrite !simphi_inside, map_app.
  apply Forall2_app; [|apply IH].
  assert (I : insb ccw a b prev <> insb ccw a b c ->
              peq (hp_intersect false 0 (simphi prev) (simphi c)) (simphi (gen_intersect a b prev c))).
  { intro M. apply simphi_intersect. intro Es.
    apply M. unfold insb. destruct ccw; apply Qleb_ext; rewrite Es; tauto. }
  destruct (insb ccw a b c) eqn:Ec; destruct (insb ccw a b prev) eqn:Ep; cbn [map]; f2;
    try apply peq_refl; apply I; congruence.
Qed.

Lemma simphi_clip (ccw : bool) (S : polygon) :
  poly_eq (sh_clip1 false 0 ccw (map simphi S)) (map simphi (gsh_clip1 ccw a b S)).
Proof.
  destruct S as [|p r]; [constructor|].
  unfold sh_clip1, gsh_clip1.
  change (map simphi (p :: r)) with (simphi p :: map simphi r) at 1. cbv iota.
  change (simphi p :: map simphi r) with (map simphi (p :: r)).
  rewrite (last_map_ne simphi (p :: r) (0, 0) (0, 0)) by discriminate.
  apply simphi_step.
Qed.

Lemma chain_scale (k : Q) (g : point -> point -> Q) (A : point) (l : list point) :
  chain (fun u w => k * g u w) A l == k * chain g A l.
Proof. revert A. induction l as [|c r IH]; intro A; cbn [chain]; [ring|]. rewrite (IH c). ring. Qed.

Lemma simphi_area (P : polygon) : area2 (map simphi P) == (dx * dx + dy * dy) * area2 P.
Proof.
  rewrite !area2_cyc. destruct P as [|p r]; [unfold cyc; cbn [map last chain]; ring|].
  unfold cyc. rewrite (last_map_ne simphi (p :: r) (0, 0) (0, 0)) by discriminate.
  rewrite chain_map.
  set (N := dx * dx + dy * dy).
  set (psi := fun x : point => - N * cr x a).
  rewrite (chain_ext _ (fun u w => N * cr u w + (psi u - psi w))).
  - rewrite chain_plus, chain_scale. fold (cyc (fun u w => psi u - psi w) (p :: r)). rewrite cyc_tele. ring.
  - intros u w. cbv beta. unfold psi, N. unfold cr, simphi, side, px, py. cbn [fst snd]. unfold dx, dy, px, py. ring.
Qed.
End Sim.

(* the two sides of ANY line (through a and b, a <> b) share the signed area of ANY polygon *)
Theorem gsh_clip1_area_add (a b : point) (S : polygon) :
  ~ (px a == px b /\ py a == py b) ->
  area2 (gsh_clip1 true a b S) + area2 (gsh_clip1 false a b S) == area2 S.
Proof.
  intro Hab.
  set (N := (px b - px a) * (px b - px a) + (py b - py a) * (py b - py a)).
  assert (Sq : forall x : Q, ~ x == 0 -> 0 < x * x).
  { intros x Hx. destruct (Q_dec x 0) as [[H|H]|H]; [nra|nra|contradiction]. }
  assert (Sq0 : forall x : Q, 0 <= x * x) by (intro x; nra).
  assert (HN : 0 < N).
  { unfold N. destruct (Qeq_dec (px b - px a) 0) as [Ex|Ex].
    - destruct (Qeq_dec (py b - py a) 0) as [Ey|Ey]; [exfalso; apply Hab; split; lra|].
      pose proof (Sq _ Ey). pose proof (Sq0 (px b - px a)). lra.
    - pose proof (Sq _ Ex). pose proof (Sq0 (py b - py a)). lra. }
  pose proof (clip_area_add false 0 (map (simphi a b) S)) as E.
  rewrite (area2_peq _ _ (simphi_clip a b true S)) in E.
  rewrite (area2_peq _ _ (simphi_clip a b false S)) in E.
  rewrite !simphi_area in E. fold N in E.
  nra.
Qed.
