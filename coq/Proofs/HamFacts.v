(* Proofs/HamFacts.v — stdlib facts about the executable Hamiltonian model (Model/Ham.v):
   the scatter-add program of majorana_hamiltonian computes the sum of bond terms (multigraphs included). *)
From Coq Require Import List ZArith Bool Arith Lia ZifyBool.
From Koala Require Import Model.Ham.
Import ListNotations.
Open Scope Z_scope.

(* ---------- np.add.at on one entry ---------- *)
Lemma upd_row_length : forall row c v, length (upd_row row c v) = length row.
Proof. induction row as [|x t IH]; intros [|c] v; simpl; auto. Qed.

Lemma nth_upd_row : forall row c v c', (c' < length row)%nat ->
  nth c' (upd_row row c v) 0 = nth c' row 0 + (if (c' =? c)%nat then v else 0).
Proof.
  induction row as [|x t IH]; intros c v c' Hc; simpl in Hc; [lia|].
  destruct c as [|c], c' as [|c']; simpl; try lia.
  rewrite IH by lia. reflexivity.
Qed.

Lemma add_at_length : forall M r c v, length (add_at M r c v) = length M.
Proof. induction M as [|row t IH]; intros [|r] c v; simpl; auto. Qed.

Lemma nth_add_at : forall M r c v r',
  nth r' (add_at M r c v) [] = if (r' =? r)%nat then upd_row (nth r' M []) c v else nth r' M [].
Proof.
  induction M as [|row t IH]; intros r c v r'.
  - simpl. destruct r'; destruct (_ =? _)%nat; reflexivity.
  - destruct r as [|r], r' as [|r']; simpl; auto.
Qed.

Definition shape (V : nat) (M : list (list Z)) : Prop :=
  length M = V /\ forall r, (r < V)%nat -> length (nth r M []) = V.

Lemma shape_zeros : forall V, shape V (zeros V).
Proof.
  intros V; unfold zeros; split; [apply repeat_length|].
  intros r Hr. rewrite (nth_indep _ [] (repeat 0 V)) by (rewrite repeat_length; exact Hr).
  rewrite nth_repeat. apply repeat_length.
Qed.

Lemma entry_zeros : forall V r c, entry (zeros V) r c = 0.
Proof.
  intros V r c. unfold entry, zeros.
  destruct (Nat.lt_ge_cases r V) as [Hr|Hr].
  - rewrite (nth_indep _ [] (repeat 0 V)) by (rewrite repeat_length; exact Hr).
    rewrite nth_repeat.
    destruct (Nat.lt_ge_cases c V) as [Hc|Hc].
    + rewrite nth_repeat. reflexivity.
    + apply nth_overflow. rewrite repeat_length. exact Hc.
  - rewrite (nth_overflow _ []) by (rewrite repeat_length; exact Hr). destruct c; reflexivity.
Qed.

Lemma shape_add_at : forall V M r c v, shape V M -> shape V (add_at M r c v).
Proof.
  intros V M r c v [HL HR]. split; [rewrite add_at_length; exact HL|].
  intros r' Hr'. rewrite nth_add_at. destruct (r' =? r)%nat; [rewrite upd_row_length|]; auto.
Qed.

Definition delta (r c r' c' : nat) (v : Z) : Z := if (r' =? r)%nat && (c' =? c)%nat then v else 0.

Lemma entry_add_at : forall V M r c v r' c', shape V M -> (r' < V)%nat -> (c' < V)%nat ->
  entry (add_at M r c v) r' c' = entry M r' c' + delta r c r' c' v.
Proof.
  intros V M r c v r' c' [HL HR] Hr' Hc'. unfold entry, delta. rewrite nth_add_at.
  destruct (r' =? r)%nat eqn:E; simpl.
  - rewrite nth_upd_row by (rewrite HR; assumption). reflexivity.
  - lia.
Qed.

(* ---------- the whole scatter ---------- *)
Fixpoint delta_sum (idx : list (nat * nat)) (vals : list Z) (r' c' : nat) : Z :=
  match idx, vals with
  | (r, c) :: it, v :: vt => delta r c r' c' v + delta_sum it vt r' c'
  | _, _ => 0
  end.

Lemma shape_scatter_add : forall V idx vals M, shape V M -> shape V (scatter_add M idx vals).
Proof.
  induction idx as [|[r c] it IH]; intros [|v vt] M HM; simpl; auto.
  apply IH. apply shape_add_at. exact HM.
Qed.

Lemma entry_scatter_add : forall V idx vals M r' c', shape V M -> (r' < V)%nat -> (c' < V)%nat ->
  entry (scatter_add M idx vals) r' c' = entry M r' c' + delta_sum idx vals r' c'.
Proof.
  induction idx as [|[r c] it IH]; intros [|v vt] M r' c' HM Hr' Hc'; simpl; try lia.
  rewrite IH by (auto using shape_add_at).
  rewrite (entry_add_at V) by assumption. lia.
Qed.

(* ---------- hamiltonian.py:62-70 = sum of bond terms ---------- *)
Lemma two_passes_bond_sum : forall edges hop r c, no_loops edges = true ->
  delta_sum (map (fun e => (snd e, fst e)) edges) hop r c + delta_sum edges (map Z.opp hop) r c
  = bond_sum edges hop r c.
Proof.
  induction edges as [|[j k] et IH]; intros [|h ht] r c Hnl; simpl in *; try reflexivity.
  apply andb_true_iff in Hnl. destruct Hnl as [Hjk Hnl].
  specialize (IH ht r c Hnl). unfold delta, bond_entry in *. simpl.
  destruct (r =? k)%nat eqn:E1, (c =? j)%nat eqn:E2, (r =? j)%nat eqn:E3, (c =? k)%nat eqn:E4; simpl; lia.
Qed.

Theorem ham_is_bond_sum : forall V edges hop r c,
  no_loops edges = true -> (r < V)%nat -> (c < V)%nat ->
  ham_entry V edges hop r c = bond_sum edges hop r c.
Proof.
  intros V edges hop r c Hnl Hr Hc. unfold ham_entry, ham_matrix.
  rewrite (entry_scatter_add V) by (auto using shape_scatter_add, shape_zeros).
  rewrite (entry_scatter_add V) by (auto using shape_zeros).
  rewrite entry_zeros. rewrite <- two_passes_bond_sum by exact Hnl. lia.
Qed.

Lemma shape_ham_matrix : forall V edges hop, shape V (ham_matrix V edges hop).
Proof. intros; unfold ham_matrix; auto using shape_scatter_add, shape_zeros. Qed.

(* with a self-loop the literal bond term (+h at [k,j], "its negative at [j,k]") is not what the code adds *)
Lemma ham_is_bond_sum_needs_no_loops :
  exists V edges hop r c, (r < V)%nat /\ (c < V)%nat /\ ham_entry V edges hop r c <> bond_sum edges hop r c.
Proof. exists 1%nat, [(0, 0)%nat], [1], 0%nat, 0%nat. vm_compute. repeat split; try lia. Qed.

(* ---------- antisymmetry, zero diagonal, zero off the edges ---------- *)
Lemma bond_sum_antisym : forall edges hop r c, no_loops edges = true ->
  bond_sum edges hop c r = - bond_sum edges hop r c.
Proof.
  induction edges as [|[j k] et IH]; intros [|h ht] r c Hnl; simpl in *; try reflexivity.
  apply andb_true_iff in Hnl. destruct Hnl as [Hjk Hnl].
  rewrite (IH ht r c Hnl). unfold bond_entry. simpl.
  destruct (r =? k)%nat eqn:E1, (c =? j)%nat eqn:E2, (r =? j)%nat eqn:E3, (c =? k)%nat eqn:E4; simpl; lia.
Qed.

Lemma bond_sum_diag : forall edges hop r, no_loops edges = true -> bond_sum edges hop r r = 0.
Proof. intros edges hop r Hnl. pose proof (bond_sum_antisym edges hop r r Hnl). lia. Qed.

Definition joins (e : edge) (r c : nat) : Prop :=
  (fst e = r /\ snd e = c) \/ (fst e = c /\ snd e = r).

Lemma bond_sum_off_edges : forall edges hop r c,
  (forall e, In e edges -> ~ joins e r c) -> bond_sum edges hop r c = 0.
Proof.
  induction edges as [|[j k] et IH]; intros [|h ht] r c Hno; simpl; try reflexivity.
  rewrite IH by (intros e He; apply Hno; right; exact He).
  assert (H0 : ~ joins (j, k) r c) by (apply Hno; left; reflexivity).
  unfold joins in H0; simpl in H0. unfold bond_entry; simpl.
  destruct (r =? k)%nat eqn:E1, (c =? j)%nat eqn:E2, (r =? j)%nat eqn:E3, (c =? k)%nat eqn:E4; simpl; lia.
Qed.

(* ---------- gauge transformation u_jk -> g_j u_jk g_k ---------- *)
Fixpoint gauge_hop (g : nat -> Z) (edges : list edge) (hop : list Z) : list Z :=
  match edges, hop with
  | e :: et, h :: ht => g (fst e) * h * g (snd e) :: gauge_hop g et ht
  | _, _ => []
  end.

Lemma bond_sum_gauge : forall g edges hop r c,
  bond_sum edges (gauge_hop g edges hop) r c = g r * bond_sum edges hop r c * g c.
Proof.
  induction edges as [|[j k] et IH]; intros [|h ht] r c; simpl; try lia.
  rewrite IH. unfold bond_entry; simpl.
  destruct (r =? k)%nat eqn:E1, (c =? j)%nat eqn:E2, (r =? j)%nat eqn:E3, (c =? k)%nat eqn:E4; simpl;
    try apply Nat.eqb_eq in E1; try apply Nat.eqb_eq in E2; try apply Nat.eqb_eq in E3; try apply Nat.eqb_eq in E4;
    subst; lia.
Qed.

(* hoppings of the gauge-transformed bond variables (hamiltonian.py:64 is linear in u) *)
Lemma gauge_u_nth : forall gl edges u e, length u = length edges -> (e < length edges)%nat ->
  nth e (gauge_u edges gl u) 0
  = nth (fst (nth e edges (0, 0)%nat)) gl 0 * nth e u 0 * nth (snd (nth e edges (0, 0)%nat)) gl 0.
Proof.
  intros gl edges u e Hl He. unfold gauge_u.
  set (f := fun p : edge * Z => nth (fst (fst p)) gl 0 * snd p * nth (snd (fst p)) gl 0).
  rewrite (nth_indep _ 0 (f ((0, 0)%nat, 0))) by (rewrite map_length, combine_length; lia).
  rewrite (map_nth f), combine_nth by (symmetry; exact Hl). reflexivity.
Qed.

Lemma gauge_hop_length : forall g edges hop, length hop = length edges ->
  length (gauge_hop g edges hop) = length edges.
Proof. induction edges as [|e et IH]; intros [|h ht] Hl; simpl in *; try lia. rewrite IH; lia. Qed.

Lemma gauge_hop_nth : forall g edges hop e, length hop = length edges -> (e < length edges)%nat ->
  nth e (gauge_hop g edges hop) 0
  = g (fst (nth e edges (0, 0)%nat)) * nth e hop 0 * g (snd (nth e edges (0, 0)%nat)).
Proof.
  induction edges as [|x et IH]; intros [|h ht] e Hl He; simpl in *; try lia.
  destruct e as [|e]; [reflexivity|]. apply IH; lia.
Qed.

Lemma hoppings_length : forall n col u J, length (hoppings n col u J) = n.
Proof. intros; unfold hoppings; rewrite map_length, seq_length; reflexivity. Qed.

Lemma hoppings_nth : forall n col u J e, (e < n)%nat ->
  nth e (hoppings n col u J) 0 = 2 * Jsel col J e * nth e u 0.
Proof.
  intros n col u J e He. unfold hoppings.
  rewrite (nth_indep _ 0 ((fun e => 2 * Jsel col J e * nth e u 0) 0%nat)) by (rewrite map_length, seq_length; exact He).
  rewrite (map_nth (fun e => 2 * Jsel col J e * nth e u 0)), seq_nth by exact He. reflexivity.
Qed.

(* the Hamiltonian's hoppings for u^g are the gauge-transformed hoppings *)
Lemma hoppings_gauge : forall gl edges col u J, length u = length edges ->
  hoppings (length edges) col (gauge_u edges gl u) J
  = gauge_hop (fun v => nth v gl 0) edges (hoppings (length edges) col u J).
Proof.
  intros gl edges col u J Hl.
  apply (nth_ext _ _ 0 0).
  - rewrite gauge_hop_length, hoppings_length by apply hoppings_length. reflexivity.
  - intros e He. rewrite hoppings_length in He.
    rewrite gauge_hop_nth, !hoppings_nth, gauge_u_nth by (try apply hoppings_length; assumption). lia.
Qed.

(* ---------- permute_vertices (lattice.py:523-548) ---------- *)
Lemma set_at_length : forall (A : Type) (l : list A) n x, length (set_at l n x) = length l.
Proof. induction l as [|y t IH]; intros [|n] x; simpl; auto. Qed.

Lemma nth_set_at : forall (A : Type) (d : A) (l : list A) n x m,
  nth m (set_at l n x) d = if (m =? n)%nat && (n <? length l)%nat then x else nth m l d.
Proof.
  induction l as [|y t IH]; intros n x m; simpl.
  - rewrite andb_false_r. destruct m; reflexivity.
  - destruct n as [|n], m as [|m]; simpl; auto. rewrite IH. reflexivity.
Qed.

Definition write_all (init : list nat) (ws : list (nat * nat)) : list nat :=
  fold_left (fun inv p => set_at inv (fst p) (snd p)) ws init.

Lemma write_all_length : forall ws init, length (write_all init ws) = length init.
Proof.
  induction ws as [|w ws IH]; intros init; simpl; auto.
  unfold write_all in *. simpl. rewrite IH, set_at_length. reflexivity.
Qed.

Lemma write_all_untouched : forall ws init p, ~ In p (map fst ws) ->
  nth p (write_all init ws) 0%nat = nth p init 0%nat.
Proof.
  induction ws as [|[q i] ws IH]; intros init p Hn; simpl in *; auto.
  unfold write_all in *; simpl. rewrite IH by tauto. rewrite nth_set_at.
  destruct (p =? q)%nat eqn:E; simpl; auto. apply Nat.eqb_eq in E. subst. tauto.
Qed.

Lemma write_all_written : forall ws init p i, NoDup (map fst ws) ->
  (forall q, In q (map fst ws) -> (q < length init)%nat) -> In (p, i) ws ->
  nth p (write_all init ws) 0%nat = i.
Proof.
  induction ws as [|[q j] ws IH]; intros init p i Hnd Hlt Hin; simpl in *; [tauto|].
  inversion Hnd as [|? ? Hq Hnd']; subst.
  unfold write_all in *; simpl. destruct Hin as [Heq|Hin].
  - inversion Heq; subst. fold (write_all (set_at init p i) ws).
    rewrite write_all_untouched by exact Hq. rewrite nth_set_at, Nat.eqb_refl.
    assert (p < length init)%nat by (apply Hlt; left; reflexivity).
    destruct (p <? length init)%nat eqn:E; simpl; auto. apply Nat.ltb_ge in E. lia.
  - apply IH; auto. intros q' Hq'. rewrite set_at_length. apply Hlt. right. exact Hq'.
Qed.

(* inverse_ordering[ordering[i]] = i *)
Lemma inverse_ordering_spec : forall V ordering i,
  NoDup ordering -> (forall x, In x ordering -> (x < V)%nat) -> length ordering = V -> (i < V)%nat ->
  nth (nth i ordering 0%nat) (inverse_ordering V ordering) 0%nat = i.
Proof.
  intros V ordering i Hnd Hlt Hlen Hi. unfold inverse_ordering.
  fold (write_all (repeat 0%nat V) (combine ordering (seq 0 V))).
  assert (Hm : map fst (combine ordering (seq 0 V)) = ordering).
  { clear -Hlen. revert V Hlen. generalize 0%nat. induction ordering as [|x t IH]; intros a V Hlen; simpl in *.
    - reflexivity.
    - destruct V as [|V]; [discriminate|]. simpl. f_equal. apply IH. lia. }
  apply write_all_written.
  - rewrite Hm. exact Hnd.
  - rewrite Hm. intros q Hq. rewrite repeat_length. apply Hlt. exact Hq.
  - assert (Hc : nth i (combine ordering (seq 0 V)) (0%nat, 0%nat) = (nth i ordering 0%nat, i)).
    { rewrite combine_nth by (rewrite seq_length; exact Hlen). rewrite seq_nth by exact Hi. reflexivity. }
    rewrite <- Hc. apply nth_In. rewrite combine_length, seq_length. lia.
Qed.

(* the relabelled bond sum: entry (r, c) of the new matrix is entry (s r, s c) of the old one, s = ordering *)
Lemma bond_sum_relabel : forall V (s inv : nat -> nat) edges hop r c,
  wf_edges V edges = true ->
  (forall i, (i < V)%nat -> (s i < V)%nat /\ inv (s i) = i) ->
  (forall v, (v < V)%nat -> (inv v < V)%nat /\ s (inv v) = v) ->
  (r < V)%nat -> (c < V)%nat ->
  bond_sum (map (fun e => (inv (fst e), inv (snd e))) edges) hop r c = bond_sum edges hop (s r) (s c).
Proof.
  intros V s inv. induction edges as [|[j k] et IH]; intros [|h ht] r c Hwf Hs Hinv Hr Hc; simpl in *; try reflexivity.
  apply andb_true_iff in Hwf. destruct Hwf as [Hjk Hwf]. apply andb_true_iff in Hjk. destruct Hjk as [Hj Hk].
  apply Nat.ltb_lt in Hj. apply Nat.ltb_lt in Hk.
  rewrite (IH ht r c Hwf Hs Hinv Hr Hc). f_equal. unfold bond_entry; simpl.
  assert (E : forall x v, (x < V)%nat -> (v < V)%nat -> (x =? inv v)%nat = (s x =? v)%nat).
  { intros x v Hx Hv. destruct (Hs x Hx) as [_ H1]. destruct (Hinv v Hv) as [_ H2].
    destruct (x =? inv v)%nat eqn:E1, (s x =? v)%nat eqn:E2; auto.
    - apply Nat.eqb_eq in E1. apply Nat.eqb_neq in E2. subst. congruence.
    - apply Nat.eqb_neq in E1. apply Nat.eqb_eq in E2. subst. congruence. }
  rewrite !E by assumption. reflexivity.
Qed.

Lemma no_loops_relabel : forall V (s inv : nat -> nat) edges,
  wf_edges V edges = true -> (forall v, (v < V)%nat -> s (inv v) = v) -> no_loops edges = true ->
  no_loops (map (fun e => (inv (fst e), inv (snd e))) edges) = true.
Proof.
  intros V s inv. induction edges as [|[j k] et IH]; intros Hwf Hinv Hnl; simpl in *; auto.
  apply andb_true_iff in Hwf. destruct Hwf as [Hjk Hwf]. apply andb_true_iff in Hjk. destruct Hjk as [Hj Hk].
  apply Nat.ltb_lt in Hj. apply Nat.ltb_lt in Hk.
  apply andb_true_iff in Hnl. destruct Hnl as [Hne Hnl].
  rewrite IH by assumption. rewrite andb_true_r.
  apply negb_true_iff. apply Nat.eqb_neq. intros E.
  apply negb_true_iff in Hne. apply Nat.eqb_neq in Hne. apply Hne.
  rewrite <- (Hinv j Hj), <- (Hinv k Hk), E. reflexivity.
Qed.

(* ---------- a concrete multigraph instance: the 4-site honeycomb cell honeycomb_lattice(1) ---------- *)
Definition hc1_edges : list edge := [(0, 1); (2, 1); (2, 3); (2, 1); (0, 3); (0, 3)]%nat.
Lemma hc1_example :
  no_loops hc1_edges = true /\ wf_edges 4 hc1_edges = true /\
  (* parallel edges (2,1) x 2 and (0,3) x 2 add up: entries 6 = 4 + 2 and 2 = -4 + 6 *)
  majorana4 4 hc1_edges (Some [0; 1; 2; 0; 1; 2]%nat) [1; 1; -1; 1; -1; 1] [1; 2; 3]
  = [[0; -2; 0; -2]; [2; 0; 6; 0]; [0; -6; 0; 6]; [2; 0; -6; 0]].
Proof. vm_compute. repeat split. Qed.
