(* Proofs/RngUseFacts.v — the policy "uses only the supplied rng" holds of the call lists that
   translate/rng_use.py regenerated from TODAY's koala/pointsets.py (coq/Gen/RngUse.v). *)
From Coq Require Import List String Bool.
From Koala Require Import Model.RngIR Gen.RngUse.
Import ListNotations.
Open Scope string_scope.

Lemma pointsets_use_only_supplied_rng : uses_only_supplied_rng pointsets_functions = true.
Proof. vm_compute. reflexivity. Qed.

(* non-vacuity of the lists: each of the three generators does draw from its rng parameter *)
Lemma pointsets_draw_from_rng :
  forallb draws_from_rng pointsets_functions = true /\ (3 <= List.length pointsets_functions).
Proof. vm_compute. split; [reflexivity|]. repeat constructor. Qed.

(* reading of the boolean policy *)
Lemma uses_only_supplied_rng_spec : forall fs,
  uses_only_supplied_rng fs = true ->
  forall f, In f fs ->
    f_has_rng_param f = true /\
    forall c, In c (f_calls f) -> c_recv c = GlobalNpRandom ->
      c_meth c = "default_rng" /\ c_guarded c = true.
Proof.
  intros fs H f Hf. unfold uses_only_supplied_rng in H.
  repeat (apply andb_prop in H; destruct H as [H ?]).
  rewrite forallb_forall in H. specialize (H f Hf). unfold fn_ok in H.
  apply andb_prop in H. destruct H as [Hr Hc]. split; [exact Hr|].
  intros c Hin Hg. rewrite forallb_forall in Hc. specialize (Hc c Hin).
  unfold call_ok in Hc. rewrite Hg in Hc. apply andb_prop in Hc. destruct Hc as [Hm Hgd].
  split; [now apply String.eqb_eq|exact Hgd].
Qed.
