(* C15 — meta-theory of the effect analysis of Model/Effects.v (no change of the model):
   A. FUEL: acceptance is monotone in both fuels (loop-fixpoint fuel, call-depth fuel) and the
      answer (the abstract exit environment) does not change once the analysis accepts.
   B. STATE: the analysis is monotone in the abstract state: accepted from a state b => accepted
      from every state a <= b (pointwise), with a pointwise smaller answer — for every
      sufficiently large loop fuel; with the SAME loop fuel this is false (witness below).
   C. consequences for [no_arg_write_mask]: weakening the taint mask. *)
From Coq Require Import List Arith Bool Lia.
Import ListNotations.
From Koala Require Import Model.Effects Proofs.EffectsFacts.

(* ------------------------------------------------------------------ A. fuel *)
Definition cle (c c' : fname -> list aval -> option aenv) : Prop :=
  forall f avs r, c f avs = Some r -> c' f avs = Some r.

Lemma loop_fix_fuel : forall (body body' : aenv -> option aenv),
  (forall a r, body a = Some r -> body' a = Some r) ->
  forall n n' a r, n <= n' -> loop_fix body n a = Some r -> loop_fix body' n' a = Some r.
Proof.
  intros body body' Hb n; induction n as [|n IH]; intros n' a r Hle H; simpl in H.
  - destruct (body a) as [a'|] eqn:Eb; [|discriminate].
    destruct (ale a' a) eqn:El; [|discriminate].
    destruct n'; simpl; rewrite (Hb _ _ Eb), El; exact H.
  - destruct (body a) as [a'|] eqn:Eb; [|discriminate].
    destruct n' as [|n']; [lia|]. simpl. rewrite (Hb _ _ Eb).
    destruct (ale a' a) eqn:El; [exact H|].
    apply IH; [lia|exact H].
Qed.

Lemma aexec_fuel : forall c c' dynok lf lf', cle c c' -> lf <= lf' ->
  forall s a r, aexec c dynok lf s a = Some r -> aexec c' dynok lf' s a = Some r.
Proof.
  intros c c' dynok lf lf' Hc Hl s; induction s; intros a res H; simpl in *.
  - exact H.
  - exact H.
  - exact H.
  - destruct (c f (map (aget a) args)) as [ac|] eqn:E; [|discriminate].
    rewrite (Hc _ _ _ E). exact H.
  - exact H.
  - destruct (aexec c dynok lf s1 a) as [a1|] eqn:E1; [|discriminate].
    destruct (aexec c dynok lf s2 a1) as [a2|] eqn:E2; [|discriminate].
    rewrite (IHs1 _ _ E1), (IHs2 _ _ E2). exact H.
  - destruct (aexec c dynok lf s1 a) as [a1|] eqn:E1; [|discriminate].
    destruct (aexec c dynok lf s2 a) as [a2|] eqn:E2; [|discriminate].
    rewrite (IHs1 _ _ E1), (IHs2 _ _ E2). exact H.
  - eapply loop_fix_fuel; [|exact Hl|exact H]. exact IHs.
Qed.

Lemma afun_fuel_cle : forall p dynok lf lf' d d', lf <= lf' -> d <= d' -> cle (afun p dynok lf d) (afun p dynok lf' d').
Proof.
  intros p dynok lf lf' d; induction d as [|d IH]; intros d' Hl Hd f avs r H; simpl in H; [discriminate|].
  destruct d' as [|d']; [lia|]. simpl.
  destruct (nth_error p f) as [fd|]; [|discriminate].
  eapply aexec_fuel; [|exact Hl|exact H]. apply IH; [exact Hl|lia].
Qed.

(* once accepted, more fuel of either kind gives the SAME answer *)
Theorem afun_fuel_stable : forall p dynok lf d f avs r,
  afun p dynok lf d f avs = Some r ->
  forall lf' d', lf <= lf' -> d <= d' -> afun p dynok lf' d' f avs = Some r.
Proof. intros p dynok lf d f avs r H lf' d' Hl Hd. exact (afun_fuel_cle p dynok lf lf' d d' Hl Hd f avs r H). Qed.

(* ... and a verdict obtained with MORE fuel is never contradicted by less fuel: less fuel either
   gives the same answer or fails closed (None = reject) *)
Theorem afun_fuel_fail_closed : forall p dynok lf d lf' d' f avs,
  lf <= lf' -> d <= d' ->
  afun p dynok lf d f avs = None \/ afun p dynok lf d f avs = afun p dynok lf' d' f avs.
Proof.
  intros p dynok lf d lf' d' f avs Hl Hd. destruct (afun p dynok lf d f avs) as [r|] eqn:E; [right|left; reflexivity].
  symmetry. eapply afun_fuel_stable; eauto.
Qed.

(* the verdict as a function of the two fuels; [no_arg_write_mask] is the instance (64, |p|+1) *)
Definition verdict_with_fuel (p : program) (lf d : nat) (f : fname) (mask : list bool) : bool :=
  match afun p (dyn_ok p) lf d f (mask_avals mask) with Some _ => true | None => false end.

Lemma no_arg_write_mask_is_verdict : forall p f mask,
  no_arg_write_mask p f mask = verdict_with_fuel p LOOP_FUEL (S (length p)) f mask.
Proof. reflexivity. Qed.

Theorem verdict_fuel_monotone : forall p lf d lf' d' f mask,
  lf <= lf' -> d <= d' ->
  verdict_with_fuel p lf d f mask = true -> verdict_with_fuel p lf' d' f mask = true.
Proof.
  intros p lf d lf' d' f mask Hl Hd H. unfold verdict_with_fuel in *.
  destruct (afun p (dyn_ok p) lf d f (mask_avals mask)) as [r|] eqn:E; [|discriminate].
  rewrite (afun_fuel_stable _ _ _ _ _ _ _ E lf' d' Hl Hd). reflexivity.
Qed.

(* soundness does not depend on the particular fuel constants: ANY fuel with which the analysis
   accepts yields the guarantee of analysis_sound_mask *)
Theorem analysis_sound_any_fuel : forall p lf d f mask fd argvals st0 st',
  verdict_with_fuel p lf d f mask = true ->
  nth_error p f = Some fd ->
  (forall x, env st0 x = call_env (f_nparams fd) argvals x) ->
  separated (args_locs mask argvals) mask argvals ->
  (forall l, In l (args_locs mask argvals) -> l < next st0) ->
  exec p (f_body fd) st0 st' ->
  forall l, In l (args_locs mask argvals) -> heap st' l = heap st0 l.
Proof.
  intros p lf d f mask fd argvals st0 st' Hv Hf Henv Hsep Hbd Hex.
  unfold verdict_with_fuel in Hv.
  destruct (afun p (dyn_ok p) lf d f (mask_avals mask)) as [a'|] eqn:E; [|discriminate].
  destruct d as [|d]; simpl in E; [discriminate|]. rewrite Hf in E.
  set (A := args_locs mask argvals) in *.
  assert (Hs : sim A (repeat abot NRET ++ firstn (f_nparams fd) (mask_avals mask)) (env st0)).
  { intro x. rewrite Henv. apply sim_call_env. apply covers_mask. exact Hsep. }
  destruct (exec_sound p (dyn_ok p) A (dyn_ok_spec p) _ _ _ Hex _ _ _ _ E Hs Hbd) as [_ [Hh _]].
  exact Hh.
Qed.

(* ------------------------------------------------------------------ B. the order on abstract states *)
Definition ple (a b : aenv) : Prop := forall x, vle (aget a x) (aget b x) = true.
Definition avs_le (l1 l2 : list aval) : Prop := Forall2 (fun v w => vle v w = true) l1 l2.

Lemma implb_intro : forall b1 b2 : bool, (b1 = true -> b2 = true) -> implb b1 b2 = true.
Proof. intros [|] [|] H; simpl; auto. Qed.

Lemma vle_fst : forall v w, vle v w = true -> fst v = true -> fst w = true.
Proof. intros [o r] [o' r']; unfold vle; simpl. destruct o, o'; simpl; auto; discriminate. Qed.

Lemma vle_snd : forall v w, vle v w = true -> snd v = true -> snd w = true.
Proof. intros [o r] [o' r']; unfold vle; simpl. destruct o, o', r, r'; simpl; auto; discriminate. Qed.

Lemma vle_intro : forall v w, (fst v = true -> fst w = true) -> (snd v = true -> snd w = true) -> vle v w = true.
Proof. intros v w H1 H2. unfold vle. rewrite (implb_intro _ _ H1), (implb_intro _ _ H2). reflexivity. Qed.

Lemma vle_refl : forall v, vle v v = true.
Proof. intros v. apply vle_intro; auto. Qed.

Lemma vle_trans : forall u v w, vle u v = true -> vle v w = true -> vle u w = true.
Proof. intros u v w H1 H2. apply vle_intro; intro H; [eapply vle_fst|eapply vle_snd]; eauto using vle_fst, vle_snd. Qed.

Lemma vle_abot : forall v, vle abot v = true.
Proof. intros v. apply vle_intro; simpl; discriminate. Qed.

Lemma ple_refl : forall a, ple a a.
Proof. intros a x. apply vle_refl. Qed.

Lemma ple_trans : forall a b c, ple a b -> ple b c -> ple a c.
Proof. intros a b c H1 H2 x. eapply vle_trans; eauto. Qed.

Lemma ple_nil : forall b, ple [] b.
Proof. intros b x. rewrite aget_nil. apply vle_abot. Qed.

Lemma ple_cons_inv : forall v a w b, ple (v :: a) (w :: b) -> vle v w = true /\ ple a b.
Proof. intros v a w b H. split; [exact (H 0)|]. intro x. exact (H (S x)). Qed.

Lemma ple_cons_nil_inv : forall v a, ple (v :: a) [] -> vle v abot = true /\ ple a [].
Proof.
  intros v a H. split; [exact (H 0)|]. intro x. specialize (H (S x)).
  rewrite aget_nil in *. exact H.
Qed.

Lemma ale_ple : forall a b, ale a b = true -> ple a b.
Proof. intros a b H x. apply ale_spec. exact H. Qed.

Lemma ale_complete : forall a b, ple a b -> ale a b = true.
Proof.
  induction a as [|v a IH]; intros b H; [reflexivity|].
  destruct b as [|w b]; simpl.
  - destruct (ple_cons_nil_inv _ _ H) as [H1 H2]. rewrite H1, (IH [] H2). reflexivity.
  - destruct (ple_cons_inv _ _ _ _ H) as [H1 H2]. rewrite H1, (IH b H2). reflexivity.
Qed.

Lemma ale_false_witness : forall a b, ale a b = false -> exists x, vle (aget a x) (aget b x) = false.
Proof.
  induction a as [|v a IH]; intros b H; [discriminate|].
  destruct b as [|w b]; simpl in H; apply andb_false_iff in H; destruct H as [H|H].
  - exists 0. exact H.
  - destruct (IH [] H) as [x Hx]. exists (S x). rewrite aget_nil in *. exact Hx.
  - exists 0. exact H.
  - destruct (IH b H) as [x Hx]. exists (S x). exact Hx.
Qed.

Lemma ple_ajoin_l : forall a b, ple a (ajoin a b).
Proof. intros a b x. rewrite aget_ajoin. apply vle_vjoin_l. Qed.

Lemma vjoin_lub : forall u v w, vle u w = true -> vle v w = true -> vle (vjoin u v) w = true.
Proof.
  intros u v w H1 H2. apply vle_intro; unfold vjoin; simpl; intro H; apply orb_prop in H; destruct H as [H|H];
    eauto using vle_fst, vle_snd.
Qed.

Lemma vjoin_mono : forall u v u' v', vle u u' = true -> vle v v' = true -> vle (vjoin u v) (vjoin u' v') = true.
Proof.
  intros u v u' v' H1 H2. apply vjoin_lub.
  - eapply vle_trans; [exact H1|apply vle_vjoin_l].
  - eapply vle_trans; [exact H2|apply vle_vjoin_r].
Qed.

Lemma ple_ajoin_lub : forall a b c, ple a c -> ple b c -> ple (ajoin a b) c.
Proof. intros a b c H1 H2 x. rewrite aget_ajoin. apply vjoin_lub; auto. Qed.

Lemma ajoin_mono : forall a b a' b', ple a a' -> ple b b' -> ple (ajoin a b) (ajoin a' b').
Proof. intros a b a' b' H1 H2 x. rewrite !aget_ajoin. apply vjoin_mono; auto. Qed.

Lemma aset_mono : forall a b x v w, ple a b -> vle v w = true -> ple (aset a x v) (aset b x w).
Proof.
  intros a b x v w H Hv y. destruct (Nat.eq_dec x y) as [E|E].
  - subst y. rewrite !aget_aset_eq. exact Hv.
  - rewrite !aget_aset_neq by exact E. apply H.
Qed.

Lemma aset_list_mono : forall xs vs ws a b, ple a b -> avs_le vs ws ->
  ple (aset_list a xs vs) (aset_list b xs ws).
Proof.
  induction xs as [|x xs IH]; intros vs ws a b H HF; simpl; [exact H|].
  destruct HF as [|v w vs ws Hv HF]; [exact H|]. apply IH; [|exact HF]. apply aset_mono; auto.
Qed.

Lemma existsb_mono : forall (X : Type) (f g : X -> bool) l,
  (forall x, f x = true -> g x = true) -> existsb f l = true -> existsb g l = true.
Proof.
  intros X f g l H He. apply existsb_exists in He. destruct He as [x [Hx Hf]].
  apply existsb_exists. exists x; auto.
Qed.

Lemma aeval_mono : forall a b r, ple a b -> vle (aeval a r) (aeval b r) = true.
Proof.
  intros a b r H.
  assert (F : forall l, existsb (fun x => fst (aget a x)) l = true -> existsb (fun x => fst (aget b x)) l = true).
  { intro l. apply existsb_mono. intros x. apply vle_fst. apply H. }
  assert (S : forall l, existsb (fun x => snd (aget a x)) l = true -> existsb (fun x => snd (aget b x)) l = true).
  { intro l. apply existsb_mono. intros x. apply vle_snd. apply H. }
  apply vle_intro; unfold aeval; simpl; intro E.
  - apply orb_prop in E. destruct E as [E|E]; [rewrite (F _ E)|rewrite (S _ E)]; auto using orb_true_r.
  - apply orb_prop in E. destruct E as [E|E]; [apply orb_prop in E; destruct E as [E|E]|];
      rewrite (S _ E); rewrite ?orb_true_r; reflexivity.
Qed.

Lemma avs_le_map_aget : forall a b (xs : list var), ple a b -> avs_le (map (aget a) xs) (map (aget b) xs).
Proof. intros a b xs H; induction xs; simpl; constructor; auto. Qed.

Lemma avs_le_refl : forall l, avs_le l l.
Proof. induction l; constructor; auto using vle_refl. Qed.

Lemma avs_le_nth : forall l1 l2, avs_le l1 l2 -> forall j, vle (nth j l1 abot) (nth j l2 abot) = true.
Proof. intros l1 l2 H; induction H; intros [|j]; simpl; auto using vle_refl. Qed.

Lemma ple_init : forall np l1 l2, avs_le l1 l2 ->
  ple (repeat abot NRET ++ firstn np l1) (repeat abot NRET ++ firstn np l2).
Proof.
  intros np l1 l2 H x. rewrite !nth_repeat_app. destruct (Nat.ltb x NRET); [apply vle_refl|].
  apply avs_le_nth. apply Forall2_firstn. exact H.
Qed.

(* ------------------------------------------------------------------ B. termination measure *)
Definition bits (v : aval) : nat := Nat.b2n (fst v) + Nat.b2n (snd v).
Fixpoint nbits (a : aenv) : nat := match a with [] => 0 | v :: a' => bits v + nbits a' end.

Lemma bits_le : forall v w, vle v w = true -> bits v <= bits w.
Proof. intros [o r] [o' r']; unfold vle, bits; simpl. destruct o, o', r, r'; simpl; intro H; try discriminate; lia. Qed.

Lemma bits_lt : forall v w, vle v w = true -> vle w v = false -> bits v < bits w.
Proof. intros [o r] [o' r']; unfold vle, bits; simpl. destruct o, o', r, r'; simpl; intros H1 H2; try discriminate; lia. Qed.

Lemma nbits_le : forall a b, ple a b -> nbits a <= nbits b.
Proof.
  induction a as [|v a IH]; intros b H; simpl; [lia|].
  destruct b as [|w b]; simpl.
  - destruct (ple_cons_nil_inv _ _ H) as [H1 H2]. apply bits_le in H1. specialize (IH [] H2). simpl in *.
    unfold bits in H1 at 2. simpl in H1. lia.
  - destruct (ple_cons_inv _ _ _ _ H) as [H1 H2]. apply bits_le in H1. specialize (IH b H2). lia.
Qed.

Lemma nbits_pos : forall c, ale c [] = false -> 0 < nbits c.
Proof.
  induction c as [|w c IH]; simpl; intro H; [discriminate|].
  apply andb_false_iff in H. destruct H as [H|H].
  - pose proof (bits_lt abot w (vle_abot w) H) as L. unfold bits in L at 1. simpl in L. lia.
  - specialize (IH H). lia.
Qed.

Lemma nbits_lt : forall c a, ple a c -> ale c a = false -> nbits a < nbits c.
Proof.
  induction c as [|w c IH]; intros a H Hn; [discriminate|].
  destruct a as [|v a].
  - simpl. apply (nbits_pos (w :: c)). exact Hn.
  - destruct (ple_cons_inv _ _ _ _ H) as [H1 H2]. simpl in Hn. simpl.
    apply andb_false_iff in Hn. destruct Hn as [Hn|Hn].
    + pose proof (bits_lt _ _ H1 Hn). pose proof (nbits_le _ _ H2). lia.
    + pose proof (bits_le _ _ H1). pose proof (IH _ H2 Hn). lia.
Qed.

Lemma ajoin_strict : forall a a', ale a' a = false -> ale (ajoin a a') a = false.
Proof.
  intros a a' H. destruct (ale (ajoin a a') a) eqn:E; [|reflexivity].
  destruct (ale_false_witness _ _ H) as [x Hx].
  pose proof (ale_ple _ _ E x) as L. rewrite aget_ajoin in L.
  rewrite (vle_trans _ _ _ (vle_vjoin_r (aget a x) (aget a' x)) L) in Hx. discriminate.
Qed.

(* a body that maps states below the post-fixpoint [binv] to states below [binv] reaches a fixpoint
   below [binv] within (number of true bits of binv) iterations *)
Lemma loop_fix_converges : forall (body : aenv -> option aenv) binv,
  (forall a, ple a binv -> exists a', body a = Some a' /\ ple a' binv) ->
  forall n a, ple a binv -> nbits binv - nbits a <= n ->
  exists ainv, loop_fix body n a = Some ainv /\ ple ainv binv.
Proof.
  intros body binv Hbody n; induction n as [|n IH]; intros a Ha Hn;
    destruct (Hbody a Ha) as [a' [Eb Ha']]; simpl; rewrite Eb; destruct (ale a' a) eqn:El.
  - exists a; auto.
  - exfalso. pose proof (nbits_lt _ _ (ple_ajoin_l a a') (ajoin_strict _ _ El)).
    pose proof (nbits_le _ _ (ple_ajoin_lub _ _ _ Ha Ha')). lia.
  - exists a; auto.
  - apply IH; [apply ple_ajoin_lub; assumption|].
    pose proof (nbits_lt _ _ (ple_ajoin_l a a') (ajoin_strict _ _ El)).
    pose proof (nbits_le _ _ (ple_ajoin_lub _ _ _ Ha Ha')). lia.
Qed.

(* ------------------------------------------------------------------ B. monotonicity *)
Section Mono.
  Variable p : program.
  Variable dynok : fname -> bool.
  Variable d : nat.
  (* induction hypothesis on the call depth *)
  Hypothesis IHd : forall lfb f avs_b rb, afun p dynok lfb d f avs_b = Some rb ->
    exists N, forall lfa, N <= lfa -> forall avs_a, avs_le avs_a avs_b ->
      exists ra, afun p dynok lfa d f avs_a = Some ra /\ ple ra rb.

  Lemma aexec_mono_step : forall lfb s b b', aexec (afun p dynok lfb d) dynok lfb s b = Some b' ->
    exists N, forall lfa, N <= lfa -> forall a, ple a b ->
      exists a', aexec (afun p dynok lfa d) dynok lfa s a = Some a' /\ ple a' b'.
  Proof.
    intros lfb s; induction s; intros b b' H; simpl in H.
    - (* Skip *) inversion H; subst. exists 0. intros lfa _ a Ha. exists a; auto.
    - (* Bind *) inversion H; subst. exists 0. intros lfa _ a Ha. simpl. eexists; split; [reflexivity|].
      apply aset_mono; [exact Ha|apply aeval_mono; exact Ha].
    - (* Write *) destruct (fst (aget b x)) eqn:E; [discriminate|]. inversion H; subst.
      exists 0. intros lfa _ a Ha. simpl. destruct (fst (aget a x)) eqn:E'.
      + rewrite (vle_fst _ _ (Ha x) E') in E. discriminate.
      + exists a; auto.
    - (* Call *) destruct (afun p dynok lfb d f (map (aget b) args)) as [rb|] eqn:E; [|discriminate].
      inversion H; subst. destruct (IHd _ _ _ _ E) as [N HN]. exists N. intros lfa Hl a Ha. simpl.
      destruct (HN lfa Hl (map (aget a) args) (avs_le_map_aget _ _ _ Ha)) as [ra [Era Hra]].
      rewrite Era. eexists; split; [reflexivity|].
      apply aset_list_mono; [exact Ha|]. apply avs_le_map_aget. exact Hra.
    - (* CallDyn *) destruct (forallb dynok gs) eqn:Eg; [|discriminate]. inversion H; subst.
      exists 0. intros lfa _ a Ha. simpl. rewrite Eg. eexists; split; [reflexivity|].
      apply aset_list_mono; [exact Ha|apply avs_le_refl].
    - (* Seq *) destruct (aexec (afun p dynok lfb d) dynok lfb s1 b) as [b1|] eqn:E1; [|discriminate].
      destruct (aexec (afun p dynok lfb d) dynok lfb s2 b1) as [b2|] eqn:E2; [|discriminate].
      inversion H; subst. destruct (IHs1 _ _ E1) as [N1 H1]. destruct (IHs2 _ _ E2) as [N2 H2].
      exists (Nat.max N1 N2). intros lfa Hl a Ha. simpl.
      destruct (H1 lfa ltac:(lia) a Ha) as [a1 [Ea1 L1]]. rewrite Ea1.
      destruct (H2 lfa ltac:(lia) a1 L1) as [a2 [Ea2 L2]]. rewrite Ea2.
      eexists; split; [reflexivity|]. apply ajoin_mono; assumption.
    - (* If *) destruct (aexec (afun p dynok lfb d) dynok lfb s1 b) as [b1|] eqn:E1; [|discriminate].
      destruct (aexec (afun p dynok lfb d) dynok lfb s2 b) as [b2|] eqn:E2; [|discriminate].
      inversion H; subst. destruct (IHs1 _ _ E1) as [N1 H1]. destruct (IHs2 _ _ E2) as [N2 H2].
      exists (Nat.max N1 N2). intros lfa Hl a Ha. simpl.
      destruct (H1 lfa ltac:(lia) a Ha) as [a1 [Ea1 L1]]. rewrite Ea1.
      destruct (H2 lfa ltac:(lia) a Ha) as [a2 [Ea2 L2]]. rewrite Ea2.
      eexists; split; [reflexivity|]. apply ajoin_mono; assumption.
    - (* Loop *) destruct (loop_fix_inv _ _ _ _ H) as [Hle [b'' [Hbody Hle2]]].
      destruct (IHs _ _ Hbody) as [N1 H1]. exists (Nat.max N1 (nbits b')).
      intros lfa Hl a Ha. simpl.
      apply (loop_fix_converges (aexec (afun p dynok lfa d) dynok lfa s) b').
      + intros a0 Ha0. destruct (H1 lfa ltac:(lia) a0 Ha0) as [a1 [Ea1 L1]]. exists a1; split; [exact Ea1|].
        eapply ple_trans; [exact L1|apply ale_ple; exact Hle2].
      + eapply ple_trans; [exact Ha|exact Hle].
      + lia.
  Qed.
End Mono.

(* ★ the analysis is monotone in the abstract state: if it accepts f from argument values avs_b
   then, for every sufficiently large loop fuel, it accepts f from all pointwise smaller argument
   values, and the answer is pointwise smaller *)
Theorem afun_mono : forall p dynok d lfb f avs_b rb, afun p dynok lfb d f avs_b = Some rb ->
  exists N, forall lfa, N <= lfa -> forall avs_a, avs_le avs_a avs_b ->
    exists ra, afun p dynok lfa d f avs_a = Some ra /\ ple ra rb.
Proof.
  intros p dynok d; induction d as [|d IH]; intros lfb f avs_b rb H; simpl in H; [discriminate|].
  destruct (nth_error p f) as [fd|] eqn:Ef; [|discriminate].
  destruct (aexec_mono_step p dynok d IH _ _ _ _ H) as [N HN]. exists N. intros lfa Hl avs_a Hle.
  simpl. rewrite Ef. apply HN; [exact Hl|]. apply ple_init. exact Hle.
Qed.

(* statements: the same for one statement under any fixed call depth *)
Theorem aexec_mono : forall p dynok d lfb s b b', aexec (afun p dynok lfb d) dynok lfb s b = Some b' ->
  exists N, forall lfa, N <= lfa -> forall a, ple a b ->
    exists a', aexec (afun p dynok lfa d) dynok lfa s a = Some a' /\ ple a' b'.
Proof. intros p dynok d. apply aexec_mono_step. apply afun_mono. Qed.

(* ------------------------------------------------------------------ C. taint masks *)
Definition mask_le (m1 m2 : list bool) : Prop := Forall2 (fun x y : bool => implb x y = true) m1 m2.

Lemma mask_avals_le : forall m1 m2, mask_le m1 m2 -> avs_le (mask_avals m1) (mask_avals m2).
Proof.
  intros m1 m2 H; induction H as [|x y m1 m2 Hxy H IH]; simpl; constructor; [|exact IH].
  unfold vle; simpl. rewrite Hxy. reflexivity.
Qed.

(* accepted with a taint mask => accepted with every smaller mask (fewer tainted formals), for
   every sufficiently large loop fuel; in particular the set of accepted masks of a function is
   downward closed in the limit of the fuel *)
Theorem verdict_mask_monotone : forall p lf d f mb,
  verdict_with_fuel p lf d f mb = true ->
  exists N, forall lf', N <= lf' -> forall ma, mask_le ma mb -> verdict_with_fuel p lf' d f ma = true.
Proof.
  intros p lf d f mb H. unfold verdict_with_fuel in H.
  destruct (afun p (dyn_ok p) lf d f (mask_avals mb)) as [rb|] eqn:E; [|discriminate].
  destruct (afun_mono _ _ _ _ _ _ _ E) as [N HN]. exists N. intros lf' Hl ma Hm.
  destruct (HN lf' Hl _ (mask_avals_le _ _ Hm)) as [ra [Era _]].
  unfold verdict_with_fuel. rewrite Era. reflexivity.
Qed.

(* with the SAME loop fuel the analysis is NOT monotone in the state (a larger state may already be a
   fixpoint while a smaller one still needs iterations): the quantifier over the fuel above is needed *)
Definition mono_cex_prog : program := [Fun 2 (Loop (Bind (NRET + 1) (Alias NRET)))].

Theorem same_fuel_monotonicity_refuted :
  mask_le [true; false] [true; true] /\
  verdict_with_fuel mono_cex_prog 0 1 0 [true; true] = true /\
  verdict_with_fuel mono_cex_prog 0 1 0 [true; false] = false /\
  verdict_with_fuel mono_cex_prog 1 1 0 [true; false] = true.
Proof. split; [repeat constructor|]. vm_compute. auto. Qed.

(* non-vacuity of afun_mono / verdict_mask_monotone on the same program: accepted above, hence below
   with any fuel >= the N of the theorem; here N = 1 works and 0 does not *)
Example verdict_mask_monotone_nonvacuous :
  verdict_with_fuel mono_cex_prog LOOP_FUEL 1 0 [true; true] = true /\
  forall lf', 1 <= lf' -> verdict_with_fuel mono_cex_prog lf' 1 0 [true; false] = true.
Proof.
  split; [vm_compute; reflexivity|]. intros lf' H.
  apply (verdict_fuel_monotone mono_cex_prog 1 1 lf' 1); [exact H|lia|vm_compute; reflexivity].
Qed.
