(* Proofs/PlaqTablesFacts.v — the plaquette tables of Model/Lattice.v (C02):
   edges_plaquettes (an edge's [forward, backward] plaquette), plaquette_neighbours,
   vertices_plaquettes (first-INVALID-slot filling). *)
From Coq Require Import List ZArith Bool Arith Lia ZifyBool Permutation Sorted.
From Koala Require Import Model.Lattice Model.TableSpec.
Import ListNotations.

(* ---------- darts of a plaquette list ---------- *)
(* plaquette n contains dart d *)
Definition owner (ps : list plaquette) (d : dart) (n : nat) : Prop :=
  exists p, nth_error ps n = Some p /\ In d (plaq_darts p).
(* column of a table row belonging to a direction: forwards (+1, true) = column 0 *)
Definition ep_col (r : ep_row) (d : bool) : option nat := if d then fst r else snd r.

Lemma dart_eqb_eq : forall a b, dart_eqb a b = true <-> a = b.
Proof.
  intros [e d] [e' d']. unfold dart_eqb. simpl. rewrite andb_true_iff, Nat.eqb_eq, eqb_true_iff.
  split. intros [-> ->]; reflexivity. intros H; inversion H; auto.
Qed.

Lemma existsb_dart_in : forall d l, existsb (dart_eqb d) l = true <-> In d l.
Proof.
  intros d l. rewrite existsb_exists. split.
  - intros [x [Hin H]]. apply dart_eqb_eq in H. subst. assumption.
  - intros H. exists d. split. assumption. apply dart_eqb_eq. reflexivity.
Qed.

Lemma dart_nodupb_spec : forall l, dart_nodupb l = true <-> NoDup l.
Proof.
  induction l as [|d r IH]; simpl. split; constructor.
  rewrite andb_true_iff, negb_true_iff, IH. split.
  - intros [H1 H2]. constructor; [|assumption]. intros Hin. apply existsb_dart_in in Hin. congruence.
  - intros H. inversion H; subst. split; [|assumption].
    destruct (existsb (dart_eqb d) r) eqn:E; [|reflexivity]. apply existsb_dart_in in E. contradiction.
Qed.

(* ---------- set_nth ---------- *)
Lemma set_nth_length : forall A n (x : A) l, length (set_nth n x l) = length l.
Proof. intros A n x l. revert n. induction l as [|y r IH]; intros [|n]; simpl; auto. Qed.

Lemma nth_set_nth_eq : forall A n (x d : A) l, (n < length l)%nat -> nth n (set_nth n x l) d = x.
Proof.
  intros A n x d l. revert n. induction l as [|y r IH]; intros [|n] H; simpl in *; try lia. reflexivity.
  apply IH. lia.
Qed.

Lemma nth_set_nth_neq : forall A n m (x d : A) l, n <> m -> nth m (set_nth n x l) d = nth m l d.
Proof.
  intros A n m x d l. revert n m. induction l as [|y r IH]; intros [|n] [|m] H; simpl; auto. lia.
Qed.

(* ---------- edges_plaquettes ---------- *)
Lemma ep_write_length : forall n tab ed, length (ep_write n tab ed) = length tab.
Proof. intros. unfold ep_write. apply set_nth_length. Qed.

Lemma ep_write_col : forall n tab e d ed,
  (e < length tab)%nat ->
  ep_col (nth e (ep_write n tab ed) (None, None)) d =
  if dart_eqb (e, d) ed then Some n else ep_col (nth e tab (None, None)) d.
Proof.
  intros n tab e d [e' d'] He. unfold ep_write, dart_eqb. simpl.
  destruct (Nat.eqb_spec e e') as [->|Hne]; simpl.
  - rewrite nth_set_nth_eq by assumption. destruct d, d'; reflexivity.
  - rewrite nth_set_nth_neq by congruence. reflexivity.
Qed.

Lemma ep_inner : forall n ds tab e d,
  (e < length tab)%nat ->
  length (fold_left (ep_write n) ds tab) = length tab /\
  ep_col (nth e (fold_left (ep_write n) ds tab) (None, None)) d =
  if existsb (dart_eqb (e, d)) ds then Some n else ep_col (nth e tab (None, None)) d.
Proof.
  intros n ds. induction ds as [|a r IH]; intros tab e d He; simpl. auto.
  destruct (IH (ep_write n tab a) e d) as [L1 L2]. rewrite ep_write_length; assumption.
  rewrite ep_write_length in L1. split. assumption.
  rewrite L2, ep_write_col by assumption.
  destruct (dart_eqb (e, d) a), (existsb (dart_eqb (e, d)) r); reflexivity.
Qed.

(* index (offset k) of the LAST plaquette containing d, else cur: numpy's last write wins *)
Fixpoint find_last (ps : list plaquette) (k : nat) (d : dart) (cur : option nat) : option nat :=
  match ps with
  | [] => cur
  | p :: r => find_last r (S k) d (if existsb (dart_eqb d) (plaq_darts p) then Some k else cur)
  end.

Definition ep_step (st : list ep_row * nat) (p : plaquette) : list ep_row * nat :=
  (fold_left (ep_write (snd st)) (combine (p_edges p) (p_dirs p)) (fst st), S (snd st)).

Lemma ep_outer : forall ps tab k e d,
  (e < length tab)%nat ->
  length (fst (fold_left ep_step ps (tab, k))) = length tab /\
  ep_col (nth e (fst (fold_left ep_step ps (tab, k))) (None, None)) d =
  find_last ps k (e, d) (ep_col (nth e tab (None, None)) d).
Proof.
  induction ps as [|p r IH]; intros tab k e d He; simpl. auto.
  replace (ep_step (tab, k) p) with (fold_left (ep_write k) (combine (p_edges p) (p_dirs p)) tab, S k) by reflexivity.
  destruct (ep_inner k (combine (p_edges p) (p_dirs p)) tab e d He) as [L1 L2].
  destruct (IH (fold_left (ep_write k) (combine (p_edges p) (p_dirs p)) tab) (S k) e d) as [M1 M2].
  rewrite L1; assumption.
  split. rewrite M1, L1. reflexivity.
  rewrite M2, L2. reflexivity.
Qed.

Lemma ep_inner_length : forall n ds tab, length (fold_left (ep_write n) ds tab) = length tab.
Proof.
  intros n ds. induction ds as [|a r IH]; intros tab; simpl. reflexivity.
  rewrite IH, ep_write_length. reflexivity.
Qed.

Lemma ep_outer_length : forall ps tab k, length (fst (fold_left ep_step ps (tab, k))) = length tab.
Proof.
  induction ps as [|p r IH]; intros tab k; simpl. reflexivity.
  replace (ep_step (tab, k) p) with (fold_left (ep_write k) (combine (p_edges p) (p_dirs p)) tab, S k) by reflexivity.
  rewrite IH, ep_inner_length. reflexivity.
Qed.

Lemma edges_plaquettes_length : forall L ps, length (edges_plaquettes L ps) = nE L.
Proof.
  intros L ps. unfold edges_plaquettes.
  change (fun (st : list ep_row * nat) (p : plaquette) =>
            (fold_left (ep_write (snd st)) (combine (p_edges p) (p_dirs p)) (fst st), S (snd st))) with ep_step.
  rewrite ep_outer_length, repeat_length. reflexivity.
Qed.

Lemma edges_plaquettes_col : forall L ps e d,
  (e < nE L)%nat ->
  ep_col (nth e (edges_plaquettes L ps) (None, None)) d = find_last ps 0 (e, d) None.
Proof.
  intros L ps e d He. unfold edges_plaquettes.
  change (fun (st : list ep_row * nat) (p : plaquette) =>
            (fold_left (ep_write (snd st)) (combine (p_edges p) (p_dirs p)) (fst st), S (snd st))) with ep_step.
  destruct (ep_outer ps (repeat (None, None) (nE L)) 0%nat e d) as [_ H].
  rewrite repeat_length; assumption.
  eapply eq_trans; [exact H|]. f_equal.
  assert (R : forall n m, nth m (repeat (@None nat, @None nat) n) (None, None) = (None, None)).
  { clear. induction n; intros [|m]; simpl; auto. }
  rewrite R. destruct d; reflexivity.
Qed.

Lemma nodup_app_inv : forall A (a b : list A),
  NoDup (a ++ b) -> NoDup a /\ NoDup b /\ (forall x, In x a -> In x b -> False).
Proof.
  intros A a b. induction a as [|x a IH]; simpl; intros H.
  - repeat split. constructor. assumption. intros x [].
  - inversion H as [|? ? Hx Hr]; subst. destruct (IH Hr) as (Ha & Hb & Hd). repeat split.
    + constructor; [|assumption]. intros Hin. apply Hx. apply in_or_app. left; assumption.
    + assumption.
    + intros y [->|Hy] Hyb. apply Hx. apply in_or_app. right; assumption. eapply Hd; eassumption.
Qed.

(* find_last against ownership *)
Lemma find_last_none_in : forall ps k d cur,
  (forall p, In p ps -> ~ In d (plaq_darts p)) -> find_last ps k d cur = cur.
Proof.
  induction ps as [|p r IH]; intros k d cur H; simpl. reflexivity.
  destruct (existsb (dart_eqb d) (plaq_darts p)) eqn:E.
  - apply existsb_dart_in in E. exfalso. apply (H p); [left; reflexivity|assumption].
  - apply IH. intros q Hq. apply H. right; assumption.
Qed.

Lemma find_last_sound : forall ps k d cur n,
  find_last ps k d cur = Some n ->
  cur = Some n \/ exists i, n = (k + i)%nat /\ owner ps d i.
Proof.
  induction ps as [|p r IH]; intros k d cur n H; simpl in H. auto.
  apply IH in H. destruct H as [H|[i [-> [q [Hq Hin]]]]].
  - destruct (existsb (dart_eqb d) (plaq_darts p)) eqn:E.
    + inversion H; subst. right. exists 0%nat. split. lia. exists p. split. reflexivity.
      apply existsb_dart_in. assumption.
    + auto.
  - right. exists (S i). split. lia. exists q. split; assumption.
Qed.

Lemma find_last_complete : forall ps k d cur i,
  NoDup (all_plaq_darts ps) -> owner ps d i -> find_last ps k d cur = Some (k + i)%nat.
Proof.
  induction ps as [|p r IH]; intros k d cur i Hnd [q [Hq Hin]].
  - destruct i; discriminate.
  - simpl in Hnd. simpl. destruct i as [|i]; simpl in Hq.
    + inversion Hq; subst q. 
      assert (E : existsb (dart_eqb d) (plaq_darts p) = true) by (apply existsb_dart_in; assumption).
      rewrite E. rewrite find_last_none_in. f_equal; lia.
      intros q Hqr Hdq.
      destruct (nodup_app_inv _ _ _ Hnd) as (_ & _ & Hdis).
      apply (Hdis d Hin). apply in_flat_map. exists q. auto.
    + replace (k + S i)%nat with (S k + i)%nat by lia. apply IH.
      destruct (nodup_app_inv _ _ _ Hnd) as (_ & Hr & _). assumption. exists q. auto.
Qed.

Lemma owner_unique : forall ps d i j,
  NoDup (all_plaq_darts ps) -> owner ps d i -> owner ps d j -> i = j.
Proof.
  intros ps d i j Hnd Hi Hj.
  pose proof (find_last_complete ps 0 d None i Hnd Hi) as A.
  pose proof (find_last_complete ps 0 d None j Hnd Hj) as B.
  rewrite A in B. inversion B. reflexivity.
Qed.

(* an edge's two adjacent plaquettes: column 0 = the plaquette traversing it forwards,
   column 1 = backwards; None (INVALID) exactly where there is none *)
Lemma edge_sides_lemma : forall L ps,
  darts_disjoint ps = true ->
  length (edges_plaquettes L ps) = nE L /\
  forall e d, (e < nE L)%nat ->
    let c := ep_col (nth e (edges_plaquettes L ps) (None, None)) d in
    (forall n, c = Some n <-> owner ps (e, d) n) /\
    (c = None <-> forall n, ~ owner ps (e, d) n).
Proof.
  intros L ps Hd. apply dart_nodupb_spec in Hd. split. apply edges_plaquettes_length.
  intros e d He c. subst c. rewrite edges_plaquettes_col by assumption.
  assert (A : forall n, find_last ps 0 (e, d) None = Some n <-> owner ps (e, d) n).
  { intros n. split.
    - intros H. apply find_last_sound in H. destruct H as [H|[i [-> Hi]]]. discriminate. exact Hi.
    - intros H. apply (find_last_complete ps 0 (e, d) None n Hd H). }
  split. exact A.
  split.
  - intros H n Hn. apply A in Hn. congruence.
  - intros H. destruct (find_last ps 0 (e, d) None) as [n|] eqn:E; [|reflexivity].
    exfalso. apply (H n). apply A. reflexivity.
Qed.

(* ---------- plaquette neighbours: np.where(rows != n)[1] ---------- *)
Lemma onat_neqb_false : forall a n, onat_neqb a n = false <-> a = Some n.
Proof.
  intros [x|] n; simpl. rewrite negb_false_iff, Nat.eqb_eq. split; [intros ->; reflexivity|intros H; inversion H; reflexivity].
  split; discriminate.
Qed.

(* each row has its own plaquette n in the column of the traversal direction and something
   else in the other column: the idiom then yields exactly one entry per row, the other side *)
Lemma roll_vals_pick : forall n rows ds,
  Forall2 (fun r d => ep_col r d = Some n /\ ep_col r (negb d) <> Some n) rows ds ->
  map (fun rc : ep_row * bool => if snd rc then snd (fst rc) else fst (fst rc)) (combine rows (roll_vals rows n))
  = map (fun rd : ep_row * bool => ep_col (fst rd) (negb (snd rd))) (combine rows ds).
Proof.
  intros n rows ds H. induction H as [|r d rows ds [Hown Hoth] Hrest IH]; [reflexivity|].
  assert (E : roll_vals (r :: rows) n = d :: roll_vals rows n).
  { unfold roll_vals. simpl. destruct d; simpl in *.
    - apply onat_neqb_false in Hown. rewrite Hown.
      destruct (onat_neqb (snd r) n) eqn:E2. reflexivity. apply onat_neqb_false in E2. contradiction.
    - apply onat_neqb_false in Hown. rewrite Hown.
      destruct (onat_neqb (fst r) n) eqn:E2. reflexivity. apply onat_neqb_false in E2. contradiction. }
  rewrite E. cbn [combine map]. rewrite IH. f_equal. destruct d; reflexivity.
Qed.

Lemma combine_nodup_fst : forall (es : list nat) (ds : list bool) e a b,
  NoDup es -> In (e, a) (combine es ds) -> In (e, b) (combine es ds) -> a = b.
Proof.
  induction es as [|x es IH]; intros ds e a b Hnd Ha Hb; simpl in *. contradiction.
  destruct ds as [|y ds]; simpl in *. contradiction.
  inversion Hnd as [|? ? Hx Hr]; subst.
  destruct Ha as [Ha|Ha], Hb as [Hb|Hb].
  - congruence.
  - inversion Ha; subst. apply in_combine_l in Hb. contradiction.
  - inversion Hb; subst. apply in_combine_l in Ha. contradiction.
  - eapply IH; eassumption.
Qed.

Lemma nodupb_spec : forall l, nodupb l = true <-> NoDup l.
Proof.
  induction l as [|x r IH]; simpl. split; constructor.
  rewrite andb_true_iff, negb_true_iff, IH. split.
  - intros [H1 H2]. constructor; [|assumption]. intros Hin.
    assert (existsb (Nat.eqb x) r = true) by (apply existsb_exists; exists x; split; [assumption|apply Nat.eqb_refl]).
    congruence.
  - intros H. inversion H as [|? ? Hx Hr]; subst. split; [|assumption].
    destruct (existsb (Nat.eqb x) r) eqn:E; [|reflexivity].
    apply existsb_exists in E. destruct E as [y [Hy E]]. apply Nat.eqb_eq in E. subst. contradiction.
Qed.

Lemma combine_map_l : forall A B C (f : A -> C) (l : list A) (m : list B),
  combine (map f l) m = map (fun x => (f (fst x), snd x)) (combine l m).
Proof. intros A B C f l. induction l as [|a l IH]; intros [|b m]; simpl; auto. now rewrite IH. Qed.

(* plaquette n's adjacent_plaquettes: entry i is the other column of the table row of its edge i *)
Lemma plaquette_neighbours_lemma : forall L ps n p,
  darts_disjoint ps = true ->
  nth_error ps n = Some p ->
  nodupb (p_edges p) = true ->
  length (p_dirs p) = length (p_edges p) ->
  forallb (fun e => e <? nE L)%nat (p_edges p) = true ->
  plaquette_neighbours (edges_plaquettes L ps) n p =
  map (fun ed : dart => ep_col (nth (fst ed) (edges_plaquettes L ps) (None, None)) (negb (snd ed))) (plaq_darts p)
  /\ length (plaquette_neighbours (edges_plaquettes L ps) n p) = length (p_edges p).
Proof.
  intros L ps n p Hd Hn Hnd Hlen Hwf.
  set (ep := edges_plaquettes L ps).
  assert (Main : plaquette_neighbours ep n p =
    map (fun ed : dart => ep_col (nth (fst ed) ep (None, None)) (negb (snd ed))) (plaq_darts p)).
  { unfold plaquette_neighbours.
    set (rows := map (fun e => nth e ep (None, None)) (p_edges p)).
    rewrite (roll_vals_pick n rows (p_dirs p)).
    - unfold rows, plaq_darts. rewrite combine_map_l, map_map. reflexivity.
    - (* the Forall2 *)
      destruct (edge_sides_lemma L ps Hd) as [_ Hes]. apply nodupb_spec in Hnd.
      assert (G : forall es ds, length ds = length es ->
                  (forall e d, In (e, d) (combine es ds) -> In (e, d) (plaq_darts p)) ->
                  Forall2 (fun r d => ep_col r d = Some n /\ ep_col r (negb d) <> Some n)
                          (map (fun e => nth e ep (None, None)) es) ds).
      { induction es as [|e es IH]; intros [|d ds] Hl Hin; simpl in *; try discriminate. constructor.
        constructor. 2: apply IH; [lia|intros; apply Hin; right; assumption].
        assert (Hed : In (e, d) (plaq_darts p)) by (apply Hin; left; reflexivity).
        assert (He : (e < nE L)%nat).
        { rewrite forallb_forall in Hwf. apply in_combine_l in Hed. apply Hwf in Hed. lia. }
        split.
        - apply (Hes e d He). exists p. auto.
        - intros Hc. apply (Hes e (negb d) He) in Hc. destruct Hc as [q [Hq Hin2]].
          rewrite Hn in Hq. inversion Hq; subst q.
          pose proof (combine_nodup_fst _ _ _ _ _ Hnd Hed Hin2) as E. destruct d; discriminate. }
      apply G. assumption. intros e d H. exact H. }
  split. exact Main.
  rewrite Main, map_length. unfold plaq_darts. etransitivity; [apply combine_length|lia].
Qed.

Lemma combine_seq_nth_error : forall A (l : list A) s n,
  nth_error (combine (seq s (length l)) l) n = option_map (fun x => ((s + n)%nat, x)) (nth_error l n).
Proof.
  intros A l. induction l as [|a l IH]; intros s [|n]; simpl; auto.
  - f_equal. f_equal. lia.
  - rewrite IH. destruct (nth_error l n); simpl; [|reflexivity]. f_equal. f_equal. lia.
Qed.

Lemma all_plaquette_neighbours_nth : forall L ps n p,
  nth_error ps n = Some p ->
  nth_error (all_plaquette_neighbours L ps) n = Some (plaquette_neighbours (edges_plaquettes L ps) n p).
Proof.
  intros L ps n p H. unfold all_plaquette_neighbours.
  rewrite nth_error_map, combine_seq_nth_error, H. reflexivity.
Qed.

Lemma all_plaquette_neighbours_length : forall L ps, length (all_plaquette_neighbours L ps) = length ps.
Proof.
  intros. unfold all_plaquette_neighbours. rewrite map_length, combine_length, seq_length. lia.
Qed.

(* ---------- vertices_plaquettes: first-INVALID-slot filling ---------- *)
Definition memb (v : nat) (l : list nat) : bool := existsb (Nat.eqb v) l.
(* indices (offset k) of the plaquettes whose vertex list contains v, ascending *)
Fixpoint holders (qs : list plaquette) (k v : nat) : list nat :=
  match qs with
  | [] => []
  | p :: r => (if memb v (p_verts p) then [k] else []) ++ holders r (S k) v
  end.
(* a row: the holders, then INVALID padding up to the width mc *)
Definition vrow (mc : nat) (hs : list nat) : list (option nat) :=
  map Some hs ++ repeat None (mc - length hs).

Lemma memb_in : forall v l, memb v l = true <-> In v l.
Proof.
  intros v l. unfold memb. rewrite existsb_exists. split.
  - intros [x [Hx E]]. apply Nat.eqb_eq in E. subst. assumption.
  - intros H. exists v. split. assumption. apply Nat.eqb_refl.
Qed.

Lemma dedup_in : forall l x, In x (dedup l) <-> In x l.
Proof.
  induction l as [|y r IH]; intros x; simpl. tauto.
  destruct (existsb (Nat.eqb y) r) eqn:E.
  - rewrite IH. split; [auto|]. intros [->|H]; [|assumption]. apply (memb_in x r). exact E.
  - simpl. rewrite IH. tauto.
Qed.

Lemma dedup_nodup : forall l, NoDup (dedup l).
Proof.
  induction l as [|y r IH]; simpl. constructor.
  destruct (existsb (Nat.eqb y) r) eqn:E. assumption.
  constructor; [|assumption]. rewrite dedup_in. intros H. apply (memb_in y r) in H. unfold memb in H. congruence.
Qed.

Lemma memb_dedup : forall v l, memb v (dedup l) = memb v l.
Proof. intros v l. apply eq_true_iff_eq. rewrite !memb_in. apply dedup_in. Qed.

Lemma sfi_gen : forall n hs k,
  set_first_invalid n (map Some hs ++ repeat None k) =
  match k with
  | O => None
  | S k' => Some (map Some hs ++ Some n :: repeat None k')
  end.
Proof.
  intros n hs k. induction hs as [|h hs IH]; simpl.
  - destruct k; reflexivity.
  - rewrite IH. destruct k; reflexivity.
Qed.

Lemma sfi_vrow_some : forall mc n hs,
  (length hs < mc)%nat -> set_first_invalid n (vrow mc hs) = Some (vrow mc (hs ++ [n])).
Proof.
  intros mc n hs H. unfold vrow. rewrite sfi_gen.
  destruct (mc - length hs)%nat as [|k'] eqn:E. lia.
  rewrite map_app, app_length. simpl. rewrite <- app_assoc. simpl.
  replace (mc - (length hs + 1))%nat with k' by lia. reflexivity.
Qed.

Lemma sfi_vrow_none : forall mc n hs,
  (mc <= length hs)%nat -> set_first_invalid n (vrow mc hs) = None.
Proof.
  intros mc n hs H. unfold vrow. rewrite sfi_gen.
  replace (mc - length hs)%nat with 0%nat by lia. reflexivity.
Qed.

Lemma vp_write_none : forall n vs, fold_left (vp_write n) vs None = None.
Proof. intros n vs. induction vs as [|a r IH]; simpl; auto. Qed.

Definition vp_step (st : option (list (list (option nat))) * nat) (p : plaquette) :=
  (fold_left (vp_write (snd st)) (dedup (p_verts p)) (fst st), S (snd st)).

Lemma vp_step_none : forall ps k, fst (fold_left vp_step ps (None, k)) = None.
Proof.
  induction ps as [|p r IH]; intros k; simpl. reflexivity.
  unfold vp_step at 2. simpl. rewrite vp_write_none. apply IH.
Qed.

Section VP.
Variable mc : nat.

Lemma vp_inner : forall vs n t t' (hs : nat -> list nat),
  NoDup vs ->
  (forall v, (v < length t)%nat -> nth v t [] = vrow mc (hs v)) ->
  fold_left (vp_write n) vs (Some t) = Some t' ->
  length t' = length t /\
  (forall v, In v vs -> (v < length t)%nat /\ (length (hs v) < mc)%nat) /\
  (forall v, (v < length t)%nat -> nth v t' [] = vrow mc (hs v ++ (if memb v vs then [n] else []))).
Proof.
  induction vs as [|a r IH]; intros n t t' hs Hnd Hrows Hf; simpl in Hf.
  - inversion Hf; subst. split; [reflexivity|]. split. intros v []. 
    intros v Hv. simpl. rewrite app_nil_r. apply Hrows. assumption.
  - inversion Hnd as [|? ? Ha Hr]; subst.
    destruct (lt_dec a (length t)) as [Hlt|Hge].
    2:{ rewrite nth_overflow in Hf by lia. simpl in Hf. rewrite vp_write_none in Hf. discriminate. }
    rewrite (Hrows a Hlt) in Hf.
    destruct (lt_dec (length (hs a)) mc) as [Hc|Hc].
    2:{ rewrite sfi_vrow_none in Hf by lia. rewrite vp_write_none in Hf. discriminate. }
    rewrite sfi_vrow_some in Hf by assumption.
    set (t1 := set_nth a (vrow mc (hs a ++ [n])) t) in Hf.
    set (hs1 := fun v => if (v =? a)%nat then hs a ++ [n] else hs v).
    assert (Hl1 : length t1 = length t) by apply set_nth_length.
    destruct (IH n t1 t' hs1 Hr) as (L1 & L2 & L3).
    + intros v Hv. rewrite Hl1 in Hv. unfold hs1, t1. destruct (Nat.eqb_spec v a) as [->|Hne].
      * apply nth_set_nth_eq. assumption.
      * rewrite nth_set_nth_neq by congruence. apply Hrows. assumption.
    + exact Hf.
    + split. lia. split.
      * intros v [->|Hv]. auto.
        destruct (L2 v Hv) as [B1 B2]. split. lia.
        unfold hs1 in B2. destruct (Nat.eqb_spec v a) as [->|Hne]. contradiction. assumption.
      * intros v Hv. rewrite L3 by lia. unfold hs1. simpl.
        destruct (Nat.eqb_spec v a) as [->|Hne].
        -- assert (E : memb a r = false).
           { destruct (memb a r) eqn:E; [|reflexivity]. apply memb_in in E. contradiction. }
           rewrite E, app_nil_r. reflexivity.
        -- reflexivity.
Qed.

Lemma vp_outer : forall ps k t t' (hs : nat -> list nat),
  (forall v, (v < length t)%nat -> nth v t [] = vrow mc (hs v) /\ (length (hs v) <= mc)%nat) ->
  fst (fold_left vp_step ps (Some t, k)) = Some t' ->
  length t' = length t /\
  forall v, (v < length t)%nat ->
    nth v t' [] = vrow mc (hs v ++ holders ps k v) /\ (length (hs v ++ holders ps k v) <= mc)%nat.
Proof.
  induction ps as [|p r IH]; intros k t t' hs Hrows Hf; simpl in Hf.
  - inversion Hf; subst. split. reflexivity. intros v Hv. simpl. rewrite app_nil_r. apply Hrows. assumption.
  - unfold vp_step at 2 in Hf. simpl in Hf.
    destruct (fold_left (vp_write k) (dedup (p_verts p)) (Some t)) as [t1|] eqn:E1.
    2:{ rewrite vp_step_none in Hf. discriminate. }
    destruct (vp_inner _ _ _ _ hs (dedup_nodup (p_verts p)) (fun v Hv => proj1 (Hrows v Hv)) E1) as (L1 & L2 & L3).
    destruct (IH (S k) t1 t' (fun v => hs v ++ (if memb v (p_verts p) then [k] else []))) as (M1 & M2).
    + intros v Hv. rewrite L1 in Hv. split.
      * rewrite L3 by assumption. rewrite memb_dedup. reflexivity.
      * destruct (memb v (p_verts p)) eqn:Em.
        -- rewrite <- memb_dedup in Em. apply memb_in in Em. destruct (L2 v Em) as [_ B].
           rewrite app_length. simpl. lia.
        -- rewrite app_nil_r. apply Hrows. assumption.
    + exact Hf.
    + split. lia. intros v Hv. rewrite <- L1 in Hv. destruct (M2 v Hv) as [A B].
      simpl. rewrite app_assoc. auto.
Qed.
End VP.

Lemma nth_repeat_lt : forall A (x d : A) n m, (m < n)%nat -> nth m (repeat x n) d = x.
Proof. intros A x d n. induction n; intros [|m] H; simpl; try lia; auto. apply IHn. lia. Qed.

Lemma holders_in : forall ps k v n,
  In n (holders ps k v) <-> exists i p, n = (k + i)%nat /\ nth_error ps i = Some p /\ In v (p_verts p).
Proof.
  induction ps as [|p r IH]; intros k v n; simpl.
  - split. intros []. intros (i & p & _ & H & _). destruct i; discriminate.
  - rewrite in_app_iff, IH. split.
    + intros [H|(i & q & -> & Hq & Hv)].
      * destruct (memb v (p_verts p)) eqn:E; [|contradiction]. destruct H as [<-|[]].
        exists 0%nat, p. split. lia. split. reflexivity. apply memb_in. assumption.
      * exists (S i), q. split. lia. auto.
    + intros (i & q & -> & Hq & Hv). destruct i as [|i]; simpl in Hq.
      * inversion Hq; subst q. left. apply memb_in in Hv. rewrite Hv. left. lia.
      * right. exists i, q. split. lia. auto.
Qed.

Lemma holders_sorted : forall ps k v, StronglySorted lt (holders ps k v).
Proof.
  induction ps as [|p r IH]; intros k v; simpl. constructor.
  destruct (memb v (p_verts p)); simpl; [|apply IH].
  constructor. apply IH. apply Forall_forall. intros n Hn. apply holders_in in Hn.
  destruct Hn as (i & q & -> & _). lia.
Qed.

Lemma vrow_in_some : forall mc hs n, In (Some n) (vrow mc hs) <-> In n hs.
Proof.
  intros mc hs n. unfold vrow. rewrite in_app_iff, in_map_iff. split.
  - intros [[x [E Hx]]|H]. inversion E; subst; assumption. apply repeat_spec in H. discriminate.
  - intros H. left. exists n. auto.
Qed.

Lemma vrow_length : forall mc hs, (length hs <= mc)%nat -> length (vrow mc hs) = mc.
Proof. intros mc hs H. unfold vrow. rewrite app_length, map_length, repeat_length. lia. Qed.

(* whenever the table is produced (no IndexError), row v is: the plaquettes containing v in ascending
   order, each once, then INVALID up to the width max_coord *)
Lemma vertex_plaquettes_lemma : forall L ps t,
  vertices_plaquettes L ps = Some t ->
  length t = nV L /\
  forall v, (v < nV L)%nat ->
    nth v t [] = vrow (max_coord L) (holders ps 0 v) /\
    (length (holders ps 0 v) <= max_coord L)%nat /\
    length (nth v t []) = max_coord L /\
    (forall n, In (Some n) (nth v t []) <-> exists p, nth_error ps n = Some p /\ In v (p_verts p)).
Proof.
  intros L ps t H. unfold vertices_plaquettes in H.
  change (fun (st : option (list (list (option nat))) * nat) (p : plaquette) =>
            (fold_left (vp_write (snd st)) (dedup (p_verts p)) (fst st), S (snd st))) with vp_step in H.
  destruct (vp_outer (max_coord L) ps 0 (repeat (repeat None (max_coord L)) (nV L)) t (fun _ => [])) as [A B].
  - intros v Hv. rewrite repeat_length in Hv. rewrite nth_repeat_lt by assumption.
    unfold vrow. simpl. rewrite Nat.sub_0_r. split. reflexivity. lia.
  - exact H.
  - rewrite repeat_length in A, B. split. exact A.
    intros v Hv. destruct (B v Hv) as [B1 B2]. simpl in B1, B2.
    split. exact B1. split. exact B2. split.
    + rewrite B1. apply vrow_length. exact B2.
    + intros n. rewrite B1, vrow_in_some, holders_in. split.
      * intros (i & p & -> & Hp & Hin). exists p. auto.
      * intros (p & Hp & Hin). exists n, p. auto.
Qed.

(* ---------- the first-INVALID-slot search never fails ---------- *)
Lemma list_nat_eqb_eq : forall a b, list_nat_eqb a b = true -> a = b.
Proof.
  induction a as [|x a IH]; intros [|y b] H; simpl in H; try discriminate. reflexivity.
  apply andb_true_iff in H. destruct H as [H1 H2]. apply Nat.eqb_eq in H1. subst. f_equal. auto.
Qed.

Section VPT.
Variable mc : nat.

Lemma vp_inner_total : forall vs n t (hs : nat -> list nat),
  NoDup vs ->
  (forall v, (v < length t)%nat -> nth v t [] = vrow mc (hs v)) ->
  (forall v, In v vs -> (v < length t)%nat /\ (length (hs v) < mc)%nat) ->
  exists t', fold_left (vp_write n) vs (Some t) = Some t'.
Proof.
  induction vs as [|a r IH]; intros n t hs Hnd Hrows Hb; simpl. eauto.
  inversion Hnd as [|? ? Ha Hr]; subst.
  destruct (Hb a (or_introl eq_refl)) as [Hlt Hc].
  rewrite (Hrows a Hlt), sfi_vrow_some by assumption.
  apply IH with (hs := fun v => if (v =? a)%nat then hs a ++ [n] else hs v).
  - assumption.
  - intros v Hv. rewrite set_nth_length in Hv. destruct (Nat.eqb_spec v a) as [->|Hne].
    + apply nth_set_nth_eq. assumption.
    + rewrite nth_set_nth_neq by congruence. apply Hrows. assumption.
  - intros v Hv. rewrite set_nth_length. destruct (Nat.eqb_spec v a) as [->|Hne]. contradiction.
    apply Hb. right; assumption.
Qed.

Lemma vp_outer_total : forall ps k t (hs : nat -> list nat),
  (forall v, (v < length t)%nat -> nth v t [] = vrow mc (hs v)) ->
  (forall v, (v < length t)%nat -> (length (hs v ++ holders ps k v) <= mc)%nat) ->
  (forall p v, In p ps -> In v (p_verts p) -> (v < length t)%nat) ->
  exists t', fst (fold_left vp_step ps (Some t, k)) = Some t'.
Proof.
  induction ps as [|p r IH]; intros k t hs Hrows Hb Hin; simpl. eauto.
  unfold vp_step at 2. simpl.
  destruct (vp_inner_total (dedup (p_verts p)) k t hs (dedup_nodup _) Hrows) as [t1 E1].
  { intros v Hv. apply (proj1 (dedup_in _ _)) in Hv. assert (Hlt : (v < length t)%nat) by (apply (Hin p v (or_introl eq_refl) Hv)).
    split. assumption. specialize (Hb v Hlt). simpl in Hb. apply memb_in in Hv. rewrite Hv in Hb.
    rewrite !app_length in Hb. simpl in Hb. lia. }
  rewrite E1.
  destruct (vp_inner mc _ _ _ _ hs (dedup_nodup (p_verts p)) Hrows E1) as (L1 & L2 & L3).
  apply IH with (hs := fun v => hs v ++ (if memb v (p_verts p) then [k] else [])).
  - intros v Hv. rewrite L1 in Hv. rewrite L3 by assumption. rewrite memb_dedup. reflexivity.
  - intros v Hv. rewrite L1 in Hv. specialize (Hb v Hv). simpl in Hb. rewrite <- app_assoc. exact Hb.
  - intros q v Hq Hv. rewrite L1. eapply Hin; [right; exact Hq|exact Hv].
Qed.
End VPT.

(* counting: the plaquettes containing v inject into the darts leaving v *)
Definition tails (L : lattice) (v : nat) (ds : list dart) : list dart :=
  filter (fun d => dtail L d =? v)%nat ds.

Lemma in_map_filter_length : forall A (f : A -> nat) v l,
  In v (map f l) -> (1 <= length (filter (fun x => f x =? v)%nat l))%nat.
Proof.
  intros A f v l. induction l as [|a l IH]; simpl. intros [].
  intros [E|H].
  - subst v. rewrite Nat.eqb_refl. simpl. lia.
  - destruct (f a =? v)%nat; simpl; [lia|auto].
Qed.

Lemma holders_le_tails : forall L ps k v,
  (forall p, In p ps -> p_verts p = map (dtail L) (plaq_darts p)) ->
  (length (holders ps k v) <= length (tails L v (all_plaq_darts ps)))%nat.
Proof.
  intros L ps. induction ps as [|p r IH]; intros k v H; simpl. lia.
  unfold tails in *. rewrite filter_app, !app_length.
  specialize (IH (S k) v (fun q Hq => H q (or_intror Hq))).
  destruct (memb v (p_verts p)) eqn:E; simpl; [|lia].
  apply memb_in in E. rewrite (H p (or_introl eq_refl)) in E.
  apply in_map_filter_length in E. lia.
Qed.

Lemma in_all_darts : forall L e b, (e < nE L)%nat -> In (e, b) (all_darts L).
Proof.
  intros L e b H. unfold all_darts. apply in_flat_map. exists e. split. apply in_seq; lia.
  destruct b; simpl; auto.
Qed.

Lemma tails_le_all : forall L v ds,
  NoDup ds -> (forall d, In d ds -> (fst d < nE L)%nat) ->
  (length (tails L v ds) <= length (tails L v (all_darts L)))%nat.
Proof.
  intros L v ds Hnd Hr. unfold tails. apply NoDup_incl_length. apply NoDup_filter; assumption.
  intros d Hd. apply filter_In in Hd. destruct Hd as [Hd Ht]. apply filter_In. split; [|assumption].
  destruct d as [e b]. apply in_all_darts. apply (Hr _ Hd).
Qed.

Lemma map_nth_seq : forall A (l : list A) d, map (fun i => nth i l d) (seq 0 (length l)) = l.
Proof.
  intros A l d. induction l as [|a l IH]; simpl. reflexivity.
  f_equal. rewrite <- seq_shift, map_map. exact IH.
Qed.

Definition ends_g (v : nat) (ed : nat * nat) : nat :=
  ((if (fst ed =? v)%nat then 1 else 0) + (if (snd ed =? v)%nat then 1 else 0))%nat.

Lemma tails_all_count : forall L v, length (tails L v (all_darts L)) = count_ends L v.
Proof.
  intros L v.
  assert (A : length (tails L v (all_darts L)) = list_sum (map (fun e => ends_g v (edge_at L e)) (seq 0 (nE L)))).
  { unfold tails, all_darts. induction (seq 0 (nE L)) as [|e r IH]. reflexivity.
    cbn [flat_map app filter map list_sum].
    assert (E1 : (dtail L (e, true) =? v)%nat = (fst (edge_at L e) =? v)%nat)
      by (unfold dtail; simpl; destruct (edge_at L e); reflexivity).
    assert (E2 : (dtail L (e, false) =? v)%nat = (snd (edge_at L e) =? v)%nat)
      by (unfold dtail; simpl; destruct (edge_at L e); reflexivity).
    rewrite E1, E2. unfold ends_g at 1.
    destruct (fst (edge_at L e) =? v)%nat, (snd (edge_at L e) =? v)%nat; cbn [length]; rewrite IH; reflexivity. }
  rewrite A. rewrite <- (map_map (edge_at L) (ends_g v)). unfold edge_at, nE. rewrite map_nth_seq.
  unfold count_ends. induction (edges L) as [|e r IH]; simpl. reflexivity.
  rewrite IH. unfold ends_g. lia.
Qed.

Lemma le_fold_max : forall x l, In x l -> (x <= fold_right Nat.max 0 l)%nat.
Proof. intros x l. induction l as [|a l IH]; simpl. intros []. intros [->|H]. lia. specialize (IH H). lia. Qed.

Lemma count_ends_pos_in : forall L v, (0 < count_ends L v)%nat ->
  exists e, In e (edges L) /\ (fst e = v \/ snd e = v).
Proof.
  intros L v. unfold count_ends. induction (edges L) as [|e r IH]; simpl. lia.
  intros H. destruct (Nat.eqb_spec (fst e) v) as [E1|E1]. exists e; auto.
  destruct (Nat.eqb_spec (snd e) v) as [E2|E2]. exists e; auto.
  destruct IH as [x [Hx Hv]]. simpl in H; lia. exists x. auto.
Qed.

Lemma count_ends_le_max_coord : forall L v, (count_ends L v <= max_coord L)%nat.
Proof.
  intros L v. destruct (Nat.eq_dec (count_ends L v) 0) as [E|E]. lia.
  destruct (count_ends_pos_in L v) as [e [He Hv]]. lia.
  unfold max_coord, coordination_bincount, max_index.
  destruct (edges L) as [|e0 r] eqn:Eed. contradiction.
  rewrite <- Eed in *. apply le_fold_max. apply in_map. apply in_seq. split. lia. simpl.
  assert (G : forall l, In e l -> (Nat.max (fst e) (snd e) <= fold_right (fun e acc => Nat.max (Nat.max (fst e) (snd e)) acc) 0 l)%nat).
  { induction l as [|a l IH]; simpl. intros []. intros [->|H]. lia. specialize (IH H). lia. }
  specialize (G _ He). lia.
Qed.

Lemma dtail_lt : forall L e b, wf_lattice L = true -> (e < nE L)%nat -> (dtail L (e, b) < nV L)%nat.
Proof.
  intros L e b Hwf He. unfold wf_lattice in Hwf. apply andb_true_iff in Hwf. destruct Hwf as [_ Hwf].
  rewrite forallb_forall in Hwf. specialize (Hwf (edge_at L e)).
  assert (Hin : In (edge_at L e) (edges L)) by (apply nth_In; exact He).
  apply Hwf in Hin. unfold wf_edge in Hin. unfold dtail. simpl. destruct (edge_at L e) as [j k]. simpl in Hin.
  destruct b; lia.
Qed.

Lemma plaq_walk_ok_spec : forall L p, plaq_walk_ok L p = true ->
  length (p_dirs p) = length (p_edges p) /\
  (forall e, In e (p_edges p) -> (e < nE L)%nat) /\
  p_verts p = map (dtail L) (plaq_darts p).
Proof.
  intros L p H. unfold plaq_walk_ok in H. rewrite !andb_true_iff in H. destruct H as [[H1 H2] H3].
  split. apply Nat.eqb_eq; assumption. split.
  - intros e He. rewrite forallb_forall in H2. apply H2 in He. lia.
  - apply list_nat_eqb_eq. assumption.
Qed.

(* with C01's guarantees about the plaquette list (no dart in two plaquettes, walks are closed walks
   of the lattice) the table is always produced: #plaquettes at v <= #darts leaving v = deg v <= max_coord *)
Lemma vertex_plaquettes_total_lemma : forall L ps,
  wf_lattice L = true ->
  darts_disjoint ps = true ->
  forallb (plaq_walk_ok L) ps = true ->
  (forall v, (length (holders ps 0 v) <= count_ends L v)%nat) /\
  exists t, vertices_plaquettes L ps = Some t.
Proof.
  intros L ps Hwf Hd Hok. apply dart_nodupb_spec in Hd. rewrite forallb_forall in Hok.
  assert (Hcount : forall v, (length (holders ps 0 v) <= count_ends L v)%nat).
  { intros v. rewrite <- tails_all_count.
    etransitivity. apply (holders_le_tails L).
    - intros p Hp. apply (plaq_walk_ok_spec L p (Hok p Hp)).
    - apply tails_le_all. assumption.
      intros [e b] Hin. apply in_flat_map in Hin. destruct Hin as [p [Hp Hin]].
      apply in_combine_l in Hin. simpl. apply (plaq_walk_ok_spec L p (Hok p Hp)). assumption. }
  split. exact Hcount.
  unfold vertices_plaquettes.
  change (fun (st : option (list (list (option nat))) * nat) (p : plaquette) =>
            (fold_left (vp_write (snd st)) (dedup (p_verts p)) (fst st), S (snd st))) with vp_step.
  apply (vp_outer_total (max_coord L)) with (hs := fun _ => []).
  - intros v Hv. rewrite repeat_length in Hv. rewrite nth_repeat_lt by assumption.
    unfold vrow. simpl. rewrite Nat.sub_0_r. reflexivity.
  - intros v _. simpl. etransitivity. apply Hcount. apply count_ends_le_max_coord.
  - intros p v Hp Hv. rewrite repeat_length.
    destruct (plaq_walk_ok_spec L p (Hok p Hp)) as (_ & Hr & Hvs). rewrite Hvs in Hv.
    apply in_map_iff in Hv. destruct Hv as [[e b] [<- Hin]]. apply dtail_lt. assumption.
    apply Hr. apply in_combine_l in Hin. assumption.
Qed.

(* ---------- the statements used by Props/C02.v, under the single boolean hypothesis ---------- *)
Lemma plaq_list_ok_spec : forall L ps, plaq_list_ok L ps = true ->
  darts_disjoint ps = true /\ forallb (plaq_walk_ok L) ps = true /\
  forall p, In p ps -> plaq_walk_ok L p = true /\ nodupb (p_edges p) = true.
Proof.
  intros L ps H. unfold plaq_list_ok in H. apply andb_true_iff in H. destruct H as [H1 H2].
  rewrite forallb_forall in H2. split. assumption. split.
  - apply forallb_forall. intros p Hp. apply H2 in Hp. apply andb_true_iff in Hp. tauto.
  - intros p Hp. apply H2 in Hp. apply andb_true_iff in Hp. tauto.
Qed.

(* plaquette n's adjacent_plaquettes: entry i is the plaquette traversing edge i in the opposite
   direction, INVALID exactly when there is none *)
Lemma plaquette_neighbours_across_lemma : forall L ps n p,
  plaq_list_ok L ps = true ->
  nth_error ps n = Some p ->
  exists nbs,
    nth_error (all_plaquette_neighbours L ps) n = Some nbs /\
    length nbs = length (p_edges p) /\
    forall i e d, nth_error (plaq_darts p) i = Some (e, d) ->
      exists x, nth_error nbs i = Some x /\
        x = ep_col (nth e (edges_plaquettes L ps) (None, None)) (negb d) /\
        (forall m, x = Some m <-> owner ps (e, negb d) m) /\
        (x = None <-> forall m, ~ owner ps (e, negb d) m).
Proof.
  intros L ps n p Hok Hn. destruct (plaq_list_ok_spec L ps Hok) as (Hd & _ & Hall).
  destruct (Hall p (nth_error_In _ _ Hn)) as [Hw Hnd].
  destruct (plaq_walk_ok_spec L p Hw) as (Hlen & Hr & _).
  assert (Hwf : forallb (fun e => e <? nE L)%nat (p_edges p) = true).
  { apply forallb_forall. intros e He. apply Hr in He. lia. }
  destruct (plaquette_neighbours_lemma L ps n p Hd Hn Hnd Hlen Hwf) as [Hnb Hl].
  exists (plaquette_neighbours (edges_plaquettes L ps) n p).
  split. apply all_plaquette_neighbours_nth; assumption. split. exact Hl.
  intros i e d Hi. rewrite Hnb.
  exists (ep_col (nth e (edges_plaquettes L ps) (None, None)) (negb d)).
  split. rewrite nth_error_map, Hi. reflexivity. split. reflexivity.
  assert (He : (e < nE L)%nat).
  { apply nth_error_In in Hi. apply in_combine_l in Hi. apply Hr. assumption. }
  destruct (edge_sides_lemma L ps Hd) as [_ Hes]. apply (Hes e (negb d) He).
Qed.
