(* Proofs/SamplingFacts.v — facts about Model/Sampling.v (C20, first sentence). *)
From Coq Require Import List ZArith QArith Bool Arith Lia Lqa.
From Koala Require Import Model.Sampling.
Import ListNotations.
Open Scope Q_scope.

Lemma Zpos_of_nat : forall n, (n <> 0)%nat -> Zpos (Pos.of_nat n) = Z.of_nat n.
Proof. intros n Hn. rewrite <- positive_nat_Z. now rewrite Nat2Pos.id. Qed.

(* every entry of np.linspace(0, 0.5, s) lies in [0, 1/2] *)
Lemma linspace_half_bounds : forall s x, (2 <= s)%nat -> In x (linspace_half s) -> 0 <= x <= 1 # 2.
Proof.
  intros s x Hs Hin. unfold linspace_half in Hin. apply in_map_iff in Hin.
  destruct Hin as (i & Hx & Hi). apply in_seq in Hi. subst x.
  unfold Qle. simpl. rewrite Zpos_of_nat by lia. split; lia.
Qed.

Lemma linspace_half_length : forall s, length (linspace_half s) = s.
Proof. intros. unfold linspace_half. now rewrite map_length, seq_length. Qed.

Lemma grid_bounds : forall s p, (2 <= s)%nat -> In p (grid s) ->
  0 <= fst p <= 1 # 2 /\ 0 <= snd p <= 1 # 2.
Proof.
  intros s p Hs Hin. unfold grid in Hin. apply in_flat_map in Hin.
  destruct Hin as (y & Hy & Hp). apply in_map_iff in Hp. destruct Hp as (x & Hp & Hx). subst p. simpl.
  split; apply linspace_half_bounds with (s := s); auto.
Qed.

Lemma grid_length : forall s, length (grid s) = (s * s)%nat.
Proof.
  intros s. unfold grid.
  assert (H : forall l : list Q, length (flat_map (fun y => map (fun x => (x, y)) (linspace_half s)) l) = (length l * s)%nat).
  { induction l as [|a l IH]; simpl; [reflexivity|].
    rewrite app_length, map_length, linspace_half_length, IH. lia. }
  rewrite H, linspace_half_length. reflexivity.
Qed.

Definition valid_triple (t : Q * Q * Q) : Prop :=
  let '(x, y, z) := t in 0 <= x /\ 0 <= y /\ 0 <= z /\ x + y + z == 1.

Lemma triple_valid : forall p,
  0 <= fst p <= 1 # 2 -> 0 <= snd p <= 1 # 2 -> valid_triple (triple p).
Proof.
  intros [x y] Hx Hy. simpl in *. repeat split; lra.
Qed.

Lemma centre_valid : valid_triple (triple centre).
Proof. unfold centre, triple, valid_triple. simpl. repeat split; try (unfold Qle; simpl; lia). Qed.

(* ★ points_on_simplex, plain scheme *)
Theorem nonsym_points_on_simplex : forall s t, (2 <= s)%nat -> In t (nonsym_triples s) -> valid_triple t.
Proof.
  intros s t Hs Hin. unfold nonsym_triples in Hin. apply in_map_iff in Hin.
  destruct Hin as (p & Ht & Hp). subst t. unfold nonsym_points in Hp. apply filter_In in Hp.
  destruct Hp as [Hg _]. destruct (grid_bounds s p Hs Hg). now apply triple_valid.
Qed.

(* ★ points_on_simplex, symmetric scheme, centre point included *)
Theorem sym_points_on_simplex : forall s t, (2 <= s)%nat -> In t (sym_triples s) -> valid_triple t.
Proof.
  intros s t Hs Hin. unfold sym_triples in Hin. apply in_map_iff in Hin.
  destruct Hin as (p & Ht & Hp). subst t. unfold sym_points in Hp. apply in_app_or in Hp.
  destruct Hp as [Hp|[Hp|[]]].
  - apply filter_In in Hp. destruct Hp as [Hg _]. destruct (grid_bounds s p Hs Hg). now apply triple_valid.
  - subst p. apply centre_valid.
Qed.

(* the boolean checker run by the driver is sound for valid_triple *)
Lemma on_simplex_sound : forall t, on_simplex t = true -> valid_triple t.
Proof.
  intros [[x y] z] H. unfold on_simplex in H.
  repeat (apply andb_prop in H; destruct H as [H ?]).
  repeat split; try (now apply Qle_bool_imp_le). now apply Qeq_bool_eq.
Qed.

(* the filter of the plain scheme never removes anything: xs + ys <= 1 holds on the whole grid *)
Lemma nonsym_filter_vacuous : forall s, (2 <= s)%nat -> nonsym_points s = grid s.
Proof.
  intros s Hs. unfold nonsym_points.
  assert (H : forall l, (forall p, In p l -> nonsym_keep p = true) -> filter nonsym_keep l = l).
  { induction l as [|a l IH]; intros Hl; simpl; [reflexivity|].
    rewrite (Hl a (or_introl eq_refl)). f_equal. apply IH. intros p Hp. apply Hl. now right. }
  apply H. intros p Hp. destruct (grid_bounds s p Hs Hp) as [Hx Hy].
  unfold nonsym_keep. apply Qle_bool_iff. lra.
Qed.

Lemma nonsym_count : forall s, (2 <= s)%nat -> length (nonsym_triples s) = (s * s)%nat.
Proof.
  intros s Hs. unfold nonsym_triples. rewrite map_length, nonsym_filter_vacuous by assumption.
  apply grid_length.
Qed.

(* the appended centre point is always the last sampling point *)
Lemma sym_last_is_centre : forall s, exists l, sym_triples s = l ++ [triple centre].
Proof.
  intros s. unfold sym_triples, sym_points. rewrite map_app. simpl. eexists. reflexivity.
Qed.
