(* Proofs/SpanTreeAcyclic.v — "without a cycle" for the plaquette spanning tree of Model/SpanTree.v.

   DEFINITION OF CYCLE USED.  The plaquette graph is a MULTIgraph (two plaquettes may share several
   edges, e.g. on the 2x2 torus), so cycles are defined through edges, not vertices:
     a walk    x -e1- x1 -e2- ... -ek- y   lists the edges traversed ([walk G x [e1;..;ek] y], every
               e_i in G and joining consecutive vertices, in either direction);
     a cycle   is a closed walk (y = x) of length k >= 1 whose edges are pairwise distinct
               (a non-trivial closed TRAIL: k = 1 is a self-loop, k = 2 a pair of parallel edges);
     acyclic G := there is none: every closed walk with [NoDup] edges is the empty walk.
   What is proved is slightly stronger ([trails_open]): every non-empty edge-simple walk has two
   DIFFERENT end points.

   GENERIC LEMMA ([attached_acyclic]).  A graph built from a vertex set S by repeatedly attaching a
   NEW vertex by ONE edge to a vertex already present has no cycle.  Proof by induction on the
   construction from the last edge: the vertex attached last is a leaf (the only edge at it is the
   last one, because every earlier edge has both ends among the earlier vertices), so an
   edge-simple walk through the last edge starts or ends at the leaf and has its other end among the
   older vertices.

   INSTANCE.  The growth invariant [trace_ok] of the spanning-tree loop (SpanTreeFacts.v: the link of
   iteration i is a two-sided edge joining a plaquette already in to one not yet in, for EVERY
   candidate-order oracle) is exactly such a construction. *)
From Coq Require Import List ZArith Bool Arith Lia.
From Koala Require Import Model.Lattice Model.Flux Model.SpanTree Proofs.FluxFacts Proofs.SpanTreeFacts.
Import ListNotations.
Local Open Scope nat_scope.

(* ------------------------------------------------------------------ generic: graphs given by a list of edges *)
Section Attach.
  Variables V E : Type.
  (* [J e a b]: edge e joins a and b *)
  Variable J : E -> V -> V -> Prop.
  Hypothesis J_sym : forall e a b, J e a b -> J e b a.
  (* an edge has one pair of ends *)
  Hypothesis J_fun : forall e a b c d, J e a b -> J e c d -> (c = a /\ d = b) \/ (c = b /\ d = a).

  Inductive walk (G : list E) : V -> list E -> V -> Prop :=
  | walk_nil : forall x, walk G x [] x
  | walk_cons : forall x y z e es, In e G -> J e x y -> walk G y es z -> walk G x (e :: es) z.

  Definition acyclic (G : list E) : Prop :=
    forall x es, walk G x es x -> NoDup es -> es = [].

  (* the construction: each (e, q) attaches the new vertex q by the edge e to a vertex already in S *)
  Fixpoint attached (S : list V) (l : list (E * V)) : Prop :=
    match l with
    | [] => True
    | x :: r => (exists a, In a S /\ J (fst x) a (snd x)) /\ ~ In (snd x) S /\ attached (S ++ [snd x]) r
    end.

  Lemma attached_app : forall l1 l2 S,
    attached S (l1 ++ l2) -> attached S l1 /\ attached (S ++ map snd l1) l2.
  Proof.
    induction l1 as [|x l1 IH]; intros l2 S H; simpl in *.
    - rewrite app_nil_r. auto.
    - destruct H as (Ha & Hn & Hr). destruct (IH l2 _ Hr) as [H1 H2].
      rewrite <- app_assoc in H2. simpl in H2. auto.
  Qed.

  (* both ends of every edge of the construction are among the vertices of the construction *)
  Lemma attached_ends_in : forall l S e u v,
    attached S l -> In e (map fst l) -> J e u v -> In u (S ++ map snd l) /\ In v (S ++ map snd l).
  Proof.
    induction l as [|[e0 q0] r IH]; intros S e u v H Hin HJ; [destruct Hin|].
    simpl in H. destruct H as ((a & Ha & Hj) & Hn & Hr). simpl in Hin. destruct Hin as [<-|Hin].
    - simpl. destruct (J_fun _ _ _ _ _ Hj HJ) as [[-> ->]|[-> ->]]; split; apply in_or_app; simpl; auto.
    - destruct (IH _ e u v Hr Hin HJ) as [Hu Hv]. rewrite <- app_assoc in Hu, Hv. simpl in *. auto.
  Qed.

  Lemma walk_weaken : forall G G' x es y, incl G G' -> walk G x es y -> walk G' x es y.
  Proof.
    intros G G' x es y Hi H. induction H as [x|x y z e es He HJ _ IH]; [constructor|].
    econstructor; eauto.
  Qed.

  (* a walk only uses what it lists *)
  Lemma walk_restrict : forall G G' x es y,
    walk G x es y -> (forall e, In e es -> In e G') -> walk G' x es y.
  Proof.
    intros G G' x es y H. induction H as [x|x y z e es He HJ _ IH]; intros Hs; [constructor|].
    econstructor; [apply Hs; now left|exact HJ|apply IH; intros; apply Hs; now right].
  Qed.

  Lemma walk_split : forall G es1 e es2 x y,
    walk G x (es1 ++ e :: es2) y -> exists u v, walk G x es1 u /\ J e u v /\ walk G v es2 y.
  Proof.
    intros G. induction es1 as [|e1 es1 IH]; intros e es2 x y H; simpl in H.
    - inversion H as [|x0 y0 z0 e0 es0 He HJ Hr]; subst. exists x, y0. split; [constructor|]. auto.
    - inversion H as [|x0 y0 z0 e0 es0 He HJ Hr]; subst. destruct (IH _ _ _ _ Hr) as (u & v & W1 & W2 & W3).
      exists u, v. split; [econstructor; eauto|]. auto.
  Qed.

  Lemma walk_app : forall G x es1 y es2 z, walk G x es1 y -> walk G y es2 z -> walk G x (es1 ++ es2) z.
  Proof.
    intros G x es1 y es2 z H1 H2. induction H1 as [x|x y' z' e es He HJ _ IH]; simpl; [exact H2|].
    econstructor; eauto.
  Qed.

  Lemma walk_rev : forall G x es y, walk G x es y -> walk G y (rev es) x.
  Proof.
    intros G x es y H. induction H as [x|x y z e es He HJ _ IH]; simpl; [constructor|].
    eapply walk_app; [exact IH|]. econstructor; [exact He|apply J_sym; exact HJ|constructor].
  Qed.

  (* end points of a non-empty walk are ends of edges of the graph *)
  Lemma walk_first : forall G x es y, walk G x es y -> es <> [] -> exists e v, In e G /\ J e x v.
  Proof. intros G x es y H Hne. destruct H; [congruence|eauto]. Qed.

  (* leaf: a walk from (to) a vertex at which [e] is the only edge, not using [e], is empty *)
  Lemma walk_from_leaf : forall G q e es y,
    (forall e' v, In e' G -> J e' q v -> e' = e) -> walk G q es y -> ~ In e es -> es = [].
  Proof.
    intros G q e es y Hleaf H Hn. destruct H as [|x y z e' es He HJ _]; [reflexivity|].
    exfalso. apply Hn. left. eapply Hleaf; eauto.
  Qed.

  Lemma walk_to_leaf : forall G q e es x,
    (forall e' v, In e' G -> J e' q v -> e' = e) -> walk G x es q -> ~ In e es -> es = [].
  Proof.
    intros G q e es x Hleaf H Hn. apply walk_rev in H.
    assert (Er : rev es = []) by (eapply walk_from_leaf; eauto; now rewrite <- in_rev).
    rewrite <- (rev_involutive es), Er. reflexivity.
  Qed.

  Hypothesis E_dec : forall x y : E, {x = y} + {x <> y}.

  (* every non-empty edge-simple walk in an attached graph has two different end points *)
  Theorem trails_open : forall l S x es y,
    attached S l -> walk (map fst l) x es y -> NoDup es -> es <> [] -> x <> y.
  Proof.
    induction l as [|[e q] l' IH] using rev_ind; intros S x es y Hatt Hw Hnd Hne.
    - exfalso. destruct Hw; [congruence|contradiction].
    - destruct (attached_app _ _ _ Hatt) as [Hatt' Hlast]. simpl in Hlast.
      destruct Hlast as ((a & Ha & Hj) & Hq & _). simpl in Ha, Hj, Hq.
      set (old := S ++ map snd l') in *.
      rewrite map_app in Hw. simpl in Hw.
      (* both ends of an edge of l' are old *)
      assert (Hold : forall e' u v, In e' (map fst l') -> J e' u v -> In u old /\ In v old)
        by (intros e' u v; apply attached_ends_in; exact Hatt').
      (* q is a leaf: the only edge at q is e *)
      assert (Hleaf : forall e' v, In e' (map fst l' ++ [e]) -> J e' q v -> e' = e).
      { intros e' v Hin HJ. apply in_app_or in Hin. destruct Hin as [Hin|[<-|[]]]; [|reflexivity].
        exfalso. apply Hq. apply (Hold e' q v Hin HJ). }
      (* a non-empty walk that avoids e starts at an old vertex *)
      assert (Hstart : forall x' es' y', walk (map fst l' ++ [e]) x' es' y' -> ~ In e es' -> es' <> [] -> In x' old).
      { intros x' es' y' H Hn Hne'. destruct H as [|x' y' z' e' es' He HJ _]; [congruence|].
        apply in_app_or in He. destruct He as [He|[<-|[]]]; [|exfalso; apply Hn; now left].
        apply (Hold e' x' y' He HJ). }
      destruct (in_dec E_dec e es) as [Hin|Hnot].
      + (* the walk uses the last edge *)
        destruct (in_split _ _ Hin) as (es1 & es2 & ->).
        apply NoDup_remove_2 in Hnd.
        assert (Hn1 : ~ In e es1) by (intros H; apply Hnd, in_or_app; now left).
        assert (Hn2 : ~ In e es2) by (intros H; apply Hnd, in_or_app; now right).
        destruct (walk_split _ _ _ _ _ _ Hw) as (u & v & H1 & HJ & H2).
        destruct (J_fun _ _ _ _ _ Hj HJ) as [[-> ->]|[-> ->]].
        * (* ... x -es1-> a -e- q -es2-> y : es2 is empty, y = q, x is old *)
          assert (E2 : es2 = []) by (eapply walk_from_leaf; eauto). subst es2.
          inversion H2; subst.
          assert (Hx : In x old).
          { destruct es1 as [|e1 es1]; [inversion H1; subst; exact Ha|].
            eapply Hstart; [exact H1|exact Hn1|discriminate]. }
          intros ->. contradiction.
        * (* ... x -es1-> q -e- a -es2-> y : es1 is empty, x = q, y is old *)
          assert (E1 : es1 = []) by (eapply walk_to_leaf; eauto). subst es1.
          inversion H1; subst.
          assert (Hy : In y old).
          { destruct es2 as [|e2 es2]; [inversion H2; subst; exact Ha|].
            apply walk_rev in H2.
            eapply Hstart; [exact H2|now rewrite <- in_rev|].
            intros E0. apply (f_equal (@length E)) in E0. rewrite rev_length in E0. discriminate. }
          intros <-. contradiction.
      + (* the walk avoids the last edge: it is a walk of the graph built before *)
        apply (IH S x es y Hatt'); [|exact Hnd|exact Hne].
        apply (walk_restrict _ _ _ _ _ Hw). intros e' He'.
        assert (Hin' : In e' (map fst l' ++ [e])).
        { clear - Hw He'. induction Hw as [|x y z e0 es He0 HJ _ IH]; [destruct He'|].
          destruct He' as [<-|He']; auto. }
        apply in_app_or in Hin'. destruct Hin' as [H|[<-|[]]]; [exact H|contradiction].
  Qed.

  (* a graph built by repeatedly attaching a new vertex by one edge has no cycle *)
  Corollary attached_acyclic : forall l S, attached S l -> acyclic (map fst l).
  Proof.
    intros l S Hatt x es Hw Hnd. destruct es as [|e es]; [reflexivity|].
    exfalso. apply (trails_open l S x (e :: es) x Hatt Hw Hnd); [discriminate|reflexivity].
  Qed.
End Attach.

(* ------------------------------------------------------------------ the plaquette graph restricted to tree edges *)
(* edge e has plaquette a on one side and plaquette b on the other (same relation as in [tconn]) *)
Definition joins (ep : list ep_row) (e a b : nat) : Prop :=
  two_sided ep e = Some (a, b) \/ two_sided ep e = Some (b, a).

(* walks of the plaquette graph through the edges of [tree], listing the edges traversed *)
Inductive twalk (ep : list ep_row) (tree : list nat) : nat -> list nat -> nat -> Prop :=
| twalk_nil : forall q, twalk ep tree q [] q
| twalk_step : forall q a b e es, In e tree ->
    (two_sided ep e = Some (q, a) \/ two_sided ep e = Some (a, q)) ->
    twalk ep tree a es b -> twalk ep tree q (e :: es) b.

(* no cycle: every closed walk through pairwise distinct tree edges is the empty walk *)
Definition tree_acyclic (ep : list ep_row) (tree : list nat) : Prop :=
  forall q es, twalk ep tree q es q -> NoDup es -> es = [].

Lemma joins_sym : forall ep e a b, joins ep e a b -> joins ep e b a.
Proof. unfold joins. tauto. Qed.

Lemma joins_fun : forall ep e a b c d,
  joins ep e a b -> joins ep e c d -> (c = a /\ d = b) \/ (c = b /\ d = a).
Proof. unfold joins. intros ep e a b c d [H|H] [H'|H']; rewrite H in H'; inversion H'; auto. Qed.

Lemma twalk_walk : forall ep tree x es y,
  twalk ep tree x es y <-> walk nat nat (joins ep) tree x es y.
Proof.
  intros ep tree x es y. split; intros H.
  - induction H as [q|q a b e es He HJ _ IH]; [constructor|]. econstructor; eauto.
  - induction H as [q|q a b e es He HJ _ IH]; [constructor|]. econstructor; eauto.
Qed.

(* walks and [tconn] are the same notion of connection *)
Lemma twalk_snoc : forall ep tree x es a e b,
  twalk ep tree x es a -> In e tree -> joins ep e a b -> twalk ep tree x (es ++ [e]) b.
Proof.
  intros ep tree x es a e b H He HJ. induction H as [q|q a' b' e' es He' HJ' _ IH]; simpl.
  - econstructor; [exact He|exact HJ|constructor].
  - econstructor; [exact He'|exact HJ'|]. apply IH. exact HJ.
Qed.

Lemma tconn_iff_twalk : forall ep tree a b,
  tconn ep tree a b <-> exists es, twalk ep tree a es b.
Proof.
  intros ep tree a b. split.
  - induction 1 as [q|q a b e _ [es IH] He HJ]; [exists []; constructor|].
    exists (es ++ [e]). eapply twalk_snoc; eauto.
  - intros [es H]. induction H as [q|q a' b' e es He HJ _ IH]; [constructor|].
    assert (G : forall x y, tconn ep tree x y -> forall z, tconn ep tree z x -> tconn ep tree z y).
    { induction 1 as [|q0 a0 b0 e0 _ IH0 He0 HJ0]; intros z Hz; [exact Hz|].
      eapply tconn_step; [apply IH0; exact Hz|exact He0|exact HJ0]. }
    apply (G _ _ IH). eapply tconn_step; [constructor|exact He|exact HJ].
Qed.

(* the loop invariant is an attachment construction *)
Lemma trace_ok_attached : forall ep l pin, trace_ok ep pin l -> attached nat nat (joins ep) pin l.
Proof.
  intros ep. induction l as [|[e q] r IH]; intros pin H; simpl; [exact I|].
  simpl in H. destruct H as [(a & b & H2 & Hnot & Hcase) Hr]. simpl in *.
  split; [|split; [exact Hnot|apply IH; exact Hr]].
  destruct Hcase as [[-> Hb]|[-> Ha]].
  - exists b. split; [exact Hb|]. right. exact H2.
  - exists a. split; [exact Ha|]. left. exact H2.
Qed.

Lemma trace_trails_open : forall ep l pin x es y,
  trace_ok ep pin l -> twalk ep (map fst l) x es y -> NoDup es -> es <> [] -> x <> y.
Proof.
  intros ep l pin x es y Hok Hw. apply twalk_walk in Hw.
  apply (trails_open nat nat (joins ep) (joins_sym ep) (joins_fun ep) Nat.eq_dec l pin x es y).
  - now apply trace_ok_attached.
  - exact Hw.
Qed.

Lemma trace_acyclic : forall ep l pin, trace_ok ep pin l -> tree_acyclic ep (map fst l).
Proof.
  intros ep l pin Hok q es Hw Hnd. destruct es as [|e es]; [reflexivity|].
  exfalso. apply (trace_trails_open ep l pin q (e :: es) q Hok Hw Hnd); [discriminate|reflexivity].
Qed.

(* ------------------------------------------------------------------ statements in the form used by Props/C14.v *)
(* the links found by the loop, for every oracle, whether or not every iteration found one, and
   without any hypothesis on the tables *)
Lemma tree_links_acyclic : forall (order : order_fn) ep pes tr,
  spanning_trace order ep pes = Some tr ->
  (forall x es y, twalk ep (map fst (somes tr)) x es y -> NoDup es -> es <> [] -> x <> y)
  /\ (forall q es, twalk ep (map fst (somes tr)) q es q -> NoDup es -> es = []).
Proof.
  intros order ep pes tr H. destruct (spanning_trace_links _ _ _ _ H) as [_ Hok]. split.
  - intros x es y. apply (trace_trails_open ep _ [0] x es y Hok).
  - apply (trace_acyclic ep _ [0] Hok).
Qed.

(* the returned tree when no entry is -1 *)
Lemma tree_acyclic_lemma : forall (order : order_fn) ep pes t tree,
  plaquette_spanning_tree order ep pes = Some t -> all_some t = Some tree ->
  (forall x es y, twalk ep tree x es y -> NoDup es -> es <> [] -> x <> y)
  /\ (forall q es, twalk ep tree q es q -> NoDup es -> es = []).
Proof.
  intros order ep pes t tree Ht Hall. unfold plaquette_spanning_tree in Ht.
  destruct (spanning_trace order ep pes) as [tr|] eqn:E; [|discriminate]. simpl in Ht. inversion Ht; subst t.
  destruct (all_some_map_fst tr tree Hall) as [l [Hl Hm]].
  destruct (all_some_somes _ tr l Hl) as [Hs _].
  pose proof (tree_links_acyclic order ep pes tr E) as H. rewrite Hs, Hm in H. exact H.
Qed.

(* the definition discriminates: two parallel two-sided edges form a cycle, a self-loop too *)
Lemma parallel_edges_cycle : forall ep tree e f a b,
  In e tree -> In f tree -> e <> f -> joins ep e a b -> joins ep f a b -> ~ tree_acyclic ep tree.
Proof.
  intros ep tree e f a b He Hf Hne Je Jf Hac.
  assert (Hw : twalk ep tree a [e; f] a).
  { econstructor; [exact He|exact Je|]. econstructor; [exact Hf|apply joins_sym in Jf; exact Jf|constructor]. }
  specialize (Hac a [e; f] Hw). assert (Hnd : NoDup [e; f]).
  { constructor; [intros [E|[]]; congruence|constructor; [intros []|constructor]]. }
  specialize (Hac Hnd). discriminate.
Qed.
