(* Proofs/WindingConvexTri.v — geometry fact G1 (winding = -1 <-> positive area) for TRIANGLES,
   plus the two local facts about wrap_count used by Proofs/WindingConvex.v. *)
From Coq Require Import List ZArith Bool Arith Lia ZifyBool.
From Koala Require Import Model.Lattice.
Import ListNotations.
Open Scope Z_scope.

(* the two angular classes of the code's branch cut, on the edge vector itself:
   vup v  <->  angs(v) = atan2(v_x, v_y) in (0, pi]   ;   vlo v  <->  angs(v) in (-pi, 0] (v <> 0) *)
Definition vup (v : vec) : bool := w_up (wP v).
Definition vlo (v : vec) : bool := w_lo (wP v).

Lemma vcross_wP a b : vcross (wP a) (wP b) = - vcross a b.
Proof. unfold vcross, wP; cbn [fst snd]; ring. Qed.

Lemma vlo_negb_vup v : v <> vzero -> vlo v = negb (vup v).
Proof.
  destruct v as [x y]; unfold vlo, vup, w_lo, w_up, wP, vzero; cbn [fst snd]; intro H.
  assert (x <> 0 \/ y <> 0) by (destruct (Z.eq_dec x 0); [right; congruence|left; trivial]).
  lia.
Qed.

(* a left turn a -> b (in the plane of the lattice) can only wrap downwards, and does so iff it crosses the cut *)
Lemma wc_left a b : 0 < vcross a b ->
  wrap_count (wP a) (wP b) = if vlo a && vup b then -1 else 0.
Proof.
  intro H. unfold wrap_count. rewrite vcross_wP.
  replace (0 <? - vcross a b) with false by lia.
  replace (- vcross a b <? 0) with true by lia.
  cbn [andb orb]. reflexivity.
Qed.

(* a right turn can only wrap upwards *)
Lemma wc_right a b : vcross a b < 0 ->
  wrap_count (wP a) (wP b) = if vup a && vlo b then 1 else 0.
Proof.
  intro H. unfold wrap_count. rewrite vcross_wP.
  replace (0 <? - vcross a b) with true by lia.
  replace (- vcross a b <? 0) with false by lia.
  replace (- vcross a b =? 0) with false by lia.
  cbn [andb orb]. fold (vup a).
  (* under  vup a  and a right turn:  vlo b <-> Y_b < 0  (b on the ray angs = 0 would need a in the open lower half) *)
  assert (E : vup a && (snd (wP b) <? 0) = vup a && vlo b).
  { destruct a as [ax ay], b as [bx by_]. unfold vlo, vup, w_lo, w_up, wP, vcross in *; cbn [fst snd] in *.
    apply Bool.eq_true_iff_eq. split; intro Hc; [lia|].
    assert (Hu : 0 < ax \/ (ax = 0 /\ ay < 0)) by lia.
    assert (Hl : bx < 0 \/ (bx = 0 /\ 0 < by_)) by lia.
    destruct Hl as [Hl|[-> Hb]]; [lia|].
    destruct Hu as [Hx|[-> _]]; nia. }
  rewrite E. destruct (vup a && vlo b); reflexivity.
Qed.

(* ---------- triangles ---------- *)
Lemma winding3 v0 v1 v2 :
  winding [v0; v1; v2] =
  wrap_count (wP v2) (wP v0) + (wrap_count (wP v0) (wP v1) + (wrap_count (wP v1) (wP v2) + 0)).
Proof. reflexivity. Qed.

Lemma tri_area2 p v0 v1 v2 : vsum [v0; v1; v2] = vzero ->
  area2 (cumsum_from p [v0; v1; v2]) = vcross v0 v1.
Proof.
  destruct p as [px py], v0 as [x0 y0], v1 as [x1 y1], v2 as [x2 y2].
  unfold vsum, vzero, vadd; cbn [fold_right fst snd]. intro H. injection H as Hx Hy.
  assert (x2 = - x0 - x1) by lia. assert (y2 = - y0 - y1) by lia. subst x2 y2.
  unfold area2, cumsum_from, rotl, vadd, vcross; cbn [combine map fold_right app fst snd]. ring.
Qed.

Lemma tri_cross v0 v1 v2 : vsum [v0; v1; v2] = vzero ->
  vcross v1 v2 = vcross v0 v1 /\ vcross v2 v0 = vcross v0 v1.
Proof.
  destruct v0 as [x0 y0], v1 as [x1 y1], v2 as [x2 y2].
  unfold vsum, vzero, vadd; cbn [fold_right fst snd]. intro H. injection H as Hx Hy.
  assert (x2 = - x0 - x1) by lia. assert (y2 = - y0 - y1) by lia. subst x2 y2.
  unfold vcross; cbn [fst snd]. split; ring.
Qed.

Lemma cross_nonzero_l a b : vcross a b <> 0 -> a <> vzero.
Proof. intros H ->. apply H. unfold vcross, vzero; cbn [fst snd]. ring. Qed.
Lemma cross_nonzero_r a b : vcross a b <> 0 -> b <> vzero.
Proof. intros H ->. apply H. unfold vcross, vzero; cbn [fst snd]. ring. Qed.

(* three non-zero vectors summing to zero are not all in one angular class *)
Lemma tri_classes v0 v1 v2 : vsum [v0; v1; v2] = vzero ->
  v0 <> vzero -> v1 <> vzero -> v2 <> vzero ->
  ~ (vup v0 = vup v1 /\ vup v1 = vup v2).
Proof.
  destruct v0 as [x0 y0], v1 as [x1 y1], v2 as [x2 y2].
  unfold vsum, vzero, vadd; cbn [fold_right fst snd]. intros H N0 N1 N2. injection H as Hx Hy.
  assert (x0 <> 0 \/ y0 <> 0) by (destruct (Z.eq_dec x0 0); [right; congruence|left; trivial]).
  assert (x1 <> 0 \/ y1 <> 0) by (destruct (Z.eq_dec x1 0); [right; congruence|left; trivial]).
  assert (x2 <> 0 \/ y2 <> 0) by (destruct (Z.eq_dec x2 0); [right; congruence|left; trivial]).
  unfold vup, w_up, wP; cbn [fst snd]. lia.
Qed.

Theorem tri_winding v0 v1 v2 : vsum [v0; v1; v2] = vzero -> vcross v0 v1 <> 0 ->
  winding [v0; v1; v2] = if 0 <? vcross v0 v1 then -1 else 1.
Proof.
  intros Hs Hc. destruct (tri_cross _ _ _ Hs) as [C12 C20].
  assert (N0 : v0 <> vzero) by (eapply cross_nonzero_l; eauto).
  assert (N1 : v1 <> vzero) by (eapply cross_nonzero_r; eauto).
  assert (N2 : v2 <> vzero) by (eapply cross_nonzero_r; rewrite C12; eauto).
  pose proof (tri_classes _ _ _ Hs N0 N1 N2) as Hcl.
  rewrite winding3.
  destruct (0 <? vcross v0 v1) eqn:E.
  - rewrite !wc_left by lia. rewrite !vlo_negb_vup by assumption.
    destruct (vup v0) eqn:U0; destruct (vup v1) eqn:U1; destruct (vup v2) eqn:U2; cbn; try reflexivity;
      exfalso; apply Hcl; split; reflexivity.
  - rewrite !wc_right by lia. rewrite !vlo_negb_vup by assumption.
    destruct (vup v0) eqn:U0; destruct (vup v1) eqn:U1; destruct (vup v2) eqn:U2; cbn; try reflexivity;
      exfalso; apply Hcl; split; reflexivity.
Qed.

(* G1 for triangles: the coded orientation filter is "positive area" *)
Theorem G1_triangle p v0 v1 v2 : vsum [v0; v1; v2] = vzero -> vcross v0 v1 <> 0 ->
  (winding [v0; v1; v2] = -1 <-> 0 < area2 (cumsum_from p [v0; v1; v2])).
Proof.
  intros Hs Hc. rewrite (tri_area2 p _ _ _ Hs), (tri_winding _ _ _ Hs Hc).
  destruct (0 <? vcross v0 v1) eqn:E; lia.
Qed.
