(* Proofs/PredicateStableDefs.v — executable definitions ONLY (no lemmas; extracted by Extract/ExC09p.v):
   the boolean hypothesis "no geometric predicate the plaquette finder branches on changes its verdict
   between two embeddings L, L' of the same graph", and the tuple of derived tables of a lattice.  (C09)

   The code (lattice.py) looks at vertex positions in exactly two places once the three arrays are stored:
     (a) _sorted_vertex_adjacent_edges: argsort of the angles of the edges leaving a vertex
         -> comparator [ang_lt] on [outvec];
     (b) _find_all_plaquettes keeps a closed walk iff its winding number is -1
         -> [winding] of the directed edge vectors, a sum of [wrap_count] verdicts of consecutive vectors.
   Everything else (incidence, the walk itself, no-repeated-edge and zero-net-crossing filters, the plaquette
   tables) is a function of [edges], [crossing] and the vertex count. *)
From Coq Require Import List ZArith Bool Arith QArith.
From Koala Require Import Model.Pickle Model.Lattice.
Import ListNotations.

(* same graph: same edge list, same crossing list, same number of vertices; positions and scale are free *)
Definition same_connectivity (L L' : lattice) : Prop :=
  edges L = edges L' /\ crossing L = crossing L' /\ nV L = nV L'.

Definition natpair_eqb (a b : nat * nat) : bool := (fst a =? fst b)%nat && (snd a =? snd b)%nat.
Fixpoint list_eqb {A} (eqA : A -> A -> bool) (l l' : list A) : bool :=
  match l, l' with
  | [], [] => true
  | x :: r, y :: r' => eqA x y && list_eqb eqA r r'
  | _, _ => false
  end.
Definition same_connectivity_b (L L' : lattice) : bool :=
  list_eqb natpair_eqb (edges L) (edges L') && list_eqb veqb (crossing L) (crossing L') && (nV L =? nV L')%nat.

(* the tie to Model/Pickle.v: [L'] has the scale of [L] and its positions are exactly the float32 roundings
   (round32, the model of ndarray.astype(np.float32) in __getstate__) of the positions of [L] *)
Definition q_of (S : Z) (x : Z) : Q := x # Z.to_pos S.
Definition is_round32_copy (L L' : lattice) : bool :=
  (0 <? scale L)%Z && (scale L =? scale L')%Z &&
  list_eqb (fun p p' : vec =>
              Qeq_bool (round32 (q_of (scale L) (fst p))) (q_of (scale L) (fst p')) &&
              Qeq_bool (round32 (q_of (scale L) (snd p))) (q_of (scale L) (snd p')))
           (pos L) (pos L').

(* (a) at every vertex the comparator of the angular sort returns the same verdict on every ordered pair of
   incident edges *)
Definition rot_agree_at (L L' : lattice) (v : nat) : bool :=
  let inc := incident L v in
  forallb (fun e => forallb (fun f =>
     eqb (ang_lt (outvec L v e) (outvec L v f)) (ang_lt (outvec L' v e) (outvec L' v f))) inc) inc.
Definition rot_agree (L L' : lattice) : bool := forallb (rot_agree_at L L') (seq 0 (nV L)).

(* (b) every face walk of L (all_faces: one walk per orbit of the dart successor) has the same winding number
   when its directed edge vectors are taken from L'.  If L has a stuck walk there is nothing to compare. *)
Definition wind_agree (L L' : lattice) : bool :=
  match all_faces L with
  | None => true
  | Some fs => forallb (fun f => (winding (map (dvec L) (f_walk f)) =? winding (map (dvec L') (f_walk f)))%Z) fs
  end.

Definition preds_agree (L L' : lattice) : bool := rot_agree L L' && wind_agree L L'.

(* the weakest condition on (b) that the proof needs: the orientation filter's VERDICT coincides *)
Definition valid_agree (L L' : lattice) : bool :=
  match all_faces L with
  | None => true
  | Some fs => forallb (fun f => eqb (winding (map (dvec L) (f_walk f)) =? -1)%Z
                                     (winding (map (dvec L') (f_walk f)) =? -1)%Z) fs
  end.
Definition preds_agree_weak (L L' : lattice) : bool := rot_agree L L' && valid_agree L L'.

(* a finer (stronger) condition on (b): every single wrap_count verdict of consecutive directed edge vectors
   along every face walk coincides *)
Definition wrap_terms (vs : list vec) : list Z :=
  match vs with
  | [] => []
  | _ => let ps := map wP vs in
         map (fun ab => wrap_count (fst ab) (snd ab)) (combine (last ps vzero :: removelast ps) ps)
  end.
Definition wrap_agree (L L' : lattice) : bool :=
  match all_faces L with
  | None => true
  | Some fs => forallb (fun f => list_eqb Z.eqb (wrap_terms (map (dvec L) (f_walk f)))
                                                 (wrap_terms (map (dvec L') (f_walk f)))) fs
  end.
Definition preds_agree_fine (L L' : lattice) : bool := rot_agree L L' && wrap_agree L L'.

(* ---------- the derived tables ---------- *)
Definition pidx := (list nat * list nat * list bool)%type.            (* vertices, edges, directions *)
Definition pproj (p : plaquette) : pidx := (p_verts p, p_edges p, p_dirs p).
Definition wproj (w : list (nat * nat * bool)) : pidx := (walk_verts w, walk_edges w, walk_dirs w).

Definition adjacency_table (L : lattice) : list (list bool) :=
  map (fun i => map (adjacency_true L i) (seq 0 (nV L))) (seq 0 (nV L)).

Record tables_t := mkTables {
  t_adj : list (list nat);                                  (* vertices.adjacent_edges (rotation system) *)
  t_walks : option (list (list (nat * nat * bool)));        (* every face walk, discovery order; None = raised *)
  t_plaquettes : option (list pidx);                        (* plaquettes: vertices, edges, directions *)
  t_edges_plaquettes : option (list ep_row);                (* edges.adjacent_plaquettes *)
  t_vertices_plaquettes : option (option (list (list (option nat))));  (* vertices.adjacent_plaquettes *)
  t_plaquette_neighbours : option (list (list (option nat)));          (* plaquette.adjacent_plaquettes *)
  t_coordination : list nat;
  t_coordination_bincount : list nat;
  t_edge_neighbours : list (list nat);                      (* edges.adjacent_edges *)
  t_adjacency : list (list bool)                            (* adjacency matrix *)
}.

Definition tables (L : lattice) : tables_t :=
  let ps := find_all_plaquettes L in
  mkTables (adj_table L)
           (option_map (map f_walk) (all_faces L))
           (option_map (map pproj) ps)
           (option_map (edges_plaquettes L) ps)
           (option_map (vertices_plaquettes L) ps)
           (option_map (all_plaquette_neighbours L) ps)
           (coordination L)
           (coordination_bincount L)
           (map (edge_neighbours L) (seq 0 (nE L)))
           (adjacency_table L).
