(* Proofs/TruncateFaces.v — the polygon created by vertices_to_polygon around a truncated vertex is a face
   (C13, clause "the new polygon as an extra plaquette").
   Setting: L good, vs any selection, v a truncated vertex (selected, degree d > 2), L' = trunc_spec L vs
   (= the lattice returned by vertices_to_polygon, vertices_to_polygon_spec), and the hypothesis
   turns_cw L v = true: consecutive outward vectors at v turn clockwise by less than pi.
     pstep u        the polygon edge pe u taken BACKWARDS: from corner (u+1) mod d to corner u
     pwalk u0       pstep u0, pstep (u0-1), ..., pstep 0, pstep (d-1), ..., pstep (u0+1)
                    i.e. c_{u0+1} -> c_{u0} -> c_{u0-1} -> ... : the polygon run anticlockwise
   Results:
     nd_pstep               the dart successor of L' maps  pstep u  to  pstep (u-1)
     polygon_is_orbit       pwalk u0 is a closed orbit of nd L' (orbit_walk) of length d, no repeated edge,
                            zero net crossing
     polygon_points/area    its polygon points are a translate of the tips of w_{u0}, w_{u0-1}, ... (in units of
                            1/(3 scale) instead of 1/scale: area = 1/9 of the tips polygon), area2 > 0
     orbit_walk_hd_unique   two closed orbits that start with the same dart are equal
     polygon_is_face        all_faces L' lists pwalk u0 for some u0
     polygon_is_plaquette_partial   ... and find_all_plaquettes L' reports it, PROVIDED its coded winding
                            number is -1 (the third filter of walk_valid; that hypothesis is discharged in
                            Proofs/TruncateFacesWinding.v: polygon_winding, polygon_is_plaquette)
     corner_detour_partial  local form of "every old plaquette enlarged by one side per truncated corner"
                            (global form: Proofs/TruncateOldFaces.v, Proofs/TruncateOldValid.v) *)
From Coq Require Import List ZArith Bool Arith Lia ZifyBool Permutation Sorted.
From Koala Require Import Model.Lattice Model.Truncate Proofs.LatticeFacts Proofs.TruncateFacts
     Proofs.TruncateDegrees Proofs.TruncateFacesGeom Proofs.TruncateFacesRot.
Import ListNotations.
Local Open Scope nat_scope.

Notation tdflt := (0%nat, 0%nat, true).

(* ================================================================== generic: walks given as map g (seq a n) *)
Lemma chain_map_seq M (g : nat -> nat * nat * bool) a n :
  (forall t, a <= t -> S t < a + n -> nd M (sdart (g t)) = Some (sdart (g (S t)))) ->
  chain M (map g (seq a n)).
Proof.
  revert a; induction n as [|n IH]; intros a H; [exact I|].
  destruct n as [|n]; [exact I|].
  change (map g (seq a (S (S n)))) with (g a :: map g (seq (S a) (S n))).
  change (map g (seq (S a) (S n))) with (g (S a) :: map g (seq (S (S a)) n)).
  split.
  - apply H; lia.
  - change (g (S a) :: map g (seq (S (S a)) n)) with (map g (seq (S a) (S n))).
    apply IH. intros t Ht1 Ht2. apply H; lia.
Qed.

Lemma last_map_seq {A} (g : nat -> A) n dflt : last (map g (seq 0 (S n))) dflt = g n.
Proof. rewrite seq_S, map_app. cbn [map]. apply last_last. Qed.

Lemma hd_map_seq {A} (g : nat -> A) n dflt : hd dflt (map g (seq 0 (S n))) = g 0.
Proof. reflexivity. Qed.

Lemma NoDup_map_inj_in {A B} (f : A -> B) l :
  (forall x y, In x l -> In y l -> f x = f y -> x = y) -> NoDup l -> NoDup (map f l).
Proof.
  intros Hinj Hnd. induction Hnd as [|a l Ha Hnd IH]; [constructor|]. cbn [map]. constructor.
  - intros Hin. apply in_map_iff in Hin as (y & Hy & Hyin). apply Ha.
    rewrite (Hinj a y); [exact Hyin|left; reflexivity|right; exact Hyin|symmetry; exact Hy].
  - apply IH. intros x y Hx Hy. apply Hinj; right; assumption.
Qed.

Lemma poly_points_hd M w :
  w <> [] -> poly_points M w = cumsum_from (pos_at M (snd (fst (hd tdflt w)))) (map (dvec M) w).
Proof. destruct w; [contradiction|reflexivity]. Qed.

(* ================================================================== generic: closed orbits are determined by their first dart *)
Lemma step_ok_eq M s1 s2 : step_ok M s1 -> step_ok M s2 -> sdart s1 = sdart s2 -> s1 = s2.
Proof.
  intros [_ H1] [_ H2] E. destruct s1 as [[e1 v1] b1], s2 as [[e2 v2] b2].
  unfold sdart in *. cbn [fst snd] in *. injection E as -> ->. rewrite H1, H2. reflexivity.
Qed.

Lemma chain_tl M a r : chain M (a :: r) -> chain M r.
Proof. destruct r as [|b r]; [intros; exact I|]. intros [_ H]. exact H. Qed.

Lemma chain_prefix M w1 : forall w2,
  chain M w1 -> chain M w2 -> (forall s, In s w1 -> step_ok M s) -> (forall s, In s w2 -> step_ok M s) ->
  w1 <> [] -> w2 <> [] -> sdart (hd tdflt w1) = sdart (hd tdflt w2) ->
  exists r, w2 = w1 ++ r \/ w1 = w2 ++ r.
Proof.
  induction w1 as [|a r1 IH]; intros w2 C1 C2 O1 O2 N1 N2 E; [contradiction|].
  destruct w2 as [|a' r2]; [contradiction|]. cbn [hd] in E.
  assert (a = a') by (apply (step_ok_eq M); [apply O1; left; reflexivity|apply O2; left; reflexivity|exact E]).
  subst a'.
  destruct r1 as [|b1 r1']; [exists r2; left; reflexivity|].
  destruct r2 as [|b2 r2']; [exists (b1 :: r1'); right; reflexivity|].
  destruct C1 as [Hab1 C1], C2 as [Hab2 C2].
  destruct (IH (b2 :: r2')) as (r & [Hr|Hr]).
  - exact C1.
  - exact C2.
  - intros s Hs. apply O1. right. exact Hs.
  - intros s Hs. apply O2. right. exact Hs.
  - discriminate.
  - discriminate.
  - cbn [hd]. congruence.
  - exists r. left. rewrite Hr. reflexivity.
  - exists r. right. rewrite Hr. reflexivity.
Qed.

Lemma chain_app_mid M l1 x r :
  chain M (l1 ++ x :: r) -> l1 <> [] -> nd M (sdart (last l1 tdflt)) = Some (sdart x).
Proof.
  induction l1 as [|a l1 IH]; intros C N; [contradiction|].
  destruct l1 as [|b l1].
  - cbn in C. destruct C as [C _]. exact C.
  - change (last (a :: b :: l1) tdflt) with (last (b :: l1) tdflt). apply IH; [|discriminate].
    apply (chain_tl M a). exact C.
Qed.

Lemma orbit_strict_prefix_absurd M w1 x r :
  orbit_walk M w1 -> orbit_walk M (w1 ++ x :: r) -> False.
Proof.
  intros O1 O2.
  pose proof (chain_app_mid M w1 x r (ow_chain _ _ O2) (ow_ne _ _ O1)) as Hx.
  rewrite (ow_close _ _ O1) in Hx. apply (f_equal (fun o => match o with Some y => y | None => sdart x end)) in Hx.
  pose proof (ow_nodup _ _ O2) as Hnd.
  destruct w1 as [|a w1]; [exact (ow_ne _ _ O1 eq_refl)|].
  cbn [hd] in Hx. cbn [app map] in Hnd. apply NoDup_cons_iff in Hnd as [Hnotin _].
  apply Hnotin. rewrite map_app. apply in_or_app. right. cbn [map]. left. symmetry. exact Hx.
Qed.

Theorem orbit_walk_hd_unique M w1 w2 :
  orbit_walk M w1 -> orbit_walk M w2 -> sdart (hd tdflt w1) = sdart (hd tdflt w2) -> w1 = w2.
Proof.
  intros O1 O2 E.
  destruct (chain_prefix M w1 w2 (ow_chain _ _ O1) (ow_chain _ _ O2) (ow_ok _ _ O1) (ow_ok _ _ O2)
                         (ow_ne _ _ O1) (ow_ne _ _ O2) E) as (r & [Hr|Hr]).
  - destruct r as [|x r]; [rewrite app_nil_r in Hr; congruence|].
    exfalso. subst w2. exact (orbit_strict_prefix_absurd M w1 x r O1 O2).
  - destruct r as [|x r]; [rewrite app_nil_r in Hr; congruence|].
    exfalso. subst w1. exact (orbit_strict_prefix_absurd M w2 x r O2 O1).
Qed.

(* the rotation-system row read cyclically *)
Lemma index_of_nth row u : NoDup row -> u < length row -> index_of (nth u row 0) row = Some u.
Proof.
  intros Hnd; revert u; induction Hnd as [|y r Hy Hnd IH]; intros u Hu; cbn [length] in Hu; [lia|].
  destruct u as [|u]; cbn [nth index_of]; [rewrite Nat.eqb_refl; reflexivity|].
  destruct (Nat.eqb_spec y (nth u r 0)) as [E|E].
  - exfalso. apply Hy. rewrite E. apply nth_In. lia.
  - rewrite IH by lia. reflexivity.
Qed.

Lemma succ_in_nth row u :
  NoDup row -> u < length row -> succ_in row (nth u row 0) = Some (nth (Nat.modulo (u + 1) (length row)) row 0).
Proof.
  intros Hnd Hu. unfold succ_in. rewrite index_of_nth by assumption. rewrite Nat.add_1_r. reflexivity.
Qed.

(* ================================================================== the polygon *)
(* the walk indices: u0, u0-1, ..., 0, d-1, ..., u0+1 *)
Definition idx (d u0 t : nat) : nat := if t <=? u0 then u0 - t else u0 + d - t.

Lemma idx_lt d u0 t : u0 < d -> t <= d -> idx d u0 t < d.
Proof. intros H1 H2. unfold idx. destruct (Nat.leb_spec t u0); lia. Qed.

Lemma idx_S d u0 t : u0 < d -> t < d -> idx d u0 (S t) = pu d (idx d u0 t).
Proof.
  intros H1 H2. rewrite pu_spec by (apply idx_lt; lia). unfold idx.
  destruct (Nat.leb_spec (S t) u0), (Nat.leb_spec t u0); try lia.
  - destruct (Nat.eqb_spec (u0 - t) 0); lia.
  - destruct (Nat.eqb_spec (u0 - t) 0); lia.
  - destruct (Nat.eqb_spec (u0 + d - t) 0); lia.
Qed.

Lemma idx_0 d u0 : idx d u0 0 = u0.
Proof. unfold idx. cbn. lia. Qed.

Lemma idx_d d u0 : u0 < d -> idx d u0 d = u0.
Proof. intros H. unfold idx. destruct (Nat.leb_spec d u0); lia. Qed.

Lemma idx_inj d u0 t1 t2 : u0 < d -> t1 < d -> t2 < d -> idx d u0 t1 = idx d u0 t2 -> t1 = t2.
Proof. intros H H1 H2. unfold idx. destruct (Nat.leb_spec t1 u0), (Nat.leb_spec t2 u0); lia. Qed.

Definition pstep (L : lattice) (vs : option (list nat)) (v u : nat) : nat * nat * bool :=
  (pe L vs v u, cn L vs v (Nat.modulo (u + 1) (length (sorted_adj L v))), false).

Definition pwalk (L : lattice) (vs : option (list nat)) (v u0 : nat) : list (nat * nat * bool) :=
  map (fun t => pstep L vs v (idx (length (sorted_adj L v)) u0 t)) (seq 0 (length (sorted_adj L v))).

(* the tips of the outward vectors at v, in the order in which pwalk u0 visits the corners *)
Definition tips (L : lattice) (v u0 : nat) : list vec :=
  map (fun t => wv L v (idx (length (sorted_adj L v)) u0 t)) (seq 0 (length (sorted_adj L v))).

Section Polygon.
Variables (L : lattice) (vs : option (list nat)) (v : nat).
Hypothesis Hg : good L.
Hypothesis Hv : v < nV L.
Hypothesis Htr : is_truncated L vs v = true.
Hypothesis Hcw : turns_cw L v = true.
Local Set Default Proof Using "Hg Hv Htr Hcw".

Local Notation L' := (trunc_spec L vs).
Local Notation d := (length (sorted_adj L v)).
Local Notation eu u := (nth u (sorted_adj L v) 0).

Lemma HG' : LatticeFacts.good L'.
Proof. apply trunc_spec_good. exact Hg. Qed.

Lemma d_pos : 2 < d.
Proof. apply (deg_ge3 L vs v Hg Hv Htr). Qed.

Lemma pstep_valid u : u < d -> valid_dart L' (sdart (pstep L vs v u)).
Proof. intros Hu. unfold valid_dart, sdart, pstep. cbn [fst snd]. apply pe_lt; assumption. Qed.

Lemma pstep_ok u : u < d -> step_ok L' (pstep L vs v u).
Proof.
  intros Hu. split; [apply pstep_valid, Hu|].
  unfold pstep, sdart, dtail. cbn [fst snd]. fold d.
  rewrite (edge_pe L vs v Hg Hv Htr u Hu). reflexivity.
Qed.

Lemma dhead_pstep u : u < d -> dhead L' (sdart (pstep L vs v u)) = cn L vs v u.
Proof.
  intros Hu. unfold pstep, sdart, dhead. cbn [fst snd].
  rewrite (edge_pe L vs v Hg Hv Htr u Hu). reflexivity.
Qed.

(* (2) the dart successor on the backward polygon edges *)
Theorem nd_pstep u : u < d ->
  nd L' (sdart (pstep L vs v u)) = Some (sdart (pstep L vs v (pu d u))).
Proof.
  intros Hu.
  destruct (nd_spec L' _ HG' (pstep_valid u Hu)) as (f & Hs & Hn).
  rewrite (dhead_pstep u Hu) in Hs, Hn.
  destruct (corner_rotation L vs v Hg Hv Htr u Hcw Hu) as (_ & R & _). cbv zeta in R.
  change (fst (sdart (pstep L vs v u))) with (pe L vs v u) in Hs.
  fold L' d in R. rewrite R in Hs. injection Hs as <-.
  rewrite Hn. f_equal. unfold out_dart, sdart, pstep. cbn [fst snd]. f_equal.
  rewrite (edge_pe_pred L vs v Hg Hv Htr u Hu). cbn [fst].
  apply Nat.eqb_neq. pose proof d_pos. pose proof (pu_neq d u ltac:(lia) Hu). unfold cn. lia.
Qed.

Lemma pwalk_length u0 : length (pwalk L vs v u0) = d.
Proof. unfold pwalk. rewrite map_length, seq_length. reflexivity. Qed.

Lemma pwalk_nth u0 t : t < d -> nth t (pwalk L vs v u0) tdflt = pstep L vs v (idx d u0 t).
Proof. intros Ht. unfold pwalk. exact (nth_map_seq (fun t => pstep L vs v (idx d u0 t)) d t tdflt Ht). Qed.

Lemma pwalk_hd u0 : hd tdflt (pwalk L vs v u0) = pstep L vs v u0.
Proof.
  pose proof d_pos. transitivity (nth 0 (pwalk L vs v u0) tdflt); [destruct (pwalk L vs v u0); reflexivity|].
  rewrite pwalk_nth by lia. rewrite idx_0. reflexivity.
Qed.

Lemma in_pwalk u0 s : u0 < d -> In s (pwalk L vs v u0) -> exists u, u < d /\ s = pstep L vs v u.
Proof.
  intros Hu0 Hin. unfold pwalk in Hin. apply in_map_iff in Hin as (t & <- & Ht). apply in_seq in Ht.
  fold d in Ht |- *. exists (idx d u0 t). split; [apply idx_lt; lia|reflexivity].
Qed.

Lemma pwalk_sdarts u0 :
  map sdart (pwalk L vs v u0) = map (fun t => (pe L vs v (idx d u0 t), false)) (seq 0 d).
Proof. unfold pwalk. rewrite map_map. reflexivity. Qed.

Theorem polygon_orbit_walk u0 : u0 < d -> orbit_walk L' (pwalk L vs v u0).
Proof.
  intros Hu0. pose proof d_pos as Hd.
  assert (Ed : d = S (d - 1)) by lia.
  constructor.
  - intros E. apply (f_equal (@length _)) in E. rewrite pwalk_length in E. cbn in E. lia.
  - intros s Hs. destruct (in_pwalk u0 s Hu0 Hs) as (u & Hu & ->). apply pstep_ok, Hu.
  - unfold pwalk. fold d. apply chain_map_seq. intros t _ Ht.
    rewrite idx_S by lia. apply nd_pstep. apply idx_lt; lia.
  - unfold pwalk. fold d. rewrite Ed. rewrite last_map_seq, hd_map_seq. rewrite <- Ed.
    rewrite nd_pstep by (apply idx_lt; lia). rewrite <- idx_S by lia. rewrite <- Ed.
    rewrite idx_d, idx_0 by exact Hu0. reflexivity.
  - rewrite pwalk_sdarts. apply NoDup_map_inj_in; [|apply seq_NoDup].
    intros t1 t2 H1 H2 E. apply in_seq in H1, H2. injection E as E. unfold pe in E.
    apply (idx_inj d u0); lia.
Qed.

Lemma pwalk_edges u0 : walk_edges (pwalk L vs v u0) = map (fun t => pe L vs v (idx d u0 t)) (seq 0 d).
Proof. unfold walk_edges, pwalk. rewrite map_map. reflexivity. Qed.

Theorem polygon_edges_nodup u0 : u0 < d -> NoDup (walk_edges (pwalk L vs v u0)).
Proof.
  intros Hu0. rewrite pwalk_edges. apply NoDup_map_inj_in; [|apply seq_NoDup].
  intros t1 t2 H1 H2 E. apply in_seq in H1, H2. unfold pe in E. apply (idx_inj d u0); lia.
Qed.

(* ---------- vectors along the walk ---------- *)
Local Open Scope Z_scope.

Lemma dvec_pstep u : (u < d)%nat ->
  dvec L' (pstep L vs v u) = vsub (wv L v u) (wv L v (Nat.modulo (u + 1) d)).
Proof.
  intros Hu. unfold dvec, pstep. cbn [fst snd sgn].
  destruct (of_spec L vs _ Hg (truncate_vectors_polygon L vs v u Hg Hv Htr Hu)) as [_ H].
  cbv zeta in H. fold d in H. fold L'.
  change (evec L' (pe L vs v u)) with (evec (trunc_spec L vs) (nE L + sumdeg L vs v + u)). rewrite H.
  unfold wv. generalize (outvec L v (nth u (sorted_adj L v) 0%nat))
                        (outvec L v (nth (Nat.modulo (u + 1) d) (sorted_adj L v) 0%nat)).
  intros [a b] [a' b']. unfold vscale, vsub. cbn [fst snd]. f_equal; ring.
Qed.

(* tail position of step t, relative to v: z t ; dvec of step t = z (t+1) - z t *)
Let z (u0 t : nat) : vec := wv L v (Nat.modulo (idx d u0 t + 1) d).

Lemma z_S u0 t : (u0 < d)%nat -> (t < d)%nat -> z u0 (S t) = wv L v (idx d u0 t).
Proof.
  intros Hu0 Ht. unfold z. rewrite idx_S by assumption. rewrite succ_pu by (apply idx_lt; lia). reflexivity.
Qed.

Lemma pwalk_dvecs u0 : (u0 < d)%nat ->
  map (dvec L') (pwalk L vs v u0) = map (fun t => vsub (z u0 (S t)) (z u0 t)) (seq 0 d).
Proof.
  intros Hu0. unfold pwalk. fold d. rewrite map_map. apply map_ext_in. intros t Ht. apply in_seq in Ht.
  rewrite dvec_pstep by (apply idx_lt; lia). rewrite z_S by lia. reflexivity.
Qed.

Theorem polygon_vectors_sum u0 : (u0 < d)%nat -> vsum (map (dvec L') (pwalk L vs v u0)) = vzero.
Proof.
  intros Hu0. rewrite pwalk_dvecs by exact Hu0. rewrite vsum_tele. cbn [Nat.add].
  unfold z. rewrite idx_d, idx_0 by exact Hu0.
  generalize (wv L v (Nat.modulo (u0 + 1) d)). intros [a b]. unfold vsub, vzero. cbn [fst snd]. f_equal; ring.
Qed.

Theorem polygon_net_crossing u0 : (u0 < d)%nat -> net_crossing L' (pwalk L vs v u0) = vzero.
Proof.
  intros Hu0.
  pose proof (orbit_vectors_sum L' _ HG' (polygon_orbit_walk u0 Hu0)) as H.
  rewrite (polygon_vectors_sum u0 Hu0) in H.
  assert (Hs : 0 < scale L') by (pose proof (good_scale L Hg); change (scale L') with (3 * scale L); lia).
  revert H Hs. generalize (scale L'). intros s H Hs.
  destruct (net_crossing L' (pwalk L vs v u0)) as [a b]. unfold vscale, vzero in *. cbn [fst snd] in H.
  injection H as H1 H2. symmetry in H1, H2. apply Z.mul_eq_0 in H1, H2. f_equal; lia.
Qed.

(* ---------- (3) polygon points and area ---------- *)
Theorem polygon_points u0 : (u0 < d)%nat ->
  exists T, poly_points L' (pwalk L vs v u0) = map (vadd T) (tips L v u0).
Proof.
  intros Hu0. pose proof d_pos as Hd.
  exists (vsub (pos_at L' (snd (fst (hd tdflt (pwalk L vs v u0))))) (z u0 0)).
  rewrite poly_points_hd.
  2:{ intros E. apply (f_equal (@length _)) in E. rewrite pwalk_length in E. cbn in E. lia. }
  rewrite pwalk_dvecs by exact Hu0. rewrite cumsum_tele.
  unfold tips. fold d. rewrite map_map. apply map_ext_in. intros t Ht. apply in_seq in Ht.
  rewrite z_S by lia. reflexivity.
Qed.

(* area2 is measured in units of (1/(3 scale))^2 on the left and (1/scale)^2 on the right: the polygon has
   1/9 of the area of the polygon spanned by the tips of the outward vectors *)
Theorem polygon_area_tips u0 : (u0 < d)%nat ->
  area2 (poly_points L' (pwalk L vs v u0)) = area2 (tips L v u0).
Proof.
  intros Hu0. destruct (polygon_points u0 Hu0) as (T & ->). apply area2_translate.
Qed.

Lemma tips_length u0 : length (tips L v u0) = d.
Proof. unfold tips. rewrite map_length, seq_length. reflexivity. Qed.

Lemma tips_nth u0 t : (t < d)%nat -> nth t (tips L v u0) vzero = wv L v (idx d u0 t).
Proof. intros Ht. unfold tips. exact (nth_map_seq (fun t => wv L v (idx d u0 t)) d t vzero Ht). Qed.

Theorem tips_area_positive u0 : (u0 < d)%nat -> 0 < area2 (tips L v u0).
Proof.
  intros Hu0. pose proof d_pos as Hd. apply area2_pos.
  - intros E. apply (f_equal (@length _)) in E. rewrite tips_length in E. cbn in E. lia.
  - rewrite tips_length. intros i Hi.
    assert (Hm : (Nat.modulo (S i) d < d)%nat) by (apply Nat.mod_upper_bound; lia).
    rewrite !tips_nth by assumption.
    assert (E : idx d u0 (Nat.modulo (S i) d) = pu d (idx d u0 i)).
    { destruct (Nat.eq_dec (S i) d) as [Ed|Ed].
      - rewrite Ed, Nat.mod_same by lia. rewrite idx_0. rewrite <- idx_S by lia. rewrite Ed. symmetry. apply idx_d, Hu0.
      - rewrite Nat.mod_small by lia. apply idx_S; lia. }
    rewrite E. set (x := idx d u0 i). assert (Hx : (x < d)%nat) by (apply idx_lt; lia).
    pose proof (turns_cw_at L v (pu d x) Hcw (pu_lt d x Hx)) as Hc. fold d in Hc. rewrite (succ_pu d x Hx) in Hc.
    unfold vcross in *. lia.
Qed.

Theorem polygon_area_positive u0 : (u0 < d)%nat -> 0 < area2 (poly_points L' (pwalk L vs v u0)).
Proof. intros Hu0. rewrite polygon_area_tips by exact Hu0. apply tips_area_positive, Hu0. Qed.

Local Close Scope Z_scope.

(* ---------- the sweep lists it ---------- *)
Theorem polygon_is_face :
  exists fs, all_faces L' = Some fs /\
    exists f u0, In f fs /\ u0 < d /\ f_walk f = pwalk L vs v u0 /\ f = mk_face L' (pwalk L vs v u0).
Proof.
  pose proof d_pos as Hd.
  destruct (all_faces_spec L' HG') as (fs & E & Hf & _ & Hall).
  exists fs. split; [exact E|].
  assert (H0 : In (sdart (pstep L vs v 0)) (face_darts fs)) by (apply Hall, pstep_valid; lia).
  unfold face_darts in H0. apply in_flat_map in H0 as (w & Hw & Hin).
  apply in_map_iff in Hw as (f & <- & Hfin).
  destruct (Hf f Hfin) as [HO Hmk].
  rewrite walk_darts_sdart in Hin. apply in_map_iff in Hin as (s & Es & Hs).
  pose proof (orbit_reach_hd L' _ s HO Hs) as Hr. rewrite Es in Hr.
  assert (HS : exists u, u < d /\ sdart (hd tdflt (f_walk f)) = sdart (pstep L vs v u)).
  { refine (closed_reach L' (fun x => exists u, u < d /\ x = sdart (pstep L vs v u)) _ _ _ Hr _).
    - intros a b (u & Hu & ->) Hab. rewrite (nd_pstep u Hu) in Hab. injection Hab as <-.
      exists (pu d u). split; [apply pu_lt, Hu|reflexivity].
    - exists 0. split; [lia|reflexivity]. }
  destruct HS as (u0 & Hu0 & Ehd).
  exists f, u0. split; [exact Hfin|]. split; [exact Hu0|].
  assert (Ew : f_walk f = pwalk L vs v u0).
  { apply (orbit_walk_hd_unique L'); [exact HO|apply polygon_orbit_walk, Hu0|].
    rewrite Ehd, pwalk_hd. reflexivity. }
  split; [exact Ew|]. rewrite <- Ew. exact Hmk.
Qed.

(* the two filters of walk_valid that do not involve the winding number *)
Theorem polygon_filters u0 : u0 < d ->
  nodupb (walk_edges (pwalk L vs v u0)) = true /\
  veqb (net_crossing L' (pwalk L vs v u0)) vzero = true.
Proof.
  intros Hu0. split.
  - apply nodupb_NoDup, polygon_edges_nodup, Hu0.
  - apply veqb_eq, polygon_net_crossing, Hu0.
Qed.

(* PARTIAL: reported as a plaquette, provided the third filter (coded winding number = -1) passes for the
   rotations of the walk.  Missing HERE: that winding (map dvec (pwalk u0)) = -1 follows from turns_cw and the
   sortedness of sorted_adj L v; this is proved in Proofs/TruncateFacesWinding.v (polygon_winding), which then
   states the unconditional polygon_is_plaquette. *)
Theorem polygon_is_plaquette_partial :
  (forall u0, u0 < d -> winding (map (dvec L') (pwalk L vs v u0)) = (-1)%Z) ->
  exists ps, find_all_plaquettes L' = Some ps /\
    exists u0, u0 < d /\ In (mk_plaquette L' (pwalk L vs v u0)) ps /\
               n_sides (mk_plaquette L' (pwalk L vs v u0)) = d.
Proof.
  intros Hw. destruct polygon_is_face as (fs & E & f & u0 & Hfin & Hu0 & Ew & _).
  destruct (plaquettes_spec L' HG') as (fs' & E' & Hp & _ & Hin). rewrite E in E'. injection E' as <-.
  exists (plaq_of_faces L' fs). split; [exact Hp|]. exists u0. split; [exact Hu0|]. split.
  - apply Hin. exists f. split; [exact Hfin|]. rewrite Ew. split; [|reflexivity].
    unfold walk_valid. destruct (polygon_filters u0 Hu0) as [-> ->]. rewrite (Hw u0 Hu0). reflexivity.
  - unfold n_sides, mk_plaquette. cbn [p_edges]. unfold walk_edges. rewrite map_length. apply pwalk_length.
Qed.

(* ---------- old faces: one extra side per truncated corner (local statement) ---------- *)
(* In L a face walk that enters v along e_u leaves along e_{u+1}.  In L' the same dart of e_u enters corner u,
   continues along the polygon edge pe u (forwards) to corner u+1 and leaves along e_{u+1} in the same
   direction as before: exactly one new side at this corner.
   PARTIAL: this is the local step only; what is missing HERE for the global statement (every old plaquette of L
   reappears in L' with one more side per truncated corner it passes, same orientation and validity) is that the
   rotation system is unchanged at the vertices that are not truncated, the correspondence of whole orbits and
   the validity filters; these are proved in Proofs/TruncateOldFaces.v (truncate_nd_spec, expand_orbit,
   old_face_listed) and Proofs/TruncateOldValid.v (expand_valid, old_plaquette_enlarged). *)
Theorem corner_detour_partial u b : u < d ->
  dhead L (eu u, b) = v ->
  let u1 := Nat.modulo (u + 1) d in
  nd L (eu u, b) = Some (out_dart L v (eu u1)) /\
  dhead L' (eu u, b) = cn L vs v u /\
  nd L' (eu u, b) = Some (pe L vs v u, true) /\
  dhead L' (pe L vs v u, true) = cn L vs v u1 /\
  nd L' (pe L vs v u, true) = Some (out_dart L' (cn L vs v u1) (eu u1)) /\
  snd (out_dart L' (cn L vs v u1) (eu u1)) = snd (out_dart L v (eu u1)).
Proof.
  intros Hu Hh u1. pose proof d_pos as Hd.
  assert (Hu1 : u1 < d) by (apply mod_succ_lt, Hu).
  assert (Hval : valid_dart L (eu u, b)) by (apply (eu_lt L vs v Hg Hv Htr u Hu)).
  assert (Hval' : valid_dart L' (eu u, b)).
  { unfold valid_dart. cbn [fst]. rewrite trunc_nE. pose proof (eu_lt L vs v Hg Hv Htr u Hu). lia. }
  assert (Hh' : dhead L' (eu u, b) = cn L vs v u).
  { unfold dhead in *. cbn [fst snd] in *.
    pose proof (fst_eu_iff L vs v Hg Hv Htr u Hu) as F. pose proof (snd_eu_iff L vs v Hg Hv Htr u Hu) as S.
        destruct (edge_at L (eu u)) as [j k] eqn:EL. destruct (edge_at L' (eu u)) as [j' k'] eqn:EL'.
    cbn [fst snd] in *. destruct b; [apply S, Hh|apply F, Hh]. }
  split; [|split; [exact Hh'|split; [|split; [|split]]]].
  - destruct (nd_spec L _ Hg Hval) as (f & Hs & Hn). rewrite Hh in Hs, Hn. cbn [fst] in Hs.
    rewrite succ_in_nth in Hs by (try apply sorted_adj_NoDup; exact Hu).
    injection Hs as <-. exact Hn.
  - destruct (nd_spec L' _ HG' Hval') as (f & Hs & Hn). rewrite Hh' in Hs, Hn. cbn [fst] in Hs.
    destruct (corner_rotation L vs v Hg Hv Htr u Hcw Hu) as (R & _ & _). cbv zeta in R.
    rewrite R in Hs. injection Hs as <-. rewrite Hn. unfold out_dart. f_equal.
    rewrite (edge_pe L vs v Hg Hv Htr u Hu). cbn [fst]. rewrite Nat.eqb_refl. reflexivity.
  - unfold dhead. cbn [fst snd]. rewrite (edge_pe L vs v Hg Hv Htr u Hu). reflexivity.
  - assert (Hvp : valid_dart L' (pe L vs v u, true)) by (apply pe_lt; assumption).
    destruct (nd_spec L' _ HG' Hvp) as (f & Hs & Hn).
    assert (Hhp : dhead L' (pe L vs v u, true) = cn L vs v u1).
    { unfold dhead. cbn [fst snd]. rewrite (edge_pe L vs v Hg Hv Htr u Hu). reflexivity. }
    rewrite Hhp in Hs, Hn. cbn [fst] in Hs.
    destruct (corner_rotation L vs v Hg Hv Htr u1 Hcw Hu1) as (_ & _ & R). cbv zeta in R.
    assert (Epu : pu d u1 = u).
    { unfold u1. rewrite pu_spec by (apply mod_succ_lt, Hu). rewrite mod_succ_spec by exact Hu.
      destruct (Nat.eqb_spec (u + 1) d); cbn; [lia|]. destruct (Nat.eqb_spec (u + 1) 0); lia. }
    rewrite Epu in R. rewrite R in Hs. injection Hs as <-. exact Hn.
  - unfold out_dart. cbn [snd].
    pose proof (fst_eu_iff L vs v Hg Hv Htr u1 Hu1) as F.
    destruct (Nat.eqb_spec (fst (edge_at L' (eu u1))) (cn L vs v u1)) as [A|A];
      destruct (Nat.eqb_spec (fst (edge_at L (eu u1))) v) as [B|B]; tauto.
Qed.
End Polygon.

(* ================================================================== assembled statements (explicit hypotheses) *)
(* (1) the rotation system at a new corner *)
Theorem truncate_corner_edges (L : lattice) (vs : option (list nat)) (v u : nat) :
  wf_lattice L = true -> no_self_loops L = true -> v < nV L -> is_truncated L vs v = true ->
  u < length (sorted_adj L v) ->
  exists L', vertices_to_polygon L vs = Some L' /\
    let d := length (sorted_adj L v) in
    let c := cn L vs v u in
    let e := nth u (sorted_adj L v) 0 in
    wf_lattice L' = true /\ no_self_loops L' = true /\ c < nV L' /\
    Permutation [e; pe L vs v u; pe L vs v (pu d u)] (sorted_adj L' c) /\
    edge_at L' (pe L vs v u) = (c, cn L vs v (Nat.modulo (u + 1) d)) /\
    edge_at L' (pe L vs v (pu d u)) = (cn L vs v (pu d u), c) /\
    (exists lam, (0 < lam)%Z /\ outvec L' c e = vscale lam (wv L v u)) /\
    outvec L' c (pe L vs v u) = vsub (wv L v (Nat.modulo (u + 1) d)) (wv L v u) /\
    outvec L' c (pe L vs v (pu d u)) = vsub (wv L v (pu d u)) (wv L v u).
Proof.
  intros Hwf Hnl Hv Htr Hu. assert (Hg : good L) by (split; assumption).
  exists (trunc_spec L vs). split; [apply vertices_to_polygon_spec; exact Hg|]. cbv zeta.
  destruct (trunc_spec_good L vs Hg) as [G1 G2].
  split; [exact G1|]. split; [exact G2|]. split; [apply cn_lt; assumption|].
  split; [apply corner_incident_perm; assumption|].
  split; [apply edge_pe; assumption|].
  split; [apply edge_pe_pred; assumption|].
  split; [apply corner_outvec_orig; assumption|].
  split; [apply corner_outvec_next; assumption|apply corner_outvec_prev; assumption].
Qed.

Theorem truncate_corner_rotation (L : lattice) (vs : option (list nat)) (v u : nat) :
  wf_lattice L = true -> no_self_loops L = true -> v < nV L -> is_truncated L vs v = true ->
  turns_cw L v = true -> u < length (sorted_adj L v) ->
  exists L', vertices_to_polygon L vs = Some L' /\
    let d := length (sorted_adj L v) in
    let row := sorted_adj L' (cn L vs v u) in
    let e := nth u (sorted_adj L v) 0 in
    length row = 3 /\
    succ_in row e = Some (pe L vs v u) /\
    succ_in row (pe L vs v u) = Some (pe L vs v (pu d u)) /\
    succ_in row (pe L vs v (pu d u)) = Some e.
Proof.
  intros Hwf Hnl Hv Htr Hcw Hu. assert (Hg : good L) by (split; assumption).
  exists (trunc_spec L vs). split; [apply vertices_to_polygon_spec; exact Hg|]. cbv zeta.
  split; [apply (corner_three_edges L vs v Hg Hv Htr u Hu)|].
  apply (corner_rotation L vs v Hg Hv Htr u Hcw Hu).
Qed.

(* (2) the polygon, run anticlockwise, is a closed orbit of the dart successor *)
Theorem truncate_polygon_is_orbit (L : lattice) (vs : option (list nat)) (v u0 : nat) :
  wf_lattice L = true -> no_self_loops L = true -> v < nV L -> is_truncated L vs v = true ->
  turns_cw L v = true -> u0 < length (sorted_adj L v) ->
  exists L', vertices_to_polygon L vs = Some L' /\
    let d := length (sorted_adj L v) in
    let w := pwalk L vs v u0 in
    orbit_walk L' w /\ length w = d /\
    (forall t, t < d -> nth t w tdflt =
       (pe L vs v (idx d u0 t), cn L vs v (Nat.modulo (idx d u0 t + 1) d), false)) /\
    (forall u, u < d -> nd L' (pe L vs v u, false) = Some (pe L vs v (pu d u), false)) /\
    walk_ok L' w (snd (fst (hd tdflt w))) /\
    NoDup (walk_edges w) /\ net_crossing L' w = vzero /\ vsum (map (dvec L') w) = vzero.
Proof.
  intros Hwf Hnl Hv Htr Hcw Hu0. assert (Hg : good L) by (split; assumption).
  exists (trunc_spec L vs). split; [apply vertices_to_polygon_spec; exact Hg|]. cbv zeta.
  pose proof (polygon_orbit_walk L vs v Hg Hv Htr Hcw u0 Hu0) as HO.
  split; [exact HO|]. split; [apply pwalk_length; assumption|].
  split; [intros t Ht; apply (pwalk_nth L vs v Hg Hv Htr Hcw u0 t Ht)|].
  split; [intros u Hu; apply (nd_pstep L vs v Hg Hv Htr Hcw u Hu)|].
  split; [apply orbit_walk_consistent; [exact (trunc_spec_good L vs Hg)|exact HO]|].
  split; [apply polygon_edges_nodup; assumption|].
  split; [apply polygon_net_crossing; assumption|apply polygon_vectors_sum; assumption].
Qed.

(* (3) its signed area is positive: 1/9 of the area of the polygon spanned by the tips of the outward vectors *)
Theorem truncate_polygon_area_positive (L : lattice) (vs : option (list nat)) (v u0 : nat) :
  wf_lattice L = true -> no_self_loops L = true -> v < nV L -> is_truncated L vs v = true ->
  turns_cw L v = true -> u0 < length (sorted_adj L v) ->
  exists L', vertices_to_polygon L vs = Some L' /\
    let w := pwalk L vs v u0 in
    (exists T, poly_points L' w = map (vadd T) (tips L v u0)) /\
    area2 (poly_points L' w) = area2 (tips L v u0) /\
    (scale L' = 3 * scale L)%Z /\
    (0 < area2 (poly_points L' w))%Z.
Proof.
  intros Hwf Hnl Hv Htr Hcw Hu0. assert (Hg : good L) by (split; assumption).
  exists (trunc_spec L vs). split; [apply vertices_to_polygon_spec; exact Hg|]. cbv zeta.
  split; [apply polygon_points; assumption|].
  split; [apply polygon_area_tips; assumption|].
  split; [reflexivity|apply polygon_area_positive; assumption].
Qed.

(* the sweep of _find_all_plaquettes lists the polygon as one of its face walks; it passes the filters
   "no repeated edge" and "zero net crossing" and has positive area *)
Theorem truncate_polygon_is_face (L : lattice) (vs : option (list nat)) (v : nat) :
  wf_lattice L = true -> no_self_loops L = true -> v < nV L -> is_truncated L vs v = true ->
  turns_cw L v = true ->
  exists L' fs, vertices_to_polygon L vs = Some L' /\ all_faces L' = Some fs /\
    exists f u0, In f fs /\ u0 < length (sorted_adj L v) /\ f_walk f = pwalk L vs v u0 /\
      length (f_walk f) = length (sorted_adj L v) /\
      f_nodup f = true /\ f_netzero f = true /\ (0 < f_area2 f)%Z.
Proof.
  intros Hwf Hnl Hv Htr Hcw. assert (Hg : good L) by (split; assumption).
  destruct (polygon_is_face L vs v Hg Hv Htr Hcw) as (fs & E & f & u0 & Hfin & Hu0 & Ew & Emk).
  exists (trunc_spec L vs), fs. split; [apply vertices_to_polygon_spec; exact Hg|]. split; [exact E|].
  exists f, u0. split; [exact Hfin|]. split; [exact Hu0|]. split; [exact Ew|].
  split; [rewrite Ew; apply pwalk_length; assumption|].
  destruct (polygon_filters L vs v Hg Hv Htr Hcw u0 Hu0) as [F1 F2].
  rewrite Emk. cbn [f_nodup f_netzero f_area2 mk_face].
  split; [exact F1|]. split; [exact F2|apply polygon_area_positive; assumption].
Qed.

(* PARTIAL (see polygon_is_plaquette_partial): reported by find_all_plaquettes, given the winding-number filter;
   the unconditional statement is truncate_polygon_is_plaquette in Proofs/TruncateFacesWinding.v *)
Theorem truncate_polygon_is_plaquette_partial (L : lattice) (vs : option (list nat)) (v : nat) :
  wf_lattice L = true -> no_self_loops L = true -> v < nV L -> is_truncated L vs v = true ->
  turns_cw L v = true ->
  exists L', vertices_to_polygon L vs = Some L' /\
    ((forall u0, u0 < length (sorted_adj L v) -> winding (map (dvec L') (pwalk L vs v u0)) = (-1)%Z) ->
     exists ps, find_all_plaquettes L' = Some ps /\
       exists u0, u0 < length (sorted_adj L v) /\ In (mk_plaquette L' (pwalk L vs v u0)) ps /\
                  n_sides (mk_plaquette L' (pwalk L vs v u0)) = length (sorted_adj L v)).
Proof.
  intros Hwf Hnl Hv Htr Hcw. assert (Hg : good L) by (split; assumption).
  exists (trunc_spec L vs). split; [apply vertices_to_polygon_spec; exact Hg|].
  apply polygon_is_plaquette_partial; assumption.
Qed.

(* PARTIAL (see corner_detour_partial): one extra side at every truncated corner, local form; the global statement
   is truncate_old_plaquette_enlarged in Proofs/TruncateOldValid.v *)
Theorem truncate_corner_detour_partial (L : lattice) (vs : option (list nat)) (v u : nat) (b : bool) :
  wf_lattice L = true -> no_self_loops L = true -> v < nV L -> is_truncated L vs v = true ->
  turns_cw L v = true -> u < length (sorted_adj L v) ->
  let d := length (sorted_adj L v) in
  let e := nth u (sorted_adj L v) 0 in
  let u1 := Nat.modulo (u + 1) d in
  let e1 := nth u1 (sorted_adj L v) 0 in
  dhead L (e, b) = v ->
  exists L', vertices_to_polygon L vs = Some L' /\
    nd L (e, b) = Some (out_dart L v e1) /\
    dhead L' (e, b) = cn L vs v u /\
    nd L' (e, b) = Some (pe L vs v u, true) /\
    dhead L' (pe L vs v u, true) = cn L vs v u1 /\
    nd L' (pe L vs v u, true) = Some (out_dart L' (cn L vs v u1) e1) /\
    snd (out_dart L' (cn L vs v u1) e1) = snd (out_dart L v e1).
Proof.
  intros Hwf Hnl Hv Htr Hcw Hu d e u1 e1 Hh. assert (Hg : good L) by (split; assumption).
  exists (trunc_spec L vs). split; [apply vertices_to_polygon_spec; exact Hg|].
  apply (corner_detour_partial L vs v Hg Hv Htr Hcw u b Hu Hh).
Qed.
