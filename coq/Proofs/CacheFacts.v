(* Proofs/CacheFacts.v — the lazily cached attributes are history independent (C02). *)
From Coq Require Import List ZArith Bool Arith Lia.
From Koala Require Import Model.Lattice Model.Cache.
Import ListNotations.

(* every populated slot of the state holds the history-free value, and a populated plaquette
   slot implies the two side-effect tables are populated *)
Definition coherent (L : lattice) (st : cstate) : Prop :=
  (forall p, c_plaq st = Some p ->
     exists et vt, compute_plaquettes L = Some (p, et, vt) /\ c_etab st = Some et /\ c_vtab st = Some vt) /\
  (forall n, c_nplaq st = Some n ->
     exists p et vt, compute_plaquettes L = Some (p, et, vt) /\ n = length (fst p)) /\
  (forall t, c_eadj st = Some t -> exists p vt, compute_plaquettes L = Some (p, t, vt)) /\
  (forall t, c_vadj st = Some t -> exists p et, compute_plaquettes L = Some (p, et, t)).

Lemma coherent_init : forall L, coherent L cinit.
Proof. intros L. repeat split; simpl; intros; discriminate. Qed.

Lemma access_plaquettes_correct : forall L st st' r,
  coherent L st -> access_plaquettes L st = (st', r) ->
  coherent L st' /\
  c_nplaq st' = c_nplaq st /\ c_eadj st' = c_eadj st /\ c_vadj st' = c_vadj st /\
  match r with
  | None => compute_plaquettes L = None /\ st' = st
  | Some p => exists et vt, compute_plaquettes L = Some (p, et, vt) /\ c_plaq st' = Some p
                            /\ c_etab st' = Some et /\ c_vtab st' = Some vt
  end.
Proof.
  intros L st st' r Hc H. unfold access_plaquettes in H.
  destruct (c_plaq st) as [p|] eqn:Ep.
  - inversion H; subst. repeat split; try apply Hc.
    destruct Hc as [H1 _]. destruct (H1 p Ep) as (et & vt & A & B & C). exists et, vt. auto.
  - destruct (compute_plaquettes L) as [[[p et] vt]|] eqn:Ec.
    + inversion H; subst. simpl. destruct Hc as (H1 & H2 & H3 & H4).
      split; [|repeat split; try reflexivity; exists et, vt; auto].
      repeat split; simpl.
      * intros p' Hp'. inversion Hp'; subst. eauto.
      * exact H2.
      * exact H3.
      * exact H4.
    + inversion H; subst. repeat split; try apply Hc.
Qed.

Lemma step_correct : forall L st o st' v,
  coherent L st -> step L st o = (st', v) -> coherent L st' /\ v = pure_value L o.
Proof.
  intros L st o st' v Hc H. unfold pure_value, pure_value_of. destruct o; simpl in H.
  - (* GetPlaquettes *)
    destruct (access_plaquettes L st) as [s r] eqn:Ea. inversion H; subst.
    destruct (access_plaquettes_correct _ _ _ _ Hc Ea) as (Hc' & _ & _ & _ & Hr). split. exact Hc'.
    destruct r as [p|].
    + destruct Hr as (et & vt & -> & _). reflexivity.
    + destruct Hr as [-> _]. reflexivity.
  - (* GetNPlaquettes *)
    destruct (c_nplaq st) as [n|] eqn:En.
    + inversion H; subst. split. exact Hc.
      destruct Hc as (_ & H2 & _). destruct (H2 n En) as (p & et & vt & -> & ->). reflexivity.
    + destruct (access_plaquettes L st) as [s r] eqn:Ea.
      destruct (access_plaquettes_correct _ _ _ _ Hc Ea) as (Hc' & Kn & Ke & Kv & Hr).
      destruct r as [p|].
      * inversion H; subst. destruct Hr as (et & vt & Ec & Hp & He & Hv). rewrite Ec. split; [|reflexivity].
        destruct Hc' as (H1 & H2 & H3 & H4). repeat split; simpl.
        -- exact H1.
        -- intros n Hn. inversion Hn; subst. eauto.
        -- exact H3.
        -- exact H4.
      * inversion H; subst. destruct Hr as [-> _]. split; [exact Hc'|reflexivity].
  - (* GetEdgeAdj *)
    destruct (c_eadj st) as [t|] eqn:En.
    + inversion H; subst. split. exact Hc.
      destruct Hc as (_ & _ & H3 & _). destruct (H3 t En) as (p & vt & ->). reflexivity.
    + destruct (access_plaquettes L st) as [s r] eqn:Ea.
      destruct (access_plaquettes_correct _ _ _ _ Hc Ea) as (Hc' & Kn & Ke & Kv & Hr).
      destruct r as [p|].
      * destruct Hr as (et & vt & Ec & Hp & He & Hv). rewrite He in H. inversion H; subst. rewrite Ec.
        split; [|reflexivity].
        destruct Hc' as (H1 & H2 & H3 & H4). repeat split; simpl.
        -- rewrite <- He. exact H1.
        -- exact H2.
        -- intros t Ht. inversion Ht; subst. eauto.
        -- exact H4.
      * inversion H; subst. destruct Hr as [-> _]. split; [exact Hc'|reflexivity].
  - (* GetVertexAdj *)
    destruct (c_vadj st) as [t|] eqn:En.
    + inversion H; subst. split. exact Hc.
      destruct Hc as (_ & _ & _ & H4). destruct (H4 t En) as (p & et & ->). reflexivity.
    + destruct (access_plaquettes L st) as [s r] eqn:Ea.
      destruct (access_plaquettes_correct _ _ _ _ Hc Ea) as (Hc' & Kn & Ke & Kv & Hr).
      destruct r as [p|].
      * destruct Hr as (et & vt & Ec & Hp & He & Hv). rewrite Hv in H. inversion H; subst. rewrite Ec.
        split; [|reflexivity].
        destruct Hc' as (H1 & H2 & H3 & H4). repeat split; simpl.
        -- rewrite <- Hv. exact H1.
        -- exact H2.
        -- exact H3.
        -- intros t Ht. inversion Ht; subst. eauto.
      * inversion H; subst. destruct Hr as [-> _]. split; [exact Hc'|reflexivity].
Qed.

Lemma run_correct : forall L ops st,
  coherent L st -> coherent L (fst (run L st ops)) /\ snd (run L st ops) = map (pure_value L) ops.
Proof.
  intros L ops. induction ops as [|o r IH]; intros st Hc; simpl. auto.
  destruct (step L st o) as [st' v] eqn:Es.
  destruct (step_correct _ _ _ _ _ Hc Es) as [Hc' ->].
  specialize (IH st' Hc'). destruct (run L st' r) as [st'' vs]. simpl in *.
  destruct IH as [A ->]. auto.
Qed.

(* for EVERY finite history of accesses, starting from a freshly constructed (or freshly
   unpickled: __setstate__ = __init__) lattice, the i-th value returned is the history-free
   value of the attribute accessed at step i; in particular no access returns AttributeError *)
Lemma cache_history_independent_lemma : forall L ops,
  snd (run L cinit ops) = map (pure_value L) ops.
Proof. intros L ops. apply run_correct, coherent_init. Qed.

Lemma pure_value_no_attr_error : forall L o, pure_value L o <> VAttrError.
Proof.
  intros L o. unfold pure_value, pure_value_of. destruct (compute_plaquettes L) as [[[p et] vt]|]; [destruct o|]; discriminate.
Qed.

(* two histories: the value of an attribute does not depend on which history preceded its access *)
Lemma cache_order_irrelevant : forall L ops1 ops2 o,
  snd (step L (fst (run L cinit ops1)) o) = snd (step L (fst (run L cinit ops2)) o).
Proof.
  intros L ops1 ops2 o.
  destruct (run_correct L ops1 cinit (coherent_init L)) as [C1 _].
  destruct (run_correct L ops2 cinit (coherent_init L)) as [C2 _].
  destruct (step L (fst (run L cinit ops1)) o) as [s1 v1] eqn:E1.
  destruct (step L (fst (run L cinit ops2)) o) as [s2 v2] eqn:E2.
  destruct (step_correct _ _ _ _ _ C1 E1) as [_ ->].
  destruct (step_correct _ _ _ _ _ C2 E2) as [_ ->]. reflexivity.
Qed.
