(* Proofs/FluxSolverLatticeFacts.v — C06 end to end on the shared lattice model.
   1. the tables computed by Model/Lattice.v satisfy the solver's well-formedness hypothesis fs_wf (from C01/C02);
   2. the adjacency lists of graph_utils.adjacent_plaquettes agree with edges.adjacent_plaquettes in both directions;
   3. "plaquette graph connected" (C14's plaquette_graph_connected) gives a walk of the A* model between any two plaquettes;
   4. hence the modelled ujk_from_fluxes / find_flux_sector (greedy pairing as coded, A* as coded with budget n_edges)
      meets the solver contract on the lattice: no oracle hypothesis on paths or pairing is left. *)
From Coq Require Import List ZArith Bool Arith Lia ZifyBool.
From Koala Require Import Model.Lattice Model.TableSpec Model.Queries Model.AStar Model.Flux Model.SpanTree
  Model.FluxSolver Model.FluxSolverLattice.
From Koala Require Import Proofs.LatticeFacts Proofs.PlaqTablesFacts Proofs.FluxFacts Proofs.SpanTreeFacts
  Proofs.SpanTreeComplete Proofs.SpanTreeLattice Proofs.AStarFacts Proofs.AStarBudget Proofs.ChainFlipFacts Proofs.FluxSolverFacts
  Proofs.GreedyPairingFacts.
Import ListNotations.
Local Open Scope nat_scope.

(* ------------------------------------------------------------------ 1a. the two flux models coincide *)
Lemma fsl_flux_ujk_eq : forall u p, fs_flux_ujk u (fsl_plaq p) = flux_real u p.
Proof.
  intros u p. unfold fs_flux_ujk, fsl_plaq, flux_real, flux_darts, Flux.plaq_darts.
  generalize (p_dirs p). induction (p_edges p) as [|e es IH]; intros [|d ds]; simpl; try reflexivity.
  rewrite IH. reflexivity.
Qed.

Lemma fsl_fluxes_ujk_eq : forall u ps, fs_fluxes_ujk (fsl_plaqs ps) u = fluxes_real u ps.
Proof.
  intros u ps. unfold fs_fluxes_ujk, fsl_plaqs, fluxes_real. rewrite map_map.
  apply map_ext. intros p. apply fsl_flux_ujk_eq.
Qed.

Lemma fsl_plaqs_length : forall ps, length (fsl_plaqs ps) = length ps.
Proof. intros. apply map_length. Qed.

Lemma fsl_nth : forall ps q, nth q (fsl_plaqs ps) [] = fsl_plaq (nth q ps empty_plaq).
Proof. intros ps q. exact (map_nth fsl_plaq ps empty_plaq q). Qed.

(* ------------------------------------------------------------------ 1b. fs_wf for the model's tables *)
Lemma fs_count_edge_notin : forall (es : list nat) (zs : list Z) e, ~ In e es -> fs_count_edge (combine es zs) e = 0.
Proof.
  unfold fs_count_edge. induction es as [|x es IH]; intros [|z zs] e Hn; simpl; try reflexivity.
  destruct (Nat.eqb_spec x e) as [->|Hne]; [exfalso; apply Hn; now left|].
  apply IH. intros H. apply Hn. now right.
Qed.
Lemma fs_count_edge_in : forall (es : list nat) (zs : list Z) e,
  NoDup es -> In e es -> length zs = length es -> fs_count_edge (combine es zs) e = 1.
Proof.
  induction es as [|x es IH]; intros [|z zs] e Hnd Hin Hl; simpl in *; try contradiction; try discriminate.
  inversion Hnd as [|? ? Hx Hr]; subst. unfold fs_count_edge. simpl.
  destruct (Nat.eqb_spec x e) as [->|Hne].
  - simpl. f_equal. apply (fs_count_edge_notin es zs e Hx).
  - destruct Hin as [->|Hin]; [contradiction|]. apply IH; auto.
Qed.

Lemma fs_oeqb_spec : forall o q, fs_oeqb o q = true <-> o = Some q.
Proof.
  intros [x|] q; simpl; [|split; discriminate].
  rewrite Nat.eqb_eq. split; [intros ->; reflexivity|intros H; now inversion H].
Qed.

Lemma owner_nth : forall ps d q p, nth_error ps q = Some p -> (owner ps d q <-> In d (TableSpec.plaq_darts p)).
Proof.
  intros ps d q p Hq. unfold owner. split.
  - intros (p' & Hp' & Hin). rewrite Hq in Hp'. now inversion Hp'; subst.
  - intros Hin. exists p. auto.
Qed.

Lemma fsl_wf : forall L ps,
  good L -> find_all_plaquettes L = Some ps -> fs_wf (fsl_plaqs ps) (edges_plaquettes L ps) = true.
Proof.
  intros L ps HG Hf.
  destruct (edge_sides_lemma L ps (model_darts_disjoint L ps HG Hf)) as [Hlen Hcol].
  set (ep := edges_plaquettes L ps) in *.
  assert (Hlen2 : @length (option nat * option nat) ep = Lattice.nE L) by exact Hlen.
  unfold fs_wf. rewrite fsl_plaqs_length. apply andb_true_iff. split.
  - apply forallb_forall. intros q Hq. apply in_seq in Hq. destruct Hq as [_ Hq]. simpl in Hq.
    rewrite fsl_nth. set (p := nth q ps empty_plaq).
    assert (HPn : nth_error ps q = Some p) by (now apply nth_error_nth').
    assert (HPin : In p ps) by (now apply nth_In).
    destruct (model_plaquette_shape L ps p Hf HPin) as (_ & Hl & Hnd).
    apply andb_true_iff. split.
    + apply forallb_forall. intros [e z] Hin. unfold fsl_plaq in Hin. cbn [fst snd].
      apply andb_true_iff. split.
      * apply Nat.ltb_lt. rewrite Hlen2. apply in_combine_l in Hin.
        destruct (in_combine_exists _ _ (p_edges p) (p_dirs p) e Hin Hl) as [d Hd].
        apply (model_plaquette_darts_valid L ps p (e, d) HG Hf HPin Hd).
      * apply in_combine_r in Hin. apply in_map_iff in Hin. destruct Hin as ([|] & <- & _); reflexivity.
    + apply forallb_forall. intros e He. apply in_seq in He. destruct He as [_ He]. simpl in He.
      rewrite Hlen2 in He. apply Nat.eqb_eq.
      unfold fs_sides. rewrite (nth_error_nth' ep (None, None)) by (rewrite ?Hlen, ?Hlen2; exact He).
      destruct (Hcol e true He) as [Ht _]. destruct (Hcol e false He) as [Hfa _].
      fold ep in Ht, Hfa. destruct (nth e ep (None, None)) as [x y]. simpl in Ht, Hfa.
      assert (Hx : fs_oeqb x q = true <-> In (e, true) (combine (p_edges p) (p_dirs p))).
      { rewrite fs_oeqb_spec, Ht. apply (owner_nth ps (e, true) q p HPn). }
      assert (Hy : fs_oeqb y q = true <-> In (e, false) (combine (p_edges p) (p_dirs p))).
      { rewrite fs_oeqb_spec, Hfa. apply (owner_nth ps (e, false) q p HPn). }
      unfold fsl_plaq.
      destruct (in_dec Nat.eq_dec e (p_edges p)) as [Hin|Hnin].
      * rewrite fs_count_edge_in; auto; [|now rewrite map_length].
        destruct (in_combine_exists _ _ (p_edges p) (p_dirs p) e Hin Hl) as [d Hd].
        destruct d.
        -- apply Hx in Hd as Hx1. rewrite Hx1.
           destruct (fs_oeqb y q); [|reflexivity].
           pose proof (proj1 Hy eq_refl) as Ey. pose proof (combine_nodup_fst _ _ _ _ _ Hnd Hd Ey). discriminate.
        -- apply Hy in Hd as Hy1. rewrite Hy1.
           destruct (fs_oeqb x q); [|reflexivity].
           pose proof (proj1 Hx eq_refl) as Ex. pose proof (combine_nodup_fst _ _ _ _ _ Hnd Hd Ex). discriminate.
      * rewrite fs_count_edge_notin by assumption.
        destruct (fs_oeqb x q); [pose proof (proj1 Hx eq_refl) as Ex; apply in_combine_l in Ex; contradiction|].
        destruct (fs_oeqb y q); [pose proof (proj1 Hy eq_refl) as Ey; apply in_combine_l in Ey; contradiction|]. reflexivity.
  - apply forallb_forall. intros [x y] Hin.
    destruct (In_nth _ _ (None, None) Hin) as (e & He & Hnth). rewrite ?Hlen, ?Hlen2 in He.
    destruct (Hcol e true He) as [Ht _]. destruct (Hcol e false He) as [Hfa _].
    fold ep in Ht, Hfa. unfold ep_row in Ht, Hfa, Hnth. rewrite Hnth in Ht, Hfa. simpl in Ht, Hfa.
    assert (Hlt : forall d n, owner ps d n -> n < length ps).
    { intros d n (p & Hn & _). apply nth_error_Some. congruence. }
    apply andb_true_iff. split.
    + destruct x as [a|]; [|reflexivity]. apply Nat.ltb_lt. apply (Hlt (e, true)). now apply Ht.
    + destruct y as [b|]; [|reflexivity]. apply Nat.ltb_lt. apply (Hlt (e, false)). now apply Hfa.
Qed.

(* ------------------------------------------------------------------ 2. adjacency lists vs. the edge table *)
Lemma in_combine_map : forall (A B C : Type) (f : A -> B) (g : A -> C) l y e,
  In (y, e) (combine (map f l) (map g l)) <-> exists r, In r l /\ y = f r /\ e = g r.
Proof.
  intros A B C f g l y e. induction l as [|a l IH]; simpl.
  - split; [contradiction|intros (r & [] & _)].
  - rewrite IH. split.
    + intros [H|(r & Hr & H1 & H2)]; [inversion H; subst; exists a; auto|exists r; auto].
    + intros (r & [->|Hr] & -> & ->); [now left|right; exists r; auto].
Qed.

Lemma fsl_adj_spec : forall ps ep x p y e,
  nth_error ps x = Some p ->
  (In (y, e) (fsl_adj ps ep x) <->
   In e (p_edges p) /\ exists a b, nth e ep (None, None) = (Some a, Some b) /\ y = if b =? x then a else b).
Proof.
  intros ps ep x p y e Hx. unfold fsl_adj, q_adjacent_plaquettes. rewrite Hx.
  rewrite in_combine_map. split.
  - intros (r & Hr & -> & ->). apply in_flat_map in Hr. destruct Hr as (e' & He' & Hr).
    destruct (nth e' ep (None, None)) as [[a|] [b|]] eqn:E; simpl in Hr; try contradiction.
    destruct Hr as [<-|[]]. simpl. split; [exact He'|]. exists a, b. auto.
  - intros (He & a & b & E & ->). exists (e, (a, b)). split; [|split; reflexivity].
    apply in_flat_map. exists e. split; [exact He|]. rewrite E. now left.
Qed.

Lemma fsl_adj_out_of_range : forall ps ep x, nth_error ps x = None -> fsl_adj ps ep x = [].
Proof. intros ps ep x H. unfold fsl_adj, q_adjacent_plaquettes. now rewrite H. Qed.

Lemma nth_two_sided : forall (ep : list ep_row) e a b,
  nth e ep (None, None) = (Some a, Some b) <-> nth_error ep e = Some (Some a, Some b).
Proof.
  intros ep e a b. split.
  - intros H. destruct (Nat.lt_ge_cases e (length ep)) as [Hl|Hl].
    + rewrite (nth_error_nth' ep (None, None) Hl). now rewrite H.
    + rewrite nth_overflow in H by assumption. discriminate.
  - intros H. now apply nth_error_nth.
Qed.

Lemma as_joined_spec : forall (ep : list ep_row) e a b,
  as_joined ep e a b = true <->
  exists x y, nth e ep (None, None) = (Some x, Some y) /\ ((x = a /\ y = b) \/ (x = b /\ y = a)).
Proof.
  intros ep e a b. unfold as_joined. split.
  - intros H. unfold ep_row in *. destruct (nth_error ep e) as [[[x|] [y|]]|] eqn:E; try discriminate.
    exists x, y. split; [now apply nth_error_nth|].
    apply orb_true_iff in H. destruct H as [H|H]; apply andb_true_iff in H; destruct H as [H1 H2];
      apply Nat.eqb_eq in H1, H2; auto.
  - intros (x & y & E & H). apply nth_two_sided in E. unfold ep_row in *. rewrite E.
    destruct H as [[-> ->]|[-> ->]]; rewrite !Nat.eqb_refl; simpl; rewrite ?orb_true_r; reflexivity.
Qed.

Section Adjacency.
  Variable ps : list plaquette.
  Variable ep : list ep_row.
  Hypothesis Hag : tables_agree ep (map p_edges ps).

  (* every listed neighbour is joined to the plaquette by the listed edge according to edges.adjacent_plaquettes *)
  Lemma fsl_adj_joined : forall x y e, In (y, e) (fsl_adj ps ep x) -> as_joined ep e y x = true.
  Proof.
    intros x y e Hin. destruct (nth_error ps x) as [p|] eqn:Hx; [|rewrite fsl_adj_out_of_range in Hin; [contradiction|assumption]].
    apply (fsl_adj_spec ps ep x p y e Hx) in Hin. destruct Hin as (He & a & b & E & ->).
    destruct Hag as [_ Hside].
    assert (Hxl : x < length (map p_edges ps)) by (rewrite map_length; apply nth_error_Some; congruence).
    assert (Hs : is_side ep e x = true).
    { apply Hside; [exact Hxl|]. rewrite nth_pes. rewrite (nth_error_nth _ _ empty_plaq Hx). exact He. }
    assert (H2 : two_sided ep e = Some (a, b)) by (unfold two_sided, ep_at; now rewrite E).
    apply (is_side_two_sided _ _ _ _ x H2) in Hs.
    apply as_joined_spec. exists a, b. split; [exact E|].
    destruct (Nat.eqb_spec b x) as [->|Hne]; [left; auto|].
    destruct Hs as [-> | ->]; [right; auto|contradiction].
  Qed.

  (* ... and every edge joining x and y in the table is listed among x's neighbours *)
  Lemma fsl_joined_adj : forall x y e, as_joined ep e y x = true -> In (y, e) (fsl_adj ps ep x).
  Proof.
    intros x y e Hj. apply as_joined_spec in Hj. destruct Hj as (a & b & E & Hj).
    assert (H2 : two_sided ep e = Some (a, b)) by (unfold two_sided, ep_at; now rewrite E).
    destruct Hag as [Hr Hside]. destruct (Hr e a b H2) as [Ha Hb].
    assert (Hxs : x = a \/ x = b) by (destruct Hj as [[? ?]|[? ?]]; subst; auto).
    assert (Hxl : x < length (map p_edges ps)) by (destruct Hxs; subst; assumption).
    assert (Hx : nth_error ps x = Some (nth x ps empty_plaq)).
    { apply nth_error_nth'. now rewrite map_length in Hxl. }
    apply (fsl_adj_spec ps ep x _ y e Hx). split.
    - rewrite <- nth_pes. apply Hside; [exact Hxl|]. apply (is_side_two_sided _ _ _ _ x H2). exact Hxs.
    - exists a, b. split; [exact E|].
      destruct Hj as [[-> ->]|[-> ->]].
      + rewrite Nat.eqb_refl. reflexivity.
      + destruct (Nat.eqb_spec y x); congruence.
  Qed.

  Lemma sides_joined : forall e a b, sides ep e a b -> as_joined ep e b a = true /\ as_joined ep e a b = true.
  Proof.
    intros e a b Hs. rewrite !as_joined_spec.
    destruct Hs as [H|H]; unfold two_sided, ep_at in H;
      destruct (nth e ep (None, None)) as [[x|] [y|]] eqn:E; try discriminate; inversion H; subst;
      split; do 2 eexists; (split; [reflexivity|auto]).
  Qed.

  (* ------------------------------------------------------------------ 3. connectivity gives walks of the A* model *)
  Lemma gconn_chain : forall s q, gconn ep s q ->
    exists ws es, as_chain (fsl_adj ps ep) ws es /\ hd_error ws = Some q /\ (forall d, last ws d = s).
  Proof.
    intros s q H. induction H as [q|q a b e Hp IH Hs].
    - exists [q], []. split; [constructor|]. split; reflexivity.
    - destruct IH as (ws & es & Hch & Hhd & Hlast).
      destruct ws as [|w ws]; [discriminate|]. injection Hhd as ->.
      exists (b :: a :: ws), (e :: es). split; [|split; [reflexivity|]].
      + apply as_chain_cons; [|exact Hch]. apply fsl_joined_adj. apply (sides_joined e a b Hs).
      + intros d. specialize (Hlast d). exact Hlast.
  Qed.

  Lemma gconn_trans : forall a b c, gconn ep a b -> gconn ep b c -> gconn ep a c.
  Proof.
    intros a b c Hab Hbc. induction Hbc as [q|q x y e Hp IH Hs]; [exact Hab|].
    eapply gconn_step; [apply IH; exact Hab|exact Hs].
  Qed.
  Lemma sides_sym : forall e a b, sides ep e a b -> sides ep e b a.
  Proof. intros e a b [H|H]; [right|left]; exact H. Qed.
  Lemma gconn_sym : forall a b, gconn ep a b -> gconn ep b a.
  Proof.
    intros a b H. induction H as [q|q x y e Hp IH Hs]; [constructor|].
    apply (gconn_trans y x q); [|exact IH].
    eapply gconn_step; [apply gconn_refl|apply sides_sym; exact Hs].
  Qed.

  Lemma connected_chains : forall F, plaquette_graph_connected ep F ->
    forall a b, a < F -> b < F ->
      exists ws es, as_chain (fsl_adj ps ep) ws es /\ hd_error ws = Some b /\ last ws b = a.
  Proof.
    intros F Hc a b Ha Hb.
    assert (Hab : gconn ep a b) by (apply (gconn_trans a 0 b); [apply gconn_sym; now apply Hc|now apply Hc]).
    destruct (gconn_chain a b Hab) as (ws & es & H1 & H2 & H3). exists ws, es. auto.
  Qed.
End Adjacency.

(* ------------------------------------------------------------------ 4. the modelled A* is a total path oracle on the lattice *)
(* the cost function is metric-like along the adjacency lists: non-negative, positive between distinct neighbours,
   consistent towards every goal (the triangle inequality along an edge) *)
Definition fsl_cost_ok (adj : nat -> list (nat * nat)) (h : nat -> nat -> Z) : Prop :=
  (forall x y e, In (y, e) (adj x) -> (0 <= h x y)%Z /\ (x <> y -> (0 < h x y)%Z)) /\
  (forall g x y e, In (y, e) (adj x) -> (h x g <= h x y + h y g)%Z) /\
  (forall x g, (0 <= h x g)%Z).

Lemma fsl_metric_cost_ok : forall adj h,
  (forall x y, (0 <= h x y)%Z) -> (forall x y, x <> y -> (0 < h x y)%Z) ->
  (forall x y z, (h x z <= h x y + h y z)%Z) -> fsl_cost_ok adj h.
Proof. intros adj h H0 H1 H2. repeat split; auto. Qed.

(* the discrete metric: a cost function meeting fsl_cost_ok on every graph *)
Definition fsl_discrete (x y : nat) : Z := if x =? y then 0%Z else 1%Z.
Lemma fsl_discrete_ok : forall adj, fsl_cost_ok adj fsl_discrete.
Proof.
  intros adj. apply fsl_metric_cost_ok; unfold fsl_discrete; intros.
  - destruct (x =? y); lia.
  - destruct (Nat.eqb_spec x y); [contradiction|lia].
  - destruct (Nat.eqb_spec x z), (Nat.eqb_spec x y), (Nat.eqb_spec y z); subst; try lia; congruence.
Qed.

Lemma fsl_path_is_oracle : forall ps ep h m a b, fsl_path ps ep h m a b = as_oracle (fsl_adj ps ep) h m a b.
Proof. reflexivity. Qed.

Lemma fsl_path_contract : forall ps ep h,
  tables_agree ep (map p_edges ps) ->
  plaquette_graph_connected ep (length ps) ->
  fsl_cost_ok (fsl_adj ps ep) h ->
  forall a b, a < length ps -> b < length ps -> a <> b ->
    fs_path_ok ep a b (fsl_path ps ep h (length ep) a b) = true.
Proof.
  intros ps ep h Hag Hconn (Hh & Hcons & Hhg) a b Ha Hb Hab. rewrite fsl_path_is_oracle.
  apply (as_oracle_contract (fsl_adj ps ep) h ep (length ps) Hh Hcons Hhg); auto.
  - intros x y e Hin. apply (fsl_adj_joined ps ep Hag x y e Hin).
  - intros a' b' Ha' Hb'. apply (connected_chains ps ep Hag (length ps) Hconn a' b' Ha' Hb').
Qed.

(* ------------------------------------------------------------------ 5. the solver contract on the lattice *)
Lemma fs_pm1_all_pm1 : forall l, fs_pm1 l = all_pm1 l.
Proof. reflexivity. Qed.

Lemma lat_contract_generic : forall flux, fs_contract_statement_greedy flux ->
  forall L ps h pick nearest target guess,
    good L -> find_all_plaquettes L = Some ps ->
    plaquette_graph_connected (edges_plaquettes L ps) (length ps) ->
    fsl_cost_ok (fsl_adj ps (edges_plaquettes L ps)) h ->
    (forall l, l <> [] -> In (pick l) l) -> (forall c l, l <> [] -> In (nearest c l) l) ->
    length target = length ps -> all_pm1 target = true ->
    length guess = Lattice.nE L -> all_pm1 guess = true ->
    exists u, fs_solve (flux (fsl_plaqs ps)) (edges_plaquettes L ps) (greedy_pairing pick nearest)
                       (fsl_path ps (edges_plaquettes L ps) h (Lattice.nE L)) target guess = FS_Ok u
      /\ length u = Lattice.nE L /\ all_pm1 u = true
      /\ (Nat.even (ndiff (flux (fsl_plaqs ps) guess) target) = true -> flux (fsl_plaqs ps) u = target)
      /\ (Nat.even (ndiff (flux (fsl_plaqs ps) guess) target) = false -> ndiff (flux (fsl_plaqs ps) u) target = 1).
Proof.
  intros flux Hc L ps h pick nearest target guess HG Hf Hconn Hcost Hpick Hnear Htl Htpm Hgl Hgpm.
  pose proof (edges_plaquettes_length L ps) as Hlen.
  assert (Hlen2 : @length (option nat * option nat) (edges_plaquettes L ps) = Lattice.nE L) by exact Hlen.
  pose proof (model_tables_agree L ps HG Hf) as Hag.
  destruct (Hc (fsl_plaqs ps) (edges_plaquettes L ps) pick nearest
              (fsl_path ps (edges_plaquettes L ps) h (Lattice.nE L)) target guess) as (u & Hrun & Hul & Hupm & Hres); auto.
  - apply fsl_wf; assumption.
  - rewrite fsl_plaqs_length. intros a b Ha Hb Hab. rewrite <- Hlen.
    apply fsl_path_contract; assumption.
  - now rewrite fsl_plaqs_length.
  - congruence.
  - exists u. split; [exact Hrun|]. split; [congruence|]. split; [exact Hupm|exact Hres].
Qed.

(* ujk_from_fluxes with fluxes_from_ujk, everything computed from L *)
Lemma lat_solver_contract_ujk : forall L ps h pick nearest target guess,
  wf_lattice L = true -> no_self_loops L = true -> find_all_plaquettes L = Some ps ->
  plaquette_graph_connected (edges_plaquettes L ps) (length ps) ->
  fsl_cost_ok (fsl_adj ps (edges_plaquettes L ps)) h ->
  (forall l, l <> [] -> In (pick l) l) -> (forall c l, l <> [] -> In (nearest c l) l) ->
  length target = length ps -> all_pm1 target = true ->
  length guess = Lattice.nE L -> all_pm1 guess = true ->
  exists u, lat_ujk_from_fluxes L h pick nearest target guess = Some (FS_Ok u)
    /\ length u = Lattice.nE L /\ all_pm1 u = true
    /\ (Nat.even (ndiff (fluxes_real guess ps) target) = true -> fluxes_from_ujk L u = Some target)
    /\ (Nat.even (ndiff (fluxes_real guess ps) target) = false -> ndiff (fluxes_real u ps) target = 1).
Proof.
  intros L ps h pick nearest target guess Hwf Hnl Hf Hconn Hcost Hpick Hnear Htl Htpm Hgl Hgpm.
  destruct (lat_contract_generic _ fs_solver_contract_greedy_ujk L ps h pick nearest target guess
              (conj Hwf Hnl) Hf Hconn Hcost Hpick Hnear Htl Htpm Hgl Hgpm) as (u & Hrun & Hul & Hupm & He & Ho).
  rewrite !fsl_fluxes_ujk_eq in He, Ho.
  exists u. unfold lat_ujk_from_fluxes, fluxes_from_ujk. rewrite Hf. cbn [option_map].
  split; [now rewrite Hrun|]. split; [exact Hul|]. split; [exact Hupm|]. split; [|exact Ho].
  intros H. now rewrite (He H).
Qed.

(* the deprecated pair find_flux_sector / fluxes_from_bonds *)
Lemma lat_solver_contract_bonds : forall L ps h pick nearest target guess,
  wf_lattice L = true -> no_self_loops L = true -> find_all_plaquettes L = Some ps ->
  plaquette_graph_connected (edges_plaquettes L ps) (length ps) ->
  fsl_cost_ok (fsl_adj ps (edges_plaquettes L ps)) h ->
  (forall l, l <> [] -> In (pick l) l) -> (forall c l, l <> [] -> In (nearest c l) l) ->
  length target = length ps -> all_pm1 target = true ->
  length guess = Lattice.nE L -> all_pm1 guess = true ->
  exists u f0, lat_find_flux_sector L h pick nearest target guess = Some (FS_Ok u)
    /\ length u = Lattice.nE L /\ all_pm1 u = true
    /\ lat_fluxes_from_bonds L guess = Some f0
    /\ (Nat.even (ndiff f0 target) = true -> lat_fluxes_from_bonds L u = Some target)
    /\ (Nat.even (ndiff f0 target) = false ->
        exists f1, lat_fluxes_from_bonds L u = Some f1 /\ ndiff f1 target = 1).
Proof.
  intros L ps h pick nearest target guess Hwf Hnl Hf Hconn Hcost Hpick Hnear Htl Htpm Hgl Hgpm.
  destruct (lat_contract_generic _ fs_solver_contract_greedy_bonds L ps h pick nearest target guess
              (conj Hwf Hnl) Hf Hconn Hcost Hpick Hnear Htl Htpm Hgl Hgpm) as (u & Hrun & Hul & Hupm & He & Ho).
  exists u, (fs_fluxes_bonds (fsl_plaqs ps) guess).
  unfold lat_find_flux_sector, lat_fluxes_from_bonds. rewrite Hf. cbn [option_map].
  split; [now rewrite Hrun|]. split; [exact Hul|]. split; [exact Hupm|]. split; [reflexivity|]. split.
  - intros H. now rewrite (He H).
  - intros H. eexists. split; [reflexivity|exact (Ho H)].
Qed.

(* ------------------------------------------------------------------ 6. the connectivity hypothesis is decidable: fs_connected_b is sound *)
Lemma fold_left_inv : forall (A B : Type) (f : A -> B -> A) (I : A -> Prop) l a,
  I a -> (forall a b, In b l -> I a -> I (f a b)) -> I (fold_left f l a).
Proof.
  intros A B f I l. induction l as [|b l IH]; intros a Ha Hstep; simpl; [exact Ha|].
  apply IH; [apply Hstep; [now left|exact Ha]|]. intros a' b' Hb'. apply Hstep. now right.
Qed.

Lemma fs_two_sided_nbrs_sides : forall (ep : list ep_row) q x,
  In x (fs_two_sided_nbrs ep q) -> exists e, sides ep e q x.
Proof.
  intros ep q x Hin. unfold fs_two_sided_nbrs in Hin. apply in_flat_map in Hin.
  destruct Hin as ([[a|] [b|]] & Hr & Hx); try contradiction.
  destruct (In_nth _ _ (None, None) Hr) as (e & _ & He). exists e.
  apply in_app_or in Hx. destruct Hx as [Hx|Hx].
  - destruct (Nat.eqb_spec a q) as [->|]; [|contradiction]. destruct Hx as [<-|[]].
    left. unfold two_sided, ep_at. unfold ep_row in *. now rewrite He.
  - destruct (Nat.eqb_spec b q) as [->|]; [|contradiction]. destruct Hx as [<-|[]].
    right. unfold two_sided, ep_at. unfold ep_row in *. now rewrite He.
Qed.

Lemma fs_expand_sound : forall (ep : list ep_row) seen,
  (forall x, In x seen -> gconn ep 0 x) -> forall x, In x (fs_expand ep seen) -> gconn ep 0 x.
Proof.
  intros ep seen Hseen. unfold fs_expand.
  apply (fold_left_inv _ _ _ (fun acc => forall x, In x acc -> gconn ep 0 x)); [exact Hseen|].
  intros acc q Hq Hacc.
  apply (fold_left_inv _ _ _ (fun acc => forall x, In x acc -> gconn ep 0 x)); [exact Hacc|].
  intros acc' y Hy Hacc'. destruct (fs_mem y acc'); [exact Hacc'|].
  intros x [<-|Hx]; [|now apply Hacc'].
  destruct (fs_two_sided_nbrs_sides ep q y Hy) as [e Hs].
  eapply gconn_step; [apply Hseen; exact Hq|exact Hs].
Qed.

Lemma fs_reach_sound : forall (ep : list ep_row) fuel seen,
  (forall x, In x seen -> gconn ep 0 x) -> forall x, In x (fs_reach ep fuel seen) -> gconn ep 0 x.
Proof.
  intros ep fuel. induction fuel as [|f IH]; intros seen Hseen; simpl; [exact Hseen|].
  apply IH. now apply fs_expand_sound.
Qed.

Lemma fs_connected_b_sound : forall (ep : list ep_row) F,
  fs_connected_b ep F = true -> plaquette_graph_connected ep F.
Proof.
  intros ep [|F] H q Hq; [lia|]. unfold fs_connected_b in H. rewrite forallb_forall in H.
  specialize (H q ltac:(apply in_seq; lia)). apply fs_mem_In in H.
  apply (fs_reach_sound ep (S F) [0]); [|exact H]. intros x [<-|[]]. constructor.
Qed.

(* ------------------------------------------------------------------ 7. A* decides reachability (no global connectivity needed) *)
(* a chain accepted by the checker is a walk in the plaquette graph *)
Lemma chain_ok_gconn : forall (ep : list ep_row) ns es, as_chain_ok (as_joined ep) ns es = true ->
  forall d, gconn ep (last ns d) (hd d ns).
Proof.
  intros ep. induction ns as [|a ns IH]; intros es H d; simpl in H; [discriminate|].
  destruct ns as [|b r].
  - simpl. constructor.
  - destruct es as [|e es']; [discriminate|]. apply andb_prop in H as [Hj Hc].
    specialize (IH es' Hc d). change (last (a :: b :: r) d) with (last (b :: r) d). cbn [hd] in *.
    eapply gconn_step; [exact IH|].
    apply as_joined_spec in Hj. destruct Hj as (x & y & E & Hxy).
    destruct Hxy as [[-> ->]|[-> ->]]; [right|left]; unfold two_sided, ep_at; now rewrite E.
Qed.

(* A* with budget n_edges DECIDES reachability in the plaquette graph: for distinct plaquettes a, b it returns a path
   (and then a valid simple chain) exactly when b can be reached from a through two-sided edges; global connectivity is
   not needed *)
Lemma fsl_path_iff_reachable : forall ps (ep : list ep_row) h,
  tables_agree ep (map p_edges ps) -> fsl_cost_ok (fsl_adj ps ep) h ->
  forall a b, a <> b ->
    (gconn ep a b <-> fs_path_ok ep a b (fsl_path ps ep h (length ep) a b) = true)
    /\ (fsl_path ps ep h (length ep) a b <> None <-> gconn ep a b).
Proof.
  intros ps ep h Hag (Hh & Hcons & Hhg) a b Hab.
  assert (Hadj : forall x y e, In (y, e) (fsl_adj ps ep x) -> as_joined ep e y x = true)
    by (intros x y e Hin; apply (fsl_adj_joined ps ep Hag x y e Hin)).
  assert (Hfwd : gconn ep a b -> fs_path_ok ep a b (fsl_path ps ep h (length ep) a b) = true).
  { intros Hc. rewrite fsl_path_is_oracle.
    assert (G1 : forall x y e, In (y, e) (fsl_adj ps ep x) -> e < length ep).
    { intros x y e Hin. apply (as_joined_sides ep e y x 0 (Hadj x y e Hin)). }
    assert (G2 : forall x y e x' y', In (y, e) (fsl_adj ps ep x) -> In (y', e) (fsl_adj ps ep x') -> (x = x' /\ y = y') \/ (x = y' /\ y = x')).
    { intros x y e x' y' H1 H2. pose proof (Hadj _ _ _ H1) as J1. pose proof (Hadj _ _ _ H2) as J2.
      apply as_joined_spec in J1, J2. destruct J1 as (u & v & E1 & J1). destruct J2 as (u' & v' & E2 & J2).
      rewrite E1 in E2. injection E2 as <- <-. lia. }
    destruct (gconn_chain ps ep Hag a b Hc) as (ws & es & Hch & Hhd & Hlast).
    destruct (as_path_budget (fsl_adj ps ep) h a b (length ep) true Hh (Hcons b) (fun n => Hhg n b) (not_eq_sym Hab) G1 G2
                (ex_intro _ ws (ex_intro _ es (conj Hch (conj Hhd (Hlast b))))) (length ep) (le_n _)) as (ns & es' & mg & Hrun & _).
    unfold as_oracle. rewrite Hrun.
    apply (as_path_meets_contract (fsl_adj ps ep) h ep a b true (length ep) ns es' mg Hh); [|exact Hrun].
    intros x e y Hin. apply Hadj. exact Hin. }
  assert (Hsound : forall r, fsl_path ps ep h (length ep) a b = Some r -> fs_path_ok ep a b (Some r) = true).
  { intros [ns es] Hr. unfold fsl_path in Hr.
    destruct (as_path (fsl_adj ps ep) h a b true (length ep)) as [ns' es' mg| |] eqn:Hrun; try discriminate.
    injection Hr as <- <-.
    apply (as_path_meets_contract (fsl_adj ps ep) h ep a b true (length ep) ns' es' mg Hh); [|exact Hrun].
    intros x e y Hin. apply Hadj. exact Hin. }
  assert (Hback : forall r, fs_path_ok ep a b (Some r) = true -> gconn ep a b).
  { intros [ns es] Hok. simpl in Hok. unfold as_valid_path in Hok. destruct ns as [|g ns']; [discriminate|].
    apply andb_prop in Hok as [Hok _]. apply andb_prop in Hok as [Hok Hch]. apply andb_prop in Hok as [Hg Hs].
    apply Nat.eqb_eq in Hg, Hs. pose proof (chain_ok_gconn ep _ _ Hch g) as Hc. rewrite Hs in Hc. simpl in Hc. now subst g. }
  split; split.
  - exact Hfwd.
  - intros Hok. destruct (fsl_path ps ep h (length ep) a b) as [r|]; [now apply (Hback r)|discriminate].
  - intros Hne. destruct (fsl_path ps ep h (length ep) a b) as [r|] eqn:E; [|congruence].
    apply (Hback r). now apply Hsound.
  - intros Hc. specialize (Hfwd Hc). destruct (fsl_path ps ep h (length ep) a b); [discriminate|discriminate].
Qed.
