(* Proofs/PeriodicBlock.v — C10 polygons_all_sizes, edge numbering of the hand-indexed generators
   (honeycomb_lattice, hex_square_oct_lattice, square_lattice): the first kint base edges are stored cell by cell
   (edge kint*c + e), every further base edge e in one block per edge (edge e*N + c), where c is the cell
   tr (eo e) n that the generator's index arithmetic attaches the copy to (the tail cell n for most edges, the
   head cell for those written as (next_direction(c), c)).  This numbering is a bijection (lemmas b_eid_lt, b_eid_inj, b_dec), and a face
   that uses every base edge at most once never meets an edge twice (twalk_edges_distinct). *)
From Coq Require Import List ZArith Bool Arith Lia ZifyBool Permutation.
From Koala Require Import Model.Lattice Proofs.LatticeFacts Proofs.PeriodicRot Proofs.PeriodicFaces.
Import ListNotations.
Open Scope nat_scope.

Section Block.
  Variables N kint ne : nat.
  Variable eo : nat -> vec.
  Variable tr : vec -> nat -> nat.
  Hypothesis Hk : kint <= ne.
  Hypothesis Htr_lt : forall a n, n < N -> tr a n < N.
  Hypothesis Htr0 : forall n, n < N -> tr vzero n = n.
  Hypothesis Htr_add : forall a b n, n < N -> tr a (tr b n) = tr (vadd a b) n.

  Definition b_eid (n e : nat) : nat :=
    if e <? kint then kint * tr (eo e) n + e else e * N + tr (eo e) n.
  Definition b_ebase (x : nat) : nat := if x <? kint * N then x mod kint else x / N.
  Definition b_ecell (x : nat) : nat :=
    if x <? kint * N then tr (vneg (eo (x mod kint))) (x / kint) else tr (vneg (eo (x / N))) (x mod N).

  Lemma tr_back a n : n < N -> tr (vneg a) (tr a n) = n /\ tr a (tr (vneg a) n) = n.
  Proof. intros Hn. rewrite !Htr_add, vadd_vneg_l, vadd_vneg_r by exact Hn. split; apply Htr0, Hn. Qed.

  Lemma b_eid_lt n e : n < N -> e < ne -> b_eid n e < ne * N.
  Proof.
    intros Hn He. unfold b_eid. pose proof (Htr_lt (eo e) n Hn) as Ht.
    destruct (Nat.ltb_spec e kint); nia.
  Qed.

  Lemma b_eid_dec n e : n < N -> e < ne -> b_ebase (b_eid n e) = e /\ b_ecell (b_eid n e) = n.
  Proof.
    intros Hn He. unfold b_eid, b_ebase, b_ecell. pose proof (Htr_lt (eo e) n Hn) as Ht.
    destruct (Nat.ltb_spec e kint) as [Hlt|Hge].
    - assert (X : kint * tr (eo e) n + e < kint * N) by nia.
      destruct (Nat.ltb_spec (kint * tr (eo e) n + e) (kint * N)); [|lia].
      assert (E1 : (kint * tr (eo e) n + e) mod kint = e).
      { rewrite Nat.add_comm, Nat.mul_comm, Nat.mod_add by lia. apply Nat.mod_small, Hlt. }
      assert (E2 : (kint * tr (eo e) n + e) / kint = tr (eo e) n).
      { rewrite Nat.add_comm, Nat.mul_comm, Nat.div_add by lia. rewrite Nat.div_small by exact Hlt. reflexivity. }
      rewrite E1, E2. split; [reflexivity|apply tr_back, Hn].
    - assert (X : kint * N <= e * N + tr (eo e) n) by nia.
      destruct (Nat.ltb_spec (e * N + tr (eo e) n) (kint * N)); [lia|].
      assert (HN : N <> 0) by lia.
      assert (E1 : (e * N + tr (eo e) n) / N = e).
      { rewrite Nat.add_comm, Nat.div_add by exact HN. rewrite Nat.div_small by exact Ht. reflexivity. }
      assert (E2 : (e * N + tr (eo e) n) mod N = tr (eo e) n).
      { rewrite Nat.add_comm, Nat.mod_add by exact HN. apply Nat.mod_small, Ht. }
      rewrite E1, E2. split; [reflexivity|apply tr_back, Hn].
  Qed.

  Lemma b_eid_inj n e n' e' : n < N -> e < ne -> n' < N -> e' < ne -> b_eid n e = b_eid n' e' -> n = n' /\ e = e'.
  Proof.
    intros Hn He Hn' He' Eq. destruct (b_eid_dec n e Hn He) as [A1 A2]. destruct (b_eid_dec n' e' Hn' He') as [B1 B2].
    rewrite Eq in A1, A2. split; congruence.
  Qed.

  Lemma b_dec x : x < ne * N -> b_ecell x < N /\ b_ebase x < ne /\ b_eid (b_ecell x) (b_ebase x) = x.
  Proof.
    intros Hx. unfold b_ecell, b_ebase. destruct (Nat.ltb_spec x (kint * N)) as [Hlt|Hge].
    - assert (Hk0 : kint <> 0) by (intro Z0; rewrite Z0 in Hlt; lia).
      assert (Hc : x / kint < N) by (apply Nat.div_lt_upper_bound; [exact Hk0|lia]).
      pose proof (Nat.mod_upper_bound x kint Hk0) as Hm.
      split; [apply Htr_lt, Hc|]. split; [lia|]. unfold b_eid.
      destruct (Nat.ltb_spec (x mod kint) kint); [|lia].
      destruct (tr_back (eo (x mod kint)) (x / kint) Hc) as [_ ->]. pose proof (Nat.div_mod x kint Hk0). lia.
    - assert (HN : N <> 0) by (intro Z0; rewrite Z0 in Hx; lia).
      assert (Hc : x mod N < N) by (apply Nat.mod_upper_bound, HN).
      assert (He : x / N < ne) by (apply Nat.div_lt_upper_bound; [exact HN|lia]).
      assert (Hge' : kint <= x / N) by (apply Nat.div_le_lower_bound; [exact HN|lia]).
      split; [apply Htr_lt, Hc|]. split; [exact He|]. unfold b_eid.
      destruct (Nat.ltb_spec (x / N) kint); [lia|].
      destruct (tr_back (eo (x / N)) (x mod N) Hc) as [_ ->]. pose proof (Nat.div_mod x N HN). lia.
  Qed.
End Block.

(* a face that uses each base edge at most once never meets an edge of L twice *)
Lemma twalk_edges_distinct (L : lattice) (bc : nat -> vec) (tr : vec -> nat -> nat) (eid : nat -> nat -> nat)
      (ebase : nat -> nat) (N ne : nat) :
  (forall a n, n < N -> tr a n < N) ->
  (forall n e, n < N -> e < ne -> ebase (eid n e) = e) ->
  forall f, (forall d, In d f -> fst d < ne) -> NoDup (map fst f) ->
  forall t, t < N -> NoDup (walk_edges (twalk L bc tr eid t f)).
Proof.
  intros Htr Hb f. induction f as [|d r IH]; intros He Hnd t Ht; [constructor|].
  assert (M : forall r0 t0, t0 < N -> (forall d0, In d0 r0 -> fst d0 < ne) ->
              map ebase (walk_edges (twalk L bc tr eid t0 r0)) = map fst r0).
  { induction r0 as [|d0 r0 IH0]; intros t0 Ht0 He0; [reflexivity|]. cbn [twalk walk_edges map]. f_equal.
    - unfold mkstep, ecl. cbn [fst snd]. apply Hb; [destruct (snd d0); [exact Ht0|apply Htr, Ht0]|apply He0; left; reflexivity].
    - apply IH0; [apply Htr, Ht0|intros x Hx; apply He0; right; exact Hx]. }
  apply (NoDup_map_inv ebase). rewrite M; assumption.
Qed.
