(* Proofs/SurgeryTrailing.v — sub-lattices compose; remove_trailing_edges terminates within its fuel
   and returns the sub-lattice on the greatest edge set without degree-one vertices.  (C12) *)
From Coq Require Import List ZArith Bool Arith Lia ZifyBool Permutation Sorted.
From Koala Require Import Model.Lattice Model.Surgery Proofs.SurgeryFacts.
Import ListNotations.
Open Scope nat_scope.

(* ------------------------------------------------------------------ rank / nth *)
Lemma rank_lt kv v : In v kv -> rank kv v < length kv.
Proof.
  induction kv as [|x kv IH]; intro H; [destruct H|].
  cbn [rank length]. destruct (Nat.eqb_spec x v) as [E|NE]; [lia|].
  destruct H as [H|H]; [contradiction|]. specialize (IH H). lia.
Qed.

Lemma nth_rank kv v : In v kv -> nth (rank kv v) kv 0 = v.
Proof.
  induction kv as [|x kv IH]; intro H; [destruct H|].
  cbn [rank]. destruct (Nat.eqb_spec x v) as [E|NE]; [exact E|].
  destruct H as [H|H]; [contradiction|]. cbn [nth]. apply IH. exact H.
Qed.

Lemma rank_nth kv : NoDup kv -> forall i, i < length kv -> rank kv (nth i kv 0) = i.
Proof.
  induction 1 as [|x kv Hx Hnd IH]; intros i Hi; [simpl in Hi; lia|].
  destruct i as [|i]; cbn [nth rank].
  - rewrite Nat.eqb_refl. reflexivity.
  - cbn [length] in Hi. destruct (Nat.eqb_spec x (nth i kv 0)) as [E|NE].
    + exfalso. apply Hx. rewrite E. apply nth_In. lia.
    + rewrite IH by lia. reflexivity.
Qed.

Lemma rank_map_inj (f : nat -> nat) (l : list nat) (a : nat) :
  (forall x, In x l -> f x = f a -> x = a) -> rank (map f l) (f a) = rank l a.
Proof.
  induction l as [|x l IH]; intro Hinj; [reflexivity|].
  cbn [map rank].
  destruct (Nat.eqb_spec (f x) (f a)) as [E|NE].
  - rewrite (Hinj x (or_introl eq_refl) E), Nat.eqb_refl. reflexivity.
  - destruct (Nat.eqb_spec x a) as [E2|NE2]; [subst; contradiction|].
    rewrite IH; [reflexivity|]. intros y Hy. apply Hinj. right. exact Hy.
Qed.

Lemma rank_seq n v : v < n -> forall a, rank (seq a n) (a + v) = v.
Proof.
  revert v. induction n as [|n IH]; intros v Hv a; [lia|].
  cbn [seq rank]. destruct v as [|v].
  - rewrite Nat.add_0_r, Nat.eqb_refl. reflexivity.
  - destruct (Nat.eqb_spec a (a + S v)) as [E|NE]; [lia|].
    replace (a + S v) with (S a + v) by lia. rewrite IH by lia. reflexivity.
Qed.

Lemma NoDup_nth_inj (l : list nat) i j : NoDup l -> i < length l -> j < length l ->
  nth i l 0 = nth j l 0 -> i = j.
Proof. intros Hnd Hi Hj E. apply (proj1 (NoDup_nth l 0) Hnd i j Hi Hj E). Qed.

(* ------------------------------------------------------------------ valid sub-lattice data *)
Definition valid_sub (L : lattice) (kv ke : list nat) : Prop :=
  NoDup kv /\ NoDup ke /\ (forall v, In v kv -> v < nV L) /\
  (forall e, In e ke -> e < nE L /\ In (fst (edge_at L e)) kv /\ In (snd (edge_at L e)) kv).

Lemma nV_sub L kv ke : nV (sub_lattice L kv ke) = length kv.
Proof. unfold nV, sub_lattice. simpl. apply map_length. Qed.
Lemma nE_sub L kv ke : nE (sub_lattice L kv ke) = length ke.
Proof. unfold nE, sub_lattice. simpl. apply map_length. Qed.

Lemma edge_at_sub L kv ke i : i < length ke ->
  edge_at (sub_lattice L kv ke) i
  = (rank kv (fst (edge_at L (nth i ke 0))), rank kv (snd (edge_at L (nth i ke 0)))).
Proof.
  intro H. unfold edge_at at 1. unfold sub_lattice. cbn [edges].
  set (f := fun e => (rank kv (fst (edge_at L e)), rank kv (snd (edge_at L e)))).
  rewrite (nth_indep _ _ (f 0)) by (rewrite map_length; exact H).
  rewrite map_nth. reflexivity.
Qed.

Lemma cross_at_sub L kv ke i : i < length ke ->
  cross_at (sub_lattice L kv ke) i = cross_at L (nth i ke 0).
Proof.
  intro H. unfold cross_at at 1. unfold sub_lattice. cbn [crossing].
  rewrite (nth_indep _ _ (cross_at L 0)) by (rewrite map_length; exact H).
  apply map_nth.
Qed.

Lemma pos_at_sub L kv ke i : i < length kv ->
  pos_at (sub_lattice L kv ke) i = pos_at L (nth i kv 0).
Proof.
  intro H. unfold pos_at at 1. unfold sub_lattice. cbn [pos].
  rewrite (nth_indep _ _ (pos_at L 0)) by (rewrite map_length; exact H).
  apply map_nth.
Qed.

(* surviving edges keep their vectors *)
Lemma evec_sub L kv ke i : valid_sub L kv ke -> i < length ke ->
  evec (sub_lattice L kv ke) i = evec L (nth i ke 0).
Proof.
  intros (Hnv & Hne & Hv & He) Hi. unfold evec.
  rewrite edge_at_sub, cross_at_sub by exact Hi.
  destruct (He (nth i ke 0) (nth_In _ _ Hi)) as (_ & Hj & Hk).
  destruct (edge_at L (nth i ke 0)) as [j k] eqn:E. cbn [fst snd] in *.
  rewrite !pos_at_sub by (apply rank_lt; assumption).
  rewrite !nth_rank by assumption. reflexivity.
Qed.

Lemma wf_sub L kv ke : wf_lattice L = true -> valid_sub L kv ke ->
  wf_lattice (sub_lattice L kv ke) = true.
Proof.
  intros Hwf (Hnv & Hne & Hv & He).
  destruct (wf_parts L Hwf) as (Hs & _ & _).
  unfold wf_lattice. rewrite !andb_true_iff. repeat split.
  - cbn [sub_lattice scale]. lia.
  - rewrite nE_sub. unfold sub_lattice. cbn [crossing]. rewrite map_length. apply Nat.eqb_refl.
  - apply forallb_forall. intros e Hin. unfold sub_lattice in Hin. cbn [edges] in Hin.
    apply in_map_iff in Hin. destruct Hin as (e0 & <- & He0).
    destruct (He e0 He0) as (_ & Hj & Hk).
    unfold wf_edge. cbn [fst snd]. rewrite nV_sub.
    apply rank_lt in Hj. apply rank_lt in Hk. lia.
Qed.

Lemma valid_sub_id L : wf_lattice L = true -> valid_sub L (seq 0 (nV L)) (seq 0 (nE L)).
Proof.
  intro Hwf. repeat split.
  - apply seq_NoDup.
  - apply seq_NoDup.
  - intros v Hv. apply in_seq in Hv. lia.
  - apply in_seq in H. lia.
  - apply in_seq in H. apply in_seq. destruct (wf_edge_at L e Hwf) as [Hj _]; lia.
  - apply in_seq in H. apply in_seq. destruct (wf_edge_at L e Hwf) as [_ Hk]; lia.
Qed.

Lemma sub_lattice_id L : wf_lattice L = true -> sub_lattice L (seq 0 (nV L)) (seq 0 (nE L)) = L.
Proof.
  intro Hwf. destruct (wf_parts L Hwf) as (_ & Hc & _).
  unfold sub_lattice.
  assert (Hp : map (pos_at L) (seq 0 (nV L)) = pos L) by apply map_nth_seq.
  assert (Hcr : map (cross_at L) (seq 0 (nE L)) = crossing L).
  { rewrite <- Hc. apply map_nth_seq. }
  assert (He : map (fun e => (rank (seq 0 (nV L)) (fst (edge_at L e)), rank (seq 0 (nV L)) (snd (edge_at L e)))) (seq 0 (nE L)) = edges L).
  { transitivity (map (edge_at L) (seq 0 (nE L))); [|apply map_nth_seq].
    apply map_ext_in. intros e Hin. apply in_seq in Hin.
    destruct (wf_edge_at L e Hwf) as [Hj Hk]; [lia|].
    pose proof (rank_seq (nV L) _ Hj 0) as R1. pose proof (rank_seq (nV L) _ Hk 0) as R2.
    cbn [Nat.add] in R1, R2. rewrite R1, R2. destruct (edge_at L e); reflexivity. }
  rewrite Hp, Hcr, He. destruct L; reflexivity.
Qed.

(* ------------------------------------------------------------------ composition *)
Definition through (kv : list nat) (l : list nat) : list nat := map (fun i => nth i kv 0) l.

Lemma through_NoDup kv l : NoDup kv -> NoDup l -> (forall i, In i l -> i < length kv) -> NoDup (through kv l).
Proof.
  intros Hkv Hl Hb. unfold through.
  induction Hl as [|x l Hx Hl IH]; [constructor|].
  cbn [map]. constructor.
  - intro Hin. apply in_map_iff in Hin. destruct Hin as (y & E & Hy).
    assert (y = x).
    { apply (NoDup_nth_inj kv); auto. - apply Hb; right; exact Hy. - apply Hb; left; reflexivity. }
    subst. contradiction.
  - apply IH. intros i Hi. apply Hb. right. exact Hi.
Qed.

Lemma through_In kv l x : In x (through kv l) <-> exists i, In i l /\ nth i kv 0 = x.
Proof.
  unfold through. rewrite in_map_iff. split; intros (i & A & B); exists i; auto.
Qed.

Lemma sub_sub L kv ke kv' ke' :
  valid_sub L kv ke -> valid_sub (sub_lattice L kv ke) kv' ke' ->
  sub_lattice (sub_lattice L kv ke) kv' ke' = sub_lattice L (through kv kv') (through ke ke')
  /\ valid_sub L (through kv kv') (through ke ke').
Proof.
  intros (Hnv & Hne & Hv & He) (Hnv' & Hne' & Hv' & He').
  rewrite nV_sub in Hv'. rewrite nE_sub in He'.
  assert (Hke'lt : forall i, In i ke' -> i < length ke) by (intros i Hi; apply (He' i Hi)).
  split.
  - assert (Hp : map (pos_at (sub_lattice L kv ke)) kv' = map (pos_at L) (through kv kv')).
    { unfold through. rewrite map_map. apply map_ext_in. intros i Hi. apply pos_at_sub. auto. }
    assert (Hc : map (cross_at (sub_lattice L kv ke)) ke' = map (cross_at L) (through ke ke')).
    { unfold through. rewrite map_map. apply map_ext_in. intros i Hi. apply cross_at_sub. auto. }
    assert (Hrk : forall w, In w kv -> rank kv' (rank kv w) = rank (through kv kv') w).
    { intros w Hw. symmetry.
      transitivity (rank (map (fun i0 => nth i0 kv 0) kv') (nth (rank kv w) kv 0)).
      { rewrite nth_rank by exact Hw. reflexivity. }
      apply (rank_map_inj (fun i0 => nth i0 kv 0)).
      intros x Hx E. apply (NoDup_nth_inj kv); auto. apply rank_lt; exact Hw. }
    assert (Hee : map (fun e => (rank kv' (fst (edge_at (sub_lattice L kv ke) e)), rank kv' (snd (edge_at (sub_lattice L kv ke) e)))) ke'
                  = map (fun e => (rank (through kv kv') (fst (edge_at L e)), rank (through kv kv') (snd (edge_at L e)))) (through ke ke')).
    { unfold through at 3. rewrite map_map. apply map_ext_in. intros i Hi.
      destruct (He' i Hi) as (Hilt & _ & _).
      rewrite edge_at_sub by exact Hilt. cbn [fst snd].
      destruct (He (nth i ke 0) (nth_In _ _ Hilt)) as (_ & Hj & Hk).
      rewrite (Hrk _ Hj), (Hrk _ Hk). reflexivity. }
    change (sub_lattice (sub_lattice L kv ke) kv' ke')
      with (mkLattice (scale L) (map (pos_at (sub_lattice L kv ke)) kv')
              (map (fun e => (rank kv' (fst (edge_at (sub_lattice L kv ke) e)), rank kv' (snd (edge_at (sub_lattice L kv ke) e)))) ke')
              (map (cross_at (sub_lattice L kv ke)) ke')).
    rewrite Hp, Hc, Hee. reflexivity.
  - repeat split.
    + apply through_NoDup; assumption.
    + apply through_NoDup; assumption.
    + intros v Hin. apply through_In in Hin. destruct Hin as (i & Hi & <-). apply Hv. apply nth_In. auto.
    + apply through_In in H. destruct H as (i & Hi & <-). apply (He (nth i ke 0)). apply nth_In. auto.
    + apply through_In in H. destruct H as (i & Hi & <-).
      destruct (He' i Hi) as (Hilt & Hj' & _). rewrite edge_at_sub in Hj' by exact Hilt. cbn [fst] in Hj'.
      destruct (He (nth i ke 0) (nth_In _ _ Hilt)) as (_ & Hj & _).
      apply through_In. exists (rank kv (fst (edge_at L (nth i ke 0)))). split; [exact Hj'|].
      apply nth_rank. exact Hj.
    + apply through_In in H. destruct H as (i & Hi & <-).
      destruct (He' i Hi) as (Hilt & _ & Hk'). rewrite edge_at_sub in Hk' by exact Hilt. cbn [snd] in Hk'.
      destruct (He (nth i ke 0) (nth_In _ _ Hilt)) as (_ & _ & Hk).
      apply through_In. exists (rank kv (snd (edge_at L (nth i ke 0)))). split; [exact Hk'|].
      apply nth_rank. exact Hk.
Qed.

(* the data produced by remove_vertices is valid *)
Lemma filter_seq_NoDup (p : nat -> bool) a n : NoDup (filter p (seq a n)).
Proof. apply NoDup_filter. apply seq_NoDup. Qed.

Lemma valid_sub_removed L idx : wf_lattice L = true ->
  valid_sub L (kept_vertices L idx) (kept_edges L idx).
Proof.
  intro Hwf. rewrite kept_vertices_eq, kept_edges_eq. repeat split.
  - apply filter_seq_NoDup.
  - apply filter_seq_NoDup.
  - intros v Hv. apply filter_seq_lt in Hv. lia.
  - apply filter_seq_lt in H. lia.
  - apply filter_In in H. destruct H as [Hs Hb]. apply in_seq in Hs.
    unfold both_ends in Hb. apply andb_true_iff in Hb.
    apply filter_In. split; [|apply Hb]. apply in_seq. destruct (wf_edge_at L e Hwf); lia.
  - apply filter_In in H. destruct H as [Hs Hb]. apply in_seq in Hs.
    unfold both_ends in Hb. apply andb_true_iff in Hb.
    apply filter_In. split; [|apply Hb]. apply in_seq. destruct (wf_edge_at L e Hwf); lia.
Qed.

(* ------------------------------------------------------------------ sortedness (order is kept) *)
Lemma filter_seq_sorted (p : nat -> bool) n : forall a, StronglySorted lt (filter p (seq a n)).
Proof.
  induction n as [|n IH]; intro a; [constructor|].
  cbn [seq filter]. destruct (p a); [|apply IH].
  constructor; [apply IH|]. apply Forall_forall. intros x Hx. apply filter_seq_lt in Hx. lia.
Qed.

Lemma seq_sorted n : forall a, StronglySorted lt (seq a n).
Proof.
  induction n as [|n IH]; intro a; [constructor|].
  cbn [seq]. constructor; [apply IH|]. apply Forall_forall. intros x Hx. apply in_seq in Hx. lia.
Qed.

Lemma nth_sorted_mono (kv : list nat) : StronglySorted lt kv ->
  forall i j, i < j -> j < length kv -> nth i kv 0 < nth j kv 0.
Proof.
  induction 1 as [|x kv Hs IH Hall]; intros i j Hij Hj; [simpl in Hj; lia|].
  destruct j as [|j]; [lia|]. cbn [length] in Hj. destruct i as [|i]; cbn [nth].
  - rewrite Forall_forall in Hall. apply Hall. apply nth_In. lia.
  - apply IH; lia.
Qed.

Lemma through_sorted kv l : StronglySorted lt kv -> StronglySorted lt l ->
  (forall i, In i l -> i < length kv) -> StronglySorted lt (through kv l).
Proof.
  intros Hkv Hl Hb. unfold through. induction Hl as [|x l Hs IH Hall]; [constructor|].
  cbn [map]. constructor.
  - apply IH. intros i Hi. apply Hb. right. exact Hi.
  - apply Forall_forall. intros y Hy. apply in_map_iff in Hy. destruct Hy as (i & <- & Hi).
    rewrite Forall_forall in Hall. apply nth_sorted_mono; auto. apply Hb. right. exact Hi.
Qed.

(* ------------------------------------------------------------------ degrees *)
Lemma insert_desc_length key x l : length (insert_desc key x l) = S (length l).
Proof.
  induction l as [|y l IH]; [reflexivity|]. cbn [insert_desc].
  destruct (ang_lt (key y) (key x)); cbn [length]; [reflexivity | rewrite IH; reflexivity].
Qed.

Lemma sort_desc_length key l : length (sort_desc key l) = length l.
Proof.
  unfold sort_desc.
  assert (H : forall acc, length (fold_left (fun acc x => insert_desc key x acc) l acc) = length l + length acc).
  { induction l as [|x l IH]; intro acc; [reflexivity|].
    cbn [fold_left]. rewrite IH, insert_desc_length. cbn [length]. lia. }
  rewrite H. simpl. lia.
Qed.

(* len(adjacent_edges[v]) = number of incident edges *)
Lemma number_of_connections_eq L v : number_of_connections L v = length (incident L v).
Proof. unfold number_of_connections, sorted_adj. apply sort_desc_length. Qed.

Lemma incident_b_sub L kv ke v' e' : valid_sub L kv ke -> v' < length kv -> e' < length ke ->
  incident_b (sub_lattice L kv ke) v' e' = incident_b L (nth v' kv 0) (nth e' ke 0).
Proof.
  intros (Hnv & Hne & Hv & He) Hv' He'. unfold incident_b.
  rewrite edge_at_sub by exact He'.
  destruct (He (nth e' ke 0) (nth_In _ _ He')) as (_ & Hj & Hk).
  destruct (edge_at L (nth e' ke 0)) as [j k]. cbn [fst snd] in *.
  assert (R : forall w, In w kv -> (rank kv w =? v') = (w =? nth v' kv 0)).
  { intros w Hw. destruct (Nat.eqb_spec w (nth v' kv 0)) as [E|NE].
    - subst w. rewrite rank_nth by assumption. apply Nat.eqb_refl.
    - apply Nat.eqb_neq. intro E. apply NE. rewrite <- E. symmetry. apply nth_rank. exact Hw. }
  rewrite (R j Hj), (R k Hk). reflexivity.
Qed.

Lemma length_one_all_eq (l : list nat) (e : nat) :
  NoDup l -> In e l -> (forall x, In x l -> x = e) -> length l = 1.
Proof.
  intros Hnd Hin Hall. destruct l as [|a l]; [destruct Hin|].
  destruct l as [|b l]; [reflexivity|]. exfalso.
  assert (a = e) by (apply Hall; left; reflexivity).
  assert (b = e) by (apply Hall; right; left; reflexivity).
  subst. inversion Hnd as [|? ? Hn _]. apply Hn. left. reflexivity.
Qed.

Lemma length_one_inv (l : list nat) : length l = 1 -> exists e, l = [e].
Proof. destruct l as [|a [|b l]]; simpl; intro H; try lia. exists a. reflexivity. Qed.

(* degree of a vertex of the sub-lattice = degree of the original vertex within the kept edge set *)
Lemma deg_sub L kv ke v' : valid_sub L kv ke -> v' < length kv ->
  length (incident (sub_lattice L kv ke) v') = deg_in L (fun e => memb e ke) (nth v' kv 0).
Proof.
  intros Hval Hv'. pose proof Hval as (Hnv & Hne & Hv & He).
  unfold incident, deg_in. rewrite nE_sub.
  (* both sides count the e' < length ke with incident_b L v (nth e' ke) *)
  transitivity (length (filter (fun e => incident_b L (nth v' kv 0) e) ke)).
  - rewrite <- (map_nth_filter_seq 0 (fun e => incident_b L (nth v' kv 0) e) ke), map_length.
    f_equal. apply filter_ext_in. intros e' Hin. apply in_seq in Hin.
    apply incident_b_sub; auto; lia.
  - apply Permutation_length. apply NoDup_Permutation.
    + apply NoDup_filter. exact Hne.
    + apply filter_seq_NoDup.
    + intro e. rewrite !filter_In, in_seq, andb_true_iff, memb_In. split.
      * intros (Hin & Hb). destruct (He e Hin) as (Hlt & _). repeat split; auto; lia.
      * intros (_ & Hin & Hb). auto.
Qed.

(* ------------------------------------------------------------------ the loop *)
Definition good_set (L : lattice) (K : nat -> bool) : Prop :=
  (forall e, K e = true -> e < nE L) /\ no_degree_one L K.

Lemma dangling_in_range L v : In v (dangling_vertices L) -> v < nV L.
Proof. unfold dangling_vertices. intro H. apply filter_seq_lt in H. lia. Qed.

Lemma dangling_spec L v : In v (dangling_vertices L) <-> v < nV L /\ length (incident L v) = 1.
Proof.
  unfold dangling_vertices. rewrite filter_In, in_seq, number_of_connections_eq, Nat.eqb_eq. lia.
Qed.

Lemma kept_vertices_shrinks L d v : In v d -> v < nV L -> length (kept_vertices L d) < nV L.
Proof.
  intros Hin Hv. rewrite kept_vertices_eq.
  pose proof (filter_length_compl (keepf d) (seq 0 (nV L))) as H. rewrite seq_length in H.
  assert (0 < length (filter (fun x => negb (keepf d x)) (seq 0 (nV L)))).
  { assert (Hm : In v (filter (fun x => negb (keepf d x)) (seq 0 (nV L)))).
    { apply filter_In. split; [apply in_seq; lia|]. unfold keepf. rewrite negb_involutive. apply memb_In. exact Hin. }
    destruct (filter (fun x => negb (keepf d x)) (seq 0 (nV L))); [destruct Hm | simpl; lia]. }
  lia.
Qed.

(* one round keeps every good edge set *)
Lemma round_keeps_good L0 kv ke K e :
  wf_lattice L0 = true -> valid_sub L0 kv ke -> good_set L0 K ->
  (forall x, K x = true -> In x ke) -> K e = true ->
  In e (through ke (kept_edges (sub_lattice L0 kv ke) (dangling_vertices (sub_lattice L0 kv ke)))).
Proof.
  intros Hwf Hval (Hrange & Hgood) Hsub HKe.
  pose proof Hval as (Hnv & Hne & Hv & He).
  set (Li := sub_lattice L0 kv ke) in *.
  set (d := dangling_vertices Li).
  pose proof (Hsub e HKe) as Hin.
  apply through_In. exists (rank ke e). split; [|apply nth_rank; exact Hin].
  pose proof (rank_lt ke e Hin) as Hr.
  rewrite kept_edges_eq. apply filter_In. split; [apply in_seq; unfold Li; rewrite nE_sub; lia|].
  (* neither end of the edge is dangling *)
  assert (Hend : forall v', v' < length kv -> incident_b Li v' (rank ke e) = true -> memb v' d = false).
  { intros v' Hv' Hinc. destruct (memb v' d) eqn:Hm; [|reflexivity]. exfalso.
    apply memb_In in Hm. apply dangling_spec in Hm. destruct Hm as [_ Hone].
    apply length_one_inv in Hone. destruct Hone as (e1 & He1).
    assert (Hin1 : forall x', x' < length ke -> incident_b Li v' x' = true -> x' = e1).
    { intros x' Hx' Hb. assert (Hi : In x' (incident Li v')).
      { unfold incident. apply filter_In. split; [apply in_seq; unfold Li; rewrite nE_sub; lia | exact Hb]. }
      rewrite He1 in Hi. destruct Hi as [<-|[]]. reflexivity. }
    pose proof (Hin1 _ Hr Hinc) as E1.
    apply (Hgood (nth v' kv 0)). unfold deg_in.
    apply (length_one_all_eq _ e).
    - apply filter_seq_NoDup.
    - apply filter_In. split; [apply in_seq; specialize (Hrange e HKe); lia|].
      rewrite HKe. cbn [andb]. unfold Li in Hinc. rewrite incident_b_sub in Hinc by assumption.
      rewrite nth_rank in Hinc by exact Hin. exact Hinc.
    - intros x Hx. apply filter_In in Hx. destruct Hx as [_ Hx]. apply andb_true_iff in Hx. destruct Hx as [HKx Hbx].
      pose proof (Hsub x HKx) as Hinx. pose proof (rank_lt ke x Hinx) as Hrx.
      assert (incident_b Li v' (rank ke x) = true) as Hix.
      { unfold Li. rewrite incident_b_sub by assumption. rewrite nth_rank by exact Hinx. exact Hbx. }
      pose proof (Hin1 _ Hrx Hix) as E2.
      rewrite <- (nth_rank ke x Hinx), <- (nth_rank ke e Hin). congruence. }
  unfold both_ends, keepf.
  unfold Li. rewrite edge_at_sub by exact Hr. cbn [fst snd]. rewrite nth_rank by exact Hin.
  destruct (He e Hin) as (_ & Hj & Hk).
  rewrite !Hend; [reflexivity| | | |].
  - apply rank_lt. exact Hk.
  - unfold incident_b, Li. rewrite edge_at_sub by exact Hr. rewrite nth_rank by exact Hin.
    cbn. rewrite Nat.eqb_refl. apply orb_true_r.
  - apply rank_lt. exact Hj.
  - unfold incident_b, Li. rewrite edge_at_sub by exact Hr. rewrite nth_rank by exact Hin.
    cbn. rewrite Nat.eqb_refl. reflexivity.
Qed.

Lemma incl_through_kept ke L d : forall x, In x (through ke (kept_edges L d)) -> nE L = length ke -> In x ke.
Proof.
  intros x Hx Hlen. apply through_In in Hx. destruct Hx as (i & Hi & <-).
  rewrite kept_edges_eq in Hi. apply filter_seq_lt in Hi. apply nth_In. lia.
Qed.

Lemma trailing_main (L0 : lattice) : wf_lattice L0 = true ->
  forall fuel kv ke, valid_sub L0 kv ke -> StronglySorted lt kv -> StronglySorted lt ke ->
  length kv < fuel ->
  exists kv' ke',
    trailing_ghost fuel (sub_lattice L0 kv ke) kv ke = Some (kv', ke') /\
    trailing_loop fuel (sub_lattice L0 kv ke) = TrailDone (sub_lattice L0 kv' ke') /\
    valid_sub L0 kv' ke' /\ StronglySorted lt kv' /\ StronglySorted lt ke' /\
    dangling_vertices (sub_lattice L0 kv' ke') = [] /\
    incl kv' kv /\ incl ke' ke /\
    (forall K, good_set L0 K -> (forall e, K e = true -> In e ke) -> forall e, K e = true -> In e ke').
Proof.
  intro Hwf. induction fuel as [|fuel IH]; intros kv ke Hval Hskv Hske Hfuel; [lia|].
  cbn [trailing_ghost trailing_loop].
  set (Li := sub_lattice L0 kv ke).
  destruct (dangling_vertices Li) as [|v0 d0] eqn:Hd.
  - exists kv, ke. split; [reflexivity|]. split; [reflexivity|]. split; [exact Hval|].
    split; [exact Hskv|]. split; [exact Hske|]. split; [exact Hd|].
    split; [apply incl_refl|]. split; [apply incl_refl|].
    intros K _ Hsub e HKe. apply Hsub. exact HKe.
  - set (d := v0 :: d0) in *.
    assert (Hwfi : wf_lattice Li = true) by (apply wf_sub; assumption).
    assert (Hdr : Forall (fun i => i < nV Li) d).
    { apply Forall_forall. intros i Hi. apply dangling_in_range. rewrite Hd. exact Hi. }
    destruct (remove_vertices_spec Li d Hwfi Hdr) as (rep & Hrem & _).
    rewrite Hrem.
    pose proof (valid_sub_removed Li d Hwfi) as Hval'.
    destruct (sub_sub L0 kv ke _ _ Hval Hval') as (Hcomp & Hval2).
    fold Li in Hcomp. rewrite Hcomp.
    assert (Hlen : length (through kv (kept_vertices Li d)) < fuel).
    { unfold through. rewrite map_length.
      assert (Hv0 : v0 < nV Li) by (apply dangling_in_range; rewrite Hd; left; reflexivity).
      pose proof (kept_vertices_shrinks Li d v0 (or_introl eq_refl) Hv0) as Hs.
      unfold Li in Hs at 2. rewrite nV_sub in Hs. lia. }
    assert (Hs1 : StronglySorted lt (through kv (kept_vertices Li d))).
    { apply through_sorted; [exact Hskv | rewrite kept_vertices_eq; apply filter_seq_sorted |].
      intros i Hi. rewrite kept_vertices_eq in Hi. apply filter_seq_lt in Hi. unfold Li in Hi. rewrite nV_sub in Hi. lia. }
    assert (Hs2 : StronglySorted lt (through ke (kept_edges Li d))).
    { apply through_sorted; [exact Hske | rewrite kept_edges_eq; apply filter_seq_sorted |].
      intros i Hi. rewrite kept_edges_eq in Hi. apply filter_seq_lt in Hi. unfold Li in Hi. rewrite nE_sub in Hi. lia. }
    destruct (IH _ _ Hval2 Hs1 Hs2 Hlen) as (kv' & ke' & G1 & G2 & G3 & G4 & G5 & G6 & G7 & G8 & G9).
    exists kv', ke'.
    split; [exact G1|]. split; [exact G2|]. split; [exact G3|]. split; [exact G4|]. split; [exact G5|].
    split; [exact G6|]. split; [|split].
    + intros x Hx. apply G7 in Hx. apply through_In in Hx. destruct Hx as (i & Hi & <-).
      rewrite kept_vertices_eq in Hi. apply filter_seq_lt in Hi. unfold Li in Hi. rewrite nV_sub in Hi.
      apply nth_In. lia.
    + intros x Hx. apply G8 in Hx. apply (incl_through_kept ke Li d x Hx). unfold Li. apply nE_sub.
    + intros K HK Hsub e HKe. apply (G9 K HK); [|exact HKe].
      intros x HKx. rewrite <- Hd. apply (round_keeps_good L0 kv ke K x); auto.
Qed.

(* ---- final statement ---- *)
Lemma no_dangling_no_degree_one L : dangling_vertices L = [] -> wf_lattice L = true ->
  forall v, length (incident L v) <> 1.
Proof.
  intros Hd Hwf v Hone.
  destruct (Nat.lt_ge_cases v (nV L)) as [Hlt|Hge].
  - assert (In v (dangling_vertices L)) by (apply dangling_spec; auto). rewrite Hd in H. destruct H.
  - apply length_one_inv in Hone. destruct Hone as (e & He).
    assert (Hin : In e (incident L v)) by (rewrite He; left; reflexivity).
    unfold incident in Hin. apply filter_In in Hin. destruct Hin as [Hs Hb]. apply in_seq in Hs.
    destruct (wf_edge_at L e Hwf) as [Hj Hk]; [lia|].
    unfold incident_b in Hb. destruct (edge_at L e) as [j k]. cbn [fst snd] in *. lia.
Qed.

(* trailing_spec.  For every well-formed lattice: the loop ends within its fuel nV+1 (never OutOfFuel,
   never BadIndex); the result is the sub-lattice of the input on an ascending list kv of kept vertices and
   an ascending list ke of kept edges (so order, positions, crossings and vectors are kept); the result
   has no vertex with exactly one incident edge; within the input, the kept edge set itself has no
   degree-one vertex and contains EVERY edge set without degree-one vertices (it is the greatest one). *)
Lemma trailing_spec L : wf_lattice L = true ->
  exists kv ke,
    remove_trailing_edges L = TrailDone (sub_lattice L kv ke) /\
    trailing_survivors L = Some (kv, ke) /\
    valid_sub L kv ke /\ StronglySorted lt kv /\ StronglySorted lt ke /\
    (forall v, length (incident (sub_lattice L kv ke) v) <> 1) /\
    no_degree_one L (fun e => memb e ke) /\
    (forall K, good_set L K -> forall e, K e = true -> In e ke).
Proof.
  intro Hwf.
  pose proof (valid_sub_id L Hwf) as Hval.
  assert (Hs1 : StronglySorted lt (seq 0 (nV L))) by apply seq_sorted.
  assert (Hs2 : StronglySorted lt (seq 0 (nE L))) by apply seq_sorted.
  assert (Hf : length (seq 0 (nV L)) < S (nV L)) by (rewrite seq_length; lia).
  destruct (trailing_main L Hwf (S (nV L)) _ _ Hval Hs1 Hs2 Hf)
    as (kv & ke & G1 & G2 & G3 & G4 & G5 & G6 & _ & _ & G9).
  rewrite (sub_lattice_id L Hwf) in G1, G2.
  exists kv, ke. unfold remove_trailing_edges, trailing_survivors.
  split; [exact G2|]. split; [exact G1|]. split; [exact G3|]. split; [exact G4|]. split; [exact G5|].
  assert (Hnd : forall v, length (incident (sub_lattice L kv ke) v) <> 1).
  { apply no_dangling_no_degree_one; [exact G6 | apply wf_sub; assumption]. }
  split; [exact Hnd|]. split.
  - (* the kept edge set has no degree-one vertex in the input *)
    intros v Hone. pose proof G3 as (Hnv & Hne & Hv & He).
    destruct (in_dec Nat.eq_dec v kv) as [Hin|Hnin].
    + apply (Hnd (rank kv v)). rewrite deg_sub by (try exact G3; apply rank_lt; exact Hin).
      rewrite nth_rank by exact Hin. exact Hone.
    + (* a vertex that was removed touches no kept edge *)
      apply length_one_inv in Hone. destruct Hone as (e & E).
      assert (Hm : In e (filter (fun e0 => memb e0 ke && incident_b L v e0) (seq 0 (nE L)))) by (unfold deg_in in E; rewrite E; left; reflexivity).
      apply filter_In in Hm. destruct Hm as [_ Hm]. apply andb_true_iff in Hm. destruct Hm as [Hk Hi].
      apply memb_In in Hk. destruct (He e Hk) as (_ & Hj & Hk2).
      unfold incident_b in Hi. destruct (edge_at L e) as [j k]. cbn [fst snd] in *.
      apply orb_true_iff in Hi. destruct Hi as [Hi|Hi]; apply Nat.eqb_eq in Hi; subst; contradiction.
  - intros K HK e HKe. apply (G9 K HK); [|exact HKe].
    intros x Hx. apply in_seq. destruct HK as [Hr _]. specialize (Hr x Hx). lia.
Qed.

(* idempotence: a lattice without dangling vertices is returned unchanged *)
Lemma trailing_fixpoint L : dangling_vertices L = [] -> remove_trailing_edges L = TrailDone L.
Proof. intro H. unfold remove_trailing_edges. cbn [trailing_loop]. rewrite H. reflexivity. Qed.

Lemma trailing_idempotent L L' : wf_lattice L = true -> remove_trailing_edges L = TrailDone L' ->
  remove_trailing_edges L' = TrailDone L'.
Proof.
  intros Hwf H. destruct (trailing_spec L Hwf) as (kv & ke & G1 & _ & G3 & _ & _ & G6 & _).
  rewrite G1 in H. injection H as <-.
  apply trailing_fixpoint.
  destruct (dangling_vertices (sub_lattice L kv ke)) as [|v l] eqn:E; [reflexivity|].
  exfalso. assert (Hin : In v (dangling_vertices (sub_lattice L kv ke))) by (rewrite E; left; reflexivity).
  apply dangling_spec in Hin. destruct Hin as [_ Hone]. exact (G6 v Hone).
Qed.

(* ------------------------------------------------------------------ reading of sub_lattice; empty and full index sets *)
Lemma sub_lattice_reading L kv ke : valid_sub L kv ke ->
  nV (sub_lattice L kv ke) = length kv /\ nE (sub_lattice L kv ke) = length ke /\
  scale (sub_lattice L kv ke) = scale L /\
  (forall i, i < length kv ->
     pos_at (sub_lattice L kv ke) i = pos_at L (nth i kv 0) /\ rank kv (nth i kv 0) = i) /\
  (forall i, i < length ke ->
     edge_at (sub_lattice L kv ke) i
       = (rank kv (fst (edge_at L (nth i ke 0))), rank kv (snd (edge_at L (nth i ke 0)))) /\
     nth (rank kv (fst (edge_at L (nth i ke 0)))) kv 0 = fst (edge_at L (nth i ke 0)) /\
     nth (rank kv (snd (edge_at L (nth i ke 0)))) kv 0 = snd (edge_at L (nth i ke 0)) /\
     cross_at (sub_lattice L kv ke) i = cross_at L (nth i ke 0) /\
     evec (sub_lattice L kv ke) i = evec L (nth i ke 0)).
Proof.
  intro Hval. pose proof Hval as (Hnv & Hne & Hv & He).
  split; [apply nV_sub|]. split; [apply nE_sub|]. split; [reflexivity|]. split.
  - intros i Hi. split; [apply pos_at_sub; exact Hi | apply rank_nth; assumption].
  - intros i Hi. destruct (He (nth i ke 0) (nth_In _ _ Hi)) as (_ & Hj & Hk).
    split; [apply edge_at_sub; exact Hi|]. split; [apply nth_rank; exact Hj|].
    split; [apply nth_rank; exact Hk|]. split; [apply cross_at_sub; exact Hi | apply evec_sub; assumption].
Qed.

Lemma kept_reading L idx : wf_lattice L = true ->
  valid_sub L (kept_vertices L idx) (kept_edges L idx) /\
  StronglySorted lt (kept_vertices L idx) /\ StronglySorted lt (kept_edges L idx) /\
  (forall v, In v (kept_vertices L idx) <-> v < nV L /\ ~ In v idx) /\
  (forall e, In e (kept_edges L idx) <->
             e < nE L /\ ~ In (fst (edge_at L e)) idx /\ ~ In (snd (edge_at L e)) idx).
Proof.
  intro Hwf. split; [apply valid_sub_removed; exact Hwf|].
  split; [rewrite kept_vertices_eq; apply filter_seq_sorted|].
  split; [rewrite kept_edges_eq; apply filter_seq_sorted|].
  assert (Hk : forall v, keepf idx v = true <-> ~ In v idx).
  { intro v. unfold keepf. rewrite negb_true_iff. rewrite <- memb_In. destruct (memb v idx); split; congruence. }
  split.
  - intro v. rewrite kept_vertices_eq, filter_In, in_seq, Hk. intuition lia.
  - intro e. rewrite kept_edges_eq, filter_In, in_seq. unfold both_ends. rewrite andb_true_iff, !Hk. intuition lia.
Qed.

Lemma filter_none {A} (p : A -> bool) l : (forall x, In x l -> p x = false) -> filter p l = [].
Proof.
  induction l as [|x l IH]; intro H; [reflexivity|]. cbn [filter].
  rewrite (H x (or_introl eq_refl)). apply IH. intros y Hy. apply H. right. exact Hy.
Qed.

Lemma filter_all {A} (p : A -> bool) l : (forall x, In x l -> p x = true) -> filter p l = l.
Proof.
  induction l as [|x l IH]; intro H; [reflexivity|]. cbn [filter].
  rewrite (H x (or_introl eq_refl)). f_equal. apply IH. intros y Hy. apply H. right. exact Hy.
Qed.

(* removing no vertex returns the lattice itself and reports nothing *)
Lemma remove_vertices_none L : wf_lattice L = true -> remove_vertices L [] = Some (L, []).
Proof.
  intro Hwf. destruct (remove_vertices_spec L [] Hwf (Forall_nil _)) as (rep & E & Hrep).
  rewrite E. f_equal. f_equal.
  - rewrite kept_vertices_eq, kept_edges_eq, !filter_all; [apply sub_lattice_id; exact Hwf | |]; reflexivity.
  - destruct rep as [|e rep]; [reflexivity|]. exfalso.
    destruct (proj1 (Hrep e) (or_introl eq_refl)) as [_ Hb]. discriminate Hb.
Qed.

(* removing every vertex returns the empty lattice and reports every edge *)
Lemma remove_vertices_all L idx : wf_lattice L = true -> Forall (fun i => i < nV L) idx ->
  (forall v, v < nV L -> In v idx) ->
  exists rep, remove_vertices L idx = Some (mkLattice (scale L) [] [] [], rep) /\
              (forall e, In e rep <-> e < nE L).
Proof.
  intros Hwf Hidx Hall. destruct (remove_vertices_spec L idx Hwf Hidx) as (rep & E & Hrep).
  exists rep. rewrite E.
  assert (Hkv : kept_vertices L idx = []).
  { rewrite kept_vertices_eq. apply filter_none. intros v Hv. apply in_seq in Hv.
    unfold keepf. apply negb_false_iff. apply memb_In. apply Hall. lia. }
  assert (Hb : forall e, e < nE L -> both_ends L (keepf idx) e = false).
  { intros e He. destruct (wf_edge_at L e Hwf He) as [Hj _]. unfold both_ends, keepf.
    rewrite (proj2 (memb_In _ idx) (Hall _ Hj)). reflexivity. }
  assert (Hke : kept_edges L idx = []).
  { rewrite kept_edges_eq. apply filter_none. intros e He. apply in_seq in He. apply Hb. lia. }
  rewrite Hkv, Hke. split; [reflexivity|].
  intro e. rewrite Hrep. split; [intros [H _]; exact H | intro H; split; [exact H | apply Hb; exact H]].
Qed.
