(* Proofs/EdgePiecesFacts.v — WHICH of the nine translates plot_edges draws, explicitly (C16):

     inner_edge_drawn_once     both end points strictly inside the cell: exactly the translate (0,0)
     crossing_edge_two_halves  end point inside the cell, start point beyond x = 0 (crossing = (1,0)):
                               exactly the two translates (0,0) and (1,0) — "both halves, each once"
     invisible_outside         a segment strictly beyond one cell line is not drawn
     crossing_edge_two_halves_xhi / _ylo / _yhi   the other three directions (crossing (-1,0), (0,1), (0,-1))
   (edges crossing two cell lines — up to three translates — are covered in measure by
   CoverFacts.drawn_in_full / PlotGlueFacts.plot_edges_total_length) *)
From Coq Require Import List ZArith QArith Bool Qminmax Qabs Lqa Lia.
From Koala Require Import Model.Clip Model.Plot Proofs.ClipFacts Proofs.VisFacts Proofs.CoverFacts.
Import ListNotations.
Open Scope Q_scope.

Definition open01 (c : Q) : Prop := 0 < c /\ c < 1.

Lemma lerp_gt1 (a b t : Q) : 1 < a -> 1 < b -> 0 <= t -> t <= 1 -> 1 < lerp a b t.
Proof.
  intros. unfold lerp. assert (0 <= t * (a - 1)) by (apply Qmult_le_0_compat; lra).
  assert (0 <= (1 - t) * (b - 1)) by (apply Qmult_le_0_compat; lra).
  destruct (Qlt_le_dec t (1#2)).
  - assert (0 < (1 - t) * (b - 1)) by (apply Qmult_lt_0_compat; lra). lra.
  - assert (0 < t * (a - 1)) by (apply Qmult_lt_0_compat; lra). lra.
Qed.
Lemma lerp_lt0 (a b t : Q) : a < 0 -> b < 0 -> 0 <= t -> t <= 1 -> lerp a b t < 0.
Proof.
  intros. unfold lerp. assert (0 <= t * (- a)) by (apply Qmult_le_0_compat; lra).
  assert (0 <= (1 - t) * (- b)) by (apply Qmult_le_0_compat; lra).
  destruct (Qlt_le_dec t (1#2)).
  - assert (0 < (1 - t) * (- b)) by (apply Qmult_lt_0_compat; lra). lra.
  - assert (0 < t * (- a)) by (apply Qmult_lt_0_compat; lra). lra.
Qed.

(* a segment strictly beyond a cell line (both end points) never passes the visibility rule *)
Lemma invisible_outside (s : seg) (xaxis : bool) :
  (1 < coord xaxis (seg_start s) /\ 1 < coord xaxis (seg_end s)) \/
  (coord xaxis (seg_start s) < 0 /\ coord xaxis (seg_end s) < 0) ->
  visible s = false.
Proof.
  intro H. destruct (visible s) eqn:V; [|reflexivity]. exfalso.
  destruct (visibility_sound s V) as (lo & hi & E).
  pose proof (clip_interval_some_le s lo hi E) as Hle.
  destruct (clip_interval_inside s lo hi lo E ltac:(lra) Hle) as (T0 & T1 & (X0 & X1 & Y0 & Y1)).
  change (px (seg_point s lo)) with (lerp (px (seg_start s)) (px (seg_end s)) lo) in X0, X1.
  change (py (seg_point s lo)) with (lerp (py (seg_start s)) (py (seg_end s)) lo) in Y0, Y1.
  destruct xaxis; unfold coord in H; destruct H as [[A B]|[A B]].
  - pose proof (lerp_gt1 _ _ lo A B T0 T1). lra.
  - pose proof (lerp_lt0 _ _ lo A B T0 T1). lra.
  - pose proof (lerp_gt1 _ _ lo A B T0 T1). lra.
  - pose proof (lerp_lt0 _ _ lo A B T0 T1). lra.
Qed.

(* the crossing test fires when the tested coordinate passes the line strictly between the end
   points and the other coordinate stays strictly inside (0,1) *)
Lemma cross_test_true (l sc ec so eo : Q) :
  (sc < l /\ l < ec) \/ (ec < l /\ l < sc) -> open01 so -> open01 eo ->
  cross_test l sc ec so eo = true.
Proof.
  intros Hl [So0 So1] [Eo0 Eo1]. unfold cross_test, t_param.
  assert (Hd : ~ sc - ec == 0) by lra.
  rewrite (Qeqb_false _ _ Hd).
  pose proof (div_mul_cancel (l - ec) (sc - ec) Hd) as E.
  set (t := (l - ec) / (sc - ec)) in *.
  assert (T : 0 < t /\ t < 1) by (destruct Hl as [[A B]|[A B]]; split; nra).
  destruct T as [T0 T1].
  assert (O : 0 < lerp so eo t /\ lerp so eo t < 1) by (unfold lerp; split; nra).
  destruct O as [O0 O1].
  apply andb_true_iff; split; [apply andb_true_iff; split; [apply andb_true_iff; split|]|].
  - apply Qltb_iff. exact T0.
  - apply Qleb_iff. lra.
  - apply Qltb_iff. exact O0.
  - apply Qleb_iff. lra.
Qed.

Lemma translate_coords (s : seg) (n m : Z) :
  px (seg_start (seg_translate s (zpoint (n, m)))) = px (seg_start s) + inject_Z n /\
  py (seg_start (seg_translate s (zpoint (n, m)))) = py (seg_start s) + inject_Z m /\
  px (seg_end (seg_translate s (zpoint (n, m)))) = px (seg_end s) + inject_Z n /\
  py (seg_end (seg_translate s (zpoint (n, m)))) = py (seg_end s) + inject_Z m.
Proof. repeat split. Qed.

Ltac outside_x s n m :=
  apply (invisible_outside (seg_translate s (zpoint (n, m))) true);
  unfold coord; destruct (translate_coords s n m) as (-> & _ & -> & _);
  change (inject_Z 1) with 1; change (inject_Z (-1)) with (-(1)); change (inject_Z 0) with 0; lra.
Ltac outside_y s n m :=
  apply (invisible_outside (seg_translate s (zpoint (n, m))) false);
  unfold coord; destruct (translate_coords s n m) as (_ & -> & _ & ->);
  change (inject_Z 1) with 1; change (inject_Z (-1)) with (-(1)); change (inject_Z 0) with 0; lra.

(* an edge that does not leave the cell is drawn once, as itself *)
Theorem inner_edge_drawn_once (s : seg) :
  open01 (px (seg_start s)) -> open01 (py (seg_start s)) -> open01 (px (seg_end s)) -> open01 (py (seg_end s)) ->
  filter (fun d => visible (seg_translate s (zpoint d))) nine = [(0, 0)%Z].
Proof.
  intros [A0 A1] [B0 B1] [C0 C1] [D0 D1].
  assert (V : visible (seg_translate s (zpoint (0, 0)%Z)) = true).
  { unfold visible. apply orb_true_iff. right. unfold line_fully_in_unit_cell.
    destruct (translate_coords s 0 0) as (-> & -> & -> & ->). change (inject_Z 0) with 0.
    repeat (apply andb_true_iff; split); apply Qltb_iff; lra. }
  unfold nine. cbn [filter].
  rewrite V.
  replace (visible (seg_translate s (zpoint (-1, -1)%Z))) with false by (symmetry; outside_x s (-1)%Z (-1)%Z).
  replace (visible (seg_translate s (zpoint (-1, 0)%Z))) with false by (symmetry; outside_x s (-1)%Z 0%Z).
  replace (visible (seg_translate s (zpoint (-1, 1)%Z))) with false by (symmetry; outside_x s (-1)%Z 1%Z).
  replace (visible (seg_translate s (zpoint (0, -1)%Z))) with false by (symmetry; outside_y s 0%Z (-1)%Z).
  replace (visible (seg_translate s (zpoint (0, 1)%Z))) with false by (symmetry; outside_y s 0%Z 1%Z).
  replace (visible (seg_translate s (zpoint (1, -1)%Z))) with false by (symmetry; outside_x s 1%Z (-1)%Z).
  replace (visible (seg_translate s (zpoint (1, 0)%Z))) with false by (symmetry; outside_x s 1%Z 0%Z).
  replace (visible (seg_translate s (zpoint (1, 1)%Z))) with false by (symmetry; outside_x s 1%Z 1%Z).
  reflexivity.
Qed.

(* an edge stored with crossing (1,0): its unwrapped start point lies beyond x = 0, the end point in
   the cell, the y coordinates stay inside — drawn as exactly its two halves: the translate (0,0)
   (the part right of x = 0) and the translate (1,0) (the part left of x = 1) *)
Theorem crossing_edge_two_halves (s : seg) :
  -(1) < px (seg_start s) -> px (seg_start s) < 0 -> open01 (py (seg_start s)) ->
  open01 (px (seg_end s)) -> open01 (py (seg_end s)) ->
  filter (fun d => visible (seg_translate s (zpoint d))) nine = [(0, 0)%Z; (1, 0)%Z].
Proof.
  intros A0 A1 [B0 B1] [C0 C1] [D0 D1].
  assert (V0 : visible (seg_translate s (zpoint (0, 0)%Z)) = true).
  { unfold visible, lines_cross_unit_cell. apply orb_true_iff. left.
    destruct (translate_coords s 0 0) as (-> & -> & -> & ->). change (inject_Z 0) with 0.
    rewrite (cross_test_true 0 (px (seg_start s) + 0) (px (seg_end s) + 0) (py (seg_start s) + 0) (py (seg_end s) + 0));
      [reflexivity|left; lra|split; lra|split; lra]. }
  assert (V1 : visible (seg_translate s (zpoint (1, 0)%Z)) = true).
  { unfold visible, lines_cross_unit_cell. apply orb_true_iff. left.
    destruct (translate_coords s 1 0) as (-> & -> & -> & ->). change (inject_Z 0) with 0. change (inject_Z 1) with 1.
    rewrite (cross_test_true 1 (px (seg_start s) + 1) (px (seg_end s) + 1) (py (seg_start s) + 0) (py (seg_end s) + 0));
      [rewrite !orb_true_r; reflexivity|left; lra|split; lra|split; lra]. }
  unfold nine. cbn [filter].
  rewrite V0, V1.
  replace (visible (seg_translate s (zpoint (-1, -1)%Z))) with false by (symmetry; outside_x s (-1)%Z (-1)%Z).
  replace (visible (seg_translate s (zpoint (-1, 0)%Z))) with false by (symmetry; outside_x s (-1)%Z 0%Z).
  replace (visible (seg_translate s (zpoint (-1, 1)%Z))) with false by (symmetry; outside_x s (-1)%Z 1%Z).
  replace (visible (seg_translate s (zpoint (0, -1)%Z))) with false by (symmetry; outside_y s 0%Z (-1)%Z).
  replace (visible (seg_translate s (zpoint (0, 1)%Z))) with false by (symmetry; outside_y s 0%Z 1%Z).
  replace (visible (seg_translate s (zpoint (1, -1)%Z))) with false by (symmetry; outside_y s 1%Z (-1)%Z).
  replace (visible (seg_translate s (zpoint (1, 1)%Z))) with false by (symmetry; outside_y s 1%Z 1%Z).
  reflexivity.
Qed.


(* ---------- the other three directions ---------- *)

(* crossing (-1,0): the unwrapped start point lies beyond x = 1 *)
Theorem crossing_edge_two_halves_xhi (s : seg) :
  1 < px (seg_start s) -> px (seg_start s) < 2 -> open01 (py (seg_start s)) ->
  open01 (px (seg_end s)) -> open01 (py (seg_end s)) ->
  filter (fun d => visible (seg_translate s (zpoint d))) nine = [(-1, 0)%Z; (0, 0)%Z].
Proof.
  intros A0 A1 [B0 B1] [C0 C1] [D0 D1].
  assert (V0 : visible (seg_translate s (zpoint (0, 0)%Z)) = true).
  { unfold visible, lines_cross_unit_cell.
    destruct (translate_coords s 0 0) as (-> & -> & -> & ->). change (inject_Z 0) with 0.
    rewrite (cross_test_true 1 (px (seg_start s) + 0) (px (seg_end s) + 0) (py (seg_start s) + 0) (py (seg_end s) + 0));
      [rewrite ?orb_true_r; reflexivity|right; lra|split; lra|split; lra]. }
  assert (V1 : visible (seg_translate s (zpoint (-1, 0)%Z)) = true).
  { unfold visible, lines_cross_unit_cell.
    destruct (translate_coords s (-1) 0) as (-> & -> & -> & ->). change (inject_Z 0) with 0. change (inject_Z (-1)) with (-(1)).
    rewrite (cross_test_true 0 (px (seg_start s) + -(1)) (px (seg_end s) + -(1)) (py (seg_start s) + 0) (py (seg_end s) + 0));
      [rewrite ?orb_true_r; reflexivity|right; lra|split; lra|split; lra]. }
  unfold nine. cbn [filter].
  rewrite V0, V1.
  replace (visible (seg_translate s (zpoint (-1, -1)%Z))) with false by (symmetry; outside_y s (-1)%Z (-1)%Z).
  replace (visible (seg_translate s (zpoint (-1, 1)%Z))) with false by (symmetry; outside_y s (-1)%Z 1%Z).
  replace (visible (seg_translate s (zpoint (0, -1)%Z))) with false by (symmetry; outside_y s 0%Z (-1)%Z).
  replace (visible (seg_translate s (zpoint (0, 1)%Z))) with false by (symmetry; outside_y s 0%Z 1%Z).
  replace (visible (seg_translate s (zpoint (1, -1)%Z))) with false by (symmetry; outside_x s 1%Z (-1)%Z).
  replace (visible (seg_translate s (zpoint (1, 0)%Z))) with false by (symmetry; outside_x s 1%Z 0%Z).
  replace (visible (seg_translate s (zpoint (1, 1)%Z))) with false by (symmetry; outside_x s 1%Z 1%Z).
  reflexivity.
Qed.

(* crossing (0,1): the unwrapped start point lies beyond y = 0 *)
Theorem crossing_edge_two_halves_ylo (s : seg) :
  open01 (px (seg_start s)) -> -(1) < py (seg_start s) -> py (seg_start s) < 0 ->
  open01 (px (seg_end s)) -> open01 (py (seg_end s)) ->
  filter (fun d => visible (seg_translate s (zpoint d))) nine = [(0, 0)%Z; (0, 1)%Z].
Proof.
  intros [A0 A1] B0 B1 [C0 C1] [D0 D1].
  assert (V0 : visible (seg_translate s (zpoint (0, 0)%Z)) = true).
  { unfold visible, lines_cross_unit_cell.
    destruct (translate_coords s 0 0) as (-> & -> & -> & ->). change (inject_Z 0) with 0.
    rewrite (cross_test_true 0 (py (seg_start s) + 0) (py (seg_end s) + 0) (px (seg_start s) + 0) (px (seg_end s) + 0));
      [rewrite ?orb_true_r; reflexivity|left; lra|split; lra|split; lra]. }
  assert (V1 : visible (seg_translate s (zpoint (0, 1)%Z)) = true).
  { unfold visible, lines_cross_unit_cell.
    destruct (translate_coords s 0 1) as (-> & -> & -> & ->). change (inject_Z 0) with 0. change (inject_Z 1) with 1.
    rewrite (cross_test_true 1 (py (seg_start s) + 1) (py (seg_end s) + 1) (px (seg_start s) + 0) (px (seg_end s) + 0));
      [rewrite ?orb_true_r; reflexivity|left; lra|split; lra|split; lra]. }
  unfold nine. cbn [filter].
  rewrite V0, V1.
  replace (visible (seg_translate s (zpoint (-1, -1)%Z))) with false by (symmetry; outside_x s (-1)%Z (-1)%Z).
  replace (visible (seg_translate s (zpoint (-1, 0)%Z))) with false by (symmetry; outside_x s (-1)%Z 0%Z).
  replace (visible (seg_translate s (zpoint (-1, 1)%Z))) with false by (symmetry; outside_x s (-1)%Z 1%Z).
  replace (visible (seg_translate s (zpoint (0, -1)%Z))) with false by (symmetry; outside_y s 0%Z (-1)%Z).
  replace (visible (seg_translate s (zpoint (1, -1)%Z))) with false by (symmetry; outside_x s 1%Z (-1)%Z).
  replace (visible (seg_translate s (zpoint (1, 0)%Z))) with false by (symmetry; outside_x s 1%Z 0%Z).
  replace (visible (seg_translate s (zpoint (1, 1)%Z))) with false by (symmetry; outside_x s 1%Z 1%Z).
  reflexivity.
Qed.

(* crossing (0,-1): the unwrapped start point lies beyond y = 1 *)
Theorem crossing_edge_two_halves_yhi (s : seg) :
  open01 (px (seg_start s)) -> 1 < py (seg_start s) -> py (seg_start s) < 2 ->
  open01 (px (seg_end s)) -> open01 (py (seg_end s)) ->
  filter (fun d => visible (seg_translate s (zpoint d))) nine = [(0, -1)%Z; (0, 0)%Z].
Proof.
  intros [A0 A1] B0 B1 [C0 C1] [D0 D1].
  assert (V0 : visible (seg_translate s (zpoint (0, 0)%Z)) = true).
  { unfold visible, lines_cross_unit_cell.
    destruct (translate_coords s 0 0) as (-> & -> & -> & ->). change (inject_Z 0) with 0.
    rewrite (cross_test_true 1 (py (seg_start s) + 0) (py (seg_end s) + 0) (px (seg_start s) + 0) (px (seg_end s) + 0));
      [rewrite ?orb_true_r; reflexivity|right; lra|split; lra|split; lra]. }
  assert (V1 : visible (seg_translate s (zpoint (0, -1)%Z)) = true).
  { unfold visible, lines_cross_unit_cell.
    destruct (translate_coords s 0 (-1)) as (-> & -> & -> & ->). change (inject_Z 0) with 0. change (inject_Z (-1)) with (-(1)).
    rewrite (cross_test_true 0 (py (seg_start s) + -(1)) (py (seg_end s) + -(1)) (px (seg_start s) + 0) (px (seg_end s) + 0));
      [rewrite ?orb_true_r; reflexivity|right; lra|split; lra|split; lra]. }
  unfold nine. cbn [filter].
  rewrite V0, V1.
  replace (visible (seg_translate s (zpoint (-1, -1)%Z))) with false by (symmetry; outside_x s (-1)%Z (-1)%Z).
  replace (visible (seg_translate s (zpoint (-1, 0)%Z))) with false by (symmetry; outside_x s (-1)%Z 0%Z).
  replace (visible (seg_translate s (zpoint (-1, 1)%Z))) with false by (symmetry; outside_x s (-1)%Z 1%Z).
  replace (visible (seg_translate s (zpoint (0, 1)%Z))) with false by (symmetry; outside_y s 0%Z 1%Z).
  replace (visible (seg_translate s (zpoint (1, -1)%Z))) with false by (symmetry; outside_x s 1%Z (-1)%Z).
  replace (visible (seg_translate s (zpoint (1, 0)%Z))) with false by (symmetry; outside_x s 1%Z 0%Z).
  replace (visible (seg_translate s (zpoint (1, 1)%Z))) with false by (symmetry; outside_x s 1%Z 1%Z).
  reflexivity.
Qed.

(* ---------- the same on the drawn list of plot_edges: pieces_of L (e, (colour, direction)) ---------- *)
From Koala Require Import Proofs.PlotGlueFacts.
Open Scope Q_scope.

Corollary inner_edge_one_piece {C : Type} (L : plat) (icd : nat * (C * Z)) :
  let s := edge_seg L (fst icd) in
  open01 (px (seg_start s)) -> open01 (py (seg_start s)) -> open01 (px (seg_end s)) -> open01 (py (seg_end s)) ->
  pieces_of L icd = [(seg_translate s (zpoint (0, 0)%Z), snd icd)].
Proof.
  intros s H1 H2 H3 H4. unfold pieces_of. fold s. rewrite (inner_edge_drawn_once s H1 H2 H3 H4). reflexivity.
Qed.

Corollary crossing_edge_two_pieces {C : Type} (L : plat) (icd : nat * (C * Z)) :
  let s := edge_seg L (fst icd) in
  -(1) < px (seg_start s) -> px (seg_start s) < 0 -> open01 (py (seg_start s)) ->
  open01 (px (seg_end s)) -> open01 (py (seg_end s)) ->
  pieces_of L icd = [(seg_translate s (zpoint (0, 0)%Z), snd icd); (seg_translate s (zpoint (1, 0)%Z), snd icd)].
Proof.
  intros s H1 H2 H3 H4 H5. unfold pieces_of. fold s. rewrite (crossing_edge_two_halves s H1 H2 H3 H4 H5). reflexivity.
Qed.
