(* Proofs/PolyAreaFacts.v — the Sutherland–Hodgman half-plane clipper of Model/Clip.v
   (sh_clip1) and the shoelace area (area2): the area of the clipped polygon as a sum over
   the edges of the subject polygon, and from it

     clip_area_add     area2 (clip P {c >= v}) + area2 (clip P {c <= v}) == area2 P
     clip_area_absorb  area2 (clip (clip P {c >= v1}) {c >= v2}) == area2 (clip P {c >= v2})   (v1 < v2)

   for EVERY vertex list P (any length, no convexity, no general-position hypothesis; area2 is
   twice the SIGNED shoelace area).  Method: write area2 as a cyclic sum of the triangle term
   trl taken from a reference point ON the clip line; the edges the clipper adds along the
   clip line then contribute 0, every other output edge is the part of a subject edge inside
   the half-plane (cyc_clip), and the two parts of one edge add up (wclip_add). *)
From Coq Require Import List ZArith QArith Bool Qminmax Lqa Lia.
From Koala Require Import Model.Clip Proofs.ClipFacts.
Import ListNotations.
Open Scope Q_scope.

(* ---------- points up to == ---------- *)
Definition peq (a b : point) : Prop := px a == px b /\ py a == py b.
Lemma peq_refl (a : point) : peq a a.
Proof. split; reflexivity. Qed.
Lemma peq_sym (a b : point) : peq a b -> peq b a.
Proof. intros [H1 H2]. split; symmetry; assumption. Qed.
Lemma peq_trans (a b c : point) : peq a b -> peq b c -> peq a c.
Proof. intros [H1 H2] [H3 H4]. split; etransitivity; eassumption. Qed.

(* the coordinate that is not clipped *)
Definition other (xaxis : bool) (p : point) : Q := if xaxis then py p else px p.

Lemma coord_peq (x : bool) (a b : point) : peq a b -> coord x a == coord x b.
Proof. intros [H1 H2]. destruct x; assumption. Qed.
Lemma other_peq (x : bool) (a b : point) : peq a b -> other x a == other x b.
Proof. intros [H1 H2]. destruct x; assumption. Qed.
Lemma peq_coords (x : bool) (a b : point) :
  coord x a == coord x b -> other x a == other x b -> peq a b.
Proof. destruct x; unfold coord, other; intros H1 H2; split; assumption. Qed.

Lemma hp_inside_peq (x : bool) (v : Q) (ge : bool) (a b : point) :
  peq a b -> hp_inside x v ge a = hp_inside x v ge b.
Proof.
  intro H. apply (coord_peq x) in H. unfold hp_inside, Qleb.
  destruct ge; rewrite H; reflexivity.
Qed.

Lemma hp_in_ge (x : bool) (v : Q) (p : point) : hp_inside x v true p = true <-> v <= coord x p.
Proof. unfold hp_inside. apply Qleb_iff. Qed.
Lemma hp_in_le (x : bool) (v : Q) (p : point) : hp_inside x v false p = true <-> coord x p <= v.
Proof. unfold hp_inside. apply Qleb_iff. Qed.
Lemma hp_out_ge (x : bool) (v : Q) (p : point) : hp_inside x v true p = false <-> coord x p < v.
Proof.
  unfold hp_inside. split; intro H.
  - apply Qnot_le_lt. intro K. apply Qleb_iff in K. congruence.
  - destruct (Qleb v (coord x p)) eqn:E; auto. apply Qleb_iff in E. lra.
Qed.
Lemma hp_out_le (x : bool) (v : Q) (p : point) : hp_inside x v false p = false <-> v < coord x p.
Proof.
  unfold hp_inside. split; intro H.
  - apply Qnot_le_lt. intro K. apply Qleb_iff in K. congruence.
  - destruct (Qleb (coord x p) v) eqn:E; auto. apply Qleb_iff in E. lra.
Qed.

Definition on_line (x : bool) (v : Q) (a : point) : Prop := coord x a == v.

Lemma on_line_inside (x : bool) (v : Q) (ge : bool) (a : point) :
  on_line x v a -> hp_inside x v ge a = true.
Proof. unfold on_line. intro H. destruct ge; [apply hp_in_ge|apply hp_in_le]; lra. Qed.

(* ---------- the intersection point ---------- *)
Lemma hp_intersect_spec (x : bool) (v : Q) (p q : point) :
  ~ coord x q == coord x p ->
  let t := (v - coord x p) / (coord x q - coord x p) in
  px (hp_intersect x v p q) == px p + t * (px q - px p) /\
  py (hp_intersect x v p q) == py p + t * (py q - py p) /\
  coord x (hp_intersect x v p q) == v /\
  other x (hp_intersect x v p q) == other x p + t * (other x q - other x p).
Proof.
  intros Hne t.
  assert (Ex : px (hp_intersect x v p q) == px p + t * (px q - px p))
    by (unfold hp_intersect, px at 1; cbn [fst]; apply Qred_correct).
  assert (Ey : py (hp_intersect x v p q) == py p + t * (py q - py p))
    by (unfold hp_intersect, py at 1; cbn [snd]; apply Qred_correct).
  split; [exact Ex|]. split; [exact Ey|].
  destruct x; unfold coord, other in *.
  - split; [rewrite Ex; unfold t; field; lra|exact Ey].
  - split; [rewrite Ey; unfold t; field; lra|exact Ex].
Qed.

Lemma frac_bounds (n d : Q) :
  (0 < d /\ 0 <= n /\ n <= d) \/ (d < 0 /\ d <= n /\ n <= 0) -> 0 <= n / d /\ n / d <= 1.
Proof.
  intros H. assert (Hd : ~ d == 0) by lra.
  pose proof (div_mul_cancel n d Hd) as E. set (t := n / d) in *.
  destruct H as [(H1 & H2 & H3)|(H1 & H2 & H3)]; split; nra.
Qed.

(* one end point inside, the other outside: the intersection is a point of the segment, on
   the clip line *)
Lemma hp_mixed (x : bool) (v : Q) (ge : bool) (p q : point) :
  hp_inside x v ge p <> hp_inside x v ge q ->
  exists t, 0 <= t /\ t <= 1 /\
    px (hp_intersect x v p q) == px p + t * (px q - px p) /\
    py (hp_intersect x v p q) == py p + t * (py q - py p) /\
    on_line x v (hp_intersect x v p q).
Proof.
  intro Hne.
  assert (Hc : (0 < coord x q - coord x p /\ 0 <= v - coord x p /\ v - coord x p <= coord x q - coord x p) \/
               (coord x q - coord x p < 0 /\ coord x q - coord x p <= v - coord x p /\ v - coord x p <= 0)).
  { destruct ge; destruct (hp_inside x v _ p) eqn:Ep; destruct (hp_inside x v _ q) eqn:Eq; try congruence.
    - apply hp_in_ge in Ep. apply hp_out_ge in Eq. right. lra.
    - apply hp_out_ge in Ep. apply hp_in_ge in Eq. left. lra.
    - apply hp_in_le in Ep. apply hp_out_le in Eq. left. lra.
    - apply hp_out_le in Ep. apply hp_in_le in Eq. right. lra. }
  assert (Hd : ~ coord x q == coord x p) by lra.
  destruct (hp_intersect_spec x v p q Hd) as (H1 & H2 & H3 & _).
  destruct (frac_bounds _ _ Hc) as [T0 T1].
  exists ((v - coord x p) / (coord x q - coord x p)). repeat split; assumption.
Qed.

Lemma hp_intersect_peq (x : bool) (v : Q) (p p' q q' : point) :
  peq p p' -> peq q q' -> peq (hp_intersect x v p q) (hp_intersect x v p' q').
Proof.
  intros [Hp1 Hp2] [Hq1 Hq2]. unfold hp_intersect, peq.
  destruct x; unfold coord, px, py in *; cbn [fst snd] in *;
    rewrite !Qred_correct, Hp1, Hp2, Hq1, Hq2; split; reflexivity.
Qed.

(* ---------- sums along a vertex chain / around a polygon ---------- *)
Fixpoint chain (g : point -> point -> Q) (prev : point) (l : list point) : Q :=
  match l with
  | [] => 0
  | cur :: r => g prev cur + chain g cur r
  end.
Definition cyc (g : point -> point -> Q) (poly : polygon) : Q := chain g (last poly (0, 0)) poly.

Definition gproper (g : point -> point -> Q) : Prop :=
  forall a a' b b', peq a a' -> peq b b' -> g a b == g a' b'.

Lemma last_nonempty_default {A : Type} (l : list A) (d d' : A) : l <> [] -> last l d = last l d'.
Proof.
  induction l as [|a l IH]; intro H; [congruence|].
  destruct l as [|b l]; [reflexivity|]. change (last (b :: l) d = last (b :: l) d'). apply IH. discriminate.
Qed.
Lemma last_cons_default {A : Type} (a : A) (l : list A) (d : A) : last (a :: l) d = last l a.
Proof.
  destruct l as [|b l]; [reflexivity|]. change (last (b :: l) d = last (b :: l) a).
  apply last_nonempty_default. discriminate.
Qed.
Lemma last_app_default {A : Type} (X Y : list A) (d : A) : last (X ++ Y) d = last Y (last X d).
Proof.
  revert d. induction X as [|a X IH]; intro d; [reflexivity|].
  change ((a :: X) ++ Y) with (a :: (X ++ Y)). rewrite !last_cons_default. apply IH.
Qed.

Lemma chain_ext (g g' : point -> point -> Q) (A : point) (l : list point) :
  (forall a b, g a b == g' a b) -> chain g A l == chain g' A l.
Proof.
  intro H. revert A. induction l as [|c r IH]; intro A; [reflexivity|].
  cbn [chain]. rewrite (H A c), (IH c). reflexivity.
Qed.
Lemma chain_plus (g g' : point -> point -> Q) (A : point) (l : list point) :
  chain (fun a b => g a b + g' a b) A l == chain g A l + chain g' A l.
Proof.
  revert A. induction l as [|c r IH]; intro A; cbn [chain]; [ring|]. rewrite (IH c). ring.
Qed.
Lemma chain_tele (phi : point -> Q) (A : point) (l : list point) :
  chain (fun a b => phi a - phi b) A l == phi A - phi (last l A).
Proof.
  revert A. induction l as [|c r IH]; intro A; cbn [chain]; [cbn [last]; ring|].
  rewrite (IH c), last_cons_default. ring.
Qed.
Lemma chain_head (g : point -> point -> Q) (A A' : point) (l : list point) :
  gproper g -> peq A A' -> chain g A l == chain g A' l.
Proof.
  intros Hg HA. destruct l as [|c r]; [reflexivity|]. cbn [chain].
  rewrite (Hg A A' c c HA (peq_refl c)). reflexivity.
Qed.

Lemma cyc_ext (g g' : point -> point -> Q) (P : polygon) :
  (forall a b, g a b == g' a b) -> cyc g P == cyc g' P.
Proof. intro H. apply chain_ext. exact H. Qed.
Lemma cyc_plus (g g' : point -> point -> Q) (P : polygon) :
  cyc (fun a b => g a b + g' a b) P == cyc g P + cyc g' P.
Proof. apply chain_plus. Qed.
Lemma cyc_tele (phi : point -> Q) (P : polygon) : cyc (fun a b => phi a - phi b) P == 0.
Proof.
  unfold cyc. rewrite chain_tele. destruct P as [|p r]; [cbn [last]; ring|].
  rewrite (last_nonempty_default (p :: r) (last (p :: r) (0, 0)) (0, 0)) by discriminate. ring.
Qed.

(* ---------- the shoelace area as a cyclic sum ---------- *)
Definition cr (a b : point) : Q := px a * py b - px b * py a.

Lemma shoelace_chain (f prev : point) (l : list point) :
  shoelace_from f prev l == chain cr prev l + cr (last l prev) f.
Proof.
  revert prev. induction l as [|c r IH]; intro prev.
  - cbn [shoelace_from chain last]. unfold cr. ring.
  - cbn [shoelace_from chain]. rewrite (IH c), last_cons_default. unfold cr. ring.
Qed.

Lemma area2_cyc (P : polygon) : area2 P == cyc cr P.
Proof.
  destruct P as [|p r]; [reflexivity|]. unfold area2, cyc. rewrite Qred_correct, shoelace_chain.
  cbn [chain]. rewrite last_cons_default. ring.
Qed.

(* the triangle term seen from the point of the clip line with other coordinate 0 *)
Definition trl (x : bool) (v : Q) (a b : point) : Q :=
  if x then (px a - v) * py b - (px b - v) * py a
  else px a * (py b - v) - px b * (py a - v).

Lemma trl_proper (x : bool) (v : Q) : gproper (trl x v).
Proof.
  intros a a' b b' [Ha1 Ha2] [Hb1 Hb2]. unfold trl. destruct x; rewrite Ha1, Ha2, Hb1, Hb2; reflexivity.
Qed.
Lemma trl_vanish (x : bool) (v : Q) (a b : point) : on_line x v a -> on_line x v b -> trl x v a b == 0.
Proof. unfold on_line, trl. destruct x; unfold coord; intros Ha Hb; rewrite Ha, Hb; ring. Qed.

Lemma area2_trl (x : bool) (v : Q) (P : polygon) : area2 P == cyc (trl x v) P.
Proof.
  rewrite area2_cyc.
  set (phi := fun a : point => if x then v * py a else - (v * px a)).
  rewrite (cyc_ext (trl x v) (fun a b => cr a b + (phi a - phi b))).
  - rewrite cyc_plus, cyc_tele. ring.
  - intros a b. unfold trl, cr, phi. destruct x; ring.
Qed.

(* a point of the line through p and q splits the triangle term *)
Lemma trl_split (x : bool) (v : Q) (p q I : point) (t : Q) :
  px I == px p + t * (px q - px p) -> py I == py p + t * (py q - py p) ->
  trl x v p I == t * trl x v p q /\ trl x v I q == (1 - t) * trl x v p q.
Proof. intros Hx Hy. unfold trl. destruct x; rewrite Hx, Hy; split; ring. Qed.

(* ---------- what an edge (p,q) of the subject contributes to the clipped polygon ---------- *)
Definition wclip (x : bool) (v : Q) (ge : bool) (g : point -> point -> Q) (p q : point) : Q :=
  if hp_inside x v ge q
  then (if hp_inside x v ge p then g p q else g (hp_intersect x v p q) q)
  else (if hp_inside x v ge p then g p (hp_intersect x v p q) else 0).

Lemma wclip_proper (x : bool) (v : Q) (ge : bool) (g : point -> point -> Q) :
  gproper g -> gproper (wclip x v ge g).
Proof.
  intros Hg a a' b b' Ha Hb. unfold wclip.
  rewrite (hp_inside_peq x v ge a a' Ha), (hp_inside_peq x v ge b b' Hb).
  pose proof (hp_intersect_peq x v a a' b b' Ha Hb) as HI.
  destruct (hp_inside x v ge b'), (hp_inside x v ge a'); try reflexivity; apply Hg; assumption.
Qed.

Definition vanish (x : bool) (v : Q) (g : point -> point -> Q) : Prop :=
  forall a b, on_line x v a -> on_line x v b -> g a b == 0.

(* [A] stands for the vertex emitted last before the chain (prev, l) is processed *)
Definition Wv (x : bool) (v : Q) (ge : bool) (prev A : point) : Prop :=
  (hp_inside x v ge prev = true -> peq A prev) /\ (hp_inside x v ge prev = false -> on_line x v A).

Lemma mixed_on_line (x : bool) (v : Q) (ge : bool) (p q : point) :
  hp_inside x v ge p <> hp_inside x v ge q -> on_line x v (hp_intersect x v p q).
Proof. intro H. destruct (hp_mixed x v ge p q H) as (t & _ & _ & _ & _ & L). exact L. Qed.

Lemma chain_clip (x : bool) (v : Q) (ge : bool) (g : point -> point -> Q) :
  gproper g -> vanish x v g -> forall (l : list point) (prev A : point), Wv x v ge prev A ->
  chain g A (sh_step x v ge prev l) == chain (wclip x v ge g) prev l.
Proof.
  intros Hg Hv. induction l as [|cur r IH]; intros prev A [WA1 WA2]; [reflexivity|].
  cbn [sh_step chain]. unfold wclip at 1.
  destruct (hp_inside x v ge cur) eqn:Ec; destruct (hp_inside x v ge prev) eqn:Ep.
  - cbn [app chain]. rewrite (Hg A prev cur cur (WA1 eq_refl) (peq_refl cur)).
    rewrite (IH cur cur); [reflexivity|]. split; [intros _; apply peq_refl|congruence].
  - assert (L : on_line x v (hp_intersect x v prev cur)) by (apply (mixed_on_line x v ge); congruence).
    cbn [app chain]. rewrite (Hv A _ (WA2 eq_refl) L).
    rewrite (IH cur cur); [ring|]. split; [intros _; apply peq_refl|congruence].
  - assert (L : on_line x v (hp_intersect x v prev cur)) by (apply (mixed_on_line x v ge); congruence).
    cbn [app chain]. rewrite (Hg A prev _ _ (WA1 eq_refl) (peq_refl _)).
    rewrite (IH cur (hp_intersect x v prev cur)); [reflexivity|]. split; [congruence|intros _; exact L].
  - cbn [app]. rewrite (IH cur A); [ring|]. split; [congruence|intros _; exact (WA2 eq_refl)].
Qed.

Lemma Wv_step (x : bool) (v : Q) (ge : bool) (l : list point) (prev A : point) :
  Wv x v ge prev A -> Wv x v ge (last l prev) (last (sh_step x v ge prev l) A).
Proof.
  revert prev A. induction l as [|cur r IH]; intros prev A W; [exact W|].
  cbn [sh_step]. rewrite last_app_default, last_cons_default. apply IH.
  destruct W as [WA1 WA2].
  destruct (hp_inside x v ge cur) eqn:Ec; destruct (hp_inside x v ge prev) eqn:Ep; cbn [last].
  - split; [intros _; apply peq_refl|congruence].
  - split; [intros _; apply peq_refl|congruence].
  - split; [congruence|]. intros _. apply (mixed_on_line x v ge). congruence.
  - split; [congruence|]. intros _. exact (WA2 eq_refl).
Qed.

Definition line_pt (x : bool) (v : Q) : point := if x then (v, 0) else (0, v).
Lemma line_pt_on (x : bool) (v : Q) : on_line x v (line_pt x v).
Proof. unfold on_line, line_pt. destruct x; reflexivity. Qed.

(* the cyclic sum of g around the clipped polygon = the sum of the inside parts of the
   subject's edges, for any g that vanishes along the clip line *)
Theorem cyc_clip (x : bool) (v : Q) (ge : bool) (g : point -> point -> Q) (P : polygon) :
  gproper g -> vanish x v g ->
  cyc g (sh_clip1 x v ge P) == cyc (wclip x v ge g) P.
Proof.
  intros Hg Hv. destruct P as [|p0 r]; [reflexivity|].
  unfold sh_clip1, cyc. set (P := p0 :: r). set (prev := last P (0, 0)).
  set (A0 := if hp_inside x v ge prev then prev else line_pt x v).
  assert (W0 : Wv x v ge prev A0).
  { unfold A0. destruct (hp_inside x v ge prev) eqn:E0; split; try congruence; intros _; [apply peq_refl|apply line_pt_on]. }
  destruct (sh_step x v ge prev P) as [|o os] eqn:Eo.
  - rewrite <- (chain_clip x v ge g Hg Hv P prev A0 W0), Eo. reflexivity.
  - pose proof (Wv_step x v ge P prev A0 W0) as W1. rewrite Eo in W1.
    assert (E1 : last P prev = prev) by (apply last_nonempty_default; discriminate).
    rewrite E1 in W1.
    rewrite (last_nonempty_default (o :: os) (0, 0) A0) by discriminate.
    rewrite <- Eo. rewrite <- Eo in W1. apply chain_clip; assumption.
Qed.

(* ---------- the two sides of one clip line share every edge ---------- *)
Lemma wclip_add (x : bool) (v : Q) (p q : point) :
  wclip x v true (trl x v) p q + wclip x v false (trl x v) p q == trl x v p q.
Proof.
  unfold wclip.
  destruct (hp_inside x v true q) eqn:Gq; destruct (hp_inside x v true p) eqn:Gp;
  destruct (hp_inside x v false q) eqn:Lq; destruct (hp_inside x v false p) eqn:Lp;
  try apply hp_in_ge in Gq; try apply hp_out_ge in Gq; try apply hp_in_ge in Gp; try apply hp_out_ge in Gp;
  try apply hp_in_le in Lq; try apply hp_out_le in Lq; try apply hp_in_le in Lp; try apply hp_out_le in Lp;
  try (exfalso; lra).
  - (* both on the line *)
    rewrite (trl_vanish x v p q) by (unfold on_line; lra). ring.
  - (* q on the line, p strictly above *)
    assert (M : hp_inside x v false p <> hp_inside x v false q).
    { rewrite (proj2 (hp_out_le x v p) Lp), (proj2 (hp_in_le x v q) Lq). discriminate. }
    rewrite (trl_vanish x v (hp_intersect x v p q) q); [ring|exact (mixed_on_line x v false p q M)|unfold on_line; lra].
  - (* p on the line, q strictly above *)
    assert (M : hp_inside x v false p <> hp_inside x v false q).
    { rewrite (proj2 (hp_in_le x v p) Lp), (proj2 (hp_out_le x v q) Lq). discriminate. }
    rewrite (trl_vanish x v p (hp_intersect x v p q)); [ring|unfold on_line; lra|exact (mixed_on_line x v false p q M)].
  - ring.
  - (* q on the line, p strictly below *)
    assert (M : hp_inside x v true p <> hp_inside x v true q).
    { rewrite (proj2 (hp_out_ge x v p) Gp), (proj2 (hp_in_ge x v q) Gq). discriminate. }
    rewrite (trl_vanish x v (hp_intersect x v p q) q); [ring|exact (mixed_on_line x v true p q M)|unfold on_line; lra].
  - (* p strictly below, q strictly above *)
    assert (M : hp_inside x v true p <> hp_inside x v true q).
    { rewrite (proj2 (hp_out_ge x v p) Gp), (proj2 (hp_in_ge x v q) Gq). discriminate. }
    destruct (hp_mixed x v true p q M) as (t & _ & _ & Hx & Hy & _).
    destruct (trl_split x v p q _ t Hx Hy) as [E1 E2]. rewrite E1, E2. ring.
  - (* p on the line, q strictly below *)
    assert (M : hp_inside x v true p <> hp_inside x v true q).
    { rewrite (proj2 (hp_in_ge x v p) Gp), (proj2 (hp_out_ge x v q) Gq). discriminate. }
    rewrite (trl_vanish x v p (hp_intersect x v p q)); [ring|unfold on_line; lra|exact (mixed_on_line x v true p q M)].
  - (* p strictly above, q strictly below *)
    assert (M : hp_inside x v true p <> hp_inside x v true q).
    { rewrite (proj2 (hp_in_ge x v p) Gp), (proj2 (hp_out_ge x v q) Gq). discriminate. }
    destruct (hp_mixed x v true p q M) as (t & _ & _ & Hx & Hy & _).
    destruct (trl_split x v p q _ t Hx Hy) as [E1 E2]. rewrite E1, E2. ring.
  - ring.
Qed.

(* AREA ADDITIVITY of the half-plane clipper, any polygon, any clip line *)
Theorem clip_area_add (x : bool) (v : Q) (P : polygon) :
  area2 (sh_clip1 x v true P) + area2 (sh_clip1 x v false P) == area2 P.
Proof.
  rewrite (area2_trl x v (sh_clip1 x v true P)), (area2_trl x v (sh_clip1 x v false P)), (area2_trl x v P).
  rewrite (cyc_clip x v true _ P (trl_proper x v) (trl_vanish x v)).
  rewrite (cyc_clip x v false _ P (trl_proper x v) (trl_vanish x v)).
  rewrite <- cyc_plus. apply cyc_ext. intros a b. apply wclip_add.
Qed.

(* ---------- clipping at v1 and then at v2 > v1 = clipping at v2 (in area) ---------- *)
Lemma wclip_absorb (x : bool) (v1 v2 : Q) (g : point -> point -> Q) : gproper g -> v1 < v2 ->
  forall p q, wclip x v1 true (wclip x v2 true g) p q == wclip x v2 true g p q.
Proof.
  intros Hg Hlt p q. unfold wclip at 1.
  destruct (hp_inside x v1 true q) eqn:Iq; destruct (hp_inside x v1 true p) eqn:Ip; try reflexivity.
  - (* p below v1, q above: I1 on (p,q) *)
    assert (M : hp_inside x v1 true p <> hp_inside x v1 true q) by congruence.
    apply hp_in_ge in Iq. apply hp_out_ge in Ip.
    assert (Hd : ~ coord x q == coord x p) by lra.
    destruct (hp_intersect_spec x v1 p q Hd) as (_ & _ & C1 & O1).
    set (I1 := hp_intersect x v1 p q) in *.
    unfold wclip.
    assert (F1 : hp_inside x v2 true I1 = false) by (apply hp_out_ge; lra).
    assert (F2 : hp_inside x v2 true p = false) by (apply hp_out_ge; lra).
    rewrite F1, F2. destruct (hp_inside x v2 true q) eqn:Jq; [|reflexivity].
    apply hp_in_ge in Jq. apply Hg; [|apply peq_refl].
    assert (Hd' : ~ coord x q == coord x I1) by lra.
    destruct (hp_intersect_spec x v2 I1 q Hd') as (_ & _ & C2 & O2).
    destruct (hp_intersect_spec x v2 p q Hd) as (_ & _ & C3 & O3).
    apply (peq_coords x); [lra|]. rewrite O2, O3, O1, C1. field. split; lra.
  - (* p above v1, q below: I1 on (p,q) *)
    assert (M : hp_inside x v1 true p <> hp_inside x v1 true q) by congruence.
    apply hp_out_ge in Iq. apply hp_in_ge in Ip.
    assert (Hd : ~ coord x q == coord x p) by lra.
    destruct (hp_intersect_spec x v1 p q Hd) as (_ & _ & C1 & O1).
    set (I1 := hp_intersect x v1 p q) in *.
    unfold wclip.
    assert (F1 : hp_inside x v2 true I1 = false) by (apply hp_out_ge; lra).
    assert (F2 : hp_inside x v2 true q = false) by (apply hp_out_ge; lra).
    rewrite F1, F2. destruct (hp_inside x v2 true p) eqn:Jp; [|reflexivity].
    apply hp_in_ge in Jp. apply Hg; [apply peq_refl|].
    assert (Hd' : ~ coord x I1 == coord x p) by lra.
    destruct (hp_intersect_spec x v2 p I1 Hd') as (_ & _ & C2 & O2).
    destruct (hp_intersect_spec x v2 p q Hd) as (_ & _ & C3 & O3).
    apply (peq_coords x); [lra|]. rewrite O2, O3, O1, C1. field. split; lra.
  - (* both below v1 *)
    apply hp_out_ge in Iq. apply hp_out_ge in Ip. unfold wclip.
    rewrite (proj2 (hp_out_ge x v2 q)), (proj2 (hp_out_ge x v2 p)) by lra. reflexivity.
Qed.

Lemma wclip_vanish_below (x : bool) (v1 v2 : Q) (g : point -> point -> Q) :
  v1 < v2 -> vanish x v1 (wclip x v2 true g).
Proof.
  intros Hlt a b Ha Hb. unfold on_line in *. unfold wclip.
  rewrite (proj2 (hp_out_ge x v2 a)), (proj2 (hp_out_ge x v2 b)) by lra. reflexivity.
Qed.

Theorem clip_area_absorb (x : bool) (v1 v2 : Q) (P : polygon) : v1 < v2 ->
  area2 (sh_clip1 x v2 true (sh_clip1 x v1 true P)) == area2 (sh_clip1 x v2 true P).
Proof.
  intro Hlt.
  rewrite (area2_trl x v2 (sh_clip1 x v2 true (sh_clip1 x v1 true P))), (area2_trl x v2 (sh_clip1 x v2 true P)).
  rewrite (cyc_clip x v2 true _ (sh_clip1 x v1 true P) (trl_proper x v2) (trl_vanish x v2)).
  rewrite (cyc_clip x v1 true _ P (wclip_proper x v2 true _ (trl_proper x v2)) (wclip_vanish_below x v1 v2 _ Hlt)).
  rewrite (cyc_clip x v2 true _ P (trl_proper x v2) (trl_vanish x v2)).
  apply cyc_ext. intros a b. apply wclip_absorb; [apply trl_proper|exact Hlt].
Qed.
