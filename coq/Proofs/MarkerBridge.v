(* Proofs/MarkerBridge.v — ties the executable list model Model/Marker.v (extracted, run by K against
   koala/chern_number.py) to the MathComp definitions of Proofs/MarkerMx.v:
     lmarker_correct      the generic list functions, instantiated at any numClosedFieldType C,
                          compute  'Im ((P * diag a * P * diag b * P) i i)  of the matrices read off the lists;
     gz_marker_correct    the Gaussian-integer instance (the extracted one) maps, under the ring embedding
                          gzC : Z*Z -> C, (a,b) |-> a + i b, to the same MathComp marker
                          (via the parametricity lemma MarkerFacts.lmarker_map);
     crosshair_num_correct / chern_num_correct   the two entry points of the driver;
     gz_projb_sound       the decidable check "Pz^* = Pz and Pz Pz = D Pz" run on every K input implies the
                          theorems' hypotheses for the embedded matrix. *)
From Coq Require Import ZArith.
From Coq Require List.
From mathcomp Require Import all_ssreflect all_algebra.
From mathcomp Require Import ssrZ ring zify.
From Koala Require Import Model.Marker Proofs.MarkerFacts Proofs.MarkerMx.
Set Implicit Arguments. Unset Strict Implicit. Unset Printing Implicit Defensive.
Import Order.Theory GRing.Theory Num.Theory.
Local Open Scope ring_scope.

(* stdlib list functions used by the model = MathComp's *)
Lemma Lmap_map (A B : Type) (f : A -> B) l : List.map f l = map f l.
Proof. by elim: l => //= x l ->. Qed.
Lemma Lseq_iota a n : List.seq a n = iota a n.
Proof. by elim: n a => //= n IH a; rewrite IH. Qed.
Lemma Llength_size (A : Type) (l : list A) : length l = size l.
Proof. by []. Qed.

Section ListToMx.
Variable R : ringType.
Variable n : nat.

Local Notation nthdR := (nthd R 0).
Local Notation nthrR := (nthr R).
Local Notation dotR := (dot R 0 +%R *%R).
Local Notation mmR := (mm R 0 +%R *%R n).

Definition mx_of (M : list (list R)) : 'M[R]_n := \matrix_(i, j) nthdR (nthrR M i) j.
Definition rv_of (a : list R) : 'rV[R]_n := \row_j nthdR a j.
Definition wfm (M : list (list R)) := size M = n /\ (forall r, r \in M -> size r = n).

Lemma nthdE l k : nthdR l k = nth 0 l k.
Proof. by elim: l k => [|x l IH] [|k] //=. Qed.
Lemma nthrE M k : nthrR M k = nth [::] M k.
Proof. by elim: M k => [|x l IH] [|k] //=. Qed.

Lemma dot_sum u v : size u = n -> size v = n ->
  dotR u v = \sum_(k < n) nthdR u k * nthdR v k.
Proof.
elim: n u v => [|m IH] [|x u] [|y v] //=; first by rewrite big_ord0.
move=> [su] [sv]; rewrite big_ord_recl /= IH //.
Qed.

Lemma mm_entry A B (i j : 'I_n) : wfm A -> size B = n ->
  nthdR (nthrR (mmR A B) i) j = \sum_(k < n) nthdR (nthrR A i) k * nthdR (nthrR B k) j.
Proof.
move=> [sA rA] sB; rewrite /mm !Lmap_map Lseq_iota nthrE nthdE.
rewrite (nth_map [::]) ?sA // (nth_map 0%N) ?size_iota // nth_iota // add0n.
rewrite dot_sum ?sB //; last 2 first.
- by rewrite rA // mem_nth // sA.
- by rewrite /col Lmap_map size_map.
apply: eq_bigr => k _; rewrite nthrE; congr (_ * _).
by rewrite /col Lmap_map nthdE (nth_map [::]) ?sB // nthrE.
Qed.

Lemma mm_wfm A B : size A = n -> wfm (mmR A B).
Proof.
move=> sA; split; first by rewrite /mm Lmap_map size_map.
move=> r; rewrite /mm Lmap_map => /mapP[r' _ ->].
by rewrite Lmap_map size_map Lseq_iota size_iota.
Qed.

Lemma mx_of_mm A B : wfm A -> size B = n -> mx_of (mmR A B) = mx_of A *m mx_of B.
Proof.
move=> wA sB; apply/matrixP=> i j; rewrite !mxE mm_entry //.
by apply: eq_bigr => k _; rewrite !mxE.
Qed.

Lemma diagm_entry a (i j : 'I_n) :
  nthdR (nthrR (diagm R 0 n a) i) j = if i == j then nthdR a i else 0.
Proof.
rewrite /diagm !Lmap_map Lseq_iota nthrE nthdE.
rewrite (nth_map 0%N) ?size_iota // (nth_map 0%N) ?size_iota // !nth_iota // !add0n.
Qed.

Lemma diagm_wfm a : wfm (diagm R 0 n a).
Proof.
split; first by rewrite /diagm Lmap_map size_map Lseq_iota size_iota.
move=> r; rewrite /diagm Lmap_map => /mapP[r' _ ->].
by rewrite Lmap_map size_map Lseq_iota size_iota.
Qed.

Lemma mx_of_diagm a : mx_of (diagm R 0 n a) = diag_mx (rv_of a).
Proof.
apply/matrixP=> i j; rewrite !mxE diagm_entry.
by case: eqP => [->|/eqP ne]; rewrite ?eqxx ?mulr1n // (negPf _) ?mulr0n.
Qed.

Lemma diagv_entry M (i : 'I_n) : nthdR (diagv R 0 n M) i = nthdR (nthrR M i) i.
Proof.
by rewrite /diagv Lmap_map Lseq_iota nthdE (nth_map 0%N) ?size_iota // nth_iota // add0n.
Qed.

Lemma mx_of_triple P a b : wfm P ->
  mx_of (triple R 0 +%R *%R n P a b)
  = mx_of P *m diag_mx (rv_of a) *m mx_of P *m diag_mx (rv_of b) *m mx_of P.
Proof.
move=> wP; have [sP _] := wP; rewrite /triple.
have w1 := mm_wfm (diagm R 0 n a) sP.
have w2 := mm_wfm P (proj1 w1).
have w3 := mm_wfm (diagm R 0 n b) (proj1 w2).
rewrite mx_of_mm // mx_of_mm //; last by case: (diagm_wfm b).
rewrite mx_of_mm // mx_of_mm //; last by case: (diagm_wfm a).
by rewrite !mx_of_diagm.
Qed.

End ListToMx.

(* ---------- the list model at T := C computes the MathComp marker ---------- *)
Section AtC.
Variable C : numClosedFieldType.
Variable n : nat.

Definition lmarkerC := lmarker C C 0 +%R *%R (fun z : C => 'Im z) n.

Lemma wf_shapeP (T : Type) (P : list (list T)) (a b : list T) :
  wf_shape T n P a b = true ->
  [/\ size P = n, (forall r, List.In r P -> size r = n), size a = n & size b = n].
Proof.
rewrite /wf_shape => /andP[/andP[/andP[sP rP] sa] sb].
split; try exact/PeanoNat.Nat.eqb_eq.
move=> r rin; apply/PeanoNat.Nat.eqb_eq.
by move/List.forallb_forall: rP; apply.
Qed.

Lemma In_mem (T : eqType) (x : T) l : x \in l -> List.In x l.
Proof. by elim: l => //= y l IH; rewrite inE => /orP[/eqP->|/IH]; [left|right]. Qed.

Theorem lmarker_correct (P : list (list C)) (a b : list C) :
  wf_shape C n P a b = true ->
  size (lmarkerC P a b) = n /\
  forall i : 'I_n, nth 0 (lmarkerC P a b) i = marker (mx_of n P) (rv_of n a) (rv_of n b) i.
Proof.
move=> /wf_shapeP[sP rP sa sb].
have wP : wfm n P by split=> // r /In_mem/rP.
rewrite /lmarkerC /lmarker Lmap_map size_map.
split; first by rewrite /diagv Lmap_map size_map Lseq_iota size_iota.
move=> i; rewrite (nth_map 0) ?/diagv ?Lmap_map ?size_map ?Lseq_iota ?size_iota //.
rewrite /marker /tripleP -mx_of_triple // mxE -diagv_entry nthdE.
by rewrite /diagv Lmap_map Lseq_iota.
Qed.

(* ---------- Gaussian integers (pairs of Z) embed into C ---------- *)
Definition zC (z : Z) : C := (int_of_Z z)%:~R.
Definition gzC (g : gz) : C := zC g.1 + 'i * zC g.2.

Lemma zC_real z : zC z \is Num.real. Proof. exact: realz. Qed.
Lemma zC0 : zC Z0 = 0. Proof. by []. Qed.
Lemma zCD x y : zC (Z.add x y) = zC x + zC y.
Proof. by rewrite /zC -[Z.add x y]/(x + y) !rmorphD. Qed.
Lemma zCM x y : zC (Z.mul x y) = zC x * zC y.
Proof. by rewrite /zC -[Z.mul x y]/(x * y) !rmorphM. Qed.
Lemma zCB x y : zC (Z.sub x y) = zC x - zC y.
Proof. by rewrite /zC -[Z.sub x y]/(x - y) !rmorphB. Qed.

Lemma gzC0 : gzC gz0 = 0. Proof. by rewrite /gzC /= zC0 mulr0 addr0. Qed.
Lemma gzCD x y : gzC (gzadd x y) = gzC x + gzC y.
Proof. by rewrite /gzC /gzadd /= !zCD mulrDr addrACA. Qed.
Lemma gzCM x y : gzC (gzmul x y) = gzC x * gzC y.
Proof.
rewrite /gzC /gzmul /= zCB zCD !zCM.
set a := zC x.1; set b := zC x.2; set c := zC y.1; set d := zC y.2.
have ii : 'i * 'i = -1 :> C by rewrite -expr2 sqrCi.
rewrite [RHS](_ : _ = a * c + 'i * (a * d) + 'i * (b * c) + ('i * 'i) * (b * d)); last by ring.
by rewrite ii; ring.
Qed.
Lemma gzC_im x : 'Im (gzC x) = zC (gzim x).
Proof. by rewrite /gzC Im_rect ?zC_real. Qed.

Definition gzmx (P : list (list gz)) : 'M[C]_n := mx_of n (List.map (List.map gzC) P).
Definition gzrv (a : list gz) : 'rV[C]_n := rv_of n (List.map gzC a).

(* what the extracted [gz_marker] (run by K against koala) computes *)
Theorem gz_marker_correct (P : list (list gz)) (a b : list gz) (l : list Z) :
  gz_marker n P a b = Some l ->
  size l = n /\ forall i : 'I_n, zC (nth Z0 l i) = marker (gzmx P) (gzrv a) (gzrv b) i.
Proof.
rewrite /gz_marker; case wf: (wf_shape gz n P a b) => // -[<-].
have wf' : wf_shape C n (List.map (List.map gzC) P) (List.map gzC a) (List.map gzC b) = true.
  by rewrite wf_shape_map.
have [sz ent] := lmarker_correct wf'.
have e := @lmarker_map gz Z C C gz0 gzadd gzmul gzim 0 +%R *%R (fun z : C => 'Im z) gzC zC gzC0 gzCD gzCM gzC_im n P a b.
rewrite /lmarkerC e Lmap_map size_map in sz; split=> // i.
by rewrite -ent /lmarkerC e Lmap_map (nth_map Z0) // sz.
Qed.


(* positions: scaled integers embedded in C *)
Definition zrv (xs : list Z) : 'rV[C]_n := rv_of n (List.map zC xs).

Lemma gzC_of_Z z : gzC (gz_of_Z z) = zC z.
Proof. by rewrite /gzC /= zC0 mulr0 addr0. Qed.

Lemma gzC_of_bool b : gzC (gz_of_bool b) = b%:R.
Proof. by case: b; rewrite /gzC /= zC0 mulr0 addr0. Qed.

Lemma zC_lt x X : (zC x < zC X) = Z.ltb x X.
Proof. by rewrite /zC ltr_int; apply/idP/idP; lia. Qed.

Lemma gzrv_of_Z xs : gzrv (List.map gz_of_Z xs) = zrv xs.
Proof.
apply/rowP=> j; rewrite !mxE !Lmap_map -map_comp !nthdE.
case: (ltnP j (size xs)) => h; last by rewrite !nth_default ?size_map.
by rewrite !(nth_map Z0) //= gzC_of_Z.
Qed.

Lemma gzrv_theta xs X : size xs = n -> gzrv (theta xs X) = stepv (zrv xs) (zC X).
Proof.
move=> sx; apply/rowP=> j; rewrite /theta !mxE !Lmap_map -map_comp !nthdE.
have h : (j < size xs)%N by rewrite sx.
by rewrite !(nth_map Z0) //= gzC_of_bool zC_lt.
Qed.

Lemma gz_marker_shape P a b l : gz_marker n P a b = Some l -> size a = n /\ size b = n.
Proof.
by rewrite /gz_marker; case wf: (wf_shape gz n P a b) => // _; case/wf_shapeP: wf.
Qed.

(* chern_number.py:5-27: what the extracted [crosshair_num] computes is the MathComp crosshair
   marker (strict step functions) of the embedded projector and positions *)
Theorem crosshair_num_correct P xs ys X Y l : size xs = n ->
  crosshair_num P xs ys X Y = Some l ->
  size l = n /\
  forall i : 'I_n, zC (nth Z0 l i) = crosshair (gzmx P) (zrv xs) (zrv ys) (zC X) (zC Y) i.
Proof.
move=> sx; rewrite /crosshair_num Llength_size sx => h.
have [_ sy] := gz_marker_shape h; rewrite /theta Lmap_map size_map in sy.
have [sz ent] := gz_marker_correct h; split=> // i.
by rewrite ent /crosshair !gzrv_theta.
Qed.

(* chern_number.py:30-49 *)
Theorem chern_num_correct P xs ys l : size xs = n ->
  chern_num P xs ys = Some l ->
  size l = n /\ forall i : 'I_n, zC (nth Z0 l i) = chern (gzmx P) (zrv xs) (zrv ys) i.
Proof.
move=> sx; rewrite /chern_num Llength_size sx => h.
have [sz ent] := gz_marker_correct h; split=> // i.
by rewrite ent /chern !gzrv_of_Z.
Qed.


(* ---------- soundness of the decidable projector check run on every K input ---------- *)
Lemma gz_eqbP a b : gz_eqb a b = true -> a = b.
Proof.
case: a b => [a1 a2] [b1 b2]; rewrite /gz_eqb /= => /andP[/Z.eqb_eq-> /Z.eqb_eq->] //.
Qed.

Lemma all2nP (f : nat -> nat -> bool) : all2n n f = true -> forall i j : 'I_n, f i j = true.
Proof.
rewrite /all2n => /List.forallb_forall h i j.
have inn (k : 'I_n) : List.In (k : nat) (List.seq 0 n).
  by apply/List.in_seq; split=> /=; [exact: PeanoNat.Nat.le_0_l | exact/ssrnat.ltP].
by have /List.forallb_forall := h _ (inn i); apply.
Qed.

Lemma gzmxE P (i j : 'I_n) : gzmx P i j = gzC (gz_entry P i j).
Proof. by rewrite /gzmx mxE /gz_entry (@nthr_map _ _ gzC) (@nthd_map _ _ gz0 0 gzC gzC0). Qed.

Lemma gzC_conj g : (gzC g)^* = gzC (gzconj g).
Proof.
rewrite /gzC /gzconj /= rmorphD rmorphM conjCi !(conj_Creal (zC_real _)).
by rewrite -[Z.opp g.2]/(- g.2) /zC rmorphN /= rmorphN /= mulrN mulNr.
Qed.

Theorem gz_projb_sound (D : Z) P : gz_projb n D P = true ->
  hermitian (gzmx P) /\ gzmx P *m gzmx P = zC D *: gzmx P.
Proof.
rewrite /gz_projb => /andP[/andP[/andP[sP rP] hb] ib].
have wP : wfm n (List.map (List.map gzC) P).
  split; first by rewrite Lmap_map size_map; exact/PeanoNat.Nat.eqb_eq.
  move=> r; rewrite Lmap_map => /mapP[r' /In_mem r'in ->]; rewrite Lmap_map size_map.
  by apply/PeanoNat.Nat.eqb_eq; move/List.forallb_forall: rP; apply.
split.
  apply/matrixP=> i j; rewrite adjmxE !gzmxE gzC_conj.
  by rewrite (gz_eqbP (all2nP hb i j)).
rewrite -mx_of_mm //; last by case: wP.
apply/matrixP=> i j; rewrite [in RHS]mxE gzmxE.
rewrite (@mm_map _ _ gz0 gzadd gzmul 0 +%R *%R gzC gzC0 gzCD gzCM) mxE (@nthr_map _ _ gzC) (@nthd_map _ _ gz0 0 gzC gzC0).
rewrite -/(gz_entry _ i j) (gz_eqbP (all2nP ib i j)) gzCM; congr (_ * _).
by rewrite /gzC /= zC0 mulr0 addr0.
Qed.

(* the integer numerators returned by the model sum to zero whenever the check accepts *)
Corollary gz_marker_sum_zero (D : Z) P a b l : gz_projb n D P = true ->
  (forall g, List.In g a -> g.2 = Z0) -> (forall g, List.In g b -> g.2 = Z0) ->
  gz_marker n P a b = Some l -> \sum_(i < n) zC (nth Z0 l i) = 0.
Proof.
move=> /gz_projb_sound[hP iP] ra rb /gz_marker_correct[sz ent].
rewrite (eq_bigr _ (fun i _ => ent i)).
have rv (c : list gz) : (forall g, List.In g c -> g.2 = Z0) -> realv (gzrv c).
  move=> rc j; rewrite mxE Lmap_map nthdE.
  case: (ltnP j (size c)) => h; last by rewrite nth_default ?size_map // real0.
  rewrite (nth_map gz0) // /gzC rc ?zC0 ?mulr0 ?addr0 ?zC_real //.
  by apply: In_mem; exact: mem_nth.
by apply: (marker_sum_zero_scaled hP (zC_real D) iP); apply: rv.
Qed.

End AtC.

(* ---------- the hypotheses of the C18 theorems are satisfiable with a non-zero marker ---------- *)
Lemma marker_hyps_nonvacuous (C : numClosedFieldType) :
  exists (P : 'M[C]_4) (x y : 'rV[C]_4) (X Y : C) (i : 'I_4),
    [/\ hermitian P, idempotent P, realv x, realv y & crosshair P x y X Y i != 0].
Proof.
have [pj [ch _]] := P4z_example.
have [hP iP] := gz_projb_sound C pj.
have c0 : zC C (Zpos 4) != 0 by rewrite /zC intr_eq0.
have [hP' iP'] := scaled_projector c0 (zC_real C _) hP iP.
have [_ ent] := @crosshair_num_correct C 4 P4z xs4 ys4 _ _ _ (erefl _) ch.
exists ((zC C (Zpos 4))^-1 *: gzmx C 4 P4z), (zrv C 4 xs4), (zrv C 4 ys4), (zC C (Zpos 2)), (zC C (Zpos 2)), ord0.
split=> //; try by move=> j; rewrite mxE Lmap_map nthdE; case: (ltnP j 4) => h;
  [rewrite (nth_map Z0) // zC_real | rewrite nth_default // real0].
rewrite /crosshair marker_scaleP ?rpredV ?zC_real // -/(crosshair _ _ _ _ _ _) -ent /=.
by rewrite mulf_neq0 ?expf_neq0 ?invr_eq0 // /zC intr_eq0.
Qed.
