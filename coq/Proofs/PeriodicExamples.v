(* Proofs/PeriodicExamples.v — C10 polygons_all_sizes for the generators that are tilings of a unit cell:
   tri_non_lattice for ALL nx, ny >= 2 (equal numbers of triangles and nonagons, nothing else; every plaquette
   convex with winding -1 and positive area; every directed edge on exactly one plaquette; V - E + F = 0). *)
From Coq Require Import List ZArith Bool Arith Lia ZifyBool Permutation Sorted.
From Koala Require Import Gen.TilingGen Model.Lattice Model.Tiling Model.Examples Proofs.LatticeFacts
     Proofs.TilingFacts Proofs.PeriodicRot Proofs.PeriodicFaces Proofs.PeriodicTile.
Import ListNotations.
Open Scope nat_scope.

(* what "closed periodic tiling by exactly census(k) k-gons" means, without size bound; N = number of cells *)
Definition census_all_sizes (L : lattice) (N : nat) (census : list nat) : Prop :=
  exists ps, find_all_plaquettes L = Some ps /\
    Permutation (map n_sides ps) (flat_map (fun _ => census) (seq 0 N)) /\
    (forall k, count_sides ps k = N * length (filter (fun x => x =? k) census)) /\
    length ps = N * length census /\
    (forall p, In p ps -> p_winding p = (-1)%Z /\ (0 < p_area2 p)%Z /\ NoDup (p_edges p)) /\
    NoDup (flat_map plaq_darts ps) /\
    (forall d, valid_dart L d <-> In d (flat_map plaq_darts ps)).

Lemma census_of_perm L N census ps :
  find_all_plaquettes L = Some ps ->
  Permutation (map n_sides ps) (flat_map (fun _ => census) (seq 0 N)) ->
  (forall p, In p ps -> p_winding p = (-1)%Z /\ (0 < p_area2 p)%Z /\ NoDup (p_edges p)) ->
  NoDup (flat_map plaq_darts ps) ->
  (forall d, valid_dart L d <-> In d (flat_map plaq_darts ps)) ->
  census_all_sizes L N census.
Proof.
  intros Hf P Hp Hn Hd. exists ps. split; [exact Hf|]. split; [exact P|]. split; [|split; [|split; [exact Hp|split; assumption]]].
  - intros k. rewrite (count_sides_perm ps _ k P). apply filter_flat_const.
  - rewrite <- (map_length n_sides), (Permutation_length P).
    pose proof (filter_flat_const (fun _ : nat => true) census N) as E.
    rewrite !filter_all in E by reflexivity. exact E.
Qed.

Definition tri_non_rots : list (list (nat * bool)) := cell_rots tri_non_cell.
Definition tri_non_faces : list (list (nat * bool)) := cell_faces tri_non_cell tri_non_rots.

Lemma tri_non_cert :
  wf_cell tri_non_cell = true /\ cell_simple tri_non_cell = true /\
  cell_cert_okb tri_non_cell tri_non_rots tri_non_faces = true /\
  edges_smallb tri_non_cell tri_non_faces = true /\ map (@length _) tri_non_faces = [9; 3].
Proof. vm_compute. repeat split; reflexivity. Qed.

(* tri_non_lattice, ALL sizes nx, ny >= 2: nx*ny nonagons and nx*ny triangles, nothing else *)
Theorem tri_non_all_sizes (nx ny : Z) : (2 <= nx)%Z -> (2 <= ny)%Z ->
  census_all_sizes (to_lattice (tri_non nx ny)) (Z.to_nat (nx * ny)) [9; 3].
Proof.
  intros Hx Hy. destruct tri_non_cert as (Hwf & Hs & Hc & He & Hl).
  destruct (tile_plaquettes tri_non_cell nx ny tri_non_rots tri_non_faces ltac:(lia) ltac:(lia) Hwf Hs Hc
              (edges_small_ok _ _ _ _ Hx Hy He)) as (ps & Hf & P & Hp & Hn & Hd).
  rewrite Hl in P. eapply census_of_perm; eassumption.
Qed.

(* the census in the words of the property, with Euler's relation *)
Corollary tri_non_census_all_sizes (nx ny : Z) : (2 <= nx)%Z -> (2 <= ny)%Z ->
  let L := to_lattice (tri_non nx ny) in let N := Z.to_nat (nx * ny) in
  exists ps, find_all_plaquettes L = Some ps /\
    count_sides ps 3 = N /\ count_sides ps 9 = N /\ length ps = 2 * N /\
    (forall k, k <> 3 -> k <> 9 -> count_sides ps k = 0) /\
    nV L + length ps = nE L /\
    (forall p, In p ps -> p_winding p = (-1)%Z /\ (0 < p_area2 p)%Z) /\
    (forall e b, e < nE L -> exists! i, i < length ps /\ In (e, b) (plaq_darts (nth i ps (mk_plaquette L [])))).
Proof.
  intros Hx Hy L N. destruct (tri_non_all_sizes nx ny Hx Hy) as (ps & Hf & P & Hc & Hlen & Hp & Hn & Hd).
  fold L N in Hf, P, Hc, Hlen, Hd.
  exists ps. split; [exact Hf|]. split; [rewrite Hc; cbn; lia|]. split; [rewrite Hc; cbn; lia|].
  split; [rewrite Hlen; cbn; lia|]. split; [|split; [|split]].
  - intros k H3 H9. rewrite Hc. cbn [filter]. destruct (Nat.eqb_spec 9 k); [lia|]. destruct (Nat.eqb_spec 3 k); [lia|]. cbn. lia.
  - rewrite Hlen. pose proof (tile_nV tri_non_cell nx ny ltac:(lia) ltac:(lia) eq_refl) as HV.
    pose proof (tile_nE tri_non_cell nx ny ltac:(lia) ltac:(lia) eq_refl) as HE.
    unfold tile_lattice in HV, HE. fold (tri_non nx ny) in HV, HE. fold L in HV, HE. rewrite HV, HE.
    unfold t_N. fold N. cbn. lia.
  - intros p Hin. destruct (Hp p Hin) as (H1 & H2 & _). split; assumption.
  - intros e b He. assert (Hin : In (e, b) (flat_map plaq_darts ps)) by (apply Hd; exact He).
    clear -Hin Hn. induction ps as [|p ps IH]; [destruct Hin|]. cbn [flat_map] in Hn, Hin.
    destruct (NoDup_app_elim _ _ Hn) as (_ & Hn' & Hdis). apply in_app_or in Hin as [Hin|Hin].
    + exists 0. split; [split; [cbn; lia|exact Hin]|]. intros j [Hj Hjn]. destruct j as [|j]; [reflexivity|exfalso].
      cbn [nth length] in *. apply (Hdis _ Hin). apply in_flat_map. exists (nth j ps (mk_plaquette L [])).
      split; [apply nth_In; lia|exact Hjn].
    + destruct (IH Hn' Hin) as (i & [Hi Hii] & Hu). exists (S i). split; [split; [cbn; lia|exact Hii]|].
      intros j [Hj Hjn]. destruct j as [|j].
      * exfalso. cbn [nth] in Hjn. apply (Hdis _ Hjn Hin).
      * f_equal. apply Hu. split; [cbn in Hj; lia|exact Hjn].
Qed.

(* areas of the tri-non tiling sum to 1 (twice the areas = 2 * scale^2), ALL nx, ny >= 2 *)
Theorem tri_non_area_all_sizes (nx ny : Z) : (2 <= nx)%Z -> (2 <= ny)%Z ->
  forall ps, find_all_plaquettes (to_lattice (tri_non nx ny)) = Some ps ->
  area2_sum ps = (2 * scale (to_lattice (tri_non nx ny)) * scale (to_lattice (tri_non nx ny)))%Z.
Proof.
  intros Hx Hy. destruct tri_non_cert as (Hwf & Hs & Hc & He & Hl).
  apply (tile_area tri_non_cell nx ny tri_non_rots tri_non_faces ltac:(lia) ltac:(lia) Hwf Hs Hc
           (edges_small_ok _ _ _ _ Hx Hy He)).
  vm_compute. reflexivity.
Qed.
